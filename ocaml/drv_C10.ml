(* USES: nat *)
(* requests (floats as %h tokens, "nan" = missing):
     charnock <alpha> <g> <nu> <visc> <kappa> <elev> <maxit> <n> U*   -> n z* drag*
     cfun <alpha> <g> <nu> <visc> <kappa> <elev> <n> ustar*          -> n z*        (charnock_roughness_length)
     gfun <alpha> <g> <nu> <visc> <kappa> <elev> <U> <n> z*          -> n G(z)*     (one plain step)
     fp <lo|nan> <hi|nan> <atol> <rtol> <maxit> <aitken> <n> (id a guess)*  -> n x*
     newton <id> <a> <b> <c> <guess> <hlo|nan> <hhi|nan> <maxit> <aitken> <atol> <rtol> <h> <relstep> <relax> <erronmax>
            -> (C x | M x | F code) lo hi bounded n e_1 .. e_n     (e_i: points where f was evaluated, in order)
     janssen <id> <a> <b> <c> <guess>                                 -> z0 | nan *)
let rd_par () =
  let alpha = rd_float () in let g = rd_float () in let nu = rd_float () in
  let visc = rd_float () in let kappa = rd_float () in let elev = rd_float () in
  { c_alpha = alpha; c_g = g; c_nu = nu; c_visc = visc; c_kappa = kappa; c_elev = elev }
let handle cmd =
  match cmd with
  | "charnock" ->
      let p = rd_par () in
      let maxit = rd_nat () in
      let us = rd_list rd_ofloat in
      let z = charnock_from_u10 p maxit us in
      let d = drag_charnock p maxit us in
      string_of_int (List.length z) ^ " " ^ String.concat " " (List.map pof z @ List.map pof d)
  | "cfun" ->
      let p = rd_par () in
      let us = rd_list rd_float in
      plist (fun u -> pf (charnock p u)) us
  | "gfun" ->
      let p = rd_par () in
      let u = rd_float () in
      let zs = rd_list rd_float in
      plist (fun z -> pof (charnock_G p u z)) zs
  | "fp" ->
      let lo = rd_ofloat () in let hi = rd_ofloat () in
      let atol = rd_float () in let rtol = rd_float () in
      let maxit = rd_nat () in let ait = rd_bool () in
      let st = rd_list (fun () -> let id = rd_nat () in let a = rd_float () in let g = rd_ofloat () in ((id, a), g)) in
      let cfg = { fp_atol = atol; fp_rtol = rtol; fp_maxit = maxit; fp_aitken = ait; fp_lo = lo; fp_hi = hi } in
      plist pof (fixed_point gf cfg st)
  | "newton" ->
      let id = rd_nat () in let a = rd_float () in let b = rd_float () in let c = rd_float () in
      let guess = rd_float () in
      let hlo = rd_ofloat () in let hhi = rd_ofloat () in
      let maxit = rd_nat () in let ait = rd_bool () in
      let atol = rd_float () in let rtol = rd_float () in let h = rd_float () in
      let rel = rd_bool () in let relax = rd_float () in let eom = rd_bool () in
      let cfg = { n_hard_lo = hlo; n_hard_hi = hhi; n_maxit = maxit; n_aitken = ait; n_atol = atol;
                  n_rtol = rtol; n_h = h; n_relstep = rel; n_relax = relax; n_err_on_max = eom } in
      (* the function is wrapped so that the sequence of evaluation points is recorded *)
      let log = ref [] in
      let fl x = log := x :: !log; tf id a b c x in
      let (r, s) = newton_run_state fl cfg guess in
      let tail = " " ^ pf s.s_lo ^ " " ^ pf s.s_hi ^ " " ^ pb s.s_bounded ^ " " ^ plist pf (List.rev !log) in
      (match r with
       | NConverged x -> "C " ^ pf x ^ tail
       | NMaxIter x -> "M " ^ pf x ^ tail
       | NFailed code -> "F " ^ string_of_int (int_of_nat code) ^ tail)
  | "janssen" ->
      let id = rd_nat () in let a = rd_float () in let b = rd_float () in let c = rd_float () in
      let guess = rd_float () in
      pof (janssen_point (tf id a b c) guess)
  | _ -> "ERR unknown"
let () = main_loop handle
