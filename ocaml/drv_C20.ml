(* USES: nat z *)
(* requests:
     stencil <order> <n>                     -> k num_1 den_1 ... (exact rationals, decimal)
     integrate <order> <n> <start> <t list> <x list> -> float list *)
let pq (q : q) = dec_of_z q.qnum ^ " " ^ dec_of_pos q.qden
let handle cmd =
  match cmd with
  | "stencil" ->
      let o = rd_nat () in let n = rd_nat () in
      plist pq (stencil o n)
  | "integrate" ->
      let o = rd_nat () in let n = rd_nat () in let s = rd_float () in
      let t = rd_list rd_float in let x = rd_list rd_float in
      plist pf (integrate t x o n s)
  | "choices" ->
      let o = rd_nat () in let n = rd_nat () in
      let t = rd_list rd_float in
      let nt = List.length t in
      let idx = List.init (nt - 1) (fun i -> nat_of_int (i + 1)) in
      let s0 = { prev_dt = List.nth t 1 -. List.nth t 0; restart = true; nconst = O } in
      plist pb (choices t n o (nat_of_int nt) idx s0)
  | _ -> "ERR unknown"
let () = main_loop handle
