(* USES: nat *)
(* requests:
     p1 <f list> <e list> <a1 list> <b1 list> <nbands> (fmin fmax)*
        -> per band: index(-1 = all NaN) frequency period direction spread   (5 tokens per band)
     p2 <theta list> <f list> <nrows> (<row list>)* <nbands> (fmin fmax)*
        -> same, with e, a1, b1 obtained by directional integration
     kw <f list> <npoints> (<e list> depth)*      peak_wavenumber of a batch (default band)
        -> E | (C|M) <k list>
     kinv <n> (w depth)*                          the solver on a batch
        -> (C|M) <k list>
     omega k depth -> float *)
let rd_fmax () = let x = rd_float () in if x = infinity then None else Some x
let rd_band () = let a = rd_float () in let b = rd_fmax () in (a, b)
let rd_raw () = let x = rd_float () in
  if Float.is_nan x then RawNaN else if x = infinity then RawInf else RawVal x
let pstatus = function Converged ks -> "C " ^ plist pof ks | MaxIter ks -> "M " ^ plist pof ks
let peak f e a1 b1 (fmin, fmax) =
  match peak_index fmin fmax f e with
  | None -> "-1 nan nan nan nan"
  | Some k ->
      String.concat " " [pnat k; pf (freq_at f k); pof (period_at f k);
                         pof (direction_at a1 b1 k); pof (spread_at a1 b1 k)]
let handle cmd =
  match cmd with
  | "p1" ->
      let f = rd_list rd_float in
      let e = rd_list rd_ofloat in
      let a1 = rd_list rd_ofloat in
      let b1 = rd_list rd_ofloat in
      let bands = rd_list rd_band in
      String.concat " " (List.map (peak f e a1 b1) bands)
  | "p2" ->
      let th = rd_list rd_float in
      let f = rd_list rd_float in
      let rows = rd_list (fun () -> rd_list rd_ofloat) in
      let bands = rd_list rd_band in
      let e = e2d th rows in
      let a1 = a1_2d th rows in
      let b1 = b1_2d th rows in
      String.concat " " (List.map (peak f e a1 b1) bands)
  | "kw" ->
      let f = rd_list rd_float in
      let b = rd_list (fun () -> let e = rd_list rd_ofloat in let d = rd_raw () in (e, d)) in
      (match peak_wavenumber f b with None -> "E" | Some s -> pstatus s)
  | "kw2" ->
      let th = rd_list rd_float in
      let f = rd_list rd_float in
      let b = rd_list (fun () -> let rows = rd_list (fun () -> rd_list rd_ofloat) in
                                 let d = rd_raw () in (e2d th rows, d)) in
      (match peak_wavenumber f b with None -> "E" | Some s -> pstatus s)
  | "kinv" ->
      let ps = rd_list (fun () -> let w = rd_float () in let d = rd_raw () in (w, depth_of d)) in
      pstatus (kinv ps)
  | "omega" ->
      let k = rd_float () in let d = rd_raw () in pof (omega k (depth_of d))
  | _ -> "ERR unknown"
let () = main_loop handle
