(* USES: nat *)
(* requests (one per line):
     p2d <nf> <nd> f[nf] th[nd] E[nf*nd] <nb> (fmin fmax)[nb]
        -> dstep[nd] e[nf] a1[nf] b1[nf] a2[nf] b2[nf] isd_frequency[nd] isd_both
           dir_pf[nf] spread_pf[nf] then for every band the 14 bulk values
     p1d <nf> f e a1 b1 a2 b2 <nb> (fmin fmax)[nb]
        -> dir_pf[nf] spread_pf[nf] then for every band the 14 bulk values
     nisd <nf> <nd> data[nf*nd] fstep[nf] dstep[nd] -> value
     wrap <delta> <period> <discont> -> value
   floats are hex; nan = missing; fmax = inf means no upper limit *)
let rd_n n (f : unit -> 'a) : 'a list =
  let acc = ref [] in
  for _ = 1 to n do acc := f () :: !acc done; List.rev !acc
let pon = function None -> "-1" | Some n -> pnat n
let rd_band () =
  let lo = rd_float () in let hi = rd_float () in
  (lo, if hi = infinity then None else Some hi)
let pbulk (b : bulk) =
  String.concat " " [ pf b.b_m0; pof b.b_hm0; pof b.b_tm01; pof b.b_tm02; pon b.b_peak_index;
    pof b.b_peak_frequency; pof b.b_peak_direction; pof b.b_peak_spread;
    pof b.b_mean_a1; pof b.b_mean_b1; pof b.b_mean_a2; pof b.b_mean_b2;
    pof b.b_mean_direction; pof b.b_mean_spread ]
let handle cmd =
  match cmd with
  | "p2d" ->
      let nf = rd_int () in let nd = rd_int () in
      let f = rd_n nf rd_float in let th = rd_n nd rd_float in
      let e2 = rd_n nf (fun () -> rd_n nd rd_ofloat) in
      let nb = rd_int () in let bands = rd_n nb rd_band in
      let e = List.map (fun row -> e_row row th) e2 in
      let a1 = List.map (fun row -> a1_row row th) e2 in
      let b1 = List.map (fun row -> b1_row row th) e2 in
      let a2 = List.map (fun row -> a2_row row th) e2 in
      let b2 = List.map (fun row -> b2_row row th) e2 in
      let eo = List.map (fun v -> Some v) e in
      String.concat " " ([ plist pf (dstep th); plist pf e; plist pof a1; plist pof b1; plist pof a2; plist pof b2;
                          plist pf (isd_frequency (nat_of_int nd) f e2); pf (isd_both f th e2);
                          plist pof (dir_per_frequency a1 b1); plist pof (spread_per_frequency a1 b1) ]
                        @ List.map (fun (lo, hi) -> pbulk (bulk_of lo hi f eo a1 b1 a2 b2)) bands)
  | "p1d" ->
      let nf = rd_int () in
      let f = rd_n nf rd_float in
      let e = rd_n nf rd_ofloat in
      let a1 = rd_n nf rd_ofloat in let b1 = rd_n nf rd_ofloat in
      let a2 = rd_n nf rd_ofloat in let b2 = rd_n nf rd_ofloat in
      let nb = rd_int () in let bands = rd_n nb rd_band in
      String.concat " " ([ plist pof (dir_per_frequency a1 b1); plist pof (spread_per_frequency a1 b1) ]
                        @ List.map (fun (lo, hi) -> pbulk (bulk_of lo hi f e a1 b1 a2 b2)) bands)
  | "nisd" ->
      let nf = rd_int () in let nd = rd_int () in
      let data = rd_n nf (fun () -> rd_n nd rd_float) in
      let fs = rd_n nf rd_float in let ds = rd_n nd rd_float in
      pf (numba_isd data fs ds)
  | "wrap" ->
      let d = rd_float () in let p = rd_float () in let c = rd_float () in
      pf (wrapdiff d p c)
  | _ -> "ERR unknown"
let () = main_loop handle
