(* USES: z *)
(* requests (all integers decimal; a string is  <n> code_1 .. code_n):
     civil y m d                 -> days since 1970-01-01
     days z                      -> y m d
     utc  <loc> <repr>           -> none | err | dt <instant_us> Y M D h mi s us <N | S off> | seq n ...
     to64 <loc> <repr>           -> none | err | ns v | seq n ...
     iso  <loc> <repr>           -> err | none | str n codes
     fmt  sep frac(T/F) Y M D h mi s us zone   (zone: zn | zz | zo neg(T/F) hh mm) -> str n codes
     timeint t -> seconds ;  dateint t -> y m d ;  packed d t -> N | S instant_us
   repr: none | aware Y M D h mi s us off | naive Y M D h mi s us | str n codes | int n | float num k
         | dt64 count unit_ns | seq n repr_1 .. repr_n *)
let rd_fields () =
  let y = rd_z () in let m = rd_z () in let d = rd_z () in let h = rd_z () in
  let mi = rd_z () in let s = rd_z () in let us = rd_z () in
  { fY = y; fM = m; fD = d; fh = h; fmi = mi; fs = s; fus = us }
let rec rd_repr () : repr =
  match next () with
  | "none" -> RNone
  | "aware" -> let f = rd_fields () in let off = rd_z () in RAware (f, off)
  | "naive" -> RNaive (rd_fields ())
  | "str" -> RStr (rd_list rd_z)
  | "int" -> RInt (rd_z ())
  | "float" -> let n = rd_z () in let k = rd_z () in RFloat (n, k)
  | "dt64" -> let c = rd_z () in let u = rd_z () in RDT64 (c, u)
  | "seq" -> RSeq (rd_list rd_repr)
  | t -> failwith ("repr? " ^ t)
let p_fields f = String.concat " " (List.map pz [f.fY; f.fM; f.fD; f.fh; f.fmi; f.fs; f.fus])
let p_dt d =
  let inst = match instant_of_dt d with Some i -> pz i | None -> "naive" in
  "dt " ^ inst ^ " " ^ p_fields d.dtf ^ " " ^ popt pz d.dttz
let rec p_res = function
  | ResNone -> "none" | ResErr -> "err" | ResDT d -> p_dt d
  | ResSeq l -> "seq " ^ plist p_res l
let rec p_r64 = function
  | R64None -> "none" | R64Err -> "err" | R64 v -> "ns " ^ pz v
  | R64Seq l -> "seq " ^ plist p_r64 l
let p_str s = "str " ^ plist pz s
let handle cmd =
  match cmd with
  | "civil" -> let y = rd_z () in let m = rd_z () in let d = rd_z () in pz (days_from_civil y m d)
  | "days" -> let (ym, d) = civil_from_days (rd_z ()) in let (y, m) = ym in pz y ^ " " ^ pz m ^ " " ^ pz d
  | "utc" -> let loc = rd_z () in p_res (to_datetime_utc loc (rd_repr ()))
  | "to64" -> let loc = rd_z () in p_r64 (to_datetime64 loc (rd_repr ()))
  | "iso" -> let loc = rd_z () in
      (match datetime_to_iso_time_string loc (rd_repr ()) with
       | None -> "err" | Some None -> "none" | Some (Some s) -> p_str s)
  | "fmt" -> let sep = rd_z () in let frac = rd_bool () in let f = rd_fields () in
      let z = (match next () with
               | "zn" -> ZoneNone | "zz" -> ZoneZ
               | "zo" -> let ng = rd_bool () in let hh = rd_z () in let mm = rd_z () in ZoneOff (ng, hh, mm)
               | t -> failwith ("zone? " ^ t)) in
      p_str (fmt_iso_gen sep frac f z)
  | "timeint" -> pz (time_from_timeint (rd_z ()))
  | "dateint" -> let (ym, d) = date_from_dateint (rd_z ()) in let (y, m) = ym in pz y ^ " " ^ pz m ^ " " ^ pz d
  | "packed" -> let d = rd_z () in let t = rd_z () in
      (match datetime_from_time_and_date_integers d t with
       | None -> "N" | Some x -> (match instant_of_dt x with Some i -> "S " ^ pz i | None -> "N"))
  | _ -> "ERR unknown"
let () = main_loop handle
