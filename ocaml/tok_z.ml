(* ---- tok_z.ml : Coq positive / Z <-> OCaml int (63 bit; inputs are kept below 2^62) ---- *)
let rec pos_of_int (n : int) : positive =
  if n <= 1 then XH else if n land 1 = 0 then XO (pos_of_int (n lsr 1)) else XI (pos_of_int (n lsr 1))
let rec int_of_pos (p : positive) : int =
  match p with XH -> 1 | XO q -> 2 * int_of_pos q | XI q -> 2 * int_of_pos q + 1
let z_of_int (n : int) : z = if n = 0 then Z0 else if n > 0 then Zpos (pos_of_int n) else Zneg (pos_of_int (- n))
let int_of_z (x : z) : int = match x with Z0 -> 0 | Zpos p -> int_of_pos p | Zneg p -> - (int_of_pos p)
let rd_z () : z = z_of_int (rd_int ())
let pz (x : z) = string_of_int (int_of_z x)
(* arbitrary precision decimal printing of a positive / Z (for exact rationals) *)
let rec dec_of_pos (p : positive) : string =
  (* decimal string by repeated doubling *)
  let double_add (s : string) (c : int) : string =
    let n = String.length s in
    let b = Bytes.make (n + 1) '0' in
    let carry = ref c in
    for i = n - 1 downto 0 do
      let d = 2 * (Char.code s.[i] - 48) + !carry in
      Bytes.set b (i + 1) (Char.chr (48 + d mod 10)); carry := d / 10
    done;
    Bytes.set b 0 (Char.chr (48 + !carry));
    let r = Bytes.to_string b in
    if r.[0] = '0' then String.sub r 1 n else r in
  match p with XH -> "1" | XO q -> double_add (dec_of_pos q) 0 | XI q -> double_add (dec_of_pos q) 1
let dec_of_z (x : z) : string = match x with Z0 -> "0" | Zpos p -> dec_of_pos p | Zneg p -> "-" ^ dec_of_pos p
