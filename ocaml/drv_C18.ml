(* USES: nat z *)
(* request:  hist <maxb> <par> <allow> <nops> op*        reply: one observation per op joined by " | "
   op  := G <nreq> req* | R r k | P | O <evict> | T name | A name | F j c | M p a
   req := r k <N|O|R|I> <N|T|F> <K v|N|B|H v|C v>
   name:= C r k | T r k | F j *)
let rd_name () = match next () with
  | "C" -> let r = rd_nat () in let k = rd_nat () in CName (r, k)
  | "T" -> let r = rd_nat () in let k = rd_nat () in TName (r, k)
  | "F" -> FName (rd_nat ())
  | t -> failwith ("name? " ^ t)
let rd_req () =
  let r = rd_nat () in let k = rd_nat () in
  let v = (match next () with "N" -> None | "O" -> Some VOk | "R" -> Some VReject | "I" -> Some VIOError | t -> failwith ("val? " ^ t)) in
  let p = (match next () with "N" -> None | "T" -> Some true | "F" -> Some false | t -> failwith ("post? " ^ t)) in
  let o = (match next () with
    | "K" -> DOk (rd_nat ()) | "N" -> DNotFound | "B" -> DFailBefore
    | "H" -> DFailPartial (rd_nat ()) | "C" -> DCrash (rd_nat ()) | t -> failwith ("out? " ^ t)) in
  { q_res = r; q_comment = k; q_validate = v; q_post = p; q_out = o }
let rd_op () = match next () with
  | "G" -> Get (rd_list rd_req)
  | "R" -> let r = rd_nat () in let k = rd_nat () in Remove (r, k)
  | "P" -> Purge
  | "O" -> Reopen (rd_bool ())
  | "T" -> Touch (rd_name ())
  | "A" -> Age (rd_name ())
  | "F" -> let j = rd_nat () in let c = rd_nat () in Foreign (j, c)
  | "M" -> let p = rd_bool () in let a = rd_bool () in SetMode (p, a)
  | t -> failwith ("op? " ^ t)
let pname = function
  | CName (r, k) -> Printf.sprintf "C.%d.%d" (int_of_nat r) (int_of_nat k)
  | TName (r, k) -> Printf.sprintf "T.%d.%d" (int_of_nat r) (int_of_nat k)
  | FName j -> Printf.sprintf "F.%d" (int_of_nat j)
let pcontent = function
  | Full (r, v) -> Printf.sprintf "F.%d.%d" (int_of_nat r) (int_of_nat v)
  | Post (r, v) -> Printf.sprintf "P.%d.%d" (int_of_nat r) (int_of_nat v)
  | Half (r, v) -> Printf.sprintf "H.%d.%d" (int_of_nat r) (int_of_nat v)
  | Blob j -> Printf.sprintf "B.%d" (int_of_nat j)
let obs (s, r) =
  let res = (match r with
    | Paths l -> "P:" ^ String.concat "," (List.map pname l)
    | Raised -> "R" | Crashed -> "X" | Done -> "D") in
  let files = String.concat "," (List.map (fun (n, f) -> pname n ^ "=" ^ pcontent f.fcontent ^ "@" ^ pz f.ftime) s.disk) in
  let ents = String.concat "," (List.map pname s.entries) in
  let fet = String.concat "," (List.map (fun r -> string_of_int (int_of_nat r)) s.fetched) in
  Printf.sprintf "res=%s files=%s entries=%s fetched=%s maxb=%s size=%s" res files ents fet (pz s.maxb) (pz (cache_size s))
let handle cmd =
  match cmd with
  | "hist" ->
      let mb = rd_z () in let p = rd_bool () in let a = rd_bool () in
      let ops = rd_list rd_op in
      String.concat " | " (List.map obs (run_trace (init mb p a) ops))
  | _ -> "ERR unknown"
let () = main_loop handle
