(* USES: nat *)
(* requests (period is always None here: C13 is the non periodic case)
     enc  <xp> <xs>                                   -> per x: i0 i1 frac_linear frac_nearest
     axis <nearest> <xp> <rows> <np> <xs>             -> per x: np values
     nd   <nearest> <naxes> <grid>*naxes <data> <npts> <pt>*npts -> npts values
     spec <nearest> <ext> <xp> <erows> <arows> <np> <xs>  -> per x: np energies, np moments
     energy <nearest> <ext> <xp> <erows> <np> <xs>    -> per x: np energies
     var  <has_coord> <nearest> <xp> <rows> <np> <xs> -> rows of the returned variable
     grid2 <nearest> <xp> <yp> <m rows [i][k]> <xs> <ys> -> for every y target, for every x target: value
   lists are  n v1 .. vn ; a value that may be NaN is written nan *)
let rd_rows () = rd_list (fun () -> rd_list rd_ofloat)
let cat l = String.concat " " l
let handle cmd =
  match cmd with
  | "enc" ->
      let xp = rd_list rd_float in
      let xs = rd_list rd_float in
      cat (List.map (fun x ->
        let (i0, i1) = enclosing xp x None in
        let fl = frac_n xp x (i0, i1) None false in
        let fn = frac_n xp x (i0, i1) None true in
        cat [pnat i0; pnat i1; pof fl; pof fn]) xs)
  | "axis" ->
      let nearest = rd_bool () in
      let xp = rd_list rd_float in
      let rows = rd_rows () in
      let np = rd_nat () in
      let xs = rd_list rd_float in
      cat (List.map (fun x -> cat (List.map pof (interp_axis1 xp rows x None nearest np))) xs)
  | "var" ->
      let hc = rd_bool () in
      let nearest = rd_bool () in
      let xp = rd_list rd_float in
      let rows = rd_rows () in
      let np = rd_nat () in
      let xs = rd_list rd_float in
      let out = interp_variable xp { v_has_coord = hc; v_rows = rows } xs None nearest np in
      cat (string_of_int (List.length out) :: List.map (fun r -> cat (List.map pof r)) out)
  | "nd" ->
      let nearest = rd_bool () in
      let na = rd_int () in
      let grids = List.init na (fun _ -> rd_list rd_float) in
      let periods = List.map (fun _ -> None) grids in
      let data = rd_list rd_ofloat in
      let npts = rd_int () in
      let pts = List.init npts (fun _ -> rd_list rd_float) in
      cat (List.map (fun pt -> pof (interp_nd grids periods data pt nearest)) pts)
  | "spec" ->
      let nearest = rd_bool () in
      let ext = rd_float () in
      let xp = rd_list rd_float in
      let erows = rd_rows () in
      let arows = rd_rows () in
      let np = rd_nat () in
      let xs = rd_list rd_float in
      cat (List.map (fun x ->
        let (e, a) = spectrum_interp1 xp erows arows x nearest ext np in
        cat (List.map pf e @ List.map pf a)) xs)
  | "energy" ->
      let nearest = rd_bool () in
      let ext = rd_float () in
      let xp = rd_list rd_float in
      let erows = rd_rows () in
      let np = rd_nat () in
      let xs = rd_list rd_float in
      cat (List.map (fun x -> cat (List.map pf (energy_interp1 xp erows x None nearest ext np))) xs)
  | "grid2" ->
      let nearest = rd_bool () in
      let xp = rd_list rd_float in
      let yp = rd_list rd_float in
      let m = rd_rows () in
      let xs = rd_list rd_float in
      let ys = rd_list rd_float in
      cat (List.map (fun r -> cat (List.map pof r)) (interp_grid2 xp yp m xs ys nearest))
  | _ -> "ERR unknown"
let () = main_loop handle
