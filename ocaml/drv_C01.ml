(* USES: nat *)
(* requests (floats as %h tokens; "nan" in a density list = missing value; fmax "inf" = no upper limit):
     s1 <f list> <e list> <nbands> (fmin fmax)*
        -> per band: m0 m1 m2 m3 m4 hm0 tm01 tm02          (8 tokens per band)
     s2 <theta list> <f list> <nrows> (<row list>)* <nbands> (fmin fmax)*
        -> <dstep list> <e list> then per band as for s1 *)
let rd_fmax () = let x = rd_float () in if x = infinity then None else Some x
let rd_band () = let a = rd_float () in let b = rd_fmax () in (a, b)
let bulk f e (fmin, fmax) =
  let ms = List.map (fun n -> pf (moment (nat_of_int n) fmin fmax f e)) [0; 1; 2; 3; 4] in
  String.concat " " (ms @ [pof (hm0 fmin fmax f e); pof (tm01 fmin fmax f e); pof (tm02 fmin fmax f e)])
let handle cmd =
  match cmd with
  | "s1" ->
      let f = rd_list rd_float in
      let e = rd_list rd_ofloat in
      let bands = rd_list rd_band in
      String.concat " " (List.map (bulk f e) bands)
  | "s2" ->
      let th = rd_list rd_float in
      let f = rd_list rd_float in
      let rows = rd_list (fun () -> rd_list rd_ofloat) in
      let bands = rd_list rd_band in
      let e = e2d th rows in
      String.concat " " ([plist pf (dstep th); plist pof e] @ List.map (bulk f e) bands)
  | _ -> "ERR unknown"
let () = main_loop handle
