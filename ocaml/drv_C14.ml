(* USES: nat *)
(* requests (opt = N | S x)
     fmod <p> <xs>                                    -> values
     wdiff <P> <disc> <deltas>                        -> values
     enc  <period opt> <xp> <xs>                      -> per x: i0 i1 frac_linear frac_nearest
     axis <period opt> <nearest> <dataperiod opt> <xp> <rows> <np> <xs>
            dataperiod N   -> per x: np values
            dataperiod S P -> per x: np triples  angle re im   (re, im = mean unit vector)
     energy <period opt> <nearest> <ext> <xp> <erows> <np> <xs> -> per x: np values
     nd   <nearest> <dataperiod opt> <naxes> (<period opt> <grid>)*naxes <data> <npts> <pt>*npts
            -> per point: value            (dataperiod N)
            -> per point: angle re im      (dataperiod S P)
     iper <xper opt> <fper opt> <fdisc opt> <left> <right> <xp> <fp> <xs>   -> values *)
let rd_rows () = rd_list (fun () -> rd_list rd_ofloat)
let cat l = String.concat " " l
let pvec = function None -> "nan nan" | Some (re, im) -> pf re ^ " " ^ pf im
let handle cmd =
  match cmd with
  | "fmod" ->
      let p = rd_float () in
      let xs = rd_list rd_float in
      cat (List.map (fun x -> pf (fmod x p)) xs)
  | "wdiff" ->
      let p = rd_float () in
      let d = rd_float () in
      let xs = rd_list rd_float in
      cat (List.map (fun x -> pf (wrapdiff x p d)) xs)
  | "atan2" ->
      let ys = rd_list rd_float in
      let xs = rd_list rd_float in
      cat (List.map2 (fun y x -> pf (atan2 y x)) ys xs)
  | "enc" ->
      let period = rd_opt rd_float in
      let xp = rd_list rd_float in
      let xs = rd_list rd_float in
      cat (List.map (fun x ->
        let (i0, i1) = enclosing xp x period in
        let fl = frac_n xp x (i0, i1) period false in
        let fn = frac_n xp x (i0, i1) period true in
        cat [pnat i0; pnat i1; pof fl; pof fn]) xs)
  | "axis" ->
      let period = rd_opt rd_float in
      let nearest = rd_bool () in
      let dper = rd_opt rd_float in
      let xp = rd_list rd_float in
      let rows = rd_rows () in
      let np = rd_nat () in
      let xs = rd_list rd_float in
      (match dper with
       | None ->
           cat (List.map (fun x -> cat (List.map pof (interp_axis1 xp rows x period nearest np))) xs)
       | Some p ->
           cat (List.map (fun x ->
             let a = interp_axis1_pd xp rows x period nearest np p in
             let v = interp_axis1_pd_vec xp rows x period nearest np p in
             cat (List.map2 (fun a v -> pof a ^ " " ^ pvec v) a v)) xs))
  | "energy" ->
      let period = rd_opt rd_float in
      let nearest = rd_bool () in
      let ext = rd_float () in
      let xp = rd_list rd_float in
      let erows = rd_rows () in
      let np = rd_nat () in
      let xs = rd_list rd_float in
      cat (List.map (fun x -> cat (List.map pf (energy_interp1 xp erows x period nearest ext np))) xs)
  | "nd" ->
      let nearest = rd_bool () in
      let dper = rd_opt rd_float in
      let na = rd_int () in
      let ax = List.init na (fun _ -> let p = rd_opt rd_float in let g = rd_list rd_float in (p, g)) in
      let periods = List.map fst ax in
      let grids = List.map snd ax in
      let data = rd_list rd_ofloat in
      let npts = rd_int () in
      let pts = List.init npts (fun _ -> rd_list rd_float) in
      (match dper with
       | None -> cat (List.map (fun pt -> pof (interp_nd grids periods data pt nearest)) pts)
       | Some p ->
           cat (List.map (fun pt ->
             pof (interp_nd_pd grids periods data pt nearest p) ^ " " ^
             pvec (interp_nd_pd_vec grids periods data pt nearest p)) pts))
  | "iper" ->
      let xper = rd_opt rd_float in
      let fper = rd_opt rd_float in
      let fdisc = rd_opt rd_float in
      let left = rd_ofloat () in
      let right = rd_ofloat () in
      let xp = rd_list rd_float in
      let fp = rd_list rd_ofloat in
      let xs = rd_list rd_float in
      cat (List.map (fun x -> pof (interp_periodic xp fp x xper fper fdisc left right)) xs)
  | _ -> "ERR unknown"
let () = main_loop handle
