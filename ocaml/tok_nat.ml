(* ---- tok_nat.ml ---- *)
let rec nat_of_int (n : int) : nat = if n <= 0 then O else S (nat_of_int (n - 1))
let int_of_nat (n : nat) : int = let rec go acc = function O -> acc | S m -> go (acc + 1) m in go 0 n
let rd_nat () : nat = nat_of_int (rd_int ())
let pnat (n : nat) = string_of_int (int_of_nat n)
