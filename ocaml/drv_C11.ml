(* USES: nat *)
(* requests (all floats as %h tokens, lists as "<n> v1 .. vn", fields as "<nf> <nd> v..." row-major):
     newton kind a b c lo hi maxit aitken atol rtol step relstep relax guess
            -> "C x" | "M x" | "F FunRaise|DivZero|Stationary"
     dissdir <k> <theta> <df> <dth> <D field>          -> direction bulk kx ky
     balance <df> <dth> target u <G field> <T field>   -> F bulk_in active_dedt
     toybulk kind amp a b q d0 diriter target guess gdir newdir <theta> <df> <dth> <E field> <T field>
            -> u10 direction   (nan = None)
     toypoints kind amp a b q d0 diriter dc newdir <k> <theta> <df> <dth> <T field> npoints { guess <E field> }*
            -> 2*npoints floats (u10 direction per point)
     wrap180 x -> float ; fmod x p -> float ; atan2 y x -> float *)
let rd_bound () : float option =
  let x = rd_float () in if x = infinity || x = neg_infinity then None else Some x
let rd_field () : float list list =
  let nf = rd_int () in let nd = rd_int () in
  let rows = ref [] in
  for _ = 1 to nf do
    let r = ref [] in
    for _ = 1 to nd do r := rd_float () :: !r done;
    rows := List.rev !r :: !rows
  done; List.rev !rows
let pstatus = function
  | Converged x -> "C " ^ pf x
  | MaxIter x -> "M " ^ pf x
  | Failed FunRaise -> "F FunRaise"
  | Failed DivZero -> "F DivZero"
  | Failed Stationary -> "F Stationary"
let toy_field kind amp a b q d0 e dir u = toy_gen kind amp a b q d0 e dir u
let handle cmd =
  match cmd with
  | "newton" ->
      let kind = rd_nat () in
      let a = rd_float () in let b = rd_float () in let c = rd_float () in
      let lo = rd_bound () in let hi = rd_bound () in
      let maxit = rd_nat () in let aitken = rd_bool () in
      let atol = rd_float () in let rtol = rd_float () in let step = rd_float () in
      let relstep = rd_bool () in let relax = rd_float () in
      let guess = rd_float () in
      let cf = { c_lo = lo; c_hi = hi; c_maxit = maxit; c_aitken = aitken; c_atol = atol; c_rtol = rtol;
                 c_step = step; c_relstep = relstep; c_relax = relax } in
      pstatus (run_test kind a b c cf guess)
  | "dissdir" ->
      let k = rd_list rd_float in let th = rd_list rd_float in
      let df = rd_list rd_float in let dth = rd_list rd_float in
      let d = rd_field () in
      let g = { g_theta = th; g_df = df; g_dth = dth } in
      String.concat " " [ pf (diss_direction d k g); pf (diss_bulk d g); pf (diss_kx d k g); pf (diss_ky d k g) ]
  | "balance" ->
      let df = rd_list rd_float in let dth = rd_list rd_float in
      let target = rd_float () in let u = rd_float () in
      let gf = rd_field () in let tf = rd_field () in
      let g = { g_theta = []; g_df = df; g_dth = dth } in
      String.concat " " [ pof (balance_fn (fun _ -> Some gf) tf g target u);
                          pf (integrate2 gf df dth); pf (active_dedt gf tf df dth) ]
  | "toybulk" ->
      let kind = rd_nat () in
      let amp = rd_float () in let a = rd_float () in let b = rd_float () in
      let q = rd_float () in let d0 = rd_float () in
      let diriter = rd_bool () in
      let target = rd_float () in let guess = rd_float () in let gdir = rd_float () in
      let nd = rd_ofloat () in
      let th = rd_list rd_float in let df = rd_list rd_float in let dth = rd_list rd_float in
      let e = rd_field () in let tf = rd_field () in
      let g = { g_theta = th; g_df = df; g_dth = dth } in
      let ff dir = balance_fn (toy_field kind amp a b q d0 e dir) tf g target in
      (* _total_stress_point: friction velocity 0 (U10 = 0) gives a NaN direction *)
      let (u, d) = u10_from_bulk_rate_point ff (fun u _ -> if u = 0.0 then Some None else Some nd) diriter target guess gdir in
      pof u ^ " " ^ pof d
  | "toyF" ->
      let kind = rd_nat () in
      let amp = rd_float () in let a = rd_float () in let b = rd_float () in
      let q = rd_float () in let d0 = rd_float () in
      let target = rd_float () in let dir = rd_float () in let u = rd_float () in
      let th = rd_list rd_float in let df = rd_list rd_float in let dth = rd_list rd_float in
      let e = rd_field () in let tf = rd_field () in
      let g = { g_theta = th; g_df = df; g_dth = dth } in
      pof (balance_fn (toy_field kind amp a b q d0 e dir) tf g target u)
  | "toypoints" ->
      let kind = rd_nat () in
      let amp = rd_float () in let a = rd_float () in let b = rd_float () in
      let q = rd_float () in let d0 = rd_float () in
      let diriter = rd_bool () in
      let dc = rd_float () in
      let nd = rd_ofloat () in
      let k = rd_list rd_float in
      let th = rd_list rd_float in let df = rd_list rd_float in let dth = rd_list rd_float in
      let tf = rd_field () in
      let np = rd_int () in
      let pts = ref [] in
      for _ = 1 to np do
        let guess = rd_float () in
        let e = rd_field () in
        let diss = List.map (fun row -> List.map (fun v -> (-. dc) *. v) row) e in
        pts := { p_diss = diss; p_k = k; p_guess = guess;
                 p_gen = (fun dir u -> toy_field kind amp a b q d0 e dir u);
                 p_dedt = tf; p_newdir = (fun u _ -> if u = 0.0 then Some None else Some nd) } :: !pts
      done;
      let g = { g_theta = th; g_df = df; g_dth = dth } in
      let res = u10_from_spectra g diriter (List.rev !pts) in
      String.concat " " (List.map (fun (u, d) -> pof u ^ " " ^ pof d) res)
  | "wrap180" -> let x = rd_float () in pf (wrap180 x)
  | "fmod" -> let x = rd_float () in let p = rd_float () in pf (fmod x p)
  | "atan2" -> let y = rd_float () in let x = rd_float () in pf (atan2 y x)
  | _ -> "ERR unknown"
let () = main_loop handle
