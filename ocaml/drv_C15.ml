(* USES: nat *)
(* requests:
     unravel <shape list> k              -> index list
     ravel <shape list> <index list>     -> k
     flatidx <shape list>                -> n  then for every k the multi-index (rank numbers each)
     concatget m i <n> <l_1> .. <l_n>    (every l_j a float list)  -> float list  = getitem m i (concat ls)
     trace <nvars v_1..v_nv>  <nops> op_1 .. op_nops
         the heap starts with one Create of the given variables (object 0); an op is
           pure <k 0..4> <self> <n others..> | fillna t | mulin t | save t | create <n vars..>
         -> per op:  r <oid|-1>  c <n changed oids..>  s <n (var kind)..>
            (s: variables of the returned object that share a buffer with an object live before; kind D|I) *)
let rd_op () : op =
  match next () with
  | "pure" ->
      let k = (match rd_int () with 0 -> KDeepCopy | 1 -> KArith | 2 -> KView | 3 -> KSpectralFresh | _ -> KAllFresh) in
      let s = rd_nat () in let ot = rd_list rd_nat in Pure (k, s, ot)
  | "fillna" -> Fillna (rd_nat ())
  | "mulin" -> MulInplace (rd_nat ())
  | "save" -> Save (rd_nat ())
  | "create" -> Create (rd_list rd_nat)
  | t -> failwith ("op? " ^ t)
let handle cmd =
  match cmd with
  | "unravel" -> let sh = rd_list rd_nat in let k = rd_nat () in plist pnat (unravel sh k)
  | "ravel" -> let sh = rd_list rd_nat in let idx = rd_list rd_nat in pnat (ravel sh idx)
  | "flatidx" ->
      let sh = rd_list rd_nat in
      let n = int_of_nat (nprod sh) in
      let buf = Buffer.create 256 in
      Buffer.add_string buf (string_of_int n);
      for k = 0 to n - 1 do
        List.iter (fun i -> Buffer.add_string buf (" " ^ pnat i)) (unravel sh (nat_of_int k))
      done;
      Buffer.contents buf
  | "concatget" ->
      let m = rd_nat () in let i = rd_nat () in
      let ls = rd_list (fun () -> rd_list rd_float) in
      plist pf (getitem m i (concat_new_dim ls))
  | "trace" ->
      let vars = rd_list rd_nat in
      let ops = rd_list rd_op in
      let (h0, _) = step empty_heap (Create vars) in
      let h = ref h0 in
      let out = ref [] in
      List.iter (fun o ->
        let (h', res) = step !h o in
        let ch = changed !h h' in
        let (r, sh) = (match res with
          | Some oid ->
              let isnew = int_of_nat oid >= List.length (!h).objs in
              let ob = List.nth h'.objs (int_of_nat oid) in
              (string_of_int (int_of_nat oid),
               if isnew then List.map (fun (v, k) -> pnat v ^ " " ^ (match k with BData -> "D" | BIndex -> "I")) (shared_with_old !h ob) else [])
          | None -> ("-1", [])) in
        out := ("r " ^ r ^ " c " ^ plist pnat ch ^ " s " ^ String.concat " " (string_of_int (List.length sh) :: sh)) :: !out;
        h := h') ops;
      String.concat " " (List.rev !out)
  | _ -> "ERR unknown"
let () = main_loop handle
