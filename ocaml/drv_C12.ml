(* USES: nat *)
(* requests (one spectrum per line):
     est1d <P|M> <cf T|F> <11 params> <fs> <es> <a1s> <b1s>   -> "X" (raises) | ustar dir u10
     eq    <P|M> <11 params> <fs> <es> <a1s> <b1s>            -> "X" | e a1 b1
     est2d <P|M> <cf> <params> <fs> <dirs> <nrows> <row>...   -> "X" | ustar dir u10
     red2d <dirs> <nrows> <row>...                            -> es a1s b1s (three lists)
     dsteps <dirs>                                            -> list
   params: power fmax I beta kappa grav nb alpha gc visc nu *)
let rd_method () = match next () with "P" -> Peak | "M" -> Mean | t -> failwith ("method? " ^ t)
let rd_params () =
  let power = rd_float () in let fmax = rd_float () in let i = rd_float () in
  let beta = rd_float () in let kappa = rd_float () in let grav = rd_float () in
  let nb = rd_nat () in let alpha = rd_float () in let gc = rd_float () in
  let visc = rd_float () in let nu = rd_float () in
  { p_power = power; p_fmax = fmax; p_I = i; p_beta = beta; p_kappa = kappa; p_grav = grav;
    p_nb = nb; p_alpha = alpha; p_gc = gc; p_visc = visc; p_nu = nu }
let p3 = function
  | None -> "X"
  | Some ((a, b), c) -> pof a ^ " " ^ pof b ^ " " ^ pof c
let handle cmd =
  match cmd with
  | "est1d" ->
      let m = rd_method () in let cf = rd_bool () in let p = rd_params () in
      let fs = rd_list rd_float in let es = rd_list rd_ofloat in
      let a1 = rd_list rd_ofloat in let b1 = rd_list rd_ofloat in
      p3 (estimate1d m cf p fs es a1 b1)
  | "eq" ->
      let m = rd_method () in let p = rd_params () in
      let fs = rd_list rd_float in let es = rd_list rd_ofloat in
      let a1 = rd_list rd_ofloat in let b1 = rd_list rd_ofloat in
      p3 (eq_values m p fs es a1 b1)
  | "est2d" ->
      let m = rd_method () in let cf = rd_bool () in let p = rd_params () in
      let fs = rd_list rd_float in let dirs = rd_list rd_float in
      let rows = rd_list (fun () -> rd_list rd_ofloat) in
      p3 (estimate2d m cf p fs dirs rows)
  | "red2d" ->
      let dirs = rd_list rd_float in
      let rows = rd_list (fun () -> rd_list rd_ofloat) in
      let ((es, a1), b1) = reduce2d dirs rows in
      plist pof es ^ " " ^ plist pof a1 ^ " " ^ plist pof b1
  | "dsteps" -> plist pf (dsteps (rd_list rd_float))
  | _ -> "ERR unknown"
let () = main_loop handle
