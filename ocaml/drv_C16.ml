(* USES: nat *)
(* requests:
     ts1  <comp> <fs> <n> <xp> <e> <phases (one per FFT bin)>                     -> "X" | time list, series list
     ts2  <comp> <fs> <n> <xp> <dirs> <ncols> <col>... <nrows> <phase row>...     -> "X" | time list, series list
     ss1 / ss2  same arguments followed by <list of sample indices as floats>     -> nfft, samples at those indices
     grid <fs> <n>                                                                -> nfft, freqs list, steps list
     resample <xp> <e> <fs> <n>                                                   -> resampled E list
     fstep <f list> / dstep <direction list>                                      -> frequency_step / direction_step *)
let rd_comp () = match next () with
  | "u" -> CU | "v" -> CV | "w" -> CW | "x" -> CX | "y" -> CY | "z" -> CZ | t -> failwith ("component? " ^ t)
let rd_cols2 () =
  let dirs = rd_list rd_float in
  let ecols = rd_list (fun () -> rd_list rd_float) in
  cols2d dirs ecols
let out = function
  | None -> "X"
  | Some (t, s) -> plist pf t ^ " " ^ plist pf s
let handle cmd =
  match cmd with
  | "ts1" ->
      let c = rd_comp () in let fs = rd_float () in let n = rd_nat () in
      let xp = rd_list rd_float in let e = rd_list rd_float in
      let ph = List.map (fun p -> [p]) (rd_list rd_float) in
      out (surface_timeseries c fs n xp (cols1d e) ph)
  | "ts2" ->
      let c = rd_comp () in let fs = rd_float () in let n = rd_nat () in
      let xp = rd_list rd_float in let cols = rd_cols2 () in
      let ph = rd_list (fun () -> rd_list rd_float) in
      out (surface_timeseries c fs n xp cols ph)
  | "ss1" ->
      let c = rd_comp () in let fs = rd_float () in let n = rd_nat () in
      let xp = rd_list rd_float in let e = rd_list rd_float in
      let ph = List.map (fun p -> [p]) (rd_list rd_float) in
      let idx = rd_list rd_float in
      let x = spectrum_amplitudes c fs n xp (cols1d e) ph in
      let nn = nfft n in
      pnat nn ^ " " ^ plist pf (List.map (fun t -> sample nn x t) idx)
  | "ss2" ->
      let c = rd_comp () in let fs = rd_float () in let n = rd_nat () in
      let xp = rd_list rd_float in let cols = rd_cols2 () in
      let ph = rd_list (fun () -> rd_list rd_float) in
      let idx = rd_list rd_float in
      let x = spectrum_amplitudes c fs n xp cols ph in
      let nn = nfft n in
      pnat nn ^ " " ^ plist pf (List.map (fun t -> sample nn x t) idx)
  | "grid" ->
      let fs = rd_float () in let n = rd_nat () in
      let fg = fft_freqs fs n in
      pnat (nfft n) ^ " " ^ plist pf fg ^ " " ^ plist pf (frequency_step fg)
  | "resample" ->
      let xp = rd_list rd_float in let e = rd_list rd_float in
      let fs = rd_float () in let n = rd_nat () in
      plist pf (resampled xp e (fft_freqs fs n))
  | "fstep" -> plist pf (frequency_step (rd_list rd_float))
  | "dstep" -> plist pf (dsteps (rd_list rd_float))
  | _ -> "ERR unknown"
let () = main_loop handle
