(* USES: nat *)
(* requests (floats as %h tokens, lists as "n x1 .. xn"):
     incrn <th>                      -> list           (mem2_newton increments)
     incru <th>                      -> list           (utils.get_direction_increment)
     mem <th> a1 b1 a2 b2            -> N | S list cond   (cond = conditioning estimate)
     dist l1 l2 l3 l4 <d> <th>       -> list
     cons l1..l4 m1..m4 <d> <th>     -> 4 floats
     jac l1..l4 <d> <th>             -> 16 floats (row major)
     init a1 b1 a2 b2                -> 4 floats
     chol <16 floats row major> r1..r4 -> N margin | S margin x1..x4
     newton maxiter depth atol m1..m4 g1..g4 <d> <th>
                                     -> status iters l1..l4 margin  <dist list>
     entry variant <dirs_deg> a1 b1 a2 b2   (nan = None)
                                     -> D list(of nan-able floats) | U | R
     rt <e> <rows: k lists> <step>   -> list (dint of to_2d) *)
let rd4 () = let a = rd_float () in let b = rd_float () in let c = rd_float () in let d = rd_float () in
  { q1 = a; q2 = b; q3 = c; q4 = d }
let p4 v = String.concat " " [pf v.q1; pf v.q2; pf v.q3; pf v.q4]
let status_s = function Converged -> "converged" | MaxIter -> "maxiter" | LineFail -> "linefail"
  | NeedsLstsq -> "lstsq" | ZeroDiv -> "zerodiv"
(* smallest relative distance to a branch flip among the logged tests lhs < rhs *)
let margin lg =
  List.fold_left (fun acc (l, r) ->
      let s = Float.max (Float.abs l) (Float.abs r) in
      let m = if s = 0.0 then 0.0 else Float.abs (l -. r) /. s in
      if Float.is_nan m then 0.0 else Float.min acc m) infinity lg
let handle cmd =
  match cmd with
  | "incrn" -> let th = rd_list rd_float in plist pf (incr_newton th)
  | "incru" -> let th = rd_list rd_float in plist pf (incr_utils th)
  | "mem" ->
      let th = rd_list rd_float in
      let a1 = rd_float () in let b1 = rd_float () in let a2 = rd_float () in let b2 = rd_float () in
      (match mem_point th a1 b1 a2 b2 with
       | None -> "N"
       | Some dd ->
           let p = mem_phi1 a1 b1 a2 b2 in let q = mem_phi2 a1 b1 a2 b2 in
           let m = 1.0 +. Float.abs (fst p) +. Float.abs (snd p) +. Float.abs (fst q) +. Float.abs (snd q) in
           let c = List.fold_left (fun acc t -> Float.max acc (m *. m /. mem_den p q t)) 1.0 th in
           let c2 = (1.0 +. Float.abs a2 +. Float.abs b2) /. Float.abs (mem_one_minus_c1sq a1 b1) in
           let c3 = m *. (1.0 +. Float.abs a2 +. Float.abs b2) /. Float.abs (mem_num a1 b1 a2 b2) in
           "S " ^ plist pf dd ^ " " ^ pf (c *. (1.0 +. c2)) ^ " " ^ pf c3)
  | "dist" ->
      let l = rd4 () in let d = rd_list rd_float in let th = rd_list rd_float in
      plist pf (dist l d th)
  | "cons" ->
      let l = rd4 () in let m = rd4 () in let d = rd_list rd_float in let th = rd_list rd_float in
      p4 (constraints l m d th)
  | "jac" ->
      let l = rd4 () in let d = rd_list rd_float in let th = rd_list rd_float in
      let out = ref [] in
      for m = 0 to 3 do for n = 0 to 3 do
        out := pf (jacobian l d th (nat_of_int m) (nat_of_int n)) :: !out done done;
      String.concat " " (List.rev !out)
  | "init" ->
      let a1 = rd_float () in let b1 = rd_float () in let a2 = rd_float () in let b2 = rd_float () in
      p4 (initial_value a1 b1 a2 b2)
  | "chol" ->
      let a = Array.init 16 (fun _ -> rd_float ()) in
      let r = rd4 () in
      let (sol, lg) = chol_solve (fun m n -> a.(4 * int_of_nat m + int_of_nat n)) r in
      (match sol with
       | None -> "N " ^ pf (margin lg) | Some x -> "S " ^ pf (margin lg) ^ " " ^ p4 x)
  | "newton" ->
      let mi = rd_nat () in let dp = rd_nat () in let atol = rd_float () in
      let m = rd4 () in let g = rd4 () in let d = rd_list rd_float in let th = rd_list rd_float in
      let (((st, it), lg), iters) = newton mi dp atol m g d th in
      String.concat " " [status_s st; pnat iters; p4 it; pf (margin lg); plist pf (dist it d th)]
  | "entry" ->
      let v = (match next () with "mem" -> VMem | "newton" -> VNewton | "approx" -> VApprox
                                | t -> failwith ("variant? " ^ t)) in
      let dirs = rd_list rd_float in
      let a1 = rd_ofloat () in let b1 = rd_ofloat () in let a2 = rd_ofloat () in let b2 = rd_ofloat () in
      (match estimate_entry v dirs a1 b1 a2 b2 with
       | EDist dd -> "D " ^ plist pof dd
       | EUnmodelled -> "U"
       | ERaises -> "R")
  | "entryn" ->
      let dirs = rd_list rd_float in
      let m = rd4 () in
      let th = to_rad dirs in let d = incr_newton th in
      let g = initial_value m.q1 m.q2 m.q3 m.q4 in
      if Float.is_nan (m.q1 +. m.q2 +. m.q3 +. m.q4) then "nan 0 nan nan nan nan inf" else
      let (((st, it), lg), iters) = newton (nat_of_int 100) (nat_of_int 8) 0.01 m g d th in
      String.concat " " [status_s st; pnat iters; p4 it; pf (margin lg)]
  | "rt" ->
      let e = rd_list rd_float in
      let rows = rd_list (fun () -> rd_list rd_float) in
      let step = rd_list rd_float in
      plist pf (List.map (dint step) (to_2d e rows))
  | _ -> "ERR unknown"
let () = main_loop handle
