(* USES: nat *)
(* requests (floats as %h tokens; depth token "inf" = Deep; in spec requests "nan" = missing):
     kinv <g> <tol> <fuel> <n> (w d)*      -> flag n k_1 .. k_n
     kin  <g> <n> (k d)*                   -> n (omega n_ratio cg n_exact)*
     guess <g> <n> (w d)*                  -> n guess*
     trace <g> <fuel> <n> (w d)*           -> fuel maxrelerr_1 .. maxrelerr_fuel
     spec <g> <nf> f* <nd> d*              -> flag n (k wavelength wave_speed cg)* *)
let rd_depth () : depth =
  let x = rd_float () in
  if x = infinity then Deep else Depth x
let rd_odepth () : depth option =
  let x = rd_float () in
  if Float.is_nan x then None else if x = infinity then Some Deep else Some (Depth x)
let rd_pairs () = rd_list (fun () -> let a = rd_float () in let d = rd_depth () in (a, d))
let handle cmd =
  match cmd with
  | "kinv" ->
      let g = rd_float () in let tol = rd_float () in let fuel = rd_nat () in
      let ps = rd_pairs () in
      let (fl, ks) = kinv_batch g tol fuel ps in
      pb fl ^ " " ^ plist pf ks
  | "kin" ->
      let g = rd_float () in
      let ps = rd_pairs () in
      plist (fun (k, d) -> String.concat " " [pf (omega g k d); pf (n_ratio k d); pf (cg g k d); pf (n_exact k d)]) ps
  | "guess" ->
      let g = rd_float () in
      let ps = rd_pairs () in
      plist (fun (w, d) -> pf (guess g w d)) ps
  | "trace" ->
      (* per iteration: max over the batch of |omega(k)-w|/w  (harness uses it to recognise
         convergence tests decided within rounding error of the tolerance) *)
      let g = rd_float () in let fuel = rd_int () in
      let ps = rd_pairs () in
      let ks = ref (guesses g ps) in
      let outl = ref [] in
      for _ = 1 to fuel do
        ks := zipstep g ps !ks;
        let m = List.fold_left2 (fun acc (w, d) k ->
                   let e = abs_float (omega g k d -. w) /. w in
                   if Float.is_nan e then infinity else if e > acc then e else acc) 0.0 ps !ks in
        outl := m :: !outl
      done;
      plist pf (List.rev !outl)
  | "spec" ->
      let g = rd_float () in
      let fs = rd_list rd_float in
      let ds = rd_list rd_odepth in
      let (fl, ks) = spec_wavenumber g fs ds in
      let wl = spec_wavelength g fs ds in
      let ws = spec_wave_speed g fs ds in
      let gv = spec_group_velocity g fs ds in
      let rec zip4 a b c d = match a, b, c, d with
        | x :: a', y :: b', z :: c', u :: d' -> (String.concat " " [pf x; pf y; pf z; pf u]) :: zip4 a' b' c' d'
        | _ -> [] in
      pb fl ^ " " ^ string_of_int (List.length ks) ^ " " ^ String.concat " " (zip4 ks wl ws gv)
  | _ -> "ERR unknown"
let () = main_loop handle
