(* USES: nat *)
(* C09 driver: the field commands of C08 plus stress / tail stress / dissipation direction.
   requests (all floats as %h tokens; depth and charnock_max accept "inf"):
     stress <kind> <speed> <wdir> <depth> <z0> <gp> <grid> <x0root> <E>  -> magnitude direction|nan east north
     tail   <kind> <speed> <wdir> <depth> <z0> <gp> <grid> <x0root> <E>  -> east north magnitude direction
     ddir4  <depth> <sb> <grid> <E>   /  ddir6 <depth> <s6> <grid> <E>    -> direction kx ky
     gen  <kind U|S> <speed> <wdir> <depth> <z0> <gp: 11 floats> <grid> <E>      -> field bulk
     st4  <depth> <sb: 7 floats> <grid> <E>                                        -> field bulk
     st6  <depth> <s6: 5 floats> <grid> <E>                                        -> field bulk
   grid = <w list> <th list> <df list> <dth list>   (lists are  n v1 .. vn)
   E    = nf*nd floats, row major (no count)
   field reply = nf*nd floats row major, then extra scalars *)
let rd_optinf () : float option =
  let x = rd_float () in if x = infinity then None else Some x
let rd_grid () =
  let w = rd_list rd_float in let th = rd_list rd_float in
  let df = rd_list rd_float in let dth = rd_list rd_float in
  { g_w = w; g_th = th; g_df = df; g_dth = dth }
let rd_field g : float list list =
  let nf = List.length g.g_w and nd = List.length g.g_th in
  List.init nf (fun _ -> List.init nd (fun _ -> rd_float ()))
let rd_gp () =
  let g = rd_float () in let cmax = rd_optinf () in let ch = rd_float () in
  let ra = rd_float () in let rw = rd_float () in let ka = rd_float () in
  let za = rd_float () in let bm = rd_float () in let el = rd_float () in
  let nu = rd_float () in let vi = rd_float () in
  { gp_g = g; gp_charnock_max = cmax; gp_charnock = ch; gp_rho_a = ra; gp_rho_w = rw; gp_kappa = ka;
    gp_zalpha = za; gp_betamax = bm; gp_elev = el; gp_nu_air = nu; gp_visc = vi }
let rd_sb () =
  let a = rd_float () in let b = rd_float () in let c = rd_float () in let d = rd_float () in
  let e = rd_float () in let f = rd_float () in let h = rd_float () in
  { sb_const = a; sb_dircontrol = b; sb_cospower = c; sb_width_deg = d; sb_threshold = e;
    cb_const = f; cb_maxrel = h }
let rd_s6 () =
  let a = rd_float () in let b = rd_float () in let c = rd_float () in let d = rd_float () in
  let e = rd_float () in
  { s6_p1 = a; s6_p2 = b; s6_a1 = c; s6_a2 = d; s6_threshold = e }
let rd_rom () =
  let a = rd_float () in let b = rd_float () in let c = rd_float () in let d = rd_float () in
  let e = rd_float () in
  { ro_const = a; ro_threshold = b; ro_int_threshold = c; ro_prob = d; ro_g = e }
let rd_wind () =
  let k = (match next () with "U" -> U10 | "S" -> Ustar | t -> failwith ("kind? " ^ t)) in
  let s = rd_float () in let d = rd_float () in
  { wspeed = s; wdir = d; wkind = k }
let pfield (f : float list list) = String.concat " " (List.map pf (List.concat f))
let handle cmd =
  match cmd with
  | "gen" ->
      let w = rd_wind () in let depth = rd_optinf () in let z0 = rd_float () in
      let p = rd_gp () in let g = rd_grid () in let e = rd_field g in
      let s = st4_input p w depth z0 g e in
      pfield s ^ " " ^ pf (bulk g s)
  | "st4" ->
      let depth = rd_optinf () in let q = rd_sb () in let g = rd_grid () in let e = rd_field g in
      let s = st4_dissipation q depth g e in
      pfield s ^ " " ^ pf (bulk g s)
  | "st6" ->
      let depth = rd_optinf () in let q = rd_s6 () in let g = rd_grid () in let e = rd_field g in
      let s = st6_dissipation q depth g e in
      pfield s ^ " " ^ pf (bulk g s)
  | "stress" ->
      let w = rd_wind () in let depth = rd_optinf () in let z0 = rd_float () in
      let p = rd_gp () in let g = rd_grid () in let x0 = rd_float () in let e = rd_field g in
      let (m, d) = total_stress_point p w depth z0 g x0 e in
      let (ve, vn) = total_stress_vec p w depth z0 g x0 e in
      pf m ^ " " ^ pof d ^ " " ^ pf ve ^ " " ^ pf vn
  | "tail" ->
      let w = rd_wind () in let depth = rd_optinf () in let z0 = rd_float () in
      let p = rd_gp () in let g = rd_grid () in let x0 = rd_float () in let e = rd_field g in
      let t = tail_stress_wam p w z0 g x0 e in
      let (m, d) = tail_stress_mag_dir t in
      pf (fst t) ^ " " ^ pf (snd t) ^ " " ^ pf m ^ " " ^ pf d
  | "ddir4" ->
      let depth = rd_optinf () in let q = rd_sb () in let g = rd_grid () in let e = rd_field g in
      let dd = st4_dissipation q depth g e in
      let (kx, ky) = diss_k_vector g (wavenumbers gRAV depth g.g_w) dd in
      pf (diss_direction depth g dd) ^ " " ^ pf kx ^ " " ^ pf ky
  | "ddir6" ->
      let depth = rd_optinf () in let q = rd_s6 () in let g = rd_grid () in let e = rd_field g in
      let dd = st6_dissipation q depth g e in
      let (kx, ky) = diss_k_vector g (wavenumbers gRAV depth g.g_w) dd in
      pf (diss_direction depth g dd) ^ " " ^ pf kx ^ " " ^ pf ky
  | _ -> "ERR unknown"
let () = main_loop handle
