(* ---- tok_base.ml: whitespace-token line protocol (shared by all drivers) ---- *)
let _toks : string array ref = ref [||]
let _pos = ref 0
let set_line (s : string) =
  _toks := Array.of_list (List.filter (fun t -> t <> "") (String.split_on_char ' ' (String.trim s)));
  _pos := 0
let has_more () = !_pos < Array.length !_toks
let next () : string =
  if !_pos >= Array.length !_toks then failwith "tok: out of tokens";
  let t = !_toks.(!_pos) in incr _pos; t
let rd_float () : float = float_of_string (next ())
let rd_int () : int = int_of_string (next ())
let rd_bool () : bool = match next () with "T" -> true | "F" -> false | t -> failwith ("bool? " ^ t)
let rd_list (f : unit -> 'a) : 'a list =
  let n = rd_int () in
  let acc = ref [] in
  for _ = 1 to n do acc := f () :: !acc done; List.rev !acc
let rd_opt (f : unit -> 'a) : 'a option =
  match next () with "N" -> None | "S" -> Some (f ()) | t -> failwith ("opt? " ^ t)
(* a float where "nan" means None *)
let rd_ofloat () : float option =
  let x = rd_float () in if Float.is_nan x then None else Some x
let pf (x : float) : string = Printf.sprintf "%h" x
let pof = function None -> "nan" | Some x -> pf x
let pb b = if b then "T" else "F"
let plist (f : 'a -> string) (l : 'a list) : string =
  String.concat " " (string_of_int (List.length l) :: List.map f l)
let popt f = function None -> "N" | Some x -> "S " ^ f x
let main_loop (handle : string -> string) =
  (try
     while true do
       let line = input_line stdin in
       if String.trim line = "" then print_endline "" else begin
         set_line line;
         let cmd = next () in
         let out = (try handle cmd with
                    | Failure m -> "ERR " ^ String.map (fun c -> if c = '\n' then ' ' else c) m
                    | Not_found -> "ERR not_found"
                    | Stack_overflow -> "ERR stack_overflow") in
         print_endline out
       end
     done
   with End_of_file -> ())
