(* C04  Peak parameters locate the maximum of e(f) inside the requested band.
   Only statements; every proof is [exact lemma].  Model: OSU.Model.Peak (and Moments for the band).
   A value that may be missing is [option R] (None = NaN); fmax = None is +infinity. *)
From Coq Require Import Reals List.
From OSU.Model Require Import Moments Peak.
From OSU.Proofs Require Import Peak.
Import ListNotations.
Open Scope R_scope.

(* the scan returns the first index of the maximum, missing values ignored *)
Theorem first_argmax_spec : forall l j,
  first_argmax l = Some j ->
  exists v, nth j l None = Some v /\
            forall k v', nth k l None = Some v' -> v' <= v /\ ((k < j)%nat -> v' < v).
Proof. exact first_argmax_spec. Qed.

Theorem first_argmax_none : forall l, first_argmax l = None <-> forall k, nth k l None = None.
Proof. exact first_argmax_none. Qed.

(* what is scanned: the density inside the band, the value 0 outside it *)
Theorem masked_values : forall fmin fmax f e k, length f = length e -> (k < length f)%nat ->
  nth k (masked fmin fmax f e) None
  = if in_band fmin fmax (nth k f 0) then nth k e None else Some 0.
Proof. exact masked_nth. Qed.

(* some finite in-band density is positive  ==>  the peak index lies in the band and is the
   first maximiser of e over the band (fmin <= f < fmax), missing values ignored *)
Theorem peak_in_band : forall fmin fmax f e,
  length f = length e ->
  (exists i v, (i < length f)%nat /\ in_band fmin fmax (nth i f 0) = true /\
               nth i e None = Some v /\ 0 < v) ->
  exists k vk,
    peak_index fmin fmax f e = Some k /\ (k < length f)%nat /\
    in_band fmin fmax (nth k f 0) = true /\ nth k e None = Some vk /\
    forall j v', (j < length f)%nat -> in_band fmin fmax (nth j f 0) = true ->
                 nth j e None = Some v' -> v' <= vk /\ ((j < k)%nat -> v' < vk).
Proof. exact peak_in_band. Qed.

Theorem peak_index_in_grid : forall fmin fmax f e k,
  length f = length e -> peak_index fmin fmax f e = Some k -> (k < length f)%nat.
Proof. exact peak_index_lt. Qed.

(* frequency, period, direction and spread are the per-frequency values at that index *)
Theorem peak_derived : forall fmin fmax f e a1 b1 k,
  peak_index fmin fmax f e = Some k ->
  peak_frequency fmin fmax f e = Some (nth k f 0) /\
  peak_period fmin fmax f e
    = Some (if Req_EM_T (nth k f 0) 0 then None else Some (1 / nth k f 0)) /\
  peak_direction fmin fmax f e a1 b1
    = Some (match nth k a1 None, nth k b1 None with
            | Some a, Some b => Some (atan2 b a * 180 / PI)
            | _, _ => None end) /\
  peak_spread fmin fmax f e a1 b1
    = Some (match nth k a1 None, nth k b1 None with
            | Some a, Some b =>
                if Rlt_dec (2 - 2 * sqrt (a * a + b * b)) 0 then None
                else Some (sqrt (2 - 2 * sqrt (a * a + b * b)) * 180 / PI)
            | _, _ => None end).
Proof. exact peak_derived. Qed.

(* every spectrum of a batch gets its own peak *)
Theorem peak_batch_independent : forall fmin fmax f es d i,
  nth i (peak_index_batch fmin fmax f es) (peak_index fmin fmax f d)
  = peak_index fmin fmax f (nth i es d).
Proof. exact peak_batch_nth. Qed.

(* the solver: leaving the loop through the tolerance test means that every point of the batch
   has had the same number (1..10) of Newton steps from its own first guess, is a number
   (None = NaN) and satisfies |omega(k, depth) - w| < 1e-3 w; omega = Some _ says the radicand
   g k tanh(k d) is not negative *)
Theorem kinv_converged : forall ps ks,
  kinv ps = Converged ks ->
  (exists m, (1 <= m <= 10)%nat /\ ks = map (fun p => iter m (newton1 p) (first_guess p)) ps) /\
  length ks = length ps /\
  forall i w dep, (i < length ps)%nat -> nth i ps (0, Deep) = (w, dep) -> 0 < w ->
    exists k om, nth i ks None = Some k /\ omega k dep = Some om /\ Rabs (om - w) < 1 / 1000 * w.
Proof. exact kinv_converged. Qed.

Theorem kinv_exit_tolerance : forall ps ks i w dep,
  kinv ps = Converged ks -> (i < length ps)%nat -> nth i ps (0, Deep) = (w, dep) -> 0 < w ->
  exists k om, nth i ks None = Some k /\ omega k dep = Some om /\ Rabs (om - w) < 1 / 1000 * w.
Proof. exact kinv_exit_tolerance. Qed.

(* peak wavenumber: dispersion relation at the radian peak frequency (default band) for the
   depth of that spectrum; a missing depth is deep water *)
Theorem peak_wavenumber_dispersion : forall f b ks,
  peak_wavenumber f b = Some (Converged ks) ->
  length ks = length b /\
  forall i e rd, (i < length b)%nat -> nth i b ([], RawNaN) = (e, rd) ->
    exists kp, peak_index 0 None f e = Some kp /\
      let w := nth kp f 0 * 2 * PI in
      0 < w ->
      exists k om, nth i ks None = Some k /\ omega k (depth_of rd) = Some om /\
                   Rabs (om - w) < 1 / 1000 * w.
Proof. exact peak_wavenumber_dispersion. Qed.

Theorem nan_depth_is_deep : forall k, omega k (depth_of RawNaN) = osqrt (grav * k).
Proof. exact nan_depth_is_deep. Qed.

Theorem deep_first_guess_exact : forall w, 0 < w ->
  first_guess (w, Deep) = Some (w * w / grav) /\ omega (w * w / grav) Deep = Some w.
Proof. exact deep_first_guess_exact. Qed.

(* the direction is reported in (-180, 180] degrees *)
Theorem peak_direction_range : forall a b, -180 < dir_deg a b <= 180.
Proof. exact dir_deg_range. Qed.

(* unconditional convergence in deep water: the first guess w^2/g is the root, the loop exits
   after one step through the tolerance test *)
Theorem deep_converges : forall ps, all_deep ps ->
  kinv ps = Converged (map (fun p => Some (fst p * fst p / grav)) ps).
Proof. exact deep_converges. Qed.

(* non-vacuity: a plateau (tie between bins 1 and 3), a NaN bin, and the global maximum 9 outside
   the band [1/4, 2): the peak index is 1, the first in-band maximiser *)
Example tie_and_band : peak_index (1 / 4) (Some 2) exp_f exp_e = Some 1%nat.
Proof. exact exp_peak. Qed.

Example premise_satisfiable :
  length exp_f = length exp_e /\
  exists i v, (i < length exp_f)%nat /\ in_band (1 / 4) (Some 2) (nth i exp_f 0) = true /\
              nth i exp_e None = Some v /\ 0 < v.
Proof. exact exp_premise. Qed.
