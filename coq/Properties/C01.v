(* C01  Spectral moments and integral wave parameters equal their defining integrals.
   Only statements; every proof is [exact lemma].  Model: OSU.Model.Moments.
   A density that may be missing is [option R] (None = NaN); fmax = None is +infinity;
   [StronglySorted Rlt f] = the frequency grid is strictly increasing. *)
From Coq Require Import Reals List Sorting.Sorted.
From OSU.Lib Require Import Sums Trapz.
From OSU.Model Require Import Moments.
From OSU.Proofs Require Import Moments.
Import ListNotations.
Open Scope R_scope.

(* the points that enter the integral are exactly the grid points with fmin <= f < fmax *)
Theorem band_is_half_open : forall fmin fmax f e p,
  In p (band_pts fmin fmax f e) <->
  In p (combine f e) /\ fmin <= fst p /\ match fmax with None => True | Some m => fst p < m end.
Proof. exact band_pts_spec. Qed.

(* n-th moment = sum over consecutive in-band points of (f1-f0) * 1/2 * (g1+g0),
   g = fill0(e) * f^n : missing values count as zero, after the product *)
Theorem moment_trapezoid : forall n fmin fmax f e,
  moment n fmin fmax f e
  = sumR (map (fun s : (R * option R) * (R * option R) =>
                 (fst (snd s) - fst (fst s)) * (1 / 2)
                 * (fill0 (snd (snd s)) * fst (snd s) ^ n + fill0 (snd (fst s)) * fst (fst s) ^ n))
              (consecutive (band_pts fmin fmax f e))).
Proof. exact moment_trapezoid. Qed.

(* empty and single-point bands integrate to zero *)
Theorem moment_short_band : forall n fmin fmax f e,
  (length (band_pts fmin fmax f e) <= 1)%nat -> moment n fmin fmax f e = 0.
Proof. exact moment_short_band. Qed.

Theorem moment_empty_band : forall n fmin fmax f e,
  (forall x, In x f -> in_band fmin fmax x = false) -> moment n fmin fmax f e = 0.
Proof. exact moment_empty_band. Qed.

(* linearity in the variance density *)
Theorem moment_scale : forall n fmin fmax f e c,
  moment n fmin fmax f (scale_spec c e) = c * moment n fmin fmax f e.
Proof. exact moment_scale. Qed.

Theorem moment_add : forall n fmin fmax f e e',
  same_mask e e' ->
  moment n fmin fmax f (add_spec e e') = moment n fmin fmax f e + moment n fmin fmax f e'.
Proof. exact moment_add. Qed.

(* Hm0 scales with sqrt(c); the periods are scale invariant *)
Theorem hm0_scale : forall fmin fmax f e c h, 0 <= c ->
  hm0 fmin fmax f e = Some h -> hm0 fmin fmax f (scale_spec c e) = Some (sqrt c * h).
Proof. exact hm0_scale. Qed.

Theorem hm0_scale_pos : forall fmin fmax f e c, 0 < c ->
  hm0 fmin fmax f (scale_spec c e) = option_map (Rmult (sqrt c)) (hm0 fmin fmax f e).
Proof. exact hm0_scale_pos. Qed.

Theorem tm01_scale_inv : forall fmin fmax f e c, c <> 0 ->
  tm01 fmin fmax f (scale_spec c e) = tm01 fmin fmax f e.
Proof. exact tm01_scale_inv. Qed.

Theorem tm02_scale_inv : forall fmin fmax f e c, c <> 0 ->
  tm02 fmin fmax f (scale_spec c e) = tm02 fmin fmax f e.
Proof. exact tm02_scale_inv. Qed.

(* the moments are weighted sums with non-negative weights: m1^2 <= m0 m2 *)
Theorem moments_cauchy_schwarz : forall fmin fmax f e,
  StronglySorted Rlt f -> nonneg_spec e ->
  m1 fmin fmax f e * m1 fmin fmax f e <= m2 fmin fmax f e * m0 fmin fmax f e.
Proof. exact moments_cauchy_schwarz. Qed.

(* Tm02 <= Tm01 for non-negative spectra on strictly increasing grids *)
Theorem tm02_le_tm01 : forall fmin fmax f e,
  StronglySorted Rlt f -> nonneg_spec e ->
  0 < m1 fmin fmax f e -> 0 < m2 fmin fmax f e ->
  exists t1 t2, tm01 fmin fmax f e = Some t1 /\ tm02 fmin fmax f e = Some t2 /\ t2 <= t1.
Proof. exact tm02_le_tm01. Qed.

(* both periods lie between 1/f_last and 1/f_first of the band *)
Theorem periods_bounded : forall fmin fmax f e fa l,
  StronglySorted Rlt f -> nonneg_spec e ->
  0 < m1 fmin fmax f e -> 0 < m2 fmin fmax f e ->
  map fst (band_pts fmin fmax f e) = fa :: l -> 0 < fa ->
  let fb := last (fa :: l) 0 in
  exists t1 t2, tm01 fmin fmax f e = Some t1 /\ tm02 fmin fmax f e = Some t2 /\
                1 / fb <= t2 /\ t2 <= t1 /\ t1 <= 1 / fa.
Proof. exact periods_bounded. Qed.

(* the premises on m1, m2 follow from m0 > 0 when the first in-band frequency is positive *)
Theorem periods_bounded_m0 : forall fmin fmax f e fa l,
  StronglySorted Rlt f -> nonneg_spec e ->
  map fst (band_pts fmin fmax f e) = fa :: l -> 0 < fa ->
  0 < m0 fmin fmax f e ->
  let fb := last (fa :: l) 0 in
  exists t1 t2, tm01 fmin fmax f e = Some t1 /\ tm02 fmin fmax f e = Some t2 /\
                1 / fb <= t2 /\ t2 <= t1 /\ t1 <= 1 / fa.
Proof. exact periods_bounded_m0. Qed.

(* endpoint-weight form: moment = sum_k w_k fill0(e_k) f_k^n with weights w_k >= 0 on a sorted grid *)
Theorem moment_endpoint_weights : forall n fmin fmax f e,
  let l := band_pts fmin fmax f e in
  moment n fmin fmax f e
  = sumR (map (fun wa => fst wa * (fill0 (snd (snd wa)) * fst (snd wa) ^ n))
              (combine (weights (map fst l)) l))
  /\ (StronglySorted Rlt f -> Forall (fun w => 0 <= w) (weights (map fst l))).
Proof. exact moment_endpoint_weights. Qed.

(* non-negative spectra: m0 >= 0 and Hm0 = 4 sqrt(m0) is a number *)
Theorem m0_nonneg : forall fmin fmax f e,
  StronglySorted Rlt f -> nonneg_spec e -> 0 <= m0 fmin fmax f e.
Proof. exact m0_nonneg. Qed.

Theorem hm0_defined : forall fmin fmax f e,
  StronglySorted Rlt f -> nonneg_spec e ->
  hm0 fmin fmax f e = Some (4 * sqrt (m0 fmin fmax f e)).
Proof. exact hm0_defined. Qed.

(* leading dimensions: every point of a batch is treated on its own *)
Theorem batch_independent : forall n fmin fmax f es d i,
  nth i (moment_batch n fmin fmax f es) (moment n fmin fmax f d) = moment n fmin fmax f (nth i es d).
Proof. exact moment_batch_nth. Qed.

Theorem batch_bulk_independent : forall fmin fmax f es d i,
  nth i (hm0_batch fmin fmax f es) (hm0 fmin fmax f d) = hm0 fmin fmax f (nth i es d) /\
  nth i (tm01_batch fmin fmax f es) (tm01 fmin fmax f d) = tm01 fmin fmax f (nth i es d) /\
  nth i (tm02_batch fmin fmax f es) (tm02 fmin fmax f d) = tm02 fmin fmax f (nth i es d).
Proof. exact bulk_batch_nth. Qed.

Theorem batch_other_points_irrelevant : forall n fmin fmax f es es' d i,
  nth i es d = nth i es' d ->
  nth i (moment_batch n fmin fmax f es) (moment n fmin fmax f d)
  = nth i (moment_batch n fmin fmax f es') (moment n fmin fmax f d).
Proof. exact moment_batch_independent. Qed.

(* 2D spectra: moments are those of the directionally integrated density, which is never NaN,
   is linear in the density and non-negative when densities and direction steps are *)
Theorem moment2d_scale : forall n fmin fmax f th E c,
  moment2d n fmin fmax f th (scale_spec2d c E) = c * moment2d n fmin fmax f th E.
Proof. exact moment2d_scale. Qed.

Theorem moment2d_add : forall n fmin fmax f th E E',
  Forall2 same_mask E E' ->
  moment2d n fmin fmax f th (add_spec2d E E')
  = moment2d n fmin fmax f th E + moment2d n fmin fmax f th E'.
Proof. exact moment2d_add. Qed.

Theorem e2d_never_nan : forall th E o, In o (e2d th E) -> o <> None.
Proof. exact e2d_never_nan. Qed.

Theorem tm02_le_tm01_2d : forall fmin fmax f th E,
  StronglySorted Rlt f -> Forall (fun d => 0 <= d) (dstep th) ->
  (forall row, In row E -> nonneg_spec row) ->
  0 < moment2d 1 fmin fmax f th E -> 0 < moment2d 2 fmin fmax f th E ->
  exists t1 t2, tm01_2d fmin fmax f th E = Some t1 /\ tm02_2d fmin fmax f th E = Some t2 /\ t2 <= t1.
Proof. exact tm02_le_tm01_2d. Qed.

(* the wrapped direction step is the plain difference in [-180,180) and is shifted by a turn outside *)
Theorem wrap360_id : forall d, -180 <= d < 180 -> wrap360 d = d.
Proof. exact wrap360_id. Qed.
Theorem wrap360_down : forall d, 180 <= d < 540 -> wrap360 d = d - 360.
Proof. exact wrap360_down. Qed.
Theorem wrap360_up : forall d, -540 <= d < -180 -> wrap360 d = d + 360.
Proof. exact wrap360_up. Qed.

(* non-vacuity: a 5-point non-uniform grid starting at f = 0 with one NaN bin and the band
   [1/8, inf) meets every premise of tm02_le_tm01 and periods_bounded *)
Example premises_satisfiable :
  StronglySorted Rlt ex_f /\ nonneg_spec ex_e /\
  0 < m1 (1 / 8) None ex_f ex_e /\ 0 < m2 (1 / 8) None ex_f ex_e /\
  map fst (band_pts (1 / 8) None ex_f ex_e) = [1 / 8; 1 / 4; 1 / 2; 1].
Proof. exact ex_premises. Qed.

Example example_moments :
  m0 (1 / 8) None ex_f ex_e = 15 / 8 /\ m1 (1 / 8) None ex_f ex_e = 65 / 64 /\
  m2 (1 / 8) None ex_f ex_e = 321 / 512.
Proof. exact ex_moments. Qed.
