(* C02  Directional integration of a 2D spectrum conserves energy and bounds the moments.
   Only statements; every proof is [exact lemma].
   Model: OSU.Model.Directional (+ the bulk parameters of OSU.Model.DirStats). *)
From Coq Require Import Reals List Arith Lra.
From OSU.Lib Require Import Cyclic Fmod.
From OSU.Model Require Import Directional DirStats.
From OSU.Proofs Require Import Directional DirStats.
From OSU.Generated Require MathSrc.
From OSU.Proofs Require Import MathGen.
Import ListNotations.
Open Scope R_scope.

(* ---- the wrapped difference (tools/math.py) ---- *)
Theorem fmod_range : forall x p, 0 < p -> 0 <= fmod x p < p.
Proof. exact Fmod.fmod_range. Qed.

Theorem fmod_period : forall x p (k : Z), 0 < p -> fmod (x + IZR k * p) p = fmod x p.
Proof. exact Fmod.fmod_period. Qed.

Theorem wrap360_range_and_congruence : forall d,
  wrap360 d = fmod (d + 180) 360 - 180 /\ -180 <= wrap360 d < 180 /\ cong360 (wrap360 d) d.
Proof. exact wrap360_range_and_congruence. Qed.

(* ---- the tie to the source: coq/Generated/MathSrc.v is regenerated from tools/math.py on every run; the
   call made for direction grids, wrapped_difference(delta, period=360), is [wrap360] *)
Theorem source_wrapped_difference_is_wrap360 : forall d,
  MathSrc.wrapped_difference d 360 (MathSrc.wrapped_difference_default_discont 360) = wrap360 d.
Proof. exact src_wrap360. Qed.


(* ---- direction steps ---- *)
(* the grid covers the circle: it is congruent (mod 360, element by element) to a reference grid
   whose cyclic gaps all lie in (0,180).  Then every step equals its gap, is positive, and the
   steps sum to 360.  Any number of bins. *)
Theorem dstep_sum_360 : forall th phi,
  phi <> [] -> Forall2 cong360 th phi ->
  Forall (fun g => 0 < g < 180) (cyc_gaps phi) ->
  dstep th = cyc_gaps phi /\ sumR (dstep th) = 360 /\ Forall (fun s => 0 < s) (dstep th).
Proof. exact dstep_sum_360. Qed.

(* uniform grid (stored modulo 360 or not, any start angle): every step is 360/N *)
Theorem dstep_uniform : forall t0 dl th,
  ugrid t0 dl th -> -180 <= dl < 180 ->
  dstep th = repeat dl (length th) /\ sumR (dstep th) = 360.
Proof. exact dstep_uniform_both. Qed.

Theorem uniform_is_ugrid : forall t0 N, (3 <= N)%nat ->
  let dl := 360 / INR N in
  let th := map (fun j => t0 + INR j * dl) (seq 0 N) in
  ugrid t0 dl th /\ 0 < dl < 180.
Proof. exact uniform_is_ugrid. Qed.

(* ---- e, a1, b1, a2, b2 follow the definition ---- *)
Theorem e_is_weighted_sum : forall E th,
  e_row E th = sumR (map2 (fun g s => fill0 g * s) E (dstep th)).
Proof. exact e_is_weighted_sum. Qed.

Theorem moment_numerator_is_weighted_sum : forall c E th,
  mnum c E th = sumR (map2 Rmult (map2 (fun g s => fill0 g * s) E (dstep th)) (map c th)).
Proof. exact mnum_is_weighted_sum. Qed.

Theorem moments_are_ratios : forall E th, e_row E th <> 0 ->
  a1_row E th = Some (mnum (fun t => cos (t * PI / 180)) E th / e_row E th) /\
  b1_row E th = Some (mnum (fun t => sin (t * PI / 180)) E th / e_row E th) /\
  a2_row E th = Some (mnum (fun t => cos (2 * (t * PI / 180))) E th / e_row E th) /\
  b2_row E th = Some (mnum (fun t => sin (2 * (t * PI / 180))) E th / e_row E th).
Proof. exact moments_are_ratios. Qed.

Theorem moments_nan_when_no_energy : forall E th, e_row E th = 0 ->
  a1_row E th = None /\ b1_row E th = None /\ a2_row E th = None /\ b2_row E th = None.
Proof. exact moments_nan_when_no_energy. Qed.

(* ---- bounds ---- *)
Theorem moments_bounded : forall E th,
  length E = length th ->
  (forall v, In (Some v) E -> 0 <= v) -> (forall x, In x (dstep th) -> 0 <= x) ->
  0 < e_row E th ->
  exists a b a' b',
    a1_row E th = Some a /\ b1_row E th = Some b /\ a2_row E th = Some a' /\ b2_row E th = Some b' /\
    Rabs a <= 1 /\ Rabs b <= 1 /\ Rabs a' <= 1 /\ Rabs b' <= 1 /\
    a * a + b * b <= 1 /\ a' * a' + b' * b' <= 1.
Proof. exact moments_bounded. Qed.

Theorem moments_bounded_covering : forall E th phi,
  phi <> [] -> Forall2 cong360 th phi -> Forall (fun g => 0 < g < 180) (cyc_gaps phi) ->
  length E = length th ->
  (forall v, In (Some v) E -> 0 <= v) ->
  0 < e_row E th ->
  exists a b a' b',
    a1_row E th = Some a /\ b1_row E th = Some b /\ a2_row E th = Some a' /\ b2_row E th = Some b' /\
    Rabs a <= 1 /\ Rabs b <= 1 /\ Rabs a' <= 1 /\ Rabs b' <= 1 /\
    a * a + b * b <= 1 /\ a' * a' + b' * b' <= 1.
Proof. exact moments_bounded_covering. Qed.

Theorem e_nonneg : forall E th,
  (forall v, In (Some v) E -> 0 <= v) -> (forall x, In x (dstep th) -> 0 <= x) -> 0 <= e_row E th.
Proof. exact e_nonneg. Qed.

(* ---- 2D -> 1D ---- *)
Theorem to_1d_energy : forall M (s : spec2d M) fmin fmax, m0_1d (to_1d s) fmin fmax = m0_2d s fmin fmax.
Proof. exact to_1d_energy. Qed.

Theorem to_1d_bulk : forall M (s : spec2d M) fmin fmax, bulk_1d (to_1d s) fmin fmax = bulk_2d s fmin fmax.
Proof. exact to_1d_bulk. Qed.

Theorem to_1d_meta : forall M (s : spec2d M), meta1 (to_1d s) = meta2 s /\ f1 (to_1d s) = f2 s.
Proof. exact to_1d_meta. Qed.

Theorem to_1d_batch_independent : forall M (b : list (spec2d M)) i d,
  nth i (to_1d_batch b) (to_1d d) = to_1d (nth i b d).
Proof. exact to_1d_batch_independent. Qed.

(* total variance: m0 of the 1D reduction over the whole band is the double integral of the
   2D density (frequency trapezoid of the directional sums = directional sum of the trapezoids) *)
Theorem total_variance_preserved : forall M (s : spec2d M) fmin,
  Forall (fun row => length row = length (th2 s)) (E2 s) ->
  Forall (fun x => fmin <= x) (f2 s) -> length (E2 s) = length (f2 s) ->
  m0_1d (to_1d s) fmin None = isd_both (f2 s) (th2 s) (E2 s).
Proof. exact total_variance_preserved. Qed.

(* ---- operations.integrate_spectral_data / numba_integrate_spectral_data ---- *)
Theorem integrate_spectral_data_eq : forall M (s : spec2d M),
  Forall (fun row => length row = length (th2 s)) (E2 s) ->
  isd_direction (E2 s) (th2 s) = e_2d s /\
  isd_both (f2 s) (th2 s) (E2 s) = trapz (f2 s) (e_2d s).
Proof. exact integrate_spectral_data_eq. Qed.

Theorem numba_isd_eq : forall data fstep dstp,
  numba_isd data fstep dstp
  = sumR (map2 (fun row fs => fs * sumR (map2 Rmult row dstp)) data fstep).
Proof. exact numba_isd_eq. Qed.

(* ---- non-vacuity: a non-uniform 4-bin grid stored modulo 360 that covers the circle ---- *)
Example covering_grid_example :
  let th := [350; 80; 170; 260] in
  let phi := [350; 440; 530; 620] in
  phi <> [] /\ Forall2 cong360 th phi /\ Forall (fun g => 0 < g < 180) (cyc_gaps phi).
Proof.
  cbn zeta. split; [discriminate|]. split.
  - apply Forall2_cons; [exists 0%Z; simpl; lra|].
    apply Forall2_cons; [exists (-1)%Z; simpl; lra|].
    apply Forall2_cons; [exists (-1)%Z; simpl; lra|].
    apply Forall2_cons; [exists (-1)%Z; simpl; lra|]. apply Forall2_nil.
  - simpl. repeat (apply Forall_cons; [lra|]). apply Forall_nil.
Qed.

Example bounded_premises_example :
  let E := [Some 1; None; Some 0; Some 2] in
  let th := [350; 80; 170; 260] in
  length E = length th /\ (forall v, In (Some v) E -> 0 <= v) /\ 0 < e_row E th.
Proof.
  cbn zeta.
  destruct covering_grid_example as [N [C G]].
  destruct (Directional.dstep_sum_360 _ _ N C G) as [D _].
  split; [reflexivity|]. split.
  - intros v [H|[H|[H|[H|[]]]]]; inversion H; lra.
  - unfold e_row. rewrite D. unfold dint. simpl. lra.
Qed.
