From Coq Require Import Reals List Arith.
From OSU.Model Require Import Estimators.
From OSU.Proofs Require Import Estimators.
Import ListNotations.
Theorem to_2d_length : forall e D, length (to_2d e D) = Nat.min (length e) (length D).
Proof. exact to_2d_length. Qed.
