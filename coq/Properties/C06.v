(* C06  Estimators: the Jacobian is the derivative, converged => residual < atol, rotation / mirror
   equivariance of MEM, of the MEM2 constraint function / distribution and of the first guess.
   Only statements; every proof is [exact lemma].  Model: OSU.Model.Estimators. *)
From Coq Require Import Reals List Arith Lra.
From Coquelicot Require Import Coquelicot.
From OSU.Model Require Import Estimators.
From OSU.Proofs Require Import Estimators Estimators2 Estimators3 Estimators4 Estimators5 Estimators6 Estimators8.
Import ListNotations.
Open Scope R_scope.

(* ---- the Jacobian used by the Newton step is the derivative of the moment-constraint function:
   entry (m,n) of mem2_jacobian = d constraint_m / d lambda_n, for EVERY lambda, every grid with positive
   increments (the min-shift inside the code does not matter) *)
Theorem jacobian_is_derivative : forall l mo d th m n,
  th <> [] -> length d = length th -> List.Forall (fun x => 0 < x) d ->
  is_derive (fun x => get4 (constraints (set4 l n x) mo d th) m) (get4 l n) (jacobian l d th m n).
Proof. exact jacobian_is_derivative. Qed.

(* it is the covariance matrix of the twiddle factors under the current distribution *)
Theorem jacobian_closed : forall l d th m n,
  th <> [] -> length d = length th -> List.Forall (fun x => 0 < x) d ->
  jacobian l d th m n =
  S2f m n l d th / Zf l d th - Pf m l d th * Pf n l d th / (Zf l d th * Zf l d th).
Proof. exact jacobian_closed. Qed.

(* the code computes the lower triangle and mirrors it; the formula itself is symmetric *)
Theorem jac_lower_symmetric : forall l d th m n,
  th <> [] -> length d = length th -> List.Forall (fun x => 0 < x) d ->
  jac_lower l d th m n = jac_lower l d th n m.
Proof. exact jac_lower_symmetric. Qed.

Theorem jacobian_symmetric : forall l d th m n, jacobian l d th m n = jacobian l d th n m.
Proof. exact jacobian_symmetric. Qed.

(* the Jacobian is positive semi-definite for every lambda (v^T J v = variance of v.T under the distribution):
   Cholesky is the right first choice and can fail only through rounding or a singular covariance *)
Theorem jacobian_psd : forall v l d th,
  th <> [] -> length d = length th -> List.Forall (fun x => 0 < x) d ->
  0 <= quad4 v (jacobian l d th).
Proof. exact jacobian_psd. Qed.

(* the min-shifted code computes exp(-lambda.T_j) / sum_k exp(-lambda.T_k) d_k *)
Theorem dist_closed : forall l d th,
  th <> [] -> length d = length th -> List.Forall (fun x => 0 < x) d ->
  dist l d th = map (fun t => Ef l t / Zf l d th) th.
Proof. exact dist_closed. Qed.

(* ---- Newton: status Converged => four-moment residual below atol; accepted steps never increase it *)
Theorem newton_converged_residual : forall max_iter depth atol mo g d th,
  newton_status (newton max_iter depth atol mo g d th) = Converged ->
  norm4 (constraints (newton_iterate (newton max_iter depth atol mo g d th)) mo d th) < atol.
Proof. exact newton_converged_residual. Qed.

Theorem newton_residual_monotone : forall max_iter depth atol mo g d th,
  norm4 (constraints (newton_iterate (newton max_iter depth atol mo g d th)) mo d th)
  <= norm4 (constraints g mo d th).
Proof. exact newton_residual_monotone. Qed.

(* the residual is the difference between the wanted moments and those of the returned distribution *)
Theorem constraints_are_moment_errors : forall l mo d th m,
  get4 (constraints l mo d th) m
  = get4 mo m - moment_of (match m with O => 0 | 1 => 1 | 2 => 2 | _ => 3 end)%nat (dist l d th) d th.
Proof. exact constraints_are_moment_errors. Qed.

(* solve_cholesky: success => the returned vector solves the symmetric system *)
Theorem chol_solve_correct : forall A r x lg,
  chol_solve A r = (Some x, lg) ->
  matvec4 (symA A) x 0 = q1 r /\ matvec4 (symA A) x 1 = q2 r /\
  matvec4 (symA A) x 2 = q3 r /\ matvec4 (symA A) x 3 = q4 r.
Proof. exact chol_solve_correct. Qed.

(* ---- rotation / mirror, any grid and any angle: rotating the moments by alpha = evaluating on the grid
   shifted by -alpha; mirroring = evaluating on the negated grid *)
Theorem mem_rotation_shift : forall th al m, mem4 th (rotm al m) = mem4 (shiftg al th) m.
Proof. exact mem_rotation_shift. Qed.

Theorem mem_mirror_neg : forall th m, mem4 th (mirm m) = mem4 (negg th) m.
Proof. exact mem_mirror_neg. Qed.

Theorem dist_rotation_shift : forall l al d th, dist (rotm al l) d th = dist l d (shiftg al th).
Proof. exact dist_rotation_shift. Qed.

Theorem dist_mirror_neg : forall l d th, dist (mirm l) d th = dist l d (negg th).
Proof. exact dist_mirror_neg. Qed.

Theorem constraints_rotation_shift : forall l mo al d th,
  constraints (rotm al l) (rotm al mo) d th = rotm al (constraints l mo d (shiftg al th)).
Proof. exact constraints_rotation_shift. Qed.

Theorem constraints_mirror_neg : forall l mo d th,
  constraints (mirm l) (mirm mo) d th = mirm (constraints l mo d (negg th)).
Proof. exact constraints_mirror_neg. Qed.

Theorem initial_value_rotation : forall al m, init4 (rotm al m) = rotm al (init4 m).
Proof. exact initial_value_rotation. Qed.

Theorem initial_value_mirror : forall m, init4 (mirm m) = mirm (init4 m).
Proof. exact initial_value_mirror. Qed.

(* ---- uniform grids (N dl = 2 pi), rotation by k bins: the output rotates by k bins *)
Theorem mem_rotation_uniform : forall t0 dl n k m,
  (0 < n)%nat -> INR n * dl = 2 * PI -> (k <= n)%nat ->
  mem4 (ugrid t0 dl n) (rotm (INR k * dl) m) = option_map (rotl_list k) (mem4 (ugrid t0 dl n) m).
Proof. exact mem_rotation_uniform. Qed.

Theorem dist_rotation_uniform : forall t0 dl c n k,
  (0 < n)%nat -> INR n * dl = 2 * PI -> (k <= n)%nat -> 0 < c ->
  forall l, dist (rotm (INR k * dl) l) (map (fun _ => c) (ugrid t0 dl n)) (ugrid t0 dl n)
            = rotl_list k (dist l (map (fun _ => c) (ugrid t0 dl n)) (ugrid t0 dl n)).
Proof. exact dist_rotation_uniform. Qed.

(* F(R lambda; R m) = R F(lambda; m): lambda solves for m iff R lambda solves for R m, same residual norm *)
Theorem constraints_rotation_uniform : forall t0 dl c n k,
  (0 < n)%nat -> INR n * dl = 2 * PI -> (k <= n)%nat -> 0 < c ->
  forall l mo,
    constraints (rotm (INR k * dl) l) (rotm (INR k * dl) mo) (map (fun _ => c) (ugrid t0 dl n)) (ugrid t0 dl n)
    = rotm (INR k * dl) (constraints l mo (map (fun _ => c) (ugrid t0 dl n)) (ugrid t0 dl n)).
Proof. exact constraints_rotation_uniform. Qed.

Theorem residual_rotation_uniform : forall t0 dl c n k,
  (0 < n)%nat -> INR n * dl = 2 * PI -> (k <= n)%nat -> 0 < c ->
  forall l mo,
    norm4 (constraints (rotm (INR k * dl) l) (rotm (INR k * dl) mo) (map (fun _ => c) (ugrid t0 dl n)) (ugrid t0 dl n))
    = norm4 (constraints l mo (map (fun _ => c) (ugrid t0 dl n)) (ugrid t0 dl n)).
Proof. exact residual_rotation_uniform. Qed.

(* ---- uniform grid starting at 0 (np.linspace(0,360,N)), mirror: the output is reversed, D'_j = D_{(N-j) mod N} *)
Theorem mem_mirror_uniform : forall dl n,
  (0 < n)%nat -> INR n * dl = 2 * PI ->
  forall m, mem4 (ugrid 0 dl n) (mirm m) = option_map (perm_list (rev_idx n)) (mem4 (ugrid 0 dl n) m).
Proof. exact mem_mirror_uniform. Qed.

Theorem dist_mirror_uniform : forall dl n,
  (0 < n)%nat -> INR n * dl = 2 * PI -> forall c, 0 < c ->
  forall l, dist (mirm l) (map (fun _ => c) (ugrid 0 dl n)) (ugrid 0 dl n)
            = perm_list (rev_idx n) (dist l (map (fun _ => c) (ugrid 0 dl n)) (ugrid 0 dl n)).
Proof. exact dist_mirror_uniform. Qed.

Theorem constraints_mirror_uniform : forall dl n,
  (0 < n)%nat -> INR n * dl = 2 * PI -> forall c, 0 < c ->
  forall l mo,
    constraints (mirm l) (mirm mo) (map (fun _ => c) (ugrid 0 dl n)) (ugrid 0 dl n)
    = mirm (constraints l mo (map (fun _ => c) (ugrid 0 dl n)) (ugrid 0 dl n)).
Proof. exact constraints_mirror_uniform. Qed.

Theorem residual_mirror_uniform : forall dl n,
  (0 < n)%nat -> INR n * dl = 2 * PI -> forall c, 0 < c ->
  forall l mo,
    norm4 (constraints (mirm l) (mirm mo) (map (fun _ => c) (ugrid 0 dl n)) (ugrid 0 dl n))
    = norm4 (constraints l mo (map (fun _ => c) (ugrid 0 dl n)) (ugrid 0 dl n)).
Proof. exact residual_mirror_uniform. Qed.

(* what the re-indexings are: entry j of the rotated list is entry (j - k) mod N, of the reversed list entry (N - j) mod N *)
Theorem rotl_list_nth : forall k l j, (j < length l)%nat ->
  nth j (rotl_list k l) 0 = nth ((j + length l - k) mod length l) l 0.
Proof. exact rotl_list_nth. Qed.

Theorem revl_nth : forall l j, (0 < j < length l)%nat ->
  nth j (perm_list (rev_idx (length l)) l) 0 = nth (length l - j) l 0.
Proof. exact revl_nth. Qed.

(* derivative of one entry of the distribution: d D_j / d lambda_n = -D_j (T_n(j) - <T_n>) *)
Theorem dist_entry_derivative : forall l d th n t,
  th <> [] -> length d = length th -> List.Forall (fun x => 0 < x) d ->
  is_derive (fun x => Ef (set4 l n x) t / Zf (set4 l n x) d th) (get4 l n)
            (- (Ef l t / Zf l d th) * (tw n t - Pf n l d th / Zf l d th)).
Proof. exact dist_entry_derivative. Qed.

(* the grid of as_frequency_direction_spectrum is such a grid *)
Theorem to_rad_linspace : forall n, (0 < n)%nat -> to_rad (linspace360 n) = ugrid 0 (2 * PI / INR n) n.
Proof. exact to_rad_linspace. Qed.

(* ---- non-vacuity *)
Example uniform_premises : (0 < 36)%nat /\ INR 36 * (2 * PI / INR 36) = 2 * PI /\ (5 <= 36)%nat /\ 0 < 2 * PI / INR 36.
Proof.
  pose proof PI_RGT_0.
  assert (0 < INR 36) by (apply lt_0_INR; repeat constructor).
  repeat split; try (repeat constructor; fail).
  - field. lra.
  - apply Rdiv_lt_0_compat; lra.
Qed.
