(* C07  Wavenumber solver inverts the dispersion relation; group velocity is consistent.
   Only statements; every proof is [exact lemma].  Model: OSU.Model.Dispersion
   (omega, guess, dstep, nstep, newton, kinv_batch, n_ratio, cg and the spec members).
   All theorems are about the real-number model.  NOT proved (validated by execution on the
   implementation, see harness/props/C07.py): that the Newton loop leaves through the tolerance
   test within its 10 iterations, and monotonicity of the *returned* (tolerance-level) value. *)
From Coq Require Import Reals List Lra.
From Coquelicot Require Import Coquelicot.
From OSU.Model Require Import Dispersion.
From OSU.Proofs Require Import Dispersion.
From OSU.Generated Require Import DispersionSrc.
From OSU.Proofs Require Import DispersionGen.
Import ListNotations.
Open Scope R_scope.

(* the dispersion relation is strictly increasing in k (finite depth d > 0 or deep water) ... *)
Theorem omega_increasing : forall g, 0 < g -> forall k1 k2 d, 0 < k1 -> k1 < k2 -> depth_ok d ->
  omega g k1 d < omega g k2 d.
Proof. exact omega_increasing. Qed.

(* ... so the wavenumber belonging to a frequency is unique *)
Theorem kinv_unique : forall g, 0 < g -> forall k1 k2 d, 0 < k1 -> 0 < k2 -> depth_ok d ->
  omega g k1 d = omega g k2 d -> k1 = k2.
Proof. exact omega_injective. Qed.

(* the exact root increases with w and decreases with depth (finite -> finite, finite -> deep) *)
Theorem root_increasing_in_w : forall g, 0 < g -> forall k1 k2 d, 0 < k1 -> 0 < k2 -> depth_ok d ->
  omega g k1 d < omega g k2 d -> k1 < k2.
Proof. exact root_increasing_in_w. Qed.

Theorem root_decreasing_in_depth : forall g, 0 < g -> forall k1 k2 d1 d2 w,
  0 < k1 -> 0 < k2 -> 0 < d1 -> d1 < d2 ->
  omega g k1 (Depth d1) = w -> omega g k2 (Depth d2) = w -> k2 < k1.
Proof. exact root_decreasing_in_depth. Qed.

Theorem root_decreasing_to_deep : forall g, 0 < g -> forall k1 k2 d1 w,
  0 < k1 -> 0 < k2 -> 0 < d1 ->
  omega g k1 (Depth d1) = w -> omega g k2 Deep = w -> k2 < k1.
Proof. exact root_decreasing_to_deep. Qed.

(* limits: the exact root lies between the deep-water value and its tanh correction, and above
   the shallow-water value *)
Theorem root_bounds : forall g k w d, 0 < g -> 0 < k -> 0 < d -> 0 < w -> omega g k (Depth d) = w ->
  w * w / g < k /\ w / sqrt (g * d) <= k /\ k <= w * w / (g * tanh (w * w / g * d)).
Proof. exact root_bounds. Qed.

(* the first guess is positive and never above the root *)
Theorem guess_positive : forall g, 0 < g -> forall w d, 0 < w -> depth_ok d -> 0 < guess g w d.
Proof. exact guess_pos. Qed.

Theorem guess_below_root : forall g, 0 < g -> forall w d, 0 < w -> depth_ok d ->
  omega g (guess g w d) d <= w.
Proof. exact guess_below_root. Qed.

(* a Newton step from a positive under-estimate does not decrease the estimate (stays positive) *)
Theorem newton_step_positive : forall g w k d, 0 < w -> 0 < k -> depth_ok d ->
  omega g k d <= w -> k <= nstep g w d k /\ 0 < nstep g w d k.
Proof. exact newton_step_positive. Qed.

(* leaving the loop through the tolerance test: EVERY element of the batch meets the tolerance *)
Theorem kinv_exit_tolerance : forall g tol fuel ps ks,
  kinv_batch g tol fuel ps = (true, ks) ->
  List.Forall2 (fun p k => Rabs (omega g k (snd p) - fst p) / fst p < tol) ps ks.
Proof. exact kinv_exit_tolerance. Qed.

Theorem kinv_scalar_tolerance : forall g w d ks, 0 < w -> kinv g w d = (true, ks) ->
  exists k, ks = [k] /\ Rabs (omega g k d - w) < 1 / 1000 * w.
Proof. exact kinv_scalar_tolerance. Qed.

Theorem kinv_output_length : forall g tol fuel ps, length (snd (kinv_batch g tol fuel ps)) = length ps.
Proof. exact kinv_length. Qed.

(* deep water is exact: k = w^2/g after the first test, and every deep element of a mixed batch
   stays at w^2/g however many iterations the other elements need *)
Theorem deep_limit_scalar : forall g, 0 < g -> forall w, 0 < w -> kinv g w Deep = (true, [w * w / g]).
Proof. exact kinv_deep_scalar. Qed.

Theorem deep_limit_batch : forall g, 0 < g -> forall tol fuel ps, List.Forall (fun p => 0 < fst p) ps ->
  List.Forall2 (fun p k => snd p = Deep -> k = fst p * fst p / g) ps (snd (kinv_batch g tol fuel ps)).
Proof. exact kinv_deep_exact. Qed.

(* group / phase velocity ratio *)
Theorem ratio_range : forall k d, 0 < k -> depth_ok d -> 1 / 2 <= n_ratio k d <= 1.
Proof. exact ratio_range. Qed.

Theorem cg_over_phase_range : forall g k d, 0 < g -> 0 < k -> depth_ok d ->
  1 / 2 <= cg g k d / phase g k d <= 1.
Proof. exact cg_over_phase. Qed.

(* group velocity is the derivative of the dispersion relation: exactly for kd <= 5 (and in deep
   water), within 1e-3 relative for kd > 5 (the 0.5 shortcut) *)
Theorem cg_is_derivative : forall g k d, 0 < g -> 0 < k -> depth_ok d ->
  exists D, is_derive (fun k => omega g k d) k D /\ 0 < D /\
            Rabs (cg g k d - D) <= 1 / 1000 * D /\
            (match d with Deep => True | Depth dd => k * dd <= 5 end -> cg g k d = D).
Proof. exact cg_is_derivative. Qed.

Theorem shortcut_gap : forall x, 5 < x -> x / sinh (2 * x) < 5 / 10000.
Proof. exact shortcut_gap. Qed.

(* scale invariance: the solver on (w, d, g) is the dimensionless solver on w sqrt(d/g)
   (same exit flag, wavenumbers scaled by the depth) for every batch of finite depths *)
Theorem scale_invariance : forall g, 0 < g -> forall tol fuel ps, List.Forall finite_pt ps ->
  kinv_batch 1 tol fuel (map (nd_pt g) ps)
  = (fst (kinv_batch g tol fuel ps), nd_ks ps (snd (kinv_batch g tol fuel ps))).
Proof. exact scale_invariance. Qed.

(* spectrum members are the functions evaluated at 2 pi f and the per-point depth, missing = deep *)
Theorem spectrum_depth_missing_is_deep : norm_depth None = Deep /\ forall d, norm_depth (Some d) = d.
Proof. split; reflexivity. Qed.

Theorem spectrum_wavenumber_is_solver : forall g fs ds,
  spec_wavenumber g fs ds = kinv_batch g (1 / 1000) 10
    (flat_map (fun d => map (fun f => (f * 2 * PI, norm_depth d)) fs) ds).
Proof. reflexivity. Qed.

(* ---- the tie to the source.  coq/Generated/DispersionSrc.v is regenerated from
   wavetheory/lineardispersion.py on every run (harness/translate_pointwise.py, fail-closed); the next
   theorems say that what the source computes for finite depth IS the model the theorems above are about,
   and restate the central ones directly on the regenerated definitions. *)
Theorem source_formulas_are_the_model : forall k d g,
  intrinsic_dispersion_relation k d g = omega g k (Depth d) /\
  phase_velocity k d g = phase g k (Depth d) /\
  ratio_group_velocity_to_phase_velocity k d g = n_ratio k (Depth d) /\
  intrinsic_group_velocity k d g = cg g k (Depth d) /\
  jacobian_wavenumber_to_radial_frequency k d g = 1 / cg g k (Depth d) /\
  jacobian_radial_frequency_to_wavenumber k d g = cg g k (Depth d).
Proof.
  intros k d g.
  exact (conj (src_omega k d g) (conj (src_phase k d g) (conj (src_ratio k d g) (conj (src_cg k d g) (src_jacobians k d g))))).
Qed.

Theorem source_solver_pieces_are_the_model : forall w d g n tol k,
  inverse_intrinsic_dispersion_relation_pre w d g n tol = st_of g w d (guess g w (Depth d)) /\
  inverse_intrinsic_dispersion_relation_body w d g n tol (st_of g w d k) =
    (st_of g w d (nstep g w (Depth d) k), conv g tol w (Depth d) (nstep g w (Depth d) k)) /\
  inverse_intrinsic_dispersion_relation_result (st_of g w d k) = k.
Proof. intros w d g n tol k. exact (conj (src_pre w d g n tol) (conj (src_body w d g n tol k) (src_result g w d k))). Qed.

Theorem source_solver_defaults :
  inverse_intrinsic_dispersion_relation_default_maximum_number_of_iterations = fuel_default /\
  inverse_intrinsic_dispersion_relation_default_tolerance_R = tol_default.
Proof. exact src_defaults. Qed.

(* the loop assembled from the regenerated pieces is the model's solver, for every batch of finite depths *)
Theorem source_solver_is_the_model : forall g tol fuel ps,
  src_kinv_batch g tol fuel ps = kinv_batch g tol fuel (finite ps).
Proof. exact src_kinv_batch_is_model. Qed.

Theorem source_exit_tolerance : forall g tol fuel ps ks,
  src_kinv_batch g tol fuel ps = (true, ks) ->
  List.Forall2 (fun p k => Rabs (intrinsic_dispersion_relation k (snd p) g - fst p) / fst p < tol) ps ks.
Proof. exact src_exit_tolerance. Qed.

Theorem source_cg_is_derivative : forall g k d, 0 < g -> 0 < k -> 0 < d ->
  exists D, is_derive (fun k : R => intrinsic_dispersion_relation k d g) k D /\ 0 < D /\
            Rabs (intrinsic_group_velocity k d g - D) <= 1 / 1000 * D /\
            (k * d <= 5 -> intrinsic_group_velocity k d g = D).
Proof. exact src_cg_is_derivative. Qed.

Theorem source_ratio_range : forall k d g, 0 < k -> 0 < d ->
  1 / 2 <= ratio_group_velocity_to_phase_velocity k d g <= 1.
Proof. exact src_ratio_range. Qed.

(* non-vacuity *)
Example depth_ok_examples : depth_ok Deep /\ depth_ok (Depth 10) /\ finite_pt (1, Depth 10).
Proof. repeat split; simpl; try lra. exists 10. split; auto. lra. Qed.
