From Coq Require Import Reals List.
From OSU.Model Require Import Dispersion.
From OSU.Proofs Require Import Dispersion.
