(* C19  File cache: failed or interrupted downloads never poison the cache.
   Same model as C18 (OSU.Model.FileCache), with fault outcomes as inputs of each request. *)
From Coq Require Import ZArith List Bool.
From OSU.Model Require Import FileCache.
From OSU.Proofs Require Import FileCacheBase FileCacheInv FileCacheGet FileCacheHist FileCacheReq FileCacheFaults.
Import ListNotations.
Open Scope Z_scope.

(* After any history - including any fault at any download position of any request and the death
   of the process in the middle of a download - no cache-named file on disk is partial: every one
   is complete and holds bytes of its own resource.  (Partial bytes only ever exist under the
   temporary name, which is not a cache name.) *)
Theorem no_partial_under_cache_name : forall m p a ops n f, 0 <= m ->
  is_cache_name n = true -> dfind (disk (run (init m p a) ops)) n = Some f ->
  is_complete (fcontent f) = true.
Proof.
  intros m p a ops n f Hm Hc Hf.
  exact (w_complete _ (proj1 (inv_all_histories m p a ops Hm)) n f Hc Hf).
Qed.

(* hence reopening the cache on the same directory (after a crash at any point) registers only
   complete files, each holding the bytes of its own resource *)
Theorem reopen_serves_only_complete : forall m p a ops b n, 0 <= m ->
  let s := fst (step (run (init m p a) ops) (Reopen b)) in
  In n (entries s) ->
  exists f, dfind (disk s) n = Some f /\ is_complete (fcontent f) = true /\
            (forall r k, n = CName r k -> content_res (fcontent f) = Some r).
Proof.
  intros m p a ops b n Hm s Hin.
  pose proof (step_Inv _ (Reopen b) (inv_all_histories m p a ops Hm)) as [HW _]. fold s in HW.
  destruct (w_entries_on_disk s HW n Hin) as [Hc He]. apply dexists_true in He. destruct He as [f Hf].
  exists f. split; [assumption|]. split; [exact (w_complete s HW n f Hc Hf)|].
  intros r k ->. exact (w_owner s HW r k f Hf).
Qed.

(* a failed fetch (missing object, I/O error before or during the write, post-processing error)
   of an uncached URI leaves neither an entry nor a file under its cache name ... *)
Theorem failed_uri_not_registered : forall s q,
  Inv s -> alive s = true -> ~ In (q_name q) (entries s) -> download_fails q ->
  ~ In (q_name q) (entries (fst (get s [q]))) /\ dfind (disk (fst (get s [q]))) (q_name q) = None.
Proof. exact failed_uri_not_registered. Qed.

(* ... so the next request for it contacts the resource again *)
Theorem miss_is_fetched : forall s q,
  ~ In (q_name q) (entries s) -> fetched (fst (get s [q])) = q_res q :: fetched s.
Proof. exact miss_is_fetched. Qed.

(* an entry rejected by its validation directive is removed (file and entry) and re-fetched *)
Theorem rejected_validation_refetched : forall s q,
  In (q_name q) (entries s) -> (q_validate q = Some VReject \/ q_validate q = Some VIOError) ->
  fetched (fst (get s [q])) = q_res q :: fetched s /\
  exists s1, classify s [q] = Some (s1, [q]) /\ dfind (disk s1) (q_name q) = None /\ ~ In (q_name q) (entries s1).
Proof. exact rejected_validation_refetched. Qed.

(* missing-file tolerant mode omits the URI, strict mode raises *)
Theorem tolerant_omits : forall s q,
  ~ In (q_name q) (entries s) -> q_out q = DNotFound -> allow s = true -> snd (get s [q]) = Paths [].
Proof. exact tolerant_omits. Qed.

Theorem strict_raises : forall s q,
  ~ In (q_name q) (entries s) -> q_out q = DNotFound -> allow s = false -> snd (get s [q]) = Raised.
Proof. exact strict_raises. Qed.

(* all other requested and previously cached URIs remain intact: whatever the outcome of the
   request (returned, raised, crashed), a file it does not name is unchanged or evicted, and the
   invariant (complete files, entries = cache files, size bound) still holds afterwards *)
Theorem others_intact : forall s l n,
  W s -> ~ In n (map q_name l) -> ~ In n (map q_tmp l) ->
  dfind (disk (fst (get s l))) n = dfind (disk s) n \/ dfind (disk (fst (get s l))) n = None.
Proof. exact get_frame. Qed.

Theorem request_preserves_invariant : forall s l, Inv s -> alive s = true -> Inv (fst (get s l)).
Proof. exact get_Inv. Qed.

(* what a returning request hands out is registered, complete and belongs to its resource *)
Theorem returned_paths_are_complete : forall s l s' ps,
  Inv s -> alive s = true -> NoDup (map q_name l) -> get s l = (s', Paths ps) ->
  forall n, In n ps ->
    In n (map q_name l) /\ In n (entries s') /\
    exists f, dfind (disk s') n = Some f /\ is_complete (fcontent f) = true /\
              (forall r k, n = CName r k -> content_res (fcontent f) = Some r) /\
              clock s <= ftime f.
Proof. exact get_returned_paths. Qed.

(* non-vacuity: a crash in the middle of the second download, then reopen: the completed first
   download is adopted, the partial one is not, and the partial bytes sit under the temporary name *)
Example crash_then_reopen :
  let s := run (init 10000 false true)
               [Get [mkreq 1 0 None None (DOk 5); mkreq 0 0 None None (DCrash 1)]; Reopen true] in
  entries s = [CName 1 0] /\ dfind (disk s) (CName 0 0) = None /\
  (exists f, dfind (disk s) (TName 0 0) = Some f /\ fcontent f = Half 0 1) /\ alive s = true.
Proof. vm_compute. repeat split; try reflexivity. eexists. split; reflexivity. Qed.
