From Coq Require Import ZArith List.
From OSU.Model Require Import FileCache.
Theorem placeholder_init_empty19 : forall m p a, entries (init m p a) = nil.
Proof. reflexivity. Qed.
