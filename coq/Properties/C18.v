(* C18  File cache: contents, hits, size bound and LRU eviction over any request history.
   Model: OSU.Model.FileCache (state machine over an explicit directory).
   Only statements; every proof is [exact lemma]. *)
From Coq Require Import ZArith List Bool.
From OSU.Model Require Import FileCache FileCacheSpec.
From OSU.Proofs Require Import FileCacheBase FileCacheInv FileCacheGet FileCacheHist FileCacheReq FileCacheFaults FileCacheRefine.
Import ListNotations.
Open Scope Z_scope.

(* After ANY history of operations (gets with arbitrary fault outcomes, removes, purges, reopens,
   touches, agings, foreign files, mode changes) from an empty directory, the invariant holds:
   unique names; every entry is a cache-named file on disk; all time stamps are below the clock;
   every cache-named file is complete and holds bytes of its own resource; and, while a cache
   object is alive, every cache-named file is registered and the registered files total at most
   the configured size. *)
Theorem inv_all_histories : forall m p a ops, 0 <= m -> Inv (run (init m p a) ops).
Proof. exact inv_all_histories. Qed.

(* the invariant is inductive: preserved by every single operation from any state satisfying it *)
Theorem step_preserves_invariant : forall s o, Inv s -> Inv (fst (step s o)).
Proof. exact step_Inv. Qed.

(* entries = cache files on disk, as sets and in number *)
Theorem entries_are_exactly_the_cache_files : forall s, Inv s -> alive s = true ->
  forall n, In n (entries s) <-> (is_cache_name n = true /\ dexists (disk s) n = true).
Proof. exact entries_iff. Qed.

Theorem len_eq_files : forall s, Inv s -> alive s = true ->
  length (entries s) = length (cache_names_on_disk (disk s)).
Proof. exact len_eq_files. Qed.

(* a request (pairwise distinct URIs) that returns: every returned path is one of the requested
   names, is registered afterwards, exists, is complete, holds bytes of its own resource, was used
   during this request (so it is newer than anything older), and in particular was NOT evicted by
   the request itself *)
Theorem get_returned_paths : forall s l s' ps,
  Inv s -> alive s = true -> NoDup (map q_name l) -> get s l = (s', Paths ps) ->
  forall n, In n ps ->
    In n (map q_name l) /\ In n (entries s') /\
    exists f, dfind (disk s') n = Some f /\ is_complete (fcontent f) = true /\
              (forall r k, n = CName r k -> content_res (fcontent f) = Some r) /\
              clock s <= ftime f.
Proof. exact get_returned_paths. Qed.

(* a request consisting of cached URIs (no rejecting validation) contacts no resource *)
Theorem hit_not_fetched : forall s l,
  (forall q, In q l -> is_plain_hit s q) -> fetched (fst (get s l)) = fetched s.
Proof. exact hit_not_fetched. Qed.

(* distinct URIs (resource, comment) have distinct files, and a file never holds bytes of another
   resource *)
Theorem distinct_uris_distinct_files : forall r k r' k', CName r k = CName r' k' -> r = r' /\ k = k'.
Proof. intros r k r' k' H. injection H as -> ->. split; reflexivity. Qed.

Theorem file_holds_its_own_resource : forall s r k f, Inv s ->
  dfind (disk s) (CName r k) = Some f -> content_res (fcontent f) = Some r /\ is_complete (fcontent f) = true.
Proof.
  intros s r k f [HW _] H. split; [exact (w_owner s HW r k f H) | exact (w_complete s HW (CName r k) f eq_refl H)].
Qed.

(* size bound after every operation while alive (in particular after each request) *)
Theorem size_bound : forall s o, Inv s -> alive (fst (step s o)) = true ->
  cache_size (fst (step s o)) <= maxb (fst (step s o)).
Proof. intros s o H Ha. exact (proj2 (proj2 (step_Inv s o H) Ha)). Qed.

(* eviction is least-recently-used first: an evicted file is never newer than one that stays *)
Theorem evicts_lru_first : forall s, W s ->
  forall n m f g, In n (entries s) -> ~ In n (entries (evict s)) -> In m (entries (evict s)) ->
                  dfind (disk s) n = Some f -> dfind (disk s) m = Some g -> ftime f <= ftime g.
Proof. exact evict_lru. Qed.

(* eviction never removes a protected set that is newer than everything else and fits *)
Theorem eviction_keeps_protected : forall (P : name -> bool) fuel s,
  W s ->
  (forall n m f g, In n (entries s) -> In m (entries s) -> P n = false -> P m = true ->
                   dfind (disk s) n = Some f -> dfind (disk s) m = Some g -> ftime f < ftime g) ->
  (forall l, NoDup l -> (forall n, In n l -> In n (entries s) /\ P n = true) -> total_size (disk s) l <= maxb s) ->
  forall n, In n (entries s) -> P n = true ->
            In n (entries (evict_loop fuel s)) /\ dfind (disk (evict_loop fuel s)) n = dfind (disk s) n.
Proof. exact evict_loop_keeps. Qed.

(* files that are not cache files are never modified or deleted, over any history that does not
   itself write that foreign file *)
Theorem foreign_untouched : forall ops s j,
  Inv s -> forallb (fun o => negb (op_names_foreign j o)) ops = true ->
  dfind (disk (run s ops)) (FName j) = dfind (disk s) (FName j).
Proof. exact foreign_untouched. Qed.

(* a request leaves every file it does not name unchanged, or evicts it *)
Theorem get_frame : forall s l n,
  W s -> ~ In n (map q_name l) -> ~ In n (map q_tmp l) ->
  dfind (disk (fst (get s l))) n = dfind (disk s) n \/ dfind (disk (fst (get s l))) n = None.
Proof. exact get_frame. Qed.

(* sequential and parallel download modes give the same results: whenever either mode completes
   all downloads of a request, the other mode produces exactly the same state and success flags
   (parallel = chunks of five misses, each chunk sequential, all chunks awaited) *)
Theorem parallel_iff_sequential : forall s ms s' bs,
  download_all s ms = (s', bs, DlOk) <-> download s ms = (s', bs, DlOk).
Proof. intros s ms s' bs. split; [apply parallel_equals_sequential | apply sequential_equals_parallel]. Qed.

(* REFINEMENT.  The abstract specification (Model/FileCacheSpec.v) is a list of (name, content)
   in recency order with a capacity: a hit moves its entry to the recent end, a miss appends the
   fetched content, the capacity grows only when one request exceeds it, and after a request that
   fetched something entries are dropped from the old end while the total exceeds the capacity.
   [Ref s A]: the abstract list has exactly the registered names, each with the bytes on disk, and
   its order is the order of the time stamps.  Every fault-free request (pairwise distinct URIs)
   of the concrete machine is simulated by the abstract request and returns the same paths; so
   is every history of get / remove / purge from an empty directory. *)
Theorem get_refines_abstract_lru : forall s A l,
  Inv s -> alive s = true -> Ref s A -> NoDup (map q_name l) -> (forall q, In q l -> plain q) ->
  Ref (fst (get s l)) (fst (aget A l)) /\ snd (get s l) = Paths (snd (aget A l)) /\ alive (fst (get s l)) = true.
Proof. exact get_refines. Qed.

Theorem histories_refine_abstract_lru : forall ops m p a,
  0 <= m -> Forall api_op ops ->
  Ref (run (init m p a) ops) (fold_left astep ops (mkaspec [] m)) /\ alive (run (init m p a) ops) = true.
Proof.
  intros ops m p a Hm Hall. apply run_refines; [assumption | now apply Inv_init | reflexivity | apply Ref_init].
Qed.

(* eviction of the concrete machine = dropping from the old end of the abstract list *)
Theorem eviction_refines_drop_oldest : forall s a, W s -> Rel (disk s) a -> same_names s a ->
  Rel (disk (evict s)) (adrop (length a) (maxb s) a) /\
  same_names (evict s) (adrop (length a) (maxb s) a) /\ maxb (evict s) = maxb s.
Proof. exact evict_refines. Qed.

(* non-vacuity: a concrete 3-URI history that forces two evictions satisfies every premise *)
Definition ex_q (r : nat) := mkreq r 0 None None (DOk 0).
Definition ex_hist : list op := [Get [ex_q 0; ex_q 1]; Get [ex_q 2]; Get [ex_q 0; ex_q 1]].
Example ex_hist_evicts :
  let s := run (init 2600 false true) ex_hist in
  entries s = [CName 0 0; CName 1 0] /\ cache_size s = 2500 /\ alive s = true.
Proof. vm_compute. repeat split; reflexivity. Qed.
