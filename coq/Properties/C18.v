From Coq Require Import ZArith List.
From OSU.Model Require Import FileCache.
Theorem placeholder_init_empty : forall m p a, entries (init m p a) = nil.
Proof. reflexivity. Qed.
