(* C05  Directional estimators return valid distributions and conserve energy.
   Only statements; every proof is [exact lemma].  Model: OSU.Model.Estimators. *)
From Coq Require Import Reals List Arith Lra.
From OSU.Model Require Import Estimators.
From Coquelicot Require Import Coquelicot.
From OSU.Proofs Require Import Estimators Estimators5 Estimators7 Estimators8.
Import ListNotations.
Open Scope R_scope.

(* ---- MEM (Lygre & Krogstad closed form).  mem_point returns Some exactly when 1-|c1|^2 <> 0, no
   denominator |1 - Phi1 e^{-i th} - Phi2 e^{-2 i th}|^2 vanishes on the grid and the discrete integral is
   non-zero; then every value is >= 0 and sum_j D_j * (2 pi / N) = 1 -- for ANY finite moments, realisable or
   not (the sign of the numerator cancels in the normalisation). *)
Theorem mem_valid : forall th a1 b1 a2 b2 D,
  mem_point th a1 b1 a2 b2 = Some D ->
  List.Forall (fun x => 0 <= x) D /\ sumR D * (2 * PI / INR (length th)) = 1 /\ length D = length th.
Proof. exact mem_valid. Qed.

(* the (re, im) arithmetic of the model is the complex formula of mem.py:
   Phi1 = (c1 - c2 conj c1)/(1 - c1 conj c1), Phi2 = c2 - Phi1 c1, numerator = Re(1 - Phi1 conj c1 - Phi2 conj c2),
   denominator = |1 - Phi1 e^{-i t} - Phi2 e^{-2 i t}|^2 *)
Theorem mem_phi1_complex : forall a1 b1 a2 b2, 1 - (a1 * a1 + b1 * b1) <> 0 ->
  mem_phi1 a1 b1 a2 b2 = CPhi1 a1 b1 a2 b2.
Proof. exact mem_phi1_complex. Qed.
Theorem mem_phi2_complex : forall a1 b1 a2 b2, 1 - (a1 * a1 + b1 * b1) <> 0 ->
  mem_phi2 a1 b1 a2 b2 = CPhi2 a1 b1 a2 b2.
Proof. exact mem_phi2_complex. Qed.
Theorem mem_num_complex : forall a1 b1 a2 b2, 1 - (a1 * a1 + b1 * b1) <> 0 ->
  mem_num a1 b1 a2 b2 = fst (CNum a1 b1 a2 b2).
Proof. exact mem_num_complex. Qed.
Theorem mem_den_complex : forall a1 b1 a2 b2, 1 - (a1 * a1 + b1 * b1) <> 0 -> forall t,
  mem_den (mem_phi1 a1 b1 a2 b2) (mem_phi2 a1 b1 a2 b2) t
  = Cmod (CDenArg a1 b1 a2 b2 t) * Cmod (CDenArg a1 b1 a2 b2 t).
Proof. exact mem_den_complex. Qed.

(* the guards pass under the premises of the property: a1^2+b1^2 < 1, numerator <> 0, no singular direction *)
Theorem mem_point_defined : forall th a1 b1 a2 b2,
  th <> [] -> a1 * a1 + b1 * b1 < 1 -> mem_num a1 b1 a2 b2 <> 0 ->
  (forall t, In t th -> mem_den (mem_phi1 a1 b1 a2 b2) (mem_phi2 a1 b1 a2 b2) t <> 0) ->
  exists D, mem_point th a1 b1 a2 b2 = Some D.
Proof. exact mem_point_defined. Qed.

(* what estimate_directional_distribution(method="mem") returns (per degree, N directions) *)
Theorem mem_estimate_valid : forall dirs a1 b1 a2 b2 D,
  estimate_entry VMem dirs (Some a1) (Some b1) (Some a2) (Some b2) = EDist D ->
  dirs <> [] ->
  mem_guard (to_rad dirs) a1 b1 a2 b2 = true ->
  exists xs, D = map Some xs /\ List.Forall (fun x => 0 <= x) xs /\
             sumR xs * (360 / INR (length dirs)) = 1 /\ length xs = length dirs.
Proof. exact mem_estimate_valid. Qed.

(* ---- MEM2: for EVERY finite lambda the distribution is strictly positive with unit integral, so whatever
   Newton, scipy's root finder, the least-squares fallback or the first guess deliver is a valid distribution *)
Theorem mem2_dist_valid : forall l d th,
  th <> [] -> length d = length th -> List.Forall (fun x => 0 < x) d ->
  List.Forall (fun x => 0 < x) (dist l d th) /\ wsum (dist l d th) d = 1 /\ length (dist l d th) = length th.
Proof. exact mem2_dist_valid. Qed.

(* the same under the weaker premise "non-negative increments with positive sum" *)
Theorem mem2_dist_valid_nonneg : forall l d th,
  length d = length th -> List.Forall (fun x => 0 <= x) d -> 0 < sumR d ->
  List.Forall (fun x => 0 < x) (dist l d th) /\ wsum (dist l d th) d = 1.
Proof. exact mem2_dist_valid_nonneg. Qed.

(* the one documented exception: NaN in the first guess (NaN moments) gives the all-zero row *)
Theorem nan_guess_zero : forall approx mo d th,
  newton_solver approx mo None d th = Dist (map (fun _ => 0) d) None.
Proof. exact nan_guess_zero. Qed.

(* every status of the modelled Newton solver (converged, max_iter, failed line search) and the approximate
   variant return dist(lambda) for some lambda, hence a valid distribution *)
Theorem newton_solver_valid : forall approx mo g d th D st,
  th <> [] -> length d = length th -> List.Forall (fun x => 0 < x) d ->
  newton_solver approx mo (Some g) d th = Dist D st ->
  List.Forall (fun x => 0 < x) D /\ wsum D d = 1 /\ length D = length th.
Proof. exact newton_solver_valid. Qed.

(* estimate_directional_distribution(method="mem2", solution_method in {newton, approximate}), finite moments *)
Theorem mem2_estimate_valid : forall v dirs a1 b1 a2 b2 D,
  v <> VMem -> dirs <> [] ->
  estimate_entry v dirs (Some a1) (Some b1) (Some a2) (Some b2) = EDist D ->
  exists xs, D = map Some xs /\ List.Forall (fun x => 0 < x) xs /\
             wsum xs (map (fun w => w / jac_deg) (incr_newton (to_rad dirs))) = 1 /\
             length xs = length dirs.
Proof. exact mem2_estimate_valid. Qed.

(* on np.linspace(0,360,N) the midpoint increments are 2 pi / N (N >= 3), i.e. 360/N degrees *)
Theorem incr_newton_uniform : forall n, (3 <= n)%nat ->
  incr_newton (to_rad (linspace360 n)) = map (fun _ => 2 * PI / INR n) (seq 0 n).
Proof. exact incr_newton_uniform. Qed.

(* the statement of the property on the grid of as_frequency_direction_spectrum: positive, sum * 360/N = 1 *)
Theorem mem2_estimate_valid_linspace : forall v n a1 b1 a2 b2 D,
  v <> VMem -> (3 <= n)%nat ->
  estimate_entry v (linspace360 n) (Some a1) (Some b1) (Some a2) (Some b2) = EDist D ->
  exists xs, D = map Some xs /\ List.Forall (fun x => 0 < x) xs /\ sumR xs * (360 / INR n) = 1 /\ length xs = n.
Proof. exact mem2_estimate_valid_linspace. Qed.

Theorem estimate_nan_moments : forall v dirs a1 b1 a2 b2,
  all_some4 a1 b1 a2 b2 = None ->
  incr_ok (incr_newton (to_rad dirs)) = true ->
  estimate_entry v dirs a1 b1 a2 b2 =
    match v with
    | VMem => EDist (map (fun _ => None) dirs)
    | _ => EDist (map (fun _ => Some 0) dirs)
    end.
Proof. exact estimate_nan_moments. Qed.

(* ---- energy: e_i * D_ij integrated over direction gives back e_i, hence the same total variance *)
Theorem energy_roundtrip : forall step e D,
  length e = length D -> List.Forall (fun row => wsum row step = 1) D ->
  map (dint step) (to_2d e D) = e.
Proof. exact energy_roundtrip. Qed.

Theorem variance_preserved : forall f step e D,
  length e = length D -> List.Forall (fun row => wsum row step = 1) D ->
  trapz f (map (dint step) (to_2d e D)) = trapz f e.
Proof. exact variance_preserved. Qed.

Theorem to_2d_nonneg : forall e D,
  List.Forall (fun x => 0 <= x) e -> List.Forall (List.Forall (fun x => 0 <= x)) D ->
  List.Forall (List.Forall (fun x => 0 <= x)) (to_2d e D).
Proof. exact to_2d_nonneg. Qed.

(* ---- batches: entry i of the batch result is the function of entry i alone *)
Theorem estimate_batch_independent : forall v dirs b i dflt,
  (i < length b)%nat ->
  nth i (estimate_batch v dirs b) dflt =
  (let '(a1, b1, a2, b2) := nth i b (None, None, None, None) in estimate_entry v dirs a1 b1 a2 b2).
Proof. exact estimate_batch_independent. Qed.

Theorem estimate_batch_single : forall v dirs b i q,
  nth_error b i = Some q ->
  nth_error (estimate_batch v dirs b) i = nth_error (estimate_batch v dirs [q]) 0.
Proof. exact estimate_batch_single. Qed.

(* ---- metadata: every non-spectral variable is carried over, the spectral ones are replaced by the 2D density *)
Theorem meta_carried : forall (P : Type) (vars : list (vname * P)) e2d k p,
  In (NOther k, p) vars <-> In (NOther k, p) (carry_vars vars e2d).
Proof. exact @meta_carried. Qed.

Theorem meta_only_density : forall (P : Type) (vars : list (vname * P)) e2d n p,
  In (n, p) (carry_vars vars e2d) -> is_spectral n = true -> n = NE /\ p = e2d.
Proof. exact @meta_only_density. Qed.

(* ---- non-vacuity: the premises are satisfiable *)
Example grid4_premises :
  let th := [0; PI / 2; PI; 3 * PI / 2] in let d := [PI / 2; PI / 2; PI / 2; PI / 2] in
  th <> [] /\ length d = length th /\ List.Forall (fun x => 0 < x) d.
Proof.
  simpl. pose proof PI_RGT_0. repeat split; try discriminate.
  repeat constructor; lra.
Qed.

Example isotropic_mem_defined : exists D, mem_point [0; PI] 0 0 0 0 = Some D.
Proof.
  apply mem_point_defined; try discriminate; try lra.
  - unfold mem_num, mem_phi1, mem_phi2, mem_one_minus_c1sq. simpl. lra.
  - intros t _. unfold mem_den, mem_phi1, mem_phi2, mem_one_minus_c1sq. simpl. lra.
Qed.
