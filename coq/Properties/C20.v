(* C20  Time integration: exact stencils, linearity, start value, jitter fallback.
   Only statements; every proof is [exact lemma].  Model: OSU.Model.TimeIntegration. *)
From Coq Require Import QArith Reals List Arith.
From OSU.Model Require Import TimeIntegration PyKernel.
From OSU.Proofs Require Import TimeIntegration StencilGen.
Import ListNotations.

(* weights sum to one: every order 1..8, implicit points 1..order (finite table, exact Q) *)
Theorem stencil_sum_one : forall o n, (1 <= o <= 8)%nat -> (1 <= n <= o)%nat ->
  (qsum (stencil o n) == 1)%Q.
Proof. exact stencil_sum_one. Qed.

(* exact on monomials of degree < order: sum_i w_i off_i^d = int_{-1}^0 x^d dx *)
Theorem stencil_exact_monomial : forall o n d, (1 <= o <= 8)%nat -> (1 <= n <= o)%nat -> (d < o)%nat ->
  (momQ o n d == targetQ d)%Q.
Proof. exact stencil_exact_monomial. Qed.

(* ... hence on every polynomial of degree < order (coefficients in R, any values) *)
Theorem stencil_exact_poly : forall o n (c : list R),
  (1 <= o <= 8)%nat -> (1 <= n <= o)%nat -> (length c <= o)%nat ->
  applyR_aux (stencilR o n) o n 0 0 c = integral_m1_0 c.
Proof. exact stencil_exact_poly. Qed.

(* the weights are the exact integrals of the independently defined Lagrange basis polynomials *)
Theorem stencil_is_lagrange_integral : forall o n i,
  (1 <= o <= 8)%nat -> (1 <= n <= o)%nat -> (i < o)%nat ->
  (qnth (stencil o n) i == basis_integral o n i)%Q.
Proof. exact stencil_is_lagrange_integral. Qed.

(* cumulative integration starts at the requested value and has one output per sample *)
Theorem integrate_start : forall t x o n s, hd 0%R (integrate t x o n s) = s.
Proof. exact integrate_start. Qed.

Theorem integrate_length : forall t x o n s, x <> [] -> length (integrate t x o n s) = length x.
Proof. exact integrate_length. Qed.

(* linear in (signal, start value), every length, every time vector, every order/n *)
Theorem integrate_linear : forall a b t x y o n s1 s2, length x = length y ->
  integrate t (lc a b x y) o n (a * s1 + b * s2)%R
  = lc a b (integrate t x o n s1) (integrate t y o n s2).
Proof. exact integrate_linear. Qed.

Theorem integrate_shift : forall c t x o n s,
  integrate t x o n (s + c)%R = map (fun v => (v + c)%R) (integrate t x o n s).
Proof. exact integrate_shift. Qed.

(* each output adds (chosen stencil applied to the signal) * dt to the previous output *)
Theorem integrate_increment : forall t x prim n width nt idx s p k,
  (k < length idx)%nat ->
  exists up, nth k (choices t n width nt idx s) false = up /\
  nth k (go t x prim n width nt idx s p) 0%R
  = (nth k (p :: go t x prim n width nt idx s p) 0
    + delta_of x prim n width (nth k idx O) up * (rnth t (nth k idx O) - rnth t (nth k idx O - 1)))%R.
Proof. exact go_increment. Qed.

(* trapezoid wherever the step jitters by more than 1 %, near the end, and for [width] steps
   after every restart *)
Theorem jitter_forces_trapezoid : forall t n width nt s ii,
  let curr := (rnth t ii - rnth t (ii - 1))%R in
  let fut := if Nat.ltb (ii + n - 1) nt then (rnth t (ii + n - 1) - rnth t (ii + n - 2))%R else curr in
  (Rabs (fut - prev_dt s) > 1 / 100 * curr)%R ->
  snd (ctl_step t n width nt s ii) = false.
Proof. exact jitter_forces_trapezoid. Qed.

Theorem tail_forces_trapezoid : forall t n width nt s ii,
  (nt <= ii + n - 1)%nat -> snd (ctl_step t n width nt s ii) = false.
Proof. exact tail_forces_trapezoid. Qed.

Theorem restart_needs_width_steps : forall t n width nt idx s k,
  restart s = true -> (nconst s < width)%nat -> (k < width - nconst s)%nat -> (k < length idx)%nat ->
  nth k (choices t n width nt idx s) true = false.
Proof. exact restart_needs_width_steps. Qed.

(* the primary stencil never reads before index 0 (so Python's negative-index wrap is unreachable) *)
Theorem primary_index_safe : forall t n width nt m k,
  (k < m)%nat ->
  nth k (choices t n width nt (seq 1 m) (mkctl (rnth t 1 - rnth t 0) true O)) false = true ->
  (width - n <= 1 + k)%nat.
Proof. exact primary_index_safe. Qed.

(* one step with an order-4 stencil on a uniform stretch adds the exact integral of any cubic *)
Theorem cubic_exact_step : forall (n : nat) a0 a1 a2 a3 tb h,
  (1 <= n <= 4)%nat -> h <> 0%R ->
  let x := map (fun k => cubic a0 a1 a2 a3 (tb + INR k * h)) (seq 0 4) in
  let tcur := (tb + INR (4 - n) * h)%R in
  (dotwin (stencilR 4 n) x 0 * h = cubic_prim a0 a1 a2 a3 tcur - cubic_prim a0 a1 a2 a3 (tcur - h))%R.
Proof. exact cubic_exact_step. Qed.

(* THE TIE TO THE SOURCE.  [gen_stencil o n] runs the four Python functions
   lagrange_base_polynomial_coef, integrated_lagrange_base_polynomial_coef, evaluate_polynomial and
   integration_stencil - as translated, purely syntactically, from /repo's current
   tools/time_integration.py into the embedded language of Model/PyKernel.v on every run - in exact
   rational arithmetic.  What the source says today computes the model's weights, hence weights that
   sum to one and are exact on every monomial of degree below the order (orders 1..8, every n). *)
Theorem generated_stencil_is_model : forall o n, (1 <= o <= 8)%nat -> (1 <= n <= o)%nat ->
  exists l, gen_stencil o n = Some l /\ Forall2 Qeq l (stencil o n).
Proof. exact generated_stencil_is_model. Qed.

Theorem generated_sum_one : forall o n, (1 <= o <= 8)%nat -> (1 <= n <= o)%nat ->
  exists l, gen_stencil o n = Some l /\ (qsum l == 1)%Q.
Proof. exact generated_sum_one. Qed.

Theorem generated_exact_monomial : forall o n d, (1 <= o <= 8)%nat -> (1 <= n <= o)%nat -> (d < o)%nat ->
  exists l, gen_stencil o n = Some l /\ (momQ_aux l o n 0 d == targetQ d)%Q.
Proof. exact generated_exact_monomial. Qed.

(* non-vacuity: concrete instances meet the premises *)
Example stencil_4_1 : stencil 4 1 = [ (40310784 # 967458816); (-30720 # 147456); (116736 # 147456); (362797056 # 967458816) ]%Q
  /\ (40310784 # 967458816 == 1 # 24)%Q /\ (362797056 # 967458816 == 9 # 24)%Q.
Proof. split; [vm_compute; reflexivity | split; reflexivity]. Qed.
