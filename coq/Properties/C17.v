From Coq Require Import ZArith.
From OSU.Model Require Import TimeConv.
From OSU.Generated Require Import TimeInt.
