(* C17  Time conversions denote the same UTC instant for every input representation.
   Only statements; every proof is [exact lemma].
   Model: OSU.Model.TimeConv (hand-written, follows tools/time.py) and OSU.Generated.TimeInt (the packed
   integer decoders, translated from the CURRENT Python source on every run by harness/translate_timeint.py).
   Instants are Z microseconds since 1970-01-01T00:00:00 UTC; [same_instant loc r t] says: to_datetime_utc
   (run in a process whose local zone has UTC offset [loc]) returns valid, timezone-aware datetimes with
   utcoffset 0 whose instants are the tree [t].  All theorems are over Z / lists: no axioms. *)
From Coq Require Import ZArith List Bool.
From OSU.Lib Require Import TimeAuxCalendar.
From OSU.Model Require Import TimeConv.
From OSU.Generated Require Import TimeInt.
From OSU.Proofs Require Import TimeConv.
Import ListNotations.
Open Scope Z_scope.

(* ---- calendar: days_from_civil / civil_from_days are mutually inverse on ALL days and ALL valid dates
        (two 400-year era tables decided by vm_compute, lifted to every era by arithmetic) ---- *)
Theorem civil_roundtrip_days : forall z,
  let '(y, m, d) := civil_from_days z in days_from_civil y m d = z /\ valid_dateb y m d = true.
Proof. exact civil_roundtrip_days_stmt. Qed.

Theorem civil_roundtrip_dates : forall y m d, valid_dateb y m d = true ->
  civil_from_days (days_from_civil y m d) = (y, m, d).
Proof. exact civil_days_civil. Qed.

(* the range of the property: day numbers 0 .. 47846 are exactly 1970-01-01 .. 2100-12-31 *)
Theorem civil_roundtrip_1970_2100 :
  days_from_civil 1970 1 1 = 0 /\ days_from_civil 2100 12 31 = 47846 /\
  forall z, 0 <= z < 47847 ->
    let '(y, m, d) := civil_from_days z in
    1970 <= y <= 2100 /\ valid_dateb y m d = true /\ days_from_civil y m d = z.
Proof. exact civil_roundtrip_1970_2100_stmt. Qed.

Theorem fields_instant_roundtrip :
  (forall f, valid_fieldsb f = true -> fields_of_instant (instant_of_fields f) = f) /\
  (forall i, instant_of_fields (fields_of_instant i) = i /\ valid_fieldsb (fields_of_instant i) = true).
Proof. exact fields_instant_roundtrip_stmt. Qed.

(* ---- every scalar representation: same instant, aware, UTC; any local zone ---- *)

(* aware datetime, ANY offset (in particular -12h..+14h in minutes, half hours included) *)
Theorem utc_same_instant_aware : forall loc f off,
  same_instant loc (RAware f off) (IInst (instant_of_fields f - off * 1000000)).
Proof. exact same_instant_aware. Qed.

(* naive datetime: read as UTC -- same instant AND the same calendar fields, whatever the local zone *)
Theorem utc_same_instant_naive : forall loc f,
  same_instant loc (RNaive f) (IInst (instant_of_fields f)) /\
  (valid_fieldsb f = true -> to_datetime_utc loc (RNaive f) = ResDT (mkDT f (Some 0))).
Proof. exact utc_same_instant_naive_stmt. Qed.

(* ISO-8601 string written character by character: separator T or space, with or without the six
   fraction digits, zone absent (read as UTC) / Z / +HH:MM / -HH:MM *)
Theorem utc_same_instant_iso_string : forall loc sep frac f z,
  sep = cT \/ sep = cSPACE -> valid_fieldsb f = true -> 1 <= fY f <= 9999 ->
  (frac = false -> fus f = 0) -> zone_ok z ->
  same_instant loc (RStr (fmt_iso_gen sep frac f z)) (IInst (instant_of_fields f - zoff z * 1000000)).
Proof. exact same_instant_str. Qed.

(* the parser recovers exactly the fields and the zone that were written *)
Theorem iso_parse_format : forall sep frac f z,
  sep = cT \/ sep = cSPACE -> valid_fieldsb f = true -> 1 <= fY f <= 9999 ->
  (frac = false -> fus f = 0) -> zone_ok z ->
  parse_iso (fmt_iso_gen sep frac f z) = Some (mkDT f (zone_offset z)).
Proof. exact parse_iso_fmt. Qed.

Theorem utc_same_instant_epoch_int : forall loc n, same_instant loc (RInt n) (IInst (n * 1000000)).
Proof. exact same_instant_int. Qed.

(* epoch seconds as the binary float num / 2^k: the microsecond instant nearest to it (strictly closer
   than half a microsecond) *)
Theorem utc_same_instant_epoch_float : forall loc num k i, 0 <= k ->
  2 * Z.abs (num * 1000000 - i * 2 ^ k) < 2 ^ k ->
  same_instant loc (RFloat num k) (IInst i).
Proof. exact same_instant_float. Qed.

(* numpy datetime64 (count units of unit_ns nanoseconds): the whole second (floor); exact when the value
   is a whole number of seconds *)
Theorem utc_same_instant_datetime64 : forall loc c u,
  same_instant loc (RDT64 c u) (IInst ((c * u) / 1000000000 * 1000000)) /\
  (forall s, c * u = s * 1000000000 -> same_instant loc (RDT64 c u) (IInst (s * 1000000))).
Proof. exact utc_same_instant_datetime64_stmt. Qed.

Theorem none_none : forall loc, to_datetime_utc loc RNone = ResNone /\ same_instant loc RNone INone.
Proof. exact none_none. Qed.

(* sequences (lists, tuples, arrays, DataArrays; any nesting, any mixture): element-wise, by induction *)
Theorem utc_same_instant_seq : forall loc l ts, Forall2 (same_instant loc) l ts ->
  same_instant loc (RSeq l) (ISeq ts).
Proof. exact same_instant_seq. Qed.

Theorem seq_elementwise : forall loc l,
  exists rs, to_datetime_utc loc (RSeq l) = ResSeq rs /\ length rs = length l
             /\ forall k, (k < length l)%nat -> nth k rs ResErr = to_datetime_utc loc (nth k l RNone).
Proof. exact seq_length. Qed.

(* the result never depends on the time zone of the process *)
Theorem tz_independent : forall loc1 loc2 r, to_datetime_utc loc1 r = to_datetime_utc loc2 r.
Proof. exact tz_independent. Qed.

(* ---- round trips ---- *)
Theorem dt64_roundtrip : forall loc r i, 0 <= i -> same_instant loc r (IInst i) ->
  to_datetime64 loc r = R64 (i / 1000000 * 1000000000) /\
  same_instant loc (RDT64 (i / 1000000 * 1000000000) 1) (IInst (i / 1000000 * 1000000)).
Proof. exact dt64_roundtrip. Qed.

Theorem dt64_roundtrip_seq : forall loc l ins,
  Forall2 (fun r i => 0 <= i /\ same_instant loc r (IInst i)) l ins ->
  to_datetime64 loc (RSeq l) = R64Seq (map (fun i => R64 (i / 1000000 * 1000000000)) ins).
Proof. exact dt64_roundtrip_seq. Qed.

Theorem iso_roundtrip : forall loc r i, same_instant loc r (IInst i) ->
  1 <= fY (fields_of_instant i) <= 9999 ->
  datetime_to_iso_time_string loc r = Some (Some (format_iso (fields_of_instant i))) /\
  same_instant loc (RStr (format_iso (fields_of_instant i))) (IInst i).
Proof. exact iso_roundtrip. Qed.

Theorem iso_roundtrip_1970_2100 : forall loc r i, same_instant loc r (IInst i) ->
  0 <= i < 47847 * 86400 * 1000000 ->
  datetime_to_iso_time_string loc r = Some (Some (format_iso (fields_of_instant i))) /\
  same_instant loc (RStr (format_iso (fields_of_instant i))) (IInst i).
Proof. exact iso_roundtrip_1970_2100. Qed.

(* ---- packed integers: statements about the definitions GENERATED from the Python source ---- *)

(* valid packed times: hh (0..23), hhmm and hhmmss with a non-zero hour (see packed_time_forms_overlap) *)
Theorem timeint_decodes : forall fm h m s, valid_packed_time fm h m s ->
  py_time_from_timeint (pack_time fm h m s) = h * 3600 + m * 60 + s.
Proof. exact timeint_decodes. Qed.

Theorem dateint_decodes : forall m d, 1 <= m <= 12 -> 1 <= d <= 31 ->
  (forall y, 100 <= y <= 9999 -> py_date_from_dateint (pack_date4 y m d) = (y, m, d)) /\
  (forall yy, 0 <= yy <= 99 -> py_date_from_dateint (pack_date2 yy m d) = (2000 + yy, m, d)).
Proof. exact dateint_decodes_stmt. Qed.

Theorem packed_datetime : forall m d fm h mi s, valid_packed_time fm h mi s ->
  (forall y, 100 <= y <= 9999 -> valid_dateb y m d = true ->
     date_plus_seconds (fst (py_datetime_from_ints (pack_date4 y m d) (pack_time fm h mi s)))
                       (snd (py_datetime_from_ints (pack_date4 y m d) (pack_time fm h mi s)))
     = Some (mkDT (mkF y m d h mi s 0) (Some 0))) /\
  (forall yy, 0 <= yy <= 99 -> valid_dateb (2000 + yy) m d = true ->
     date_plus_seconds (fst (py_datetime_from_ints (pack_date2 yy m d) (pack_time fm h mi s)))
                       (snd (py_datetime_from_ints (pack_date2 yy m d) (pack_time fm h mi s)))
     = Some (mkDT (mkF (2000 + yy) m d h mi s 0) (Some 0))).
Proof. exact packed_datetime_stmt. Qed.

(* the domain above is forced: the three packings overlap (1 is 01:00:00 as hh and 00:00:01 as hhmmss) *)
Theorem packed_time_forms_overlap :
  ~ exists dec : Z -> Z, forall fm h m s,
      0 <= h <= 23 -> 0 <= m <= 59 -> 0 <= s <= 59 -> (fm = HH -> m = 0 /\ s = 0) -> (fm = HHMM -> s = 0) ->
      dec (pack_time fm h m s) = h * 3600 + m * 60 + s.
Proof. exact packed_time_forms_overlap. Qed.

(* ---- non-vacuity: the premises are met by the instant of the repository's own test and friends ---- *)
Example ex_fields : valid_fieldsb (mkF 2022 11 9 10 20 42 123456) = true
  /\ instant_of_fields (mkF 2022 11 9 10 20 42 123456) = 1667989242123456.
Proof. split; vm_compute; reflexivity. Qed.

Example ex_offset_string :
  to_datetime_utc (-12600)
    (RStr (fmt_iso_gen cT true (mkF 2022 11 9 15 50 42 123456) (ZoneOff false 5 30)))
  = ResDT (mkDT (mkF 2022 11 9 10 20 42 123456) (Some 0)).
Proof. vm_compute. reflexivity. Qed.

Example ex_float : 2 * Z.abs (1749013487548845 * 1000000 - 1667989242123456 * 2 ^ 20) < 2 ^ 20.
Proof. vm_compute. reflexivity. Qed.

Example ex_packed : valid_packed_time HHMMSS 20 18 13 /\ pack_time HHMMSS 20 18 13 = 201813
  /\ valid_dateb 2022 11 9 = true /\ pack_date2 22 11 9 = 221109.
Proof. repeat split; vm_compute; congruence. Qed.

(* what the model says would happen WITHOUT replace(tzinfo=utc): a naive input would be read in the
   local zone (so the correspondence under TZ=VRF+03:30 sees such a change) *)
Example ex_naive_local : forall loc f,
  instant_of_dt (astimezone_utc loc (mkDT f None)) = Some (instant_of_fields f - loc * 1000000).
Proof. exact naive_astimezone_is_local. Qed.
