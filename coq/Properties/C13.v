(* C13  Linear interpolation: exact at nodes, bounded, no extrapolation, NaN-aware.
   Only statements; every proof is [exact lemma].  Model: OSU.Model.Interp
   (enclosing_points_1d, interpolation_weights_1d, NdInterpolator._data_interpolator,
   interpolate_dataset_along_axis, FrequencySpectrum.interpolate).
   A float that may be NaN is [option R]; [rows] gives, for every grid node, the data at all
   positions of the non-interpolated dimensions; a node is "present" when all of them are finite. *)
From Coq Require Import Reals ZArith List Arith Lra.
From OSU.Lib Require Import InterpAuxDefs.
From OSU.Model Require Import Interp.
From OSU.Proofs Require Import Interp.
Import ListNotations.
Open Scope R_scope.

(* np.searchsorted(side="right") on a sorted vector: xp[k-1] <= x < xp[k] *)
Theorem searchsorted_right_spec : forall xp x, asc xp ->
  (ssr xp x <= length xp)%nat /\
  (forall i, (i < ssr xp x)%nat -> rnth xp i <= x) /\
  (forall i, (ssr xp x <= i < length xp)%nat -> x < rnth xp i).
Proof. intros xp x H. split; [apply ssr_le_length|exact (ssr_spec xp x H)]. Qed.

(* the bracketing indices and the weight for a target inside the grid *)
Theorem enclosing_inside : forall xp x i, asc xp -> (i + 1 < length xp)%nat ->
  rnth xp i <= x < rnth xp (i + 1) ->
  enclosing xp x None = (i, (i + 1)%nat) /\
  frac xp x (i, (i + 1)%nat) None false false
  = Some ((x - rnth xp i) / (rnth xp (i + 1) - rnth xp i)).
Proof.
  intros xp x i Ha Hi Hx. split; [exact (enclosing_between xp x i Ha Hi Hx)|exact (frac_between xp x i false false Ha Hi Hx)].
Qed.

(* every target inside a strictly sorted grid has a bracket *)
Theorem bracket_exists : forall xp x, sasc xp -> (2 <= length xp)%nat ->
  hd0 xp <= x < last0 xp ->
  exists i, (i + 1 < length xp)%nat /\ rnth xp i <= x < rnth xp (i + 1).
Proof. exact bracket_exists. Qed.

(* at a grid node (also the last one) the result is the node value, whatever the neighbours hold *)
Theorem interp_node : forall xp rows k np j, sasc xp -> (k < length xp)%nat ->
  all_some (nth k rows []) = true -> (j < np)%nat ->
  nth j (interp_axis1 xp rows (rnth xp k) None false np) None = Some (oget (nth k rows []) j).
Proof. exact interp_node. Qed.

(* between two present nodes: (1-t) f_i + t f_(i+1) with t in [0,1), hence between the neighbours *)
Theorem interp_between : forall xp rows x i np j,
  asc xp -> (i + 1 < length xp)%nat -> rnth xp i <= x < rnth xp (i + 1) ->
  all_some (nth i rows []) = true -> all_some (nth (i + 1) rows []) = true -> (j < np)%nat ->
  let t := (x - rnth xp i) / (rnth xp (i + 1) - rnth xp i) in
  let f0 := oget (nth i rows []) j in
  let f1 := oget (nth (i + 1) rows []) j in
  0 <= t < 1 /\
  nth j (interp_axis1 xp rows x None false np) None = Some ((1 - t) * f0 + t * f1) /\
  Rmin f0 f1 <= (1 - t) * f0 + t * f1 <= Rmax f0 f1.
Proof. exact interp_between. Qed.

(* exact for data that vary linearly along the axis, everywhere on [xp[0], xp[-1]] *)
Theorem interp_linear_exact : forall xp rows x np j a b,
  sasc xp -> (2 <= length xp)%nat -> hd0 xp <= x <= last0 xp -> (j < np)%nat ->
  (forall k, (k < length xp)%nat ->
     all_some (nth k rows []) = true /\ oget (nth k rows []) j = a * rnth xp k + b) ->
  nth j (interp_axis1 xp rows x None false np) None = Some (a * x + b).
Proof. exact interp_linear_exact. Qed.

(* no extrapolation, in both modes *)
Theorem interp_outside_none : forall xp rows x nearest np, asc xp -> (1 <= length xp)%nat ->
  x < hd0 xp \/ last0 xp < x ->
  interp_axis1 xp rows x None nearest np = repeat None np.
Proof. exact interp_outside_none. Qed.

(* NaN rule: a missing neighbour is dropped and the weights renormalised (so the present
   neighbour's value is returned) iff the present weight exceeds one half *)
Theorem interp_nan_rule : forall xp rows x i np j,
  asc xp -> (i + 1 < length xp)%nat -> rnth xp i < x < rnth xp (i + 1) -> (j < np)%nat ->
  let t := (x - rnth xp i) / (rnth xp (i + 1) - rnth xp i) in
  let r0 := nth i rows [] in
  let r1 := nth (i + 1) rows [] in
  0 < t < 1 /\
  (all_some r0 = true -> all_some r1 = false ->
   nth j (interp_axis1 xp rows x None false np) None
   = if Rgt_dec (1 - t) (1 / 2) then Some (oget r0 j) else None) /\
  (all_some r0 = false -> all_some r1 = true ->
   nth j (interp_axis1 xp rows x None false np) None
   = if Rgt_dec t (1 / 2) then Some (oget r1 j) else None) /\
  (all_some r0 = false -> all_some r1 = false ->
   nth j (interp_axis1 xp rows x None false np) None = None).
Proof. exact interp_nan_rule. Qed.

(* a missing node gives a missing value at that node *)
Theorem interp_node_missing : forall xp rows k np, sasc xp -> (k < length xp)%nat ->
  all_some (nth k rows []) = false ->
  interp_axis1 xp rows (rnth xp k) None false np = repeat None np.
Proof. exact interp_node_missing. Qed.

(* nearest mode: left node up to and including the mid point (rint rounds half to even), else right *)
Theorem interp_nearest : forall xp rows x i np j,
  asc xp -> (i + 1 < length xp)%nat -> rnth xp i <= x < rnth xp (i + 1) -> (j < np)%nat ->
  let t := (x - rnth xp i) / (rnth xp (i + 1) - rnth xp i) in
  (t <= 1 / 2 -> all_some (nth i rows []) = true ->
   nth j (interp_axis1 xp rows x None true np) None = Some (oget (nth i rows []) j)) /\
  (1 / 2 < t -> all_some (nth (i + 1) rows []) = true ->
   nth j (interp_axis1 xp rows x None true np) None = Some (oget (nth (i + 1) rows []) j)).
Proof. exact interp_nearest. Qed.

(* descending grid = interpolation on the reversed grid with the data reversed (every target,
   every NaN pattern) *)
Theorem interp_descending : forall xp rows x np, sdesc xp -> (2 <= length xp)%nat ->
  length rows = length xp ->
  interp_axis1 xp rows x None false np = interp_axis1 (rev xp) (rev rows) x None false np.
Proof. exact interp_descending. Qed.

(* ... and in nearest mode as well, except at exact mid points (np.rint sends the tie to the first
   node in storage order, so the two sides legitimately differ there) *)
Theorem interp_descending_nearest : forall xp rows x np, sdesc xp -> (2 <= length xp)%nat ->
  length rows = length xp ->
  (forall i, (i + 1 < length xp)%nat -> x <> (rnth xp i + rnth xp (i + 1)) / 2) ->
  interp_axis1 xp rows x None true np = interp_axis1 (rev xp) (rev rows) x None true np.
Proof. exact interp_descending_nearest. Qed.

(* variables that do not carry the coordinate pass through unchanged; the others are
   interpolated target by target *)
Theorem passthrough : forall xp v xs period nearest np, v_has_coord v = false ->
  interp_variable xp v xs period nearest np = v_rows v.
Proof. exact passthrough. Qed.

Theorem interp_variable_pointwise : forall xp v xs period nearest np k, v_has_coord v = true ->
  (k < length xs)%nat ->
  nth k (interp_variable xp v xs period nearest np) []
  = interp_axis1 xp (v_rows v) (nth k xs 0) period nearest np.
Proof. exact interp_variable_coord. Qed.

(* every value the corner engine returns is a convex combination of the corner values that take
   part (any number of axes, any NaN pattern) *)
Theorem interp_corners_bounded : forall cs np j lo hi v,
  (forall c, In c cs -> cmask c = true -> lo <= oget (cvals c) j <= hi) ->
  (j < np)%nat -> nth j (interp_corners cs np) None = Some v -> lo <= v <= hi.
Proof. exact interp_corners_bounded. Qed.

(* N axes: the 2^N corner weights are non negative and sum to one (induction over the axes) *)
Theorem corner_weights_sum_one : forall axes idx, Forall unit_weights axes ->
  sumw (nd_corners axes idx (Some 1)) = 1 /\
  length (nd_corners axes idx (Some 1)) = (2 ^ length axes)%nat /\
  (forall c, In c (nd_corners axes idx (Some 1)) -> exists v, snd c = Some v /\ 0 <= v).
Proof.
  intros axes idx H. split; [exact (nd_corners_sum axes idx 1 H)|].
  split; [exact (nd_corners_length axes idx (Some 1))|].
  intros c Hc. exact (nd_corners_weights axes idx 1 c H ltac:(lra) Hc).
Qed.

(* a target inside an ascending grid contributes unit weights (1-t, t), 0 <= t <= 1 *)
Theorem axis_weights_unit : forall g x i, asc g -> (i + 1 < length g)%nat ->
  rnth g i <= x < rnth g (i + 1) ->
  unit_weights (enclosing g x None,
                (w_lo (frac_n g x (enclosing g x None) None false),
                 w_hi (frac_n g x (enclosing g x None) None false))).
Proof. exact axis_entry_unit. Qed.

(* N-d interpolation of finite data with unit weights: a value between the extreme corner values *)
Theorem interp_nd_convex : forall axes (get : list nat -> option R) lo hi,
  Forall unit_weights axes ->
  (forall idx, exists v, get idx = Some v /\ lo <= v <= hi) ->
  exists v, nth 0 (interp_corners (map (fun iw => mkc (snd iw) [get (fst iw)])
                                       (nd_corners axes [] (Some 1))) 1) None = Some v
            /\ lo <= v <= hi.
Proof. exact interp_nd_convex. Qed.

(* two axes written out: bilinear *)
Theorem interp_nd_bilinear : forall g0 g1 data x y i k f00 f01 f10 f11,
  asc g0 -> asc g1 -> (i + 1 < length g0)%nat -> (k + 1 < length g1)%nat ->
  rnth g0 i <= x < rnth g0 (i + 1) -> rnth g1 k <= y < rnth g1 (k + 1) ->
  nd_get [length g0; length g1] data [i; k] = Some f00 ->
  nd_get [length g0; length g1] data [i; (k + 1)%nat] = Some f01 ->
  nd_get [length g0; length g1] data [(i + 1)%nat; k] = Some f10 ->
  nd_get [length g0; length g1] data [(i + 1)%nat; (k + 1)%nat] = Some f11 ->
  let s := tfrac g0 x i in
  let t := tfrac g1 y k in
  interp_nd [g0; g1] [None; None] data [x; y] false
  = Some ((1 - s) * (1 - t) * f00 + (1 - s) * t * f01 + s * (1 - t) * f10 + s * t * f11).
Proof. exact interp_nd_bilinear. Qed.

(* interpolate_dataset_grid on a variable with dims (x, y): the two axis steps compose to the
   bilinear value when all targets lie inside and the data are finite ... *)
Theorem grid_composition_bilinear : forall xp yp m xs ys a b i k,
  asc xp -> asc yp -> (i + 1 < length xp)%nat -> (k + 1 < length yp)%nat ->
  (a < length xs)%nat -> (b < length ys)%nat ->
  rnth xp i <= nth a xs 0 < rnth xp (i + 1) -> rnth yp k <= nth b ys 0 < rnth yp (k + 1) ->
  (forall a', (a' < length xs)%nat ->
     exists i', (i' + 1 < length xp)%nat /\ rnth xp i' <= nth a' xs 0 < rnth xp (i' + 1)) ->
  (forall i', (i' < length xp)%nat -> all_some (nth i' m []) = true) ->
  let s := tfrac xp (nth a xs 0) i in
  let t := tfrac yp (nth b ys 0) k in
  let f i' k' := oget (nth i' m []) k' in
  nth a (nth b (interp_grid2 xp yp m xs ys false) []) None
  = Some ((1 - t) * ((1 - s) * f i k + s * f (i + 1)%nat k)
          + t * ((1 - s) * f i (k + 1)%nat + s * f (i + 1)%nat (k + 1)%nat)).
Proof. exact interp_grid2_bilinear. Qed.

(* ... but, as the code stands, ONE target of the first coordinate outside its grid makes every
   output missing (the second step's NaN mask looks across all targets of the first step).
   Stated so that the behaviour is on record; the harness replays it on the implementation. *)
Theorem grid_outside_target_poisons : forall xp yp m xs ys nearest a0 a b,
  asc xp -> (1 <= length xp)%nat -> (1 <= length yp)%nat ->
  (a0 < length xs)%nat -> (nth a0 xs 0 < hd0 xp \/ last0 xp < nth a0 xs 0) ->
  (a < length xs)%nat -> (b < length ys)%nat ->
  nth a (nth b (interp_grid2 xp yp m xs ys nearest) []) None = None.
Proof. exact interp_grid2_outside_poisons. Qed.

(* 1D spectra: energy is interpolated linearly, moments are ENERGY-WEIGHTED; zero energy -> fill value *)
Theorem spectrum_interp_energy_weighted : forall xp erows arows x i np j ext,
  asc xp -> (i + 1 < length xp)%nat -> rnth xp i <= x < rnth xp (i + 1) ->
  length erows = length xp -> length arows = length xp ->
  all_some (nth i erows []) = true -> all_some (nth (i + 1) erows []) = true ->
  all_some (nth i arows []) = true -> all_some (nth (i + 1) arows []) = true ->
  length (nth i erows []) = np -> length (nth (i + 1) erows []) = np ->
  length (nth i arows []) = np -> length (nth (i + 1) arows []) = np -> (j < np)%nat ->
  let t := (x - rnth xp i) / (rnth xp (i + 1) - rnth xp i) in
  let e0 := oget (nth i erows []) j in
  let e1 := oget (nth (i + 1) erows []) j in
  let a0 := oget (nth i arows []) j in
  let a1 := oget (nth (i + 1) arows []) j in
  let '(ei, ai) := spectrum_interp1 xp erows arows x false ext np in
  nth j ei 0 = (1 - t) * e0 + t * e1 /\
  nth j ai 0 = if Req_EM_T ((1 - t) * e0 + t * e1) 0 then ext
               else ((1 - t) * (a0 * e0) + t * (a1 * e1)) / ((1 - t) * e0 + t * e1).
Proof. exact spectrum_interp_energy_weighted. Qed.

(* targets outside the grid get the caller's extrapolation value *)
Theorem spectrum_outside_fill : forall xp erows x nearest ext np j,
  asc xp -> (1 <= length xp)%nat -> x < hd0 xp \/ last0 xp < x -> (j < np)%nat ->
  nth j (energy_interp1 xp erows x None nearest ext np) 0 = ext.
Proof. exact energy_interp_outside_fill. Qed.

(* ---- non-vacuity: concrete instances meet the premises ---- *)
Example grid3_sasc : sasc [0; 1; 3].
Proof.
  intros i j [Hij Hj]. cbn [length] in Hj.
  destruct i as [|[|[|i]]]; destruct j as [|[|[|j]]]; cbn; try lra; exfalso; Lia.lia.
Qed.

Example grid3_desc : sdesc [3; 1; 0].
Proof.
  intros i j [Hij Hj]. cbn [length] in Hj.
  destruct i as [|[|[|i]]]; destruct j as [|[|[|j]]]; cbn; try lra; exfalso; Lia.lia.
Qed.

(* half way between nodes 1 and 3 with data 10, 20, 40: 30; with the last node missing and
   t = 1/2 the valid weight does not exceed one half: missing *)
Example between_example :
  nth 0 (interp_axis1 [0; 1; 3] [[Some 10]; [Some 20]; [Some 40]] 2 None false 1) None = Some 30.
Proof.
  assert (H1 : (1 + 1 < length [0; 1; 3])%nat) by (cbn; Lia.lia).
  assert (H2 : rnth [0; 1; 3] 1 <= 2 < rnth [0; 1; 3] (1 + 1)) by (cbn; lra).
  destruct (interp_between [0; 1; 3] [[Some 10]; [Some 20]; [Some 40]] 2 1 1 0
              (sasc_asc _ grid3_sasc) H1 H2 eq_refl eq_refl Nat.lt_0_1) as [_ [E _]].
  rewrite E. cbn. f_equal. field.
Qed.

Example nan_example :
  nth 0 (interp_axis1 [0; 1; 3] [[Some 10]; [Some 20]; [None]] 2 None false 1) None = None.
Proof.
  assert (H1 : (1 + 1 < length [0; 1; 3])%nat) by (cbn; Lia.lia).
  assert (H2 : rnth [0; 1; 3] 1 < 2 < rnth [0; 1; 3] (1 + 1)) by (cbn; lra).
  destruct (interp_nan_rule [0; 1; 3] [[Some 10]; [Some 20]; [None]] 2 1 1 0
              (sasc_asc _ grid3_sasc) H1 H2 Nat.lt_0_1) as [_ [E _]].
  rewrite (E eq_refl eq_refl). cbn.
  destruct (Rgt_dec (1 - (2 - 1) / (3 - 1)) (1 / 2)) as [H|H]; [exfalso|reflexivity].
  assert ((2 - 1) / (3 - 1) = 1 / 2) by field. lra.
Qed.

Example unit_weights_example : Forall unit_weights [((0, 1)%nat, (Some (1 - 1 / 4), Some (1 / 4)))].
Proof. constructor; [|constructor]. exists (1 / 4). split; [lra|reflexivity]. Qed.
