(* C08  Source terms: sign, support, scaling; bulk rates integrate the spectral rates.
   Only statements; every proof is [exact lemma].
   Model: OSU.Model.SourceTerms (ST4 wind input, ST4 / ST6 / Romero whitecapping, bulk, imbalance).
   A spectrum at one point is a field (rows = frequencies); fnth E i j is bin (i, j) (0 outside the
   grid); g is the spectral grid the jitted code receives (radian frequency gw, radian direction
   gth, frequency step gdf, direction step gdth). *)
From Coq Require Import Reals List Arith Lra Lia.
From OSU.Lib Require Import SrcAuxDefs.
From OSU.Model Require Import SourceTerms.
From OSU.Proofs Require Import SourceTerms.
Import ListNotations.
Open Scope R_scope.

(* ---------------- wind input (ST4): sign, support, scaling ---------------- *)

(* >= 0 in every bin, for every non-negative spectrum, every wind, depth and roughness length *)
Theorem st4_input_nonneg : forall p wnd depth z0 g E,
  (0 < gp_betamax p /\ 0 < gp_kappa p /\ 0 < gp_rho_a p /\ 0 < gp_rho_w p) ->
  (forall i, 0 <= gw g i) -> (forall i j, 0 <= fnth E i j) ->
  forall i j, 0 <= fnth (st4_input p wnd depth z0 g E) i j.
Proof. exact st4_input_nonneg. Qed.

(* zero in bins without energy *)
Theorem st4_input_zero_if_E_zero : forall p wnd depth z0 g E i j,
  fnth E i j = 0 -> fnth (st4_input p wnd depth z0 g E) i j = 0.
Proof. exact st4_input_zero_if_E_zero. Qed.

(* zero in directions with no downwind component: cos(theta_j - theta_wind) <= 0 *)
Theorem st4_input_zero_upwind : forall p wnd depth z0 g E i j,
  (j < ndir g)%nat -> cos (gth g j - wdir wnd * PI / 180) <= 0 ->
  fnth (st4_input p wnd depth z0 g E) i j = 0.
Proof. exact st4_input_zero_upwind. Qed.

(* at fixed roughness length the input is linear in (hence proportional to) the variance density *)
Theorem st4_input_linear_in_E : forall p wnd depth z0 g a b E F i j,
  fnth (st4_input p wnd depth z0 g (lin_field (nfreq g) (ndir g) a b E F)) i j
  = a * fnth (st4_input p wnd depth z0 g E) i j + b * fnth (st4_input p wnd depth z0 g F) i j.
Proof. exact st4_input_linear_in_E. Qed.

(* ---------------- whitecapping: sign, support, empty spectrum ---------------- *)

(* ST4 (saturation + cumulative), wavenumber and group velocity from the code's Newton iteration *)
Theorem st4_diss_nonpos : forall q depth g E,
  ((forall i, 0 <= gw g i) /\ (forall i, 0 <= gdf g i) /\ (forall j, 0 <= gdth g j)) ->
  (forall i, (i < nfreq g)%nat ->
             0 < rnth (map (group_velocity depth) (wavenumbers GRAV depth (g_w g))) i) ->
  (forall i j, 0 <= fnth E i j) ->
  forall i j, fnth (st4_dissipation q depth g E) i j <= 0.
Proof. exact st4_diss_nonpos. Qed.

(* the same with wavenumber / group velocity lists given (any positive group velocities) *)
Theorem st4_diss_k_nonpos : forall q g ks cgs E,
  ((forall i, 0 <= gw g i) /\ (forall i, 0 <= gdf g i) /\ (forall j, 0 <= gdth g j)) ->
  (forall i, (i < nfreq g)%nat -> 0 < rnth cgs i) ->
  (forall i j, 0 <= fnth E i j) ->
  forall i j, fnth (st4_dissipation_k q g ks cgs E) i j <= 0.
Proof. exact st4_diss_k_nonpos. Qed.

Theorem st4_diss_zero_if_E_zero : forall q depth g E i j,
  fnth E i j = 0 -> fnth (st4_dissipation q depth g E) i j = 0.
Proof. exact st4_diss_zero_if_E_zero. Qed.

Theorem st4_diss_zero_spectrum : forall q depth g E,
  (forall i j, fnth E i j = 0) ->
  (forall i j, fnth (st4_dissipation q depth g E) i j = 0) /\ bulk g (st4_dissipation q depth g E) = 0.
Proof. exact st4_diss_zero_spectrum. Qed.

(* ST6 (inherent + cumulative) *)
Theorem st6_diss_nonpos : forall q depth g E,
  0 <= s6_a1 q -> 0 <= s6_a2 q -> (forall i, 0 <= gw g i) -> (forall i j, 0 <= fnth E i j) ->
  forall i j, fnth (st6_dissipation q depth g E) i j <= 0.
Proof. exact st6_diss_nonpos. Qed.

Theorem st6_diss_zero_if_E_zero : forall q depth g E i j,
  fnth E i j = 0 -> fnth (st6_dissipation q depth g E) i j = 0.
Proof. exact st6_diss_zero_if_E_zero. Qed.

Theorem st6_diss_zero_spectrum : forall q depth g E,
  (forall i j, fnth E i j = 0) ->
  (forall i j, fnth (st6_dissipation q depth g E) i j = 0) /\ bulk g (st6_dissipation q depth g E) = 0.
Proof. exact st6_diss_zero_spectrum. Qed.

(* Romero: non-positive for positive wavenumbers and group velocities (the code itself requires a
   strictly positive spectrum, it divides by the directional saturation) *)
Theorem romero_nonpos : forall q depth g E,
  0 <= ro_const q -> 0 <= ro_prob q -> ro_g q <> 0 -> (forall i, 0 <= gw g i) ->
  (forall i, (i < nfreq g)%nat -> 0 < rnth (wavenumbers GRAV depth (g_w g)) i) ->
  (forall i, (i < nfreq g)%nat ->
             0 < rnth (map (group_velocity depth) (wavenumbers GRAV depth (g_w g))) i) ->
  forall i j, fnth (romero_dissipation q depth g E) i j <= 0.
Proof. exact romero_nonpos. Qed.

(* ---------------- bulk rates are the frequency-direction integral ---------------- *)

Theorem bulk_is_integral : forall g S,
  bulk g S = rsum (fun i => rsum (fun j => fnth S i j * gdf g i * gdth g j) (ndir g)) (nfreq g).
Proof. exact bulk_is_integral. Qed.

(* both bulk paths of the code: _bulk_wind_generation and _bulk_dissipation, point k of a batch *)
Theorem bulk_generation_is_integral : forall p g b k d,
  (k < length b)%nat ->
  nth k (gen_bulk_batch p g b) d
  = let S := nth k (gen_rate_batch p g b) [] in
    rsum (fun i => rsum (fun j => fnth S i j * gdf g i * gdth g j) (ndir g)) (nfreq g).
Proof. exact bulk_generation_is_integral. Qed.

Theorem bulk_dissipation_is_integral : forall D g b k d,
  (k < length b)%nat ->
  nth k (diss_bulk_batch D g b) d
  = let S := nth k (diss_rate_batch D g b) [] in
    rsum (fun i => rsum (fun j => fnth S i j * gdf g i * gdth g j) (ndir g)) (nfreq g).
Proof. exact bulk_dissipation_is_integral. Qed.

(* ---------------- imbalance ---------------- *)

Theorem imbalance_def : forall g gen dis dedt i j, (i < nfreq g)%nat -> (j < ndir g)%nat ->
  fnth (imbalance g gen dis dedt) i j = fnth gen i j + fnth dis i j - fnth dedt i j.
Proof. exact imbalance_def. Qed.

Theorem bulk_imbalance_def : forall a b c, bulk_imbalance a b c = a + b - c.
Proof. exact bulk_imbalance_def. Qed.

(* ---------------- each point of a batch gets the result it would get alone ---------------- *)

Theorem gen_rate_batch_independent : forall p g b k x,
  nth_error b k = Some x ->
  nth_error (gen_rate_batch p g b) k = Some (st4_input p (pt_wind x) (pt_depth x) (pt_z0 x) g (pt_E x)).
Proof. exact gen_rate_batch_independent. Qed.

Theorem gen_bulk_batch_independent : forall p g b k x,
  nth_error b k = Some x ->
  nth_error (gen_bulk_batch p g b) k
  = Some (bulk g (st4_input p (pt_wind x) (pt_depth x) (pt_z0 x) g (pt_E x))).
Proof. exact gen_bulk_batch_independent. Qed.

Theorem diss_rate_batch_independent : forall D g b k x,
  nth_error b k = Some x ->
  nth_error (diss_rate_batch D g b) k = Some (D (pt_depth x) g (pt_E x)).
Proof. exact diss_rate_batch_independent. Qed.

Theorem diss_bulk_batch_independent : forall D g b k x,
  nth_error b k = Some x ->
  nth_error (diss_bulk_batch D g b) k = Some (bulk g (D (pt_depth x) g (pt_E x))).
Proof. exact diss_bulk_batch_independent. Qed.

(* ---------------- the premises are satisfiable ---------------- *)

(* deep water: the Newton iteration of the code returns k = w^2/g after its first step, so every
   wavenumber and group velocity is positive as soon as the frequencies are *)
Theorem wavenumbers_deep : forall grav ws, 0 < grav -> Forall (fun w => 0 < w) ws ->
  wavenumbers grav None ws = map (fun w => w ^ 2 / grav) ws.
Proof. exact wavenumbers_deep. Qed.

Theorem deep_water_premises : forall g, (forall i, (i < nfreq g)%nat -> 0 < gw g i) ->
  (forall i, (i < nfreq g)%nat -> 0 < rnth (wavenumbers GRAV None (g_w g)) i) /\
  (forall i, (i < nfreq g)%nat ->
             0 < rnth (map (group_velocity None) (wavenumbers GRAV None (g_w g))) i).
Proof. exact deep_water_premises. Qed.

Example default_parameters_ok :
  let p := mkgp (981/100) None (1/100) (1225/1000) 1024 (4/10) (6/1000) (152/100) 10 (148/10000000) 0 in
  0 < gp_betamax p /\ 0 < gp_kappa p /\ 0 < gp_rho_a p /\ 0 < gp_rho_w p.
Proof. cbn. repeat split; lra. Qed.

Example grid_premises_ok :
  let g := mkgrid [1; 2] [0; PI] [1/10; 1/10] [180; 180] in
  ((forall i, 0 <= gw g i) /\ (forall i, 0 <= gdf g i) /\ (forall j, 0 <= gdth g j)) /\
  (forall i, (i < nfreq g)%nat -> 0 < gw g i).
Proof.
  cbn. unfold gw, gdf, gdth, rnth. cbn.
  repeat split; intros i; try (destruct i as [|[|[|i]]]; cbn; lra).
  intros H. destruct i as [|[|i]]; cbn; try lra. exfalso. inversion H. inversion H1. inversion H3.
Qed.
