From Coq Require Import Reals List Arith.
From OSU.Lib Require Import SrcAuxDefs.
From OSU.Model Require Import SourceTerms Stress.
From OSU.Proofs Require Import SourceTerms Stress.
Open Scope R_scope.
Theorem tail_mag_def : forall t, fst (tail_stress_mag_dir t) = sqrt (snd t ^ 2 + fst t ^ 2).
Proof. exact tail_mag_def. Qed.
