(* C09  Source terms, roughness and stress under joint rotation of spectrum and wind by whole bins,
   and under mirroring.  Only statements; every proof is [exact lemma].
   Models: OSU.Model.SourceTerms, OSU.Model.Stress.

   Vocabulary (definitions in Proofs/Stress.v, Lib/SrcAuxRot.v, Lib/SrcAuxDefs.v):
     uniform_dirs g th0 ds   theta_j = th0 + j * 2 pi / N (radians) and every direction bin is ds degrees wide
     well_shaped g E         E has nfreq g rows of ndir g entries
     rot_field k E           E'[i][j] = E[i][(j - k) mod N]      (spectrum turned by k bins)
     rot_wind w k N          wind direction + k * 360 / N degrees
     mir_field E, mir_wind w E'[i][j] = E[i][(N - j) mod N], wind direction negated
     ridx N j k = (j + N - k) mod N,  midx N j = (N - j) mod N
     shifted nf N k S' S     S'[i][j] = S[i][ridx N j k] for i < nf, j < N;   mirrored likewise with midx
     rotate2 a (e, n)        (cos a * e - sin a * n, sin a * e + cos a * n)
     rot_angle k N           k * 2 pi / N
     flip2 (e, n)            (e, - n)  *)
From Coq Require Import Reals List Arith Lra.
From OSU.Lib Require Import SrcAuxDefs SrcAuxRot.
From OSU.Model Require Import SourceTerms Stress.
From OSU.Proofs Require Import SourceTerms Stress.
Import ListNotations.
Open Scope R_scope.

(* ---------------- spectral wind input: shifts by k bins / is mirrored ---------------- *)
Theorem st4_input_rot : forall p w depth z0 g E th0 ds k,
  uniform_dirs g th0 ds -> (k < ndir g)%nat -> well_shaped g E ->
  forall i j, (i < nfreq g)%nat -> (j < ndir g)%nat ->
  fnth (st4_input p (rot_wind w k (ndir g)) depth z0 g (rot_field k E)) i j
  = fnth (st4_input p w depth z0 g E) i (ridx (ndir g) j k).
Proof. exact st4_input_rot. Qed.

Theorem st4_input_mirror : forall p w depth z0 g E ds,
  uniform_dirs g 0 ds -> well_shaped g E ->
  forall i j, (i < nfreq g)%nat -> (j < ndir g)%nat ->
  fnth (st4_input p (mir_wind w) depth z0 g (mir_field E)) i j
  = fnth (st4_input p w depth z0 g E) i (midx (ndir g) j).
Proof. exact st4_input_mirror. Qed.

(* ---------------- bulk rates: invariant for any field that shifts / mirrors ---------------- *)
Theorem bulk_rot_invariant : forall g th0 ds k S' S,
  uniform_dirs g th0 ds -> (k < ndir g)%nat ->
  (forall i j, (i < nfreq g)%nat -> (j < ndir g)%nat -> fnth S' i j = fnth S i (ridx (ndir g) j k)) ->
  bulk g S' = bulk g S.
Proof. exact bulk_shift_invariant. Qed.

Theorem bulk_mirror_invariant : forall g ds S' S,
  uniform_dirs g 0 ds -> (0 < ndir g)%nat ->
  (forall i j, (i < nfreq g)%nat -> (j < ndir g)%nat -> fnth S' i j = fnth S i (midx (ndir g) j)) ->
  bulk g S' = bulk g S.
Proof. exact bulk_mirror_invariant. Qed.

Theorem st4_input_bulk_rot : forall p w depth z0 g E th0 ds k,
  uniform_dirs g th0 ds -> (k < ndir g)%nat -> well_shaped g E ->
  bulk g (st4_input p (rot_wind w k (ndir g)) depth z0 g (rot_field k E))
  = bulk g (st4_input p w depth z0 g E).
Proof. exact st4_input_bulk_rot. Qed.

Theorem st4_input_bulk_mirror : forall p w depth z0 g E ds,
  uniform_dirs g 0 ds -> (0 < ndir g)%nat -> well_shaped g E ->
  bulk g (st4_input p (mir_wind w) depth z0 g (mir_field E)) = bulk g (st4_input p w depth z0 g E).
Proof. exact st4_input_bulk_mirror. Qed.

(* ---------------- stress: the vector rotates by alpha = k * 2 pi / N ---------------- *)
(* resolved part, for any input field that shifts by k bins *)
Theorem resolved_stress_rot : forall p g ks th0 ds k S' S,
  uniform_dirs g th0 ds -> (k < ndir g)%nat ->
  (forall i j, (i < nfreq g)%nat -> (j < ndir g)%nat -> fnth S' i j = fnth S i (ridx (ndir g) j k)) ->
  resolved_stress p g ks S' = rotate2 (rot_angle k (ndir g)) (resolved_stress p g ks S).
Proof. exact resolved_stress_rot. Qed.

(* WAM tail stress (directional integrals over the last frequency bin + Charnock background) *)
Theorem tail_stress_rot : forall p w z0 g x0 E th0 ds k,
  uniform_dirs g th0 ds -> (k < ndir g)%nat -> well_shaped g E ->
  tail_stress_wam p (rot_wind w k (ndir g)) z0 g x0 (rot_field k E)
  = rotate2 (rot_angle k (ndir g)) (tail_stress_wam p w z0 g x0 E).
Proof. exact tail_stress_rot. Qed.

(* total stress vector = resolved + tail + viscous *)
Theorem stress_vector_rot : forall p w depth z0 g x0 E th0 ds k,
  uniform_dirs g th0 ds -> (k < ndir g)%nat -> well_shaped g E ->
  total_stress_vec p (rot_wind w k (ndir g)) depth z0 g x0 (rot_field k E)
  = rotate2 (rot_angle k (ndir g)) (total_stress_vec p w depth z0 g x0 E).
Proof. exact total_stress_vec_rot. Qed.

(* magnitude invariant, direction + k*360/N modulo 360 (vector form), direction stays in [0,360) *)
Theorem stress_magnitude_direction_rot : forall p w depth z0 g x0 E th0 ds k,
  uniform_dirs g th0 ds -> (k < ndir g)%nat -> well_shaped g E ->
  friction_velocity p w z0 <> 0 ->
  let v := total_stress_vec p w depth z0 g x0 E in
  (fst v <> 0 \/ snd v <> 0) ->
  exists d d',
    total_stress_point p w depth z0 g x0 E = (sqrt (snd v ^ 2 + fst v ^ 2), Some d) /\
    total_stress_point p (rot_wind w k (ndir g)) depth z0 g x0 (rot_field k E)
      = (sqrt (snd v ^ 2 + fst v ^ 2), Some d') /\
    0 <= d' < 360 /\
    cos (d' * PI / 180) = cos ((d + INR k * (360 / INR (ndir g))) * PI / 180) /\
    sin (d' * PI / 180) = sin ((d + INR k * (360 / INR (ndir g))) * PI / 180).
Proof. exact total_stress_point_rot. Qed.

(* the direction (degrees, mod 360) of any non-zero vector rotated by a *)
Theorem direction_of_rotated_vector : forall a v, (fst v <> 0 \/ snd v <> 0) ->
  let d := dir_deg (snd v) (fst v) in
  let d' := dir_deg (snd (rotate2 a v)) (fst (rotate2 a v)) in
  cos (d' * PI / 180) = cos (d * PI / 180 + a) /\ sin (d' * PI / 180) = sin (d * PI / 180 + a).
Proof. exact dir_deg_rotate. Qed.

(* ---------------- roughness: the implicit equation is the same function ---------------- *)
Theorem stress_iteration_function_rot : forall p w depth g x0of E th0 ds k l,
  uniform_dirs g th0 ds -> (k < ndir g)%nat -> well_shaped g E ->
  stress_iteration_function p (rot_wind w k (ndir g)) depth g x0of (rot_field k E) l
  = stress_iteration_function p w depth g x0of E l.
Proof. exact stress_iteration_function_rot. Qed.

(* hence any solver that depends on its function argument only through its values returns the same
   roughness length for the rotated problem *)
Theorem solver_ext : forall (solver : (R -> R) -> R) p w depth g x0of E th0 ds k,
  uniform_dirs g th0 ds -> (k < ndir g)%nat -> well_shaped g E ->
  (forall f f', (forall l, f l = f' l) -> solver f = solver f') ->
  solver (stress_iteration_function p (rot_wind w k (ndir g)) depth g x0of (rot_field k E))
  = solver (stress_iteration_function p w depth g x0of E).
Proof. exact solver_ext. Qed.

(* ---------------- mirror image of the stress: east kept, north negated ---------------- *)
Theorem resolved_stress_mirror : forall p g ks ds S' S,
  uniform_dirs g 0 ds -> (0 < ndir g)%nat ->
  (forall i j, (i < nfreq g)%nat -> (j < ndir g)%nat -> fnth S' i j = fnth S i (midx (ndir g) j)) ->
  resolved_stress p g ks S' = flip2 (resolved_stress p g ks S).
Proof. exact resolved_stress_mirror. Qed.

Theorem tail_stress_mirror : forall p w z0 g x0 E ds,
  uniform_dirs g 0 ds -> (0 < ndir g)%nat -> well_shaped g E ->
  tail_stress_wam p (mir_wind w) z0 g x0 (mir_field E) = flip2 (tail_stress_wam p w z0 g x0 E).
Proof. exact tail_stress_mirror. Qed.

Theorem stress_vector_mirror : forall p w depth z0 g x0 E ds,
  uniform_dirs g 0 ds -> (0 < ndir g)%nat -> well_shaped g E ->
  total_stress_vec p (mir_wind w) depth z0 g x0 (mir_field E)
  = flip2 (total_stress_vec p w depth z0 g x0 E).
Proof. exact total_stress_vec_mirror. Qed.

(* magnitude invariant, direction negated modulo 360 (vector form) *)
Theorem stress_magnitude_direction_mirror : forall p w depth z0 g x0 E ds,
  uniform_dirs g 0 ds -> (0 < ndir g)%nat -> well_shaped g E ->
  friction_velocity p w z0 <> 0 ->
  let v := total_stress_vec p w depth z0 g x0 E in
  (fst v <> 0 \/ snd v <> 0) ->
  exists d d',
    total_stress_point p w depth z0 g x0 E = (sqrt (snd v ^ 2 + fst v ^ 2), Some d) /\
    total_stress_point p (mir_wind w) depth z0 g x0 (mir_field E) = (sqrt (snd v ^ 2 + fst v ^ 2), Some d') /\
    0 <= d' < 360 /\
    cos (d' * PI / 180) = cos (- d * PI / 180) /\ sin (d' * PI / 180) = sin (- d * PI / 180).
Proof. exact total_stress_point_mirror. Qed.

(* ---------------- whitecapping fields shift by k bins / are mirrored ---------------- *)
Theorem st6_diss_rot : forall q depth g E th0 ds k,
  uniform_dirs g th0 ds -> (k < ndir g)%nat -> well_shaped g E ->
  forall i j, (i < nfreq g)%nat -> (j < ndir g)%nat ->
  fnth (st6_dissipation q depth g (rot_field k E)) i j
  = fnth (st6_dissipation q depth g E) i (ridx (ndir g) j k).
Proof. exact st6_diss_rot. Qed.

Theorem st6_diss_mirror : forall q depth g E ds,
  uniform_dirs g 0 ds -> (0 < ndir g)%nat -> well_shaped g E ->
  forall i j, (i < nfreq g)%nat -> (j < ndir g)%nat ->
  fnth (st6_dissipation q depth g (mir_field E)) i j
  = fnth (st6_dissipation q depth g E) i (midx (ndir g) j).
Proof. exact st6_diss_mirror. Qed.

(* ST4: band-integrated saturation over +-width with the wrapped mutual angle, its row maximum,
   the cumulative term with the wave-speed vector differences *)
Theorem st4_diss_rot : forall q depth g E th0 ds k,
  uniform_dirs g th0 ds -> (k < ndir g)%nat -> well_shaped g E ->
  forall i j, (i < nfreq g)%nat -> (j < ndir g)%nat ->
  fnth (st4_dissipation q depth g (rot_field k E)) i j
  = fnth (st4_dissipation q depth g E) i (ridx (ndir g) j k).
Proof. exact st4_diss_rot. Qed.

Theorem st4_diss_mirror : forall q depth g E ds,
  uniform_dirs g 0 ds -> (0 < ndir g)%nat -> well_shaped g E ->
  forall i j, (i < nfreq g)%nat -> (j < ndir g)%nat ->
  fnth (st4_dissipation q depth g (mir_field E)) i j
  = fnth (st4_dissipation q depth g E) i (midx (ndir g) j).
Proof. exact st4_diss_mirror. Qed.

Theorem st4_diss_bulk_rot : forall q depth g E th0 ds k,
  uniform_dirs g th0 ds -> (k < ndir g)%nat -> well_shaped g E ->
  bulk g (st4_dissipation q depth g (rot_field k E)) = bulk g (st4_dissipation q depth g E).
Proof. exact st4_diss_bulk_rot. Qed.

Theorem st6_diss_bulk_rot : forall q depth g E th0 ds k,
  uniform_dirs g th0 ds -> (k < ndir g)%nat -> well_shaped g E ->
  bulk g (st6_dissipation q depth g (rot_field k E)) = bulk g (st6_dissipation q depth g E).
Proof. exact st6_diss_bulk_rot. Qed.

(* ---------------- dissipation-weighted wave direction ---------------- *)
(* for every dissipation field that shifts with the spectrum (ST4 and ST6 do, above) *)
Theorem diss_direction_rot : forall depth g th0 ds k D' D,
  uniform_dirs g th0 ds -> (k < ndir g)%nat ->
  (forall i j, (i < nfreq g)%nat -> (j < ndir g)%nat -> fnth D' i j = fnth D i (ridx (ndir g) j k)) ->
  let v := diss_k_vector g (wavenumbers GRAV depth (g_w g)) D in
  (fst v <> 0 \/ snd v <> 0) ->
  cos (diss_direction depth g D' * PI / 180)
    = cos ((diss_direction depth g D + INR k * (360 / INR (ndir g))) * PI / 180) /\
  sin (diss_direction depth g D' * PI / 180)
    = sin ((diss_direction depth g D + INR k * (360 / INR (ndir g))) * PI / 180).
Proof. exact diss_direction_rot. Qed.

Theorem diss_direction_mirror : forall depth g ds D' D,
  uniform_dirs g 0 ds -> (0 < ndir g)%nat ->
  (forall i j, (i < nfreq g)%nat -> (j < ndir g)%nat -> fnth D' i j = fnth D i (midx (ndir g) j)) ->
  let v := diss_k_vector g (wavenumbers GRAV depth (g_w g)) D in
  (fst v <> 0 \/ snd v <> 0) ->
  cos (diss_direction depth g D' * PI / 180) = cos (- diss_direction depth g D * PI / 180) /\
  sin (diss_direction depth g D' * PI / 180) = sin (- diss_direction depth g D * PI / 180).
Proof. exact diss_direction_mirror. Qed.

(* ---------------- the same conclusions as equalities modulo 360 ---------------- *)
(* a direction in [0,360) with the cosine and sine of x degrees IS x modulo 360 (Python's %) *)
Theorem direction_is_mod360 : forall d' x, 0 <= d' < 360 ->
  cos (d' * PI / 180) = cos (x * PI / 180) -> sin (d' * PI / 180) = sin (x * PI / 180) ->
  d' = pymod x 360.
Proof. exact dir_is_pymod. Qed.

Theorem stress_direction_rot_mod360 : forall p w depth z0 g x0 E th0 ds k,
  uniform_dirs g th0 ds -> (k < ndir g)%nat -> well_shaped g E ->
  friction_velocity p w z0 <> 0 ->
  let v := total_stress_vec p w depth z0 g x0 E in
  (fst v <> 0 \/ snd v <> 0) ->
  exists m d d',
    total_stress_point p w depth z0 g x0 E = (m, Some d) /\
    total_stress_point p (rot_wind w k (ndir g)) depth z0 g x0 (rot_field k E) = (m, Some d') /\
    d' = pymod (d + INR k * (360 / INR (ndir g))) 360.
Proof. exact total_stress_direction_rot_mod360. Qed.

Theorem stress_direction_mirror_mod360 : forall p w depth z0 g x0 E ds,
  uniform_dirs g 0 ds -> (0 < ndir g)%nat -> well_shaped g E ->
  friction_velocity p w z0 <> 0 ->
  let v := total_stress_vec p w depth z0 g x0 E in
  (fst v <> 0 \/ snd v <> 0) ->
  exists m d d',
    total_stress_point p w depth z0 g x0 E = (m, Some d) /\
    total_stress_point p (mir_wind w) depth z0 g x0 (mir_field E) = (m, Some d') /\
    d' = pymod (- d) 360.
Proof. exact total_stress_direction_mirror_mod360. Qed.

Theorem tail_stress_mag_dir_rot : forall p w z0 g x0 E th0 ds k,
  uniform_dirs g th0 ds -> (k < ndir g)%nat -> well_shaped g E ->
  let t := tail_stress_wam p w z0 g x0 E in
  (fst t <> 0 \/ snd t <> 0) ->
  let r := tail_stress_mag_dir t in
  let r' := tail_stress_mag_dir (tail_stress_wam p (rot_wind w k (ndir g)) z0 g x0 (rot_field k E)) in
  fst r' = fst r /\ snd r' = pymod (snd r + INR k * (360 / INR (ndir g))) 360.
Proof. exact tail_stress_mag_dir_rot. Qed.

Theorem diss_direction_rot_mod360 : forall depth g th0 ds k D' D,
  uniform_dirs g th0 ds -> (k < ndir g)%nat ->
  (forall i j, (i < nfreq g)%nat -> (j < ndir g)%nat -> fnth D' i j = fnth D i (ridx (ndir g) j k)) ->
  let v := diss_k_vector g (wavenumbers GRAV depth (g_w g)) D in
  (fst v <> 0 \/ snd v <> 0) ->
  diss_direction depth g D' = pymod (diss_direction depth g D + INR k * (360 / INR (ndir g))) 360.
Proof. exact diss_direction_rot_mod360. Qed.

Theorem diss_direction_mirror_mod360 : forall depth g ds D' D,
  uniform_dirs g 0 ds -> (0 < ndir g)%nat ->
  (forall i j, (i < nfreq g)%nat -> (j < ndir g)%nat -> fnth D' i j = fnth D i (midx (ndir g) j)) ->
  let v := diss_k_vector g (wavenumbers GRAV depth (g_w g)) D in
  (fst v <> 0 \/ snd v <> 0) ->
  diss_direction depth g D' = pymod (- diss_direction depth g D) 360.
Proof. exact diss_direction_mirror_mod360. Qed.

(* ---------------- the premises are satisfiable ---------------- *)
Example uniform_grid_example :
  let g := mkgrid [1; 2] [ang 0 2 0; ang 0 2 1] [1/10; 1/10] [180; 180] in
  uniform_dirs g 0 180 /\ well_shaped g [[1; 2]; [3; 4]] /\ (1 < ndir g)%nat.
Proof.
  cbn. split; [|split].
  - intros j Hj. unfold gth, gdth, rnth. cbn in *. destruct j as [|[|j]]; cbn; [split; reflexivity|split; reflexivity|].
    exfalso. inversion Hj. inversion H0. inversion H2.
  - split; [reflexivity|]. intros i Hi. cbn in *. destruct i as [|[|i]]; cbn; try reflexivity.
    exfalso. inversion Hi. inversion H0. inversion H2.
  - cbn. constructor.
Qed.
