(* C14  Periodic coordinates and angular data interpolate across the wrap.
   Only statements; every proof is [exact lemma].  Models: OSU.Model.Interp (periodic branches of
   enclosing_points_1d / interpolation_weights_1d) and OSU.Model.Periodic
   (_periodic_data_interpolator, interpolate_periodic); fmod / wrapped_difference / atan2 in
   OSU.Lib.InterpAuxDefs. *)
From Coq Require Import Reals ZArith List Arith Lra.
From OSU.Lib Require Import InterpAuxDefs InterpAux.
From OSU.Model Require Import Interp Periodic.
From OSU.Proofs Require Import Interp Periodic.
From OSU.Generated Require MathSrc.
From OSU.Proofs Require Import MathGen.
Import ListNotations.
Open Scope R_scope.

(* Python's float modulo: range, periodicity, uniqueness *)
Theorem fmod_range : forall x p, 0 < p -> 0 <= fmod x p < p.
Proof. exact fmod_range. Qed.

Theorem fmod_periodic : forall x p k, 0 < p -> fmod (x + IZR k * p) p = fmod x p.
Proof. exact fmod_shift. Qed.

Theorem fmod_unique : forall x p r k, 0 < p -> 0 <= r < p -> x = r + IZR k * p -> fmod x p = r.
Proof. exact fmod_unique. Qed.

(* wrapped_difference(delta, P, discont): an equivalent value in [discont - P, discont) *)
Theorem wrapped_difference_spec : forall d P disc, 0 < P ->
  disc - P <= wrapdiff d P disc < disc /\ exists k : Z, wrapdiff d P disc = d + IZR k * P.
Proof. intros d P disc HP. split; [exact (wrapdiff_range d P disc HP)|exact (wrapdiff_congr d P disc)]. Qed.

(* ---- the tie to the source: coq/Generated/MathSrc.v is regenerated from tools/math.py on every run *)
Theorem source_wrapped_difference_is_the_model : forall d P c,
  MathSrc.wrapped_difference d P c = wrapdiff d P c /\
  MathSrc.wrapped_difference_default_discont P = P / 2 /\
  MathSrc.wrapped_difference_default_period = 2 * PI.
Proof.
  intros d P c.
  exact (conj (proj2 (src_wrapped_difference d P c))
              (conj (proj1 (proj2 src_wrapped_difference_defaults) P) (proj1 src_wrapped_difference_defaults))).
Qed.

Theorem source_wrapped_difference_spec : forall d P disc, 0 < P ->
  disc - P <= MathSrc.wrapped_difference d P disc < disc /\
  exists k : Z, MathSrc.wrapped_difference d P disc = d + IZR k * P.
Proof. exact src_wrapped_difference_range. Qed.

(* targets any number of periods apart: same neighbours, same weights, same result
   (every grid, every NaN pattern, both modes, plain and angular data) *)
Theorem periodic_shift : forall xp rows x k P nearest np, 0 < P ->
  interp_axis1 xp rows (x + IZR k * P) (Some P) nearest np = interp_axis1 xp rows x (Some P) nearest np.
Proof. exact periodic_shift. Qed.

Theorem periodic_shift_angular : forall xp rows x k P nearest np Pd, 0 < P ->
  interp_axis1_pd xp rows (x + IZR k * P) (Some P) nearest np Pd
  = interp_axis1_pd xp rows x (Some P) nearest np Pd.
Proof. exact periodic_shift_pd. Qed.

(* N axes (track points): each periodic coordinate may be moved by its own number of periods *)
Theorem periodic_shift_nd : forall grids periods data ks pt nearest, Forall pos_period periods ->
  interp_nd grids periods data (shift_pt periods ks pt) nearest = interp_nd grids periods data pt nearest.
Proof. exact interp_nd_shift. Qed.

Theorem periodic_shift_nd_angular : forall grids periods data ks pt nearest Pd, Forall pos_period periods ->
  interp_nd_pd grids periods data (shift_pt periods ks pt) nearest Pd
  = interp_nd_pd grids periods data pt nearest Pd.
Proof. exact interp_nd_pd_shift. Qed.

(* every target has two cyclic neighbours i, (i+1) mod n, and a weight t in [0,1); the target
   reduced into [xp0, xp0+P) lies in the bin, also in the bin that spans the wrap *)
Theorem periodic_bracket : forall xp P x, pgrid xp P ->
  let n := length xp in
  let x2 := fmod (x - hd0 xp) P + hd0 xp in
  let ii := enclosing xp x (Some P) in
  exists t, frac xp x ii (Some P) false false = Some t /\ 0 <= t < 1 /\
    (fst ii < n)%nat /\ snd ii = ((fst ii + 1) mod n)%nat /\
    (exists m : Z, x = x2 + IZR m * P) /\
    ((fst ii + 1 < n)%nat ->
       rnth xp (fst ii) <= x2 < rnth xp (fst ii + 1) /\
       t = (x2 - rnth xp (fst ii)) / (rnth xp (fst ii + 1) - rnth xp (fst ii))) /\
    ((fst ii + 1 = n)%nat ->
       last0 xp <= x2 < hd0 xp + P /\
       t = (x2 - last0 xp) / (hd0 xp + P - last0 xp)).
Proof. exact periodic_bracket. Qed.

Theorem wrap_bin_weights : forall xp P x, pgrid xp P ->
  exists t, frac xp x (enclosing xp x (Some P)) (Some P) false false = Some t /\ 0 <= t < 1 /\
            w_lo (Some t) = Some (1 - t) /\ 0 < 1 - t <= 1.
Proof. exact wrap_bin_weights. Qed.

(* no target is out of range: finite data give a finite value between the two cyclic neighbours *)
Theorem periodic_in_range : forall xp rows P x np j, pgrid xp P -> (j < np)%nat ->
  (forall i, (i < length xp)%nat -> all_some (nth i rows []) = true) ->
  let ii := enclosing xp x (Some P) in
  let f0 := oget (nth (fst ii) rows []) j in
  let f1 := oget (nth (snd ii) rows []) j in
  exists t, 0 <= t < 1 /\
    nth j (interp_axis1 xp rows x (Some P) false np) None = Some ((1 - t) * f0 + t * f1) /\
    Rmin f0 f1 <= (1 - t) * f0 + t * f1 <= Rmax f0 f1.
Proof. exact periodic_in_range. Qed.

(* inside an N-d interpolation a periodic axis always contributes unit weights (1-t, t) ... *)
Theorem axis_weights_unit_periodic : forall g P x, pgrid g P ->
  unit_weights (enclosing g x (Some P),
                (w_lo (frac_n g x (enclosing g x (Some P)) (Some P) false),
                 w_hi (frac_n g x (enclosing g x (Some P)) (Some P) false))).
Proof. exact axis_entry_unit_periodic. Qed.

(* ... so gridded (latitude, longitude) data at a track point with ANY longitude (any number of
   periods away, also across the antimeridian) and a latitude inside its grid give, for finite data,
   a value between the smallest and the largest data value *)
Theorem track_point_lat_lon : forall glat glon P data lat lon i lo hi,
  asc glat -> (i + 1 < length glat)%nat -> rnth glat i <= lat < rnth glat (i + 1) ->
  pgrid glon P ->
  (forall idx, exists v, nd_get [length glat; length glon] data idx = Some v /\ lo <= v <= hi) ->
  exists v, interp_nd [glat; glon] [None; Some P] data [lat; lon] false = Some v /\ lo <= v <= hi.
Proof. exact track_point_lat_lon. Qed.

(* angular data: unit-vector mean of two non antipodal angles with weights (1-w, w) lies on the
   SHORTER arc (cross products have the sign of the wrapped difference, positive component along
   the bisector, non zero) *)
Theorem unit_mean_short_arc : forall P a b w, 0 < P -> 0 <= w <= 1 ->
  let d := wrapdiff (b - a) P (P / 2) in
  d <> - (P / 2) ->
  let al := a * to_rad P in
  let be := b * to_rad P in
  let re := (1 - w) * cos al + w * cos be in
  let im := (1 - w) * sin al + w * sin be in
  - (P / 2) < d < P / 2 /\
  (0 <= d -> 0 <= cos al * im - sin al * re /\ 0 <= re * sin be - im * cos be) /\
  (d <= 0 -> cos al * im - sin al * re <= 0 /\ re * sin be - im * cos be <= 0) /\
  0 < re * (cos al + cos be) + im * (sin al + sin be) /\
  0 < re * re + im * im.
Proof. exact unit_mean_short_arc. Qed.

(* ... and the returned angle represents that vector and lies in [0, P) *)
Theorem angle_represents_vector : forall P re im, 0 < P -> (re <> 0 \/ im <> 0) ->
  let th := angle_of (re, im) P in
  0 <= th < P /\
  re = sqrt (re * re + im * im) * cos (th * to_rad P) /\
  im = sqrt (re * re + im * im) * sin (th * to_rad P).
Proof. exact angle_of_spec. Qed.

(* the model's result between two present neighbours IS the angle of that weighted mean *)
Theorem angular_between : forall xp rows x i np j Pd,
  asc xp -> (i + 1 < length xp)%nat -> rnth xp i <= x < rnth xp (i + 1) ->
  all_some (nth i rows []) = true -> all_some (nth (i + 1) rows []) = true -> (j < np)%nat ->
  let t := (x - rnth xp i) / (rnth xp (i + 1) - rnth xp i) in
  let a := oget (nth i rows []) j in
  let b := oget (nth (i + 1) rows []) j in
  nth j (interp_axis1_pd xp rows x None false np Pd) None
  = Some (angle_of ((1 - t) * cos (a * to_rad Pd) + t * cos (b * to_rad Pd),
                    (1 - t) * sin (a * to_rad Pd) + t * sin (b * to_rad Pd)) Pd).
Proof. exact pd_between. Qed.

(* the same along a PERIODIC coordinate: never missing for finite data *)
Theorem angular_periodic_axis : forall xp rows P x np j Pd, pgrid xp P -> (j < np)%nat ->
  (forall i, (i < length xp)%nat -> all_some (nth i rows []) = true) ->
  let ii := enclosing xp x (Some P) in
  let a := oget (nth (fst ii) rows []) j in
  let b := oget (nth (snd ii) rows []) j in
  exists t, 0 <= t < 1 /\
    nth j (interp_axis1_pd xp rows x (Some P) false np Pd) None
    = Some (angle_of ((1 - t) * cos (a * to_rad Pd) + t * cos (b * to_rad Pd),
                      (1 - t) * sin (a * to_rad Pd) + t * sin (b * to_rad Pd)) Pd).
Proof. exact pd_periodic_axis. Qed.

(* direction variables come back in [0, 360) (any corner list: any number of axes, NaN pattern) *)
Theorem direction_range_0_360 : forall cs np P j v, 0 < P ->
  nth j (interp_corners_periodic cs np P) None = Some v -> 0 <= v < P.
Proof. exact direction_range. Qed.

(* interpolate_periodic (data frames, Track.interpolate): shortest-arc linear,
   result == f0 + t * wrap(f1 - f0) modulo P, |wrap| <= P/2, in [discont - P, discont) *)
Theorem interp_periodic_short_arc : forall xp fp x P fdisc left right i f0 f1,
  asc xp -> 0 < P -> (i + 1 < length xp)%nat -> rnth xp i <= x < rnth xp (i + 1) ->
  onth fp i = Some f0 -> onth fp (i + 1) = Some f1 ->
  let t := (x - rnth xp i) / (rnth xp (i + 1) - rnth xp i) in
  let d := wrapdiff (f1 - f0) P (P / 2) in
  let disc := match fdisc with Some c => c | None => P / 2 end in
  0 <= t < 1 /\ - (P / 2) <= d < P / 2 /\ (exists m : Z, d = f1 - f0 + IZR m * P) /\
  exists r, interp_periodic xp fp x None (Some P) fdisc left right = Some r /\
            disc - P <= r < disc /\ exists k : Z, r = f0 + t * d + IZR k * P.
Proof. exact interp_periodic_short_arc. Qed.

Theorem interp_periodic_outside : forall xp fp x fper fdisc left right,
  asc xp -> (1 <= length xp)%nat ->
  (x < hd0 xp -> interp_periodic xp fp x None fper fdisc left right = owd left fper fdisc) /\
  (last0 xp < x -> interp_periodic xp fp x None fper fdisc left right = owd right fper fdisc).
Proof. exact interp_periodic_outside. Qed.

(* ---- non-vacuity ---- *)
Example dir_grid_pgrid : pgrid [0; 90; 180; 270] 360.
Proof.
  unfold pgrid. split; [|split; [cbn; Lia.lia|split; [lra|split; [cbn; lra|split]]]].
  - intros i j [Hij Hj]. cbn [length] in Hj.
    destruct i as [|[|[|[|i]]]]; destruct j as [|[|[|[|j]]]]; cbn; try lra; exfalso; Lia.lia.
  - intros i Hi. cbn [length] in Hi. destruct i as [|[|[|i]]]; cbn; try lra; exfalso; Lia.lia.
  - cbn. lra.
Qed.

(* 350 and 10 degrees are not antipodal: wrapped difference is +20 *)
Example seam_pair_not_antipodal : wrapdiff (10 - 350) 360 (360 / 2) = 20.
Proof.
  apply (wrapdiff_unique (10 - 350) 360 (360 / 2) 20 (-1)%Z); [lra|lra|simpl IZR; lra].
Qed.
