From Coq Require Import Reals List.
From OSU.Model Require Import Interp Periodic.
