(* C15  Spectrum objects: no aliasing or mutation of operands; restructuring round-trips.
   Only statements; every proof is [exact lemma].  Model: OSU.Model.SpecHeap.
   Heap part: objects bind variables to buffers; public operations append buffers and objects, the two
   documented in-place operations (fillna, multiply(inplace=True)) rebind variables of their own object;
   results may share buffers with operands (views) -- the theorems hold for every such sharing.
   Index part: numpy C order.  All over nat / lists: no axioms. *)
From Coq Require Import Arith List Bool.
From OSU.Model Require Import SpecHeap.
From OSU.Proofs Require Import SpecHeap.
Import ListNotations.

(* every object live before a sequence of operations keeps its variables and the contents of their
   buffers, unless one of the operations is a documented in-place one applied to that very object *)
Theorem ops_preserve_operands : forall ops h t, wf h -> t < length (objs h) ->
  (forall o, In o ops -> ~ inplace_on o t) ->
  value (run ops h) t = value h t.
Proof. exact ops_preserve_operands. Qed.

(* no operation ever writes into an existing buffer (so views handed out earlier stay valid) *)
Theorem buffers_immutable : forall ops h b, wf h -> b < length (bufs h) ->
  nth b (bufs (run ops h)) (mkBuf BData 0) = nth b (bufs h) (mkBuf BData 0).
Proof. exact buffers_immutable. Qed.

(* well-formedness (every variable bound to an existing buffer) is an invariant, the heap only grows *)
Theorem run_invariant : forall ops h, wf h ->
  (exists ext, bufs (run ops h) = bufs h ++ ext) /\ wf (run ops h) /\ length (objs h) <= length (objs (run ops h)) /\
  (forall t, t < length (objs h) -> (forall o, In o ops -> ~ inplace_on o t) ->
     nth t (objs (run ops h)) [] = nth t (objs h) []).
Proof. exact run_spec. Qed.

(* deep copy: a new object, equal to the source variable by variable; every data variable lives in a
   buffer that did not exist before; only immutable dimension coordinates can be shared; nothing else
   changes *)
Theorem deepcopy_disjoint : forall h self others, wf h -> self < length (objs h) ->
  let h' := fst (step h (Pure KDeepCopy self others)) in
  let r := length (objs h) in
  snd (step h (Pure KDeepCopy self others)) = Some r /\
  value h' r = value h self /\
  Forall (fun vb => snd vb < length (bufs h) -> kind_of h (snd vb) = BIndex) (nth r (objs h') []) /\
  (forall t, t < length (objs h) -> value h' t = value h t).
Proof. exact deepcopy_disjoint. Qed.

(* the monitor's prediction: the set of objects the model reports as possibly changed by one operation
   contains at most the target of a documented in-place operation *)
Theorem changed_only_inplace : forall h o t, wf h ->
  In t (changed h (fst (step h o))) -> inplace_on o t.
Proof. exact changed_only_inplace. Qed.

Theorem returns_new_object : forall h o,
  match o with
  | Pure _ _ _ | Create _ => snd (step h o) = Some (length (objs h))
  | MulInplace t => t < length (objs h) -> snd (step h o) = Some t
  | Fillna _ | Save _ => snd (step h o) = None
  end.
Proof. exact returns_new_object. Qed.

(* ---- C-order index arithmetic, any rank ---- *)
Theorem unravel_ravel : forall sh idx, valid_index sh idx -> unravel sh (ravel sh idx) = idx.
Proof. exact unravel_ravel. Qed.

Theorem ravel_unravel : forall sh k, k < nprod sh ->
  ravel sh (unravel sh k) = k /\ valid_index sh (unravel sh k).
Proof. exact ravel_unravel. Qed.

(* flatten keeps the spectrum count and pairs every spectrum with ITS coordinates (C order) *)
Theorem flatten_count : forall A C (g : grid A C) dA dC, length (flatten g dA dC) = nprod (gshape g).
Proof. exact flatten_length. Qed.

Theorem flatten_pairs : forall A C (g : grid A C) dA dC idx d, valid_index (gshape g) idx ->
  nth (ravel (gshape g) idx) (flatten g dA dC) d = (get g idx dA, coords_at (gcoords g) idx dC).
Proof. exact flatten_pairs. Qed.

Theorem flatten_nth : forall A C (g : grid A C) dA dC k d, k < nprod (gshape g) ->
  nth k (flatten g dA dC) d = (get g (unravel (gshape g) k) dA, coords_at (gcoords g) (unravel (gshape g) k) dC).
Proof. exact flatten_nth. Qed.

(* concatenating N inputs along a new dimension and selecting the i-th element returns the i-th input *)
Theorem concat_select : forall A (xs : list (list A)) m i,
  Forall (fun x => length x = m) xs -> i < length xs ->
  getitem m i (concat_new_dim xs) = nth i xs [].
Proof. exact concat_select. Qed.

Theorem concat_length : forall A (xs : list (list A)) m,
  Forall (fun x => length x = m) xs -> length (concat_new_dim xs) = length xs * m.
Proof. exact concat_length. Qed.

(* ---- non-vacuity ---- *)
Example ex_heap :
  let h := fst (step empty_heap (Create [0; 1; 2; 3; 4; 6; 7; 8; 9; 10])) in
  wf h /\ length (objs h) = 1 /\
  trace [Pure KArith 0 [0]; Pure KView 0 []; Fillna 2; MulInplace 1; Pure KDeepCopy 0 []] h
  = [(Some 1, []); (Some 2, []); (None, [2]); (Some 1, [1]); (Some 3, [])].
Proof. split; [|split]; [repeat constructor | reflexivity | vm_compute; reflexivity]. Qed.

Example ex_index : valid_index [2; 3; 4] [1; 2; 3] /\ ravel [2; 3; 4] [1; 2; 3] = 23
  /\ unravel [2; 3; 4] 23 = [1; 2; 3] /\ nprod [2; 3; 4] = 24.
Proof. repeat split; try (vm_compute; reflexivity). repeat constructor. Qed.
