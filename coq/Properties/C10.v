(* C10  Roughness lengths satisfy their defining implicit equations.
   Only statements; every proof is [exact lemma].  Model: OSU.Model.Roughness.
   NOT proved (validated by execution on the implementation, harness/props/C10.py): convergence
   of the Charnock iteration within its 100 iterations for U in [0.1, 80]; the residual of the
   implicit equation at the returned value (convergence is declared on step size); the 1e-4
   stress-balance residual of the Janssen roughness (the stress function is not modelled). *)
From Coq Require Import Reals List Bool.
From OSU.Model Require Import Roughness.
From OSU.Proofs Require Import Roughness.
From OSU.Generated Require RoughnessSrc.
From OSU.Proofs Require Import RoughnessGen.
Import ListNotations.
Open Scope R_scope.

(* ---- definitional laws ---- *)
Theorem charnock_def : forall P us, 0 < us ->
  charnock P us = c_alpha P * (us * us) / c_g P + c_visc P * c_nu P / us.
Proof. exact charnock_def. Qed.

Theorem charnock_def_nonpositive : forall P us, us <= 0 ->
  charnock P us = c_alpha P * (us * us) / c_g P.
Proof. exact charnock_def_nonpos. Qed.

(* one step of the iteration: u* = kappa U / ln(elev / z), then the Charnock relation *)
(* ---- the tie to the source: coq/Generated/RoughnessSrc.v is regenerated from wavephysics/roughness.py on every
   run (harness/translate_pointwise.py); the closed-form functions as the source states them are the model *)
Theorem source_charnock_is_the_model : forall P us,
  RoughnessSrc.charnock_roughness_length us (c_alpha P) (c_g P) (c_nu P) (c_visc P) = charnock P us.
Proof. exact src_charnock. Qed.

Theorem source_charnock_defaults :
  RoughnessSrc.charnock_roughness_length_default_charnock_constant = 12 / 1000 /\
  RoughnessSrc.charnock_roughness_length_default_viscous_constant = 0.
Proof. exact src_charnock_defaults. Qed.

Theorem source_first_guess_is_the_model : forall P U,
  RoughnessSrc.roughness_wu U (c_elev P) (c_kappa P) = guess_wu P U.
Proof. exact src_guess_wu. Qed.

Theorem source_drag_is_the_model : forall P U z, U <> 0 -> 0 < z -> ln (c_elev P / z) <> 0 ->
  drag_of_roughness P z = Some (RoughnessSrc.drag_coefficient U z (c_elev P) (c_kappa P)).
Proof. exact src_drag. Qed.

Theorem charnock_G_def : forall P U z, 0 < z -> ln (c_elev P / z) <> 0 ->
  charnock_G P U z = Some (charnock P (c_kappa P * U / ln (c_elev P / z))).
Proof. exact charnock_G_def. Qed.

Theorem drag_def : forall P z, 0 < z -> ln (c_elev P / z) <> 0 ->
  drag_of_roughness P z = Some ((c_kappa P / ln (c_elev P / z)) * (c_kappa P / ln (c_elev P / z))).
Proof. exact drag_def. Qed.

Theorem charnock_step_positive : forall P U prev z,
  0 < c_alpha P -> 0 < c_g P -> 0 <= c_visc P -> 0 <= c_nu P -> 0 < c_kappa P ->
  0 < U -> 0 < prev -> charnock_G P U prev = Some z -> 0 < z.
Proof. exact charnock_G_pos. Qed.

(* ---- result structure of fixed_point_iteration (any vector function F, any batch) ----
   if the last iteration of the budget is not an Aitken step (max_iter mod 3 <> 0, or Aitken off),
   every output that is not NaN was produced by a plain step x = bound(F(prev)) and passed the
   per-element convergence test against prev; a NaN guess gives a NaN output. *)
Theorem fixed_point_result : forall (Par : Type) (F : Par -> R -> option R) cfg start,
  fp_aitken cfg = false \/ (fp_maxit cfg mod 3 <> 0)%nat ->
  Forall2 (fun pg o => match o with
     | None => True
     | Some z => exists prev,
         conv_test (fp_atol cfg) (fp_rtol cfg) (Some prev) (Some z) = true /\
         Some z = bound_hi (fp_hi cfg) (Some prev) (bound_lo (fp_lo cfg) (Some prev) (F (fst pg) prev))
     end) start (fixed_point Par F cfg start).
Proof. exact fixed_point_result. Qed.

Theorem conv_test_meaning : forall atol rtol a b,
  conv_test atol rtol (Some a) (Some b) = true <->
  Rabs (b - a) < atol /\ Rabs (b - a) / Rmax (Rabs a) atol < rtol.
Proof. exact conv_test_spec. Qed.

Theorem nan_in_nan_out : forall (Par : Type) (F : Par -> R -> option R) cfg start,
  Forall2 (fun pg o => snd pg = None -> o = None) start (fixed_point Par F cfg start).
Proof. exact fixed_point_nan. Qed.

(* ---- the Charnock roughness of a batch of wind speeds (None = missing) ---- *)
Theorem charnock_from_u10_result : forall P maxit Us, (maxit mod 3 <> 0)%nat ->
  Forall2 (fun oU o => match o with
     | None => True
     | Some z => exists U prev, oU = Some U /\
         Rabs (z - prev) < 1 / 10000 /\ Rabs (z - prev) / Rmax (Rabs prev) (1 / 10000) < 1 / 10000 /\
         Some z = bound_lo (Some 0) (Some prev) (charnock_G P U prev)
     end) Us (charnock_from_u10 P maxit Us).
Proof. exact charnock_from_u10_result. Qed.

Theorem charnock_missing_in_missing_out : forall P maxit Us,
  Forall2 (fun oU o => oU = None -> o = None) Us (charnock_from_u10 P maxit Us).
Proof. exact charnock_from_u10_nan. Qed.

Theorem charnock_output_length : forall P maxit Us, length (charnock_from_u10 P maxit Us) = length Us.
Proof. exact charnock_from_u10_length. Qed.

(* ---- exact roots (no viscous term): unique on (0, elev e^-2), increasing with U, and so is the drag ---- *)
Theorem charnock_root_unique : forall P U z1 z2,
  0 < c_g P -> c_visc P = 0 ->
  0 < z1 -> z1 < c_elev P * exp (-2) -> 0 < z2 -> z2 < c_elev P * exp (-2) ->
  charnock_G P U z1 = Some z1 -> charnock_G P U z2 = Some z2 -> z1 = z2.
Proof. exact charnock_root_unique. Qed.

Theorem charnock_root_increasing : forall P U1 U2 z1 z2,
  0 < c_alpha P -> 0 < c_g P -> 0 < c_kappa P -> c_visc P = 0 ->
  0 < U1 -> U1 < U2 ->
  0 < z1 -> z1 < c_elev P * exp (-2) -> 0 < z2 -> z2 < c_elev P * exp (-2) ->
  charnock_G P U1 z1 = Some z1 -> charnock_G P U2 z2 = Some z2 ->
  z1 < z2 /\
  exists d1 d2, drag_of_roughness P z1 = Some d1 /\ drag_of_roughness P z2 = Some d2 /\ d1 < d2.
Proof. exact charnock_root_increasing. Qed.

(* ---- the Newton / secant / bisection hybrid, for ANY function f and configuration ---- *)
(* bracket bookkeeping is sound: stored function values belong to the stored bounds, and once
   root_bounded holds the bounds have opposite signs and contain the current iterate *)
Theorem bracket_invariant : forall f cfg guess r s,
  newton_run_state f cfg guess = (r, s) ->
  s_flo s = f (s_lo s) /\ s_fhi s = f (s_hi s) /\ s_lo s <= s_hi s /\
  (s_bounded s = true -> s_flo s * s_fhi s < 0 /\ s_lo s <= s_x2 s <= s_hi s).
Proof. exact newton_bracket_invariant. Qed.

(* ... so for continuous f a root lies in the final bracket together with the returned iterate *)
Theorem bracket_contains_root : forall f cfg guess r s, continuity f ->
  newton_run_state f cfg guess = (r, s) -> s_bounded s = true ->
  exists z, s_lo s <= z <= s_hi s /\ f z = 0 /\ s_lo s <= s_x2 s <= s_hi s.
Proof. exact newton_root_in_bracket. Qed.

(* one iteration keeps the invariant; a bracket, once found, is never lost and only shrinks *)
Theorem bracket_step : forall f cfg it s s', binv f s ->
  (niter f cfg it s = NCont s' \/ niter f cfg it s = NDone s') ->
  binv f s' /\ (s_bounded s = true -> s_bounded s' = true /\ s_lo s <= s_lo s' /\ s_hi s' <= s_hi s).
Proof. exact niter_inv. Qed.

(* "converged" means: the last step was small (absolute and relative), nothing about the residual *)
Theorem newton_converged_step : forall f cfg guess x s,
  newton_run_state f cfg guess = (NConverged x, s) ->
  x = s_x2 s /\ Rabs (x - s_x1 s) < n_atol cfg /\
  Rabs (x - s_x1 s) / Rmax (Rabs (s_x1 s)) (n_atol cfg) < n_rtol cfg.
Proof. exact newton_converged_step. Qed.

(* an Aitken extrapolation step never declares convergence *)
Theorem newton_done_on_regular_step : forall f cfg it s s', niter f cfg it s = NDone s' ->
  (n_aitken cfg && Nat.eqb (it mod 3) 0) = false.
Proof. exact niter_done_regular. Qed.

(* the Janssen roughness is exp(log-root): missing or strictly positive *)
Theorem janssen_positive_or_none : forall f guess z, janssen_point f guess = Some z -> 0 < z.
Proof. exact janssen_positive_or_none. Qed.

(* non-vacuity: the default budget 100 is not a multiple of 3; default parameters are admissible *)
Example default_budget_ok : (100 mod 3 <> 0)%nat.
Proof. vm_compute. discriminate. Qed.
