(* C16  Synthetic time series carry the spectrum's variance.
   Only statements; every proof is [exact lemma].  Model: OSU.Model.Timeseries
   ([surface_timeseries c fs n xp cols phases]: component, sampling rate, requested length, frequency grid of
   the spectrum, its direction columns (direction, direction step, E per frequency), numpy's phases as
   INPUT; None = the code raises).  A 1D spectrum is [cols1d e]; a 2D spectrum is [cols2d dirs ecols]. *)
From Coq Require Import Reals List Arith.
From OSU.Model Require Import WindEstimate Timeseries.
From OSU.Lib Require Import TsAux.
From OSU.Proofs Require Import Timeseries.
Import ListNotations.
Open Scope R_scope.

(* nfft = 2*(n/2): even, n or n-1 *)
Theorem nfft_even_le : forall n, Nat.even (nfft n) = true /\ (nfft n <= n)%nat /\ (n - nfft n <= 1)%nat.
Proof. exact nfft_spec. Qed.

(* as many samples as the time axis (both nfft), for every component, spectrum and length *)
Theorem length_series_eq_time : forall c fs n xp cols phases t s,
  surface_timeseries c fs n xp cols phases = Some (t, s) ->
  length t = nfft n /\ length s = nfft n.
Proof. exact length_series_eq_time. Qed.

(* the code raises exactly for requested lengths below 4 (fewer than two FFT bins) *)
Theorem raises_iff_short : forall c fs n xp cols phases,
  surface_timeseries c fs n xp cols phases = None <-> (n < 4)%nat.
Proof. exact raises_iff_short. Qed.

(* time axis: t_i = i/fs, spacing 1/fs *)
Theorem time_samples : forall fs n i, fs <> 0 -> (i < nfft n)%nat ->
  nth i (time_axis fs n) 0 = INR i / fs.
Proof. exact time_nth. Qed.

Theorem time_spacing : forall fs n i, fs <> 0 -> (S i < nfft n)%nat ->
  nth (S i) (time_axis fs n) 0 - nth i (time_axis fs n) 0 = 1 / fs.
Proof. exact time_spacing. Qed.

(* FFT bins: f_k = k fs/nfft, and frequency_step of that grid is fs/nfft in EVERY bin (end bins included) *)
Theorem frequency_grid : forall fs n k, (k < nfft n / 2)%nat ->
  nth k (fft_freqs fs n) 0 = INR k * fs / INR (nfft n).
Proof. exact freq_nth. Qed.

Theorem frequency_step_of_grid : forall fs n k, (4 <= n)%nat -> (k < nfft n / 2)%nat ->
  length (frequency_step (fft_freqs fs n)) = (nfft n / 2)%nat /\
  nth k (frequency_step (fft_freqs fs n)) 0 = fs / INR (nfft n).
Proof. exact fft_frequency_step. Qed.

(* |transfer factor|^2 per component: 1, w^2, cos^2, sin^2, w^2 cos^2, w^2 sin^2 *)
Theorem component_factors : forall w th,
  factor_abs2 CZ w th = 1 /\
  factor_abs2 CW w th = w ^ 2 /\
  factor_abs2 CX w th = (cos th) ^ 2 /\
  factor_abs2 CY w th = (sin th) ^ 2 /\
  factor_abs2 CU w th = w ^ 2 * (cos th) ^ 2 /\
  factor_abs2 CV w th = w ^ 2 * (sin th) ^ 2.
Proof. exact component_factors. Qed.

Theorem horizontal_split : forall w th,
  factor_abs2 CX w th + factor_abs2 CY w th = factor_abs2 CZ w th /\
  factor_abs2 CU w th + factor_abs2 CV w th = factor_abs2 CW w th.
Proof. exact horizontal_split. Qed.

(* |sqrt(area E/2) e^{i phase} factor|^2 = area E/2 |factor|^2 *)
Theorem amplitude_abs2 : forall c area e ph w th, 0 <= area * e ->
  let '(re, im) := amp c area e ph w th in
  re * re + im * im = area * e / 2 * factor_abs2 c w th.
Proof. exact amp_abs2. Qed.

(* scaling the spectrum by c >= 0 scales the series by sqrt c (same phases, same time axis) *)
Theorem series_scale : forall cmp fs n xp cols phases c, 0 <= c ->
  surface_timeseries cmp fs n xp (map (scale_col c) cols) phases =
  option_map (fun ts : list R * list R => (fst ts, map (Rmult (sqrt c)) (snd ts)))
             (surface_timeseries cmp fs n xp cols phases).
Proof. exact series_scale. Qed.

Theorem scale_1d : forall c e, cols1d (map (Rmult c) e) = map (scale_col c) (cols1d e).
Proof. exact cols1d_scale. Qed.

Theorem scale_2d : forall c dirs ecols,
  cols2d dirs (map (map (Rmult c)) ecols) = map (scale_col c) (cols2d dirs ecols).
Proof. exact cols2d_scale. Qed.

(* orthogonality over a full period (the core of Parseval): for 1 <= k, l and k + l < N,
   sum_{i<N} (a cos(k w_i) + b sin(k w_i)) (a' cos(l w_i) + b' sin(l w_i)) = [k = l] N/2 (a a' + b b'),
   w_i = 2 pi i / N *)
Theorem harmonics_orthogonal : forall N k l a b a' b', (1 <= k)%nat -> (1 <= l)%nat -> (k + l < N)%nat ->
  sumN (fun i => uterm N k a b i * uterm N l a' b' i) N =
  if Nat.eqb k l then INR N / 2 * (a * a' + b * b') else 0.
Proof. exact uterm_inner. Qed.

(* Parseval for nfft * irfft(X, n = nfft) written as its defining real sum, ANY coefficients, any length:
   the population variance of the 2M samples is sum_{k=1}^{M-1} 2 |X_k|^2  (X_0 only sets the mean;
   there is no Nyquist term because irfft zero-pads the M coefficients) *)
Theorem variance_parseval : forall M X, (1 <= M)%nat -> length X = M ->
  variance (series_of (2 * M) X) =
  sumR (map (fun c : R * R => 2 * (fst c * fst c + snd c * snd c)) (tl X)).
Proof. exact variance_parseval. Qed.

(* the property: for a spectrum whose energy is in one direction column j (a 1D spectrum is the case of a
   single column), non-negative, with non-negative direction step, the sample variance of every component
   is  sum over the FFT bins k >= 1 of  df_k * dtheta * E_k * |factor_k|^2,  E_k the spectrum resampled
   linearly to the FFT bins (zero outside its grid), df_k = frequency_step of the FFT grid = fs/nfft *)
Theorem variance_of_timeseries : forall c fs n xp cols phases j t s,
  (4 <= n)%nat -> 0 < fs ->
  (j < length cols)%nat ->
  length phases = (nfft n / 2)%nat ->
  (forall row, In row phases -> (length cols <= length row)%nat) ->
  (forall i x, i <> j -> (i < length cols)%nat -> interp0 xp (col_e (nth i cols (0, 0, []))) x = 0) ->
  let '(th, dth, e) := nth j cols (0, 0, []) in
  0 <= dth -> (forall x, 0 <= interp0 xp e x) ->
  surface_timeseries c fs n xp cols phases = Some (t, s) ->
  variance s = sumR (tl (energy_terms c xp (fft_freqs fs n) (frequency_step (fft_freqs fs n)) th dth e)).
Proof. exact variance_of_timeseries. Qed.

Theorem energy_term : forall c xp fg dfs th dth e k, (k < length fg)%nat -> (k < length dfs)%nat ->
  nth k (energy_terms c xp fg dfs th dth e) 0 =
  (nth k dfs 0 * dth) * interp0 xp e (nth k fg 0) * factor_abs2 c (2 * PI * nth k fg 0) (rad th).
Proof. exact energy_terms_nth. Qed.

(* a column of zeros carries no energy at any frequency (premise of the theorem above for 2D spectra with
   energy in a single direction bin) *)
Theorem zero_column : forall xp e x, (forall v, In v e -> v = 0) -> interp0 xp e x = 0.
Proof. exact interp0_zeros. Qed.

(* the resampling is linear in the spectrum *)
Theorem resampling_linear : forall c xp fp x, interp0 xp (map (Rmult c) fp) x = c * interp0 xp fp x.
Proof. exact interp0_scale. Qed.

(* the resampled spectrum of a non-negative spectrum is non-negative (any grid) *)
Theorem resampled_nonneg : forall xp e x, (forall v, In v e -> 0 <= v) -> 0 <= interp0 xp e x.
Proof. exact interp0_nonneg. Qed.

(* the property for a 1D spectrum, all premises on the inputs: non-negative variance densities, one phase
   per FFT bin; every component (direction 0: x carries the elevation variance, y and v are zero) *)
Theorem variance_1d : forall c fs n xp e phases t s,
  (4 <= n)%nat -> 0 < fs ->
  length phases = (nfft n / 2)%nat ->
  (forall row, In row phases -> (1 <= length row)%nat) ->
  (forall v, In v e -> 0 <= v) ->
  surface_timeseries c fs n xp (cols1d e) phases = Some (t, s) ->
  variance s = sumR (tl (energy_terms c xp (fft_freqs fs n) (frequency_step (fft_freqs fs n)) 0 1 e)).
Proof. exact variance_1d. Qed.

(* the premises are satisfiable: length 4, one non-zero FFT bin *)
Example variance_1d_example : exists t s,
  surface_timeseries CZ 2 4 [1 / 4; 1] (cols1d [1; 1]) [[0]; [0]] = Some (t, s) /\
  variance s = sumR (tl (energy_terms CZ [1 / 4; 1] (fft_freqs 2 4) (frequency_step (fft_freqs 2 4)) 0 1 [1; 1])).
Proof. exact variance_1d_example. Qed.
