(* C16 stub, extended below *)
From Coq Require Import Reals List Arith Lia.
From OSU.Model Require Import Timeseries.
Theorem nfft_even_le : forall n, (nfft n <= n)%nat /\ (n - nfft n <= 1)%nat.
Proof. intros n. unfold nfft. pose proof (Nat.div_mod n 2). pose proof (Nat.mod_upper_bound n 2). lia. Qed.
