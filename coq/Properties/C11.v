(* C11  Wind inversion closes the source-term balance.
   Only statements; every proof is [exact lemma].  Model: OSU.Model.WindInversion
   (hybrid Newton solver of balance/solvers.py with its bracket state, the inversion driver of
   balance/wind_inversion.py, the dissipation-weighted direction of balance/dissipation.py).
   The source terms themselves are inputs of the model ([p_diss], [p_gen]).
   Global convergence of the solver is NOT a theorem (it is false: see notes/C11.md); the
   non-degeneracy clause of the property is validated by execution in harness/props/C11.py. *)
From Coq Require Import Reals List Arith.
From OSU.Model Require Import WindInversion.
From OSU.Proofs Require Import WindInversion.
Import ListNotations.
Open Scope R_scope.

(* ---------------- driver rules ---------------- *)

(* zero integrated dissipation => U10 = 0 (and the direction is still the dissipation direction),
   with or without direction iteration, whatever the first guess and the generation term *)
Theorem zero_dissipation_zero_wind : forall g diriter p,
  diss_bulk (p_diss p) g = 0 ->
  u10_from_spectra_point g diriter p = (Some 0, Some (diss_direction (p_diss p) (p_k p) g)).
Proof. exact zero_dissipation_zero_wind. Qed.

(* ... in particular for a dissipation field that vanishes in every bin (any grid, any shape) *)
Theorem zero_field_zero_wind : forall g diriter p,
  Forall (Forall (fun v => v = 0)) (p_diss p) ->
  fst (u10_from_spectra_point g diriter p) = Some 0.
Proof. exact zero_field_zero_wind. Qed.

(* without direction iteration the reported direction is the dissipation-weighted mean wave direction
   (also when the wind is zero or missing) *)
Theorem direction_is_diss_weighted : forall g p,
  snd (u10_from_spectra_point g false p) = Some (diss_direction (p_diss p) (p_k p) g).
Proof. exact direction_is_diss_weighted. Qed.

Theorem diss_direction_range : forall D k g, 0 <= diss_direction D k g < 360.
Proof. exact diss_direction_range. Qed.

(* the function handed to the solver: bulk input - target - dE/dt summed over the bins with positive
   wind input ([mask_grid G T] keeps T[i,j] where G[i,j] > 0 and is 0 elsewhere); - target at U10 = 0;
   an exception of the generation term is an exception of the balance *)
Theorem balance_function_def : forall gen dedt g target u G,
  u <> 0 -> gen u = Some G ->
  balance_fn gen dedt g target u
  = Some (integrate2 G (g_df g) (g_dth g) - target - integrate2 (mask_grid G dedt) (g_df g) (g_dth g)).
Proof. exact balance_function_def. Qed.

Theorem balance_function_at_zero : forall gen dedt g target,
  balance_fn gen dedt g target 0 = Some (- target).
Proof. exact balance_function_at_zero. Qed.

Theorem balance_function_raises : forall gen dedt g target u,
  u <> 0 -> gen u = None -> balance_fn gen dedt g target u = None.
Proof. exact balance_function_raises. Qed.

Theorem balance_function_no_dedt : forall gen dedt g target u G,
  u <> 0 -> gen u = Some G -> Forall (Forall (fun v => v = 0)) dedt ->
  balance_fn gen dedt g target u = Some (integrate2 G (g_df g) (g_dth g) - target).
Proof. exact balance_function_no_dedt. Qed.

(* a finite wind came from a converged run of the hybrid solver on that balance function, with last
   step below 0.01 m/s (atol) and below 1.0 relative (rtol), and is non-negative for a non-negative
   first guess *)
Theorem inversion_converged_step : forall g p u d,
  diss_bulk (p_diss p) g <> 0 ->
  u10_from_spectra_point g false p = (Some u, d) ->
  let F := balance_fn (p_gen p (diss_direction (p_diss p) (p_k p) g)) (p_dedt p) g (- diss_bulk (p_diss p) g) in
  newton F driver_cfg (p_guess p) = Converged u /\
  (exists xp, Rabs (u - xp) < 1 / 100 /\ Rabs (u - xp) / Rmax (Rabs xp) (1 / 100) < 1) /\
  (0 <= p_guess p -> 0 <= u).
Proof. exact inversion_converged_step. Qed.

(* NaN rule: the wind is missing exactly when that run did not converge (exception of the balance
   function, stationary point without a bracket, division by zero, iteration limit) *)
Theorem inversion_nan_iff : forall g p,
  diss_bulk (p_diss p) g <> 0 ->
  let F := balance_fn (p_gen p (diss_direction (p_diss p) (p_k p) g)) (p_dedt p) g (- diss_bulk (p_diss p) g) in
  fst (u10_from_spectra_point g false p) = None <-> (forall u, newton F driver_cfg (p_guess p) <> Converged u).
Proof. exact inversion_nan_iff. Qed.

(* batches: every member is computed from its own spectrum only *)
Theorem inversion_batch_independent : forall g diriter ps i p0,
  (i < length ps)%nat ->
  nth i (u10_from_spectra g diriter ps) (u10_from_spectra_point g diriter p0)
  = u10_from_spectra_point g diriter (nth i ps p0).
Proof. exact inversion_batch_independent. Qed.

Theorem inversion_batch_length : forall g diriter ps, length (u10_from_spectra g diriter ps) = length ps.
Proof. exact inversion_batch_length. Qed.

(* ---------------- the hybrid Newton solver (any function, any options) ---------------- *)

(* Converged => the last step passed both tolerance tests *)
Theorem solver_converged_step : forall f c guess x,
  newton f c guess = Converged x ->
  exists xp, Rabs (x - xp) < c_atol c /\ Rabs (x - xp) / Rmax (Rabs xp) (c_atol c) < c_rtol c.
Proof. exact newton_converged_step. Qed.

(* Converged => inside the hard bounds, provided the first bracket [guess -+ |guess|/2] is *)
Theorem solver_converged_bounds : forall f c guess x,
  newton f c guess = Converged x ->
  in_lo (c_lo c) (guess - 1 / 2 * Rabs guess) -> in_hi (c_hi c) (guess + 1 / 2 * Rabs guess) ->
  in_lo (c_lo c) x /\ in_hi (c_hi c) x.
Proof. exact newton_converged_bounds. Qed.

Theorem solver_driver_nonneg : forall f guess x,
  0 <= guess -> newton f driver_cfg guess = Converged x -> 0 <= x.
Proof. exact newton_driver_nonneg. Qed.

(* an Aitken extrapolation pass never ends the run (repaired in /repo 22af9e9: such a pass used to be able to) *)
Theorem done_not_on_aitken_pass : forall f c it s x,
  step f c it s = SDone x -> andb (c_aitken c) (Nat.eqb (it mod 3) 0) = false.
Proof. exact done_not_on_aitken_pass. Qed.

(* bracket invariant: once f(lo) f(hi) < 0 holds in some pass it holds in every later pass, the
   recorded values are the function values at the bracket ends, brackets are nested and the iterate
   stays inside *)
Theorem bracket_invariant : forall f c guess a b it s it' s',
  f (guess - 1 / 2 * Rabs guess) = Some a -> f (guess + 1 / 2 * Rabs guess) = Some b ->
  in_lo (c_lo c) (guess - 1 / 2 * Rabs guess) -> in_hi (c_hi c) (guess + 1 / 2 * Rabs guess) ->
  reach f c 1 (init_state guess a b) it s -> reach f c it s it' s' ->
  bnd s = true ->
  bnd s' = true /\
  f (rb0 s') = Some (fb0 s') /\ f (rb1 s') = Some (fb1 s') /\ fb0 s' * fb1 s' < 0 /\
  rb0 s <= rb0 s' /\ rb0 s' <= x2 s' <= rb1 s' /\ rb1 s' <= rb1 s.
Proof. exact bracket_invariant. Qed.

(* a bracket with a sign change contains a root of a continuous function *)
Theorem bracket_has_root : forall (g : R -> R) lo hi,
  (forall x, lo <= x <= hi -> continuity_pt g x) -> lo <= hi -> g lo * g hi < 0 ->
  exists z, lo <= z <= hi /\ g z = 0.
Proof. exact bracket_has_root. Qed.

(* Converged while the root is bracketed => the result lies in a bracket that contains a root *)
Theorem solver_converged_near_root : forall (g : R -> R) c guess x,
  (forall t, continuity_pt g t) ->
  newton (fun t => Some (g t)) c guess = Converged x ->
  in_lo (c_lo c) (guess - 1 / 2 * Rabs guess) -> in_hi (c_hi c) (guess + 1 / 2 * Rabs guess) ->
  exists it s, (exists a b, reach (fun t => Some (g t)) c 1 (init_state guess a b) it s) /\
    (bnd s = true -> exists z, g z = 0 /\ rb0 s <= z <= rb1 s /\ rb0 s <= x <= rb1 s /\
                               Rabs (x - z) <= rb1 s - rb0 s).
Proof. exact newton_converged_near_root. Qed.

(* the run depends on the function only through its values; an exception of the function ends it *)
Theorem solver_ext : forall f g c guess, (forall x, f x = g x) -> newton f c guess = newton g c guess.
Proof. exact newton_ext. Qed.

Theorem solver_raises : forall f c it s, f (x2 s) = None -> step f c it s = SFail FunRaise.
Proof. exact step_raises. Qed.

(* ---------------- direction: what "dissipation-weighted mean wave direction" means ---------------- *)

(* the reported angle is the polar angle of the dissipation-weighted wavenumber vector (kx, ky) *)
Theorem diss_direction_vector : forall D k g,
  let kx := diss_kx D k g in let ky := diss_ky D k g in
  kx <> 0 \/ ky <> 0 ->
  kx = sqrt (kx² + ky²) * cos (diss_direction D k g * PI / 180) /\
  ky = sqrt (kx² + ky²) * sin (diss_direction D k g * PI / 180) /\
  0 < sqrt (kx² + ky²).
Proof. exact diss_direction_vector. Qed.

(* ... and that vector is  sum_ij k_i (cos theta_j, sin theta_j) (-D_ij) df_i dtheta_j  ([wgrid D k cs] is the
   field  - k_i cs_j D_ij) *)
Theorem diss_kx_weighted_sum : forall D k g,
  diss_kx D k g = integrate2 (wgrid D k (map cos (g_theta g))) (g_df g) (g_dth g).
Proof. exact diss_kx_weighted_sum. Qed.

Theorem diss_ky_weighted_sum : forall D k g,
  diss_ky D k g = integrate2 (wgrid D k (map sin (g_theta g))) (g_df g) (g_dth g).
Proof. exact diss_ky_weighted_sum. Qed.

(* the direction depends on the shape of the dissipation field only *)
Theorem diss_direction_scale : forall c D k g, 0 < c ->
  diss_direction (scale_field c D) k g = diss_direction D k g.
Proof. exact diss_direction_scale. Qed.

(* numpy's arctan2, modelled from atan by quadrant, is the polar angle *)
Theorem atan2_spec : forall y x, x <> 0 \/ y <> 0 ->
  x = sqrt (x² + y²) * cos (atan2 y x) /\ y = sqrt (x² + y²) * sin (atan2 y x).
Proof. exact atan2_spec. Qed.

(* PARTIAL (see Proofs/WindInversion.v): the step bound of a converged run is a bound on the balance itself
   only when the final step is an untouched under-relaxed Newton/secant step *)
Theorem newton_step_residual_partial : forall c s fx r0 r1 g0 g1 b d x,
  d <> 0 -> c_relax c <> 0 ->
  finish c false s fx r0 r1 g0 g1 b (x2 s + - fx / d * c_relax c) = SDone x ->
  x = x2 s + - fx / d * c_relax c ->
  Rabs fx < c_atol c * Rabs d / Rabs (c_relax c).
Proof. exact newton_step_residual_partial. Qed.

(* ---------------- non-vacuity ---------------- *)
(* f(x) = x - 3 from the guess 3: first bracket [1.5,4.5] has a sign change, one pass converges;
   the premises of the theorems above are met by concrete runs *)
Example driver_cfg_first_bracket_ok : forall guess, 0 <= guess ->
  in_lo (c_lo driver_cfg) (guess - 1 / 2 * Rabs guess) /\ in_hi (c_hi driver_cfg) (guess + 1 / 2 * Rabs guess).
Proof. exact driver_first_bracket_ok. Qed.

Example linear_run_converges : exists x, newton (fun t => Some (t - 3)) driver_cfg 3 = Converged x /\ Rabs (x - 3) < 1 / 100.
Proof. exact linear_run_converges. Qed.
