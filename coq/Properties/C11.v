(* C11  Wind inversion closes the source-term balance.
   Only statements; every proof is [exact lemma].  Model: OSU.Model.WindInversion. *)
From Coq Require Import Reals List Arith.
From OSU.Model Require Import WindInversion.
From OSU.Proofs Require Import WindInversion.
Import ListNotations.
Open Scope R_scope.

Theorem bulk_rate_zero_point : forall F newdir diriter guess gdir,
  u10_from_bulk_rate_point F newdir diriter 0 guess gdir = (Some 0, Some gdir).
Proof. exact bulk_rate_zero_point. Qed.
