(* C03  Mean/peak direction and spread follow their definitions and rotate with the sea.
   Only statements; every proof is [exact lemma].  Model: OSU.Model.DirStats (on OSU.Model.Directional). *)
From Coq Require Import Reals List Arith Lra Lia Sorting.Sorted.
From OSU.Lib Require Import Cyclic Fmod Atan2.
From OSU.Model Require Import Directional DirStats.
From OSU.Proofs Require Import Directional DirStats.
Import ListNotations.
Open Scope R_scope.

(* ---- atan2 (built from atan by quadrant) is the polar angle ---- *)
Theorem atan2_polar : forall x y, x <> 0 \/ y <> 0 ->
  x = sqrt (x * x + y * y) * cos (atan2 y x) /\ y = sqrt (x * x + y * y) * sin (atan2 y x) /\
  - PI < atan2 y x <= PI.
Proof. exact atan2_polar. Qed.

(* ---- definitions ---- *)
(* A, B = energy-weighted band averages of a1, b1 *)
Theorem weighted_def : forall fmin fmax f e p,
  let m := band_mask fmin fmax f in
  has_nan (select m e) = false -> moment 0 fmin fmax f e <> 0 ->
  weighted fmin fmax f e p
  = Some (trapz (select m f) (map2 (fun pi ei => fill0 pi * fill0 ei) (select m p) (select m e))
          / moment 0 fmin fmax f e).
Proof. exact weighted_def. Qed.

Theorem mean_direction_def : forall fmin fmax f e a b A B,
  weighted fmin fmax f e a = Some A -> weighted fmin fmax f e b = Some B ->
  mean_direction fmin fmax f e a b = Some (atan2 B A * 180 / PI) /\
  mean_spread fmin fmax f e a b =
    (if Rlt_dec (2 - 2 * sqrt (A * A + B * B)) 0 then None
     else Some (sqrt (2 - 2 * sqrt (A * A + B * B)) * 180 / PI)).
Proof. exact mean_direction_def. Qed.

Theorem per_frequency_def : forall a b i x y,
  length a = length b -> (i < length a)%nat -> nth i a None = Some x -> nth i b None = Some y ->
  nth i (dir_per_frequency a b) None = Some (atan2 y x * 180 / PI) /\
  nth i (spread_per_frequency a b) None = spread_deg x y.
Proof. exact per_frequency_def. Qed.

Theorem peak_direction_def : forall fmin fmax f e a b i,
  peak_index fmin fmax f e = Some i ->
  peak_direction fmin fmax f e a b = odir (nth i a None) (nth i b None) /\
  peak_spread fmin fmax f e a b = ospread (nth i a None) (nth i b None) /\
  peak_frequency fmin fmax f e = Some (nth i f 0).
Proof. exact peak_direction_def. Qed.

(* ---- ranges ---- *)
Theorem dir_range : forall a b, a <> 0 \/ b <> 0 -> -180 < dir_deg a b <= 180.
Proof. exact dir_range. Qed.

Theorem spread_range : forall a b, a * a + b * b <= 1 ->
  exists v, spread_deg a b = Some v /\ 0 <= v <= sqrt 2 * 180 / PI.
Proof. exact spread_range. Qed.

Theorem spread_bound_value : sqrt 2 * 180 / PI < 81.03.
Proof. exact spread_bound_value. Qed.

(* band averages of physically valid moments are physically valid: |(A,B)| <= 1, hence the
   band-mean spread exists and lies in [0, sqrt2*180/pi] (frequencies non-decreasing, e >= 0) *)
Theorem mean_moments_in_disc : forall fmin fmax f e a b A B,
  StronglySorted Rle f ->
  length e = length f -> length a = length f -> length b = length f ->
  Forall nonneg_or_nan e -> Forall2 in_disc a b ->
  weighted fmin fmax f e a = Some A -> weighted fmin fmax f e b = Some B ->
  A * A + B * B <= 1.
Proof. exact mean_moments_in_disc. Qed.

Theorem mean_spread_range : forall fmin fmax f e a b A B,
  StronglySorted Rle f ->
  length e = length f -> length a = length f -> length b = length f ->
  Forall nonneg_or_nan e -> Forall2 in_disc a b ->
  weighted fmin fmax f e a = Some A -> weighted fmin fmax f e b = Some B ->
  exists v, mean_spread fmin fmax f e a b = Some v /\ 0 <= v <= sqrt 2 * 180 / PI.
Proof. exact mean_spread_range. Qed.

(* every non-negative 2D spectrum on non-negative steps has valid moments at every frequency
   and valid band means in every band *)
Theorem moments_2d_in_disc : forall M (s : spec2d M),
  Forall (fun row => length row = length (th2 s)) (E2 s) ->
  Forall (fun row => forall v, In (Some v) row -> 0 <= v) (E2 s) ->
  (forall x, In x (dstep (th2 s)) -> 0 <= x) ->
  Forall nonneg_or_nan (map Some (e_2d s)) /\ Forall2 in_disc (a1_2d s) (b1_2d s) /\ Forall2 in_disc (a2_2d s) (b2_2d s).
Proof. exact moments_2d_in_disc. Qed.

Theorem ranges_2d : forall M (s : spec2d M) fmin fmax A B,
  StronglySorted Rle (f2 s) -> length (E2 s) = length (f2 s) ->
  Forall (fun row => length row = length (th2 s)) (E2 s) ->
  Forall (fun row => forall v, In (Some v) row -> 0 <= v) (E2 s) ->
  (forall x, In x (dstep (th2 s)) -> 0 <= x) ->
  b_mean_a1 (bulk_2d s fmin fmax) = Some A -> b_mean_b1 (bulk_2d s fmin fmax) = Some B ->
  A * A + B * B <= 1 /\
  exists v, b_mean_spread (bulk_2d s fmin fmax) = Some v /\ 0 <= v <= sqrt 2 * 180 / PI.
Proof. exact ranges_2d. Qed.

(* equal cosine and sine is congruence modulo 360 *)
Theorem same_dir_is_congruence : forall d d', same_dir d d' -> exists m : Z, d' = d + 360 * IZR m.
Proof. exact same_dir_cong. Qed.

(* ---- rotation by k bins on a uniform grid: one frequency bin ---- *)
Theorem rot_moments : forall t0 dl th E k,
  ugrid t0 dl th -> -180 <= dl < 180 -> (k <= length th)%nat -> length E = length th ->
  let al := INR k * dl in
  e_row (rotr k E) th = e_row E th /\
  rot_rel al (a1_row E th) (b1_row E th) (a1_row (rotr k E) th) (b1_row (rotr k E) th) /\
  rot_rel (2 * al) (a2_row E th) (b2_row E th) (a2_row (rotr k E) th) (b2_row (rotr k E) th).
Proof. exact rot_moments. Qed.

Theorem rot_direction : forall al x y, x <> 0 \/ y <> 0 ->
  same_dir (dir_deg x y + al) (dir_deg (rotc al x y) (rots al x y)).
Proof. exact rot_direction. Qed.

(* ---- rotation: whole spectrum, every band ---- *)
Theorem rot_energy : forall (M : Type) (t0 dl : R) (k : nat) (s : spec2d M),
  ugrid t0 dl (th2 s) -> -180 <= dl < 180 -> (k <= length (th2 s))%nat ->
  Forall (fun row => length row = length (th2 s)) (E2 s) ->
  e_2d (rot2d k s) = e_2d s.
Proof. exact rot_e_2d. Qed.

Theorem rot_bulk : forall (M : Type) (t0 dl : R) (k : nat) (s : spec2d M),
  ugrid t0 dl (th2 s) -> -180 <= dl < 180 -> (k <= length (th2 s))%nat ->
  Forall (fun row => length row = length (th2 s)) (E2 s) ->
  forall (fmin : R) (fmax : option R),
  let B := bulk_2d s fmin fmax in
  let B' := bulk_2d (rot2d k s) fmin fmax in
  b_m0 B' = b_m0 B /\ b_hm0 B' = b_hm0 B /\ b_tm01 B' = b_tm01 B /\ b_tm02 B' = b_tm02 B /\
  b_peak_index B' = b_peak_index B /\ b_peak_frequency B' = b_peak_frequency B /\
  b_peak_spread B' = b_peak_spread B /\ b_mean_spread B' = b_mean_spread B /\
  rot_rel (INR k * dl) (b_mean_a1 B) (b_mean_b1 B) (b_mean_a1 B') (b_mean_b1 B') /\
  rot_rel (2 * (INR k * dl)) (b_mean_a2 B) (b_mean_b2 B) (b_mean_a2 B') (b_mean_b2 B') /\
  dir_shift (INR k * dl) (b_mean_a1 B) (b_mean_b1 B) (b_mean_a1 B') (b_mean_b1 B') /\
  b_mean_direction B = odir (b_mean_a1 B) (b_mean_b1 B) /\
  b_mean_direction B' = odir (b_mean_a1 B') (b_mean_b1 B') /\
  (forall i : nat, b_peak_index B = Some i ->
     rot_rel (INR k * dl) (nth i (a1_2d s) None) (nth i (b1_2d s) None)
             (nth i (a1_2d (rot2d k s)) None) (nth i (b1_2d (rot2d k s)) None) /\
     dir_shift (INR k * dl) (nth i (a1_2d s) None) (nth i (b1_2d s) None)
               (nth i (a1_2d (rot2d k s)) None) (nth i (b1_2d (rot2d k s)) None) /\
     b_peak_direction B = odir (nth i (a1_2d s) None) (nth i (b1_2d s) None) /\
     b_peak_direction B' = odir (nth i (a1_2d (rot2d k s)) None) (nth i (b1_2d (rot2d k s)) None)).
Proof. exact rot_bulk. Qed.

Theorem rot_per_frequency : forall (M : Type) (t0 dl : R) (k : nat) (s : spec2d M),
  ugrid t0 dl (th2 s) -> -180 <= dl < 180 -> (k <= length (th2 s))%nat ->
  Forall (fun row => length row = length (th2 s)) (E2 s) ->
  forall i : nat,
  dir_shift (INR k * dl) (nth i (a1_2d s) None) (nth i (b1_2d s) None)
            (nth i (a1_2d (rot2d k s)) None) (nth i (b1_2d (rot2d k s)) None) /\
  ospread (nth i (a1_2d (rot2d k s)) None) (nth i (b1_2d (rot2d k s)) None)
  = ospread (nth i (a1_2d s) None) (nth i (b1_2d s) None).
Proof. exact rot_per_frequency. Qed.

(* ---- mirror image ---- *)
Theorem mirror_moments : forall t0 dl th E,
  ugrid t0 dl th -> -180 <= dl < 180 -> length E = length th ->
  e_row (rev E) (mirror_grid th) = e_row E th /\
  mirror_rel (a1_row E th) (b1_row E th) (a1_row (rev E) (mirror_grid th)) (b1_row (rev E) (mirror_grid th)) /\
  mirror_rel (a2_row E th) (b2_row E th) (a2_row (rev E) (mirror_grid th)) (b2_row (rev E) (mirror_grid th)).
Proof. exact mirror_moments. Qed.

Theorem mirror_direction : forall x y, x <> 0 \/ y <> 0 -> same_dir (- dir_deg x y) (dir_deg x (- y)).
Proof. exact mirror_direction_vec. Qed.

Theorem mirror_bulk : forall (M : Type) (t0 dl : R) (s : spec2d M),
  ugrid t0 dl (th2 s) -> -180 <= dl < 180 ->
  Forall (fun row => length row = length (th2 s)) (E2 s) ->
  forall (fmin : R) (fmax : option R),
  let B := bulk_2d s fmin fmax in
  let B' := bulk_2d (mirror2d s) fmin fmax in
  b_m0 B' = b_m0 B /\ b_hm0 B' = b_hm0 B /\ b_tm01 B' = b_tm01 B /\ b_tm02 B' = b_tm02 B /\
  b_peak_index B' = b_peak_index B /\ b_peak_frequency B' = b_peak_frequency B /\
  b_peak_spread B' = b_peak_spread B /\ b_mean_spread B' = b_mean_spread B /\
  mirror_rel (b_mean_a1 B) (b_mean_b1 B) (b_mean_a1 B') (b_mean_b1 B') /\
  mirror_rel (b_mean_a2 B) (b_mean_b2 B) (b_mean_a2 B') (b_mean_b2 B') /\
  dir_negated (b_mean_a1 B) (b_mean_b1 B) (b_mean_a1 B') (b_mean_b1 B') /\
  b_mean_direction B = odir (b_mean_a1 B) (b_mean_b1 B) /\
  b_mean_direction B' = odir (b_mean_a1 B') (b_mean_b1 B') /\
  (forall i : nat, b_peak_index B = Some i ->
     dir_negated (nth i (a1_2d s) None) (nth i (b1_2d s) None)
                 (nth i (a1_2d (mirror2d s)) None) (nth i (b1_2d (mirror2d s)) None) /\
     b_peak_direction B = odir (nth i (a1_2d s) None) (nth i (b1_2d s) None) /\
     b_peak_direction B' = odir (nth i (a1_2d (mirror2d s)) None) (nth i (b1_2d (mirror2d s)) None)).
Proof. exact mirror_bulk. Qed.

Theorem bulk_batch_independent : forall M (b : list (spec2d M)) fmin fmax i d,
  nth i (map (fun s => bulk_2d s fmin fmax) b) (bulk_2d d fmin fmax) = bulk_2d (nth i b d) fmin fmax.
Proof. exact bulk_batch_independent. Qed.

(* ---- non-vacuity ---- *)
(* an 8-bin uniform grid starting at 13 degrees and stored modulo 360 meets the grid premises *)
Example ugrid_example :
  ugrid 13 45 [13; 58; 103; 148; 193; 238; 283; 328] /\ -180 <= 45 < 180.
Proof.
  split; [|lra]. split; [simpl; lra|].
  intros j Hj. simpl in Hj.
  do 8 (destruct j as [|j]; [exists 0%Z; simpl; lra|]). lia.
Qed.

(* the grid of the example written with a wrap: 283+45 = 328, 328+45 = 373 = 13 (mod 360) *)
Example ugrid_wrapped_example :
  ugrid 283 45 [283; 328; 13; 58; 103; 148; 193; 238].
Proof.
  split; [simpl; lra|].
  intros j Hj. simpl in Hj.
  do 2 (destruct j as [|j]; [exists 0%Z; simpl; lra|]).
  do 6 (destruct j as [|j]; [exists (-1)%Z; simpl; lra|]). lia.
Qed.

Example spread_premise_example : (1/2) * (1/2) + (1/2) * (1/2) <= 1.
Proof. lra. Qed.
