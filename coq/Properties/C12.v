(* C12  Equilibrium-range wind estimate: closed form, f^-p ranges, log law, direction conventions.
   Only statements; every proof is [exact lemma].  Model: OSU.Model.WindEstimate
   (None = NaN; [eq_values] = equilibrium_range_values, [estimate1d] = estimate_u10_from_spectrum on one
   spectrum of a batch, [estimate2d] = the same on a frequency-direction spectrum). *)
From Coq Require Import Reals List Arith.
From OSU.Model Require Import WindEstimate.
From OSU.Proofs Require Import WindEstimate.
Import ListNotations.
Open Scope R_scope.

(* u* = 8 pi^3 E_eq / (4 g I beta), for both methods, every spectrum, every parameter set *)
Theorem ustar_closed_form : forall m cf P fs es a1s b1s e a1 b1,
  eq_values m P fs es a1s b1s = Some (Some e, a1, b1) ->
  p_grav P <> 0 -> p_I P <> 0 -> p_beta P <> 0 ->
  exists d u10, estimate1d m cf P fs es a1s b1s =
    Some (Some (8 * PI ^ 3 * e / (4 * p_grav P * p_I P * p_beta P)), d, u10).
Proof. exact estimate_ustar_closed_form. Qed.

(* a NaN equilibrium level gives NaN friction velocity and NaN u10 *)
Theorem ustar_nan_level : forall m cf P fs es a1s b1s a1 b1,
  eq_values m P fs es a1s b1s = Some (None, a1, b1) ->
  exists d, estimate1d m cf P fs es a1s b1s = Some (None, d, None).
Proof. exact estimate_nan_level. Qed.

(* peak method: E_eq is the maximum of fillna0(E f^p); the FIRST bin that attains it is selected and
   a1, b1 are read at that bin *)
Theorem eq_level_peak_is_max : forall p fs es a1s b1s, scaled p fs es <> [] ->
  let sc := map fill0 (scaled p fs es) in
  exists i, (i < length sc)%nat /\
    eq_peak p fs es a1s b1s = (Some (nth i sc 0), onth a1s i, onth b1s i) /\
    (forall x, In x sc -> x <= nth i sc 0) /\
    (forall j, (j < i)%nat -> nth j sc 0 < nth i sc 0).
Proof. exact eq_peak_is_max. Qed.

(* peak method, c f^-p range: E_i = c / f_i^p at some bin and E f^p <= c everywhere (NaN counted as 0) *)
Theorem f4_tail_level_peak : forall p fs es a1s b1s c i,
  length es = length fs -> (i < length fs)%nat ->
  powr (nth i fs 0) p <> 0 ->
  nth i es None = Some (c / powr (nth i fs 0) p) ->
  (forall j, (j < length fs)%nat -> fill0 (omul (nth j es None) (powr (nth j fs 0) p)) <= c) ->
  fst (fst (eq_peak p fs es a1s b1s)) = Some c.
Proof. exact peak_f4_level. Qed.

(* mean method (minimum relative variance over windows of nb bins, with the code's index range
   [i_min, i_max) and its clipping of the averaged indices to nf-1-nb): if E f^p = c on the nb bins of a
   window s inside the searched range, no bin is NaN, the scaled spectrum is positive and every flat
   window of the searched range has the same level, then E_eq = c. *)
Theorem f4_tail_level_mean : forall p fmax nb fs es a1s b1s xs c s,
  length es = length fs ->
  scaled p fs es = map Some xs ->
  (forall x, In x xs -> 0 < x) ->
  (0 < nb)%nat ->
  (i_min_of fs <= s < i_max_of fs fmax nb)%nat ->
  (forall ii, (ii < nb)%nat -> nth (s + ii) xs 0 = c) ->
  (forall k c', (i_min_of fs <= k < i_max_of fs fmax nb)%nat ->
      (forall ii, (ii < nb)%nat -> nth (k + ii) xs 0 = c') -> c' = c) ->
  exists a1 b1, eq_mean p fmax nb fs es a1s b1s = Some (Some c, a1, b1).
Proof. exact mean_level. Qed.

(* [scaled] is E_i * f_i^p bin by bin (so "E f^p = c" above is a statement about the spectrum) *)
Theorem scaled_is_E_times_f_pow : forall p fs es i, (i < length fs)%nat -> (i < length es)%nat ->
  nth i (scaled p fs es) None = omul (nth i es None) (powr (nth i fs 0) p).
Proof. exact scaled_nth. Qed.

(* scaling the spectrum by c > 0 scales the friction velocity by c and leaves the direction alone
   (both methods, NaN bins included; the selected bins do not move) *)
Theorem ustar_linear_in_E : forall m cf P fs es a1s b1s c, 0 < c ->
  option_map (fun r : option R * option R * option R => (fst (fst r), snd (fst r)))
    (estimate1d m cf P fs (map (fun o => omul o c) es) a1s b1s)
  = option_map (fun r : option R * option R * option R =>
                  (option_map (Rmult c) (fst (fst r)), snd (fst r)))
    (estimate1d m cf P fs es a1s b1s).
Proof. exact ustar_linear_in_E. Qed.

Theorem ustar_of_additive : forall g I beta e1 e2,
  ustar_of g I beta (e1 + e2) = ustar_of g I beta e1 + ustar_of g I beta e2.
Proof. exact ustar_add. Qed.

(* U10 = u*/kappa ln(10/z0) with the Charnock roughness of that friction velocity *)
Theorem u10_loglaw : forall m cf P fs es a1s b1s e a1 b1,
  eq_values m P fs es a1s b1s = Some (Some e, a1, b1) ->
  let u := ustar_of (p_grav P) (p_I P) (p_beta P) e in
  let z0 := charnock_z0 (p_alpha P) (p_gc P) (p_visc P) (p_nu P) u in
  0 < z0 ->
  exists d, estimate1d m cf P fs es a1s b1s = Some (Some u, d, Some (u / p_kappa P * ln (10 / z0))).
Proof. exact estimate_u10_loglaw. Qed.

Theorem charnock_without_viscosity : forall alpha gc nu u,
  charnock_z0 alpha gc 0 nu u = alpha * u ^ 2 / gc.
Proof. exact charnock_no_viscosity. Qed.

Theorem charnock_positive : forall alpha gc visc nu u,
  0 < alpha -> 0 < gc -> 0 <= visc -> 0 <= nu -> 0 < u -> 0 < charnock_z0 alpha gc visc nu u.
Proof. exact charnock_pos. Qed.

(* direction = atan2(b1, a1) in degrees modulo 360: in [0,360), and its unit vector is (a1,b1)/|(a1,b1)| *)
Theorem dir_in_0_360 : forall a1 b1, 0 <= dir_of a1 b1 < 360.
Proof. exact dir_in_0_360. Qed.

Theorem dir_is_atan2 : forall a1 b1, (a1 <> 0 \/ b1 <> 0) ->
  let r := sqrt (a1 * a1 + b1 * b1) in
  a1 = r * cos (rad (dir_of a1 b1)) /\ b1 = r * sin (rad (dir_of a1 b1)).
Proof. exact dir_is_atan2. Qed.

(* coming-from / clockwise-from-north = (270 - going-to) mod 360: the unit vector of that compass bearing,
   (east, north) = (sin, cos), is the opposite of the going-to vector (cos d, sin d); range [0,360) *)
Theorem convention_correct : forall d,
  sin (rad (convention d)) = - cos (rad d) /\ cos (rad (convention d)) = - sin (rad d).
Proof. exact convention_correct. Qed.

Theorem convention_in_0_360 : forall d, 0 <= convention d < 360.
Proof. exact convention_in_0_360. Qed.

(* the convention switch only touches the direction *)
Theorem convention_only_direction : forall m P fs es a1s b1s r,
  estimate1d m false P fs es a1s b1s = Some r ->
  estimate1d m true P fs es a1s b1s =
    Some (fst (fst r), option_map convention (snd (fst r)), snd r).
Proof. exact estimate_convention. Qed.

(* a 2D spectrum gives the answer of its 1D reduction (e = sum E dtheta skipping NaN, a1/b1 = first
   circular moments / e) *)
Theorem two_d_equals_one_d : forall m cf P fs dirs rows,
  estimate2d m cf P fs dirs rows =
  (let '(es, a1s, b1s) := reduce2d dirs rows in estimate1d m cf P fs es a1s b1s).
Proof. reflexivity. Qed.

(* members of a batch are estimated independently *)
Theorem batch_independent : forall m cf P fs b i d,
  (i < length b)%nat ->
  nth i (estimate_batch m cf P fs b) d =
  (let '(es, a1s, b1s) := nth i b ([], [], []) in estimate1d m cf P fs es a1s b1s).
Proof. exact estimate_batch_independent. Qed.

(* ---- the premises are satisfiable ---- *)
(* E = f^-4 on both bins of a two-bin spectrum: the peak method returns the level 1 *)
Example peak_level_example :
  fst (fst (eq_peak 4 [1; 2] [Some 1; Some (1 / 16)] [] [])) = Some 1.
Proof. exact peak_level_example. Qed.

(* E f = 1 on bins 1..2 of a four-bin spectrum (p = 1, two-bin windows, searched range [0,2)):
   the mean method returns the level 1 *)
Example mean_level_example :
  exists a1 b1,
  eq_mean 1 4 2 [1; 2; 3; 4] [Some 5; Some (1 / 2); Some (1 / 3); Some (7 / 4)] [] [] = Some (Some 1, a1, b1).
Proof. exact mean_level_example. Qed.
