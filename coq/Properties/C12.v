(* C12  Equilibrium-range wind estimate.  Only statements; proofs are [exact lemma]. *)
From Coq Require Import Reals List.
From OSU.Model Require Import WindEstimate.
Import ListNotations.
Open Scope R_scope.

Theorem two_d_equals_one_d : forall m cf P fs dirs rows,
  estimate2d m cf P fs dirs rows =
  (let '(es, a1s, b1s) := reduce2d dirs rows in estimate1d m cf P fs es a1s b1s).
Proof. reflexivity. Qed.
