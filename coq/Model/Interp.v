(* Model of the interpolation core of /repo (C13; the periodic branches are shared with C14):
     tools/grid.py          enclosing_points_1d
     interpolate/general.py interpolation_weights_1d
     interpolate/nd_interp.py NdInterpolator.interpolate / _data_interpolator / _next_point
     interpolate/dataset.py interpolate_dataset_along_axis (one variable), pass-through
     wavespectra/spectrum.py FrequencySpectrum.interpolate (E * moment, divide, fillna)
   DEFINITIONS ONLY.  A float that may be NaN is [option R] (None = NaN). *)
From Coq Require Import Reals ZArith List Arith.
From OSU.Lib Require Import InterpAuxDefs.
Import ListNotations.
Open Scope R_scope.

Definition hd0 (l : list R) : R := hd 0 l.
Definition last0 (l : list R) : R := last l 0.
Definition rnth (l : list R) (i : nat) : R := nth i l 0.

(* ---------------------------------------------------------------------------------- *)
(* enclosing_points_1d                                                                *)
(* ---------------------------------------------------------------------------------- *)

(* `if xp[-1] < xp[0]:  x = xp[0] - x ; xp = xp[0] - xp` *)
Definition descending (xp : list R) : bool := if Rlt_dec (last0 xp) (hd0 xp) then true else false.
Definition flipx (xp : list R) (x : R) : R := if descending xp then hd0 xp - x else x.
Definition flipxp (xp : list R) : list R :=
  if descending xp then map (fun v => hd0 xp - v) xp else xp.

(* np.searchsorted(xp, x, side="right") on a sorted vector = number of entries <= x *)
Definition leb_R (v x : R) : bool := if Rle_dec v x then true else false.
Definition ssr (xp : list R) (x : R) : nat := length (filter (fun v => leb_R v x) xp).

(* wrapped_difference(delta, period) with the default discontinuity period/2;
   period None returns delta unchanged *)
Definition wd (delta : R) (period : option R) : R :=
  match period with None => delta | Some P => wrapdiff delta P (P / 2) end.

(* indices[:, ix] = [ixp - 1, ixp];  periodic: indices % nxp  (Python: -1 % n = n-1, n % n = 0);
   otherwise np.clip(indices, 0, nxp - 1) *)
Definition enclosing (xp : list R) (x : R) (period : option R) : nat * nat :=
  let n := length xp in
  let x1 := flipx xp x in
  let xp1 := flipxp xp in
  let x2 := match period with
            | Some P => fmod (x1 - hd0 xp1) P + hd0 xp1
            | None => x1
            end in
  let k := ssr xp1 x2 in
  match period with
  | Some _ => ((if Nat.eqb k 0 then n - 1 else (k - 1) mod n)%nat, (k mod n)%nat)
  | None => ((if Nat.eqb k 0 then 0 else Nat.min (k - 1) (n - 1))%nat, Nat.min k (n - 1))
  end.

(* ---------------------------------------------------------------------------------- *)
(* interpolation_weights_1d                                                           *)
(* ---------------------------------------------------------------------------------- *)

(* frac before rounding; None = NaN.  el / er = extrapolate_left / extrapolate_right
   (NdInterpolator always passes False, False: no extrapolation). *)
Definition frac (xp : list R) (x : R) (ii : nat * nat) (period : option R) (el er : bool)
  : option R :=
  let x1 := flipx xp x in
  let xp1 := flipxp xp in
  let dx := wd (x1 - rnth xp1 (fst ii)) period in
  let dxp := wd (rnth xp1 (snd ii) - rnth xp1 (fst ii)) period in
  let q := if Req_EM_T dxp 0 then None else Some (dx / dxp) in
  match period with
  | Some _ => q
  | None =>
      let x0 := hd0 xp1 in
      let xl := last0 xp1 in
      if Req_EM_T x1 xl then Some 0                       (* frac[x == xp[-1]] = 0 *)
      else if Rgt_dec x1 xl then (if er then Some 0 else None)
      else if Rlt_dec x1 x0 then (if el then Some 1 else None)
      else q                                              (* mask: xp[0] <= x < xp[-1] *)
  end.

Definition frac_n (xp : list R) (x : R) (ii : nat * nat) (period : option R) (nearest : bool)
  : option R :=
  let f := frac xp x ii period false false in
  if nearest then option_map rint f else f.

(* weights[0] = 1 - frac ; weights[1] = frac *)
Definition w_lo (f : option R) : option R := osub (Some 1) f.
Definition w_hi (f : option R) : option R := f.

(* ---------------------------------------------------------------------------------- *)
(* _data_interpolator: corner sum, NaN mask, weights_sum > 0.5 rule                   *)
(* ---------------------------------------------------------------------------------- *)

(* one corner: its N-d weight and the data at that corner for every passive position
   (all positions along the non-interpolated axes, flattened) *)
Record corner := mkc { cw : option R; cvals : list (option R) }.

(* mask = all(~isnan(val), axis=passive axes) & (weight > 0)      [NaN > 0 is False] *)
Definition cmask (c : corner) : bool :=
  match cw c with
  | Some w => if Rgt_dec w 0 then all_some (cvals c) else false
  | None => false
  end.

Definition wsum (cs : list corner) : R :=
  fold_left (fun acc c => if cmask c then acc + oval (cw c) else acc) cs 0.

Definition vsum (cs : list corner) (j : nat) : R :=
  fold_left (fun acc c => if cmask c then acc + oval (cw c) * oget (cvals c) j else acc) cs 0.

(* np.where(weights_sum > 0.5, interp_val / weights_sum, nan) *)
Definition interp_corners (cs : list corner) (np : nat) : list (option R) :=
  let ws := wsum cs in
  map (fun j => if Rgt_dec ws (1 / 2) then Some (vsum cs j / ws) else None) (seq 0 np).

(* ---------------------------------------------------------------------------------- *)
(* one interpolated axis with passive dimensions (interpolate_dataset_along_axis)     *)
(* rows : node index -> values at all passive positions                               *)
(* ---------------------------------------------------------------------------------- *)

Definition axis_corners (xp : list R) (rows : list (list (option R))) (x : R)
           (period : option R) (nearest : bool) : list corner :=
  let ii := enclosing xp x period in
  let f := frac_n xp x ii period nearest in
  [ mkc (w_lo f) (nth (fst ii) rows []); mkc (w_hi f) (nth (snd ii) rows []) ].

Definition interp_axis1 (xp : list R) (rows : list (list (option R))) (x : R)
           (period : option R) (nearest : bool) (np : nat) : list (option R) :=
  interp_corners (axis_corners xp rows x period nearest) np.

Definition interp_axis (xp : list R) (rows : list (list (option R))) (xs : list R)
           (period : option R) (nearest : bool) (np : nat) : list (list (option R)) :=
  map (fun x => interp_axis1 xp rows x period nearest np) xs.

(* a variable of a dataset: does it carry the coordinate, and its values *)
Record variable := mkvar { v_has_coord : bool; v_rows : list (list (option R)) }.

(* `if coordinate_name not in data_set[variable].coords: return_data_set[variable] = data_set[variable]` *)
Definition interp_variable (xp : list R) (v : variable) (xs : list R)
           (period : option R) (nearest : bool) (np : nat) : list (list (option R)) :=
  if v_has_coord v then interp_axis xp (v_rows v) xs period nearest np else v_rows v.

(* ---------------------------------------------------------------------------------- *)
(* N interpolated axes, no passive dimension (_next_point; interpolate_track_data_arrray) *)
(* ---------------------------------------------------------------------------------- *)

(* the 2^N corners in the order of the nested loops (first coordinate outermost);
   weights_nd = ((1 * w_axis0) * w_axis1) * ... *)
Fixpoint nd_corners (axes : list ((nat * nat) * (option R * option R)))
         (idx : list nat) (w : option R) : list (list nat * option R) :=
  match axes with
  | [] => [(idx, w)]
  | ((i0, i1), (w0, w1)) :: rest =>
      nd_corners rest (idx ++ [i0]) (omul w w0) ++ nd_corners rest (idx ++ [i1]) (omul w w1)
  end.

(* row-major flat index *)
Fixpoint flat_index (shape : list nat) (idx : list nat) (acc : nat) : nat :=
  match shape, idx with
  | s :: st, i :: it => flat_index st it (acc * s + i)
  | _, _ => acc
  end.

Definition nd_get (shape : list nat) (data : list (option R)) (idx : list nat) : option R :=
  nth (flat_index shape idx 0) data None.

(* grids, their periods (None = not periodic) and the target point, one entry per axis *)
Definition nd_axes (grids : list (list R)) (periods : list (option R)) (pt : list R)
           (nearest : bool) : list ((nat * nat) * (option R * option R)) :=
  map2 (fun gp x => let '(g, p) := gp in
                    let ii := enclosing g x p in
                    let f := frac_n g x ii p nearest in
                    (ii, (w_lo f, w_hi f)))
       (combine grids periods) pt.

Definition nd_corner_list (grids : list (list R)) (periods : list (option R))
           (data : list (option R)) (pt : list R) (nearest : bool) : list corner :=
  let shape := map (@length R) grids in
  map (fun iw => mkc (snd iw) [nd_get shape data (fst iw)])
      (nd_corners (nd_axes grids periods pt nearest) [] (Some 1)).

Definition interp_nd (grids : list (list R)) (periods : list (option R))
           (data : list (option R)) (pt : list R) (nearest : bool) : option R :=
  nth 0 (interp_corners (nd_corner_list grids periods data pt nearest) 1) None.

(* ---------------------------------------------------------------------------------- *)
(* FrequencySpectrum.interpolate along one (non periodic) axis:                       *)
(*   moments are interpolated as  a * E,  then divided by the interpolated E,         *)
(*   then fillna(extrapolation_value)                                                 *)
(* ---------------------------------------------------------------------------------- *)

Definition scale_rows (a e : list (list (option R))) : list (list (option R)) :=
  map2 (fun ra re => map2 omul ra re) a e.

Definition spectrum_interp1 (xp : list R) (erows arows : list (list (option R))) (x : R)
           (nearest : bool) (ext : R) (np : nat) : list R * list R :=
  let ei := interp_axis1 xp erows x None nearest np in
  let mi := interp_axis1 xp (scale_rows arows erows) x None nearest np in
  (map (fillna ext) ei, map (fillna ext) (map2 odiv mi ei)).

(* WaveSpectrum.interpolate / interpolate_frequency for the energy alone *)
Definition energy_interp1 (xp : list R) (erows : list (list (option R))) (x : R)
           (period : option R) (nearest : bool) (ext : R) (np : nat) : list R :=
  map (fillna ext) (interp_axis1 xp erows x period nearest np).

(* ---------------------------------------------------------------------------------- *)
(* interpolate_dataset_grid for a variable with dims (x, y): the coordinates are       *)
(* interpolated one after the other; the second step sees ALL targets of the first as *)
(* passive positions (so its NaN mask looks across them)                              *)
(* ---------------------------------------------------------------------------------- *)

(* R[a][k] -> C[k][a] *)
Definition columns (mat : list (list (option R))) (ny : nat) : list (list (option R)) :=
  map (fun k => map (fun r => nth k r None) mat) (seq 0 ny).

(* m[i][k] on grid (xp, yp); result[b][a] = value at (xs[a], ys[b]) *)
Definition interp_grid2 (xp yp : list R) (m : list (list (option R))) (xs ys : list R)
           (nearest : bool) : list (list (option R)) :=
  let r := interp_axis xp m xs None nearest (length yp) in
  interp_axis yp (columns r (length yp)) ys None nearest (length xs).
