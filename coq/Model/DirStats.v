(* Model of the direction / spread parameters of wavespectra/spectrum.py (WaveSpectrum):
   _mean_direction, _spread, _spectral_weighted, mean_a1..mean_b2, mean_direction,
   mean_directional_spread, peak_index, peak_direction, peak_directional_spread,
   mean_direction_per_frequency, mean_spread_per_frequency, and the integral parameters that
   must not change when the sea is rotated (hm0, tm01, tm02, peak frequency).
   DEFINITIONS ONLY. *)
From Coq Require Import Reals List.
From OSU.Lib Require Import Cyclic Fmod Atan2.
From OSU.Model Require Import Directional.
Import ListNotations.
Open Scope R_scope.

(* _mean_direction(a1, b1) = arctan2(b1, a1) * 180 / pi *)
Definition dir_deg (a b : R) : R := atan2 b a * 180 / PI.

(* _spread(a1, b1) = sqrt(2 - 2 * sqrt(a1**2 + b1**2)) * 180 / pi ; sqrt of a negative is NaN *)
Definition spread_arg (a b : R) : R := 2 - 2 * sqrt (a * a + b * b).
Definition spread_deg (a b : R) : option R :=
  if Rlt_dec (spread_arg a b) 0 then None else Some (sqrt (spread_arg a b) * 180 / PI).

Definition odir (a b : option R) : option R :=
  match a, b with Some x, Some y => Some (dir_deg x y) | _, _ => None end.
Definition ospread (a b : option R) : option R :=
  match a, b with Some x, Some y => spread_deg x y | _, _ => None end.

Definition dir_per_frequency (a b : list (option R)) := map2 odir a b.
Definition spread_per_frequency (a b : list (option R)) := map2 ospread a b.

(* ---------------- _spectral_weighted ----------------
   property.fillna(0);  np.trapezoid(property[band] * e[band], f[band]) / m0(band)
   e itself is NOT filled here: a NaN energy inside the band makes the result NaN *)
Definition is_nan (x : option R) : bool := match x with None => true | Some _ => false end.
Definition has_nan (l : list (option R)) : bool := existsb is_nan l.

Definition wprod (p e : option R) : R := fill0 p * fill0 e.

Definition wnum (fmin : R) (fmax : option R) (f : list R) (e p : list (option R)) : option R :=
  let m := band_mask fmin fmax f in
  if has_nan (select m e) then None
  else Some (trapz (select m f) (map2 wprod (select m p) (select m e))).

Definition weighted fmin fmax f e p : option R :=
  match wnum fmin fmax f e p with
  | None => None
  | Some n => odiv n (moment 0 fmin fmax f e)
  end.

(* mean_a1 / mean_b1 (same function is used for a2, b2) *)
Definition mean_direction fmin fmax f e a b : option R :=
  odir (weighted fmin fmax f e a) (weighted fmin fmax f e b).
Definition mean_spread fmin fmax f e a b : option R :=
  ospread (weighted fmin fmax f e a) (weighted fmin fmax f e b).

(* ---------------- peak_index ----------------
   e.where(band, 0).argmax("frequency"): out-of-band bins count as 0, NaN bins are skipped,
   first maximum wins; all-NaN raises (None) *)
Definition banded fmin fmax (f : list R) (e : list (option R)) : list (option R) :=
  map2 (fun fi ei => if in_band fmin fmax fi then ei else Some 0) f e.

Fixpoint argmax_aux (l : list (option R)) (i : nat) (best : option (nat * R)) : option (nat * R) :=
  match l with
  | [] => best
  | None :: tl => argmax_aux tl (S i) best
  | Some v :: tl =>
      match best with
      | None => argmax_aux tl (S i) (Some (i, v))
      | Some (_, bv) => if Rgt_dec v bv then argmax_aux tl (S i) (Some (i, v))
                        else argmax_aux tl (S i) best
      end
  end.

Definition peak_index fmin fmax f e : option nat :=
  match argmax_aux (banded fmin fmax f e) O None with
  | Some (i, _) => Some i
  | None => None
  end.

Definition peak_frequency fmin fmax f e : option R :=
  match peak_index fmin fmax f e with Some i => Some (nth i f 0) | None => None end.
Definition peak_direction fmin fmax f e a b : option R :=
  match peak_index fmin fmax f e with
  | Some i => odir (nth i a None) (nth i b None) | None => None end.
Definition peak_spread fmin fmax f e a b : option R :=
  match peak_index fmin fmax f e with
  | Some i => ospread (nth i a None) (nth i b None) | None => None end.

(* ---------------- hm0, tm01, tm02 (local copies) ---------------- *)
Definition osqrt (x : R) : option R := if Rlt_dec x 0 then None else Some (sqrt x).
Definition hm0 fmin fmax f e : option R :=
  match osqrt (moment 0 fmin fmax f e) with Some r => Some (4 * r) | None => None end.
Definition tm01 fmin fmax f e : option R := odiv (moment 0 fmin fmax f e) (moment 1 fmin fmax f e).
Definition tm02 fmin fmax f e : option R :=
  match odiv (moment 0 fmin fmax f e) (moment 2 fmin fmax f e) with
  | Some q => osqrt q | None => None end.

(* ---------------- all bulk parameters of a 1D view ---------------- *)
Record bulk := mkbulk {
  b_m0 : R; b_hm0 : option R; b_tm01 : option R; b_tm02 : option R;
  b_peak_index : option nat; b_peak_frequency : option R;
  b_peak_direction : option R; b_peak_spread : option R;
  b_mean_a1 : option R; b_mean_b1 : option R; b_mean_a2 : option R; b_mean_b2 : option R;
  b_mean_direction : option R; b_mean_spread : option R }.

Definition bulk_of fmin fmax (f : list R) (e a1 b1 a2 b2 : list (option R)) : bulk :=
  mkbulk (moment 0 fmin fmax f e) (hm0 fmin fmax f e) (tm01 fmin fmax f e) (tm02 fmin fmax f e)
         (peak_index fmin fmax f e) (peak_frequency fmin fmax f e)
         (peak_direction fmin fmax f e a1 b1) (peak_spread fmin fmax f e a1 b1)
         (weighted fmin fmax f e a1) (weighted fmin fmax f e b1)
         (weighted fmin fmax f e a2) (weighted fmin fmax f e b2)
         (mean_direction fmin fmax f e a1 b1) (mean_spread fmin fmax f e a1 b1).

(* the bulk methods are inherited: on a FrequencySpectrum they read the stored variables, on a
   FrequencyDirectionSpectrum they read the e/a1/b1/a2/b2 properties *)
Definition bulk_1d {M} (s : spec1d M) fmin fmax : bulk :=
  bulk_of fmin fmax (f1 s) (e1 s) (a1s s) (b1s s) (a2s s) (b2s s).
Definition bulk_2d {M} (s : spec2d M) fmin fmax : bulk :=
  bulk_of fmin fmax (f2 s) (map Some (e_2d s)) (a1_2d s) (b1_2d s) (a2_2d s) (b2_2d s).

(* ---------------- rotating / mirroring the sea ---------------- *)
(* numpy.roll(E, k, axis=direction): the density that was at theta_j is now at theta_{j+k} *)
Definition rot2d {M} (k : nat) (s : spec2d M) : spec2d M :=
  mk2d M (f2 s) (th2 s) (map (rotr k) (E2 s)) (meta2 s).

(* theta -> -theta, written on an increasing grid: reversed negated grid, reversed rows *)
Definition mirror_grid (th : list R) : list R := rev (map Ropp th).
Definition mirror2d {M} (s : spec2d M) : spec2d M :=
  mk2d M (f2 s) (mirror_grid (th2 s)) (map (@rev (option R)) (E2 s)) (meta2 s).

(* rotation of a moment pair by an angle given in degrees *)
Definition rotc (al a b : R) : R := a * cos1 al - b * sin1 al.
Definition rots (al a b : R) : R := a * sin1 al + b * cos1 al.

(* ---------------- vocabulary of the rotation / mirror statements ---------------- *)
(* the relation between the moment pair before and after a rotation by al degrees
   (None = NaN: the frequency bin carries no energy) *)
Definition rot_rel (al : R) (a b a' b' : option R) : Prop :=
  match a, b with
  | Some x, Some y => a' = Some (rotc al x y) /\ b' = Some (rots al x y)
  | None, None => a' = None /\ b' = None
  | _, _ => False
  end.

Definition mirror_rel (a b a' b' : option R) : Prop :=
  match a, b with
  | Some x, Some y => a' = Some x /\ b' = Some (- y)
  | None, None => a' = None /\ b' = None
  | _, _ => False
  end.

(* equal unit vectors: the vector form of "congruent modulo 360" *)
Definition same_dir (d d' : R) : Prop := cos1 d' = cos1 d /\ sin1 d' = sin1 d.

(* a defined, non-zero moment pair: the direction exists before and after and is shifted by al *)
Definition dir_shift (al : R) (a b a' b' : option R) : Prop :=
  forall x y, a = Some x -> b = Some y -> x <> 0 \/ y <> 0 ->
  exists d d', odir a b = Some d /\ odir a' b' = Some d' /\ same_dir (d + al) d'.

Definition dir_negated (a b a' b' : option R) : Prop :=
  forall x y, a = Some x -> b = Some y -> x <> 0 \/ y <> 0 ->
  exists d d', odir a b = Some d /\ odir a' b' = Some d' /\ same_dir (- d) d'.

(* physically valid inputs: energies are non-negative (or missing), moment pairs lie in the unit disc
   (a missing moment counts as 0, as in _spectral_weighted) *)
Definition nonneg_or_nan (x : option R) : Prop := match x with Some v => 0 <= v | None => True end.
Definition in_disc (a b : option R) : Prop := fill0 a * fill0 a + fill0 b * fill0 b <= 1.
