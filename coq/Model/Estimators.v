(* Model of wavespectra/estimators/{estimate,mem,mem2,utils}.py and of
   FrequencySpectrum.as_frequency_direction_spectrum.            DEFINITIONS ONLY.

   Conventions: reals are Coq R; a float that may be NaN is [option R] (None = NaN).
   Complex arithmetic of mem.py is written out on (real, imaginary) pairs so that the
   model extracts through RFloat (Proofs/Estimators.v relates it to Coquelicot's C).
   Sums are [fold_right] sums (numpy's pairwise order is not modelled: rounding is not
   part of the model).  The operation order inside one term follows the code. *)
From Coq Require Import Reals List Arith Bool.
Import ListNotations.
Open Scope R_scope.

(* ------------------------------------------------------------------ *)
(* small vectors / list helpers                                         *)
(* ------------------------------------------------------------------ *)
Record V4 := mk4 { q1 : R; q2 : R; q3 : R; q4 : R }.

Definition get4 (v : V4) (m : nat) : R :=
  match m with O => q1 v | 1%nat => q2 v | 2%nat => q3 v | _ => q4 v end.
Definition set4 (v : V4) (m : nat) (x : R) : V4 :=
  match m with
  | O => mk4 x (q2 v) (q3 v) (q4 v)
  | 1%nat => mk4 (q1 v) x (q3 v) (q4 v)
  | 2%nat => mk4 (q1 v) (q2 v) x (q4 v)
  | _ => mk4 (q1 v) (q2 v) (q3 v) x
  end.
Definition add4 (a b : V4) := mk4 (q1 a + q1 b) (q2 a + q2 b) (q3 a + q3 b) (q4 a + q4 b).
Definition scale4 (c : R) (a : V4) := mk4 (c * q1 a) (c * q2 a) (c * q3 a) (c * q4 a).
Definition neg4 (a : V4) := mk4 (- q1 a) (- q2 a) (- q3 a) (- q4 a).
(* np.linalg.norm of a length-4 vector *)
Definition norm4 (a : V4) : R := sqrt (q1 a * q1 a + q2 a * q2 a + q3 a * q3 a + q4 a * q4 a).

Definition sumR (l : list R) : R := fold_right Rplus 0 l.
Definition minl (l : list R) : R :=
  match l with [] => 0 | x :: r => fold_left Rmin r x end.
Fixpoint map2 {A B C} (f : A -> B -> C) (a : list A) (b : list B) : list C :=
  match a, b with x :: a', y :: b' => f x y :: map2 f a' b' | _, _ => [] end.
Definition rnth (l : list R) (i : nat) : R := nth i l 0.

(* ------------------------------------------------------------------ *)
(* grids                                                                *)
(* ------------------------------------------------------------------ *)
(* estimate.py: Jacobian = np.pi/180 ; direction_radians = direction * Jacobian *)
Definition jac_deg : R := PI / 180.
Definition to_rad (dirs_deg : list R) : list R := map (fun d => d * jac_deg) dirs_deg.

(* Python/numpy float  x % p  for p > 0 *)
Definition pmod (x p : R) : R := x - IZR (Int_part (x / p)) * p.

(* mem2_newton: midpoint-rule increments from np.roll differences *)
Definition incr_newton (th : list R) : list R :=
  let n := length th in
  map (fun j =>
         let t := rnth th j in
         let tm := rnth th ((j + n - 1) mod n) in     (* np.roll(th, 1)[j]  *)
         let tp := rnth th ((j + 1) mod n) in         (* np.roll(th,-1)[j]  *)
         let down := pmod (t - tm + PI) (2 * PI) - PI in
         let up := pmod (- (t - tp + PI)) (2 * PI) - PI in
         (down + up) / 2)
      (seq 0 n).

(* utils.get_direction_increment (used by the scipy variant and by the tests) *)
Definition incr_utils (th : list R) : list R :=
  let n := length th in
  map (fun j =>
         let t := rnth th j in
         let tm := rnth th ((j + n - 1) mod n) in
         let tp := rnth th ((j + 1) mod n) in
         let fwd := pmod (tp - t + PI) (2 * PI) - PI in
         let bwd := pmod (t - tm + PI) (2 * PI) - PI in
         (fwd + bwd) / 2)
      (seq 0 n).

(* ------------------------------------------------------------------ *)
(* MEM (Lygre & Krogstad), mem._mem / mem.numba_mem, one frequency      *)
(* ------------------------------------------------------------------ *)
(* Phi1 = (c1 - c2 conj c1)/(1 - c1 conj c1),  Phi2 = c2 - Phi1 c1,
   numerator = 1 - Phi1 conj c1 - Phi2 conj c2  (only its real part is used) *)
Definition mem_one_minus_c1sq (a1 b1 : R) : R := 1 - (a1 * a1 + b1 * b1).
Definition mem_phi1 (a1 b1 a2 b2 : R) : R * R :=
  let n := mem_one_minus_c1sq a1 b1 in
  ((a1 - (a2 * a1 + b2 * b1)) / n, (b1 - (b2 * a1 - a2 * b1)) / n).
Definition mem_phi2 (a1 b1 a2 b2 : R) : R * R :=
  let p := mem_phi1 a1 b1 a2 b2 in
  (a2 - (fst p * a1 - snd p * b1), b2 - (fst p * b1 + snd p * a1)).
Definition mem_num (a1 b1 a2 b2 : R) : R :=
  let p := mem_phi1 a1 b1 a2 b2 in
  let q := mem_phi2 a1 b1 a2 b2 in
  1 - (fst p * a1 + snd p * b1) - (fst q * a2 + snd q * b2).
(* |1 - Phi1 e^{-it} - Phi2 e^{-2it}|^2 with e^{-it} = cos t - i sin t *)
Definition mem_den (p q : R * R) (t : R) : R :=
  let e1r := cos t in let e1i := - sin t in
  let e2r := cos (2 * t) in let e2i := - sin (2 * t) in
  let zr := 1 - (fst p * e1r - snd p * e1i) - (fst q * e2r - snd q * e2i) in
  let zi := 0 - (fst p * e1i + snd p * e1r) - (fst q * e2i + snd q * e2r) in
  zr * zr + zi * zi.

(* D = real(num/den)/pi/2 ;  D / (sum(D) * pi * 2.0 / N).
   None = the result contains non-finite values (|c1| = 1, a zero denominator, or a zero
   discrete integral): outside the premises of the property. *)
Definition mem_raw (th : list R) (a1 b1 a2 b2 : R) : list R :=
  let p := mem_phi1 a1 b1 a2 b2 in
  let q := mem_phi2 a1 b1 a2 b2 in
  let nu := mem_num a1 b1 a2 b2 in
  map (fun t => nu / mem_den p q t / PI / 2) th.
Definition mem_norm (w : list R) : R := sumR w * PI * 2 / INR (length w).
Definition mem_guard (th : list R) (a1 b1 a2 b2 : R) : bool :=
  let p := mem_phi1 a1 b1 a2 b2 in
  let q := mem_phi2 a1 b1 a2 b2 in
  if Req_EM_T (mem_one_minus_c1sq a1 b1) 0 then false
  else if existsb (fun t => if Req_EM_T (mem_den p q t) 0 then true else false) th then false
  else if Req_EM_T (mem_norm (mem_raw th a1 b1 a2 b2)) 0 then false
  else true.
Definition mem_point (th : list R) (a1 b1 a2 b2 : R) : option (list R) :=
  if mem_guard th a1 b1 a2 b2 then
    let w := mem_raw th a1 b1 a2 b2 in
    let s := mem_norm w in
    Some (map (fun x => x / s) w)
  else None.

(* ------------------------------------------------------------------ *)
(* MEM2 (Kim et al.), mem2.py                                           *)
(* ------------------------------------------------------------------ *)
(* twiddle_factors[m, j] *)
Definition tw (m : nat) (t : R) : R :=
  match m with O => cos t | 1%nat => sin t | 2%nat => cos (2 * t) | _ => sin (2 * t) end.

(* inner_product = sum_jj lambda[jj] * twiddle[jj, :]   (accumulated from zeros) *)
Definition inner (l : V4) (t : R) : R :=
  0 + q1 l * tw 0 t + q2 l * tw 1 t + q3 l * tw 2 t + q4 l * tw 3 t.

(* inner_product - min(inner_product) *)
Definition shifted (l : V4) (th : list R) : list R :=
  let ip := map (inner l) th in
  let mn := minl ip in
  map (fun x => x - mn) ip.
Definition shape (l : V4) (th : list R) : list R := map (fun x => exp (- x)) (shifted l th).
(* np.sum(f * d) *)
Definition wsum (f d : list R) : R := sumR (map2 Rmult f d).
(* normalization = 1 / np.sum(np.exp(-inner_product) * direction_increment) *)
Definition normalization (l : V4) (d th : list R) : R := 1 / wsum (shape l th) d.

(* mem2_directional_distribution(lambda, direction_increment, twiddle_factors) *)
Definition dist (l : V4) (d th : list R) : list R :=
  let nrm := normalization l d th in
  map (fun e => e * nrm) (shape l th).

(* np.sum(twiddle[m,:] * D * direction_increment) *)
Definition moment_of (m : nat) (D d th : list R) : R :=
  sumR (map2 Rmult (map2 Rmult (map (tw m) th) D) d).

(* moment_constraints(lambdas, twiddle_factors, moments, direction_increment) *)
Definition constraints (l mo : V4) (d th : list R) : V4 :=
  let D := dist l d th in
  mk4 (q1 mo - moment_of 0 D d th) (q2 mo - moment_of 1 D d th)
      (q3 mo - moment_of 2 D d th) (q4 mo - moment_of 3 D d th).

(* mem2_jacobian: entry (mm, nn) for nn <= mm, as the code computes it *)
Definition normalization_derivative (l : V4) (d th : list R) (m : nat) : R :=
  let nrm := normalization l d th in
  nrm * sumR (map2 Rmult (map2 Rmult (map (tw m) th) (shape l th)) d) * nrm.
Definition jac_lower (l : V4) (d th : list R) (mm nn : nat) : R :=
  let nrm := normalization l d th in
  let sh := shape l th in
  let ndn := normalization_derivative l d th nn in
  - sumR (map2 Rmult (map2 Rmult (map (tw mm) th) d)
                (map2 (fun t s => nrm * (- tw nn t * s) + s * ndn) th sh)).
(* the code fills the upper triangle by mirroring: jacobian[nn, mm] = jacobian[mm, nn] *)
Definition jacobian (l : V4) (d th : list R) (m n : nat) : R :=
  if (n <=? m)%nat then jac_lower l d th m n else jac_lower l d th n m.

(* initial_value: MEM AP2 first guess *)
Definition initial_value (a1 b1 a2 b2 : R) : V4 :=
  let fac := 1 + a1 * a1 + b1 * b1 + a2 * a2 + b2 * b2 in
  mk4 (2 * a1 * a2 + 2 * b1 * b2 - 2 * a1 * fac)
      (2 * a1 * b2 - 2 * b1 * a2 - 2 * b1 * fac)
      (a1 * a1 - b1 * b1 - 2 * a2 * fac)
      (2 * a1 * b1 - 2 * b2 * fac).

(* ---- solve_cholesky for the 4x4 system (Cholesky-Banachiewicz, rows unrolled).
   Reads only the lower triangle A m n, n <= m.  Returns None at the first non-positive
   pivot (the code: "return x, False").  The second component logs the pivot tests as
   pairs (lhs, rhs) of the test "lhs < rhs" (sum of squares < diagonal entry). *)
Definition chol_solve (A : nat -> nat -> R) (r : V4) : option V4 * list (R * R) :=
  let a00 := A 0%nat 0%nat in
  let a10 := A 1%nat 0%nat in let a11 := A 1%nat 1%nat in
  let a20 := A 2%nat 0%nat in let a21 := A 2%nat 1%nat in let a22 := A 2%nat 2%nat in
  let a30 := A 3%nat 0%nat in let a31 := A 3%nat 1%nat in let a32 := A 3%nat 2%nat in
  let a33 := A 3%nat 3%nat in
  if Rle_dec a00 0 then (None, [(0, a00)]) else
  let l00 := sqrt a00 in let i0 := 1 / l00 in
  let x0 := q1 r * i0 in
  (* row 1 *)
  let l10 := i0 * a10 in
  let f1 := q2 r + - l10 * x0 in
  let s1 := a11 - l10 * l10 in
  if Rle_dec s1 0 then (None, [(0, a00); (l10 * l10, a11)]) else
  let l11 := sqrt s1 in let i1 := 1 / l11 in
  let x1 := f1 * i1 in
  (* row 2 *)
  let l20 := i0 * a20 in
  let f2a := q3 r + - l20 * x0 in
  let l21 := i1 * (a21 - l20 * l10) in
  let f2 := f2a + - l21 * x1 in
  let s2 := a22 - l20 * l20 - l21 * l21 in
  if Rle_dec s2 0 then (None, [(0, a00); (l10 * l10, a11); (l20 * l20 + l21 * l21, a22)]) else
  let l22 := sqrt s2 in let i2 := 1 / l22 in
  let x2 := f2 * i2 in
  (* row 3 *)
  let l30 := i0 * a30 in
  let f3a := q4 r + - l30 * x0 in
  let l31 := i1 * (a31 - l30 * l10) in
  let f3b := f3a + - l31 * x1 in
  let l32 := i2 * (a32 - l30 * l20 - l31 * l21) in
  let f3 := f3b + - l32 * x2 in
  let s3 := a33 - l30 * l30 - l31 * l31 - l32 * l32 in
  let lg := [(0, a00); (l10 * l10, a11); (l20 * l20 + l21 * l21, a22);
             (l30 * l30 + l31 * l31 + l32 * l32, a33)] in
  if Rle_dec s3 0 then (None, lg) else
  let l33 := sqrt s3 in let i3 := 1 / l33 in
  let x3 := f3 * i3 in
  (* backward substitution, in place *)
  let y3 := x3 * i3 in
  let y2 := (x2 + - l32 * y3) * i2 in
  let y1 := (x1 + - l21 * y2 + - l31 * y3) * i1 in
  let y0 := (x0 + - l10 * y1 + - l20 * y2 + - l30 * y3) * i0 in
  (Some (mk4 y0 y1 y2 y3), lg).

(* ---- mem2_newton_solver ------------------------------------------------ *)
Inductive nstatus :=
| Converged        (* norm(current_func) < atol *)
| MaxIter          (* max_iter updates without meeting the stopping rule *)
| LineFail         (* line search exhausted: no decrease found *)
| NeedsLstsq       (* Cholesky pivot <= 0: the code continues with np.linalg.lstsq (SVD),
                      which is NOT modelled; the model stops here *)
| ZeroDiv.         (* magnitude_update = 0 in the line search: the jitted code raises *)

Inductive lsres := LSok (nxt nf : V4) | LSfail | LSzero.

(* the inner "for ii in range(max_line_search_depth)" with its for-else.
   [lg] accumulates the tests "norm(next_func) < magnitude_cur_func_eval" *)
Fixpoint linesearch (depth : nat) (cur upd mo : V4) (d th : list R)
         (fac magF magCur magUpd : R) (lg : list (R * R)) : lsres * list (R * R) :=
  match depth with
  | O => (LSfail, lg)
  | S k =>
      let nxt := add4 cur (scale4 fac upd) in
      let nf := constraints nxt mo d th in
      let nn := norm4 nf in
      let lg' := (nn, magF) :: lg in
      if Rlt_dec nn magF then (LSok nxt nf, lg')
      else if Req_EM_T magUpd 0 then (LSzero, lg')
      else linesearch k cur upd mo d th (Rmin (magCur / magUpd) (fac / 2)) magF magCur magUpd lg'
  end.

(* the outer "for iter in range(max_iter)" with its for-else *)
Fixpoint newton_loop (fuel depth : nat) (atol : R) (cur F mo : V4) (d th : list R)
         (lg : list (R * R)) (iters : nat) : nstatus * V4 * list (R * R) * nat :=
  match fuel with
  | O => (MaxIter, cur, lg, iters)
  | S k =>
      let mag := norm4 F in
      let lg1 := (mag, atol) :: lg in
      if Rlt_dec mag atol then (Converged, cur, lg1, iters)
      else
        let (sol, plg) := chol_solve (jacobian cur d th) (neg4 F) in
        let lg2 := plg ++ lg1 in
        match sol with
        | None => (NeedsLstsq, cur, lg2, iters)
        | Some upd =>
            let magCur := norm4 cur in
            let magUpd := norm4 upd in
            match linesearch depth cur upd mo d th 1 mag magCur magUpd lg2 with
            | (LSok nxt nf, lg3) => newton_loop k depth atol nxt nf mo d th lg3 (S iters)
            | (LSfail, lg3) => (LineFail, cur, lg3, iters)
            | (LSzero, lg3) => (ZeroDiv, cur, lg3, iters)
            end
        end
  end.

Definition newton (max_iter depth : nat) (atol : R) (mo guess : V4) (d th : list R)
  : nstatus * V4 * list (R * R) * nat :=
  newton_loop max_iter depth atol guess (constraints guess mo d th) mo d th [] O.

Definition newton_status (r : nstatus * V4 * list (R * R) * nat) : nstatus := fst (fst (fst r)).
Definition newton_iterate (r : nstatus * V4 * list (R * R) * nat) : V4 := snd (fst (fst r)).

(* NUMERICS of mem2.py *)
Definition cfg_max_iter : nat := 100.
Definition cfg_depth : nat := 8.
Definition cfg_atol : R := 1 / 100.

(* mem2_newton_solver(moments, guess, increment, twiddle, config, approximate).
   A NaN in the guess (None) gives all zeros.  Whatever the status, the code ends with
   mem2_directional_distribution(current_iterate): the MEM fallback of
   use_mem_when_failing_to_converge is overwritten by that last assignment. *)
Inductive solver_out :=
| Dist (D : list R) (st : option nstatus)    (* st = None for the approximate variant *)
| Unmodelled (at_iterate : V4)               (* least squares needed *)
| Raises.

Definition newton_solver (approximate : bool) (mo : V4) (guess : option V4) (d th : list R)
  : solver_out :=
  match guess with
  | None => Dist (map (fun _ => 0) d) None
  | Some g =>
      if approximate then Dist (dist g d th) None
      else
        let r := newton cfg_max_iter cfg_depth cfg_atol mo g d th in
        match newton_status r with
        | NeedsLstsq => Unmodelled (newton_iterate r)
        | ZeroDiv => Raises
        | st => Dist (dist (newton_iterate r) d th) (Some st)
        end
  end.

(* ------------------------------------------------------------------ *)
(* estimate_directional_distribution, one (point, frequency) entry      *)
(* ------------------------------------------------------------------ *)
Inductive variant := VMem | VNewton | VApprox.   (* scipy's root(lm) is not modelled *)

Definition all_some4 (a1 b1 a2 b2 : option R) : option V4 :=
  match a1, b1, a2, b2 with
  | Some a, Some b, Some c, Some e => Some (mk4 a b c e)
  | _, _, _, _ => None
  end.

Inductive est_out :=
| EDist (D : list (option R))       (* the returned row, in 1/degree *)
| EUnmodelled
| ERaises.

(* the grid guard: the model of MEM2 is stated for strictly positive increments *)
Definition incr_ok (d : list R) : bool := forallb (fun x => if Rlt_dec 0 x then true else false) d.

Definition estimate_entry (v : variant) (dirs_deg : list R) (a1 b1 a2 b2 : option R) : est_out :=
  let th := to_rad dirs_deg in
  match v with
  | VMem =>
      match all_some4 a1 b1 a2 b2 with
      | None => EDist (map (fun _ => None) th)                       (* NaN in, NaN out *)
      | Some m =>
          match mem_point th (q1 m) (q2 m) (q3 m) (q4 m) with
          | None => EDist (map (fun _ => None) th)
          | Some D => EDist (map (fun x => Some (x * jac_deg)) D)
          end
      end
  | _ =>
      let d := incr_newton th in
      if incr_ok d then
        let mo := all_some4 a1 b1 a2 b2 in
        let g := match mo with
                 | Some m => Some (initial_value (q1 m) (q2 m) (q3 m) (q4 m))
                 | None => None end in
        let m0 := match mo with Some m => m | None => mk4 0 0 0 0 end in
        match newton_solver (match v with VApprox => true | _ => false end) m0 g d th with
        | Dist D _ => EDist (map (fun x => Some (x * jac_deg)) D)
        | Unmodelled _ => EUnmodelled
        | Raises => ERaises
        end
      else EUnmodelled
  end.

(* a batch is a list of (a1,b1,a2,b2) entries; the batched function is a map *)
Definition estimate_batch (v : variant) (dirs_deg : list R)
           (b : list (option R * option R * option R * option R)) : list est_out :=
  map (fun q => let '(a1, b1, a2, b2) := q in estimate_entry v dirs_deg a1 b1 a2 b2) b.

(* ------------------------------------------------------------------ *)
(* as_frequency_direction_spectrum and the way back                     *)
(* ------------------------------------------------------------------ *)
(* output_array = distribution * e[..., None] *)
Definition to_2d (e : list R) (D : list (list R)) : list (list R) :=
  map2 (fun ei row => map (fun x => x * ei) row) e D.
(* FrequencyDirectionSpectrum.e : (E * direction_step).sum(direction) *)
Definition dint (step : list R) (row : list R) : R := wsum row step.
(* np.linspace(0, 360, N, endpoint=False) and its direction_step *)
Definition linspace360 (n : nat) : list R := map (fun j => INR j * (360 / INR n)) (seq 0 n).
Definition step360 (n : nat) : list R := map (fun _ => 360 / INR n) (seq 0 n).
(* trapezoid over frequency (total variance m0) *)
Fixpoint trapz (f y : list R) : R :=
  match f, y with
  | f0 :: ((f1 :: _) as ft), y0 :: ((y1 :: _) as yt) => (f1 - f0) * (y0 + y1) / 2 + trapz ft yt
  | _, _ => 0
  end.

(* the Dataset: named variables; the spectral ones are replaced, all others are copied *)
Inductive vname := NE | NA1 | NB1 | NA2 | NB2 | NOther (k : nat).
Definition is_spectral (n : vname) : bool := match n with NOther _ => false | _ => true end.
Definition carry_vars {P : Type} (vars : list (vname * P)) (e2d : P) : list (vname * P) :=
  (NE, e2d) :: filter (fun x => negb (is_spectral (fst x))) vars.
