(* Model of wavephysics/balance/solvers.py : numba_newton_raphson  and of
   wavephysics/balance/wind_inversion.py : _u10_iteration_function, _u10_from_bulk_rate_point,
   _u10_from_spectra_point, _u10_from_spectra, together with
   dissipation.py : _bulk_dissipation_direction_point  (direction + bulk rate of a given dissipation field).
   DEFINITIONS ONLY.

   Conventions: a float that may be NaN is [option R]; a Python function that may raise is
   [R -> option R] ([None] = raises).  The source terms themselves (ST4/ST6 generation and
   dissipation, roughness solver) are NOT modelled here: the generation field as a function of
   (wind direction, U10) and the dissipation field are inputs. *)
From Coq Require Import Reals List Arith Bool ZArith.
Import ListNotations.
Open Scope R_scope.

(* ------------------------------------------------------------------ *)
(* small numeric helpers                                               *)
(* ------------------------------------------------------------------ *)

(* Python / numpy  x % p  for p > 0 *)
Definition fmod (x p : R) : R := x - IZR (Int_part (x / p)) * p.

(* numpy arctan2(y, x) from atan, by quadrant *)
Definition atan2 (y x : R) : R :=
  if Rlt_dec 0 x then atan (y / x)
  else if Rlt_dec x 0 then (if Rle_dec 0 y then atan (y / x) + PI else atan (y / x) - PI)
  else if Rlt_dec 0 y then PI / 2
  else if Rlt_dec y 0 then - (PI / 2)
  else 0.

(* ------------------------------------------------------------------ *)
(* numba_newton_raphson                                                *)
(* ------------------------------------------------------------------ *)

Inductive failure := FunRaise | DivZero | Stationary.
Inductive status := Converged (x : R) | MaxIter (x : R) | Failed (r : failure).

(* hard_bounds (None = -inf / +inf), max_iterations, aitken_acceleration, atol, rtol,
   numerical_stepsize, relative_stepsize, under_relaxation *)
Record cfg := mkcfg {
  c_lo : option R; c_hi : option R; c_maxit : nat; c_aitken : bool;
  c_atol : R; c_rtol : R; c_step : R; c_relstep : bool; c_relax : R }.

(* loop state: iterates[0..2]; func_evals[2] of the previous pass; root_bounds; func_at_bounds;
   root_bounded *)
Record st := mkst {
  x0 : R; x1 : R; x2 : R; fprev : R;
  rb0 : R; rb1 : R; fb0 : R; fb1 : R; bnd : bool }.

Inductive sres := SCont (s : st) | SDone (x : R) | SFail (r : failure).

(* "Bounds check": a candidate outside [blo,bhi] is replaced by the midpoint of the current iterate
   and the violated bound; lower bound first, then upper bound on the result *)
Definition clip (blo bhi : option R) (cur nxt : R) : R :=
  let n1 := match blo with
            | Some l => if Rlt_dec nxt l then (l - cur) * (1 / 2) + cur else nxt
            | None => nxt end in
  match bhi with
  | Some h => if Rgt_dec n1 h then (h - cur) * (1 / 2) + cur else n1
  | None => n1 end.

Definition sgn_lt0 (a b : R) : bool := if Rlt_dec (a * b) 0 then true else false.

(* roll the iterates, convergence test; [ait] = this pass was an Aitken extrapolation, which never
   decides convergence:  if (abs < atol) & (rel < rtol) and not aitken_step: break *)
Definition finish (c : cfg) (ait : bool) (s : st) (fx r0 r1 g0 g1 : R) (b : bool) (nxt : R) : sres :=
  let blo := if b then Some r0 else c_lo c in
  let bhi := if b then Some r1 else c_hi c in
  let n := clip blo bhi (x2 s) nxt in
  let scale := Rmax (Rabs (x2 s)) (c_atol c) in
  let ad := Rabs (n - x2 s) in
  if Req_EM_T scale 0 then SFail DivZero
  else if Rlt_dec ad (c_atol c) then
         if Rlt_dec (ad / scale) (c_rtol c) then
           if ait then SCont (mkst (x1 s) (x2 s) n fx r0 r1 g0 g1 b) else SDone n
         else SCont (mkst (x1 s) (x2 s) n fx r0 r1 g0 g1 b)
       else SCont (mkst (x1 s) (x2 s) n fx r0 r1 g0 g1 b).

(* update of root_bounds / func_at_bounds with the latest iterate and its function value:
   returns (root_bounds[0], func_at_bounds[0], root_bounds[1], func_at_bounds[1]) *)
Definition upd_bracket (s : st) (fx : R) : R * R * R * R :=
  if Rlt_dec (x2 s) (rb0 s) then (x2 s, fx, rb1 s, fb1 s)
  else if Rgt_dec (x2 s) (rb1 s) then (rb0 s, fb0 s, x2 s, fx)
  else if Rlt_dec (fb0 s * fx) 0 then (rb0 s, fb0 s, x2 s, fx)
  else if Rlt_dec (fb1 s * fx) 0 then (x2 s, fx, rb1 s, fb1 s)
  else (rb0 s, fb0 s, rb1 s, fb1 s).

Section Solver.
  Variable f : R -> option R.

  (* derivative estimate: secant when bracketed (after the first pass), else forward difference.
     None = the function raises; Some None = division by zero *)
  Definition derivative (c : cfg) (it : nat) (s : st) (fx : R) (b : bool) : option (option R) :=
    if andb b (Nat.ltb 1 it) then
      if Req_EM_T (x2 s - x1 s) 0 then Some None
      else Some (Some ((fx - fprev s) / (x2 s - x1 s)))
    else
      let h := if c_relstep c then x2 s * c_step c else c_step c in
      match f (x2 s + h) with
      | None => None
      | Some fh => if Req_EM_T h 0 then Some None else Some (Some ((fh - fx) / h))
      end.

  (* Aitken extrapolation from the last three iterates *)
  Definition aitken_next (s : st) : option R :=
    let num := x2 s - x1 s in
    let den := x1 s - x0 s in
    if Req_EM_T den 0 then None
    else let ratio := num / den in
         if Req_EM_T (1 - ratio) 0 then None
         else Some (x2 s + ratio / (1 - ratio) * num).

  (* one pass through the loop body, [it] = current_iteration (starts at 1) *)
  Definition step (c : cfg) (it : nat) (s : st) : sres :=
    match f (x2 s) with
    | None => SFail FunRaise
    | Some fx =>
      if andb (c_aitken c) (Nat.eqb (it mod 3) 0) then
        (* Aitken step: bounds and root_bounded are left untouched *)
        match aitken_next s with
        | None => SFail DivZero
        | Some nxt => finish c true s fx (rb0 s) (rb1 s) (fb0 s) (fb1 s) (bnd s) nxt
        end
      else
        let '(r0, g0, r1, g1) := upd_bracket s fx in
        let b := sgn_lt0 g0 g1 in
        match derivative c it s fx b with
        | None => SFail FunRaise
        | Some None => SFail DivZero
        | Some (Some d) =>
          if Req_EM_T d 0 then
            if b then finish c false s fx r0 r1 g0 g1 b (x2 s + (r1 - r0) / 2 * c_relax c)
            else SFail Stationary
          else finish c false s fx r0 r1 g0 g1 b (x2 s + - fx / d * c_relax c)
        end
    end.

  (* for current_iteration in range(1, max_iterations): ... else: (max iterations) *)
  Fixpoint loop (c : cfg) (fuel it : nat) (s : st) : status :=
    match fuel with
    | O => MaxIter (x2 s)
    | S k => match step c it s with
             | SFail r => Failed r
             | SDone x => Converged x
             | SCont s' => loop c k (S it) s'
             end
    end.

  Definition init_state (guess a b : R) : st :=
    mkst guess guess guess 0
         (guess - 1 / 2 * Rabs guess) (guess + 1 / 2 * Rabs guess) a b (sgn_lt0 a b).

  Definition newton (c : cfg) (guess : R) : status :=
    match f (guess - 1 / 2 * Rabs guess) with
    | None => Failed FunRaise
    | Some a =>
      match f (guess + 1 / 2 * Rabs guess) with
      | None => Failed FunRaise
      | Some b => loop c (c_maxit c - 1) 1 (init_state guess a b)
      end
    end.
End Solver.

(* what the caller sees: an exception (error_on_max_iter = True raises at max iterations) is None *)
Definition value_of (error_on_max_iter : bool) (r : status) : option R :=
  match r with
  | Converged x => Some x
  | MaxIter x => if error_on_max_iter then None else Some x
  | Failed _ => None
  end.

(* ------------------------------------------------------------------ *)
(* spectral sums, in the loop order of the code                        *)
(* ------------------------------------------------------------------ *)

(* numba_integrate_spectral_data:  acc += data[i,j] * frequency_step[i] * direction_step[j] *)
Fixpoint sum_row (acc : R) (row dth : list R) (dfi : R) : R :=
  match row, dth with
  | a :: r, t :: ts => sum_row (acc + a * dfi * t) r ts dfi
  | _, _ => acc
  end.
Fixpoint sum_grid (acc : R) (A : list (list R)) (df dth : list R) : R :=
  match A, df with
  | row :: rs, d :: ds => sum_grid (sum_row acc row dth d) rs ds dth
  | _, _ => acc
  end.
Definition integrate2 (A : list (list R)) (df dth : list R) : R := sum_grid 0 A df dth.

(* spectral_time_derivative_in_active_region:
   if generation[i,j] > 0: acc += dEdt[i,j] * direction_step[j] * frequency_step[i] *)
Fixpoint act_row (acc : R) (grow trow dth : list R) (dfi : R) : R :=
  match grow, trow, dth with
  | g :: gr, t :: tr, d :: ds =>
      act_row (if Rgt_dec g 0 then acc + t * d * dfi else acc) gr tr ds dfi
  | _, _, _ => acc
  end.
Fixpoint act_grid (acc : R) (G T : list (list R)) (df dth : list R) : R :=
  match G, T, df with
  | grow :: gs, trow :: ts, d :: ds => act_grid (act_row acc grow trow dth d) gs ts ds dth
  | _, _, _ => acc
  end.
Definition active_dedt (G T : list (list R)) (df dth : list R) : R := act_grid 0 G T df dth.

(* _bulk_dissipation_direction_point, the weighted wavenumber vector:
   kx -= k[i] * cos[j] * D[i,j] * frequency_step[i] * direction_step[j]  (ky with sin) *)
Fixpoint kvec_row (acc : R) (drow cs dth : list R) (ki dfi : R) : R :=
  match drow, cs, dth with
  | d :: dr, c :: cr, t :: ts => kvec_row (acc - ki * c * d * dfi * t) dr cr ts ki dfi
  | _, _, _ => acc
  end.
Fixpoint kvec_grid (acc : R) (D : list (list R)) (k df cs dth : list R) : R :=
  match D, k, df with
  | drow :: ds, ki :: ks, dfi :: dfs => kvec_grid (kvec_row acc drow cs dth ki dfi) ds ks dfs cs dth
  | _, _, _ => acc
  end.

Record grid := mkgrid { g_theta : list R;   (* radian_direction *)
                        g_df : list R;      (* frequency_step *)
                        g_dth : list R }.   (* direction_step *)

Definition diss_kx (D : list (list R)) (k : list R) (g : grid) : R :=
  kvec_grid 0 D k (g_df g) (map cos (g_theta g)) (g_dth g).
Definition diss_ky (D : list (list R)) (k : list R) (g : grid) : R :=
  kvec_grid 0 D k (g_df g) (map sin (g_theta g)) (g_dth g).

(* (np.arctan2(ky, kx) * 180 / np.pi) % 360.0 *)
Definition diss_direction (D : list (list R)) (k : list R) (g : grid) : R :=
  fmod (atan2 (diss_ky D k g) (diss_kx D k g) * 180 / PI) 360.
Definition diss_bulk (D : list (list R)) (g : grid) : R := integrate2 D (g_df g) (g_dth g).

(* ------------------------------------------------------------------ *)
(* _u10_iteration_function                                             *)
(* ------------------------------------------------------------------ *)

(* [gen u] = wind input field at wind speed u (roughness solved inside; None = an exception) *)
Definition balance_fn (gen : R -> option (list (list R))) (dedt : list (list R)) (g : grid)
           (target : R) (u : R) : option R :=
  if Req_EM_T u 0 then Some (- target)
  else match gen u with
       | None => None
       | Some G => Some (integrate2 G (g_df g) (g_dth g) - target - active_dedt G dedt (g_df g) (g_dth g))
       end.

(* ------------------------------------------------------------------ *)
(* _u10_from_bulk_rate_point                                           *)
(* ------------------------------------------------------------------ *)

(* the solver options of the call in _u10_from_bulk_rate_point:
   hard_bounds (0, inf), max_iterations 100, aitken True, atol 1e-2, rtol 1.0,
   numerical_stepsize 1e-3, relative_stepsize False, under_relaxation 0.9 *)
Definition driver_cfg : cfg :=
  mkcfg (Some 0) None 100 true (1 / 100) 1 (1 / 1000) false (9 / 10).

Definition wrap180 (d : R) : R := fmod (d + 180) 360 - 180.

Section Driver.
  (* balance as a function of (wind direction, U10); stress direction as a function of
     (U10, wind direction): None = the stress evaluation raises, Some None = NaN *)
  Variable F : R -> R -> option R.
  Variable newdir : R -> R -> option (option R).
  Variable diriter : bool.

  Fixpoint dir_loop (n : nat) (u dir : R) : option R * option R :=
    match n with
    | O => (Some u, Some dir)
    | S k =>
      match value_of true (newton (F dir) driver_cfg u) with
      | None => (None, Some dir)                      (* except: u10 = nan; break *)
      | Some u' =>
        if diriter then
          match newdir u' dir with
          | None => (None, Some dir)                  (* except: u10 = nan; break *)
          | Some None =>                              (* NaN direction poisons the next solve *)
              match k with O => (Some u', None) | S _ => (None, None) end
          | Some (Some nd) =>
              let dd := wrap180 (nd - dir) in
              if Rlt_dec (Rabs dd) 1 then (Some u', Some nd)
              else if Rlt_dec (Rabs dd) 10 then dir_loop k u' nd
              else dir_loop k u' (fmod (dir + 1 / 2 * dd) 360)
          end
        else dir_loop k u' dir
      end
    end.

  Definition u10_from_bulk_rate_point (target guess gdir : R) : option R * option R :=
    if Req_EM_T target 0 then (Some 0, Some gdir)
    else dir_loop (if diriter then 20%nat else 1%nat) guess gdir.
End Driver.

(* ------------------------------------------------------------------ *)
(* _u10_from_spectra_point / _u10_from_spectra                          *)
(* ------------------------------------------------------------------ *)

Record point := mkpoint {
  p_diss : list (list R);                       (* dissipation field of the spectrum *)
  p_k : list R;                                 (* wavenumbers *)
  p_guess : R;                                  (* first guess of U10 *)
  p_gen : R -> R -> option (list (list R));     (* direction -> U10 -> generation field *)
  p_dedt : list (list R);                       (* rate-of-change spectrum (zeros if absent) *)
  p_newdir : R -> R -> option (option R) }.

Definition u10_from_spectra_point (g : grid) (diriter : bool) (p : point) : option R * option R :=
  let direction := diss_direction (p_diss p) (p_k p) g in
  let bulk := diss_bulk (p_diss p) g in
  u10_from_bulk_rate_point
    (fun dir => balance_fn (p_gen p dir) (p_dedt p) g (- bulk))
    (p_newdir p) diriter (- bulk) (p_guess p) direction.

Definition u10_from_spectra (g : grid) (diriter : bool) (ps : list point)
  : list (option R * option R) :=
  map (u10_from_spectra_point g diriter) ps.

(* ------------------------------------------------------------------ *)
(* analytic instances used by the correspondence check only            *)
(* ------------------------------------------------------------------ *)

(* the family of test functions handed to numba_newton_raphson by harness/impl/C11.py *)
Definition test_fun (kind : nat) (a b c : R) (x : R) : option R :=
  match kind with
  | 0%nat => Some (a * x + b)
  | 1%nat => Some (a * x * x * x + b * x + c)
  | 2%nat => Some (Rmin (Rmax (a * (x - b)) (- c)) c)
  | 3%nat => Some (sin (a * x) + b)
  | 4%nat => Some (a * x * x + b)
  | 5%nat => if Rgt_dec x a then None else Some (x - b)
  | 6%nat => Some (exp (a * x) - b)
  | 7%nat => Some (if Rlt_dec x a then - b else c)
  | 8%nat => Some (Rabs (x - a) - b)
  | 9%nat => Some (a * x * x - b * x + c)
  | _ => Some 0
  end.

Definition run_test (kind : nat) (a b c : R) (cf : cfg) (guess : R) : status :=
  newton (test_fun kind a b c) cf guess.

(* toy generation field  G[i,j] = E[i,j] * amp * h(u) * (1 + q cos(dir - d0))  with the wind-speed
   dependences below; used to drive the real _u10_from_bulk_rate_point with analytic source terms *)
Definition toy_h (kind : nat) (a b : R) (u : R) : R :=
  match kind with
  | 0%nat => u * u * a
  | 1%nat => u * u * (a + b * sin u)
  | 2%nat => Rmin (Rmax (u * u * a) b) (16 * b)
  | 3%nat => u * u * a / (1 + b * u)
  | _ => u * u * a
  end.

Definition toy_gen (kind : nat) (amp a b q d0 : R) (E : list (list R)) (dir u : R) : option (list (list R)) :=
  let h := amp * toy_h kind a b u * (1 + q * cos ((dir - d0) * PI / 180)) in
  Some (map (fun row => map (fun e => e * h) row) E).
