(* C15  Model of the object / variable / buffer structure of spectrum objects (DEFINITIONS ONLY).

   wavespectra/spectrum.py keeps all state of a spectrum in one xarray Dataset: named variables, each
   backed by a numpy buffer.  Public operations build a NEW Dataset whose variables are, per variable,
   either a view of an operand's buffer (sel/isel/__getitem__/flatten, the non-spectral variables of
   bandpass/interpolate_frequency/as_frequency_spectrum ...), a copy (deep copy; the untouched variables
   of __add__/__sub__/__neg__/multiply), or freshly computed.  The documented in-place operations
   (fillna, multiply(inplace=True)) REBIND variables of their object to new buffers; nothing ever writes
   into an existing buffer.  That is what the model states, and what the theorems use:
     heap = buffers (append only) + objects (variable -> buffer id).
   Which numpy calls return views rather than copies is runtime behaviour: the model only says "may
   share" ([PShare]); the theorems hold for every choice.

   Second part: index arithmetic of numpy's C order (ravel / unravel_index), flatten, concatenate +
   __getitem__ on flat lists. *)
From Coq Require Import Arith List Bool PeanoNat.
Import ListNotations.

(* ------------------------------------------------------------------------------------------- *)
(* index arithmetic, C order                                                                    *)
(* ------------------------------------------------------------------------------------------- *)

Fixpoint nprod (sh : list nat) : nat :=
  match sh with [] => 1 | n :: r => n * nprod r end.

(* np.ravel_multi_index(idx, sh) *)
Fixpoint ravel (sh idx : list nat) : nat :=
  match sh, idx with
  | _ :: sh', i :: idx' => i * nprod sh' + ravel sh' idx'
  | _, _ => 0
  end.

(* np.unravel_index(k, sh) for k < nprod sh *)
Fixpoint unravel (sh : list nat) (k : nat) : list nat :=
  match sh with
  | [] => []
  | _ :: sh' => (k / nprod sh') :: unravel sh' (k mod nprod sh')
  end.

(* idx is a valid multi-index of an array of shape sh *)
Definition valid_index (sh idx : list nat) : Prop := Forall2 (fun i n => i < n) idx sh.

(* a gridded collection: one element of type A per point of the space-time grid (the spectrum with its
   per-point scalars), stored flat in C order, plus one coordinate vector per dimension *)
Record grid (A C : Type) := mkGrid {
  gshape : list nat;
  gdata : list A;
  gcoords : list (list C)
}.
Arguments mkGrid {A C}. Arguments gshape {A C}. Arguments gdata {A C}. Arguments gcoords {A C}.

Definition get {A C} (g : grid A C) (idx : list nat) (d : A) : A := nth (ravel (gshape g) idx) (gdata g) d.

Fixpoint coords_at {C} (cs : list (list C)) (idx : list nat) (d : C) : list C :=
  match cs, idx with
  | c :: cs', i :: idx' => nth i c d :: coords_at cs' idx' d
  | _, _ => []
  end.

(* WaveSpectrum.flatten: data.reshape((nprod shape, ...)) keeps the flat C-order list; every coordinate is
   gathered with np.unravel_index(arange(nprod shape), shape) *)
Definition flatten {A C} (g : grid A C) (dA : A) (dC : C) : list (A * list C) :=
  map (fun k => (nth k (gdata g) dA, coords_at (gcoords g) (unravel (gshape g) k) dC))
      (seq 0 (nprod (gshape g))).

(* concatenate_spectra along a new leading dimension, and x[i, ...] on the result: every input
   contributes m consecutive entries *)
Definition concat_new_dim {A} (xs : list (list A)) : list A := concat xs.
Definition getitem {A} (m i : nat) (l : list A) : list A := firstn m (skipn (i * m) l).

(* ------------------------------------------------------------------------------------------- *)
(* objects, variables, buffers                                                                  *)
(* ------------------------------------------------------------------------------------------- *)

Inductive bkind := BData | BIndex.          (* BIndex: dimension coordinate (immutable pandas index) *)
Record buffer := mkBuf { bk : bkind; bcls : nat }.   (* bcls: content class; equal class = equal bytes *)

(* variable names: 0 time 1 latitude 2 longitude 3 depth 4 frequency 5 direction
                   6 variance_density 7 a1 8 b1 9 a2 10 b2 *)
Definition var := nat.
Definition vE : var := 6.
Definition is_spectral (v : var) : bool := (6 <=? v) && (v <=? 10).
Definition object := list (var * nat).      (* variable -> buffer id *)

Record heap := mkHeap { bufs : list buffer; objs : list object; ncls : nat }.

Inductive pol := PShare | PCopy | PFresh.

Inductive opk :=
| KDeepCopy        (* copy(deep=True), __deepcopy__ *)
| KArith           (* __add__ __sub__ __neg__ multiply(inplace=False): deep copy, then E recomputed *)
| KView            (* sel isel __getitem__ flatten: views of every variable *)
| KSpectralFresh   (* bandpass interpolate_frequency as_frequency_spectrum as_frequency_direction_spectrum:
                      spectral variables recomputed, the others passed on *)
| KAllFresh.       (* mean sum std where drop_invalid interpolate concatenate_spectra *)

Inductive op :=
| Pure (k : opk) (self : nat) (others : list nat)
| Fillna (o : nat)                         (* in place by contract *)
| MulInplace (o : nat)                     (* multiply(..., inplace=True): in place, returns self *)
| Save (o : nat)                           (* save_as_netcdf *)
| Create (vars : list var).                (* create_1d/2d_spectrum, load_spectrum_from_netcdf *)

Definition kind_of (h : heap) (b : nat) : bkind := bk (nth b (bufs h) (mkBuf BData 0)).

Definition policy (k : opk) (isidx : bool) (v : var) : pol :=
  match k with
  | KDeepCopy => if isidx then PShare else PCopy
  | KArith => if isidx then PShare else if v =? vE then PFresh else PCopy
  | KView => PShare
  | KSpectralFresh => if is_spectral v then PFresh else PShare
  | KAllFresh => if isidx then PShare else PFresh
  end.

(* build the variables of a result one by one; buffers are only ever appended *)
Fixpoint build (k : opk) (src : object) (bs : list buffer) (nc : nat) : object * list buffer * nat :=
  match src with
  | [] => ([], bs, nc)
  | (v, b) :: rest =>
      let old := nth b bs (mkBuf BData 0) in
      let isidx := match bk old with BIndex => true | BData => false end in
      match policy k isidx v with
      | PShare => let '(o, bs', nc') := build k rest bs nc in ((v, b) :: o, bs', nc')
      | PCopy => let '(o, bs', nc') := build k rest (bs ++ [mkBuf (bk old) (bcls old)]) nc in
                 ((v, length bs) :: o, bs', nc')
      | PFresh => let '(o, bs', nc') := build k rest (bs ++ [mkBuf (bk old) nc]) (S nc) in
                  ((v, length bs) :: o, bs', nc')
      end
  end.

(* rebind the variables selected by [sel] of one object to fresh buffers *)
Fixpoint rebind (sel : var -> bool) (src : object) (bs : list buffer) (nc : nat) : object * list buffer * nat :=
  match src with
  | [] => ([], bs, nc)
  | (v, b) :: rest =>
      if sel v then
        let '(o, bs', nc') := rebind sel rest (bs ++ [mkBuf BData nc]) (S nc) in ((v, length bs) :: o, bs', nc')
      else
        let '(o, bs', nc') := rebind sel rest bs nc in ((v, b) :: o, bs', nc')
  end.

Fixpoint create (vars : list var) (bs : list buffer) (nc : nat) : object * list buffer * nat :=
  match vars with
  | [] => ([], bs, nc)
  | v :: rest =>
      let kd := if (v =? 0) || (v =? 4) || (v =? 5) then BIndex else BData in
      let '(o, bs', nc') := create rest (bs ++ [mkBuf kd nc]) (S nc) in ((v, length bs) :: o, bs', nc')
  end.

Fixpoint set_nth {A} (n : nat) (x : A) (l : list A) : list A :=
  match l, n with
  | [], _ => []
  | _ :: r, O => x :: r
  | y :: r, S n' => y :: set_nth n' x r
  end.

(* one operation: new heap and the object it returns (None: returns nothing / a non-spectrum) *)
Definition step (h : heap) (o : op) : heap * option nat :=
  match o with
  | Pure k self _ =>
      let '(ob, bs, nc) := build k (nth self (objs h) []) (bufs h) (ncls h) in
      (mkHeap bs (objs h ++ [ob]) nc, Some (length (objs h)))
  | Fillna t =>
      if t <? length (objs h) then
        let '(ob, bs, nc) := rebind is_spectral (nth t (objs h) []) (bufs h) (ncls h) in
        (mkHeap bs (set_nth t ob (objs h)) nc, None)
      else (h, None)
  | MulInplace t =>
      if t <? length (objs h) then
        let '(ob, bs, nc) := rebind (fun v => v =? vE) (nth t (objs h) []) (bufs h) (ncls h) in
        (mkHeap bs (set_nth t ob (objs h)) nc, Some t)
      else (h, None)
  | Save _ => (h, None)
  | Create vars =>
      let '(ob, bs, nc) := create vars (bufs h) (ncls h) in
      (mkHeap bs (objs h ++ [ob]) nc, Some (length (objs h)))
  end.

Fixpoint run (ops : list op) (h : heap) : heap :=
  match ops with [] => h | o :: r => run r (fst (step h o)) end.

(* the operation is a documented in-place one applied to object t *)
Definition inplace_on (o : op) (t : nat) : Prop :=
  match o with Fillna u | MulInplace u => u = t | _ => False end.
Definition inplace_onb (o : op) (t : nat) : bool :=
  match o with Fillna u | MulInplace u => u =? t | _ => false end.

(* what an object IS: its variables with the contents of their buffers *)
Definition value (h : heap) (t : nat) : list (var * buffer) :=
  map (fun vb => (fst vb, nth (snd vb) (bufs h) (mkBuf BData 0))) (nth t (objs h) []).

Definition wf (h : heap) : Prop :=
  Forall (fun ob => Forall (fun vb => snd vb < length (bufs h)) ob) (objs h).

Definition empty_heap : heap := mkHeap [] [] 0.

(* executable comparison used by the monitor: which of the objects live in h changed between h and h' *)
Definition buffer_eqb (a b : buffer) : bool :=
  (match bk a, bk b with BData, BData | BIndex, BIndex => true | _, _ => false end) && (bcls a =? bcls b).
Fixpoint value_eqb (a b : list (var * buffer)) : bool :=
  match a, b with
  | [], [] => true
  | (v, x) :: a', (w, y) :: b' => (v =? w) && buffer_eqb x y && value_eqb a' b'
  | _, _ => false
  end.
Definition changed (h h' : heap) : list nat :=
  filter (fun t => negb (value_eqb (value h t) (value h' t))) (seq 0 (length (objs h))).

(* the monitor's trace: after every operation, (returned object, objects whose value changed) *)
Fixpoint trace (ops : list op) (h : heap) : list (option nat * list nat) :=
  match ops with
  | [] => []
  | o :: r => let '(h', res) := step h o in (res, changed h h') :: trace r h'
  end.

(* variables of the result of a deep copy that share a buffer with some object live before, with the
   kind of that buffer (the monitor requires: only BIndex buffers) *)
Definition shared_with_old (h : heap) (ob : object) : list (var * bkind) :=
  map (fun vb => (fst vb, kind_of h (snd vb))) (filter (fun vb => snd vb <? length (bufs h)) ob).
