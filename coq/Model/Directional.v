(* Model of the directional quadrature of wavespectra/spectrum.py
   (FrequencyDirectionSpectrum.direction_step, _directionally_integrate, e, a1, b1, a2, b2,
   as_frequency_spectrum), of tools/math.py wrapped_difference and of
   wavespectra/operations.py integrate_spectral_data / numba_integrate_spectral_data.
   DEFINITIONS ONLY.   A float that may be NaN is [option R] (None = NaN).            *)
From Coq Require Import Reals List.
From OSU.Lib Require Import Cyclic Fmod.
Import ListNotations.
Open Scope R_scope.

Definition fill0 (x : option R) : R := match x with Some v => v | None => 0 end.

(* ---------------- direction_step ---------------- *)
(* np.diff(theta, append=theta[0]) : [t1-t0, ..., t_{N-1}-t_{N-2}, t0-t_{N-1}] *)
Fixpoint diff_append (first : R) (l : list R) : list R :=
  match l with
  | [] => []
  | x :: tl => match tl with
               | [] => [first - x]
               | y :: _ => (y - x) :: diff_append first tl
               end
  end.

Definition rawdiff (th : list R) : list R :=
  match th with [] => [] | t0 :: _ => diff_append t0 th end.

(* wrapped_difference(np.diff(direction, append=direction[0]), period=360) *)
Definition dstep (th : list R) : list R := map wrap360 (rawdiff th).

(* grids used in the statements ------------------------------------------------------ *)
(* the cyclic gaps of a reference grid phi: phi_1-phi_0, ..., phi_0+360-phi_{N-1} *)
Definition cyc_gaps (phi : list R) : list R :=
  match phi with [] => [] | p0 :: _ => diff_append (p0 + 360) phi end.

(* uniform grid, possibly stored modulo 360: theta_j = t0 + j*dl (mod 360), N*dl = 360 *)
Definition ugrid (t0 dl : R) (th : list R) : Prop :=
  INR (length th) * dl = 360 /\
  forall j, (j < length th)%nat -> cong360 (nth j th 0) (t0 + INR j * dl).

(* ---------------- _directionally_integrate ---------------- *)
(* (data * direction_step).sum("direction", skipna=True): a NaN product is skipped *)
Definition wterm (g : option R) (s : R) : R :=
  match g with Some v => v * s | None => 0 end.

Definition dint (g : list (option R)) (st : list R) : R := sumR (map2 wterm g st).

(* E * cos(...) keeps NaN *)
Definition omul (g : option R) (c : R) : option R :=
  match g with Some v => Some (v * c) | None => None end.

(* radian_direction = direction * pi / 180 *)
Definition rad (t : R) : R := t * PI / 180.
Definition cos1 (t : R) : R := cos (rad t).
Definition sin1 (t : R) : R := sin (rad t).
Definition cos2 (t : R) : R := cos (2 * rad t).
Definition sin2 (t : R) : R := sin (2 * rad t).

(* numerator / e ; numpy gives nan or +-inf for a zero denominator: None *)
Definition odiv (n d : R) : option R := if Req_EM_T d 0 then None else Some (n / d).

(* one frequency bin: E is the row over directions, th the direction grid (degrees) *)
Definition e_row (E : list (option R)) (th : list R) : R := dint E (dstep th).
Definition mnum (c : R -> R) (E : list (option R)) (th : list R) : R :=
  dint (map2 omul E (map c th)) (dstep th).
Definition a1_row E th := odiv (mnum cos1 E th) (e_row E th).
Definition b1_row E th := odiv (mnum sin1 E th) (e_row E th).
Definition a2_row E th := odiv (mnum cos2 E th) (e_row E th).
Definition b2_row E th := odiv (mnum sin2 E th) (e_row E th).

(* ---------------- spectra (one point of the leading dimensions) ---------------- *)
(* [M] is whatever travels with the spectrum: time, latitude, longitude, depth, extra variables *)
Record spec2d (M : Type) := mk2d {
  f2 : list R;                          (* frequencies *)
  th2 : list R;                         (* directions, degrees *)
  E2 : list (list (option R));          (* variance density, one row per frequency *)
  meta2 : M }.

Record spec1d (M : Type) := mk1d {
  f1 : list R;
  e1 : list (option R);
  a1s : list (option R); b1s : list (option R);
  a2s : list (option R); b2s : list (option R);
  meta1 : M }.

Arguments f2 {M}. Arguments th2 {M}. Arguments E2 {M}. Arguments meta2 {M}.
Arguments f1 {M}. Arguments e1 {M}. Arguments a1s {M}. Arguments b1s {M}.
Arguments a2s {M}. Arguments b2s {M}. Arguments meta1 {M}.

Definition e_2d {M} (s : spec2d M) : list R := map (fun row => e_row row (th2 s)) (E2 s).
Definition a1_2d {M} (s : spec2d M) := map (fun row => a1_row row (th2 s)) (E2 s).
Definition b1_2d {M} (s : spec2d M) := map (fun row => b1_row row (th2 s)) (E2 s).
Definition a2_2d {M} (s : spec2d M) := map (fun row => a2_row row (th2 s)) (E2 s).
Definition b2_2d {M} (s : spec2d M) := map (fun row => b2_row row (th2 s)) (E2 s).

(* as_frequency_spectrum: the five spectral variables are recomputed, everything else is copied *)
Definition to_1d {M} (s : spec2d M) : spec1d M :=
  mk1d M (f2 s) (map Some (e_2d s)) (a1_2d s) (b1_2d s) (a2_2d s) (b2_2d s) (meta2 s).

(* a batch (leading dimensions) is a list of points; every batched function is a map *)
Definition to_1d_batch {M} (b : list (spec2d M)) : list (spec1d M) := map to_1d b.

(* ---------------- frequency band, trapezoid, moments (local copies) ---------------- *)
(* _range: (f >= fmin) & (f < fmax); fmax = None is +inf *)
Definition in_band (fmin : R) (fmax : option R) (f : R) : bool :=
  if Rle_dec fmin f then
    match fmax with None => true | Some m => if Rlt_dec f m then true else false end
  else false.

Fixpoint select {A : Type} (m : list bool) (l : list A) : list A :=
  match m, l with
  | b :: m', x :: l' => if b then x :: select m' l' else select m' l'
  | _, _ => []
  end.

Definition band_mask fmin fmax (f : list R) : list bool := map (in_band fmin fmax) f.

(* sum_i (x_{i+1}-x_i) * (y_i+y_{i+1}) / 2 *)
Fixpoint trapz (xs ys : list R) {struct xs} : R :=
  match xs with
  | [] => 0
  | x0 :: xt =>
      match xt with
      | [] => 0
      | x1 :: _ =>
          match ys with
          | y0 :: ((y1 :: _) as yt) => (x1 - x0) * (y0 + y1) / 2 + trapz xt yt
          | _ => 0
          end
      end
  end.

(* frequency_moment: (e[band] * f[band]**n).fillna(0).integrate("frequency") *)
Definition mterm (n : nat) (e : option R) (f : R) : R :=
  match e with Some v => v * f ^ n | None => 0 end.

Definition moment (n : nat) (fmin : R) (fmax : option R) (f : list R) (e : list (option R)) : R :=
  let m := band_mask fmin fmax f in
  trapz (select m f) (map2 (mterm n) (select m e) (select m f)).

Definition m0_1d {M} (s : spec1d M) fmin fmax : R := moment 0 fmin fmax (f1 s) (e1 s).
Definition m0_2d {M} (s : spec2d M) fmin fmax : R := moment 0 fmin fmax (f2 s) (map Some (e_2d s)).

(* ---------------- operations.integrate_spectral_data ---------------- *)
(* dims = "direction":  (data * difference).sum("direction")  (xarray skips NaN) *)
Definition isd_direction (E : list (list (option R))) (th : list R) : list R :=
  map (fun row => dint row (dstep th)) E.

(* dims = "frequency": data.fillna(0).integrate("frequency"), one value per direction.
   Written on rows: sum_i (f_{i+1}-f_i) * (row_i + row_{i+1}) / 2 as vectors. *)
Definition vfill (row : list (option R)) : list R := map fill0 row.
Definition vseg (dx : R) (r0 r1 : list R) : list R := map2 (fun a b => dx * (a + b) / 2) r0 r1.
Definition vadd (u v : list R) : list R := map2 Rplus u v.

Fixpoint isd_frequency_aux (nd : nat) (f : list R) (E : list (list (option R))) {struct f} : list R :=
  match f with
  | [] => repeat 0 nd
  | x0 :: ft =>
      match ft with
      | [] => repeat 0 nd
      | x1 :: _ =>
          match E with
          | r0 :: ((r1 :: _) as Et) =>
              vadd (vseg (x1 - x0) (vfill r0) (vfill r1)) (isd_frequency_aux nd ft Et)
          | _ => repeat 0 nd
          end
      end
  end.

Definition isd_frequency (nd : nat) (f : list R) (E : list (list (option R))) : list R :=
  isd_frequency_aux nd f E.

(* dims = both: frequency first (after fillna nothing is NaN any more), then direction *)
Definition isd_both (f th : list R) (E : list (list (option R))) : R :=
  sumR (map2 Rmult (isd_frequency (length th) f E) (dstep th)).

(* numba_integrate_spectral_data(data, grid): plain double loop over finite data *)
Definition numba_isd (data : list (list R)) (fstep dstp : list R) : R :=
  sumR (map2 (fun row fs => sumR (map2 (fun d ds => d * fs * ds) row dstp)) data fstep).
