(* Model of wavespectra/spectrum.py : peak_index, peak_frequency, peak_period, peak_direction,
   peak_directional_spread, peak_wavenumber, the depth property, the directional moments a1/b1
   of a 2D spectrum, and of wavetheory/lineardispersion.py : intrinsic_dispersion_relation and
   inverse_intrinsic_dispersion_relation (first guess + at most 10 Newton steps with the
   batch-wide exit test).  DEFINITIONS ONLY. *)
From Coq Require Import Reals List.
From OSU.Lib Require Import Sums.
From OSU.Model Require Import Moments.
Import ListNotations.
Open Scope R_scope.

(* ---------- peak_index : e.where(band, 0).argmax(frequency)  (nanargmax) ---------- *)
(* out-of-band bins are REPLACED BY 0 (they still take part in the maximum) *)
Definition masked (fmin : R) (fmax : option R) (f : list R) (e : list (option R)) : list (option R) :=
  map (fun p => if in_band fmin fmax (fst p) then snd p else Some 0) (combine f e).

(* first index of the maximum, NaN skipped; [best] = (index, value) of the running maximum *)
Fixpoint argmax_from (l : list (option R)) (i : nat) (best : option (nat * R)) : option (nat * R) :=
  match l with
  | [] => best
  | None :: t => argmax_from t (S i) best
  | Some v :: t =>
      match best with
      | None => argmax_from t (S i) (Some (i, v))
      | Some (_, bv) =>
          if Rgt_dec v bv then argmax_from t (S i) (Some (i, v)) else argmax_from t (S i) best
      end
  end.

(* None = every entry is NaN (numpy raises "All-NaN slice encountered") *)
Definition first_argmax (l : list (option R)) : option nat :=
  option_map fst (argmax_from l 0%nat None).

Definition peak_index fmin fmax f e : option nat := first_argmax (masked fmin fmax f e).

(* ---------- quantities read at the peak index ---------- *)
Definition onth (l : list (option R)) (k : nat) : option R := nth k l None.

Definition freq_at (f : list R) (k : nat) : R := nth k f 0.
(* 1 / f ; None stands for the non-finite result at f = 0 *)
Definition period_at (f : list R) (k : nat) : option R :=
  let fp := freq_at f k in if Req_EM_T fp 0 then None else Some (1 / fp).

Definition atan2 (y x : R) : R :=
  if Rlt_dec 0 x then atan (y / x)
  else if Rlt_dec x 0 then (if Rle_dec 0 y then atan (y / x) + PI else atan (y / x) - PI)
  else if Rlt_dec 0 y then PI / 2
  else if Rlt_dec y 0 then - (PI / 2)
  else 0.

(* _mean_direction: arctan2(b1, a1) * 180 / pi *)
Definition dir_deg (a b : R) : R := atan2 b a * 180 / PI.
(* _spread: sqrt(2 - 2 sqrt(a1^2 + b1^2)) * 180 / pi ; NaN when the radicand is negative *)
Definition spread_deg (a b : R) : option R :=
  let q := 2 - 2 * sqrt (a * a + b * b) in
  if Rlt_dec q 0 then None else Some (sqrt q * 180 / PI).

Definition direction_at (a1 b1 : list (option R)) (k : nat) : option R :=
  match onth a1 k, onth b1 k with
  | Some a, Some b => Some (dir_deg a b)
  | _, _ => None
  end.
Definition spread_at (a1 b1 : list (option R)) (k : nat) : option R :=
  match onth a1 k, onth b1 k with
  | Some a, Some b => spread_deg a b
  | _, _ => None
  end.

Definition peak_frequency fmin fmax f e : option R :=
  option_map (freq_at f) (peak_index fmin fmax f e).
(* outer None: no index (all NaN); inner None: non-finite value *)
Definition peak_period fmin fmax f e : option (option R) :=
  option_map (period_at f) (peak_index fmin fmax f e).
Definition peak_direction fmin fmax f e a1 b1 : option (option R) :=
  option_map (direction_at a1 b1) (peak_index fmin fmax f e).
Definition peak_spread fmin fmax f e a1 b1 : option (option R) :=
  option_map (spread_at a1 b1) (peak_index fmin fmax f e).

(* batches *)
Definition peak_index_batch fmin fmax f (es : list (list (option R))) : list (option nat) :=
  map (peak_index fmin fmax f) es.

(* ---------- a1, b1 of a 2D spectrum: dint(E cos theta) / e ---------- *)
Definition rad (t : R) : R := t * PI / 180.
Definition dmoment (trig : R -> R) (th : list R) (row : list (option R)) : option R :=
  let dth := dstep th in
  let e := dint row dth in
  let num := dint (map (fun p => omul (fst p) (trig (rad (snd p)))) (combine row th)) dth in
  if Req_EM_T e 0 then None else Some (num / e).
Definition a1_2d th (E : list (list (option R))) : list (option R) := map (dmoment cos th) E.
Definition b1_2d th (E : list (list (option R))) : list (option R) := map (dmoment sin th) E.

(* ---------- depth and the dispersion relation ---------- *)
Inductive depth := Deep | Depth (d : R).
(* the dataset value: NaN, +inf or a number; property `depth` maps NaN to +inf *)
Inductive rawdepth := RawNaN | RawInf | RawVal (d : R).
Definition depth_of (r : rawdepth) : depth :=
  match r with RawNaN => Deep | RawInf => Deep | RawVal d => Depth d end.

Definition grav : R := 981 / 100.

(* intrinsic_dispersion_relation: sqrt(g k tanh(k d)) ; tanh(k * inf) = 1.
   None = NaN (negative radicand) *)
Definition osqrt (r : R) : option R := if Rlt_dec r 0 then None else Some (sqrt r).
Definition omega (k : R) (dep : depth) : option R :=
  match dep with
  | Deep => osqrt (grav * k)
  | Depth d => osqrt (grav * k * tanh (k * d))
  end.

(* where(w > sqrt(g/d), w^2/g, w/sqrt(g d)) ; for d = inf: sqrt(g/d) = 0 and w/sqrt(g d) = 0.
   None = NaN: a non-positive depth gives sqrt of a negative number / a division by zero *)
Definition first_guess (p : R * depth) : option R :=
  let (w, dep) := p in
  match dep with
  | Deep => Some (if Rgt_dec w 0 then w * w / grav else 0)
  | Depth d =>
      if Rle_dec d 0 then None
      else Some (if Rgt_dec w (sqrt (grav / d)) then w * w / grav else w / sqrt (grav * d))
  end.

(* derivative of the error with respect to k (the group velocity); None when a divisor vanishes *)
Definition dwdk (w k : R) (dep : depth) : option R :=
  if Req_EM_T k 0 then None
  else match dep with
       | Deep => Some (1 / 2 * w / k)
       | Depth d =>
           let kd := k * d in
           if Rgt_dec kd 5 then Some (1 / 2 * w / k)
           else if Req_EM_T (sinh (2 * kd)) 0 then None
           else Some ((1 / 2 + kd / sinh (2 * kd)) * w / k)
       end.

(* one Newton step; a wavenumber is [option R], None = NaN: NaN stays NaN and no division by
   zero is ever taken *)
Definition newton1 (p : R * depth) (ok : option R) : option R :=
  let (w, dep) := p in
  match ok with
  | None => None
  | Some k =>
      match omega k dep, dwdk w k dep with
      | Some om, Some dv => if Req_EM_T dv 0 then None else Some (k - (om - w) / dv)
      | _, _ => None
      end
  end.

(* |error| / w < tolerance ; false for NaN and for w = 0 (0/0 and x/0 are not < tolerance) *)
Definition ok1 (tol : R) (p : R * depth) (ok : option R) : bool :=
  let (w, dep) := p in
  match ok with
  | None => false
  | Some k =>
      match omega k dep with
      | None => false
      | Some om =>
          if Req_EM_T w 0 then false
          else if Rlt_dec (Rabs (om - w) / w) tol then true else false
      end
  end.

Inductive status := Converged (ks : list (option R)) | MaxIter (ks : list (option R)).

Definition step_all (ps : list (R * depth)) (ks : list (option R)) : list (option R) :=
  map (fun pk => newton1 (fst pk) (snd pk)) (combine ps ks).
Definition ok_all (tol : R) (ps : list (R * depth)) (ks : list (option R)) : bool :=
  forallb (fun pk => ok1 tol (fst pk) (snd pk)) (combine ps ks).

(* the loop: one Newton step for every point, then np.all(relative error < tolerance) *)
Fixpoint newton (fuel : nat) (tol : R) (ps : list (R * depth)) (ks : list (option R)) : status :=
  match fuel with
  | O => MaxIter ks
  | S fu =>
      let ks' := step_all ps ks in
      if ok_all tol ps ks' then Converged ks' else newton fu tol ps ks'
  end.

Definition tolerance : R := 1 / 1000.
Definition kinv (ps : list (R * depth)) : status :=
  newton 10 tolerance ps (map first_guess ps).

Definition status_values (s : status) : list (option R) :=
  match s with Converged ks => ks | MaxIter ks => ks end.

(* ---------- peak_wavenumber: default band, radian frequency at the peak, batch solver ---------- *)
Definition peak_w (f : list R) (e : list (option R)) : option R :=
  option_map (fun k => freq_at f k * 2 * PI) (peak_index 0 None f e).

Fixpoint all_some {A : Type} (l : list (option A)) : option (list A) :=
  match l with
  | [] => Some []
  | None :: _ => None
  | Some a :: t => match all_some t with Some r => Some (a :: r) | None => None end
  end.

Definition peak_wavenumber (f : list R) (b : list (list (option R) * rawdepth)) : option status :=
  match all_some (map (fun p => peak_w f (fst p)) b) with
  | None => None
  | Some ws => Some (kinv (combine ws (map (fun p => depth_of (snd p)) b)))
  end.
