(* Model of the periodic parts of the interpolation code (C14):
     interpolate/nd_interp.py NdInterpolator._periodic_data_interpolator
     interpolate/general.py   interpolate_periodic   (dataframe.py, geometry.Track.interpolate)
   The periodic branches of enclosing_points_1d / interpolation_weights_1d are the
   [Some P] cases of [enclosing] / [frac] in Model/Interp.v (the code shares them).
   DEFINITIONS ONLY. *)
From Coq Require Import Reals ZArith List Arith.
From OSU.Lib Require Import InterpAuxDefs.
From OSU.Model Require Import Interp.
Import ListNotations.
Open Scope R_scope.

(* ---------------------------------------------------------------------------------- *)
(* _periodic_data_interpolator                                                        *)
(* ---------------------------------------------------------------------------------- *)

(* mask = all(~isnan(exp(1j*val*to_rad)), axis=passive)  -- NO weight > 0 test here *)
Definition pmask (c : corner) : bool := all_some (cvals c).

(* weights_sum += weight  (a NaN weight poisons the sum) *)
Definition pwsum (cs : list corner) : option R :=
  fold_left (fun acc c => if pmask c then oadd acc (cw c) else acc) cs (Some 0).

(* to_rad = np.pi * 2 / period ;  val = exp(1j * data * to_rad) *)
Definition to_rad (P : R) : R := PI * 2 / P.

Definition pre (cs : list corner) (j : nat) (P : R) : option R :=
  fold_left (fun acc c => if pmask c
                          then oadd acc (omul (cw c) (Some (cos (oget (cvals c) j * to_rad P))))
                          else acc) cs (Some 0).
Definition pim (cs : list corner) (j : nat) (P : R) : option R :=
  fold_left (fun acc c => if pmask c
                          then oadd acc (omul (cw c) (Some (sin (oget (cvals c) j * to_rad P))))
                          else acc) cs (Some 0).

(* the normalised mean vector  interp_val / weights_sum  where weights_sum > 0.5 *)
Definition periodic_vec (cs : list corner) (j : nat) (P : R) : option (R * R) :=
  match pwsum cs, pre cs j P, pim cs j P with
  | Some ws, Some re, Some im =>
      if Rgt_dec ws (1 / 2) then Some (re / ws, im / ws) else None
  | _, _, _ => None
  end.

(* np.angle(v) * period / np.pi / 2, then wrapped_difference(., period, discont=period) *)
Definition angle_of (v : R * R) (P : R) : R :=
  wrapdiff (atan2 (snd v) (fst v) * P / PI / 2) P P.

Definition interp_corners_periodic (cs : list corner) (np : nat) (P : R) : list (option R) :=
  map (fun j => option_map (fun v => angle_of v P) (periodic_vec cs j P)) (seq 0 np).

(* along one axis (dataset variables such as *direction*, longitude) *)
Definition interp_axis1_pd (xp : list R) (rows : list (list (option R))) (x : R)
           (period : option R) (nearest : bool) (np : nat) (P : R) : list (option R) :=
  interp_corners_periodic (axis_corners xp rows x period nearest) np P.

(* magnitude information for a condition-aware comparison (complex64 accumulation) *)
Definition interp_axis1_pd_vec (xp : list R) (rows : list (list (option R))) (x : R)
           (period : option R) (nearest : bool) (np : nat) (P : R) : list (option (R * R)) :=
  map (fun j => periodic_vec (axis_corners xp rows x period nearest) j P) (seq 0 np).

(* N axes at a point (interpolate_track_data_arrray with period_data) *)
Definition interp_nd_pd (grids : list (list R)) (periods : list (option R))
           (data : list (option R)) (pt : list R) (nearest : bool) (P : R) : option R :=
  nth 0 (interp_corners_periodic (nd_corner_list grids periods data pt nearest) 1 P) None.

Definition interp_nd_pd_vec (grids : list (list R)) (periods : list (option R))
           (data : list (option R)) (pt : list R) (nearest : bool) (P : R) : option (R * R) :=
  periodic_vec (nd_corner_list grids periods data pt nearest) 0 P.

(* ---------------------------------------------------------------------------------- *)
(* interpolate_periodic(xp, fp, x, x_period, fp_period, fp_discont, left, right)      *)
(* ---------------------------------------------------------------------------------- *)

(* wrapped_difference on data that may be NaN: output stays NaN where delta is not finite *)
Definition owd (delta : option R) (period : option R) (disc : option R) : option R :=
  match delta with
  | None => None
  | Some d =>
      match period with
      | None => Some d
      | Some P => Some (wrapdiff d P (match disc with Some c => c | None => P / 2 end))
      end
  end.

Definition onth (l : list (option R)) (i : nat) : option R := nth i l None.

Definition interp_periodic (xp : list R) (fp : list (option R)) (x : R)
           (xper fper fdisc : option R) (left right : option R) : option R :=
  let ii := enclosing xp x xper in
  let dx := wd (x - rnth xp (fst ii)) xper in
  let dxp := wd (rnth xp (snd ii) - rnth xp (fst ii)) xper in
  let dfp := owd (osub (onth fp (snd ii)) (onth fp (fst ii))) fper None in
  let fp0 := onth fp (fst ii) in
  (* fp0 + delta_fp * delta_x / delta_xp *)
  let lin := oadd fp0 (odiv (omul dfp (Some dx)) (Some dxp)) in
  let v :=
    match xper with
    | Some _ => lin
    | None =>
        let v0 := if Rgt_dec dxp 0 then lin else fp0 in       (* constant outside *)
        let v1 := if Rlt_dec x (hd0 xp) then left else v0 in   (* np.where(x < xp[0], left, .) *)
        if Rgt_dec x (last0 xp) then right else v1             (* np.where(x > xp[-1], right, .) *)
    end in
  owd v fper fdisc.
