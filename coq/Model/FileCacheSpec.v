(* The abstract specification of the cache: a list of (name, content) in recency order (least
   recently used first) with a capacity in bytes.  DEFINITIONS ONLY.  Short enough to read in
   a minute; Proofs/FileCacheRefine.v shows that the concrete machine of Model/FileCache.v
   implements it for fault-free requests. *)
From Coq Require Import ZArith List Bool Arith Lia.
From OSU.Model Require Import FileCache.
Import ListNotations.
Open Scope Z_scope.

Definition acache := list (name * content).

Definition anames (a : acache) : list name := map fst a.

Definition asize (a : acache) : Z := fold_right (fun p acc => csize (snd p) + acc) 0 a.

Fixpoint afind (a : acache) (n : name) : option content :=
  match a with
  | [] => None
  | (m, c) :: a' => if name_eqb m n then Some c else afind a' n
  end.

Definition aremove (a : acache) (n : name) : acache :=
  filter (fun p => negb (name_eqb (fst p) n)) a.

(* a use moves the entry to the most-recently-used end *)
Definition ause (a : acache) (n : name) : acache :=
  match afind a n with
  | Some c => aremove a n ++ [(n, c)]
  | None => a
  end.

(* a fetched file becomes the most recently used entry *)
Definition aadd (a : acache) (n : name) (c : content) : acache := aremove a n ++ [(n, c)].

(* evict least-recently-used entries while the total exceeds the capacity *)
Fixpoint adrop (fuel : nat) (cap : Z) (a : acache) : acache :=
  match fuel with
  | O => a
  | S fuel' => if asize a >? cap then match a with [] => [] | _ :: a' => adrop fuel' cap a' end else a
  end.

Record aspec := mkaspec { amap : acache; acap : Z }.

(* what a fault-free resource delivers for a request *)
Definition delivered (q : req) : content :=
  match q_out q with
  | DOk v => match q_post q with Some true => Post (q_res q) v | _ => Full (q_res q) v end
  | _ => Blob 0
  end.

Definition is_hit (a : acache) (q : req) : bool := mem (q_name q) (anames a).

Definition asize_of (a : acache) (l : list name) : Z :=
  fold_right (fun n acc => match afind a n with Some c => csize c | None => 0 end + acc) 0 l.

(* the abstract request: hits are used in request order, then misses are fetched in request
   order; the capacity grows when the request alone exceeds it; if anything was fetched, the
   least recently used entries are evicted until the total fits *)
Definition aget (A : aspec) (l : list req) : aspec * list name :=
  let hits := filter (is_hit (amap A)) l in
  let misses := filter (fun q => negb (is_hit (amap A) q)) l in
  let a1 := fold_left (fun a q => ause a (q_name q)) hits (amap A) in
  let a2 := fold_left (fun a q => aadd a (q_name q) (delivered q)) misses a1 in
  let requested := asize_of a2 (map q_name l) in
  let cap' := if requested >? acap A then requested + MEGABYTE else acap A in
  let a3 := match misses with [] => a2 | _ => adrop (length a2) cap' a2 end in
  (mkaspec a3 cap', map q_name l).

Definition aremove_op (A : aspec) (n : name) : aspec := mkaspec (aremove (amap A) n) (acap A).
Definition apurge (A : aspec) : aspec := mkaspec [] (acap A).
