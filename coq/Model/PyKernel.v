(* A small deep embedding of the Python/numpy subset used by the integer/rational array kernels
   of tools/time_integration.py, with an interpreter over exact rationals.  DEFINITIONS ONLY.
   harness/translate_kernel.py turns the Python AST of the anchored functions into terms of this
   language on every run (coq/Generated/StencilProg.v); theorems are then stated about
   [call_fun prog "integration_stencil" ...], i.e. about what the current source says. *)
From Coq Require Import QArith ZArith List String Bool.
Import ListNotations.
Open Scope Q_scope.

Inductive binop := BAdd | BSub | BMul | BDiv | BPow.

Inductive expr :=
| EInt (z : Z)
| EVar (x : string)
| EBin (o : binop) (a b : expr)
| ENeg (a : expr)
| EIdx (a : expr) (i : expr)                  (* a[i] *)
| ESlice (a : expr) (lo hi : expr)            (* a[lo:hi] (a copy) *)
| ELen (a : expr)                             (* len(a) *)
| EZeros (n : expr)                           (* np.zeros(n) *)
| ECall (f : string) (args : list expr).      (* a function of the same module *)

Inductive cond :=
| CEq (a b : expr) | CNe (a b : expr) | CLt (a b : expr) | CLe (a b : expr) | CGt (a b : expr) | CGe (a b : expr).

Inductive stmt :=
| SAssign (x : string) (e : expr)             (* x = e *)
| SAug (x : string) (o : binop) (e : expr)    (* x op= e *)
| SIdxAssign (x : string) (i : expr) (e : expr)             (* x[i] = e *)
| SIdxAug (x : string) (i : expr) (o : binop) (e : expr)    (* x[i] op= e *)
| SSliceAssign (x : string) (lo hi : expr) (e : expr)       (* x[lo:hi] = e *)
| SSliceAug (x : string) (lo hi : expr) (o : binop) (e : expr)  (* x[lo:hi] op= e (rhs evaluated first) *)
| SFor (x : string) (lo hi : expr) (body : list stmt)       (* for x in range(lo, hi) *)
| SIf (c : cond) (thn els : list stmt)
| SContinue
| SReturn (e : expr).

Record fundef := mkfun { f_name : string; f_params : list string; f_body : list stmt }.
Definition program := list fundef.

Inductive value := VNum (q : Q) | VArr (l : list Q).

Definition env := list (string * value).

Fixpoint lookup (r : env) (x : string) : option value :=
  match r with
  | [] => None
  | (y, v) :: r' => if String.eqb x y then Some v else lookup r' x
  end.

Definition bind (r : env) (x : string) (v : value) : env := (x, v) :: r.

Fixpoint find_fun (p : program) (f : string) : option fundef :=
  match p with
  | [] => None
  | d :: p' => if String.eqb f (f_name d) then Some d else find_fun p' f
  end.

(* a rational that is an integer *)
Definition as_int (q : Q) : option Z :=
  let r := Qred q in if Pos.eqb (Qden r) 1 then Some (Qnum r) else None.

Definition as_index (q : Q) : option nat :=
  match as_int q with Some z => if (0 <=? z)%Z then Some (Z.to_nat z) else None | None => None end.

Fixpoint qpowN (q : Q) (k : nat) : Q := match k with O => 1 | S k' => q * qpowN q k' end.

Definition is_zero (q : Q) : bool := Qeq_bool q 0.

Definition arith (o : binop) (a b : Q) : option Q :=
  match o with
  | BAdd => Some (a + b)
  | BSub => Some (a - b)
  | BMul => Some (a * b)
  | BDiv => if is_zero b then None else Some (a / b)
  | BPow => match as_index b with Some k => Some (qpowN a k) | None => None end   (* non-negative integer powers *)
  end.

Fixpoint map_opt {A B} (f : A -> option B) (l : list A) : option (list B) :=
  match l with
  | [] => Some []
  | a :: l' => match f a, map_opt f l' with Some b, Some bs => Some (b :: bs) | _, _ => None end
  end.

Fixpoint zip_opt (f : Q -> Q -> option Q) (l1 l2 : list Q) : option (list Q) :=
  match l1, l2 with
  | [], [] => Some []
  | a :: l1', b :: l2' => match f a b, zip_opt f l1' l2' with Some c, Some cs => Some (c :: cs) | _, _ => None end
  | _, _ => None                                   (* numpy would raise on a shape mismatch *)
  end.

(* numpy broadcasting of a binary operation between scalars and 1-d arrays *)
Definition vbin (o : binop) (a b : value) : option value :=
  match a, b with
  | VNum x, VNum y => option_map VNum (arith o x y)
  | VNum x, VArr l => option_map VArr (map_opt (fun y => arith o x y) l)
  | VArr l, VNum y => option_map VArr (map_opt (fun x => arith o x y) l)
  | VArr l1, VArr l2 => option_map VArr (zip_opt (arith o) l1 l2)
  end.

Fixpoint set_nth (l : list Q) (i : nat) (q : Q) : option (list Q) :=
  match l, i with
  | [], _ => None
  | _ :: l', O => Some (q :: l')
  | a :: l', S i' => option_map (cons a) (set_nth l' i' q)
  end.

(* a[lo:hi] with 0 <= lo <= hi (clipped to the length as Python does) *)
Definition slice (l : list Q) (lo hi : nat) : list Q := firstn (hi - lo) (skipn lo l).

(* l[lo:hi] = src : numpy requires len(src) = length of the slice *)
Definition set_slice (l : list Q) (lo hi : nat) (src : list Q) : option (list Q) :=
  let hi' := Nat.min hi (List.length l) in
  let lo' := Nat.min lo hi' in
  if Nat.eqb (List.length src) (hi' - lo') then Some (firstn lo' l ++ src ++ skipn hi' l) else None.

Inductive outcome :=
| Normal (r : env)
| Continued (r : env)
| Returned (v : value)
| Failed.

Definition zrange (lo hi : Z) : list Z := map (fun k => (lo + Z.of_nat k)%Z) (seq 0 (Z.to_nat (hi - lo))).

(* The interpreter.  [fuel] bounds the nesting depth (AST depth + call depth), not the number
   of steps: every recursive call is on fuel' and loops iterate with a fold. *)
Fixpoint eval (p : program) (fuel : nat) (r : env) (e : expr) {struct fuel} : option value :=
  match fuel with
  | O => None
  | S fuel' =>
      let ev := eval p fuel' r in
      let scalar e' := match ev e' with Some (VNum q) => Some q | _ => None end in
      let index e' := match scalar e' with Some q => as_index q | None => None end in
      match e with
      | EInt z => Some (VNum (inject_Z z))
      | EVar x => lookup r x
      | EBin o a b => match ev a, ev b with Some va, Some vb => vbin o va vb | _, _ => None end
      | ENeg a => match ev a with
                  | Some (VNum q) => Some (VNum (- q))
                  | Some (VArr l) => Some (VArr (map Qopp l))
                  | None => None
                  end
      | EIdx a i => match ev a, index i with
                    | Some (VArr l), Some k => option_map VNum (nth_error l k)
                    | _, _ => None
                    end
      | ESlice a lo hi => match ev a, index lo, index hi with
                          | Some (VArr l), Some k1, Some k2 => Some (VArr (slice l k1 k2))
                          | _, _, _ => None
                          end
      | ELen a => match ev a with Some (VArr l) => Some (VNum (inject_Z (Z.of_nat (List.length l)))) | _ => None end
      | EZeros n => match index n with Some k => Some (VArr (repeat 0 k)) | None => None end
      | ECall f args =>
          match find_fun p f, map_opt ev args with
          | Some d, Some vs =>
              if Nat.eqb (List.length vs) (List.length (f_params d)) then
                match exec_block p fuel' (combine (f_params d) vs) (f_body d) with
                | Returned v => Some v
                | _ => None
                end
              else None
          | _, _ => None
          end
      end
  end

with exec_block (p : program) (fuel : nat) (r : env) (b : list stmt) {struct fuel} : outcome :=
  match fuel with
  | O => Failed
  | S fuel' =>
      match b with
      | [] => Normal r
      | s :: b' =>
          match exec_stmt p fuel' r s with
          | Normal r' => exec_block p fuel' r' b'
          | o => o
          end
      end
  end

with exec_stmt (p : program) (fuel : nat) (r : env) (s : stmt) {struct fuel} : outcome :=
  match fuel with
  | O => Failed
  | S fuel' =>
      let ev := eval p fuel' r in
      let scalar e' := match ev e' with Some (VNum q) => Some q | _ => None end in
      let index e' := match scalar e' with Some q => as_index q | None => None end in
      let zint e' := match scalar e' with Some q => as_int q | None => None end in
      match s with
      | SAssign x e => match ev e with Some v => Normal (bind r x v) | None => Failed end
      | SAug x o e => match lookup r x, ev e with
                      | Some vx, Some ve => match vbin o vx ve with Some v => Normal (bind r x v) | None => Failed end
                      | _, _ => Failed
                      end
      | SIdxAssign x i e =>
          match lookup r x, index i, scalar e with
          | Some (VArr l), Some k, Some q =>
              match set_nth l k q with Some l' => Normal (bind r x (VArr l')) | None => Failed end
          | _, _, _ => Failed
          end
      | SIdxAug x i o e =>
          match lookup r x, index i, scalar e with
          | Some (VArr l), Some k, Some q =>
              match nth_error l k with
              | Some old => match arith o old q with
                            | Some nw => match set_nth l k nw with Some l' => Normal (bind r x (VArr l')) | None => Failed end
                            | None => Failed
                            end
              | None => Failed
              end
          | _, _, _ => Failed
          end
      | SSliceAssign x lo hi e =>
          match lookup r x, index lo, index hi, ev e with
          | Some (VArr l), Some k1, Some k2, Some (VArr src) =>
              match set_slice l k1 k2 src with Some l' => Normal (bind r x (VArr l')) | None => Failed end
          | _, _, _, _ => Failed
          end
      | SSliceAug x lo hi o e =>
          match lookup r x, index lo, index hi, ev e with
          | Some (VArr l), Some k1, Some k2, Some ve =>
              match vbin o (VArr (slice l k1 k2)) ve with
              | Some (VArr nw) => match set_slice l k1 k2 nw with Some l' => Normal (bind r x (VArr l')) | None => Failed end
              | _ => Failed
              end
          | _, _, _, _ => Failed
          end
      | SFor x lo hi body =>
          match zint lo, zint hi with
          | Some zlo, Some zhi =>
              fold_left (fun acc k =>
                           match acc with
                           | Normal r0 | Continued r0 =>
                               match exec_block p fuel' (bind r0 x (VNum (inject_Z k))) body with
                               | Continued r1 => Normal r1
                               | o => o
                               end
                           | o => o
                           end)
                        (zrange zlo zhi) (Normal r)
          | _, _ => Failed
          end
      | SIf c thn els =>
          let cmp a b := match scalar a, scalar b with
                         | Some x, Some y => Some (Qcompare x y)
                         | _, _ => None
                         end in
          let test := match c with
                      | CEq a b => option_map (fun o => match o with Eq => true | _ => false end) (cmp a b)
                      | CNe a b => option_map (fun o => match o with Eq => false | _ => true end) (cmp a b)
                      | CLt a b => option_map (fun o => match o with Lt => true | _ => false end) (cmp a b)
                      | CLe a b => option_map (fun o => match o with Gt => false | _ => true end) (cmp a b)
                      | CGt a b => option_map (fun o => match o with Gt => true | _ => false end) (cmp a b)
                      | CGe a b => option_map (fun o => match o with Lt => false | _ => true end) (cmp a b)
                      end in
          match test with
          | Some true => exec_block p fuel' r thn
          | Some false => exec_block p fuel' r els
          | None => Failed
          end
      | SContinue => Continued r
      | SReturn e => match ev e with Some v => Returned v | None => Failed end
      end
  end.

Definition FUEL : nat := 60.

(* call a function of the program with integer arguments, expecting an array *)
Definition call_arr (p : program) (f : string) (args : list Z) : option (list Q) :=
  match eval p FUEL [] (ECall f (map EInt args)) with
  | Some (VArr l) => Some l
  | _ => None
  end.
