(* Model of wavespectra/timeseries.py (surface_timeseries, create_fourier_amplitudes), of
   WaveSpectrum.frequency_step / FrequencyDirectionSpectrum.direction_step and of the linear
   resampling of the spectrum to the FFT bins (interpolate_frequency; NaN outside the grid -> 0).
   numpy's random phases are INPUTS of the model.  DEFINITIONS ONLY. *)
From Coq Require Import Reals List Arith.
From OSU.Model Require Import WindEstimate.     (* fmod, wrap180, dsteps, diffs, rad, sumR, meanR *)
Import ListNotations.
Open Scope R_scope.

(* nfft = (int(signal_length) // 2) * 2 *)
Definition nfft (n : nat) : nat := (2 * (n / 2))%nat.

(* s, s+1, ..., s+n-1 as reals *)
Fixpoint iotaR (n : nat) (s : R) : list R :=
  match n with O => [] | S k => s :: iotaR k (s + 1) end.

(* np.linspace(0, 0.5*fs, M, endpoint=False) = arange(M) * ((0.5*fs)/M) *)
Definition fft_freqs (fs : R) (n : nat) : list R :=
  let M := (nfft n / 2)%nat in map (fun k => k * (1 / 2 * fs / INR M)) (iotaR M 0).

(* np.linspace(0, nfft/fs, nfft, endpoint=False) *)
Definition time_axis (fs : R) (n : nat) : list R :=
  let N := nfft n in map (fun i => i * (INR N / fs / INR N)) (iotaR N 0).

(* frequency_step: prepend 2f0-f1, append 2f_last - f_last-1, diff, average of neighbours *)
Fixpoint pairavg (d : list R) : list R :=
  match d with
  | a :: ((b :: _) as t) => (a * (1 / 2) + b * (1 / 2)) :: pairavg t
  | _ => []
  end.

Definition frequency_step (f : list R) : list R :=
  match f with
  | f0 :: f1 :: _ =>
      let fl := last f 0 in
      let fl1 := nth (length f - 2) f 0 in
      pairavg (diffs ((2 * f0 - f1) :: f ++ [2 * fl - fl1]))
  | _ => []
  end.

(* ------------------------------------------------------------------ *)
(* linear resampling, extrapolation value 0                             *)
(* ------------------------------------------------------------------ *)
(* np.searchsorted(xp, x, side="right") on an ascending grid *)
Fixpoint count_le (xp : list R) (x : R) : nat :=
  match xp with
  | [] => O
  | a :: t => if Rle_dec a x then S (count_le t x) else O
  end.

Definition interp0 (xp fp : list R) (x : R) : R :=
  let x0 := hd 0 xp in
  let xl := last xp 0 in
  if Rlt_dec x x0 then 0                     (* NaN weight -> NaN -> fillna(0) *)
  else if Rlt_dec xl x then 0
  else if Req_EM_T x xl then last fp 0       (* frac = 0 at the right end point *)
  else
    let i1 := count_le xp x in
    let i0 := (i1 - 1)%nat in
    let frac := (x - nth i0 xp 0) / (nth i1 xp 0 - nth i0 xp 0) in
    (1 - frac) * nth i0 fp 0 + frac * nth i1 fp 0.

(* ------------------------------------------------------------------ *)
(* Fourier amplitudes                                                    *)
(* ------------------------------------------------------------------ *)
Inductive component := CU | CV | CW | CX | CY | CZ.

(* transfer factor as (real part, imaginary part); w = radian frequency, th = radian direction *)
Definition factor (c : component) (w th : R) : R * R :=
  match c with
  | CW => (0, w)                        (*  1j * w          *)
  | CU => (w * cos th, 0)
  | CV => (w * sin th, 0)
  | CX => (0, - cos th)                 (* -1j * cos th     *)
  | CY => (0, - sin th)
  | CZ => (1, 0)
  end.

Definition factor_abs2 (c : component) (w th : R) : R :=
  let '(a, b) := factor c w th in a * a + b * b.

(* sqrt(area*E/2) * exp(1j*phase) * factor *)
Definition amp (c : component) (area e phase w th : R) : R * R :=
  let a := sqrt (area * e / 2) in
  let '(fr, fi) := factor c w th in
  (a * cos phase * fr - a * sin phase * fi, a * sin phase * fr + a * cos phase * fi).

Definition cadd (x y : R * R) : R * R := (fst x + fst y, snd x + snd y).

(* one direction column: (direction in degrees, direction step, E at the original frequencies) *)
Definition column := (R * R * list R)%type.

(* amplitude of FFT bin k (frequency f, step df): sum over the direction columns *)
Fixpoint bin_amp (c : component) (xp : list R) (f df : R) (cols : list column) (phases : list R) : R * R :=
  match cols, phases with
  | (th, dth, e) :: cols', ph :: phases' =>
      cadd (amp c (df * dth) (interp0 xp e f) ph (2 * PI * f) (rad th))
           (bin_amp c xp f df cols' phases')
  | _, _ => (0, 0)
  end.

Fixpoint amplitudes (c : component) (xp : list R) (fgrid dfs : list R) (cols : list column)
  (phases : list (list R)) : list (R * R) :=
  match fgrid, dfs, phases with
  | f :: fg', df :: dfs', ph :: phs' =>
      bin_amp c xp f df cols ph :: amplitudes c xp fg' dfs' cols phs'
  | _, _, _ => []
  end.

(* ------------------------------------------------------------------ *)
(* nfft * irfft(X, n = nfft) as its defining real sum.  X has nfft/2 entries: the imaginary part of X_0
   is ignored and the Nyquist coefficient is the zero padding of irfft.                               *)
(* ------------------------------------------------------------------ *)
Fixpoint harm (X : list (R * R)) (k w : R) : R :=
  match X with
  | [] => 0
  | (re, im) :: t => (re * cos (k * w) - im * sin (k * w)) + harm t (k + 1) w
  end.

Definition sample (N : nat) (X : list (R * R)) (tn : R) : R :=
  match X with
  | [] => 0
  | (re0, _) :: rest => re0 + 2 * harm rest 1 (2 * PI * tn / INR N)
  end.

Definition series_of (N : nat) (X : list (R * R)) : list R := map (sample N X) (iotaR N 0).

(* ------------------------------------------------------------------ *)
(* surface_timeseries                                                    *)
(* ------------------------------------------------------------------ *)
(* a 1D spectrum is one column with factor direction 0 and no direction step *)
Definition cols1d (e : list R) : list column := [(0, 1, e)].

(* 2D: direction_step from the direction grid *)
Definition cols2d (dirs : list R) (ecols : list (list R)) : list column :=
  combine (combine dirs (dsteps dirs)) ecols.

Definition spectrum_amplitudes (c : component) (fs : R) (n : nat) (xp : list R) (cols : list column)
  (phases : list (list R)) : list (R * R) :=
  let fg := fft_freqs fs n in
  amplitudes c xp fg (frequency_step fg) cols phases.

(* None = the code raises (fewer than two FFT bins: frequency_step indexes frequency[1]) *)
Definition surface_timeseries (c : component) (fs : R) (n : nat) (xp : list R) (cols : list column)
  (phases : list (list R)) : option (list R * list R) :=
  if Nat.ltb (nfft n / 2) 2 then None
  else Some (time_axis fs n, series_of (nfft n) (spectrum_amplitudes c fs n xp cols phases)).

(* population variance (np.var) *)
Definition variance (l : list R) : R := meanR (map (fun x => (x - meanR l) * (x - meanR l)) l).

(* the resampled spectrum and its bin areas, for the variance statement *)
Definition resampled (xp e : list R) (fg : list R) : list R := map (interp0 xp e) fg.
