(* Model of wavephysics/windestimate.py (friction_velocity, estimate_u10_from_spectrum,
   equilibrium_range_values), wavephysics/roughness.py (charnock_roughness_length) and of the
   1D reduction of a 2D spectrum (FrequencyDirectionSpectrum.e / a1 / b1, direction_step).
   DEFINITIONS ONLY.  A float that may be NaN is [option R] (None = NaN). *)
From Coq Require Import Reals List Arith ZArith.
Import ListNotations.
Open Scope R_scope.

(* ------------------------------------------------------------------ *)
(* scalar helpers                                                       *)
(* ------------------------------------------------------------------ *)

(* numpy x ** p for x >= 0, p > 0 *)
Definition powr (x p : R) : R := if Req_EM_T x 0 then 0 else Rpower x p.

(* numpy / Python  x % p  for p > 0 *)
Definition fmod (x p : R) : R := x - IZR (Int_part (x / p)) * p.

(* numpy arctan2(y, x), by quadrant from atan *)
Definition atan2 (y x : R) : R :=
  if Rlt_dec 0 x then atan (y / x)
  else if Rlt_dec x 0 then (if Rle_dec 0 y then atan (y / x) + PI else atan (y / x) - PI)
  else if Rlt_dec 0 y then PI / 2
  else if Rlt_dec y 0 then - (PI / 2)
  else 0.

Definition fill0 (o : option R) : R := match o with Some x => x | None => 0 end.
Definition omul (o : option R) (c : R) : option R :=
  match o with Some x => Some (x * c) | None => None end.
Definition oadd (a b : option R) : option R :=
  match a, b with Some x, Some y => Some (x + y) | _, _ => None end.
Definition osum (l : list (option R)) : option R := fold_right oadd (Some 0) l.
Definition onth (l : list (option R)) (i : nat) : option R := nth i l None.

Fixpoint sumR (l : list R) : R := match l with [] => 0 | x :: t => x + sumR t end.
Definition meanR (l : list R) : R := sumR l / INR (length l).

(* values that are present (skipna) *)
Fixpoint present (l : list (option R)) : list R :=
  match l with
  | [] => []
  | Some x :: t => x :: present t
  | None :: t => present t
  end.

(* ------------------------------------------------------------------ *)
(* E(f) * f ** power                                                    *)
(* ------------------------------------------------------------------ *)
Fixpoint scaled (p : R) (fs : list R) (es : list (option R)) : list (option R) :=
  match fs, es with
  | f :: fs', e :: es' => omul e (powr f p) :: scaled p fs' es'
  | _, _ => []
  end.

(* numpy argmax / argmin on finite data: the FIRST extremum *)
Fixpoint argmax (l : list R) : nat :=
  match l with
  | [] => O
  | x :: t => match t with
              | [] => O
              | _ => let j := argmax t in if Rlt_dec x (nth j t 0) then S j else O
              end
  end.

Fixpoint argminR (l : list R) : nat :=
  match l with
  | [] => O
  | x :: t => match t with
              | [] => O
              | _ => let j := argminR t in if Rlt_dec (nth j t 0) x then S j else O
              end
  end.

(* ------------------------------------------------------------------ *)
(* peak method                                                          *)
(* ------------------------------------------------------------------ *)
Definition eq_peak (p : R) (fs : list R) (es a1s b1s : list (option R))
  : option R * option R * option R :=
  let sc := map fill0 (scaled p fs es) in        (* .fillna(0) *)
  let i := argmax sc in
  (Some (nth i sc 0), onth a1s i, onth b1s i).

(* ------------------------------------------------------------------ *)
(* mean method: minimum relative variance over windows of nb bins        *)
(* ------------------------------------------------------------------ *)
(* a float that may be NaN or +inf *)
Inductive V := VNaN | VInf | VFin (r : R).

(* xarray .mean(dim) skips NaN; an all-NaN window has mean NaN *)
Definition window_var (w : list (option R)) : V :=
  match present w with
  | [] => VNaN
  | xs => let m := meanR xs in
          let s := meanR (map (fun x => (x - m) * (x - m)) xs) in
          if Req_EM_T m 0 then (if Req_EM_T s 0 then VNaN else VInf)
          else VFin (s / (m * m))
  end.

(* strict "a < b" for non-NaN values *)
Definition vlt (a b : V) : bool :=
  match a, b with
  | VFin r, VFin s => if Rlt_dec r s then true else false
  | VFin _, VInf => true
  | _, _ => false
  end.
Definition visnan (a : V) : bool := match a with VNaN => true | _ => false end.

(* np.argmin: the first NaN if there is one, otherwise the first minimum *)
Fixpoint argminV (l : list V) : nat :=
  match l with
  | [] => O
  | x :: t => match t with
              | [] => O
              | _ => let j := argminV t in
                     let b := nth j t VNaN in
                     if visnan x then O
                     else if visnan b then S j
                     else if vlt b x then S j else O
              end
  end.

Definition window (nb : nat) (sc : list (option R)) (i : nat) : list (option R) :=
  firstn nb (skipn i sc).

(* i_min, i_max of the code (fmin = 0) *)
Definition i_min_of (fs : list R) : nat := argminR (map (fun f => Rabs (f - 0)) fs).
Definition i_max_of (fs : list R) (fmax : R) (nb : nat) : nat :=
  let i_fmax := argminR (map (fun f => Rabs (f - fmax)) fs) in
  Nat.min (Nat.max (i_min_of fs + 1) (i_fmax + 1 - nb)) (length fs - nb).

(* index of ii-th bin of the selected window: np.clip(k + ii, 0, nf - 1 - nb) *)
Definition clipidx (nf nb k ii : nat) : nat := Nat.min (k + ii) (nf - 1 - nb).

Definition avg_clipped (nf nb k : nat) (l : list (option R)) : option R :=
  omul (osum (map (fun ii => onth l (clipidx nf nb k ii)) (seq 0 nb))) (1 / INR nb).

Definition variances (nb : nat) (sc : list (option R)) (imin imax : nat) : list V :=
  map (fun i => window_var (window nb sc i)) (seq imin (imax - imin)).

(* None = the code raises (empty / negative window range) *)
Definition eq_mean (p fmax : R) (nb : nat) (fs : list R) (es a1s b1s : list (option R))
  : option (option R * option R * option R) :=
  let sc := scaled p fs es in
  let nf := length fs in
  let imin := i_min_of fs in
  let imax := i_max_of fs fmax nb in
  if Nat.leb imax imin then None
  else
    let k := (argminV (variances nb sc imin imax) + imin)%nat in
    Some (avg_clipped nf nb k sc, avg_clipped nf nb k a1s, avg_clipped nf nb k b1s).

(* ------------------------------------------------------------------ *)
(* friction velocity, direction, roughness, log law                     *)
(* ------------------------------------------------------------------ *)
Definition ustar_of (g I beta e : R) : R := 8 * (PI * PI * PI) * e / g / I / beta / 4.

Definition dir_of (a1 b1 : R) : R := fmod (180 / PI * atan2 b1 a1) 360.

Definition odir (a1 b1 : option R) : option R :=
  match a1, b1 with Some a, Some b => Some (dir_of a b) | _, _ => None end.

(* (270 - d) % 360 *)
Definition convention (d : R) : R := fmod (270 - d) 360.

(* charnock_roughness_length *)
Definition charnock_z0 (alpha gc visc nu u : R) : R :=
  alpha * (u * u) / gc + (if Rlt_dec 0 u then visc * nu / u else 0).

(* u / kappa * log(10 / z0); z0 <= 0 gives NaN (0 * inf, or log of a negative number) *)
Definition u10_of (kappa z0 u : R) : option R :=
  if Rlt_dec 0 z0 then Some (u / kappa * ln (10 / z0)) else None.

Record params := mkparams {
  p_power : R; p_fmax : R; p_I : R; p_beta : R; p_kappa : R; p_grav : R; p_nb : nat;
  p_alpha : R; p_gc : R; p_visc : R; p_nu : R }.

Inductive method := Peak | Mean.

Definition eq_values (m : method) (P : params) (fs : list R) (es a1s b1s : list (option R)) :=
  match m with
  | Peak => Some (eq_peak (p_power P) fs es a1s b1s)
  | Mean => eq_mean (p_power P) (p_fmax P) (p_nb P) fs es a1s b1s
  end.

Definition obind {A B} (o : option A) (f : A -> option B) : option B :=
  match o with Some x => f x | None => None end.

(* result for one spectrum: (friction velocity, direction, u10) *)
Definition finish (coming_from : bool) (P : params) (v : option R * option R * option R)
  : option R * option R * option R :=
  let '(e, a1, b1) := v in
  let us := option_map (ustar_of (p_grav P) (p_I P) (p_beta P)) e in
  let d := odir a1 b1 in
  let d' := if coming_from then option_map convention d else d in
  let u10 := obind us (fun u =>
               u10_of (p_kappa P) (charnock_z0 (p_alpha P) (p_gc P) (p_visc P) (p_nu P) u) u) in
  (us, d', u10).

Definition estimate1d (m : method) (coming_from : bool) (P : params)
  (fs : list R) (es a1s b1s : list (option R)) : option (option R * option R * option R) :=
  option_map (finish coming_from P) (eq_values m P fs es a1s b1s).

(* a batch (leading space/time dimensions) shares the frequency grid *)
Definition spec1d := (list (option R) * list (option R) * list (option R))%type.
Definition estimate_batch (m : method) (cf : bool) (P : params) (fs : list R) (b : list spec1d) :=
  map (fun s : spec1d => let '(es, a1s, b1s) := s in estimate1d m cf P fs es a1s b1s) b.

(* ------------------------------------------------------------------ *)
(* 2D -> 1D reduction (as_frequency_spectrum)                           *)
(* ------------------------------------------------------------------ *)
(* wrapped_difference(delta, period=360): (delta + 360 - 180) % 360 - 360 + 180 *)
Definition wrap180 (d : R) : R := fmod (d + 360 - 180) 360 - 360 + 180.

Fixpoint diffs (l : list R) : list R :=
  match l with
  | a :: ((b :: _) as t) => (b - a) :: diffs t
  | _ => []
  end.

(* direction_step: wrapped np.diff(direction, append=direction[0]) *)
Definition dsteps (dirs : list R) : list R :=
  match dirs with [] => [] | d0 :: _ => map wrap180 (diffs (dirs ++ [d0])) end.

(* sum(skipna=True) of  E_j * w_j  *)
Fixpoint wsum_skip (row : list (option R)) (w : list R) : R :=
  match row, w with
  | e :: row', x :: w' => fill0 (omul e x) + wsum_skip row' w'
  | _, _ => 0
  end.

Definition rad (d : R) : R := d * PI / 180.

Definition reduce_row (dirs : list R) (row : list (option R)) : option R * option R * option R :=
  let st := dsteps dirs in
  let e := wsum_skip row st in
  let ca := wsum_skip row (map (fun x => fst x * snd x) (combine (map (fun d => cos (rad d)) dirs) st)) in
  let sa := wsum_skip row (map (fun x => fst x * snd x) (combine (map (fun d => sin (rad d)) dirs) st)) in
  if Req_EM_T e 0 then (Some e, None, None)
  else (Some e, Some (ca / e), Some (sa / e)).

Fixpoint unzip3 (l : list (option R * option R * option R)) : spec1d :=
  match l with
  | [] => ([], [], [])
  | (e, a, b) :: t => let '(es, as_, bs) := unzip3 t in (e :: es, a :: as_, b :: bs)
  end.

Definition reduce2d (dirs : list R) (rows : list (list (option R))) : spec1d :=
  unzip3 (map (reduce_row dirs) rows).

Definition estimate2d (m : method) (cf : bool) (P : params) (fs dirs : list R)
  (rows : list (list (option R))) :=
  let '(es, a1s, b1s) := reduce2d dirs rows in estimate1d m cf P fs es a1s b1s.
