(* Model of the wave-supported stress (stress.py), the WAM tail stress (wam_tail_stress.py) and the
   dissipation-weighted wave direction (dissipation.py).  DEFINITIONS ONLY.

   Anchors:
     stress.py          _wave_supported_stress_point, _total_stress_point, _stress_iteration_function,
                        _tail_supported_stress
     wam_tail_stress.py tail_stress_parametrization_wam, integrate_tail_frequency_distribution,
                        log_dimensionless_critical_height, _charnock_relation_point
     dissipation.py     _bulk_dissipation_direction_point

   The root x0 of log_dimensionless_critical_height found by numba_newton_raphson inside
   integrate_tail_frequency_distribution is an INPUT of the model (the solver is not modelled here;
   it does not depend on any direction). *)
From Coq Require Import Reals List Arith ZArith.
From OSU.Lib Require Import SrcAuxDefs.
From OSU.Model Require Import SourceTerms.
Import ListNotations.
Open Scope R_scope.

(* ------------------------------------------------------------------ *)
(* WAM tail stress                                                      *)
(* ------------------------------------------------------------------ *)
Definition charnock_relation (p : gen_par) (ustar : R) : R :=
  let z := ustar ^ 2 / gp_g p * gp_charnock p in
  match gp_charnock_max p with
  | None => z
  | Some m => if Rgt_dec z m then m else z
  end.

(* log_dimensionless_critical_height(x, charnock, kappa, zalpha) *)
Definition log_crit_height (x ch kappa zalpha : R) : R :=
  ln ch + 2 * x + kappa / (exp x + zalpha).

(* integrate_tail_frequency_distribution with the Newton root x0 supplied *)
Definition tail_frequency_integral (x0root lower_bound ch kappa zalpha : R) : R :=
  let llb := ln lower_bound in
  let x0 := if Rgt_dec llb x0root then llb else x0root in
  if Rgt_dec x0 0 then 0
  else
    let stepsize := - x0 / 4 in
    let v x := let l := log_crit_height x ch kappa zalpha in l ^ 4 * exp l in
    2 / 45 * stepsize
    * (7 * v x0 + 32 * v (3 * x0 / 4) + 12 * v (2 * x0 / 4) + 32 * v (x0 / 4) + 7 * v 0).

(* directional integrals over the last resolved frequency bin *)
Definition tail_dir_term (g : grid) (wdr : R) (E : field) (trig : R -> R) (j : nat) : R :=
  let cm := cos (gth g j - wdr) in
  if Rle_dec cm 0 then 0
  else cm ^ 2 * trig (gth g j) * fnth E (nfreq g - 1) j * gdth g j.

Definition tail_effective_charnock (p : gen_par) (ustar z0 : R) : R := z0 * gp_g p / ustar ^ 2.
Definition tail_lower_bound (p : gen_par) (g : grid) (ustar : R) : R :=
  ustar * gw g (nfreq g - 1) / gp_g p.

(* tail_stress_parametrization_wam: (eastward, northward) *)
Definition tail_stress_wam (p : gen_par) (wnd : wind) (z0 : R) (g : grid) (x0root : R) (E : field)
  : R * R :=
  let wdr := wdir wnd * PI / 180 in
  let ustar := friction_velocity p wnd z0 in
  let ie := sum_upto (tail_dir_term g wdr E cos) (ndir g) in
  let inn := sum_upto (tail_dir_term g wdr E sin) (ndir g) in
  let fint := tail_frequency_integral x0root (tail_lower_bound p g ustar)
                (tail_effective_charnock p ustar z0) (gp_kappa p) (gp_zalpha p) in
  let const := gw g (nfreq g - 1) ^ 5 / (2 * PI * gp_g p ^ 2) * ustar ^ 2 * gp_betamax p
               / gp_kappa p ^ 2 in
  let total := gp_rho_a p * ustar ^ 2 in
  let cr := charnock_relation p ustar in
  let background := cr ^ 2 / z0 ^ 2 * total in
  (ie * fint * const * gp_rho_a p + cos wdr * background,
   inn * fint * const * gp_rho_a p + sin wdr * background).

(* _tail_supported_stress: magnitude and direction of the tail stress *)
Definition tail_stress_mag_dir (t : R * R) : R * R :=
  (sqrt (snd t ^ 2 + fst t ^ 2), dir_deg (snd t) (fst t)).

(* ------------------------------------------------------------------ *)
(* resolved stress and total stress                                     *)
(* ------------------------------------------------------------------ *)
(* _wave_supported_stress_point without the tail: (east, north) *)
Definition resolved_stress (p : gen_par) (g : grid) (ks : list R) (S : field) : R * R :=
  let inv_c i := rnth ks i / gw g i * gdf g i in
  let e := sum2_upto (fun i j => cos (gth g j) * gdth g j * fnth S i j * inv_c i) (nfreq g) (ndir g) in
  let n := sum2_upto (fun i j => sin (gth g j) * gdth g j * fnth S i j * inv_c i) (nfreq g) (ndir g) in
  (e * (gp_g p * gp_rho_w p), n * (gp_g p * gp_rho_w p)).

Definition viscous_stress (p : gen_par) (ustar z0 : R) : R :=
  gp_visc p * gp_rho_a p * ustar * gp_nu_air p / gp_kappa p / z0.

(* the stress vector of _total_stress_point: resolved + tail + viscous *)
Definition total_stress_vec (p : gen_par) (wnd : wind) (depth : option R) (z0 : R) (g : grid)
           (x0root : R) (E : field) : R * R :=
  let S := st4_input p wnd depth z0 g E in
  let ks := input_wavenumbers p depth (g_w g) in
  let r := resolved_stress p g ks S in
  let t := tail_stress_wam p wnd z0 g x0root E in
  let ustar := friction_velocity p wnd z0 in
  let v := viscous_stress p ustar z0 in
  let wdr := wdir wnd * PI / 180 in
  (fst r + fst t + v * cos wdr, snd r + snd t + v * sin wdr).

(* _total_stress_point: (magnitude, Some direction) ; direction None = NaN when u* = 0 *)
Definition total_stress_point (p : gen_par) (wnd : wind) (depth : option R) (z0 : R) (g : grid)
           (x0root : R) (E : field) : R * option R :=
  if Req_EM_T (friction_velocity p wnd z0) 0 then (0, None)
  else
    let v := total_stress_vec p wnd depth z0 g x0root E in
    (sqrt (snd v ^ 2 + fst v ^ 2), Some (dir_deg (snd v) (fst v))).

(* _stress_iteration_function at log-roughness l (the function whose root is the roughness) *)
Definition stress_iteration_function (p : gen_par) (wnd : wind) (depth : option R) (g : grid)
           (x0root_of : R -> R) (E : field) (l : R) : R :=
  let z0 := exp l in
  gp_rho_a p * friction_velocity p wnd z0 ^ 2
  - fst (total_stress_point p wnd depth z0 g (x0root_of z0) E).

(* ------------------------------------------------------------------ *)
(* dissipation-weighted wave direction (_bulk_dissipation_direction_point) *)
(* ------------------------------------------------------------------ *)
Definition diss_k_vector (g : grid) (ks : list R) (D : field) : R * R :=
  let kx := fold_left (fun a i => fold_left (fun a' j =>
              a' - rnth ks i * cos (gth g j) * fnth D i j * gdf g i * gdth g j) (seq 0 (ndir g)) a)
              (seq 0 (nfreq g)) 0 in
  let ky := fold_left (fun a i => fold_left (fun a' j =>
              a' - rnth ks i * sin (gth g j) * fnth D i j * gdf g i * gdth g j) (seq 0 (ndir g)) a)
              (seq 0 (nfreq g)) 0 in
  (kx, ky).

Definition diss_direction (depth : option R) (g : grid) (D : field) : R :=
  let v := diss_k_vector g (wavenumbers GRAV depth (g_w g)) D in
  dir_deg (snd v) (fst v).
