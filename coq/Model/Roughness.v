(* Model of wavephysics/roughness.py (Charnock), tools/solvers.py (fixed_point_iteration) and
   wavephysics/balance/solvers.py (numba_newton_raphson, the Newton / secant / bisection hybrid
   used for the Janssen roughness).   DEFINITIONS ONLY.

   A float that may be NaN is [option R] ([None] = NaN; +-inf produced by a division by zero is
   also [None]: "not a usable number").  The stress-balance function of the Janssen roughness is
   NOT modelled: the hybrid solver is generic over a function f : R -> R (Section variable). *)
From Coq Require Import Reals List Bool Arith.
Import ListNotations.
Open Scope R_scope.

(* ------------------------------------------------------------------ *)
(* Charnock                                                            *)
(* ------------------------------------------------------------------ *)
Record cpar := mkcpar {
  c_alpha : R;   (* charnock_constant *)
  c_g : R;       (* gravitational_acceleration *)
  c_nu : R;      (* air_kinematic_viscosity *)
  c_visc : R;    (* viscous_constant *)
  c_kappa : R;   (* vonkarman_constant *)
  c_elev : R     (* elevation *)
}.

(* charnock_roughness_length: alpha*u^2/g + where(u > 0, visc*nu/u, 0) *)
Definition charnock (P : cpar) (us : R) : R :=
  let zv := if Rgt_dec us 0 then c_visc P * c_nu P / us else 0 in
  c_alpha P * (us * us) / c_g P + zv.

(* kappa * U / log(elevation / z).  z < 0: log of a negative number (NaN); z = elevation: division
   by zero (inf / NaN); z = 0: log(inf) = inf and the quotient is 0 *)
Definition ustar (P : cpar) (U z : R) : option R :=
  if Rlt_dec z 0 then None
  else if Req_EM_T z 0 then Some 0
  else let l := ln (c_elev P / z) in
       if Req_EM_T l 0 then None else Some (c_kappa P * U / l).

(* _func of charnock_roughness_length_from_u10 *)
Definition charnock_G (P : cpar) (U z : R) : option R :=
  match ustar P U z with Some us => Some (charnock P us) | None => None end.

(* roughness_wu: elevation / exp(kappa / sqrt((0.8 + 0.065 U)/1000)) *)
Definition guess_wu (P : cpar) (U : R) : R :=
  c_elev P / exp (c_kappa P / sqrt ((8 / 10 + 65 / 1000 * U) / 1000)).

(* drag_coefficient_charnock: (kappa / log(elevation / z0)) ** 2 *)
Definition drag_of_roughness (P : cpar) (z : R) : option R :=
  if Rle_dec z 0 then None
  else let l := ln (c_elev P / z) in
       if Req_EM_T l 0 then None else Some ((c_kappa P / l) * (c_kappa P / l)).

(* ------------------------------------------------------------------ *)
(* fixed_point_iteration                                                *)
(* ------------------------------------------------------------------ *)
Record fpcfg := mkfpcfg {
  fp_atol : R; fp_rtol : R; fp_maxit : nat; fp_aitken : bool;
  fp_lo : option R;      (* finite lower bound, None = -inf *)
  fp_hi : option R       (* finite upper bound, None = +inf *)
}.

Section FixedPoint.
Variable Par : Type.
Variable F : Par -> R -> option R.     (* the vector function, element by element *)

(* one element: its parameter, the last three iterates (newest last), its convergence flag *)
Record est := mkest { e_par : Par; e0 : option R; e1 : option R; e2 : option R; e_conv : bool }.

(* ratio = where(isfinite(ratio) & (ratio != 1), ratio, 0); next = x2 + ratio/(1-ratio)*(x2-x1) *)
Definition aitken_next (x0 x1 x2 : R) : R :=
  let den := x1 - x0 in
  let ratio := if Req_EM_T den 0 then 0
               else let r := (x2 - x1) / den in if Req_EM_T r 1 then 0 else r in
  x2 + ratio / (1 - ratio) * (x2 - x1).

Definition aitken_opt (x0 x1 x2 : option R) : option R :=
  match x1, x2 with
  | Some b, Some c =>
      match x0 with
      | Some a => Some (aitken_next a b c)
      | None => Some (c + 0 / (1 - 0) * (c - b))      (* NaN ratio is replaced by 0 *)
      end
  | _, _ => None
  end.

Definition plain_next (p : Par) (x2 : option R) : option R :=
  match x2 with Some v => F p v | None => None end.

(* where(next <= lo, (lo - x2)*0.5 + x2, next) then where(next > hi, (hi - x2)*0.5 + x2, next) *)
Definition bound_lo (lo : option R) (x2 : option R) (next : option R) : option R :=
  match next with
  | None => None
  | Some n =>
      match lo with
      | None => Some n
      | Some b => if Rle_dec n b
                  then match x2 with Some a => Some ((b - a) * (1 / 2) + a) | None => None end
                  else Some n
      end
  end.

Definition bound_hi (hi : option R) (x2 : option R) (next : option R) : option R :=
  match next with
  | None => None
  | Some n =>
      match hi with
      | None => Some n
      | Some b => if Rgt_dec n b
                  then match x2 with Some a => Some ((b - a) * (1 / 2) + a) | None => None end
                  else Some n
      end
  end.

(* (|new - prev| < atol) & (|new - prev| / max(|prev|, atol) < rtol); NaN compares false *)
Definition conv_test (atol rtol : R) (prev new : option R) : bool :=
  match prev, new with
  | Some a, Some b =>
      let ad := Rabs (b - a) in
      let sc := Rmax (Rabs a) atol in
      (if Rlt_dec ad atol then true else false) && (if Rlt_dec (ad / sc) rtol then true else false)
  | _, _ => false
  end.

Definition step_one (cfg : fpcfg) (ait : bool) (e : est) : est :=
  let raw := if ait then aitken_opt (e0 e) (e1 e) (e2 e) else plain_next (e_par e) (e2 e) in
  let nx := bound_hi (fp_hi cfg) (e2 e) (bound_lo (fp_lo cfg) (e2 e) raw) in
  mkest (e_par e) (e1 e) (e2 e) nx (conv_test (fp_atol cfg) (fp_rtol cfg) (e2 e) nx).

Definition count_conv (es : list est) : nat := length (filter e_conv es).

Definition is_some {A} (o : option A) : bool := match o with Some _ => true | None => false end.

(* for it in 1..max_iter: update all; break when every active element converged on a plain step.
   fraction_of_points = 1 (the default): both break branches are "n_converged >= n_active". *)
Fixpoint fp_loop (cfg : fpcfg) (nact : nat) (fuel it : nat) (es : list est) : bool * list est :=
  match fuel with
  | O => (false, es)
  | S n =>
      let ait := fp_aitken cfg && (Nat.eqb (it mod 3) 0) in
      let es' := map (step_one cfg ait) es in
      if negb ait && (nact <=? count_conv es')%nat then (true, es')
      else fp_loop cfg nact n (S it) es'
  end.

(* result: the last iterate; after max_iter without break the non-converged elements are NaN *)
Definition fp_output (broke : bool) (e : est) : option R :=
  if broke then e2 e else if e_conv e then e2 e else None.

Definition fixed_point (cfg : fpcfg) (start : list (Par * option R)) : list (option R) :=
  let es := map (fun pg => mkest (fst pg) (snd pg) (snd pg) (snd pg) false) start in
  let nact := length (filter (fun pg => is_some (snd pg)) start) in
  let '(broke, es') := fp_loop cfg nact (fp_maxit cfg) 1 es in
  map (fp_output broke) es'.
End FixedPoint.

Definition fp_default (maxit : nat) : fpcfg :=
  mkfpcfg (1 / 10000) (1 / 10000) maxit true (Some 0) None.

(* charnock_roughness_length_from_u10 on a batch of wind speeds (None = NaN) *)
Definition charnock_F (P : cpar) (oU : option R) (z : R) : option R :=
  match oU with Some U => charnock_G P U z | None => None end.

Definition charnock_start (P : cpar) (Us : list (option R)) : list (option R * option R) :=
  map (fun oU => (oU, match oU with Some U => Some (guess_wu P U) | None => None end)) Us.

Definition charnock_from_u10 (P : cpar) (maxit : nat) (Us : list (option R)) : list (option R) :=
  fixed_point (option R) (charnock_F P) (fp_default maxit) (charnock_start P Us).

Definition drag_charnock (P : cpar) (maxit : nat) (Us : list (option R)) : list (option R) :=
  map (fun oz => match oz with Some z => drag_of_roughness P z | None => None end)
      (charnock_from_u10 P maxit Us).

(* ------------------------------------------------------------------ *)
(* numba_newton_raphson: Newton / secant / bisection hybrid with bracket *)
(* ------------------------------------------------------------------ *)
Record ncfg := mkncfg {
  n_hard_lo : option R; n_hard_hi : option R;   (* hard_bounds, None = infinite *)
  n_maxit : nat; n_aitken : bool; n_atol : R; n_rtol : R;
  n_h : R; n_relstep : bool; n_relax : R; n_err_on_max : bool
}.

(* failure kinds: 0 = ZeroDivisionError, 1 = stationary point without bracket (ValueError("")),
   2 = ValueError("no convergence") *)
Inductive nres := NConverged (x : R) | NMaxIter (x : R) | NFailed (code : nat).

Record nst := mknst {
  s_x0 : R; s_x1 : R; s_x2 : R;      (* iterates, newest last *)
  s_f2 : R;                          (* func_evals[2] (value at the previous iterate) *)
  s_lo : R; s_hi : R;                (* root_bounds *)
  s_flo : R; s_fhi : R;              (* func_at_bounds *)
  s_bounded : bool                   (* root_bounded *)
}.

Inductive nstepres := NCont (s : nst) | NDone (s : nst) | NFail (code : nat).

(* if next < b0: next = (b0 - x2)*0.5 + x2 ; if next > b1: next = (b1 - x2)*0.5 + x2 *)
Definition clip (lo hi : option R) (x2 next : R) : R :=
  let n1 := match lo with
            | Some b => if Rlt_dec next b then (b - x2) * (1 / 2) + x2 else next
            | None => next end in
  match hi with
  | Some b => if Rgt_dec n1 b then (b - x2) * (1 / 2) + x2 else n1
  | None => n1
  end.

Section Newton.
Variable f : R -> R.
Variable cfg : ncfg.

Definition ninit (guess : R) : nst :=
  let lo := guess - 1 / 2 * Rabs guess in
  let hi := guess + 1 / 2 * Rabs guess in
  let flo := f lo in
  let fhi := f hi in
  mknst guess guess guess 0 lo hi flo fhi (if Rlt_dec (flo * fhi) 0 then true else false).

(* bracket update of a regular (non-Aitken) step: (lo, hi, flo, fhi) *)
Definition bracket_update (s : nst) (fe2 : R) : R * R * R * R :=
  let x2 := s_x2 s in
  if Rlt_dec x2 (s_lo s) then (x2, s_hi s, fe2, s_fhi s)
  else if Rgt_dec x2 (s_hi s) then (s_lo s, x2, s_flo s, fe2)
  else if Rlt_dec (s_flo s * fe2) 0 then (s_lo s, x2, s_flo s, fe2)
  else if Rlt_dec (s_fhi s * fe2) 0 then (x2, s_hi s, fe2, s_fhi s)
  else (s_lo s, s_hi s, s_flo s, s_fhi s).

(* unclipped next iterate and the new bracket, or a failure code *)
Definition nproposal (it : nat) (s : nst) (fe1 fe2 : R) : (R * (R * R * R * R) * bool) + nat :=
  let x0 := s_x0 s in let x1 := s_x1 s in let x2 := s_x2 s in
  if n_aitken cfg && Nat.eqb (it mod 3) 0 then
    let num := x2 - x1 in
    let den := x1 - x0 in
    if Req_EM_T den 0 then inr 0%nat
    else let ratio := num / den in
         if Req_EM_T (1 - ratio) 0 then inr 0%nat
         else inl (x2 + ratio / (1 - ratio) * num, (s_lo s, s_hi s, s_flo s, s_fhi s), s_bounded s)
  else
    let '(lo, hi, flo, fhi) := bracket_update s fe2 in
    let b := if Rlt_dec (flo * fhi) 0 then true else false in
    let oder :=
      if b && (1 <? it)%nat then
        (if Req_EM_T (x2 - x1) 0 then None else Some ((fe2 - fe1) / (x2 - x1)))
      else
        let st := if n_relstep cfg then x2 * n_h cfg else n_h cfg in
        let fs := f (x2 + st) in      (* evaluated before the division (which raises when st = 0) *)
        if Req_EM_T st 0 then None else Some ((fs - fe2) / st) in
    match oder with
    | None => inr 0%nat
    | Some der =>
        if Req_EM_T der 0 then
          (if b then inl (x2 + (hi - lo) / 2 * n_relax cfg, (lo, hi, flo, fhi), b) else inr 1%nat)
        else inl (x2 + - fe2 / der * n_relax cfg, (lo, hi, flo, fhi), b)
    end.

Definition niter (it : nat) (s : nst) : nstepres :=
  let fe1 := s_f2 s in
  let fe2 := f (s_x2 s) in
  match nproposal it s fe1 fe2 with
  | inr code => NFail code
  | inl (next, (lo, hi, flo, fhi), b) =>
      let x2 := s_x2 s in
      let nx := if b then clip (Some lo) (Some hi) x2 next
                else clip (n_hard_lo cfg) (n_hard_hi cfg) x2 next in
      let s' := mknst (s_x1 s) x2 nx fe2 lo hi flo fhi b in
      let ad := Rabs (nx - x2) in
      let sc := Rmax (Rabs x2) (n_atol cfg) in
      (* only a regular step may decide convergence (not an Aitken extrapolation step) *)
      if (if Rlt_dec ad (n_atol cfg) then true else false)
         && (if Rlt_dec (ad / sc) (n_rtol cfg) then true else false)
         && negb (n_aitken cfg && Nat.eqb (it mod 3) 0)
      then NDone s' else NCont s'
  end.

(* for current_iteration in range(1, max_iterations) *)
Fixpoint nloop (fuel it : nat) (s : nst) : nres * nst :=
  match fuel with
  | O => (if n_err_on_max cfg then NFailed 2 else NMaxIter (s_x2 s), s)
  | S n =>
      match niter it s with
      | NFail code => (NFailed code, s)
      | NDone s' => (NConverged (s_x2 s'), s')
      | NCont s' => nloop n (S it) s'
      end
  end.

Definition newton_run_state (guess : R) : nres * nst := nloop (n_maxit cfg - 1) 1 (ninit guess).
Definition newton_run (guess : R) : nres := fst (newton_run_state guess).
End Newton.

(* _roughness_estimate_point: Newton on log z0 in (-20, 0), atol = rtol = 1e-6, no Aitken,
   exceptions become NaN in _roughness_estimate; the result is exp(log_root) *)
Definition janssen_cfg : ncfg :=
  mkncfg (Some (-20)) (Some 0) 100 false (1 / 1000000) (1 / 1000000) (1 / 10000) false (9 / 10) true.

Definition janssen_point (f : R -> R) (guess : R) : option R :=
  match newton_run f janssen_cfg (ln guess) with
  | NConverged x => Some (exp x)
  | _ => None
  end.

(* analytic test functions used to run the generic solver against numba_newton_raphson *)
Definition tf (id : nat) (a b c : R) (x : R) : R :=
  match id with
  | 0%nat => a * x + b
  | 1%nat => exp x - a
  | 2%nat => x * x * x - a * x + b
  | 3%nat => tanh (a * (x - b)) + c
  | 4%nat => ln a + 2 * x + b / (exp x + c)          (* wam_tail_stress.log_dimensionless_critical_height *)
  | _ => let u := b / (c - x) in a * (u * u) - exp x   (* toy stress balance in log-roughness *)
  end.

(* analytic vector functions used to run the generic fixed-point solver against
   tools.solvers.fixed_point_iteration (parameter = (function id, constant)) *)
Definition gf (p : nat * R) (x : R) : option R :=
  let a := snd p in
  match fst p with
  | 0%nat => Some (a + sin x)
  | 1%nat => Some (a * cos x)
  | 2%nat => Some (sqrt (Rabs x + a))
  | 3%nat => Some (a * x * (1 - x))
  | _ => Some (a * exp (- x))
  end.
