(* Model of filecache/cache_object.py (FileCache, FileCacheConfig, _download_from_resources)
   as a state machine over an explicit directory.  DEFINITIONS ONLY.

   What is modelled: the directory (every file except the config json: cache files, the
   temporary download files, foreign files), the in-memory entry table, the persisted
   configuration (size limit, parallel, allow_for_missing_files), a logical clock standing for
   max(atime, mtime), and the behaviour of the remote resource / validation / post-processing
   functions as *inputs of each request* (outcomes), so that every fault history is a value.
   md5 naming is modelled as the injective constructor CName (resource, comment). *)
From Coq Require Import ZArith List Bool Arith Lia.
Import ListNotations.
Open Scope Z_scope.

(* ---------- names and contents ---------- *)
Inductive name :=
| CName (r k : nat)      (* cachefile_<md5(uri of resource r with comment k)>_cachefile *)
| TName (r k : nat)      (* the same + ".download" : temporary, NOT a cache file name *)
| FName (j : nat).       (* any other file in the directory *)

Definition is_cache_name (n : name) : bool :=
  match n with CName _ _ => true | _ => false end.

Definition name_eqb (a b : name) : bool :=
  match a, b with
  | CName r k, CName r' k' => Nat.eqb r r' && Nat.eqb k k'
  | TName r k, TName r' k' => Nat.eqb r r' && Nat.eqb k k'
  | FName j, FName j' => Nat.eqb j j'
  | _, _ => false
  end.

Inductive content :=
| Full (r v : nat)       (* complete bytes of resource r at remote version v *)
| Post (r v : nat)       (* the same after the post-processing function ran *)
| Half (r v : nat)       (* a partially written download *)
| Blob (j : nat).        (* content of a foreign file *)

Definition content_eqb (a b : content) : bool :=
  match a, b with
  | Full r v, Full r' v' | Post r v, Post r' v' | Half r v, Half r' v' => Nat.eqb r r' && Nat.eqb v v'
  | Blob j, Blob j' => Nat.eqb j j'
  | _, _ => false
  end.

Definition csize (c : content) : Z :=
  match c with
  | Full r v => 1000 + 500 * Z.of_nat r + 7 * Z.of_nat v
  | Post r v => 1000 + 500 * Z.of_nat r + 7 * Z.of_nat v + 12
  | Half r v => (1000 + 500 * Z.of_nat r + 7 * Z.of_nat v) / 2
  | Blob j => 10 + Z.of_nat j
  end.

Definition is_complete (c : content) : bool :=
  match c with Full _ _ | Post _ _ => true | _ => false end.

Record file := mkfile { fcontent : content; ftime : Z }.

(* ---------- the directory as an association list with unique keys ---------- *)
Definition dir := list (name * file).

Fixpoint dfind (d : dir) (n : name) : option file :=
  match d with
  | [] => None
  | (m, f) :: d' => if name_eqb m n then Some f else dfind d' n
  end.

Definition ddel (d : dir) (n : name) : dir :=
  filter (fun p => negb (name_eqb (fst p) n)) d.

Definition dupd (d : dir) (n : name) (f : file) : dir := (n, f) :: ddel d n.

Definition dexists (d : dir) (n : name) : bool :=
  match dfind d n with Some _ => true | None => false end.

Definition fsize (d : dir) (n : name) : Z :=
  match dfind d n with Some f => csize (fcontent f) | None => 0 end.

(* ---------- state ---------- *)
Record state := mkstate {
  disk : dir;
  entries : list name;        (* keys of FileCache._entries, in dict order *)
  maxb : Z;                   (* config.max_size_bytes *)
  clock : Z;                  (* logical time: strictly larger than every time stamp on disk *)
  par : bool;                 (* config.parallel *)
  allow : bool;               (* config.allow_for_missing_files *)
  fetched : list nat;         (* ghost: resources contacted so far, newest first *)
  alive : bool                (* false after the process died: only the directory is left *)
}.

Definition set_disk s d := mkstate d (entries s) (maxb s) (clock s) (par s) (allow s) (fetched s) (alive s).
Definition set_entries s e := mkstate (disk s) e (maxb s) (clock s) (par s) (allow s) (fetched s) (alive s).
Definition set_maxb s m := mkstate (disk s) (entries s) m (clock s) (par s) (allow s) (fetched s) (alive s).
Definition tick s := mkstate (disk s) (entries s) (maxb s) (clock s + 1) (par s) (allow s) (fetched s) (alive s).
Definition log_fetch s r := mkstate (disk s) (entries s) (maxb s) (clock s) (par s) (allow s) (r :: fetched s) (alive s).
Definition set_alive s b := mkstate (disk s) (entries s) (maxb s) (clock s) (par s) (allow s) (fetched s) b.

Definition mem (n : name) (l : list name) : bool := existsb (name_eqb n) l.
Definition remove_name (n : name) (l : list name) : list name :=
  filter (fun m => negb (name_eqb m n)) l.
Definition add_name (n : name) (l : list name) : list name :=
  if mem n l then l else l ++ [n].

Definition init (max : Z) (p a : bool) : state := mkstate [] [] max 0 p a [] true.

(* _size(): bytes of the registered entries that exist on disk *)
Definition total_size (d : dir) (l : list name) : Z :=
  fold_right (fun n acc => fsize d n + acc) 0 l.
Definition cache_size (s : state) : Z := total_size (disk s) (entries s).

(* _remove_item_from_cache *)
Definition remove_item (s : state) (n : name) : state :=
  if mem n (entries s)
  then set_disk (set_entries s (remove_name n (entries s))) (ddel (disk s) n)
  else s.

(* the entry that _cache_eviction deletes next: smallest time stamp; among equal stamps the
   one latest in dict order (stable sort, reverse=True, pop from the end).  Entries whose file
   is missing would make the real code raise; they are skipped here (unreachable, see
   Proofs: entries_exist). *)
Fixpoint oldest_aux (d : dir) (l : list name) (best : option (name * Z)) : option (name * Z) :=
  match l with
  | [] => best
  | n :: l' =>
      match dfind d n with
      | None => oldest_aux d l' best
      | Some f =>
          match best with
          | None => oldest_aux d l' (Some (n, ftime f))
          | Some (_, tb) => if ftime f <=? tb then oldest_aux d l' (Some (n, ftime f))
                            else oldest_aux d l' best
          end
      end
  end.
Definition oldest (s : state) : option name :=
  match oldest_aux (disk s) (entries s) None with Some (n, _) => Some n | None => None end.

(* _cache_eviction: delete oldest-first while the size exceeds the limit *)
Fixpoint evict_loop (fuel : nat) (s : state) : state :=
  match fuel with
  | O => s
  | S fuel' =>
      if cache_size s >? maxb s then
        match oldest s with
        | Some n => evict_loop fuel' (remove_item s n)
        | None => s
        end
      else s
  end.
Definition evict (s : state) : state := evict_loop (length (entries s)) s.

(* ---------- requests ---------- *)
Inductive vresult := VOk | VReject | VIOError.          (* what the validation function does *)
Inductive outcome :=                                     (* what the remote resource does *)
| DOk (v : nat)            (* delivers version v completely *)
| DNotFound                (* raises _RemoteResourceUriNotFound, nothing written *)
| DFailBefore              (* raises another exception before writing *)
| DFailPartial (v : nat)   (* writes half of version v, then raises *)
| DCrash (v : nat).        (* writes half of version v, then the process dies *)

Record req := mkreq {
  q_res : nat;                   (* resource *)
  q_comment : nat;               (* comment suffix (0 = none): part of the name, not of the fetch *)
  q_validate : option vresult;   (* validate= directive and what the function will answer *)
  q_post : option bool;          (* postprocess= directive and whether the function succeeds *)
  q_out : outcome                (* behaviour of the resource if contacted *)
}.
Definition q_name (q : req) : name := CName (q_res q) (q_comment q).
Definition q_tmp (q : req) : name := TName (q_res q) (q_comment q).

Inductive op :=
| Get (l : list req)
| Remove (r k : nat)
| Purge
| Reopen (do_evict : bool)
| Touch (n : name)               (* something outside the cache uses the file now *)
| Age (n : name)                 (* the file's time stamps are set far in the past *)
| Foreign (j : nat) (c : nat)    (* a foreign file appears / is rewritten *)
| SetMode (p a : bool).          (* config.parallel / allow_for_missing_files setters *)

Inductive result :=
| Paths (l : list name)
| Raised                          (* the request raised; the cache object stays usable *)
| Crashed                         (* the process died; only the directory survives *)
| Done.

(* phase A: get_cache_misses (with the touch of every hit).  Returns the state, the list of
   misses, or None when _get_from_cache raises FileNotFoundError (entry without file). *)
Fixpoint classify (s : state) (l : list req) : option (state * list req) :=
  match l with
  | [] => Some (s, [])
  | q :: l' =>
      let n := q_name q in
      let hit (s0 : state) :=
        match dfind (disk s0) n with
        | None => None                                        (* FileNotFoundError *)
        | Some f =>
            let s1 := tick (set_disk s0 (dupd (disk s0) n (mkfile (fcontent f) (clock s0)))) in
            match classify s1 l' with
            | Some (s2, ms) => Some (s2, ms)
            | None => None
            end
        end in
      let miss (s0 : state) :=
        match classify s0 l' with
        | Some (s2, ms) => Some (s2, q :: ms)
        | None => None
        end in
      if mem n (entries s) then
        match q_validate q with
        | None | Some VOk => hit s
        | Some _ => miss (remove_item s n)
        end
      else miss s
  end.

(* one _worker call (download to the temporary name, post-process, rename; the finally
   clause removes the temporary file on every path on which the process survives).
   Some true/false = returned True/False; None = raised; the last bool = "the process died". *)
Definition worker (s : state) (q : req) : state * option bool * bool :=
  let s := log_fetch s (q_res q) in
  let r := q_res q in
  let cleaned := set_disk s (ddel (disk s) (q_tmp q)) in     (* no temporary file left *)
  let store (c : content) :=
    tick (set_disk s (dupd (ddel (disk s) (q_tmp q)) (q_name q) (mkfile c (clock s)))) in
  match q_out q with
  | DOk v =>
      match q_post q with
      | Some false => (cleaned, None, false)                  (* post-processing raised *)
      | Some true => (store (Post r v), Some true, false)
      | None => (store (Full r v), Some true, false)
      end
  | DNotFound => if allow s then (cleaned, Some false, false) else (cleaned, None, false)
  | DFailBefore => (cleaned, None, false)
  | DFailPartial v => (cleaned, None, false)
  | DCrash v => (tick (set_disk s (dupd (disk s) (q_tmp q) (mkfile (Half r v) (clock s)))), None, true)
  end.

(* sequential download loop; stops at the first raise *)
Inductive dl_status := DlOk | DlRaised | DlCrashed.
Fixpoint download (s : state) (ms : list req) : state * list bool * dl_status :=
  match ms with
  | [] => (s, [], DlOk)
  | q :: ms' =>
      match worker s q with
      | (s1, Some b, _) =>
          let '(s2, bs, st) := download s1 ms' in (s2, b :: bs, st)
      | (s1, None, true) => (s1, [], DlCrashed)
      | (s1, None, false) => (s1, [], DlRaised)
      end
  end.

(* parallel mode: ThreadPool.imap(_worker, misses, chunksize=5) - every chunk of five misses is
   processed sequentially by one thread and stops at its first raise; the other chunks run
   regardless and (after the `finally: pool.close(); pool.join()`) are awaited before an
   exception is passed on.  The order in which chunks interleave is thread timing; the model
   runs them one after the other (the harness makes time stamps logical in request order). *)
Definition CHUNK : nat := 5.

Fixpoint chunks_of (fuel : nat) (l : list req) : list (list req) :=
  match fuel with
  | O => []
  | S fuel' => match l with
               | [] => []
               | _ => firstn CHUNK l :: chunks_of fuel' (skipn CHUNK l)
               end
  end.

Definition merge_status (a b : dl_status) : dl_status :=
  match a, b with
  | DlCrashed, _ | _, DlCrashed => DlCrashed
  | DlRaised, _ | _, DlRaised => DlRaised
  | DlOk, DlOk => DlOk
  end.

Fixpoint download_chunks (s : state) (cs : list (list req)) : state * list bool * dl_status :=
  match cs with
  | [] => (s, [], DlOk)
  | c :: cs' =>
      let '(s1, bs1, st1) := download s c in
      let '(s2, bs2, st2) := download_chunks s1 cs' in
      (s2, bs1 ++ bs2, merge_status st1 st2)
  end.

(* _download_from_resources: parallel only when requested and more than one miss *)
Definition download_all (s : state) (ms : list req) : state * list bool * dl_status :=
  if par s && Nat.ltb 1 (length ms) then download_chunks s (chunks_of (length ms) ms)
  else download s ms.

Fixpoint remove_first (n : name) (l : list name) : list name :=
  match l with
  | [] => []
  | m :: l' => if name_eqb m n then l' else m :: remove_first n l'
  end.

(* registration of the successes / removal of the failures from the returned paths *)
Fixpoint register (s : state) (paths : list name) (ms : list req) (bs : list bool) : state * list name :=
  match ms, bs with
  | q :: ms', b :: bs' =>
      if b then register (set_entries s (add_name (q_name q) (entries s))) paths ms' bs'
      else register s (remove_first (q_name q) paths) ms' bs'
  | _, _ => (s, paths)
  end.

(* the except-branch of __getitem__: register every miss whose final file exists *)
Fixpoint register_existing (s : state) (ms : list req) : state :=
  match ms with
  | [] => s
  | q :: ms' =>
      if dexists (disk s) (q_name q)
      then register_existing (set_entries s (add_name (q_name q) (entries s))) ms'
      else register_existing s ms'
  end.

Definition MEGABYTE : Z := 1000000.

Definition get (s : state) (l : list req) : state * result :=
  let paths := map q_name l in
  match classify s l with
  | None => (s, Raised)      (* unreachable under the invariant; state effects not modelled *)
  | Some (s1, ms) =>
      match download_all s1 ms with
      | (s2, _, DlCrashed) => (set_alive s2 false, Crashed)
      | (s2, _, DlRaised) => (evict (register_existing s2 ms), Raised)
      | (s2, bs, DlOk) =>
          let '(s3, paths') := register s2 paths ms bs in
          let requested := total_size (disk s3) paths' in
          let s4 := if requested >? maxb s3 then set_maxb s3 (requested + MEGABYTE) else s3 in
          let s5 := match ms with [] => s4 | _ => evict s4 end in
          (s5, Paths paths')
      end
  end.

Definition cache_names_on_disk (d : dir) : list name :=
  filter is_cache_name (map fst d).

Definition set_time (s : state) (n : name) (t : Z) : state :=
  match dfind (disk s) n with
  | Some f => set_disk s (dupd (disk s) n (mkfile (fcontent f) t))
  | None => s
  end.

(* operations on a live cache object *)
Definition step_alive (s : state) (o : op) : state * result :=
  match o with
  | Get l => get s l
  | Remove r k => (remove_item s (CName r k), Done)
  | Purge => (set_disk (set_entries s []) (fold_left ddel (entries s) (disk s)), Done)
  | SetMode p a => (mkstate (disk s) (entries s) (maxb s) (clock s) p a (fetched s) (alive s), Done)
  | _ => (s, Done)
  end.

Definition step (s : state) (o : op) : state * result :=
  match o with
  | Reopen do_evict =>
      (* a new FileCache on the same directory: adopts every cache-named file; the persisted
         configuration wins over the constructor arguments *)
      let s1 := set_alive (set_entries s (cache_names_on_disk (disk s))) true in
      if do_evict then (evict s1, Done)
      else if cache_size s1 >? maxb s1 then (set_alive s1 false, Raised) else (s1, Done)
  | Touch n => (tick (set_time s n (clock s)), Done)
  | Age n => (tick (set_time s n (- clock s)), Done)
  | Foreign j c => (tick (set_disk s (dupd (disk s) (FName j) (mkfile (Blob c) (clock s)))), Done)
  | _ => if alive s then step_alive s o else (s, Raised)      (* no cache object *)
  end.

Definition run (s : state) (ops : list op) : state := fold_left (fun s o => fst (step s o)) ops s.

(* trace of results, for the correspondence driver *)
Fixpoint run_trace (s : state) (ops : list op) : list (state * result) :=
  match ops with
  | [] => []
  | o :: ops' => let '(s', r) := step s o in (s', r) :: run_trace s' ops'
  end.
