(* C17  Model of src/ocean_science_utilities/tools/time.py  (DEFINITIONS ONLY).

   An instant is a [Z]: microseconds since 1970-01-01T00:00:00 UTC.  A Python [datetime] is its calendar
   fields plus an optional UTC offset (None = naive).  Library behaviour that is not this repository's
   code (datetime arithmetic, fromisoformat, fromtimestamp, strftime, numpy datetime64 casts) is written
   out here and validated by the correspondence check; the repository's own logic is [to_datetime_utc],
   [to_datetime64], [datetime_to_iso_time_string] and the packed-integer decoders (the latter are ALSO
   translated mechanically from the Python source into Generated/TimeInt.v; the hand-written versions
   below are the specification side of theorems [timeint_decodes]/[dateint_decodes]). *)
From Coq Require Import ZArith List Bool.
From OSU.Lib Require Export TimeAuxCivil.
Import ListNotations.
Open Scope Z_scope.

(* the proleptic Gregorian calendar (days_from_civil, civil_from_days, valid_dateb) is in
   Lib/TimeAuxCivil.v so that its 30 s era tables are not rebuilt when this file changes *)

(* ------------------------------------------------------------------------------------------- *)
(* datetime objects                                                                             *)
(* ------------------------------------------------------------------------------------------- *)

Record fields := mkF { fY : Z; fM : Z; fD : Z; fh : Z; fmi : Z; fs : Z; fus : Z }.

Definition valid_fieldsb (f : fields) : bool :=
  valid_dateb (fY f) (fM f) (fD f)
  && (0 <=? fh f) && (fh f <? 24) && (0 <=? fmi f) && (fmi f <? 60)
  && (0 <=? fs f) && (fs f <? 60) && (0 <=? fus f) && (fus f <? 1000000).

(* the instant a set of calendar fields denotes when read as UTC *)
Definition instant_of_fields (f : fields) : Z :=
  (days_from_civil (fY f) (fM f) (fD f) * 86400 + fh f * 3600 + fmi f * 60 + fs f) * 1000000 + fus f.

Definition fields_of_instant (i : Z) : fields :=
  let secs := i / 1000000 in
  let us := i mod 1000000 in
  let days := secs / 86400 in
  let sod := secs mod 86400 in
  let '(y, m, d) := civil_from_days days in
  mkF y m d (sod / 3600) ((sod mod 3600) / 60) (sod mod 60) us.

(* tz = utcoffset in seconds; None = naive *)
Record dt := mkDT { dtf : fields; dttz : option Z }.

(* the instant an (aware) datetime denotes; a naive one denotes nothing by itself *)
Definition instant_of_dt (d : dt) : option Z :=
  match dttz d with
  | Some off => Some (instant_of_fields (dtf d) - off * 1000000)
  | None => None
  end.

(* datetime.replace(tzinfo=timezone.utc) *)
Definition replace_tz_utc (d : dt) : dt := mkDT (dtf d) (Some 0).

(* datetime.astimezone(timezone.utc).  [loc] is the UTC offset (seconds) of the process' local zone:
   Python reads a NAIVE datetime as local time here -- the reason the code must call replace() first. *)
Definition astimezone_utc (loc : Z) (d : dt) : dt :=
  let off := match dttz d with Some o => o | None => loc end in
  mkDT (fields_of_instant (instant_of_fields (dtf d) - off * 1000000)) (Some 0).

(* datetime.fromtimestamp(n, tz=timezone.utc) for an int *)
Definition fromtimestamp_int (n : Z) : dt := mkDT (fields_of_instant (n * 1000000)) (Some 0).

(* round-half-even of p/q (q > 0) *)
Definition round_half_even (p q : Z) : Z :=
  let fl := p / q in
  let r := p mod q in
  if 2 * r <? q then fl
  else if 2 * r >? q then fl + 1
  else if Z.even fl then fl else fl + 1.

(* datetime.fromtimestamp(x, tz=timezone.utc) for the binary float x = num / 2^k: CPython rounds the
   value to microseconds half-to-even *)
Definition fromtimestamp_float (num k : Z) : dt :=
  mkDT (fields_of_instant (round_half_even (num * 1000000) (2 ^ k))) (Some 0).

(* np.datetime64(x, "s").astype("float64") for x = count units of [unit_ns] nanoseconds: whole seconds
   (floor), then fromtimestamp; the trailing .replace(tzinfo=utc) is the identity on the result *)
Definition dt64_seconds (count unit_ns : Z) : Z := (count * unit_ns) / 1000000000.

(* ------------------------------------------------------------------------------------------- *)
(* ISO-8601 strings, character level (a string is the list of its character codes)              *)
(* ------------------------------------------------------------------------------------------- *)

Definition dig (c : Z) : option Z := if (48 <=? c) && (c <=? 57) then Some (c - 48) else None.

Definition num2 (a b : Z) : option Z :=
  match dig a, dig b with Some x, Some y => Some (10 * x + y) | _, _ => None end.

Definition num4 (a b c d : Z) : option Z :=
  match dig a, dig b, dig c, dig d with
  | Some x, Some y, Some z, Some w => Some (((10 * x + y) * 10 + z) * 10 + w)
  | _, _, _, _ => None
  end.

Definition chr (d : Z) : Z := 48 + d.
Definition fmt2 (v : Z) : list Z := [chr (v / 10 mod 10); chr (v mod 10)].
Definition fmt4 (v : Z) : list Z :=
  [chr (v / 1000 mod 10); chr (v / 100 mod 10); chr (v / 10 mod 10); chr (v mod 10)].
Definition fmt6 (v : Z) : list Z :=
  [chr (v / 100000 mod 10); chr (v / 10000 mod 10); chr (v / 1000 mod 10);
   chr (v / 100 mod 10); chr (v / 10 mod 10); chr (v mod 10)].

Definition cDASH := 45.  Definition cCOLON := 58.  Definition cT := 84.  Definition cSPACE := 32.
Definition cDOT := 46.   Definition cCOMMA := 44.  Definition cZ := 90.  Definition cPLUS := 43.

(* fraction: at least one digit, the first six are kept (right padded), further digits are dropped.
   [take_frac n acc s]: n = digits still wanted, returns (microseconds, digits seen, rest) *)
Fixpoint take_frac (n : nat) (acc : Z) (seen : Z) (s : list Z) : Z * Z * list Z :=
  match s with
  | c :: s' =>
      match dig c with
      | Some d =>
          match n with
          | S n' => take_frac n' (acc * 10 + d) (seen + 1) s'
          | O => take_frac O acc (seen + 1) s'
          end
      | None => (acc * 10 ^ Z.of_nat n, seen, s)
      end
  | [] => (acc * 10 ^ Z.of_nat n, seen, s)
  end.

(* zone designator: nothing | Z | (+|-)HH:MM | (+|-)HH:MM:SS ; result: Some None = naive,
   Some (Some off) = aware, None = malformed.  The offset must lie strictly inside (-24h, 24h). *)
Definition parse_zone (s : list Z) : option (option Z) :=
  match s with
  | [] => Some None
  | [c] => if c =? cZ then Some (Some 0) else None
  | sg :: h1 :: h2 :: c1 :: m1 :: m2 :: rest =>
      if negb ((sg =? cPLUS) || (sg =? cDASH)) then None
      else if negb (c1 =? cCOLON) then None
      else
        match num2 h1 h2, num2 m1 m2 with
        | Some h, Some m =>
            let sec :=
              match rest with
              | [] => Some 0
              | [c2; s1; s2] => if c2 =? cCOLON then num2 s1 s2 else None
              | _ => None
              end in
            match sec with
            | Some sc =>
                let mag := h * 3600 + m * 60 + sc in
                if 86400 <=? mag then None
                else Some (Some (if sg =? cDASH then - mag else mag))
            | None => None
            end
        | _, _ => None
        end
  | _ => None
  end.

(* datetime.fromisoformat on the shapes  YYYY-MM-DD[(T| )HH:MM:SS[(.|,)f+][zone]] , in stages *)
Definition parse_date (s : list Z) : option (Z * Z * Z * list Z) :=
  match s with
  | y1 :: y2 :: y3 :: y4 :: d1 :: mo1 :: mo2 :: d2 :: da1 :: da2 :: rest =>
      if negb ((d1 =? cDASH) && (d2 =? cDASH)) then None
      else
        match num4 y1 y2 y3 y4, num2 mo1 mo2, num2 da1 da2 with
        | Some y, Some mo, Some da =>
            if (1 <=? y) && valid_dateb y mo da then Some (y, mo, da, rest) else None
        | _, _, _ => None
        end
  | _ => None
  end.

Definition parse_hms (s : list Z) : option (Z * Z * Z * list Z) :=
  match s with
  | h1 :: h2 :: c1 :: mi1 :: mi2 :: c2 :: s1 :: s2 :: rest =>
      if negb ((c1 =? cCOLON) && (c2 =? cCOLON)) then None
      else
        match num2 h1 h2, num2 mi1 mi2, num2 s1 s2 with
        | Some h, Some mi, Some sc =>
            if (h <? 24) && (mi <? 60) && (sc <? 60) then Some (h, mi, sc, rest) else None
        | _, _, _ => None
        end
  | _ => None
  end.

Definition parse_frac (s : list Z) : option (Z * list Z) :=
  match s with
  | c :: r =>
      if (c =? cDOT) || (c =? cCOMMA) then
        let '(us, seen, r') := take_frac 6 0 0 r in
        if 1 <=? seen then Some (us, r') else None
      else Some (0, s)
  | [] => Some (0, s)
  end.

Definition parse_iso (s : list Z) : option dt :=
  match parse_date s with
  | None => None
  | Some (y, mo, da, rest) =>
      match rest with
      | [] => Some (mkDT (mkF y mo da 0 0 0 0) None)
      | sep :: r1 =>
          if negb ((sep =? cT) || (sep =? cSPACE)) then None
          else
            match parse_hms r1 with
            | None => None
            | Some (h, mi, sc, r2) =>
                match parse_frac r2 with
                | None => None
                | Some (us, r3) =>
                    match parse_zone r3 with
                    | Some tz => Some (mkDT (mkF y mo da h mi sc us) tz)
                    | None => None
                    end
                end
            end
      end
  end.

(* the spellings the harness generates (datetime.isoformat() and friends) *)
Inductive zone := ZoneNone | ZoneZ | ZoneOff (sign_neg : bool) (hh mm : Z).
Definition zone_offset (z : zone) : option Z :=
  match z with
  | ZoneNone => None
  | ZoneZ => Some 0
  | ZoneOff neg hh mm => Some (if neg then - (hh * 3600 + mm * 60) else hh * 3600 + mm * 60)
  end.
Definition fmt_zone (z : zone) : list Z :=
  match z with
  | ZoneNone => []
  | ZoneZ => [cZ]
  | ZoneOff neg hh mm => [if neg then cDASH else cPLUS] ++ fmt2 hh ++ [cCOLON] ++ fmt2 mm
  end.
(* [frac] = write the six fraction digits; otherwise the string stops at the seconds *)
Definition fmt_iso_gen (sep : Z) (frac : bool) (f : fields) (z : zone) : list Z :=
  fmt4 (fY f) ++ [cDASH] ++ fmt2 (fM f) ++ [cDASH] ++ fmt2 (fD f) ++ [sep]
  ++ fmt2 (fh f) ++ [cCOLON] ++ fmt2 (fmi f) ++ [cCOLON] ++ fmt2 (fs f)
  ++ (if frac then [cDOT] ++ fmt6 (fus f) else []) ++ fmt_zone z.

(* strftime("%Y-%m-%dT%H:%M:%S.%fZ") for years 1000..9999 (glibc does not pad smaller years) *)
Definition format_iso (f : fields) : list Z := fmt_iso_gen cT true f ZoneZ.

Definition zone_ok (z : zone) : Prop :=
  match z with ZoneOff _ hh mm => 0 <= hh < 24 /\ 0 <= mm < 60 | _ => True end.
(* the offset a zone designator denotes (none = the string is read as UTC) *)
Definition zoff (z : zone) : Z := match zone_offset z with Some o => o | None => 0 end.

(* ------------------------------------------------------------------------------------------- *)
(* the repository's functions                                                                   *)
(* ------------------------------------------------------------------------------------------- *)

Inductive repr :=
| RNone
| RAware (f : fields) (off : Z)         (* datetime with tzinfo, utcoffset in seconds *)
| RNaive (f : fields)                   (* datetime without tzinfo *)
| RStr (s : list Z)                     (* str *)
| RInt (n : Z)                          (* int epoch seconds *)
| RFloat (num k : Z)                    (* float epoch seconds = num / 2^k *)
| RDT64 (count unit_ns : Z)             (* numpy datetime64: count * unit_ns nanoseconds *)
| RSeq (l : list repr).                 (* list / tuple / ndarray / DataArray / Series *)

Inductive result :=
| ResNone
| ResDT (d : dt)
| ResSeq (l : list result)
| ResErr.                               (* an exception *)

Fixpoint last_opt (s : list Z) : option Z :=
  match s with [] => None | [c] => Some c | _ :: s' => last_opt s' end.

(* time[:-1] + "+00:00" *)
Definition z_to_offset (s : list Z) : list Z := removelast s ++ [cPLUS; 48; 48; cCOLON; 48; 48].

(* the [str] branch; the strptime fallback is not modelled: on the modelled shapes it fails whenever
   fromisoformat fails *)
Definition str_to_utc (loc : Z) (s : list Z) : result :=
  match last_opt s with
  | None => ResErr                                   (* time[-1] on the empty string: IndexError *)
  | Some c =>
      let s' := if c =? cZ then z_to_offset s else s in
      match parse_iso s' with
      | Some d =>
          let d' := match dttz d with None => replace_tz_utc d | Some _ => d end in
          ResDT (astimezone_utc loc d')
      | None => ResErr
      end
  end.

Fixpoint to_datetime_utc (loc : Z) (r : repr) : result :=
  match r with
  | RNone => ResNone
  | RSeq l => ResSeq (map (to_datetime_utc loc) l)
  | RAware f off => ResDT (astimezone_utc loc (mkDT f (Some off)))
  | RNaive f => ResDT (astimezone_utc loc (replace_tz_utc (mkDT f None)))
  | RStr s => str_to_utc loc s
  | RDT64 c u => ResDT (replace_tz_utc (fromtimestamp_int (dt64_seconds c u)))
  | RInt n => ResDT (fromtimestamp_int n)
  | RFloat num k => ResDT (fromtimestamp_float num k)
  end.

(* ---- the instants a result denotes (specification side of the theorems) ---- *)
Inductive itree := INone | IInst (i : Z) | ISeq (l : list itree).

Fixpoint all_some {A : Type} (l : list (option A)) : option (list A) :=
  match l with
  | [] => Some []
  | Some x :: l' => match all_some l' with Some r => Some (x :: r) | None => None end
  | None :: _ => None
  end.

(* Some tree only when every datetime in the result is a valid calendar datetime, aware, with
   utcoffset 0; the leaves are the instants of those datetimes *)
Fixpoint result_instants (r : result) : option itree :=
  match r with
  | ResNone => Some INone
  | ResErr => None
  | ResDT d =>
      match dttz d with
      | Some 0 => if valid_fieldsb (dtf d) then Some (IInst (instant_of_fields (dtf d))) else None
      | _ => None
      end
  | ResSeq l => option_map ISeq (all_some (map result_instants l))
  end.

Definition same_instant (loc : Z) (r : repr) (t : itree) : Prop :=
  result_instants (to_datetime_utc loc r) = Some t.

(* int(x.timestamp()) : whole seconds, truncated toward zero *)
Definition timestamp_int (d : dt) : option Z :=
  match instant_of_dt d with
  | Some i => Some (Z.quot i 1000000)
  | None => None
  end.

(* to_datetime64: nanoseconds since the epoch (scalar or list) *)
Inductive result64 := R64None | R64 (ns : Z) | R64Seq (l : list result64) | R64Err.

Definition dt_to_64 (r : result) : result64 :=
  match r with
  | ResDT d => match timestamp_int d with Some s => R64 (s * 1000000000) | None => R64Err end
  | _ => R64Err
  end.

Definition to_datetime64 (loc : Z) (r : repr) : result64 :=
  match r with
  | RNone => R64None
  | _ =>
      match to_datetime_utc loc r with
      | ResDT d => dt_to_64 (ResDT d)
      | ResSeq l =>                                (* a None or a nested list inside raises *)
          if forallb (fun x => match x with ResDT _ => true | _ => false end) l
          then R64Seq (map dt_to_64 l) else R64Err
      | ResNone => R64None
      | ResErr => R64Err
      end
  end.

(* datetime_to_iso_time_string: scalars only (a sequence has no strftime) *)
Definition datetime_to_iso_time_string (loc : Z) (r : repr) : option (option (list Z)) :=
  match r with
  | RNone => Some None
  | _ =>
      match to_datetime_utc loc r with
      | ResDT d => Some (Some (format_iso (dtf d)))
      | _ => None
      end
  end.

(* ------------------------------------------------------------------------------------------- *)
(* packed integers: hand-written decoders (the specification side)                              *)
(* ------------------------------------------------------------------------------------------- *)

Definition time_from_timeint (t : Z) : Z :=
  if t >=? 10000 then
    let h := t / 10000 in let m := (t - h * 10000) / 100 in let s := t - h * 10000 - m * 100 in
    h * 3600 + m * 60 + s
  else if t >=? 100 then
    let h := t / 100 in let m := t - h * 100 in h * 3600 + m * 60
  else t * 3600.

Definition date_from_dateint (t : Z) : Z * Z * Z :=
  let y := t / 10000 in
  let m := (t - y * 10000) / 100 in
  let d := t - y * 10000 - m * 100 in
  if t >? 1000000 then (y, m, d) else (y + 2000, m, d).

(* datetime(y, m, d, tzinfo=utc) + timedelta(seconds=s): None when datetime() raises ValueError *)
Definition date_plus_seconds (ymd : Z * Z * Z) (secs : Z) : option dt :=
  let '(y, m, d) := ymd in
  if (1 <=? y) && (y <=? 9999) && valid_dateb y m d then
    Some (mkDT (fields_of_instant (instant_of_fields (mkF y m d 0 0 0 0) + secs * 1000000)) (Some 0))
  else None.

Definition datetime_from_time_and_date_integers (date_int time_int : Z) : option dt :=
  date_plus_seconds (date_from_dateint date_int) (time_from_timeint time_int).

(* the three packings of a time of day / the two packings of a date *)
Inductive tform := HH | HHMM | HHMMSS.
Definition pack_time (fm : tform) (h m s : Z) : Z :=
  match fm with HH => h | HHMM => h * 100 + m | HHMMSS => h * 10000 + m * 100 + s end.
(* which (form, fields) are valid packed times: the form is recognisable from the magnitude of the
   integer only when its leading field is non-zero (hh itself may be 0: the integers 0..23) *)
Definition valid_packed_time (fm : tform) (h m s : Z) : Prop :=
  match fm with
  | HH => 0 <= h <= 23 /\ m = 0 /\ s = 0
  | HHMM => 1 <= h <= 23 /\ 0 <= m <= 59 /\ s = 0
  | HHMMSS => 1 <= h <= 23 /\ 0 <= m <= 59 /\ 0 <= s <= 59
  end.
Definition pack_date4 (y m d : Z) : Z := y * 10000 + m * 100 + d.        (* yyyymmdd *)
Definition pack_date2 (yy m d : Z) : Z := yy * 10000 + m * 100 + d.       (* yymmdd, year 2000+yy *)
