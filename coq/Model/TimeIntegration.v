(* Model of tools/time_integration.py : integration_stencil (exact, over Q) and
   integrate (over R).  DEFINITIONS ONLY. *)
From Coq Require Import QArith Reals List Arith Lia.
Import ListNotations.

(* ------------------------------------------------------------------ *)
(* Stencils, exactly as the loops of the code, over Q                   *)
(* ------------------------------------------------------------------ *)
Open Scope Q_scope.

Definition qnth (l : list Q) (i : nat) : Q := nth i l 0.

Fixpoint qpow (q : Q) (k : nat) : Q :=
  match k with O => 1 | S k' => q * qpow q k' end.

Definition qofnat (n : nat) : Q := inject_Z (Z.of_nat n).

(* poly[1:jj+1] += -ii * poly[0:jj]   (right-hand side evaluated on the old array) *)
Definition mul_lin_step (ii jj : nat) (p : list Q) : list Q :=
  map (fun m => if (andb (Nat.leb 1 m) (Nat.leb m jj))
                then qnth p m + (- qofnat ii) * qnth p (m - 1)
                else qnth p m)
      (seq 0 (length p)).

(* state of the loop in lagrange_base_polynomial_coef: (poly, denominator, jj) *)
Definition lag_body (idx : nat) (s : list Q * Q * nat) (ii : nat) : list Q * Q * nat :=
  let '(p, den, jj) := s in
  if Nat.eqb ii idx then s
  else let jj' := S jj in
       (mul_lin_step ii jj' p, den * (qofnat idx - qofnat ii), jj').

Definition lagrange_coef (order idx : nat) : list Q :=
  let p0 := 1 :: repeat 0 order in
  let '(p, den, _) := fold_left (lag_body idx) (seq 0 (S order)) (p0, 1, O) in
  map (fun c => c / den) p.

(* integrated_lagrange_base_polynomial_coef *)
Definition integrated_coef (order idx : nat) : list Q :=
  let base := lagrange_coef (order - 1) idx in           (* length order *)
  map (fun ii => if Nat.ltb ii (order - 1)
                 then qnth base ii / qofnat (order - ii)
                 else if Nat.ltb ii order then qnth base ii else 0)
      (seq 0 (S order)).

(* evaluate_polynomial(poly, x) with integer x *)
Definition eval_poly (p : list Q) (x : Q) : Q :=
  let order := (length p - 1)%nat in
  fold_left (fun acc ii => acc + qnth p ii * qpow x (order - ii)) (seq 0 (S order)) 0.

Definition stencil (order n : nat) : list Q :=
  let ne := inject_Z (Z.of_nat order - Z.of_nat n) in
  map (fun ii => let bp := integrated_coef order ii in
                 eval_poly bp ne - eval_poly bp (ne - 1))
      (seq 0 order).

(* offset (relative to the current sample ii) of stencil entry i *)
Definition offsetZ (order n i : nat) : Z := (Z.of_nat i - (Z.of_nat order - Z.of_nat n))%Z.

Close Scope Q_scope.

(* ------------------------------------------------------------------ *)
(* integrate, over R                                                    *)
(* ------------------------------------------------------------------ *)
Open Scope R_scope.

Definition rnth (l : list R) (i : nat) : R := nth i l 0.

(* sum_k w_k * x[start + k]   (the inner jj loop) *)
Fixpoint dotwin (w x : list R) (start : nat) : R :=
  match w with
  | [] => 0
  | wk :: ws => wk * rnth x start + dotwin ws x (S start)
  end.

(* control state of the loop; it depends on the time vector only *)
Record ctl := mkctl { prev_dt : R; restart : bool; nconst : nat }.

(* one pass through the loop body up to the choice of stencil.
   Returns the new control state and whether the primary stencil is used. *)
Definition ctl_step (t : list R) (n width nt : nat) (s : ctl) (ii : nat) : ctl * bool :=
  let curr_dt := rnth t ii - rnth t (ii - 1) in
  let in_range := Nat.ltb (ii + n - 1) nt in
  let future_dt := if in_range then rnth t (ii + n - 1) - rnth t (ii + n - 2) else curr_dt in
  let restart1 := if in_range then restart s else true in
  let jitter := if Rgt_dec (Rabs (future_dt - prev_dt s)) (1 / 100 * curr_dt) then true else false in
  let restart2 := if jitter then true else restart1 in
  let nconst2 := if jitter then O else nconst s in
  if restart2 then
    let nconst3 := S nconst2 in
    let restart3 := if Nat.eqb nconst3 width then false else true in
    (mkctl curr_dt restart3 nconst3, false)
  else
    (mkctl curr_dt restart2 nconst2, true).

Definition delta_of (x prim : list R) (n width ii : nat) (use_primary : bool) : R :=
  if use_primary then dotwin prim x (ii - (width - n))
  else 1 / 2 * rnth x (ii - 1) + 1 / 2 * rnth x ii.

Fixpoint go (t x prim : list R) (n width nt : nat) (idx : list nat) (s : ctl) (prev_out : R)
  : list R :=
  match idx with
  | [] => []
  | ii :: rest =>
      let '(s', up) := ctl_step t n width nt s ii in
      let out := prev_out + delta_of x prim n width ii up * (rnth t ii - rnth t (ii - 1)) in
      out :: go t x prim n width nt rest s' out
  end.

Definition stencilR (order n : nat) : list R := map Q2R (stencil order n).

(* integrate(time, signal, order, n, start_value); requires length >= 2 as the code does *)
Definition integrate (t x : list R) (order n : nat) (start : R) : list R :=
  let prim := stencilR order n in
  let width := length prim in
  let nt := length x in
  let s0 := mkctl (rnth t 1 - rnth t 0) true O in
  start :: go t x prim n width nt (seq 1 (nt - 1)) s0 start.

(* the sequence of stencil choices (true = primary), used to state the jitter rule *)
Fixpoint choices (t : list R) (n width nt : nat) (idx : list nat) (s : ctl) : list bool :=
  match idx with
  | [] => []
  | ii :: rest => let '(s', up) := ctl_step t n width nt s ii in
                  up :: choices t n width nt rest s'
  end.
