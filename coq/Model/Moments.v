(* Model of wavespectra/spectrum.py : frequency_moment, _range, m0/m1/m2, hm0, tm01, tm02
   (WaveSpectrum) and of the directional integration that defines `e` for a 2D spectrum
   (FrequencyDirectionSpectrum.e, direction_step, tools/math.wrapped_difference).
   DEFINITIONS ONLY.

   A value that may be NaN is [option R] (None = NaN).  One spectrum is the list of its
   variance densities along the frequency axis; a batch (leading space/time dimensions) is a
   list of spectra over one shared frequency grid. *)
From Coq Require Import Reals List ZArith.
From OSU.Lib Require Import Sums Trapz.
Import ListNotations.
Open Scope R_scope.

(* ---------- NaN-aware scalars ---------- *)
Definition fill0 (o : option R) : R := match o with Some v => v | None => 0 end.        (* fillna(0) *)
Definition omul (o : option R) (c : R) : option R :=                                      (* NaN * c = NaN *)
  match o with Some v => Some (v * c) | None => None end.
Definition oadd (a b : option R) : option R :=
  match a, b with Some x, Some y => Some (x + y) | _, _ => None end.

(* ---------- _range : fmin <= f < fmax ; fmax = None stands for +inf ---------- *)
Definition in_band (fmin : R) (fmax : option R) (f : R) : bool :=
  if Rle_dec fmin f then
    match fmax with
    | None => true
    | Some m => if Rlt_dec f m then true else false
    end
  else false.

(* the grid points selected by the boolean mask, with their densities *)
Definition band_pts (fmin : R) (fmax : option R) (f : list R) (e : list (option R))
  : list (R * option R) :=
  filter (fun p => in_band fmin fmax (fst p)) (combine f e).

(* (e * f**power).fillna(0) : the NaN survives the product and is filled afterwards *)
Definition integrand (n : nat) (p : R * option R) : R := fill0 (omul (snd p) (fst p ^ n)).

(* frequency_moment(power, fmin, fmax) : trapezoid over the selected points *)
Definition moment (n : nat) (fmin : R) (fmax : option R) (f : list R) (e : list (option R)) : R :=
  trapz (pts fst (integrand n) (band_pts fmin fmax f e)).

Definition m0 := moment 0.
Definition m1 := moment 1.
Definition m2 := moment 2.

(* hm0 = 4 sqrt(m0) ; numpy gives NaN for a negative argument *)
Definition hm0 fmin fmax f e : option R :=
  let a := m0 fmin fmax f e in
  if Rlt_dec a 0 then None else Some (4 * sqrt a).

(* tm01 = m0 / m1 ; not a finite number when m1 = 0 *)
Definition tm01 fmin fmax f e : option R :=
  let a := m0 fmin fmax f e in let b := m1 fmin fmax f e in
  if Req_EM_T b 0 then None else Some (a / b).

(* tm02 = sqrt(m0 / m2) *)
Definition tm02 fmin fmax f e : option R :=
  let a := m0 fmin fmax f e in let b := m2 fmin fmax f e in
  if Req_EM_T b 0 then None
  else let q := a / b in if Rlt_dec q 0 then None else Some (sqrt q).

(* spectra scaled / added bin by bin (NaN pattern kept) *)
Definition scale_spec (c : R) (e : list (option R)) : list (option R) :=
  map (fun o => omul o c) e.
Definition add_spec (e e' : list (option R)) : list (option R) :=
  map (fun p => oadd (fst p) (snd p)) (combine e e').
Definition same_mask (e e' : list (option R)) : Prop :=
  Forall2 (fun a b => a = None <-> b = None) e e'.

(* batches: every bulk function is applied point by point *)
Definition moment_batch n fmin fmax f (es : list (list (option R))) : list R :=
  map (moment n fmin fmax f) es.
Definition hm0_batch fmin fmax f es := map (hm0 fmin fmax f) es.
Definition tm01_batch fmin fmax f es := map (tm01 fmin fmax f) es.
Definition tm02_batch fmin fmax f es := map (tm02 fmin fmax f) es.

(* ---------- 2D spectra: e(f) = sum_j fill0(E_ij * dtheta_j) ---------- *)
(* Python's float % for a positive period *)
Definition fmod (x p : R) : R := x - IZR (Int_part (x / p)) * p.
(* wrapped_difference(delta, period=360): (delta + period - discont) % period - period + discont *)
Definition wrap360 (d : R) : R := fmod (d + 360 - 180) 360 - 360 + 180.

(* np.diff(direction, append=direction[0]) *)
Fixpoint diffs (first : R) (l : list R) : list R :=
  match l with
  | [] => []
  | a :: t =>
      match t with
      | [] => [first - a]
      | b :: _ => (b - a) :: diffs first t
      end
  end.

Definition dstep (th : list R) : list R :=
  match th with
  | [] => []
  | t0 :: _ => map wrap360 (diffs t0 th)
  end.

(* (row * direction_step).sum(direction, skipna=True) *)
Definition dint (row : list (option R)) (dth : list R) : R :=
  sumR (map (fun p => fill0 (omul (fst p) (snd p))) (combine row dth)).

(* property e of a FrequencyDirectionSpectrum: never NaN (an all-NaN row sums to 0) *)
Definition e2d (th : list R) (E : list (list (option R))) : list (option R) :=
  map (fun row => Some (dint row (dstep th))) E.

Definition moment2d n fmin fmax f th E := moment n fmin fmax f (e2d th E).
Definition hm0_2d fmin fmax f th E := hm0 fmin fmax f (e2d th E).
Definition tm01_2d fmin fmax f th E := tm01 fmin fmax f (e2d th E).
Definition tm02_2d fmin fmax f th E := tm02 fmin fmax f (e2d th E).

Definition scale_spec2d (c : R) (E : list (list (option R))) := map (scale_spec c) E.
