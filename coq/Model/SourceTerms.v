(* Model of wavephysics/balance : ST4 wind input, ST4 / ST6 / Romero whitecapping, bulk rates,
   imbalance.  DEFINITIONS ONLY (proofs in Proofs/SourceTerms.v).

   Anchors (read line by line):
     st4_wind_input.py        _st4_wind_generation_point
     st4_wave_breaking.py     st4_band_integrated_saturation, st4_cumulative_breaking,
                              st4_saturation_breaking, st4_dissipation_breaking
     st6_wave_breaking.py     st6_dissipation, st6_inherent, st6_cumulative
     romero_wave_breaking.py  romero_dissipation_breaking, breaking_probability
     generation.py            _wind_generation, _bulk_wind_generation
     dissipation.py           _dissipation, _bulk_dissipation
     balance.py               evaluate_imbalance, evaluate_bulk_imbalance
     wavespectra/operations.py numba_integrate_spectral_data, numba_directionally_integrate_spectral_data
     wavetheory/lineardispersion.py inverse_intrinsic_dispersion_relation, intrinsic_group_velocity

   Conventions: a spectrum at one point is a [field] (list of rows, one row per frequency);
   the spectral grid is the dictionary the numba code receives (radian frequency, radian
   direction, frequency step, direction step); depth = None is +inf.  The operation order of
   every arithmetic expression follows the Python source so that the extracted model follows
   the same float computation. *)
From Coq Require Import Reals List Arith ZArith.
From OSU.Lib Require Import SrcAuxDefs.
Import ListNotations.
Open Scope R_scope.

(* ------------------------------------------------------------------ *)
(* grid, wind, parameters                                               *)
(* ------------------------------------------------------------------ *)
Record grid := mkgrid { g_w : list R;     (* radian_frequency *)
                        g_th : list R;    (* radian_direction *)
                        g_df : list R;    (* frequency_step (Hz) *)
                        g_dth : list R }. (* direction_step (degrees) *)
Definition nfreq (g : grid) : nat := length (g_w g).
Definition ndir (g : grid) : nat := length (g_th g).
Definition gw (g : grid) i := rnth (g_w g) i.
Definition gth (g : grid) j := rnth (g_th g) j.
Definition gdf (g : grid) i := rnth (g_df g) i.
Definition gdth (g : grid) j := rnth (g_dth g) j.

Inductive wind_kind := U10 | Ustar.
Record wind := mkwind { wspeed : R; wdir : R; wkind : wind_kind }.

(* ST4WaveGenerationParameters; charnock_maximum_roughness = None is +inf *)
Record gen_par := mkgp {
  gp_g : R; gp_charnock_max : option R; gp_charnock : R; gp_rho_a : R; gp_rho_w : R;
  gp_kappa : R; gp_zalpha : R; gp_betamax : R; gp_elev : R; gp_nu_air : R; gp_visc : R }.

Definition GRAV : R := 981 / 100.      (* wavetheory.constants.GRAV, default of the dispersion routines *)

(* ------------------------------------------------------------------ *)
(* linear dispersion: Newton iteration for the wavenumber, group speed  *)
(* ------------------------------------------------------------------ *)
Definition tanh_kd (depth : option R) (k : R) : R :=
  match depth with None => 1 | Some d => tanh (k * d) end.

(* intrinsic_dispersion_relation: sqrt(grav * k * tanh(k * dep)) *)
Definition disp_w (grav : R) (depth : option R) (k : R) : R := sqrt (grav * k * tanh_kd depth k).

Definition k_first (grav : R) (depth : option R) (w : R) : R :=
  match depth with
  | None => w ^ 2 / grav
  | Some d => if Rgt_dec w (sqrt (grav / d)) then w ^ 2 / grav else w / sqrt (grav * d)
  end.

(* derivative of the error = group velocity, np.where(kd > 5, ...) *)
Definition k_deriv (depth : option R) (w k : R) : R :=
  match depth with
  | None => 1 / 2 * w / k
  | Some d => let kd := k * d in
              if Rgt_dec kd 5 then 1 / 2 * w / k else (1 / 2 + kd / sinh (2 * kd)) * w / k
  end.

Definition all_converged (ws errs : list R) : bool :=
  forallb (fun we => if Rlt_dec (Rabs (snd we) / fst we) (1 / 1000) then true else false)
          (combine ws errs).

(* the vectorised loop: every element is updated until ALL relative errors are < 1e-3 *)
Fixpoint newton_k (fuel : nat) (grav : R) (depth : option R) (ws ks errs : list R) : list R :=
  match fuel with
  | O => ks
  | S f =>
      let ks' := map (fun t => let '(w, (k, e)) := t in k - e / k_deriv depth w k)
                     (combine ws (combine ks errs)) in
      let errs' := map (fun t => disp_w grav depth (snd t) - fst t) (combine ws ks') in
      if all_converged ws errs' then ks' else newton_k f grav depth ws ks' errs'
  end.

Definition wavenumbers (grav : R) (depth : option R) (ws : list R) : list R :=
  let ks0 := map (k_first grav depth) ws in
  let e0 := map (fun t => disp_w grav depth (snd t) - fst t) (combine ws ks0) in
  newton_k 10 grav depth ws ks0 e0.

(* ratio_group_velocity_to_phase_velocity * phase_velocity, grav = GRAV *)
Definition cg_ratio (depth : option R) (k : R) : R :=
  match depth with
  | None => 1 / 2
  | Some d => let kd := k * d in if Rgt_dec kd 5 then 1 / 2 else 1 / 2 + kd / sinh (2 * kd)
  end.
Definition group_velocity (depth : option R) (k : R) : R :=
  cg_ratio depth k * (disp_w GRAV depth k / k).

(* ------------------------------------------------------------------ *)
(* ST4 wind input   (_st4_wind_generation_point)                        *)
(* ------------------------------------------------------------------ *)
(* np.cos((theta - wdir*pi/180 + pi) % (2 pi) - pi) *)
Definition cos_mutual (th wd : R) : R :=
  cos (pymod (th - wd * PI / 180 + PI) (2 * PI) - PI).

Definition friction_velocity (p : gen_par) (w : wind) (z0 : R) : R :=
  match wkind w with
  | U10 => wspeed w * gp_kappa p / ln (gp_elev p / z0)
  | Ustar => wspeed w
  end.

Definition gen_const (p : gen_par) : R :=
  gp_betamax p / gp_kappa p ^ 2 * gp_rho_a p / gp_rho_w p.

(* wavenumber used by the input term and by the resolved stress *)
Definition input_wavenumbers (p : gen_par) (depth : option R) (ws : list R) : list R :=
  match depth with
  | None => map (fun w => w ^ 2 / gp_g p) ws
  | Some d => wavenumbers GRAV (Some d) ws
  end.

(* growth rate of one bin: c = cosine of the mutual angle, k, w of the frequency *)
Definition st4_growth (p : gen_par) (ustar z0 k w c : R) : R :=
  if Rgt_dec c 0 then
    let W := k * ustar / w * c in
    let lz := ln (k * z0) + gp_kappa p / (W + gp_zalpha p * c) in
    let lzc := if Rgt_dec lz 0 then 0 else lz in
    gen_const p * exp lzc * lzc ^ 4 * W ^ 2 * w
  else 0.

Definition st4_rate (p : gen_par) (ustar z0 k w c e : R) : R :=
  if Rgt_dec c 0 then st4_growth p ustar z0 k w c * e else 0.

(* the core with the wavenumbers given *)
Definition st4_input_k (p : gen_par) (wnd : wind) (z0 : R) (g : grid) (ks : list R) (E : field)
  : field :=
  let ustar := friction_velocity p wnd z0 in
  let cs := map (fun th => cos_mutual th (wdir wnd)) (g_th g) in
  mk_field (nfreq g) (ndir g)
    (fun i j => st4_rate p ustar z0 (rnth ks i) (gw g i) (rnth cs j) (fnth E i j)).

Definition st4_input (p : gen_par) (wnd : wind) (depth : option R) (z0 : R) (g : grid) (E : field)
  : field :=
  st4_input_k p wnd z0 g (input_wavenumbers p depth (g_w g)) E.

(* ------------------------------------------------------------------ *)
(* bulk integration  (numba_integrate_spectral_data and the directional one) *)
(* ------------------------------------------------------------------ *)
Definition bulk (g : grid) (S : field) : R :=
  sum2_upto (fun i j => fnth S i j * gdf g i * gdth g j) (nfreq g) (ndir g).

Definition dir_integrate (g : grid) (S : field) : list R :=
  map (fun i => sum_upto (fun j => fnth S i j * gdth g j) (ndir g)) (seq 0 (nfreq g)).

(* ------------------------------------------------------------------ *)
(* ST4 whitecapping                                                     *)
(* ------------------------------------------------------------------ *)
Record st4b_par := mksb {
  sb_const : R; sb_dircontrol : R; sb_cospower : R; sb_width_deg : R; sb_threshold : R;
  cb_const : R; cb_maxrel : R }.

(* E * cg * k**3 / 2 / pi *)
Definition dir_saturation (k cg e : R) : R := e * cg * k ^ 3 / 2 / PI.

Definition mutual_angle (a b : R) : R := pymod (a - b + PI) (2 * PI) - PI.

(* st4_band_integrated_saturation, entry (i, j).  A direction exactly on the edge of the band
   belongs to it: the code compares against width + 1e-9 rad *)
Definition band_edge_tolerance : R := 1 / 1000000000.
Definition band_term (q : st4b_par) (g : grid) (ks cgs : list R) (E : field) (i j jj : nat) : R :=
  let m := mutual_angle (gth g jj) (gth g j) in
  if Rgt_dec (Rabs m) (sb_width_deg q * PI / 180 + band_edge_tolerance) then 0
  else dir_saturation (rnth ks i) (rnth cgs i) (fnth E i jj) * powr (cos m) (sb_cospower q) * gdth g jj.

Definition band_saturation (q : st4b_par) (g : grid) (ks cgs : list R) (E : field) : field :=
  mk_field (nfreq g) (ndir g) (fun i j => sum_upto (band_term q g ks cgs E i j) (ndir g)).

(* jacobian[i] = 2 pi * (1 / cg_i) * (pi / 180) *)
Definition cum_jacobian (cg : R) : R := 2 * PI * (1 / cg) * (PI / 180).

(* one dummy-frequency row of the cumulative term (inner dummy-direction loop) *)
Definition cum_row (g : grid) (cs ss speeds cgs : list R) (thr : field) (ce cn : R) (i' : nat) (acc : R)
  : R :=
  fold_left
    (fun a j' =>
       let t := fnth thr i' j' in
       if Rle_dec t 0 then a
       else
         let integrant := t ^ 2 * cum_jacobian (rnth cgs i') in
         let de := rnth cs j' * rnth speeds i' - ce in
         let dn := rnth ss j' * rnth speeds i' - cn in
         let dmag := sqrt (de ^ 2 + dn ^ 2) in
         a + gdf g i' * gdth g j' * dmag * integrant)
    (seq 0 (ndir g)) acc.

(* the dummy-frequency loop with its `break` at the first frequency above the limit *)
Fixpoint cum_rows (g : grid) (cs ss speeds cgs : list R) (thr : field) (ce cn limit : R)
         (idx : list nat) (acc : R) : R :=
  match idx with
  | [] => acc
  | i' :: rest =>
      if Rgt_dec (gw g i') limit then acc
      else cum_rows g cs ss speeds cgs thr ce cn limit rest
                    (cum_row g cs ss speeds cgs thr ce cn i' acc)
  end.

Definition cum_strength (q : st4b_par) (g : grid) (cs ss speeds cgs : list R) (thr : field) (i j : nat) : R :=
  cum_rows g cs ss speeds cgs thr
           (rnth cs j * rnth speeds i) (rnth ss j * rnth speeds i)
           (gw g i * cb_maxrel q) (seq 0 (nfreq g)) 0.

Definition st4_cumulative (q : st4b_par) (g : grid) (ks cgs : list R) (B E : field) : field :=
  if Rgt_dec (cb_const q) 0 then
    let cs := map cos (g_th g) in
    let ss := map sin (g_th g) in
    let speeds := map (fun t => fst t / snd t) (combine (g_w g) ks) in
    let thr := mk_field (nfreq g) (ndir g)
                 (fun i j => sqrt (fnth B i j) - sqrt (sb_threshold q)) in
    mk_field (nfreq g) (ndir g)
      (fun i j => - (144 / 100) * cb_const q * cum_strength q g cs ss speeds cgs thr i j * fnth E i j)
  else mk_field (nfreq g) (ndir g) (fun _ _ => 0).

Definition sat_rel_level (q : st4b_par) (maxB b : R) : R :=
  let iso0 := (maxB - sb_threshold q) / sb_threshold q * sb_dircontrol q in
  let iso := if Rle_dec iso0 0 then 0 else iso0 in
  let dir0 := (b - sb_threshold q) / sb_threshold q * (1 - sb_dircontrol q) in
  let dir := if Rlt_dec dir0 0 then 0 else dir0 in
  iso + dir.

Definition st4_saturation_breaking (q : st4b_par) (g : grid) (B E : field) : field :=
  if Rgt_dec (sb_const q) 0 then
    mk_field (nfreq g) (ndir g)
      (fun i j => - sb_const q * sat_rel_level q (row_max (nth i B [])) (fnth B i j) ^ 2
                  * gw g i * fnth E i j)
  else mk_field (nfreq g) (ndir g) (fun _ _ => 0).

(* the core with wavenumber and group velocity given *)
Definition st4_dissipation_k (q : st4b_par) (g : grid) (ks cgs : list R) (E : field) : field :=
  let B := band_saturation q g ks cgs E in
  let cum := st4_cumulative q g ks cgs B E in
  let sat := st4_saturation_breaking q g B E in
  mk_field (nfreq g) (ndir g) (fun i j => fnth cum i j + fnth sat i j).

Definition st4_dissipation (q : st4b_par) (depth : option R) (g : grid) (E : field) : field :=
  let ks := wavenumbers GRAV depth (g_w g) in
  st4_dissipation_k q g ks (map (group_velocity depth) ks) E.

(* ------------------------------------------------------------------ *)
(* ST6 whitecapping                                                     *)
(* ------------------------------------------------------------------ *)
Record st6_par := mks6 { s6_p1 : R; s6_p2 : R; s6_a1 : R; s6_a2 : R; s6_threshold : R }.

Definition st6_exceedence (q : st6_par) (g : grid) (ks cgs : list R) (E : field) : list R :=
  map (fun t => let '(ef, (k, cg)) := t in
                let sat := ef * cg * k ^ 3 / 2 / PI in
                let r := (sat - s6_threshold q) / s6_threshold q in
                if Rgt_dec r 0 then r else 0)
      (combine (dir_integrate g E) (combine ks cgs)).

Definition st6_inherent (q : st6_par) (g : grid) (exc : list R) (E : field) : field :=
  mk_field (nfreq g) (ndir g)
    (fun i j => - s6_a1 q * powr (rnth exc i) (s6_p1 q) * (gw g i / 2 / PI) * fnth E i j).

Definition st6_cumulative (q : st6_par) (g : grid) (exc : list R) (E : field) : field :=
  mk_field (nfreq g) (ndir g)
    (fun i j => - s6_a2 q * powr (sum_upto (fun i' => rnth exc i' * gdf g i') (S i)) (s6_p2 q)
                * fnth E i j).

Definition st6_dissipation_k (q : st6_par) (g : grid) (ks cgs : list R) (E : field) : field :=
  let exc := st6_exceedence q g ks cgs E in
  let inh := st6_inherent q g exc E in
  let cum := st6_cumulative q g exc E in
  mk_field (nfreq g) (ndir g) (fun i j => fnth inh i j + fnth cum i j).

Definition st6_dissipation (q : st6_par) (depth : option R) (g : grid) (E : field) : field :=
  let ks := wavenumbers GRAV depth (g_w g) in
  st6_dissipation_k q g ks (map (group_velocity depth) ks) E.

(* ------------------------------------------------------------------ *)
(* Romero whitecapping (strictly positive spectra: the code divides by the saturation) *)
(* ------------------------------------------------------------------ *)
Record rom_par := mkrom { ro_const : R; ro_threshold : R; ro_int_threshold : R; ro_prob : R; ro_g : R }.

Definition romero_k (q : rom_par) (g : grid) (ks cgs : list R) (E : field) : field :=
  let dsat := mk_field (nfreq g) (ndir g)
                (fun i j => dir_saturation (rnth ks i) (rnth cgs i) (fnth E i j)) in
  let sat := dir_integrate g dsat in
  let crest := map (fun s => let delta := sqrt s - sqrt (ro_int_threshold q) in
                             if Rgt_dec delta 0 then ro_const q * powr delta (5 / 2) / ro_g q ^ 2 else 0)
                   sat in
  mk_field (nfreq g) (ndir g)
    (fun i j =>
       let k := rnth ks i in
       let prob := if Rgt_dec k 0
                   then ro_prob q * exp (- ro_threshold q / fnth dsat i j) / k else 0 in
       - (2 * PI / rnth cgs i * rnth crest i * prob * (gw g i / k) ^ 5 / ro_g q ^ 2)).

Definition romero_dissipation (q : rom_par) (depth : option R) (g : grid) (E : field) : field :=
  let ks := wavenumbers GRAV depth (g_w g) in
  romero_k q g ks (map (group_velocity depth) ks) E.

(* ------------------------------------------------------------------ *)
(* imbalance and batches                                                *)
(* ------------------------------------------------------------------ *)
(* evaluate_imbalance: generation + dissipation - dE/dt, bin by bin *)
Definition imbalance (g : grid) (gen dis dedt : field) : field :=
  mk_field (nfreq g) (ndir g) (fun i j => fnth gen i j + fnth dis i j - fnth dedt i j).
(* evaluate_bulk_imbalance: bulk generation + bulk dissipation - m0 of dE/dt *)
Definition bulk_imbalance (bgen bdis m0dedt : R) : R := bgen + bdis - m0dedt.

(* one point of a batch: spectrum, depth, wind, roughness length *)
Record point := mkpoint { pt_E : field; pt_depth : option R; pt_wind : wind; pt_z0 : R }.

Definition gen_rate_batch (p : gen_par) (g : grid) (b : list point) : list field :=
  map (fun x => st4_input p (pt_wind x) (pt_depth x) (pt_z0 x) g (pt_E x)) b.
Definition gen_bulk_batch (p : gen_par) (g : grid) (b : list point) : list R :=
  map (fun x => bulk g (st4_input p (pt_wind x) (pt_depth x) (pt_z0 x) g (pt_E x))) b.
Definition diss_rate_batch (D : option R -> grid -> field -> field) (g : grid) (b : list point)
  : list field :=
  map (fun x => D (pt_depth x) g (pt_E x)) b.
Definition diss_bulk_batch (D : option R -> grid -> field -> field) (g : grid) (b : list point)
  : list R :=
  map (fun x => bulk g (D (pt_depth x) g (pt_E x))) b.
