(* Model of wavetheory/lineardispersion.py and of the depth / wavenumber / wavelength /
   wave_speed / group_velocity members of wavespectra/spectrum.py.   DEFINITIONS ONLY.

   Conventions: depth is [Deep] (numpy +inf) or [Depth d]; a missing (NaN) per-point depth of
   a spectrum is [None] and is mapped to [Deep] by [norm_depth] (WaveSpectrum.depth).
   The operation order of every formula is the operation order of the Python source, so the
   extracted float program evaluates the same expression tree as numpy/numba.
   Domain of the model: w > 0, d > 0 (the quantifier of C07); nothing is claimed outside. *)
From Coq Require Import Reals List Bool.
Import ListNotations.
Open Scope R_scope.

Inductive depth := Deep | Depth (d : R).

(* intrinsic_dispersion_relation: sqrt(grav * k * tanh(k * dep)); tanh(k*inf) = 1 for k > 0 *)
Definition omega (g k : R) (d : depth) : R :=
  match d with
  | Deep => sqrt (g * k)
  | Depth d => sqrt (g * k * tanh (k * d))
  end.

(* first guess: where(w > sqrt(grav/dep), w**2/grav, w/sqrt(grav*dep)); sqrt(grav/inf) = 0 *)
Definition guess (g w : R) (d : depth) : R :=
  match d with
  | Deep => if Rgt_dec w 0 then w * w / g else 0
  | Depth d => if Rgt_dec w (sqrt (g / d)) then w * w / g else w / sqrt (g * d)
  end.

(* error_derivative_to_wavenumber: where(kd > 5, 0.5*w/k, (1/2 + kd/sinh(2kd))*w/k) *)
Definition dstep (w k : R) (d : depth) : R :=
  match d with
  | Deep => 1 / 2 * w / k
  | Depth d =>
      let kd := k * d in
      if Rgt_dec kd 5 then 1 / 2 * w / k else (1 / 2 + kd / sinh (2 * kd)) * w / k
  end.

(* one Newton update of one element *)
Definition nstep (g w : R) (d : depth) (k : R) : R :=
  k - (omega g k d - w) / dstep w k d.

(* relative_absolute_error < tolerance for one element *)
Definition conv (g tol w : R) (d : depth) (k : R) : bool :=
  if Rlt_dec (Rabs (omega g k d - w) / w) tol then true else false.

Definition pt := (R * depth)%type.     (* (angular frequency, depth) *)

Fixpoint zipstep (g : R) (ps : list pt) (ks : list R) : list R :=
  match ps, ks with
  | (w, d) :: ps', k :: ks' => nstep g w d k :: zipstep g ps' ks'
  | _, _ => []
  end.

(* np.all(relative_absolute_error < tolerance): one test for the whole batch *)
Fixpoint allconv (g tol : R) (ps : list pt) (ks : list R) : bool :=
  match ps, ks with
  | (w, d) :: ps', k :: ks' => conv g tol w d k && allconv g tol ps' ks'
  | _, _ => true
  end.

(* for ii in range(maximum_number_of_iterations): update all; if all converged: break.
   The flag is true when the loop left through [break]. *)
Fixpoint newton (g tol : R) (fuel : nat) (ps : list pt) (ks : list R) : bool * list R :=
  match fuel with
  | O => (false, ks)
  | S n =>
      let ks' := zipstep g ps ks in
      if allconv g tol ps ks' then (true, ks') else newton g tol n ps ks'
  end.

Definition guesses (g : R) (ps : list pt) : list R :=
  map (fun p => guess g (fst p) (snd p)) ps.

(* inverse_intrinsic_dispersion_relation on a batch (array call) *)
Definition kinv_batch (g tol : R) (fuel : nat) (ps : list pt) : bool * list R :=
  newton g tol fuel ps (guesses g ps).

Definition tol_default : R := 1 / 1000.
Definition fuel_default : nat := 10.

(* scalar call *)
Definition kinv (g w : R) (d : depth) : bool * list R :=
  kinv_batch g tol_default fuel_default [(w, d)].

(* ratio_group_velocity_to_phase_velocity: where(kd > 5, 0.5, 0.5 + kd/sinh(2kd)) *)
Definition n_ratio (k : R) (d : depth) : R :=
  match d with
  | Deep => 1 / 2
  | Depth d => let kd := k * d in
               if Rgt_dec kd 5 then 1 / 2 else 1 / 2 + kd / sinh (2 * kd)
  end.

(* the ratio without the kd > 5 shortcut (used in the statement of the derivative theorem) *)
Definition n_exact (k : R) (d : depth) : R :=
  match d with
  | Deep => 1 / 2
  | Depth d => 1 / 2 + k * d / sinh (2 * (k * d))
  end.

Definition phase (g k : R) (d : depth) : R := omega g k d / k.
Definition cg (g k : R) (d : depth) : R := n_ratio k d * phase g k d.

(* ---------------- spectrum members ---------------- *)
(* WaveSpectrum.depth: where(depth.isnull(), inf, depth) *)
Definition norm_depth (d : option depth) : depth :=
  match d with None => Deep | Some x => x end.

(* radian_frequency = frequency * 2 * pi; the array handed to the solver is
   (points x frequencies), row-major: all frequencies of point 0, then point 1, ... *)
Definition spec_points (fs : list R) (ds : list (option depth)) : list pt :=
  flat_map (fun d => map (fun f => (f * 2 * PI, norm_depth d)) fs) ds.

Definition spec_wavenumber (g : R) (fs : list R) (ds : list (option depth)) : bool * list R :=
  kinv_batch g tol_default fuel_default (spec_points fs ds).

Fixpoint map2 {A B C : Type} (f : A -> B -> C) (l : list A) (m : list B) : list C :=
  match l, m with
  | a :: l', b :: m' => f a b :: map2 f l' m'
  | _, _ => []
  end.

Definition spec_wavelength (g : R) (fs : list R) (ds : list (option depth)) : list R :=
  map (fun k => 2 * PI / k) (snd (spec_wavenumber g fs ds)).

(* (1 / wavenumber) * radian_frequency *)
Definition spec_wave_speed (g : R) (fs : list R) (ds : list (option depth)) : list R :=
  map2 (fun k p => 1 / k * fst p) (snd (spec_wavenumber g fs ds)) (spec_points fs ds).

Definition spec_group_velocity (g : R) (fs : list R) (ds : list (option depth)) : list R :=
  map2 (fun k p => cg g k (snd p)) (snd (spec_wavenumber g fs ds)) (spec_points fs ds).
