(* Trapezoid rule on a list of (abscissa, ordinate) points:
   recursive form (as computed), segment-sum form, endpoint-weight form, linearity. *)
From Coq Require Import Reals List Lra Sorting.Sorted.
From OSU.Lib Require Import Sums.
Import ListNotations.
Open Scope R_scope.

(* xarray's integrate: sum over consecutive points of dx * 0.5 * (y1 + y0) *)
Fixpoint trapz (l : list (R * R)) : R :=
  match l with
  | [] => 0
  | (x0, y0) :: t =>
      match t with
      | [] => 0
      | (x1, y1) :: _ => (x1 - x0) * (1 / 2) * (y1 + y0) + trapz t
      end
  end.

Definition seg (s : (R * R) * (R * R)) : R :=
  let '((x0, y0), (x1, y1)) := s in (x1 - x0) * (1 / 2) * (y1 + y0).

(* consecutive pairs of a list *)
Definition consecutive {A : Type} (l : list A) : list (A * A) := combine l (tl l).

Lemma trapz_nil : trapz [] = 0.
Proof. reflexivity. Qed.

Lemma trapz_single : forall p, trapz [p] = 0.
Proof. intros [x y]; reflexivity. Qed.

Lemma trapz_cons2 : forall x0 y0 x1 y1 t,
  trapz ((x0, y0) :: (x1, y1) :: t) = (x1 - x0) * (1 / 2) * (y1 + y0) + trapz ((x1, y1) :: t).
Proof. reflexivity. Qed.

Lemma trapz_segments : forall l, trapz l = sumR (map seg (consecutive l)).
Proof.
  induction l as [|[x0 y0] t IH]; [reflexivity|].
  destruct t as [|[x1 y1] t']; [reflexivity|].
  rewrite trapz_cons2, IH. unfold consecutive. cbn [tl combine map sumR seg]. reflexivity.
Qed.

(* ---- endpoint weights:  trapz = sum_k w_k y_k ---- *)
Fixpoint wts (c : R) (xs : list R) : list R :=
  match xs with
  | [] => []
  | x0 :: t =>
      match t with
      | [] => [c]
      | x1 :: _ => (c + (x1 - x0) / 2) :: wts ((x1 - x0) / 2) t
      end
  end.

Definition weights (xs : list R) : list R := wts 0 xs.

Lemma wts_length : forall xs c, length (wts c xs) = length xs.
Proof.
  induction xs as [|x0 t IH]; intros c; [reflexivity|].
  destruct t as [|x1 t']; [reflexivity|].
  change (wts c (x0 :: x1 :: t')) with ((c + (x1 - x0) / 2) :: wts ((x1 - x0) / 2) (x1 :: t')).
  cbn [length]. rewrite IH. reflexivity.
Qed.

Section Weighted.
  Context {A : Type}.
  Variables fx fy : A -> R.

  Definition pts (l : list A) : list (R * R) := map (fun a => (fx a, fy a)) l.
  Definition wsum (c : R) (l : list A) : R :=
    sumR (map (fun wa => fst wa * fy (snd wa)) (combine (wts c (map fx l)) l)).

  Lemma trapz_wts_carry : forall l a c,
    c * fy a + trapz (pts (a :: l)) = wsum c (a :: l).
  Proof.
    induction l as [|b t IH]; intros a c.
    - unfold wsum, pts. cbn. lra.
    - unfold wsum, pts in *. cbn [map].
      change (wts c (fx a :: fx b :: map fx t))
        with ((c + (fx b - fx a) / 2) :: wts ((fx b - fx a) / 2) (fx b :: map fx t)).
      cbn [combine map sumR fst snd].
      rewrite trapz_cons2.
      specialize (IH b ((fx b - fx a) / 2)). cbn [map] in IH.
      rewrite <- IH. lra.
  Qed.

  Lemma trapz_weights : forall l, trapz (pts l) = wsum 0 l.
  Proof.
    destruct l as [|a t]; [reflexivity|].
    rewrite <- trapz_wts_carry. lra.
  Qed.
End Weighted.

Lemma wts_nonneg : forall xs c, 0 <= c -> StronglySorted Rlt xs ->
  Forall (fun w => 0 <= w) (wts c xs).
Proof.
  induction xs as [|x0 t IH]; intros c Hc Hs; [constructor|].
  destruct t as [|x1 t'].
  - constructor; [assumption|constructor].
  - change (wts c (x0 :: x1 :: t')) with ((c + (x1 - x0) / 2) :: wts ((x1 - x0) / 2) (x1 :: t')).
    inversion Hs as [|? ? Hs' Hall]; subst.
    assert (x0 < x1) by (inversion Hall; assumption).
    constructor; [lra|]. apply IH; [lra|assumption].
Qed.

Lemma weights_nonneg : forall xs, StronglySorted Rlt xs -> Forall (fun w => 0 <= w) (weights xs).
Proof. intros; apply wts_nonneg; [lra|assumption]. Qed.

(* ---- linearity in the ordinates ---- *)
Section Linear.
  Context {A : Type}.
  Variable fx : A -> R.

  Lemma trapz_ext : forall (fy fz : A -> R) l,
    (forall a, In a l -> fy a = fz a) -> trapz (pts fx fy l) = trapz (pts fx fz l).
  Proof.
    intros fy fz l H. unfold pts.
    replace (map (fun a => (fx a, fz a)) l) with (map (fun a => (fx a, fy a)) l); [reflexivity|].
    apply map_ext_in. intros a Ha. rewrite (H a Ha). reflexivity.
  Qed.

  Lemma trapz_scale : forall (fy : A -> R) c l,
    trapz (pts fx (fun a => c * fy a) l) = c * trapz (pts fx fy l).
  Proof.
    intros fy c. induction l as [|a t IH]; [cbn; lra|].
    destruct t as [|b t']; [cbn; lra|].
    unfold pts in *. cbn [map] in *. rewrite !trapz_cons2, IH. lra.
  Qed.

  Lemma trapz_add : forall (fy fz : A -> R) l,
    trapz (pts fx (fun a => fy a + fz a) l) = trapz (pts fx fy l) + trapz (pts fx fz l).
  Proof.
    intros fy fz. induction l as [|a t IH]; [cbn; lra|].
    destruct t as [|b t']; [cbn; lra|].
    unfold pts in *. cbn [map] in *. rewrite !trapz_cons2, IH. lra.
  Qed.

  Lemma trapz_zero : forall (fy : A -> R) l, (forall a, In a l -> fy a = 0) -> trapz (pts fx fy l) = 0.
  Proof.
    intros fy l H. rewrite (trapz_ext fy (fun _ => 0 * 0) l).
    - rewrite trapz_scale. lra.
    - intros a Ha. rewrite (H a Ha). lra.
  Qed.
End Linear.

(* non-negative ordinates on a sorted grid give a non-negative integral *)
Lemma trapz_nonneg : forall l,
  StronglySorted Rlt (map fst l) -> (forall p, In p l -> 0 <= snd p) -> 0 <= trapz l.
Proof.
  induction l as [|[x0 y0] t IH]; intros Hs Hy; [cbn; lra|].
  destruct t as [|[x1 y1] t']; [cbn; lra|].
  rewrite trapz_cons2. cbn [map fst] in Hs.
  inversion Hs as [|? ? Hs' Hall]; subst.
  assert (x0 < x1) by (inversion Hall; assumption).
  assert (0 <= y0) by (apply (Hy (x0, y0)); left; reflexivity).
  assert (0 <= y1) by (apply (Hy (x1, y1)); right; left; reflexivity).
  assert (0 <= trapz ((x1, y1) :: t')) by (apply IH; [assumption | intros; apply Hy; right; assumption]).
  assert (0 <= (x1 - x0) * (y1 + y0)) by (apply Rmult_le_pos; lra).
  lra.
Qed.
