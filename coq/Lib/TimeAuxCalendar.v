(* C17 calendar: the two era tables (one 400-year era = 146097 days, decided by vm_compute) and the
   UNBOUNDED round trips of days_from_civil / civil_from_days that follow from them by era arithmetic. *)
From Coq Require Import ZArith List Bool Lia.
From OSU.Lib Require Import TimeAuxRange.
From OSU.Lib Require Import TimeAuxCivil.
Open Scope Z_scope.
Ltac Zify.zify_post_hook ::= Z.div_mod_to_equations.

Definition doe_ok (doe : Z) : bool :=
  let '(yoe, mp, d) := civ_of_doe doe in
  (0 <=? yoe) && (yoe <? 400) && (0 <=? mp) && (mp <? 12) && (1 <=? d) && (d <=? 31)
  && (doe_of yoe mp d =? doe)
  && valid_dateb (if month_of_mp mp <=? 2 then yoe + 1 else yoe) (month_of_mp mp) d.

Lemma doe_table : forall_range (Z.to_nat 146097) 0 doe_ok = true.
Proof. vm_cast_no_check (eq_refl true). Qed.

(* index k = (yoe*12 + mp)*31 + (d-1) *)
Definition rev_ok (k : Z) : bool :=
  let yoe := k / 372 in let mp := (k mod 372) / 31 in let d := k mod 31 + 1 in
  let m := month_of_mp mp in
  if valid_dateb (if m <=? 2 then yoe + 1 else yoe) m d then
    let doe := doe_of yoe mp d in
    (0 <=? doe) && (doe <? 146097) &&
    (let '(a, b, c) := civ_of_doe doe in (a =? yoe) && (b =? mp) && (c =? d))
  else true.

Lemma rev_table : forall_range (Z.to_nat 148800) 0 rev_ok = true.
Proof. vm_cast_no_check (eq_refl true). Qed.

Lemma doe_facts : forall doe, 0 <= doe < 146097 ->
  exists yoe mp d, civ_of_doe doe = (yoe, mp, d) /\ 0 <= yoe < 400 /\ 0 <= mp < 12 /\ 1 <= d <= 31
    /\ doe_of yoe mp d = doe
    /\ valid_dateb (if month_of_mp mp <=? 2 then yoe + 1 else yoe) (month_of_mp mp) d = true.
Proof.
  intros doe H.
  pose proof (forall_range_Z 146097 0 doe_ok doe_table doe ltac:(lia)) as T.
  unfold doe_ok in T. destruct (civ_of_doe doe) as [[yoe mp] d].
  exists yoe, mp, d.
  repeat (apply andb_true_iff in T; destruct T as [T ?]).
  repeat split; try reflexivity; try lia; assumption.
Qed.

Lemma is_leap_shift : forall y e, is_leap (y + e * 400) = is_leap y.
Proof.
  intros. unfold is_leap.
  replace ((y + e * 400) mod 4) with (y mod 4) by lia.
  replace ((y + e * 400) mod 100) with (y mod 100) by lia.
  replace ((y + e * 400) mod 400) with (y mod 400) by lia.
  reflexivity.
Qed.

Lemma valid_dateb_shift : forall y e m d, valid_dateb (y + e * 400) m d = valid_dateb y m d.
Proof. intros. unfold valid_dateb, days_in_month. rewrite is_leap_shift. reflexivity. Qed.

Lemma mp_month_mp : forall mp, 0 <= mp < 12 -> mp_of_month (month_of_mp mp) = mp.
Proof.
  intros mp H. unfold mp_of_month, month_of_mp.
  destruct (Z.ltb_spec mp 10).
  - destruct (Z.gtb_spec (mp + 3) 2); lia.
  - destruct (Z.gtb_spec (mp - 9) 2); lia.
Qed.

Lemma month_mp_month : forall m, 1 <= m <= 12 -> month_of_mp (mp_of_month m) = m /\ 0 <= mp_of_month m < 12.
Proof.
  intros m H. unfold mp_of_month, month_of_mp.
  destruct (Z.gtb_spec m 2).
  - destruct (Z.ltb_spec (m - 3) 10); lia.
  - destruct (Z.ltb_spec (m + 9) 10); lia.
Qed.

Theorem days_civil_days : forall z,
  let '(y, m, d) := civil_from_days z in days_from_civil y m d = z.
Proof.
  intros z. unfold civil_from_days.
  set (z' := z + 719468). set (era := z' / 146097). set (doe := z' - era * 146097).
  assert (Hd : 0 <= doe < 146097) by (unfold doe, era; lia).
  destruct (doe_facts doe Hd) as (yoe & mp & d & E & Hy & Hm & Hdd & Hdoe & _).
  rewrite E.
  unfold days_from_civil.
  rewrite (mp_month_mp mp Hm).
  set (m := month_of_mp mp).
  assert (Hy' : (if m <=? 2 then (if m <=? 2 then yoe + era * 400 + 1 else yoe + era * 400) - 1
                 else (if m <=? 2 then yoe + era * 400 + 1 else yoe + era * 400)) = yoe + era * 400)
    by (destruct (m <=? 2); lia).
  rewrite Hy'.
  replace ((yoe + era * 400) / 400) with era by lia.
  replace (yoe + era * 400 - era * 400) with yoe by lia.
  rewrite Hdoe. unfold doe, z'. lia.
Qed.

Lemma valid_dateb_bounds : forall y m d, valid_dateb y m d = true -> 1 <= m <= 12 /\ 1 <= d <= 31.
Proof.
  intros y m d H. unfold valid_dateb in H.
  repeat (apply andb_true_iff in H; destruct H as [H ?]).
  assert (days_in_month y m <= 31).
  { unfold days_in_month. destruct (m =? 2); [destruct (is_leap y); lia|].
    destruct ((m =? 4) || (m =? 6) || (m =? 9) || (m =? 11)); lia. }
  lia.
Qed.

Theorem civil_days_civil : forall y m d, valid_dateb y m d = true ->
  civil_from_days (days_from_civil y m d) = (y, m, d).
Proof.
  intros y m d V.
  destruct (valid_dateb_bounds _ _ _ V) as [Hm Hd].
  destruct (month_mp_month m Hm) as [Hmm Hmp].
  unfold days_from_civil.
  set (y' := if m <=? 2 then y - 1 else y).
  set (era := y' / 400). set (yoe := y' - era * 400). set (mp := mp_of_month m) in *.
  assert (Hyoe : 0 <= yoe < 400) by (unfold yoe, era; lia).
  set (k := (yoe * 12 + mp) * 31 + (d - 1)).
  assert (Hk : 0 <= k < 148800) by (unfold k; nia).
  pose proof (forall_range_Z 148800 0 rev_ok rev_table k ltac:(lia)) as T.
  unfold rev_ok in T.
  replace (k / 372) with yoe in T by (unfold k; lia).
  replace ((k mod 372) / 31) with mp in T by (unfold k; lia).
  replace (k mod 31 + 1) with d in T by (unfold k; lia).
  rewrite Hmm in T.
  assert (Hv : valid_dateb (if m <=? 2 then yoe + 1 else yoe) m d = true).
  { replace (if m <=? 2 then yoe + 1 else yoe) with (y + (- era) * 400)
      by (unfold yoe, y'; destruct (m <=? 2); lia).
    rewrite valid_dateb_shift. exact V. }
  rewrite Hv in T.
  apply andb_true_iff in T. destruct T as [T T3].
  apply andb_true_iff in T. destruct T as [T1 T2].
  unfold civil_from_days.
  set (doe := doe_of yoe mp d) in *.
  replace ((era * 146097 + doe - 719468 + 719468) / 146097) with era by lia.
  replace (era * 146097 + doe - 719468 + 719468 - era * 146097) with doe by lia.
  destruct (civ_of_doe doe) as [[a b] c].
  repeat (apply andb_true_iff in T3; destruct T3 as [T3 ?]).
  assert (a = yoe) by lia. assert (b = mp) by lia. assert (c = d) by lia. subst a b c.
  rewrite Hmm.
  assert (Hy : (if m <=? 2 then yoe + era * 400 + 1 else yoe + era * 400) = y)
    by (unfold yoe, y'; destruct (m <=? 2); lia).
  rewrite Hy. reflexivity.
Qed.

Theorem civil_from_days_valid : forall z,
  let '(y, m, d) := civil_from_days z in valid_dateb y m d = true.
Proof.
  intros z. unfold civil_from_days.
  set (z' := z + 719468). set (era := z' / 146097). set (doe := z' - era * 146097).
  assert (Hd : 0 <= doe < 146097) by (unfold doe, era; lia).
  destruct (doe_facts doe Hd) as (yoe & mp & d & E & Hy & Hm & Hdd & Hdoe & V).
  rewrite E.
  replace (if month_of_mp mp <=? 2 then yoe + era * 400 + 1 else yoe + era * 400)
    with ((if month_of_mp mp <=? 2 then yoe + 1 else yoe) + era * 400)
    by (destruct (month_of_mp mp <=? 2); lia).
  rewrite valid_dateb_shift. exact V.
Qed.

(* the days 1970-01-01 .. 2100-12-31 are the numbers 0 .. 47846 and have years 1970 .. 2100 *)
Definition year_ok (z : Z) : bool :=
  let '(y, m, d) := civil_from_days z in (1970 <=? y) && (y <=? 2100).
Lemma year_table : forall_range (Z.to_nat 47847) 0 year_ok = true.
Proof. vm_cast_no_check (eq_refl true). Qed.

Lemma days_1970_2100 : days_from_civil 1970 1 1 = 0 /\ days_from_civil 2100 12 31 = 47846.
Proof. split; vm_compute; reflexivity. Qed.

Theorem year_range_1970_2100 : forall z, 0 <= z < 47847 ->
  let '(y, m, d) := civil_from_days z in 1970 <= y <= 2100.
Proof.
  intros z H. pose proof (forall_range_Z 47847 0 year_ok year_table z ltac:(lia)) as T.
  unfold year_ok in T. destruct (civil_from_days z) as [[y m] d].
  apply andb_true_iff in T. lia.
Qed.
