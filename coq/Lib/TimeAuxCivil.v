(* C17  Calendar DEFINITIONS (part of the model of tools/time.py; re-exported by Model/TimeConv.v). *)
From Coq Require Import ZArith List Bool.
Open Scope Z_scope.

(* ------------------------------------------------------------------------------------------- *)
(* proleptic Gregorian calendar: days since 1970-01-01 (eras of 400 years, March-based years)   *)
(* ------------------------------------------------------------------------------------------- *)

(* day of era from (year of era, March-based month 0..11, day 1..31) *)
Definition doe_of (yoe mp d : Z) : Z :=
  yoe * 365 + yoe / 4 - yoe / 100 + ((153 * mp + 2) / 5 + d - 1).

Definition civ_of_doe (doe : Z) : Z * Z * Z :=
  let yoe := (doe - doe / 1460 + doe / 36524 - doe / 146096) / 365 in
  let doy := doe - (365 * yoe + yoe / 4 - yoe / 100) in
  let mp := (5 * doy + 2) / 153 in
  let d := doy - (153 * mp + 2) / 5 + 1 in
  (yoe, mp, d).

Definition mp_of_month (m : Z) : Z := if m >? 2 then m - 3 else m + 9.
Definition month_of_mp (mp : Z) : Z := if mp <? 10 then mp + 3 else mp - 9.

Definition days_from_civil (y m d : Z) : Z :=
  let y' := if m <=? 2 then y - 1 else y in
  let era := y' / 400 in
  let yoe := y' - era * 400 in
  era * 146097 + doe_of yoe (mp_of_month m) d - 719468.

Definition civil_from_days (z : Z) : Z * Z * Z :=
  let z' := z + 719468 in
  let era := z' / 146097 in
  let doe := z' - era * 146097 in
  let '(yoe, mp, d) := civ_of_doe doe in
  let m := month_of_mp mp in
  let y := yoe + era * 400 in
  ((if m <=? 2 then y + 1 else y), m, d).

Definition is_leap (y : Z) : bool :=
  (y mod 4 =? 0) && (negb (y mod 100 =? 0) || (y mod 400 =? 0)).

Definition days_in_month (y m : Z) : Z :=
  if m =? 2 then (if is_leap y then 29 else 28)
  else if (m =? 4) || (m =? 6) || (m =? 9) || (m =? 11) then 30 else 31.

Definition valid_dateb (y m d : Z) : bool :=
  (1 <=? m) && (m <=? 12) && (1 <=? d) && (d <=? days_in_month y m).

