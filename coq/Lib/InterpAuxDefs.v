(* Definitions shared by the interpolation models (C13, C14).  DEFINITIONS ONLY.
   Local, independent copies (another worker owns Lib/Fmod.v and Lib/Atan2.v). *)
From Coq Require Import Reals ZArith List.
Import ListNotations.
Open Scope R_scope.

(* Python / numpy  x % p  for p > 0 (floored modulo) *)
Definition fmod (x p : R) : R := x - IZR (Int_part (x / p)) * p.

(* tools/math.py wrapped_difference:  (delta + period - discont) % period - period + discont *)
Definition wrapdiff (delta P disc : R) : R := fmod (delta + P - disc) P - P + disc.

(* numpy.angle / arctan2, from atan by quadrant; atan2 0 0 = 0 as in numpy *)
Definition atan2 (y x : R) : R :=
  if Rlt_dec 0 x then atan (y / x)
  else if Rlt_dec x 0 then (if Rle_dec 0 y then atan (y / x) + PI else atan (y / x) - PI)
  else if Rlt_dec 0 y then PI / 2
  else if Rlt_dec y 0 then - (PI / 2)
  else 0.

(* numpy.rint: round half to even *)
Definition rint (f : R) : R :=
  let k := Int_part f in
  let r := f - IZR k in
  if Rlt_dec r (1 / 2) then IZR k
  else if Rlt_dec (1 / 2) r then IZR k + 1
  else if Z.even k then IZR k else IZR k + 1.

(* NaN-propagating arithmetic: None = NaN *)
Definition oadd (a b : option R) : option R :=
  match a, b with Some x, Some y => Some (x + y) | _, _ => None end.
Definition osub (a b : option R) : option R :=
  match a, b with Some x, Some y => Some (x - y) | _, _ => None end.
Definition omul (a b : option R) : option R :=
  match a, b with Some x, Some y => Some (x * y) | _, _ => None end.
(* guarded division: a zero denominator is reported as missing (0/0 = NaN in numpy;
   x/0 = inf is outside every premise used below) *)
Definition odiv (a b : option R) : option R :=
  match a, b with
  | Some x, Some y => if Req_EM_T y 0 then None else Some (x / y)
  | _, _ => None
  end.

Definition is_some (v : option R) : bool := match v with Some _ => true | None => false end.
Definition all_some (r : list (option R)) : bool := forallb is_some r.
Definition oval (v : option R) : R := match v with Some x => x | None => 0 end.
Definition oget (r : list (option R)) (j : nat) : R := oval (nth j r None).
Definition fillna (ext : R) (v : option R) : R := match v with Some x => x | None => ext end.

Fixpoint map2 {A B C : Type} (f : A -> B -> C) (l1 : list A) (l2 : list B) : list C :=
  match l1, l2 with
  | a :: t1, b :: t2 => f a b :: map2 f t1 t2
  | _, _ => []
  end.
