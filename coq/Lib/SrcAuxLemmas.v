(* Lemmas about the shared definitions of SrcAuxDefs: loop sums, fields, cyclic re-indexing,
   periodicity of cos/sin over Z, pymod. *)
From Coq Require Import Reals List Arith ZArith Lia Lra.
From OSU.Lib Require Import SrcAuxDefs.
Import ListNotations.
Open Scope R_scope.

(* ------------------------------------------------------------------ *)
(* loop sums = mathematical sums                                        *)
(* ------------------------------------------------------------------ *)
Lemma fold_seq_rsum : forall (f : nat -> R) n s acc,
  fold_left (fun a j => a + f j) (seq s n) acc = acc + rsum (fun j => f (s + j)%nat) n.
Proof.
  intros f n. induction n as [|n IH]; intros s acc.
  - simpl. lra.
  - rewrite seq_S, fold_left_app. simpl. rewrite IH. lra.
Qed.

Lemma rsum_ext : forall f g n, (forall j, (j < n)%nat -> f j = g j) -> rsum f n = rsum g n.
Proof.
  intros f g n. induction n as [|n IH]; intros H; simpl; [reflexivity|].
  rewrite IH, H; auto.
Qed.

Lemma sum_from_rsum : forall acc f n, sum_from acc f n = acc + rsum f n.
Proof. intros. unfold sum_from. rewrite fold_seq_rsum. f_equal. Qed.

Lemma sum_upto_rsum : forall f n, sum_upto f n = rsum f n.
Proof. intros. unfold sum_upto. rewrite sum_from_rsum. lra. Qed.

Lemma sum2_from_rsum : forall f n m acc,
  sum2_from acc f n m = acc + rsum (fun i => rsum (f i) m) n.
Proof.
  intros f n m. unfold sum2_from.
  assert (H : forall k s acc, fold_left (fun a i => sum_from a (f i) m) (seq s k) acc
                              = acc + rsum (fun i => rsum (f (s + i)%nat) m) k).
  { induction k as [|k IH]; intros s acc.
    - simpl. lra.
    - rewrite seq_S, fold_left_app. simpl. rewrite IH, sum_from_rsum. lra. }
  intros acc. rewrite H. f_equal.
Qed.

Lemma sum2_upto_rsum : forall f n m, sum2_upto f n m = rsum (fun i => rsum (f i) m) n.
Proof. intros. unfold sum2_upto. rewrite sum2_from_rsum. lra. Qed.

Lemma rsum_nonneg : forall f n, (forall j, (j < n)%nat -> 0 <= f j) -> 0 <= rsum f n.
Proof.
  intros f n. induction n as [|n IH]; intros H; simpl; [lra|].
  assert (0 <= rsum f n) by (apply IH; auto). assert (0 <= f n) by (apply H; lia). lra.
Qed.

Lemma rsum_nonpos : forall f n, (forall j, (j < n)%nat -> f j <= 0) -> rsum f n <= 0.
Proof.
  intros f n. induction n as [|n IH]; intros H; simpl; [lra|].
  assert (rsum f n <= 0) by (apply IH; auto). assert (f n <= 0) by (apply H; lia). lra.
Qed.

Lemma rsum_zero : forall f n, (forall j, (j < n)%nat -> f j = 0) -> rsum f n = 0.
Proof.
  intros f n. induction n as [|n IH]; intros H; simpl; [reflexivity|].
  rewrite IH, H; auto. lra.
Qed.

Lemma rsum_scal : forall c f n, rsum (fun j => c * f j) n = c * rsum f n.
Proof. intros c f n. induction n as [|n IH]; simpl; [lra|]. rewrite IH. lra. Qed.

Lemma rsum_plus : forall f g n, rsum (fun j => f j + g j) n = rsum f n + rsum g n.
Proof. intros f g n. induction n as [|n IH]; simpl; [lra|]. rewrite IH. lra. Qed.

Lemma rsum_lin : forall a b f g n,
  rsum (fun j => a * f j + b * g j) n = a * rsum f n + b * rsum g n.
Proof. intros. rewrite rsum_plus, !rsum_scal. reflexivity. Qed.

Lemma rsum_split : forall f a b, rsum f (a + b) = rsum f a + rsum (fun j => f (a + j)%nat) b.
Proof.
  intros f a b. induction b as [|b IH].
  - rewrite Nat.add_0_r. simpl. lra.
  - rewrite Nat.add_succ_r. simpl. rewrite IH. lra.
Qed.

(* cyclic shift of the summation index *)
Lemma rsum_cyclic : forall f N s, (s < N)%nat ->
  rsum (fun j => f ((j + s) mod N)%nat) N = rsum f N.
Proof.
  intros f N s Hs.
  pose (g := fun j => f ((j + s) mod N)%nat).
  change (rsum g N = rsum f N).
  transitivity (rsum g ((N - s) + s)). { f_equal. lia. }
  rewrite rsum_split.
  rewrite (rsum_ext g (fun j => f (s + j)%nat) (N - s)).
  2:{ intros j Hj. unfold g. rewrite Nat.mod_small by lia. f_equal. lia. }
  rewrite (rsum_ext (fun j => g (N - s + j)%nat) f s).
  2:{ intros j Hj. unfold g. replace (N - s + j + s)%nat with (j + 1 * N)%nat by lia.
      rewrite Nat.mod_add by lia. rewrite Nat.mod_small by lia. reflexivity. }
  transitivity (rsum f (s + (N - s))). 2:{ f_equal. lia. }
  rewrite rsum_split. lra.
Qed.

(* reflection of the summation index about 0 (mod N) *)
Lemma rsum_rev : forall f n, rsum (fun j => f (n - 1 - j)%nat) n = rsum f n.
Proof.
  intros f n. revert f. induction n as [|n IH]; intros f; [reflexivity|].
  pose (g := fun j => f (S n - 1 - j)%nat).
  change (rsum g (S n) = rsum f (S n)).
  transitivity (rsum g (1 + n)). { reflexivity. }
  rewrite rsum_split.
  rewrite (rsum_ext (fun j => g (1 + j)%nat) (fun j => f (n - 1 - j)%nat) n).
  2:{ intros j Hj. unfold g. f_equal. lia. }
  rewrite IH. simpl. unfold g. replace (S n - 1 - 0)%nat with n by lia. lra.
Qed.

Lemma rsum_mirror : forall f N, (0 < N)%nat ->
  rsum (fun j => f ((N - j) mod N)%nat) N = rsum f N.
Proof.
  intros f N HN.
  rewrite <- (rsum_rev (fun j => f ((N - j) mod N)%nat) N).
  (* index N-1-j  ->  (j+1) mod N *)
  rewrite (rsum_ext _ (fun j => f ((j + 1) mod N)%nat) N).
  2:{ intros j Hj. f_equal. f_equal. lia. }
  destruct (Nat.eq_dec N 1) as [->|H1].
  - simpl. reflexivity.
  - apply rsum_cyclic. lia.
Qed.

(* ------------------------------------------------------------------ *)
(* lists / fields                                                       *)
(* ------------------------------------------------------------------ *)
Lemma rnth_map_seq : forall (f : nat -> R) n j, (j < n)%nat -> rnth (map f (seq 0 n)) j = f j.
Proof.
  intros f n j Hj. unfold rnth.
  rewrite (nth_indep _ 0 (f 0%nat)) by (rewrite map_length, seq_length; exact Hj).
  rewrite map_nth. rewrite seq_nth by exact Hj. reflexivity.
Qed.

Lemma rnth_map : forall (f : R -> R) l j, (j < length l)%nat -> rnth (map f l) j = f (rnth l j).
Proof.
  intros f l j Hj. unfold rnth.
  rewrite (nth_indep _ 0 (f 0)) by (rewrite map_length; exact Hj).
  apply map_nth.
Qed.

Lemma rnth_overflow : forall l j, (length l <= j)%nat -> rnth l j = 0.
Proof. intros. unfold rnth. apply nth_overflow. assumption. Qed.

Lemma fnth_mk_field : forall nf nd f i j, (i < nf)%nat -> (j < nd)%nat ->
  fnth (mk_field nf nd f) i j = f i j.
Proof.
  intros nf nd f i j Hi Hj. unfold fnth, mk_field.
  rewrite (nth_indep _ [] (map (fun j0 => f 0%nat j0) (seq 0 nd)))
    by (rewrite map_length, seq_length; exact Hi).
  rewrite (map_nth (fun i0 => map (fun j0 => f i0 j0) (seq 0 nd)) (seq 0 nf) 0%nat i).
  rewrite seq_nth by exact Hi. simpl.
  apply (rnth_map_seq (fun j0 => f i j0)). exact Hj.
Qed.

Lemma nth_mk_field_row : forall nf nd f i, (i < nf)%nat ->
  nth i (mk_field nf nd f) [] = map (fun j => f i j) (seq 0 nd).
Proof.
  intros nf nd f i Hi. unfold mk_field.
  rewrite (nth_indep _ [] (map (fun j0 => f 0%nat j0) (seq 0 nd)))
    by (rewrite map_length, seq_length; exact Hi).
  rewrite (map_nth (fun i0 => map (fun j0 => f i0 j0) (seq 0 nd)) (seq 0 nf) 0%nat i).
  rewrite seq_nth by exact Hi. reflexivity.
Qed.

Lemma mk_field_length : forall nf nd f, length (mk_field nf nd f) = nf.
Proof. intros. unfold mk_field. rewrite map_length, seq_length. reflexivity. Qed.

Lemma mk_field_ext : forall nf nd f g,
  (forall i j, (i < nf)%nat -> (j < nd)%nat -> f i j = g i j) -> mk_field nf nd f = mk_field nf nd g.
Proof.
  intros nf nd f g H. unfold mk_field. apply map_ext_in. intros i Hi. apply in_seq in Hi.
  apply map_ext_in. intros j Hj. apply in_seq in Hj. apply H; lia.
Qed.

(* rotated / mirrored rows *)
Lemma rnth_rot_row : forall k l j, (j < length l)%nat ->
  rnth (rot_row k l) j = rnth l ((j + length l - k mod length l) mod length l).
Proof. intros k l j Hj. unfold rot_row. rewrite rnth_map_seq by exact Hj. reflexivity. Qed.

Lemma rot_row_length : forall k l, length (rot_row k l) = length l.
Proof. intros. unfold rot_row. rewrite map_length, seq_length. reflexivity. Qed.

Lemma rnth_mir_row : forall l j, (j < length l)%nat ->
  rnth (mir_row l) j = rnth l ((length l - j) mod length l).
Proof. intros l j Hj. unfold mir_row. rewrite rnth_map_seq by exact Hj. reflexivity. Qed.

Lemma mir_row_length : forall l, length (mir_row l) = length l.
Proof. intros. unfold mir_row. rewrite map_length, seq_length. reflexivity. Qed.

Lemma fnth_rot_field : forall k E i j nd,
  (i < length E)%nat -> length (nth i E []) = nd -> (j < nd)%nat ->
  fnth (rot_field k E) i j = fnth E i ((j + nd - k mod nd) mod nd).
Proof.
  intros k E i j nd Hi Hl Hj. unfold fnth, rot_field.
  rewrite (nth_indep _ [] (rot_row k [])) by (rewrite map_length; exact Hi).
  rewrite map_nth. fold (rnth (rot_row k (nth i E [])) j).
  rewrite rnth_rot_row by lia. rewrite Hl. reflexivity.
Qed.

Lemma fnth_mir_field : forall E i j nd,
  (i < length E)%nat -> length (nth i E []) = nd -> (j < nd)%nat ->
  fnth (mir_field E) i j = fnth E i ((nd - j) mod nd).
Proof.
  intros E i j nd Hi Hl Hj. unfold fnth, mir_field.
  rewrite (nth_indep _ [] (mir_row [])) by (rewrite map_length; exact Hi).
  rewrite map_nth. fold (rnth (mir_row (nth i E [])) j).
  rewrite rnth_mir_row by lia. rewrite Hl. reflexivity.
Qed.

(* ------------------------------------------------------------------ *)
(* periodicity over Z, pymod                                            *)
(* ------------------------------------------------------------------ *)
Lemma cos_period_Z : forall x (n : Z), cos (x + 2 * IZR n * PI) = cos x.
Proof.
  intros x n. destruct (Z_le_gt_dec 0 n) as [H|H].
  - rewrite <- (Z2Nat.id n H), <- INR_IZR_INZ. apply cos_period.
  - assert (Hn : (0 <= - n)%Z) by lia.
    rewrite <- (cos_period (x + 2 * IZR n * PI) (Z.to_nat (- n))).
    rewrite INR_IZR_INZ, Z2Nat.id by exact Hn. rewrite opp_IZR. f_equal. ring.
Qed.

Lemma sin_period_Z : forall x (n : Z), sin (x + 2 * IZR n * PI) = sin x.
Proof.
  intros x n. destruct (Z_le_gt_dec 0 n) as [H|H].
  - rewrite <- (Z2Nat.id n H), <- INR_IZR_INZ. apply sin_period.
  - assert (Hn : (0 <= - n)%Z) by lia.
    rewrite <- (sin_period (x + 2 * IZR n * PI) (Z.to_nat (- n))).
    rewrite INR_IZR_INZ, Z2Nat.id by exact Hn. rewrite opp_IZR. f_equal. ring.
Qed.

Lemma pymod_shift : forall x p, exists n : Z, pymod x p = x - IZR n * p.
Proof. intros. exists (Int_part (x / p)). reflexivity. Qed.

Lemma cos_pymod_2PI : forall x, cos (pymod x (2 * PI)) = cos x.
Proof.
  intros x. destruct (pymod_shift x (2 * PI)) as [n ->].
  replace (x - IZR n * (2 * PI)) with (x + 2 * IZR (- n) * PI) by (rewrite opp_IZR; ring).
  apply cos_period_Z.
Qed.

Lemma sin_pymod_2PI : forall x, sin (pymod x (2 * PI)) = sin x.
Proof.
  intros x. destruct (pymod_shift x (2 * PI)) as [n ->].
  replace (x - IZR n * (2 * PI)) with (x + 2 * IZR (- n) * PI) by (rewrite opp_IZR; ring).
  apply sin_period_Z.
Qed.

(* Int_part of a shifted argument, pymod is invariant under whole periods *)
Lemma Int_part_plus_Z : forall x (n : Z), Int_part (x + IZR n) = (Int_part x + n)%Z.
Proof.
  intros x n. unfold Int_part.
  assert (H : up (x + IZR n) = (up x + n)%Z).
  { symmetry. apply tech_up.
    - rewrite plus_IZR. destruct (archimed x). lra.
    - rewrite plus_IZR. destruct (archimed x). lra. }
  rewrite H. lia.
Qed.

Lemma pymod_period : forall x p (n : Z), p <> 0 -> pymod (x + IZR n * p) p = pymod x p.
Proof.
  intros x p n Hp. unfold pymod.
  replace ((x + IZR n * p) / p) with (x / p + IZR n) by (field; exact Hp).
  rewrite Int_part_plus_Z, plus_IZR. ring.
Qed.

Lemma pymod_range : forall x p, 0 < p -> 0 <= pymod x p < p.
Proof.
  intros x p Hp. unfold pymod.
  destruct (base_Int_part (x / p)) as [H1 H2].
  assert (Hx : x = x / p * p) by (field; lra).
  split.
  - assert (IZR (Int_part (x / p)) * p <= x / p * p) by (apply Rmult_le_compat_r; lra). lra.
  - assert ((x / p - 1) * p < IZR (Int_part (x / p)) * p) by (apply Rmult_lt_compat_r; lra). lra.
Qed.

(* ------------------------------------------------------------------ *)
(* powr                                                                 *)
(* ------------------------------------------------------------------ *)
Lemma powr_nonneg : forall x p, 0 <= powr x p.
Proof.
  intros. unfold powr. destruct (Req_EM_T x 0); [lra|].
  unfold Rpower. left. apply exp_pos.
Qed.

Lemma powr_0 : forall p, powr 0 p = 0.
Proof. intros. unfold powr. destruct (Req_EM_T 0 0); [reflexivity|contradiction]. Qed.

(* ------------------------------------------------------------------ *)
(* row_max                                                              *)
(* ------------------------------------------------------------------ *)
Lemma fold_Rmax_ge_init : forall l x, x <= fold_left Rmax l x.
Proof.
  induction l as [|y l IH]; intros x; simpl; [lra|].
  eapply Rle_trans; [apply Rmax_l|apply IH].
Qed.
