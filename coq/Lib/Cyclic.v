(* Sums over lists, element-wise products, cyclic rotation and reversal. *)
From Coq Require Import Reals Lra Lia List Arith.
Import ListNotations.
Open Scope R_scope.

Definition sumR (l : list R) : R := fold_right Rplus 0 l.

Fixpoint map2 {A B C : Type} (f : A -> B -> C) (a : list A) (b : list B) : list C :=
  match a, b with
  | x :: a', y :: b' => f x y :: map2 f a' b'
  | _, _ => []
  end.

(* rotate left by k:  (rotl k l)[j] = l[(j+k) mod N] ;  rotate right: (rotr k l)[j] = l[(j-k) mod N]
   (rotr k is numpy.roll(l, k)) *)
Definition rotl {A : Type} (k : nat) (l : list A) : list A := skipn k l ++ firstn k l.
Definition rotr {A : Type} (k : nat) (l : list A) : list A := rotl (length l - k) l.

(* ------------------------------------------------------------------ *)
Lemma sumR_app : forall a b, sumR (a ++ b) = sumR a + sumR b.
Proof. induction a; intros; simpl; [ring | rewrite IHa; ring]. Qed.

Lemma sumR_rev : forall l, sumR (rev l) = sumR l.
Proof. induction l; simpl; [reflexivity | rewrite sumR_app, IHl; simpl; ring]. Qed.

Lemma sumR_rotl : forall k l, sumR (rotl k l) = sumR l.
Proof.
  intros k l. unfold rotl. rewrite sumR_app, Rplus_comm, <- sumR_app, firstn_skipn. reflexivity.
Qed.

Lemma sumR_rotr : forall k l, sumR (rotr k l) = sumR l.
Proof. intros; apply sumR_rotl. Qed.

Lemma sumR_scale : forall c l, sumR (map (fun x => c * x) l) = c * sumR l.
Proof. induction l; simpl; [ring | rewrite IHl; ring]. Qed.

Lemma sumR_nonneg : forall l, (forall x, In x l -> 0 <= x) -> 0 <= sumR l.
Proof.
  induction l; intros H; simpl; [lra|].
  assert (0 <= a) by (apply H; left; reflexivity).
  assert (0 <= sumR l) by (apply IHl; intros; apply H; right; assumption). lra.
Qed.

Lemma sumR_repeat : forall c n, sumR (repeat c n) = INR n * c.
Proof.
  induction n; [simpl; ring|]. cbn [repeat sumR fold_right]. fold (sumR (repeat c n)).
  rewrite IHn, S_INR. ring.
Qed.

(* ------------------------------------------------------------------ *)
Lemma map2_length : forall {A B C} (f : A -> B -> C) a b,
  length a = length b -> length (map2 f a b) = length a.
Proof.
  induction a; intros b H; destruct b; simpl in *; try discriminate; [reflexivity|].
  f_equal; apply IHa; lia.
Qed.

Lemma map2_app : forall {A B C} (f : A -> B -> C) a1 b1 a2 b2,
  length a1 = length b1 -> map2 f (a1 ++ a2) (b1 ++ b2) = map2 f a1 b1 ++ map2 f a2 b2.
Proof.
  induction a1; intros b1 a2 b2 H; destruct b1; simpl in *; try discriminate; [reflexivity|].
  f_equal; apply IHa1; lia.
Qed.

Lemma map2_firstn : forall {A B C} (f : A -> B -> C) k a b,
  firstn k (map2 f a b) = map2 f (firstn k a) (firstn k b).
Proof.
  induction k; intros a b; [reflexivity|].
  destruct a; destruct b; simpl; try reflexivity. f_equal; apply IHk.
Qed.

Lemma map2_skipn : forall {A B C} (f : A -> B -> C) k a b,
  length a = length b -> skipn k (map2 f a b) = map2 f (skipn k a) (skipn k b).
Proof.
  induction k; intros a b H; [reflexivity|].
  destruct a; destruct b; simpl in *; try discriminate; try reflexivity. apply IHk; lia.
Qed.

Lemma map2_rotl : forall {A B C} (f : A -> B -> C) k a b,
  length a = length b -> map2 f (rotl k a) (rotl k b) = rotl k (map2 f a b).
Proof.
  intros A B C f k a b H. unfold rotl.
  rewrite map2_app by (rewrite !skipn_length; lia).
  rewrite map2_skipn by exact H. rewrite map2_firstn. reflexivity.
Qed.

Lemma map2_rev : forall {A B C} (f : A -> B -> C) a b,
  length a = length b -> map2 f (rev a) (rev b) = rev (map2 f a b).
Proof.
  induction a; intros b H; destruct b; simpl in *; try discriminate; [reflexivity|].
  rewrite map2_app by (rewrite !rev_length; lia).
  rewrite IHa by lia. reflexivity.
Qed.

Lemma map2_map_l : forall {A A' B C} (f : A' -> B -> C) (g : A -> A') a b,
  map2 f (map g a) b = map2 (fun x y => f (g x) y) a b.
Proof. induction a; intros b; destruct b; simpl; try reflexivity. f_equal; apply IHa. Qed.

Lemma map2_map_r : forall {A B B' C} (f : A -> B' -> C) (g : B -> B') a b,
  map2 f a (map g b) = map2 (fun x y => f x (g y)) a b.
Proof. induction a; intros b; destruct b; simpl; try reflexivity. f_equal; apply IHa. Qed.

Lemma map2_ext : forall {A B C} (f g : A -> B -> C) a b,
  (forall x y, f x y = g x y) -> map2 f a b = map2 g a b.
Proof. induction a; intros b H; destruct b; simpl; try reflexivity. rewrite H; f_equal; apply IHa; exact H. Qed.

Lemma map_map2 : forall {A B C D} (g : C -> D) (f : A -> B -> C) a b,
  map g (map2 f a b) = map2 (fun x y => g (f x y)) a b.
Proof. induction a; intros b; destruct b; simpl; try reflexivity. f_equal; apply IHa. Qed.

Lemma nth_map2 : forall {A B C} (f : A -> B -> C) a b i da db dc,
  length a = length b -> (i < length a)%nat ->
  nth i (map2 f a b) dc = f (nth i a da) (nth i b db).
Proof.
  induction a; intros b i da db dc H Hi; destruct b; simpl in *; try discriminate; [lia|].
  destruct i; [reflexivity|]. apply IHa; lia.
Qed.

(* both operands rotated: the sum of products does not change *)
Lemma sum_map2_rotl : forall {A B} (f : A -> B -> R) k a b,
  length a = length b -> sumR (map2 f (rotl k a) (rotl k b)) = sumR (map2 f a b).
Proof. intros. rewrite map2_rotl by assumption. apply sumR_rotl. Qed.

Lemma sum_map2_rev : forall {A B} (f : A -> B -> R) a b,
  length a = length b -> sumR (map2 f (rev a) (rev b)) = sumR (map2 f a b).
Proof. intros. rewrite map2_rev by assumption. apply sumR_rev. Qed.

(* ------------------------------------------------------------------ *)
Lemma rotl_length : forall {A} k (l : list A), length (rotl k l) = length l.
Proof.
  intros A k l. unfold rotl. rewrite app_length, skipn_length, firstn_length. lia.
Qed.

Lemma rotr_length : forall {A} k (l : list A), length (rotr k l) = length l.
Proof. intros; apply rotl_length. Qed.

Lemma rotl_rotr : forall {A} k (l : list A), (k <= length l)%nat -> rotl k (rotr k l) = l.
Proof.
  intros A k l Hk. unfold rotr, rotl.
  set (n := length l) in *.
  assert (L1 : length (skipn (n - k) l) = k) by (rewrite skipn_length; fold n; lia).
  rewrite skipn_app, firstn_app, L1, Nat.sub_diag. simpl.
  rewrite (skipn_all2 (skipn (n - k) l)) by (rewrite L1; lia).
  rewrite (firstn_all2 (skipn (n - k) l)) by (rewrite L1; lia).
  simpl. rewrite app_nil_r. apply firstn_skipn.
Qed.

Lemma rotl_0 : forall {A} (l : list A), rotl 0 l = l.
Proof. intros; unfold rotl; simpl; apply app_nil_r. Qed.

Lemma rotl_map : forall {A B} (g : A -> B) k l, rotl k (map g l) = map g (rotl k l).
Proof. intros. unfold rotl. rewrite map_app, skipn_map, firstn_map. reflexivity. Qed.

Lemma rotr_map : forall {A B} (g : A -> B) k l, rotr k (map g l) = map g (rotr k l).
Proof. intros. unfold rotr. rewrite map_length. apply rotl_map. Qed.

Lemma nth_skipn' : forall {A} k (l : list A) i d, nth i (skipn k l) d = nth (k + i) l d.
Proof.
  induction k; intros l i d; [reflexivity|]. destruct l; simpl; [destruct i; reflexivity | apply IHk].
Qed.

Lemma nth_firstn' : forall {A} k (l : list A) i d, (i < k)%nat -> nth i (firstn k l) d = nth i l d.
Proof.
  induction k; intros l i d H; [lia|]. destruct l; simpl; [destruct i; reflexivity|].
  destruct i; [reflexivity | apply IHk; lia].
Qed.

(* element j of a left rotation *)
Lemma nth_rotl : forall {A} k (l : list A) j d, (k <= length l)%nat -> (j < length l)%nat ->
  nth j (rotl k l) d = if (j <? length l - k)%nat then nth (k + j) l d else nth (j - (length l - k)) l d.
Proof.
  intros A k l j d Hk Hj. unfold rotl.
  destruct (Nat.ltb_spec j (length l - k)).
  - rewrite app_nth1 by (rewrite skipn_length; lia). apply nth_skipn'.
  - rewrite app_nth2 by (rewrite skipn_length; lia). rewrite skipn_length.
    apply nth_firstn'. lia.
Qed.

(* a sum of products only sees the values *)
Lemma sum_map2_ext_r : forall {A} (f : A -> R -> R) a b b',
  b = b' -> sumR (map2 f a b) = sumR (map2 f a b').
Proof. intros; subst; reflexivity. Qed.

(* linearity of sum of element-wise products in the second operand *)
Lemma sum_map2_lin : forall (w : list R) (c s : list R) (u v : R),
  length c = length s ->
  sumR (map2 Rmult w (map2 (fun x y => u * x + v * y) c s))
  = u * sumR (map2 Rmult w c) + v * sumR (map2 Rmult w s).
Proof.
  induction w; intros c s u v H; [simpl; ring|].
  destruct c; destruct s; simpl in *; try discriminate; [ring|].
  rewrite IHw by lia. ring.
Qed.
