(* Index and angle facts for rotations by whole bins on a uniform direction grid
   theta_j = th0 + j * 2 pi / N, and for the mirror image j -> (N - j) mod N (th0 = 0). *)
From Coq Require Import Reals List Arith ZArith Lia Lra.
From OSU.Lib Require Import SrcAuxDefs SrcAuxLemmas.
Open Scope R_scope.

Definition ridx (N j k : nat) : nat := ((j + N - k) mod N)%nat.     (* source bin of bin j after a shift by k *)
Definition midx (N j : nat) : nat := ((N - j) mod N)%nat.           (* source bin of bin j after mirroring *)
Definition ang (th0 : R) (N j : nat) : R := th0 + INR j * (2 * PI / INR N).

Lemma ridx_lt : forall N j k, (0 < N)%nat -> (ridx N j k < N)%nat.
Proof. intros. unfold ridx. apply Nat.mod_upper_bound. lia. Qed.
Lemma midx_lt : forall N j, (0 < N)%nat -> (midx N j < N)%nat.
Proof. intros. unfold midx. apply Nat.mod_upper_bound. lia. Qed.

Lemma ridx_cases : forall N j k, (j < N)%nat -> (k < N)%nat ->
  (ridx N j k = j - k /\ k <= j)%nat \/ (ridx N j k = j + N - k /\ j < k)%nat.
Proof.
  intros N j k Hj Hk. unfold ridx. destruct (le_lt_dec k j) as [H|H].
  - left. split; [|exact H]. replace (j + N - k)%nat with ((j - k) + 1 * N)%nat by lia.
    rewrite Nat.mod_add by lia. apply Nat.mod_small. lia.
  - right. split; [|exact H]. apply Nat.mod_small. lia.
Qed.

Lemma ridx_mod : forall N j k, (k < N)%nat -> ((j + N - k mod N) mod N = ridx N j k)%nat.
Proof. intros. unfold ridx. rewrite (Nat.mod_small k N) by assumption. reflexivity. Qed.

(* theta_j = theta_{ridx j k} + k * 2 pi / N   modulo 2 pi *)
Lemma ang_rot : forall N j k th0, (j < N)%nat -> (k < N)%nat ->
  exists m : Z, ang th0 N j = ang th0 N (ridx N j k) + INR k * (2 * PI / INR N) + 2 * IZR m * PI.
Proof.
  intros N j k th0 Hj Hk. unfold ang.
  assert (HN : INR N <> 0) by (apply not_0_INR; lia).
  destruct (ridx_cases N j k Hj Hk) as [[-> H]|[-> H]].
  - exists 0%Z. rewrite minus_INR by exact H. field. exact HN.
  - exists (-1)%Z. rewrite minus_INR by lia. rewrite plus_INR. field. exact HN.
Qed.

Lemma ang_mirror : forall N j, (j < N)%nat ->
  exists m : Z, ang 0 N j = - ang 0 N (midx N j) + 2 * IZR m * PI.
Proof.
  intros N j Hj. unfold ang, midx.
  assert (HN : INR N <> 0) by (apply not_0_INR; lia).
  destruct j as [|j].
  - exists 0%Z. rewrite Nat.sub_0_r, Nat.mod_same by lia. simpl. field. exact HN.
  - exists 1%Z. rewrite Nat.mod_small by lia. rewrite minus_INR by lia. field. exact HN.
Qed.

Lemma cos_shift_Z : forall a b (m : Z), a = b + 2 * IZR m * PI -> cos a = cos b.
Proof. intros a b m ->. apply cos_period_Z. Qed.
Lemma sin_shift_Z : forall a b (m : Z), a = b + 2 * IZR m * PI -> sin a = sin b.
Proof. intros a b m ->. apply sin_period_Z. Qed.

(* degrees to radians of a rotated wind direction *)
Lemma wind_rot_rad : forall wd k N, (0 < N)%nat ->
  (wd + INR k * (360 / INR N)) * PI / 180 = wd * PI / 180 + INR k * (2 * PI / INR N).
Proof. intros. field. apply not_0_INR. lia. Qed.

(* cos / sin of theta_j relative to a direction rotated with the grid *)
Lemma cos_rel_rot : forall N j k th0 x, (j < N)%nat -> (k < N)%nat ->
  cos (ang th0 N j - (x + INR k * (2 * PI / INR N))) = cos (ang th0 N (ridx N j k) - x).
Proof.
  intros N j k th0 x Hj Hk. destruct (ang_rot N j k th0 Hj Hk) as [m Hm].
  apply (cos_shift_Z _ _ m). rewrite Hm. ring.
Qed.

Lemma cos_abs_rot : forall N j k th0, (j < N)%nat -> (k < N)%nat ->
  cos (ang th0 N j) = cos (ang th0 N (ridx N j k) + INR k * (2 * PI / INR N)).
Proof.
  intros N j k th0 Hj Hk. destruct (ang_rot N j k th0 Hj Hk) as [m Hm].
  apply (cos_shift_Z _ _ m). exact Hm.
Qed.

Lemma sin_abs_rot : forall N j k th0, (j < N)%nat -> (k < N)%nat ->
  sin (ang th0 N j) = sin (ang th0 N (ridx N j k) + INR k * (2 * PI / INR N)).
Proof.
  intros N j k th0 Hj Hk. destruct (ang_rot N j k th0 Hj Hk) as [m Hm].
  apply (sin_shift_Z _ _ m). exact Hm.
Qed.

Lemma cos_rel_mirror : forall N j x, (j < N)%nat ->
  cos (ang 0 N j - (- x)) = cos (ang 0 N (midx N j) - x).
Proof.
  intros N j x Hj. destruct (ang_mirror N j Hj) as [m Hm].
  rewrite <- (cos_neg (ang 0 N (midx N j) - x)).
  apply (cos_shift_Z _ _ m). rewrite Hm. ring.
Qed.

Lemma cos_abs_mirror : forall N j, (j < N)%nat -> cos (ang 0 N j) = cos (ang 0 N (midx N j)).
Proof.
  intros N j Hj. destruct (ang_mirror N j Hj) as [m Hm].
  rewrite <- (cos_neg (ang 0 N (midx N j))). apply (cos_shift_Z _ _ m). exact Hm.
Qed.

Lemma sin_abs_mirror : forall N j, (j < N)%nat -> sin (ang 0 N j) = - sin (ang 0 N (midx N j)).
Proof.
  intros N j Hj. destruct (ang_mirror N j Hj) as [m Hm].
  rewrite <- (sin_neg (ang 0 N (midx N j))). apply (sin_shift_Z _ _ m). exact Hm.
Qed.

(* re-indexing of sums *)
Lemma rsum_ridx : forall f N k, (k < N)%nat -> rsum (fun j => f (ridx N j k)) N = rsum f N.
Proof.
  intros f N k Hk. destruct (Nat.eq_dec k 0) as [->|Hk0].
  - apply rsum_ext. intros j Hj. unfold ridx. rewrite Nat.sub_0_r.
    replace (j + N)%nat with (j + 1 * N)%nat by lia. rewrite Nat.mod_add by lia.
    rewrite Nat.mod_small by exact Hj. reflexivity.
  - rewrite <- (rsum_cyclic f N (N - k)) by lia.
    apply rsum_ext. intros j Hj. unfold ridx. f_equal. f_equal. lia.
Qed.

Lemma rsum_midx : forall f N, (0 < N)%nat -> rsum (fun j => f (midx N j)) N = rsum f N.
Proof. intros. unfold midx. apply rsum_mirror. assumption. Qed.

(* the rotation of a vector sum: sum_j cos(theta_j) X_{ridx j} etc. *)
Lemma rsum_cos_rot : forall N k th0 (X : nat -> R), (k < N)%nat ->
  let a := INR k * (2 * PI / INR N) in
  rsum (fun j => cos (ang th0 N j) * X (ridx N j k)) N
  = cos a * rsum (fun j => cos (ang th0 N j) * X j) N - sin a * rsum (fun j => sin (ang th0 N j) * X j) N.
Proof.
  intros N k th0 X Hk a.
  rewrite (rsum_ext _ (fun j => (fun m => (cos (ang th0 N m) * cos a - sin (ang th0 N m) * sin a) * X m) (ridx N j k)) N).
  2:{ intros j Hj. cbv beta. rewrite (cos_abs_rot N j k th0 Hj Hk). fold a. rewrite cos_plus. reflexivity. }
  rewrite (rsum_ridx (fun m => (cos (ang th0 N m) * cos a - sin (ang th0 N m) * sin a) * X m)) by exact Hk.
  match goal with |- _ = ?c * ?S1 - ?d * ?S2 => replace (c * S1 - d * S2) with (c * S1 + (- d) * S2) by ring end.
  rewrite <- rsum_lin.
  apply rsum_ext. intros j _. ring.
Qed.

Lemma rsum_sin_rot : forall N k th0 (X : nat -> R), (k < N)%nat ->
  let a := INR k * (2 * PI / INR N) in
  rsum (fun j => sin (ang th0 N j) * X (ridx N j k)) N
  = sin a * rsum (fun j => cos (ang th0 N j) * X j) N + cos a * rsum (fun j => sin (ang th0 N j) * X j) N.
Proof.
  intros N k th0 X Hk a.
  rewrite (rsum_ext _ (fun j => (fun m => (sin (ang th0 N m) * cos a + cos (ang th0 N m) * sin a) * X m) (ridx N j k)) N).
  2:{ intros j Hj. cbv beta. rewrite (sin_abs_rot N j k th0 Hj Hk). fold a. rewrite sin_plus. reflexivity. }
  rewrite (rsum_ridx (fun m => (sin (ang th0 N m) * cos a + cos (ang th0 N m) * sin a) * X m)) by exact Hk.
  rewrite <- rsum_lin.
  apply rsum_ext. intros j _. ring.
Qed.
