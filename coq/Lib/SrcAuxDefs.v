(* Shared DEFINITIONS for the source-term / stress models (C08, C09).  No proofs here, so the
   models that import this file still build when a proof elsewhere breaks. *)
From Coq Require Import Reals List Arith ZArith.
Import ListNotations.
Open Scope R_scope.

(* ---- lists of reals and 2D fields (rows = frequencies, columns = directions) ---- *)
Definition rnth (l : list R) (i : nat) : R := nth i l 0.
Definition field := list (list R).
Definition fnth (E : field) (i j : nat) : R := nth j (nth i E []) 0.
Definition mk_field (nf nd : nat) (f : nat -> nat -> R) : field :=
  map (fun i => map (fun j => f i j) (seq 0 nd)) (seq 0 nf).

(* ---- sums in the order of the code's loops: acc = 0.0; for j in range(n): acc += f j ---- *)
Definition sum_from (acc : R) (f : nat -> R) (n : nat) : R :=
  fold_left (fun a j => a + f j) (seq 0 n) acc.
Definition sum_upto (f : nat -> R) (n : nat) : R := sum_from 0 f n.

(* one accumulator running through a nested loop:  for i: for j: acc += f i j *)
Definition sum2_from (acc : R) (f : nat -> nat -> R) (n m : nat) : R :=
  fold_left (fun a i => sum_from a (f i) m) (seq 0 n) acc.
Definition sum2_upto (f : nat -> nat -> R) (n m : nat) : R := sum2_from 0 f n m.

(* mathematical (recursive) sums used in the statements *)
Fixpoint rsum (f : nat -> R) (n : nat) : R :=
  match n with O => 0 | S k => rsum f k + f k end.

(* ---- Python / numpy float `%` for a positive modulus ---- *)
Definition pymod (x p : R) : R := x - IZR (Int_part (x / p)) * p.

(* ---- numpy / C pow(x, p) with a float exponent, on x >= 0 :  0 ** p = 0 (p > 0) ---- *)
Definition powr (x p : R) : R := if Req_EM_T x 0 then 0 else Rpower x p.

(* ---- atan2 from atan, by quadrant (numpy.arctan2 y x) ---- *)
Definition atan2 (y x : R) : R :=
  if Rgt_dec x 0 then atan (y / x)
  else if Rlt_dec x 0 then
         (if Rge_dec y 0 then atan (y / x) + PI else atan (y / x) - PI)
  else if Rgt_dec y 0 then PI / 2
  else if Rlt_dec y 0 then - (PI / 2)
  else 0.

(* (arctan2(y, x) * 180 / pi) % 360 *)
Definition dir_deg (y x : R) : R := pymod (atan2 y x * 180 / PI) 360.

(* maximum of a non-empty row (np.max) *)
Definition row_max (l : list R) : R :=
  match l with [] => 0 | x :: r => fold_left Rmax r x end.

(* ---- cyclic re-indexing of the direction axis ---- *)
(* rotate by k bins towards higher indices:  (rot k l)[j] = l[(j - k) mod N] *)
Definition rot_row (k : nat) (l : list R) : list R :=
  let n := length l in map (fun j => rnth l ((j + n - k mod n) mod n)) (seq 0 n).
Definition rot_field (k : nat) (E : field) : field := map (rot_row k) E.
(* mirror about index 0:  (mir l)[j] = l[(N - j) mod N] *)
Definition mir_row (l : list R) : list R :=
  let n := length l in map (fun j => rnth l ((n - j) mod n)) (seq 0 n).
Definition mir_field (E : field) : field := map mir_row E.

(* linear combination of fields on an nf x nd grid *)
Definition lin_field (nf nd : nat) (a b : R) (E F : field) : field :=
  mk_field nf nd (fun i j => a * fnth E i j + b * fnth F i j).
