(* Sums over lists, map2, weighted sums, cyclic re-indexing: auxiliary lemmas for the
   estimator proofs (C05/C06). *)
From Coq Require Import Reals List Arith Lra Lia.
From OSU.Model Require Import Estimators.
Import ListNotations.
Open Scope R_scope.

(* ---------------- sumR ---------------- *)
Lemma sumR_app : forall a b, sumR (a ++ b) = sumR a + sumR b.
Proof. induction a; intros; simpl; [lra | rewrite IHa; lra]. Qed.

Lemma sumR_map_ext : forall {A} (f g : A -> R) l,
  (forall x, In x l -> f x = g x) -> sumR (map f l) = sumR (map g l).
Proof.
  induction l; intros; simpl; auto.
  rewrite H by (left; auto). rewrite IHl; auto. intros; apply H; right; auto.
Qed.

Lemma sumR_map_scal : forall {A} (f : A -> R) c l, sumR (map (fun x => c * f x) l) = c * sumR (map f l).
Proof. induction l; simpl; [lra | rewrite IHl; lra]. Qed.

Lemma sumR_map_scal_r : forall {A} (f : A -> R) c l, sumR (map (fun x => f x * c) l) = sumR (map f l) * c.
Proof. induction l; simpl; [lra | rewrite IHl; lra]. Qed.

Lemma sumR_map_plus : forall {A} (f g : A -> R) l,
  sumR (map (fun x => f x + g x) l) = sumR (map f l) + sumR (map g l).
Proof. induction l; simpl; [lra | rewrite IHl; lra]. Qed.

Lemma sumR_map_const : forall {A} (c : R) (l : list A), sumR (map (fun _ => c) l) = INR (length l) * c.
Proof.
  induction l; [simpl; lra|].
  change (length (a :: l)) with (S (length l)). rewrite S_INR. simpl. rewrite IHl. lra.
Qed.

Lemma sumR_nonneg : forall l, Forall (fun x => 0 <= x) l -> 0 <= sumR l.
Proof. induction 1; simpl; lra. Qed.

Lemma sumR_pos : forall l, l <> [] -> Forall (fun x => 0 < x) l -> 0 < sumR l.
Proof.
  intros l Hn H. destruct l; [congruence|]. inversion H; subst. simpl.
  assert (0 <= sumR l). { apply sumR_nonneg. eapply Forall_impl; [|eassumption]. simpl; intros; lra. }
  lra.
Qed.

(* ---------------- map2 ---------------- *)
Lemma map2_length : forall {A B C} (f : A -> B -> C) a b, length (map2 f a b) = Nat.min (length a) (length b).
Proof. induction a; destruct b; simpl; auto. Qed.

Lemma map2_map_map : forall {T A B C} (f : A -> B -> C) (g : T -> A) (h : T -> B) l,
  map2 f (map g l) (map h l) = map (fun t => f (g t) (h t)) l.
Proof. induction l; simpl; congruence. Qed.

Lemma map2_id_map : forall {T B C} (f : T -> B -> C) (h : T -> B) l,
  map2 f l (map h l) = map (fun t => f t (h t)) l.
Proof. induction l; simpl; congruence. Qed.

Lemma map2_combine : forall {A B C} (f : A -> B -> C) a b,
  map2 f a b = map (fun p => f (fst p) (snd p)) (combine a b).
Proof. induction a; destruct b; simpl; auto. rewrite IHa. auto. Qed.

Lemma map2_nth : forall {A B C} (f : A -> B -> C) a b i da db dc,
  (i < length a)%nat -> (i < length b)%nat ->
  nth i (map2 f a b) dc = f (nth i a da) (nth i b db).
Proof.
  induction a; destruct b; simpl; intros; try lia.
  destruct i; auto. apply IHa; lia.
Qed.

(* ---------------- weighted sums: wsum f d = sum f_j d_j ---------------- *)
Lemma wsum_cons : forall x f w d, wsum (x :: f) (w :: d) = x * w + wsum f d.
Proof. reflexivity. Qed.

Lemma wsum_map_ext : forall {T} (f g : T -> R) th d,
  (forall t, In t th -> f t = g t) -> wsum (map f th) d = wsum (map g th) d.
Proof.
  induction th; intros; simpl; auto.
  destruct d; auto. rewrite !wsum_cons. rewrite H by (left; auto).
  rewrite (IHth d); auto. intros; apply H; right; auto.
Qed.

Lemma wsum_map_scal : forall {T} (f : T -> R) c th d,
  wsum (map (fun t => c * f t) th) d = c * wsum (map f th) d.
Proof.
  induction th; intros; simpl; [unfold wsum; simpl; lra|].
  destruct d; [unfold wsum; simpl; lra|]. rewrite !wsum_cons, IHth. lra.
Qed.

Lemma wsum_map_scal_r : forall {T} (f : T -> R) c th d,
  wsum (map (fun t => f t * c) th) d = wsum (map f th) d * c.
Proof.
  induction th; intros; simpl; [unfold wsum; simpl; lra|].
  destruct d; [unfold wsum; simpl; lra|]. rewrite !wsum_cons, IHth. lra.
Qed.

Lemma wsum_map_plus : forall {T} (f g : T -> R) th d,
  wsum (map (fun t => f t + g t) th) d = wsum (map f th) d + wsum (map g th) d.
Proof.
  induction th; intros; simpl; [unfold wsum; simpl; lra|].
  destruct d; [unfold wsum; simpl; lra|]. rewrite !wsum_cons, IHth. lra.
Qed.

Lemma wsum_map_minus : forall {T} (f g : T -> R) th d,
  wsum (map (fun t => f t - g t) th) d = wsum (map f th) d - wsum (map g th) d.
Proof.
  induction th; intros; simpl; [unfold wsum; simpl; lra|].
  destruct d; [unfold wsum; simpl; lra|]. rewrite !wsum_cons, IHth. lra.
Qed.

Lemma wsum_map_opp : forall {T} (f : T -> R) th d,
  wsum (map (fun t => - f t) th) d = - wsum (map f th) d.
Proof.
  induction th; intros; simpl; [unfold wsum; simpl; lra|].
  destruct d; [unfold wsum; simpl; lra|]. rewrite !wsum_cons, IHth. lra.
Qed.

Lemma map2_mult_pos : forall f d,
  Forall (fun x => 0 < x) f -> Forall (fun x => 0 < x) d -> Forall (fun x => 0 < x) (map2 Rmult f d).
Proof.
  induction f; intros d Hf Hd; simpl; [constructor|].
  destruct d; [constructor|].
  inversion Hf; subst. inversion Hd; subst.
  constructor; [apply Rmult_lt_0_compat; auto | apply IHf; auto].
Qed.

Lemma wsum_pos : forall f d, f <> [] -> length d = length f ->
  Forall (fun x => 0 < x) f -> Forall (fun x => 0 < x) d -> 0 < wsum f d.
Proof.
  intros f d Hn Hl Hf Hd. unfold wsum. apply sumR_pos.
  - destruct f; [congruence|]. destruct d; simpl in *; [lia | congruence].
  - apply map2_mult_pos; auto.
Qed.

Lemma wsum_repeat : forall f c n, length f = n -> wsum f (repeat c n) = sumR f * c.
Proof.
  induction f; intros; subst; simpl; [unfold wsum; simpl; lra|].
  rewrite wsum_cons. rewrite (IHf c (length f)); auto. lra.
Qed.

Lemma wsum_map_const_weights : forall {T} (f : T -> R) (c : R) th,
  wsum (map f th) (map (fun _ => c) th) = sumR (map f th) * c.
Proof.
  induction th; simpl; [unfold wsum; simpl; lra|]. rewrite wsum_cons, IHth. lra.
Qed.

(* ---------------- cyclic re-indexing of a sum over seq 0 n ---------------- *)
Lemma seq_split : forall k n, (k <= n)%nat -> seq 0 n = seq 0 k ++ seq k (n - k).
Proof. intros. replace n with (k + (n - k))%nat at 1 by lia. apply seq_app. Qed.

Lemma sumR_map_seq_shift : forall (f : nat -> R) a b n,
  sumR (map (fun j => f (j + b)%nat) (seq a n)) = sumR (map f (seq (a + b) n)).
Proof.
  intros f a b n. revert a. induction n; intros; simpl; auto.
  rewrite IHn. reflexivity.
Qed.

(* sum_j f((j + n - k) mod n) = sum_j f(j) *)
Lemma sumR_cyclic : forall (f : nat -> R) n k, (k <= n)%nat -> (0 < n)%nat ->
  sumR (map (fun j => f ((j + n - k) mod n)%nat) (seq 0 n)) = sumR (map f (seq 0 n)).
Proof.
  intros f n k Hk Hn.
  rewrite (seq_split k n Hk) at 1. rewrite map_app, sumR_app.
  (* first part: j < k -> index j + n - k in [n-k, n) *)
  rewrite (sumR_map_ext _ (fun j => f (j + (n - k))%nat) (seq 0 k)).
  2:{ intros j Hj. apply in_seq in Hj. f_equal.
      destruct (Nat.eq_dec k 0); [lia|].
      replace (j + n - k)%nat with (j + (n - k))%nat by lia.
      apply Nat.mod_small. lia. }
  rewrite (sumR_map_ext _ (fun j => f (j - k)%nat) (seq k (n - k))).
  2:{ intros j Hj. apply in_seq in Hj. f_equal.
      replace (j + n - k)%nat with ((j - k) + 1 * n)%nat by lia.
      rewrite Nat.mod_add by lia. apply Nat.mod_small. lia. }
  rewrite sumR_map_seq_shift. simpl.
  (* second part: re-index seq k (n-k) as seq 0 (n-k) shifted by k *)
  assert (E : sumR (map (fun j => f (j - k)%nat) (seq k (n - k))) = sumR (map f (seq 0 (n - k)))).
  { change (seq k (n - k)) with (seq (0 + k) (n - k)).
    rewrite <- (sumR_map_seq_shift (fun j => f (j - k)%nat) 0 k (n - k)).
    apply sumR_map_ext. intros j _. f_equal. lia. }
  rewrite E.
  rewrite (seq_split (n - k) n) by lia. rewrite map_app, sumR_app.
  replace (n - (n - k))%nat with k by lia. lra.
Qed.
