(* Floor modulo on the reals (numpy / Python `%` for a positive period) and the
   wrapped difference of tools/math.py.  Definitions + their basic theory. *)
From Coq Require Import Reals Lra Lia ZArith.
Open Scope R_scope.

(* x % p  for p > 0 :  x - floor(x/p) * p *)
Definition fmod (x p : R) : R := x - IZR (Int_part (x / p)) * p.

(* wrapped_difference(delta, period, discont):
     (delta + period - discont) % period - period + discont            *)
Definition wrapdiff (delta period discont : R) : R :=
  fmod (delta + period - discont) period - period + discont.

(* wrapped_difference(delta, period=360)  (discont = period/2 = 180) *)
Definition wrap360 (delta : R) : R := wrapdiff delta 360 180.

(* x and y differ by a whole number of turns *)
Definition cong360 (x y : R) : Prop := exists m : Z, x = y + 360 * IZR m.

(* ------------------------------------------------------------------ *)

Lemma Int_part_unique : forall r z, IZR z <= r -> r < IZR z + 1 -> Int_part r = z.
Proof.
  intros r z H1 H2. unfold Int_part.
  assert (E : (z + 1)%Z = up r).
  { apply up_tech; [exact H1 | rewrite plus_IZR; simpl; lra]. }
  rewrite <- E. lia.
Qed.

Lemma fmod_range : forall x p, 0 < p -> 0 <= fmod x p < p.
Proof.
  intros x p Hp. unfold fmod.
  destruct (base_Int_part (x / p)) as [H1 H2].
  set (n := IZR (Int_part (x / p))) in *.
  assert (Hx : x = x / p * p) by (field; lra).
  split.
  - assert (n * p <= x / p * p) by (apply Rmult_le_compat_r; lra). lra.
  - assert (x / p * p < (n + 1) * p) by (apply Rmult_lt_compat_r; lra). lra.
Qed.

Lemma fmod_unique : forall x p r k, 0 < p -> 0 <= r < p -> x = r + IZR k * p -> fmod x p = r.
Proof.
  intros x p r k Hp Hr Hx. unfold fmod.
  assert (E : Int_part (x / p) = k).
  { apply Int_part_unique.
    - assert (x / p = r / p + IZR k) by (rewrite Hx; field; lra).
      assert (0 <= r / p) by (apply Rmult_le_pos; [lra | left; apply Rinv_0_lt_compat; lra]). lra.
    - assert (x / p = r / p + IZR k) by (rewrite Hx; field; lra).
      assert (r / p < 1).
      { apply (Rmult_lt_reg_r p); [lra|]. replace (r / p * p) with r by (field; lra). lra. }
      lra. }
  rewrite E. lra.
Qed.

Lemma fmod_period : forall x p k, 0 < p -> fmod (x + IZR k * p) p = fmod x p.
Proof.
  intros x p k Hp.
  apply (fmod_unique _ p (fmod x p) (Int_part (x / p) + k)%Z Hp (fmod_range x p Hp)).
  rewrite plus_IZR. unfold fmod. ring.
Qed.

Lemma fmod_decomp : forall x p, x = fmod x p + IZR (Int_part (x / p)) * p.
Proof. intros; unfold fmod; ring. Qed.

Lemma fmod_small : forall x p, 0 <= x < p -> fmod x p = x.
Proof.
  intros x p H. apply (fmod_unique x p x 0%Z); [lra | exact H | simpl; ring].
Qed.

(* ---------------- wrapped difference, period 360 ---------------- *)

Lemma wrap360_alt : forall d, wrap360 d = fmod (d + 180) 360 - 180.
Proof.
  intros d. unfold wrap360, wrapdiff.
  replace (d + 360 - 180) with (d + 180) by ring. ring.
Qed.

Lemma wrap360_range : forall d, -180 <= wrap360 d < 180.
Proof.
  intros d. rewrite wrap360_alt.
  assert (H := fmod_range (d + 180) 360). lra.
Qed.

Lemma wrap360_cong_self : forall d, cong360 (wrap360 d) d.
Proof.
  intros d. exists (- Int_part ((d + 180) / 360))%Z.
  rewrite wrap360_alt, opp_IZR. unfold fmod. ring.
Qed.

Lemma wrap360_unique : forall x y, cong360 x y -> -180 <= y < 180 -> wrap360 x = y.
Proof.
  intros x y [m Hm] Hy. rewrite wrap360_alt.
  rewrite (fmod_unique (x + 180) 360 (y + 180) m); [ring | lra | lra | rewrite Hm; ring].
Qed.

Lemma wrap360_id : forall d, -180 <= d < 180 -> wrap360 d = d.
Proof. intros d H. apply wrap360_unique; [exists 0%Z; simpl; ring | exact H]. Qed.

Lemma wrap360_period : forall d (m : Z), wrap360 (d + 360 * IZR m) = wrap360 d.
Proof.
  intros d m. apply wrap360_unique; [| apply wrap360_range].
  destruct (wrap360_cong_self d) as [k Hk].
  exists (m - k)%Z. rewrite minus_IZR. lra.
Qed.

Lemma cong360_refl : forall x, cong360 x x.
Proof. intros x; exists 0%Z; simpl; ring. Qed.

Lemma cong360_sym : forall x y, cong360 x y -> cong360 y x.
Proof. intros x y [m H]; exists (- m)%Z; rewrite opp_IZR; lra. Qed.

Lemma cong360_trans : forall x y z, cong360 x y -> cong360 y z -> cong360 x z.
Proof. intros x y z [m H] [n G]; exists (m + n)%Z; rewrite plus_IZR; lra. Qed.

Lemma cong360_minus : forall x y x' y', cong360 x x' -> cong360 y y' -> cong360 (x - y) (x' - y').
Proof. intros x y x' y' [m H] [n G]; exists (m - n)%Z; rewrite minus_IZR; lra. Qed.

Lemma cong360_plus : forall x y x' y', cong360 x x' -> cong360 y y' -> cong360 (x + y) (x' + y').
Proof. intros x y x' y' [m H] [n G]; exists (m + n)%Z; rewrite plus_IZR; lra. Qed.

Lemma cong360_opp : forall x y, cong360 x y -> cong360 (- x) (- y).
Proof. intros x y [m H]; exists (- m)%Z; rewrite opp_IZR; lra. Qed.

Lemma cong360_shift : forall x (m : Z), cong360 (x + 360 * IZR m) x.
Proof. intros x m; exists m; ring. Qed.
