(* Hyperbolic-function facts used by Proofs/Dispersion.v (not in the Coq 8.16 standard library). *)
From Coq Require Import Reals Lra.
From Coquelicot Require Import Coquelicot.
Open Scope R_scope.

Lemma cosh_pos x : 0 < cosh x.
Proof. unfold cosh. pose proof (exp_pos x). pose proof (exp_pos (-x)). lra. Qed.

Lemma cosh2_sinh2 x : cosh x * cosh x - sinh x * sinh x = 1.
Proof.
  unfold cosh, sinh.
  replace ((exp x + exp (- x)) / 2 * ((exp x + exp (- x)) / 2) - (exp x - exp (- x)) / 2 * ((exp x - exp (- x)) / 2))
    with (exp x * exp (-x)) by field.
  rewrite <- exp_plus. replace (x + - x) with 0 by ring. apply exp_0.
Qed.

Lemma cosh_ge_1 x : 1 <= cosh x.
Proof.
  pose proof (cosh2_sinh2 x). pose proof (cosh_pos x).
  pose proof (Rle_0_sqr (sinh x)) as H1. unfold Rsqr in H1.
  destruct (Rle_lt_dec 1 (cosh x)); auto.
  assert (cosh x * cosh x < 1 * 1) by (apply Rmult_le_0_lt_compat; lra). lra.
Qed.

Lemma sinh_2x x : sinh (2 * x) = 2 * sinh x * cosh x.
Proof.
  unfold sinh, cosh. replace (2 * x) with (x + x) by ring. replace (- (x + x)) with (-x + -x) by ring.
  rewrite !exp_plus. field.
Qed.

Lemma sinh_pos x : 0 < x -> 0 < sinh x.
Proof. intros. rewrite <- sinh_0. apply sinh_lt; auto. Qed.

Lemma sinh_ge_x x : 0 <= x -> x <= sinh x.
Proof.
  intros Hx. destruct Hx as [Hx|Hx]; [|subst; rewrite sinh_0; lra].
  destruct (MVT_gen (fun t => sinh t - t) 0 x (fun t => cosh t - 1)) as [c [Hc Hd]].
  - intros t _. auto_derive; auto. ring.
  - intros t _. apply continuity_pt_minus.
    + apply derivable_continuous_pt, derivable_pt_sinh.
    + apply derivable_continuous_pt, derivable_pt_id.
  - rewrite sinh_0 in Hd. pose proof (cosh_ge_1 c) as Hc1.
    assert (0 <= (cosh c - 1) * (x - 0)) by (apply Rmult_le_pos; lra). lra.
Qed.

Lemma cosh_gt_1 x : x <> 0 -> 1 < cosh x.
Proof.
  intros Hx. pose proof (cosh2_sinh2 x) as E. pose proof (cosh_ge_1 x) as G.
  destruct (Rle_lt_dec (cosh x) 1) as [L|L]; [|lra].
  assert (C1 : cosh x = 1) by lra. rewrite C1 in E.
  assert (S0 : sinh x * sinh x = 0) by lra. apply Rmult_integral in S0.
  assert (S1 : sinh x = 0) by (destruct S0; auto).
  exfalso. destruct (Rtotal_order x 0) as [N|[N|N]]; [|lra|].
  - pose proof (sinh_lt x 0 N) as Q. rewrite sinh_0 in Q. lra.
  - pose proof (sinh_pos x N). lra.
Qed.

Lemma sinh_gt_x x : 0 < x -> x < sinh x.
Proof.
  intros Hx.
  assert (Hh : x / 2 <= sinh (x/2)) by (apply sinh_ge_x; lra).
  replace x with (2 * (x/2)) at 2 by field. rewrite sinh_2x.
  assert (P : 0 < sinh (x/2)) by (apply sinh_pos; lra).
  assert (C : 1 < cosh (x/2)) by (apply cosh_gt_1; lra).
  assert (sinh (x/2) * 1 < sinh (x/2) * cosh (x/2)) by (apply Rmult_lt_compat_l; lra).
  lra.
Qed.

(* tanh *)
Lemma tanh_pos x : 0 < x -> 0 < tanh x.
Proof. intros. unfold tanh. apply Rdiv_lt_0_compat. apply sinh_pos; auto. apply cosh_pos. Qed.

Lemma tanh_lt_1 x : tanh x < 1.
Proof.
  unfold tanh. pose proof (cosh_pos x). apply Rmult_lt_reg_r with (cosh x); auto.
  unfold Rdiv. rewrite Rmult_assoc, Rinv_l by lra. unfold sinh, cosh. pose proof (exp_pos (-x)). lra.
Qed.

Lemma tanh_le_x x : 0 <= x -> tanh x <= x.
Proof.
  intros Hx. destruct Hx as [Hx|Hx]; [|subst; unfold tanh; rewrite sinh_0; lra].
  (* h t = t cosh t - sinh t, h' = t sinh t >= 0 *)
  destruct (MVT_gen (fun t => t * cosh t - sinh t) 0 x (fun t => t * sinh t)) as [c [Hc Hd]].
  - intros t _. auto_derive; auto. ring.
  - intros t _. apply derivable_continuous_pt. apply derivable_pt_minus.
    + apply derivable_pt_mult. apply derivable_pt_id. apply derivable_pt_cosh.
    + apply derivable_pt_sinh.
  - rewrite sinh_0, Rmult_0_l, Rminus_0_r in Hd.
    rewrite Rmin_left, Rmax_right in Hc by lra.
    assert (0 <= sinh c). { destruct (proj1 Hc) as [P|P]. left; apply sinh_pos; auto. subst; rewrite sinh_0; lra. }
    assert (0 <= c * sinh c * (x - 0)). { apply Rmult_le_pos; [apply Rmult_le_pos|]; lra. }
    unfold tanh. pose proof (cosh_pos x). apply Rmult_le_reg_r with (cosh x); auto.
    unfold Rdiv. rewrite Rmult_assoc, Rinv_l by lra. lra.
Qed.

Lemma tanh_incr x y : x < y -> tanh x < tanh y.
Proof.
  intros. unfold tanh. pose proof (cosh_pos x). pose proof (cosh_pos y).
  apply Rmult_lt_reg_r with (cosh x * cosh y). apply Rmult_lt_0_compat; auto.
  replace (sinh x / cosh x * (cosh x * cosh y)) with (sinh x * cosh y) by (field; lra).
  replace (sinh y / cosh y * (cosh x * cosh y)) with (sinh y * cosh x) by (field; lra).
  (* sinh y cosh x - sinh x cosh y = sinh (y - x) > 0 *)
  assert (E : sinh y * cosh x - sinh x * cosh y = sinh (y - x)).
  { unfold sinh, cosh. replace (-(y-x)) with (x + -y) by ring. replace (y - x) with (y + -x) by ring. rewrite !exp_plus. field. }
  pose proof (sinh_pos (y - x)). lra.
Qed.


(* a lower bound of exp 10 by ten squarings of exp(10/1024) >= 1 + 10/1024 (no Interval, so no
   primitive-float primitives in the assumptions) *)
Lemma exp_sq_lb x b : 0 <= b -> b <= exp x -> b * b <= exp (2 * x).
Proof. intros Hb H. replace (2 * x) with (x + x) by ring. rewrite exp_plus. apply Rmult_le_compat; auto. Qed.
Lemma exp10_lb : 20001 < exp 10.
Proof.
  assert (H0 : 517 / 512 <= exp (10 / 1024)).
  { apply Rle_trans with (1 + 10 / 1024); [lra | left; apply exp_ineq1; lra]. }
  assert (H1 : 101962661 / 100000000 <= exp (10 / 512)).
  { replace (10 / 512) with (2 * (10 / 1024)) by field. apply Rle_trans with (517 / 512 * (517 / 512)). lra. apply exp_sq_lb; [lra|exact H0]. }
  assert (H2 : 51981921 / 50000000 <= exp (10 / 256)).
  { replace (10 / 256) with (2 * (10 / 512)) by field. apply Rle_trans with (101962661 / 100000000 * (101962661 / 100000000)). lra. apply exp_sq_lb; [lra|exact H1]. }
  assert (H3 : 27021201 / 25000000 <= exp (10 / 128)).
  { replace (10 / 128) with (2 * (10 / 256)) by field. apply Rle_trans with (51981921 / 50000000 * (51981921 / 50000000)). lra. apply exp_sq_lb; [lra|exact H2]. }
  assert (H4 : 7301453 / 6250000 <= exp (10 / 64)).
  { replace (10 / 64) with (2 * (10 / 128)) by field. apply Rle_trans with (27021201 / 25000000 * (27021201 / 25000000)). lra. apply exp_sq_lb; [lra|exact H3]. }
  assert (H5 : 17059589 / 12500000 <= exp (10 / 32)).
  { replace (10 / 32) with (2 * (10 / 64)) by field. apply Rle_trans with (7301453 / 6250000 * (7301453 / 6250000)). lra. apply exp_sq_lb; [lra|exact H4]. }
  assert (H6 : 186258929 / 100000000 <= exp (10 / 16)).
  { replace (10 / 16) with (2 * (10 / 32)) by field. apply Rle_trans with (17059589 / 12500000 * (17059589 / 12500000)). lra. apply exp_sq_lb; [lra|exact H5]. }
  assert (H7 : 173461943 / 50000000 <= exp (10 / 8)).
  { replace (10 / 8) with (2 * (10 / 16)) by field. apply Rle_trans with (186258929 / 100000000 * (186258929 / 100000000)). lra. apply exp_sq_lb; [lra|exact H6]. }
  assert (H8 : 60178091 / 5000000 <= exp (10 / 4)).
  { replace (10 / 4) with (2 * (10 / 8)) by field. apply Rle_trans with (173461943 / 50000000 * (173461943 / 50000000)). lra. apply exp_sq_lb; [lra|exact H7]. }
  assert (H9 : 28971221 / 200000 <= exp (10 / 2)).
  { replace (10 / 2) with (2 * (10 / 4)) by field. apply Rle_trans with (60178091 / 5000000 * (60178091 / 5000000)). lra. apply exp_sq_lb; [lra|exact H8]. }
  assert (H10 : 209832911 / 10000 <= exp (10 / 1)).
  { replace (10 / 1) with (2 * (10 / 2)) by field. apply Rle_trans with (28971221 / 200000 * (28971221 / 200000)). lra. apply exp_sq_lb; [lra|exact H9]. }
  replace (10 / 1) with 10 in H10 by field. lra.
Qed.
