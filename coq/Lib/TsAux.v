(* Finite trigonometric sums for C16: telescoping (Dirichlet) sums and the orthogonality of
   cos/sin(2 pi k n / N) over a full period. *)
From Coq Require Import Reals Lra Lia ZArith List.
From OSU.Lib Require Import WindAux.        (* sin_Zperiod, cos_Zperiod *)
Open Scope R_scope.

Fixpoint sumN (f : nat -> R) (n : nat) : R :=
  match n with O => 0 | S k => sumN f k + f k end.

Lemma sumN_ext : forall f g n, (forall i, (i < n)%nat -> f i = g i) -> sumN f n = sumN g n.
Proof.
  intros f g n. induction n as [|n IH]; intros H; [reflexivity|].
  cbn. rewrite IH by (intros; apply H; lia). rewrite (H n) by lia. reflexivity.
Qed.

Lemma sumN_plus : forall f g n, sumN (fun i => f i + g i) n = sumN f n + sumN g n.
Proof. intros f g n. induction n as [|n IH]; cbn; [ring|]. rewrite IH. ring. Qed.

Lemma sumN_scal : forall c f n, sumN (fun i => c * f i) n = c * sumN f n.
Proof. intros c f n. induction n as [|n IH]; cbn; [ring|]. rewrite IH. ring. Qed.

Lemma sumN_const : forall c n, sumN (fun _ => c) n = INR n * c.
Proof.
  intros c n. induction n as [|n IH]; [cbn; ring|].
  change (sumN (fun _ => c) (S n)) with (sumN (fun _ => c) n + c). rewrite IH, S_INR. ring.
Qed.

Lemma sumN_shift : forall g n, sumN g (S n) = g O + sumN (fun i => g (S i)) n.
Proof.
  intros g n. induction n as [|n IH]; [cbn; ring|].
  change (sumN g (S (S n))) with (sumN g (S n) + g (S n)). rewrite IH. cbn. ring.
Qed.

(* ---------------------------------------------------------------- telescoping *)
Lemma cos_telescope : forall a phi n,
  2 * sin (a / 2) * sumN (fun i => cos (INR i * a + phi)) n
  = sin ((INR n - 1 / 2) * a + phi) - sin (phi - a / 2).
Proof.
  intros a phi n. induction n as [|n IH].
  - cbn [sumN INR]. replace ((0 - 1 / 2) * a + phi) with (phi - a / 2) by field. ring.
  - change (sumN (fun i => cos (INR i * a + phi)) (S n))
      with (sumN (fun i => cos (INR i * a + phi)) n + cos (INR n * a + phi)).
    rewrite Rmult_plus_distr_l, IH.
    replace ((INR (S n) - 1 / 2) * a + phi) with ((INR n * a + phi) + a / 2) by (rewrite S_INR; field).
    replace ((INR n - 1 / 2) * a + phi) with ((INR n * a + phi) - a / 2) by field.
    rewrite sin_plus, sin_minus. ring.
Qed.

(* full period: a = 2 pi m / N *)
Lemma dirichlet_zero : forall (N : nat) (m : Z) phi, (0 < N)%nat ->
  sin (PI * IZR m / INR N) <> 0 ->
  sumN (fun i => cos (INR i * (2 * PI * IZR m / INR N) + phi)) N = 0.
Proof.
  intros N m phi HN Hs.
  assert (HNR : INR N <> 0) by (apply not_0_INR; lia).
  pose proof (cos_telescope (2 * PI * IZR m / INR N) phi N) as H.
  replace (2 * PI * IZR m / INR N / 2) with (PI * IZR m / INR N) in H by (field; exact HNR).
  replace ((INR N - 1 / 2) * (2 * PI * IZR m / INR N) + phi)
    with ((phi - PI * IZR m / INR N) + 2 * IZR m * PI) in H by (field; exact HNR).
  rewrite sin_Zperiod in H.
  replace (sin (phi - PI * IZR m / INR N) - sin (phi - PI * IZR m / INR N)) with 0 in H by ring.
  apply Rmult_integral in H. destruct H as [H|H]; [|exact H].
  exfalso. apply Rmult_integral in H. destruct H; [lra|contradiction].
Qed.

Lemma sin_piZ_neq0 : forall (N : nat) (m : Z), (0 < Z.abs m < Z.of_nat N)%Z ->
  sin (PI * IZR m / INR N) <> 0.
Proof.
  intros N m Hm.
  assert (HN : 0 < INR N) by (apply lt_0_INR; lia).
  assert (Hpos : forall q : Z, (0 < q < Z.of_nat N)%Z -> 0 < sin (PI * IZR q / INR N)).
  { intros q Hq. pose proof PI_RGT_0.
    assert (0 < IZR q) by (apply IZR_lt; lia).
    assert (IZR q < INR N) by (rewrite INR_IZR_INZ; apply IZR_lt; lia).
    apply sin_gt_0.
    - apply Rdiv_lt_0_compat; [|exact HN]. apply Rmult_lt_0_compat; assumption.
    - apply Rmult_lt_reg_r with (INR N); [exact HN|].
      unfold Rdiv. rewrite Rmult_assoc, Rinv_l, Rmult_1_r by lra.
      apply Rmult_lt_compat_l; assumption. }
  destruct (Z_lt_le_dec 0 m) as [H|H].
  - apply Rgt_not_eq. apply Hpos. lia.
  - assert (Hq : (0 < - m < Z.of_nat N)%Z) by lia.
    specialize (Hpos _ Hq). rewrite opp_IZR in Hpos.
    replace (PI * - IZR m / INR N) with (- (PI * IZR m / INR N)) in Hpos by (field; lra).
    rewrite sin_neg in Hpos. lra.
Qed.

(* w_i = 2 pi i / N *)
Definition wN (N : nat) (i : nat) : R := 2 * PI * INR i / INR N.

Lemma cos_sum_zero : forall (N : nat) (m : Z), (0 < Z.abs m < Z.of_nat N)%Z ->
  sumN (fun i => cos (IZR m * wN N i)) N = 0.
Proof.
  intros N m Hm.
  assert (HN : (0 < N)%nat) by lia.
  assert (HNR : INR N <> 0) by (apply not_0_INR; lia).
  rewrite (sumN_ext _ (fun i => cos (INR i * (2 * PI * IZR m / INR N) + 0))).
  - apply dirichlet_zero; [exact HN|apply sin_piZ_neq0; exact Hm].
  - intros i _. f_equal. unfold wN. field. exact HNR.
Qed.

Lemma sin_sum_zero : forall (N : nat) (m : Z), (0 < Z.abs m < Z.of_nat N)%Z ->
  sumN (fun i => sin (IZR m * wN N i)) N = 0.
Proof.
  intros N m Hm.
  assert (HN : (0 < N)%nat) by lia.
  assert (HNR : INR N <> 0) by (apply not_0_INR; lia).
  rewrite (sumN_ext _ (fun i => cos (INR i * (2 * PI * IZR m / INR N) + (- (PI / 2))))).
  - apply dirichlet_zero; [exact HN|apply sin_piZ_neq0; exact Hm].
  - intros i _.
    replace (INR i * (2 * PI * IZR m / INR N) + - (PI / 2)) with (IZR m * wN N i - PI / 2)
      by (unfold wN; field; exact HNR).
    rewrite cos_minus, cos_PI2, sin_PI2. ring.
Qed.

(* ---------------------------------------------------------------- orthogonality *)
Definition uterm (N k : nat) (a b : R) (i : nat) : R :=
  a * cos (INR k * wN N i) + b * sin (INR k * wN N i).

Lemma uterm_product : forall N k l a b a' b' i,
  uterm N k a b i * uterm N l a' b' i =
  / 2 * ((a * a' + b * b') * cos (IZR (Z.of_nat k - Z.of_nat l) * wN N i)
       + (a * a' - b * b') * cos (IZR (Z.of_nat k + Z.of_nat l) * wN N i)
       + (b * a' + a * b') * sin (IZR (Z.of_nat k + Z.of_nat l) * wN N i)
       + (b * a' - a * b') * sin (IZR (Z.of_nat k - Z.of_nat l) * wN N i)).
Proof.
  intros. unfold uterm.
  rewrite minus_IZR, plus_IZR, <- !INR_IZR_INZ.
  set (w := wN N i).
  replace ((INR k - INR l) * w) with (INR k * w - INR l * w) by ring.
  replace ((INR k + INR l) * w) with (INR k * w + INR l * w) by ring.
  rewrite cos_minus, cos_plus, sin_plus, sin_minus. field.
Qed.

Lemma sumN_lin4 : forall c1 c2 c3 c4 f1 f2 f3 f4 n,
  sumN (fun i => / 2 * (c1 * f1 i + c2 * f2 i + c3 * f3 i + c4 * f4 i)) n
  = / 2 * (c1 * sumN f1 n + c2 * sumN f2 n + c3 * sumN f3 n + c4 * sumN f4 n).
Proof.
  intros. induction n as [|n IH]; cbn; [ring|]. rewrite IH. ring.
Qed.

Lemma uterm_inner : forall N k l a b a' b', (1 <= k)%nat -> (1 <= l)%nat -> (k + l < N)%nat ->
  sumN (fun i => uterm N k a b i * uterm N l a' b' i) N =
  if Nat.eqb k l then INR N / 2 * (a * a' + b * b') else 0.
Proof.
  intros N k l a b a' b' Hk Hl Hkl.
  rewrite (sumN_ext _ _ N (fun i _ => uterm_product N k l a b a' b' i)).
  rewrite sumN_lin4.
  rewrite (cos_sum_zero N (Z.of_nat k + Z.of_nat l)) by lia.
  rewrite (sin_sum_zero N (Z.of_nat k + Z.of_nat l)) by lia.
  destruct (Nat.eqb_spec k l) as [->|Hne].
  - rewrite Z.sub_diag.
    rewrite (sumN_ext (fun i => cos (0 * wN N i)) (fun _ => 1)) by (intros; rewrite Rmult_0_l; apply cos_0).
    rewrite (sumN_ext (fun i => sin (0 * wN N i)) (fun _ => 0)) by (intros; rewrite Rmult_0_l; apply sin_0).
    rewrite !sumN_const. field.
  - rewrite (cos_sum_zero N (Z.of_nat k - Z.of_nat l)) by lia.
    rewrite (sin_sum_zero N (Z.of_nat k - Z.of_nat l)) by lia.
    ring.
Qed.

Lemma uterm_sum_zero : forall N k a b, (1 <= k)%nat -> (k < N)%nat ->
  sumN (uterm N k a b) N = 0.
Proof.
  intros N k a b Hk HkN. unfold uterm.
  rewrite sumN_plus, !sumN_scal.
  rewrite (sumN_ext (fun i => cos (INR k * wN N i)) (fun i => cos (IZR (Z.of_nat k) * wN N i)))
    by (intros; rewrite <- INR_IZR_INZ; reflexivity).
  rewrite (sumN_ext (fun i => sin (INR k * wN N i)) (fun i => sin (IZR (Z.of_nat k) * wN N i)))
    by (intros; rewrite <- INR_IZR_INZ; reflexivity).
  rewrite cos_sum_zero, sin_sum_zero by lia. ring.
Qed.
