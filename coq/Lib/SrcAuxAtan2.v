(* atan2 (defined from atan by quadrant in SrcAuxDefs) points along (x, y); the direction in degrees
   modulo 360 has the same cosine and sine. *)
From Coq Require Import Reals List Arith ZArith Lia Lra.
From OSU.Lib Require Import SrcAuxDefs SrcAuxLemmas.
Open Scope R_scope.

Lemma norm_pos : forall x y, (x <> 0 \/ y <> 0) -> 0 < sqrt (x ^ 2 + y ^ 2).
Proof.
  intros x y H. apply sqrt_lt_R0.
  assert (0 <= x ^ 2) by apply pow2_ge_0. assert (0 <= y ^ 2) by apply pow2_ge_0.
  destruct H as [H|H].
  - assert (0 < x ^ 2) by (apply pow_nonzero with (n := 2%nat) in H; lra). lra.
  - assert (0 < y ^ 2) by (apply pow_nonzero with (n := 2%nat) in H; lra). lra.
Qed.

(* sqrt (1 + (y/x)^2) = r / |x| *)
Lemma sqrt_1_t2 : forall x y, x <> 0 ->
  sqrt (1 + (y / x)²) = sqrt (x ^ 2 + y ^ 2) / Rabs x.
Proof.
  intros x y Hx.
  assert (Hx2 : 0 < x ^ 2) by (assert (0 <= x ^ 2) by apply pow2_ge_0;
                                apply pow_nonzero with (n := 2%nat) in Hx; lra).
  replace (1 + (y / x)²) with ((x ^ 2 + y ^ 2) / x ^ 2) by (unfold Rsqr; field; exact Hx).
  rewrite sqrt_div_alt by exact Hx2.
  replace (x ^ 2) with (x²) at 2 by (unfold Rsqr; ring).
  rewrite sqrt_Rsqr_abs. reflexivity.
Qed.

Lemma atan2_spec : forall x y, (x <> 0 \/ y <> 0) ->
  cos (atan2 y x) = x / sqrt (x ^ 2 + y ^ 2) /\ sin (atan2 y x) = y / sqrt (x ^ 2 + y ^ 2).
Proof.
  intros x y H. pose proof (norm_pos x y H) as Hr. set (r := sqrt (x ^ 2 + y ^ 2)) in *.
  unfold atan2.
  destruct (Rgt_dec x 0) as [Hx|Hx].
  - rewrite cos_atan, sin_atan, sqrt_1_t2 by lra. fold r. rewrite Rabs_right by lra.
    split; field; lra.
  - destruct (Rlt_dec x 0) as [Hx'|Hx'].
    + assert (Habs : Rabs x = - x) by (apply Rabs_left; exact Hx').
      destruct (Rge_dec y 0).
      * rewrite neg_cos, neg_sin, cos_atan, sin_atan, sqrt_1_t2 by lra. fold r. rewrite Habs.
        split; field; lra.
      * unfold Rminus. rewrite cos_plus, sin_plus, cos_neg, sin_neg, cos_PI, sin_PI.
        rewrite cos_atan, sin_atan, sqrt_1_t2 by lra. fold r. rewrite Habs.
        split; field; lra.
    + assert (x = 0) by lra. subst x.
      assert (Hy : y <> 0) by (destruct H; [contradiction|assumption]).
      assert (Hr' : r = Rabs y).
      { unfold r. replace (0 ^ 2 + y ^ 2) with (y²) by (unfold Rsqr; ring). apply sqrt_Rsqr_abs. }
      destruct (Rgt_dec y 0).
      * rewrite cos_PI2, sin_PI2, Hr', Rabs_right by lra. split; field; lra.
      * destruct (Rlt_dec y 0); [|exfalso; lra].
        rewrite cos_neg, sin_neg, cos_PI2, sin_PI2, Hr', Rabs_left by lra. split; field; lra.
Qed.

Lemma dir_deg_spec : forall x y, (x <> 0 \/ y <> 0) ->
  cos (dir_deg y x * PI / 180) = x / sqrt (x ^ 2 + y ^ 2) /\
  sin (dir_deg y x * PI / 180) = y / sqrt (x ^ 2 + y ^ 2).
Proof.
  intros x y H. destruct (atan2_spec x y H) as [Hc Hs]. unfold dir_deg.
  destruct (pymod_shift (atan2 y x * 180 / PI) 360) as [n ->].
  assert (HPI : PI <> 0) by (pose proof PI_RGT_0; lra).
  replace ((atan2 y x * 180 / PI - IZR n * 360) * PI / 180)
    with (atan2 y x + 2 * IZR (- n) * PI) by (rewrite opp_IZR; field; exact HPI).
  rewrite cos_period_Z, sin_period_Z. split; assumption.
Qed.

Lemma dir_deg_range : forall x y, 0 <= dir_deg y x < 360.
Proof. intros. unfold dir_deg. apply pymod_range. lra. Qed.

(* two angles with equal cosine and sine differ by a whole number of turns: stated for use with the
   vector-form conclusions *)
Lemma rot_norm : forall c s e n, c ^ 2 + s ^ 2 = 1 ->
  (s * e + c * n) ^ 2 + (c * e - s * n) ^ 2 = n ^ 2 + e ^ 2.
Proof.
  intros c s e n H.
  replace ((s * e + c * n) ^ 2 + (c * e - s * n) ^ 2) with ((c ^ 2 + s ^ 2) * (n ^ 2 + e ^ 2)) by ring.
  rewrite H. ring.
Qed.
