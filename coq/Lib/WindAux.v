(* Scalar lemmas for C12: fmod range / congruence, periodicity over Z, atan2 by quadrant. *)
From Coq Require Import Reals Lra Lia ZArith List.
From OSU.Model Require Import WindEstimate.
Open Scope R_scope.

(* ---------------------------------------------------------------- fmod *)
Lemma fmod_range : forall x p, 0 < p -> 0 <= fmod x p < p.
Proof.
  intros x p Hp. unfold fmod.
  destruct (base_Int_part (x / p)) as [H1 H2].
  set (k := IZR (Int_part (x / p))) in *.
  assert (Hx : x = x / p * p) by (field; lra).
  split.
  - assert (k * p <= x / p * p) by (apply Rmult_le_compat_r; lra). lra.
  - assert (x / p * p < (k + 1) * p) by (apply Rmult_lt_compat_r; lra). lra.
Qed.

Lemma fmod_congr : forall x p, exists k : Z, fmod x p = x - IZR k * p.
Proof. intros. exists (Int_part (x / p)). reflexivity. Qed.

(* ---------------------------------------------------------------- periodicity over Z *)
Lemma cos_Zperiod : forall x (k : Z), cos (x + 2 * IZR k * PI) = cos x.
Proof.
  intros x k. destruct (Z_le_gt_dec 0 k) as [H | H].
  - rewrite <- (Z2Nat.id k H), <- INR_IZR_INZ. apply cos_period.
  - assert (Hk : (0 <= - k)%Z) by lia.
    rewrite <- (cos_period (x + 2 * IZR k * PI) (Z.to_nat (- k))).
    rewrite INR_IZR_INZ, (Z2Nat.id _ Hk), opp_IZR. f_equal. ring.
Qed.

Lemma sin_Zperiod : forall x (k : Z), sin (x + 2 * IZR k * PI) = sin x.
Proof.
  intros x k. destruct (Z_le_gt_dec 0 k) as [H | H].
  - rewrite <- (Z2Nat.id k H), <- INR_IZR_INZ. apply sin_period.
  - assert (Hk : (0 <= - k)%Z) by lia.
    rewrite <- (sin_period (x + 2 * IZR k * PI) (Z.to_nat (- k))).
    rewrite INR_IZR_INZ, (Z2Nat.id _ Hk), opp_IZR. f_equal. ring.
Qed.

Lemma rad_fmod360 : forall x, exists k : Z, rad (fmod x 360) = rad x + 2 * IZR k * PI.
Proof.
  intros x. destruct (fmod_congr x 360) as [k Hk]. exists (- k)%Z.
  rewrite Hk, opp_IZR. unfold rad. field.
Qed.

Lemma cos_rad_fmod360 : forall x, cos (rad (fmod x 360)) = cos (rad x).
Proof. intros x. destruct (rad_fmod360 x) as [k ->]. apply cos_Zperiod. Qed.

Lemma sin_rad_fmod360 : forall x, sin (rad (fmod x 360)) = sin (rad x).
Proof. intros x. destruct (rad_fmod360 x) as [k ->]. apply sin_Zperiod. Qed.

Lemma rad_deg : forall t, rad (180 / PI * t) = t.
Proof. intros. unfold rad. field. apply PI_neq0. Qed.

(* ---------------------------------------------------------------- atan2 *)
Lemma hyp_factor : forall x y, x <> 0 ->
  sqrt (x * x + y * y) = Rabs x * sqrt (1 + (y / x)²).
Proof.
  intros x y Hx.
  replace (x * x + y * y) with (Rsqr x * (1 + (y / x)²)) by (unfold Rsqr; field; exact Hx).
  rewrite sqrt_mult_alt by apply Rle_0_sqr.
  rewrite sqrt_Rsqr_abs. reflexivity.
Qed.

Lemma sqrt1t_pos : forall t, 0 < sqrt (1 + t²).
Proof. intros. apply sqrt_lt_R0. pose proof (Rle_0_sqr t). lra. Qed.

(* (x, y) = r (cos theta, sin theta) with theta = atan2 y x, r = |(x,y)| *)
Lemma atan2_spec : forall x y, (x <> 0 \/ y <> 0) ->
  let r := sqrt (x * x + y * y) in
  x = r * cos (atan2 y x) /\ y = r * sin (atan2 y x).
Proof.
  intros x y Hxy r. unfold atan2.
  destruct (Rlt_dec 0 x) as [Hx | Hx].
  - assert (Hx0 : x <> 0) by lra.
    unfold r. rewrite (hyp_factor x y Hx0), cos_atan, sin_atan, (Rabs_right x) by lra.
    pose proof (sqrt1t_pos (y / x)). split; field; lra.
  - destruct (Rlt_dec x 0) as [Hx' | Hx'].
    + assert (Hx0 : x <> 0) by lra.
      pose proof (sqrt1t_pos (y / x)).
      destruct (Rle_dec 0 y).
      * rewrite neg_cos, neg_sin.
        unfold r. rewrite (hyp_factor x y Hx0), cos_atan, sin_atan, (Rabs_left x) by lra.
        split; field; lra.
      * replace (atan (y / x) - PI) with (atan (y / x) + PI + 2 * IZR (-1) * PI) by (simpl; ring).
        rewrite cos_Zperiod, sin_Zperiod, neg_cos, neg_sin.
        unfold r. rewrite (hyp_factor x y Hx0), cos_atan, sin_atan, (Rabs_left x) by lra.
        split; field; lra.
    + assert (x = 0) by lra. subst x.
      assert (Hr : r = Rabs y).
      { unfold r. replace (0 * 0 + y * y) with (Rsqr y) by (unfold Rsqr; ring). apply sqrt_Rsqr_abs. }
      destruct (Rlt_dec 0 y).
      * rewrite Hr, cos_PI2, sin_PI2, Rabs_right by lra. lra.
      * destruct (Rlt_dec y 0).
        -- rewrite Hr, cos_neg, sin_neg, cos_PI2, sin_PI2, Rabs_left by lra. lra.
        -- exfalso. destruct Hxy; lra.
Qed.

Lemma atan2_range : forall x y, - PI < atan2 y x <= PI.
Proof.
  intros x y. unfold atan2. pose proof PI_RGT_0. pose proof (atan_bound (y / x)) as Hb.
  destruct (Rlt_dec 0 x) as [Hx|Hx]; [lra|].
  destruct (Rlt_dec x 0) as [Hx'|Hx'].
  - assert (Hinv : / x < 0) by (apply Rinv_lt_0_compat; exact Hx').
    destruct (Rle_dec 0 y) as [Hy|Hy].
    + assert (y / x <= 0).
      { unfold Rdiv. replace 0 with (y * 0) by ring. apply Rmult_le_compat_l; lra. }
      assert (atan (y / x) <= 0).
      { destruct (Req_dec (y / x) 0) as [->|Hn]; [rewrite atan_0; lra|].
        left. rewrite <- atan_0. apply atan_increasing. lra. }
      lra.
    + assert (0 < y / x).
      { unfold Rdiv. replace (y * / x) with ((- y) * (- / x)) by ring.
        apply Rmult_lt_0_compat; lra. }
      assert (0 < atan (y / x)) by (rewrite <- atan_0; apply atan_increasing; lra).
      lra.
  - destruct (Rlt_dec 0 y); [lra|]. destruct (Rlt_dec y 0); lra.
Qed.
