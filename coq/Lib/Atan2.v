(* atan2 built from atan by quadrant (so that it extracts to floats through `atan`),
   its polar-coordinate specification, range, behaviour under rotation and mirroring. *)
From Coq Require Import Reals Lra Lia ZArith.
Open Scope R_scope.

(* numpy.arctan2(y, x) *)
Definition atan2 (y x : R) : R :=
  if Rlt_dec 0 x then atan (y / x)
  else if Rlt_dec x 0 then
         (if Rle_dec 0 y then atan (y / x) + PI else atan (y / x) - PI)
       else if Rlt_dec 0 y then PI / 2
            else if Rlt_dec y 0 then - (PI / 2) else 0.

Definition hyp (x y : R) : R := sqrt (x * x + y * y).

(* ------------------------------------------------------------------ *)
Lemma hyp_pos : forall x y, x <> 0 \/ y <> 0 -> 0 < hyp x y.
Proof.
  intros x y H. unfold hyp. apply sqrt_lt_R0.
  assert (0 <= x * x) by (apply Rle_0_sqr).
  assert (0 <= y * y) by (apply Rle_0_sqr).
  destruct H as [H|H].
  - assert (0 < x * x) by (apply Rsqr_pos_lt; exact H). lra.
  - assert (0 < y * y) by (apply Rsqr_pos_lt; exact H). lra.
Qed.

Lemma hyp_sqr : forall x y, hyp x y * hyp x y = x * x + y * y.
Proof.
  intros. unfold hyp. apply sqrt_sqrt.
  assert (0 <= x * x) by (apply Rle_0_sqr).
  assert (0 <= y * y) by (apply Rle_0_sqr). lra.
Qed.

Lemma sq1_pos : forall t, 0 < sqrt (1 + t²).
Proof. intros t. apply sqrt_lt_R0. assert (0 <= t²) by apply Rle_0_sqr. lra. Qed.

Lemma hyp_factor : forall x y, x <> 0 -> hyp x y = Rabs x * sqrt (1 + (y / x)²).
Proof.
  intros x y Hx. unfold hyp.
  replace (x * x + y * y) with (x² * (1 + (y / x)²)) by (unfold Rsqr; field; exact Hx).
  rewrite sqrt_mult.
  - rewrite sqrt_Rsqr_abs. reflexivity.
  - apply Rle_0_sqr.
  - assert (0 <= (y / x)²) by apply Rle_0_sqr. lra.
Qed.

Lemma atan2_cos_sin : forall x y, x <> 0 \/ y <> 0 ->
  x = hyp x y * cos (atan2 y x) /\ y = hyp x y * sin (atan2 y x).
Proof.
  intros x y H. unfold atan2.
  destruct (Rlt_dec 0 x) as [Hx|Hx].
  - (* x > 0 *)
    rewrite hyp_factor by lra. rewrite Rabs_right by lra.
    rewrite cos_atan, sin_atan.
    assert (S := sq1_pos (y / x)).
    split; field; repeat split; lra.
  - destruct (Rlt_dec x 0) as [Hx'|Hx'].
    + rewrite hyp_factor by lra. rewrite Rabs_left by lra.
      assert (S := sq1_pos (y / x)).
      destruct (Rle_dec 0 y).
      * rewrite neg_cos, neg_sin, cos_atan, sin_atan. split; field; repeat split; lra.
      * unfold Rminus. rewrite cos_plus, sin_plus, cos_neg, sin_neg, cos_PI, sin_PI, cos_atan, sin_atan.
        split; field; repeat split; lra.
    + assert (x = 0) by lra. subst x.
      assert (Hy : y <> 0) by (destruct H; [lra | assumption]).
      unfold hyp. replace (0 * 0 + y * y) with (y²) by (unfold Rsqr; ring).
      rewrite sqrt_Rsqr_abs.
      destruct (Rlt_dec 0 y).
      * rewrite cos_PI2, sin_PI2, Rabs_right by lra. split; ring.
      * destruct (Rlt_dec y 0); [|lra].
        rewrite cos_neg, sin_neg, cos_PI2, sin_PI2, Rabs_left by lra. split; ring.
Qed.

Lemma atan2_range : forall x y, x <> 0 \/ y <> 0 -> - PI < atan2 y x <= PI.
Proof.
  intros x y H. unfold atan2. assert (P := PI_RGT_0).
  destruct (Rlt_dec 0 x).
  - assert (B := atan_bound (y / x)). lra.
  - destruct (Rlt_dec x 0).
    + assert (B := atan_bound (y / x)).
      destruct (Rle_dec 0 y).
      * (* y/x <= 0 so atan <= 0 *)
        assert (y / x <= 0).
        { unfold Rdiv. assert (/ x < 0) by (apply Rinv_lt_0_compat; lra).
          assert (0 <= y * - / x) by (apply Rmult_le_pos; lra). lra. }
        assert (atan (y / x) <= 0).
        { destruct (Req_dec (y / x) 0) as [E|E]; [rewrite E, atan_0; lra|].
          assert (atan (y / x) < atan 0) by (apply atan_increasing; lra). rewrite atan_0 in *; lra. }
        lra.
      * assert (0 < y / x).
        { unfold Rdiv. assert (/ x < 0) by (apply Rinv_lt_0_compat; lra).
          assert (0 < (- y) * - / x) by (apply Rmult_lt_0_compat; lra). lra. }
        assert (atan 0 < atan (y / x)) by (apply atan_increasing; lra). rewrite atan_0 in *. lra.
    + destruct (Rlt_dec 0 y); [lra|]. destruct (Rlt_dec y 0); lra.
Qed.

(* ------------------------------------------------------------------ *)
(* whole turns *)
Lemma cos_sin_period_Z : forall x (k : Z),
  cos (x + 2 * IZR k * PI) = cos x /\ sin (x + 2 * IZR k * PI) = sin x.
Proof.
  intros x k. destruct k as [|p|p].
  - simpl. replace (x + 2 * 0 * PI) with x by ring. split; reflexivity.
  - assert (E : IZR (Z.pos p) = INR (Pos.to_nat p)) by (rewrite INR_IZR_INZ, positive_nat_Z; reflexivity).
    rewrite E. split; [apply cos_period | apply sin_period].
  - set (n := Pos.to_nat p).
    assert (E : IZR (Z.neg p) = - INR n).
    { unfold n. rewrite INR_IZR_INZ, positive_nat_Z. rewrite <- opp_IZR. reflexivity. }
    rewrite E.
    split.
    + rewrite <- (cos_period (x + 2 * - INR n * PI) n). f_equal. ring.
    + rewrite <- (sin_period (x + 2 * - INR n * PI) n). f_equal. ring.
Qed.

(* equal cosine and sine: the angles differ by a whole number of turns *)
Lemma cos_sin_eq_turns : forall a b, cos a = cos b -> sin a = sin b ->
  exists k : Z, a = b + 2 * IZR k * PI.
Proof.
  intros a b Hc Hs.
  assert (S0 : sin (a - b) = 0).
  { rewrite sin_minus, Hc, Hs. ring. }
  assert (C1 : cos (a - b) = 1).
  { rewrite cos_minus, Hc, Hs. assert (T := sin2_cos2 b). unfold Rsqr in T. lra. }
  destruct (sin_eq_0_0 _ S0) as [k Hk].
  destruct (Z.Even_or_Odd k) as [[m Hm]|[m Hm]].
  - exists m. subst k. rewrite mult_IZR in Hk. simpl in Hk. lra.
  - exfalso. subst k. rewrite plus_IZR, mult_IZR in Hk. simpl in Hk.
    assert (E : a - b = PI + 2 * IZR m * PI) by lra.
    rewrite E in C1.
    destruct (cos_sin_period_Z PI m) as [Hp _]. rewrite Hp, cos_PI in C1. lra.
Qed.

(* rotating the vector by alpha adds alpha to the angle (vector form of "modulo 2 pi") *)
Lemma atan2_rot : forall x y al, x <> 0 \/ y <> 0 ->
  let x' := x * cos al - y * sin al in
  let y' := x * sin al + y * cos al in
  (x' <> 0 \/ y' <> 0) /\
  cos (atan2 y' x') = cos (atan2 y x + al) /\ sin (atan2 y' x') = sin (atan2 y x + al).
Proof.
  intros x y al H x' y'.
  assert (N : x' * x' + y' * y' = x * x + y * y).
  { unfold x', y'. assert (T := sin2_cos2 al). unfold Rsqr in T.
    replace ((x * cos al - y * sin al) * (x * cos al - y * sin al) +
             (x * sin al + y * cos al) * (x * sin al + y * cos al))
      with ((x * x + y * y) * (sin al * sin al + cos al * cos al)) by ring.
    rewrite T. ring. }
  assert (H' : x' <> 0 \/ y' <> 0).
  { destruct (Req_dec x' 0) as [E1|E1]; [|left; exact E1].
    destruct (Req_dec y' 0) as [E2|E2]; [|right; exact E2].
    exfalso. rewrite E1, E2 in N.
    assert (P := hyp_pos x y H). assert (Q := hyp_sqr x y).
    assert (0 < hyp x y * hyp x y) by (apply Rmult_lt_0_compat; assumption). lra. }
  split; [exact H'|].
  destruct (atan2_cos_sin x y H) as [Cx Cy].
  destruct (atan2_cos_sin x' y' H') as [Cx' Cy'].
  assert (R : hyp x' y' = hyp x y) by (unfold hyp; rewrite N; reflexivity).
  rewrite R in *.
  assert (P := hyp_pos x y H).
  set (r := hyp x y) in *. set (t := atan2 y x) in *. set (t' := atan2 y' x') in *.
  rewrite cos_plus, sin_plus.
  split; apply (Rmult_eq_reg_l r); try lra.
  - rewrite <- Cx'. unfold x'. rewrite Cx at 1. rewrite Cy at 1. ring.
  - rewrite <- Cy'. unfold y'. rewrite Cx at 1. rewrite Cy at 1. ring.
Qed.

(* mirroring (y -> -y) negates the angle (vector form) *)
Lemma atan2_mirror : forall x y, x <> 0 \/ y <> 0 ->
  cos (atan2 (- y) x) = cos (- atan2 y x) /\ sin (atan2 (- y) x) = sin (- atan2 y x).
Proof.
  intros x y H.
  assert (H' : x <> 0 \/ - y <> 0) by (destruct H; [left; assumption | right; lra]).
  destruct (atan2_cos_sin x y H) as [Cx Cy].
  destruct (atan2_cos_sin x (- y) H') as [Cx' Cy'].
  assert (R : hyp x (- y) = hyp x y) by (unfold hyp; f_equal; ring).
  rewrite R in *. assert (P := hyp_pos x y H).
  set (r := hyp x y) in *.
  rewrite cos_neg, sin_neg.
  split; apply (Rmult_eq_reg_l r); try lra.
Qed.
