(* Lemmas about fmod / wrapped_difference / rint / atan2 as defined in InterpAuxDefs.v
   (local to the interpolation properties C13 / C14). *)
From Coq Require Import Reals ZArith List Lia Lra.
From OSU.Lib Require Import InterpAuxDefs.
Open Scope R_scope.

(* ------------------------------------------------------------------ *)
(* floor                                                                *)
(* ------------------------------------------------------------------ *)

Lemma Int_part_unique : forall r k, IZR k <= r < IZR k + 1 -> Int_part r = k.
Proof.
  intros r k [H1 H2]. unfold Int_part.
  assert (H : (k + 1)%Z = up r).
  { apply up_tech; [exact H1|]. rewrite plus_IZR. exact H2. }
  lia.
Qed.

Lemma Int_part_bounds : forall r, IZR (Int_part r) <= r < IZR (Int_part r) + 1.
Proof. intros r. destruct (base_Int_part r). lra. Qed.

Lemma div_bounds : forall a b, 0 <= a < b -> 0 <= a / b < 1.
Proof.
  intros a b [H0 H1]. assert (Hb : 0 < b) by lra.
  assert (Hi : 0 < / b) by (apply Rinv_0_lt_compat; exact Hb).
  unfold Rdiv. split.
  - apply Rmult_le_pos; lra.
  - assert (a * / b < b * / b) by (apply Rmult_lt_compat_r; lra).
    rewrite Rinv_r in H by lra. exact H.
Qed.

Lemma div_pos_lt : forall a b, 0 < a -> 0 < b -> 0 < a / b.
Proof. intros. unfold Rdiv. apply Rmult_lt_0_compat; [lra|apply Rinv_0_lt_compat; lra]. Qed.

(* ------------------------------------------------------------------ *)
(* rint (round half to even)                                            *)
(* ------------------------------------------------------------------ *)

Lemma rint_lo : forall f, 0 <= f < 1 / 2 -> rint f = 0.
Proof.
  intros f Hf. unfold rint.
  rewrite (Int_part_unique f 0%Z) by (cbn; lra).
  cbn [IZR]. destruct (Rlt_dec (f - 0) (1 / 2)); [reflexivity|lra].
Qed.

Lemma rint_hi : forall f, 1 / 2 < f < 1 -> rint f = 1.
Proof.
  intros f Hf. unfold rint.
  rewrite (Int_part_unique f 0%Z) by (cbn; lra).
  destruct (Rlt_dec (f - IZR 0) (1 / 2)) as [H|H]; [cbn in H; lra|].
  destruct (Rlt_dec (1 / 2) (f - IZR 0)) as [H'|H']; [cbn; lra|cbn in H'; lra].
Qed.

Lemma rint_half : rint (1 / 2) = 0.
Proof.
  unfold rint. rewrite (Int_part_unique (1 / 2) 0%Z) by (cbn; lra).
  destruct (Rlt_dec (1 / 2 - IZR 0) (1 / 2)) as [H|H]; [cbn in H; lra|].
  destruct (Rlt_dec (1 / 2) (1 / 2 - IZR 0)) as [H'|H']; [cbn in H'; lra|].
  reflexivity.
Qed.

Lemma rint_IZR : forall k, rint (IZR k) = IZR k.
Proof.
  intros k. unfold rint. rewrite (Int_part_unique (IZR k) k) by lra.
  destruct (Rlt_dec (IZR k - IZR k) (1 / 2)); [reflexivity|lra].
Qed.

Lemma rint_0 : rint 0 = 0.
Proof. exact (rint_IZR 0). Qed.

(* rint returns an integer at distance at most 1/2 *)
Lemma rint_nearest : forall f, exists k : Z, rint f = IZR k /\ Rabs (rint f - f) <= 1 / 2.
Proof.
  intros f. unfold rint. pose proof (Int_part_bounds f) as Hb.
  set (k := Int_part f) in *.
  destruct (Rlt_dec (f - IZR k) (1 / 2)).
  - exists k. split; [reflexivity|]. apply Rabs_le. lra.
  - destruct (Rlt_dec (1 / 2) (f - IZR k)).
    + exists (k + 1)%Z. rewrite plus_IZR. split; [reflexivity|]. apply Rabs_le. lra.
    + destruct (Z.even k).
      * exists k. split; [reflexivity|]. apply Rabs_le. lra.
      * exists (k + 1)%Z. rewrite plus_IZR. split; [reflexivity|]. apply Rabs_le. lra.
Qed.

(* ------------------------------------------------------------------ *)
(* fmod                                                                 *)
(* ------------------------------------------------------------------ *)

Lemma fmod_range : forall x p, 0 < p -> 0 <= fmod x p < p.
Proof.
  intros x p Hp. unfold fmod. pose proof (Int_part_bounds (x / p)) as [H1 H2].
  set (k := IZR (Int_part (x / p))) in *.
  assert (Hx : x = x / p * p) by (field; lra).
  assert (E : x - k * p = (x / p - k) * p) by (rewrite Hx at 1; ring).
  rewrite E. split.
  - apply Rmult_le_pos; lra.
  - assert ((x / p - k) * p < 1 * p) by (apply Rmult_lt_compat_r; lra). lra.
Qed.

Lemma fmod_unique : forall x p r k, 0 < p -> 0 <= r < p -> x = r + IZR k * p -> fmod x p = r.
Proof.
  intros x p r k Hp Hr Hx. unfold fmod.
  assert (Hq : x / p = r / p + IZR k) by (rewrite Hx; field; lra).
  pose proof (div_bounds r p Hr) as Hd.
  rewrite (Int_part_unique (x / p) k) by (rewrite Hq; lra).
  rewrite Hx. ring.
Qed.

Lemma fmod_decomp : forall x p, x = fmod x p + IZR (Int_part (x / p)) * p.
Proof. intros. unfold fmod. ring. Qed.

Lemma fmod_shift : forall x p k, 0 < p -> fmod (x + IZR k * p) p = fmod x p.
Proof.
  intros x p k Hp.
  apply (fmod_unique _ p (fmod x p) (Int_part (x / p) + k)%Z Hp (fmod_range x p Hp)).
  rewrite plus_IZR. rewrite (fmod_decomp x p) at 1. ring.
Qed.

Lemma fmod_small : forall x p, 0 <= x < p -> fmod x p = x.
Proof.
  intros x p Hx. apply (fmod_unique x p x 0%Z); [lra|exact Hx|cbn; ring].
Qed.

(* ------------------------------------------------------------------ *)
(* wrapped_difference                                                   *)
(* ------------------------------------------------------------------ *)

Lemma wrapdiff_range : forall d P disc, 0 < P -> disc - P <= wrapdiff d P disc < disc.
Proof.
  intros d P disc HP. unfold wrapdiff.
  pose proof (fmod_range (d + P - disc) P HP). lra.
Qed.

Lemma wrapdiff_congr : forall d P disc, exists k : Z, wrapdiff d P disc = d + IZR k * P.
Proof.
  intros d P disc. exists (- Int_part ((d + P - disc) / P))%Z.
  unfold wrapdiff, fmod. rewrite opp_IZR. ring.
Qed.

Lemma wrapdiff_unique : forall d P disc r k, 0 < P -> disc - P <= r < disc ->
  d = r + IZR k * P -> wrapdiff d P disc = r.
Proof.
  intros d P disc r k HP Hr Hd. unfold wrapdiff.
  rewrite (fmod_unique (d + P - disc) P (r + P - disc) k HP); [ring|lra|].
  rewrite Hd. ring.
Qed.

Lemma wrapdiff_shift : forall d P disc k, 0 < P ->
  wrapdiff (d + IZR k * P) P disc = wrapdiff d P disc.
Proof.
  intros d P disc k HP. unfold wrapdiff.
  replace (d + IZR k * P + P - disc) with ((d + P - disc) + IZR k * P) by ring.
  rewrite fmod_shift by exact HP. reflexivity.
Qed.

Lemma wrapdiff_id : forall d P disc, 0 < P -> disc - P <= d < disc -> wrapdiff d P disc = d.
Proof.
  intros d P disc HP Hd. apply (wrapdiff_unique d P disc d 0%Z HP Hd). cbn. ring.
Qed.

(* ------------------------------------------------------------------ *)
(* atan2                                                                *)
(* ------------------------------------------------------------------ *)

Lemma sqrt_1_sqr_pos : forall u, 0 < sqrt (1 + u²).
Proof. intros u. apply sqrt_lt_R0. pose proof (Rle_0_sqr u). lra. Qed.

Lemma norm_factor : forall x y, x <> 0 ->
  sqrt (x * x + y * y) = Rabs x * sqrt (1 + (y / x)²).
Proof.
  intros x y Hx.
  assert (Hs : 0 <= 1 + (y / x)²) by (pose proof (Rle_0_sqr (y / x)); lra).
  assert (E : x * x + y * y = (Rabs x * sqrt (1 + (y / x)²)) * (Rabs x * sqrt (1 + (y / x)²))).
  { replace (Rabs x * sqrt (1 + (y / x)²) * (Rabs x * sqrt (1 + (y / x)²)))
      with ((Rabs x * Rabs x) * (sqrt (1 + (y / x)²) * sqrt (1 + (y / x)²))) by ring.
    rewrite sqrt_sqrt by exact Hs.
    replace (Rabs x * Rabs x) with (x * x).
    - unfold Rsqr. field. exact Hx.
    - unfold Rabs. destruct (Rcase_abs x); ring. }
  rewrite E. apply sqrt_square.
  apply Rmult_le_pos; [apply Rabs_pos|apply sqrt_pos].
Qed.

(* polar form: (x, y) = r (cos t, sin t) with t = atan2 y x, r = |(x,y)|, and -PI < t <= PI *)
Lemma atan2_spec : forall x y, (x <> 0 \/ y <> 0) ->
  x = sqrt (x * x + y * y) * cos (atan2 y x) /\
  y = sqrt (x * x + y * y) * sin (atan2 y x) /\
  - PI < atan2 y x <= PI.
Proof.
  intros x y Hxy. unfold atan2.
  pose proof PI_RGT_0 as HPI.
  destruct (Rlt_dec 0 x) as [Hx|Hx].
  - (* x > 0 *)
    pose proof (sqrt_1_sqr_pos (y / x)) as Hs.
    rewrite (norm_factor x y) by lra. rewrite Rabs_pos_eq by lra.
    rewrite cos_atan, sin_atan. pose proof (atan_bound (y / x)).
    repeat split; try lra; field; lra.
  - destruct (Rlt_dec x 0) as [Hx'|Hx'].
    + (* x < 0 *)
      pose proof (sqrt_1_sqr_pos (y / x)) as Hs.
      rewrite (norm_factor x y) by lra. rewrite Rabs_left by lra.
      pose proof (atan_bound (y / x)) as Hb.
      destruct (Rle_dec 0 y) as [Hy|Hy].
      * rewrite cos_plus, sin_plus, cos_PI, sin_PI, cos_atan, sin_atan.
        assert (Hq : y / x <= 0).
        { unfold Rdiv. assert (0 <= y * (- / x)).
          { apply Rmult_le_pos; [lra|]. left. apply Ropp_0_gt_lt_contravar. apply Rinv_lt_0_compat; lra. }
          lra. }
        assert (atan (y / x) <= 0).
        { destruct (Req_dec (y / x) 0) as [E|E]; [rewrite E, atan_0; lra|].
          left. rewrite <- atan_0. apply atan_increasing. lra. }
        repeat split; try lra; field; lra.
      * replace (atan (y / x) - PI) with (atan (y / x) + - PI) by ring.
        rewrite cos_plus, sin_plus, cos_neg, sin_neg, cos_PI, sin_PI, cos_atan, sin_atan.
        assert (Hq : 0 < y / x).
        { unfold Rdiv. replace (y * / x) with ((- y) * (- / x)) by ring.
          apply Rmult_lt_0_compat; [lra|]. apply Ropp_0_gt_lt_contravar. apply Rinv_lt_0_compat; lra. }
        assert (0 < atan (y / x)) by (rewrite <- atan_0; apply atan_increasing; lra).
        repeat split; try lra; field; lra.
    + (* x = 0 *)
      assert (x = 0) by lra. subst x.
      replace (0 * 0 + y * y) with (y * y) by ring.
      destruct (Rlt_dec 0 y) as [Hy|Hy].
      * rewrite sqrt_square by lra. rewrite cos_PI2, sin_PI2. repeat split; lra.
      * destruct (Rlt_dec y 0) as [Hy'|Hy'].
        -- replace (y * y) with ((- y) * (- y)) by ring. rewrite sqrt_square by lra.
           rewrite cos_neg, sin_neg, cos_PI2, sin_PI2. repeat split; lra.
        -- exfalso. destruct Hxy; lra.
Qed.

Lemma atan2_0_0 : atan2 0 0 = 0.
Proof.
  unfold atan2. destruct (Rlt_dec 0 0); [lra|]. destruct (Rlt_dec 0 0); [lra|]. reflexivity.
Qed.

(* NaN arithmetic *)
Lemma oadd_some : forall a b, oadd (Some a) (Some b) = Some (a + b). Proof. reflexivity. Qed.
Lemma omul_some : forall a b, omul (Some a) (Some b) = Some (a * b). Proof. reflexivity. Qed.
Lemma osub_some : forall a b, osub (Some a) (Some b) = Some (a - b). Proof. reflexivity. Qed.
Lemma odiv_some : forall a b, b <> 0 -> odiv (Some a) (Some b) = Some (a / b).
Proof. intros a b H. unfold odiv. destruct (Req_EM_T b 0); [contradiction|reflexivity]. Qed.
