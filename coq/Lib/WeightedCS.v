(* Weighted Cauchy-Schwarz and weighted-mean bounds for finite sums with weights p_k >= 0.
   A term is a pair (p, x). *)
From Coq Require Import Reals List Lra.
From OSU.Lib Require Import Sums.
Import ListNotations.
Open Scope R_scope.

Definition S0 (l : list (R * R)) : R := sumR (map (fun t => fst t) l).
Definition S1 (l : list (R * R)) : R := sumR (map (fun t => fst t * snd t) l).
Definition S2 (l : list (R * R)) : R := sumR (map (fun t => fst t * (snd t * snd t)) l).

Definition wnonneg (l : list (R * R)) : Prop := forall t, In t l -> 0 <= fst t.

Lemma S0_nonneg : forall l, wnonneg l -> 0 <= S0 l.
Proof. intros l H. apply sumR_map_nonneg. exact H. Qed.

Lemma S2_nonneg : forall l, wnonneg l -> 0 <= S2 l.
Proof.
  intros l H. apply sumR_map_nonneg. intros t Ht.
  apply Rmult_le_pos; [apply H; assumption|]. apply Rle_0_sqr.
Qed.

(* sum p (x s - 1)^2 = S2 s^2 - 2 S1 s + S0 *)
Lemma quad_expand : forall l s,
  sumR (map (fun t => fst t * ((snd t * s - 1) * (snd t * s - 1))) l)
  = S2 l * (s * s) - 2 * S1 l * s + S0 l.
Proof.
  unfold S0, S1, S2. induction l as [|[p x] t IH]; intros s; cbn [map sumR fst snd]; [lra|].
  rewrite IH. ring.
Qed.

Lemma quad_nonneg : forall l s, wnonneg l -> 0 <= S2 l * (s * s) - 2 * S1 l * s + S0 l.
Proof.
  intros l s H. rewrite <- quad_expand. apply sumR_map_nonneg. intros t Ht.
  apply Rmult_le_pos; [apply H; assumption|]. apply Rle_0_sqr.
Qed.

(* a quadratic that is non-negative everywhere has non-positive discriminant *)
Lemma discriminant : forall a b c,
  0 <= a -> (forall s, 0 <= a * (s * s) - 2 * b * s + c) -> b * b <= a * c.
Proof.
  intros a b c Ha H.
  destruct (Req_dec a 0) as [Ha0|Ha0].
  - subst a. destruct (Req_dec b 0) as [Hb|Hb]; [subst b; lra|].
    exfalso. specialize (H ((c + 1) / (2 * b))).
    replace (0 * ((c + 1) / (2 * b) * ((c + 1) / (2 * b))) - 2 * b * ((c + 1) / (2 * b)) + c)
      with (-1) in H by (field; assumption).
    lra.
  - assert (0 < a) by lra.
    specialize (H (b / a)).
    replace (a * (b / a * (b / a)) - 2 * b * (b / a) + c) with ((a * c - b * b) / a) in H
      by (field; assumption).
    assert (0 <= (a * c - b * b) / a * a) by (apply Rmult_le_pos; lra).
    replace ((a * c - b * b) / a * a) with (a * c - b * b) in * by (field; assumption).
    lra.
Qed.

(* (sum p x)^2 <= (sum p) (sum p x^2) *)
Theorem weighted_cauchy_schwarz : forall l, wnonneg l -> S1 l * S1 l <= S2 l * S0 l.
Proof.
  intros l H. apply discriminant; [apply S2_nonneg; assumption|].
  intros s. apply quad_nonneg; assumption.
Qed.

(* lo <= x_k <= hi  ==>  lo sum p <= sum p x <= hi sum p *)
Lemma S1_lower : forall l lo, wnonneg l -> (forall t, In t l -> lo <= snd t) -> lo * S0 l <= S1 l.
Proof.
  intros l lo H Hx. unfold S0, S1. rewrite <- sumR_map_scale.
  apply sumR_map_le. intros t Ht. specialize (H t Ht). specialize (Hx t Ht).
  assert (0 <= fst t * (snd t - lo)) by (apply Rmult_le_pos; lra). lra.
Qed.

Lemma S1_upper : forall l hi, wnonneg l -> (forall t, In t l -> snd t <= hi) -> S1 l <= hi * S0 l.
Proof.
  intros l hi H Hx. unfold S0, S1. rewrite <- sumR_map_scale.
  apply sumR_map_le. intros t Ht. specialize (H t Ht). specialize (Hx t Ht).
  assert (0 <= fst t * (hi - snd t)) by (apply Rmult_le_pos; lra). lra.
Qed.

Lemma S2_upper : forall l hi, wnonneg l -> (forall t, In t l -> 0 <= snd t <= hi) ->
  S2 l <= hi * hi * S0 l.
Proof.
  intros l hi H Hx. unfold S0, S2. rewrite <- sumR_map_scale.
  apply sumR_map_le. intros t Ht. specialize (H t Ht). specialize (Hx t Ht).
  assert (snd t * snd t <= hi * hi) by (apply Rmult_le_compat; lra).
  assert (0 <= fst t * (hi * hi - snd t * snd t)) by (apply Rmult_le_pos; lra). lra.
Qed.

Lemma S2_lower : forall l lo, wnonneg l -> 0 <= lo -> (forall t, In t l -> lo <= snd t) ->
  lo * lo * S0 l <= S2 l.
Proof.
  intros l lo H Hlo Hx. unfold S0, S2. rewrite <- sumR_map_scale.
  apply sumR_map_le. intros t Ht. specialize (H t Ht). specialize (Hx t Ht).
  assert (lo * lo <= snd t * snd t) by (apply Rmult_le_compat; lra).
  assert (0 <= fst t * (snd t * snd t - lo * lo)) by (apply Rmult_le_pos; lra). lra.
Qed.
