(* Finite sums of reals over lists: linearity, sign, monotonicity. *)
From Coq Require Import Reals List Lra.
Import ListNotations.
Open Scope R_scope.

Fixpoint sumR (l : list R) : R :=
  match l with
  | [] => 0
  | x :: t => x + sumR t
  end.

Lemma sumR_app : forall a b, sumR (a ++ b) = sumR a + sumR b.
Proof. induction a; intros; cbn [sumR app]; [lra | rewrite IHa; lra]. Qed.

Lemma sumR_map_scale : forall (A : Type) (g : A -> R) c l,
  sumR (map (fun a => c * g a) l) = c * sumR (map g l).
Proof. induction l; cbn [sumR map]; [lra | rewrite IHl; lra]. Qed.

Lemma sumR_map_add : forall (A : Type) (g h : A -> R) l,
  sumR (map (fun a => g a + h a) l) = sumR (map g l) + sumR (map h l).
Proof. induction l; cbn [sumR map]; [lra | rewrite IHl; lra]. Qed.

Lemma sumR_map_ext : forall (A : Type) (g h : A -> R) l,
  (forall a, In a l -> g a = h a) -> sumR (map g l) = sumR (map h l).
Proof.
  induction l; intros H; cbn [sumR map]; [reflexivity|].
  rewrite (H a (or_introl eq_refl)), IHl; [reflexivity|].
  intros; apply H; right; assumption.
Qed.

Lemma sumR_nonneg : forall l, (forall x, In x l -> 0 <= x) -> 0 <= sumR l.
Proof.
  induction l; intros H; cbn [sumR]; [lra|].
  assert (0 <= a) by (apply H; left; reflexivity).
  assert (0 <= sumR l) by (apply IHl; intros; apply H; right; assumption). lra.
Qed.

Lemma sumR_map_nonneg : forall (A : Type) (g : A -> R) l,
  (forall a, In a l -> 0 <= g a) -> 0 <= sumR (map g l).
Proof.
  intros. apply sumR_nonneg. intros x Hx. apply in_map_iff in Hx.
  destruct Hx as [a [<- Ha]]. auto.
Qed.

Lemma sumR_map_le : forall (A : Type) (g h : A -> R) l,
  (forall a, In a l -> g a <= h a) -> sumR (map g l) <= sumR (map h l).
Proof.
  induction l; intros H; cbn [sumR map]; [lra|].
  assert (g a <= h a) by (apply H; left; reflexivity).
  assert (sumR (map g l) <= sumR (map h l)) by (apply IHl; intros; apply H; right; assumption).
  lra.
Qed.

Lemma sumR_map_zero : forall (A : Type) (g : A -> R) l,
  (forall a, In a l -> g a = 0) -> sumR (map g l) = 0.
Proof.
  induction l; intros H; cbn [sumR map]; [reflexivity|].
  rewrite (H a (or_introl eq_refl)), IHl; [lra|]. intros; apply H; right; assumption.
Qed.
