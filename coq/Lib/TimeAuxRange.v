(* Bounded universal quantification over an interval of Z, decided by computation (vm_compute),
   and the lemma that lifts the computed boolean to the quantified statement. *)
From Coq Require Import ZArith List Bool Lia.
Open Scope Z_scope.

Fixpoint forall_range (n : nat) (z : Z) (P : Z -> bool) : bool :=
  match n with
  | O => true
  | S n' => P z && forall_range n' (z + 1) P
  end.

Lemma forall_range_spec : forall n z P, forall_range n z P = true ->
  forall k, z <= k < z + Z.of_nat n -> P k = true.
Proof.
  induction n as [|n IH]; intros z P H k Hk.
  - simpl in Hk. lia.
  - cbn [forall_range] in H. apply andb_true_iff in H. destruct H as [H0 H1].
    destruct (Z.eq_dec k z) as [->|Hne]; [exact H0|].
    apply (IH (z + 1) P H1). lia.
Qed.

(* the same with the bound given as a Z *)
Lemma forall_range_Z : forall (len : Z) z P, forall_range (Z.to_nat len) z P = true ->
  forall k, z <= k < z + len -> P k = true.
Proof.
  intros len z P H k Hk. apply (forall_range_spec _ _ _ H). rewrite Z2Nat.id; lia.
Qed.
