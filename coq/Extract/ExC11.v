From Coq Require Import Reals List Extraction ExtrOcamlBasic.
From OSU.Extract Require Import RFloat.
From OSU.Model Require Import WindInversion.
Extraction "../build/ex/C11/model.ml" run_test value_of diss_direction diss_bulk diss_kx diss_ky
  integrate2 active_dedt balance_fn u10_from_bulk_rate_point u10_from_spectra toy_gen toy_h
  driver_cfg mkcfg mkgrid mkpoint wrap180 fmod atan2.
