From Coq Require Import Reals List Extraction ExtrOcamlBasic.
From OSU.Extract Require Import RFloat.
From OSU.Model Require Import WindEstimate Timeseries.
Extraction "../build/ex/C16/model.ml" surface_timeseries spectrum_amplitudes sample nfft cols1d cols2d
  time_axis fft_freqs frequency_step resampled variance dsteps.
