From Coq Require Import Reals List Extraction ExtrOcamlBasic.
From OSU.Extract Require Import RFloat.
From OSU.Lib Require Import InterpAuxDefs.
From OSU.Model Require Import Interp.
Extraction "../build/ex/C13/model.ml" ssr enclosing frac frac_n rint interp_axis1 interp_axis interp_variable mkvar interp_nd spectrum_interp1 energy_interp1 interp_grid2.
