From Coq Require Import Reals List Extraction ExtrOcamlBasic.
From OSU.Extract Require Import RFloat.
From OSU.Model Require Import WindEstimate.
Extraction "../build/ex/C12/model.ml" estimate1d estimate2d eq_values reduce2d dsteps mkparams.
