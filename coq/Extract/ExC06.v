From Coq Require Import Reals List Extraction ExtrOcamlBasic.
From OSU.Extract Require Import RFloat.
From OSU.Model Require Import Estimators.
Extraction "../build/ex/C06/model.ml" to_rad incr_newton incr_utils mem_point mem_phi1 mem_phi2 mem_num mem_den
  mem_one_minus_c1sq dist constraints jacobian initial_value chol_solve newton newton_solver
  estimate_entry estimate_batch to_2d dint linspace360 step360 trapz moment_of norm4.
