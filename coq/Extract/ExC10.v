From Coq Require Import Reals List Extraction ExtrOcamlBasic.
From OSU.Extract Require Import RFloat.
From OSU.Model Require Import Roughness.
Extraction "../build/ex/C10/model.ml" mkcpar charnock charnock_G guess_wu drag_of_roughness
  charnock_from_u10 drag_charnock mkfpcfg fixed_point gf mkncfg newton_run_state tf janssen_cfg janssen_point.
