(* The ONLY place where the real numbers get an executable realisation.
   Every Extract/ExCxx.v imports this file.  R is realised as IEEE binary64
   (OCaml float); theorems speak about R, the executable computes in floats;
   no rounding bound is proved (see DESIGN.md, trusted base). *)
From Coq Require Import Reals ZArith Extraction ExtrOcamlBasic.
From Coq Require Import Rtrigo_def Ratan Rpower R_sqrt Rbasic_fun.

Extract Constant R => "float".
Extract Constant R0 => "0.0".
Extract Constant R1 => "1.0".
Extract Constant Rplus => "(+.)".
Extract Constant Rmult => "( *. )".
Extract Constant Ropp => "(~-.)".
Extract Constant Rinv => "(fun x -> 1.0 /. x)".
Extract Constant Rminus => "(-.)".
Extract Constant Rdiv => "(/.)".
Extract Constant Rabs => "abs_float".
Extract Constant Rmax => "(fun x y -> if x <= y then y else x)".
Extract Constant Rmin => "(fun x y -> if x <= y then x else y)".
Extract Constant Rle_dec => "(fun x y -> x <= y)".
Extract Constant Rlt_dec => "(fun x y -> x < y)".
Extract Constant Rge_dec => "(fun x y -> x >= y)".
Extract Constant Rgt_dec => "(fun x y -> x > y)".
Extract Constant Req_EM_T => "(fun x y -> x = y)".
Extract Constant Rle_lt_dec => "(fun x y -> x <= y)".
Extract Constant Rlt_le_dec => "(fun x y -> x < y)".
Extract Constant total_order_T =>
  "(fun x y -> if x < y then Some true else if x = y then Some false else None)".
Extract Constant sqrt => "Stdlib.sqrt".
Extract Constant exp => "Stdlib.exp".
Extract Constant ln => "Stdlib.log".
Extract Constant sin => "Stdlib.sin".
Extract Constant cos => "Stdlib.cos".
Extract Constant tan => "Stdlib.tan".
Extract Constant atan => "Stdlib.atan".
Extract Constant tanh => "Stdlib.tanh".
Extract Constant sinh => "Stdlib.sinh".
Extract Constant cosh => "Stdlib.cosh".
Extract Constant Rpower => "(fun x y -> x ** y)".
Extract Constant PI => "(4.0 *. Stdlib.atan 1.0)".
Extract Constant IZR =>
  "(fun z -> let rec p = function XH -> 1.0 | XO q -> 2.0 *. p q | XI q -> 2.0 *. p q +. 1.0 in
             match z with Z0 -> 0.0 | Zpos q -> p q | Zneg q -> -. (p q))".
Extract Constant up =>
  "(fun x -> let rec pos n = if n <= 1.0 then XH else
                 let h = Stdlib.floor (n /. 2.0) in
                 if n -. 2.0 *. h = 0.0 then XO (pos h) else XI (pos h) in
             let f = Stdlib.floor x +. 1.0 in
             if f = 0.0 then Z0 else if f > 0.0 then Zpos (pos f) else Zneg (pos (-. f)))".
Extract Constant ClassicalDedekindReals.sig_forall_dec => "(fun _ -> failwith ""sig_forall_dec: unreachable"")".
Extract Constant ClassicalDedekindReals.sig_not_dec => "true".
