From Coq Require Import Reals List Extraction ExtrOcamlBasic.
From OSU.Extract Require Import RFloat.
From OSU.Lib Require Import InterpAuxDefs.
From OSU.Model Require Import Interp Periodic.
Extraction "../build/ex/C14/model.ml" fmod wrapdiff atan2 enclosing frac frac_n interp_axis1 interp_nd energy_interp1 interp_axis1_pd interp_axis1_pd_vec interp_nd_pd interp_nd_pd_vec interp_periodic.
