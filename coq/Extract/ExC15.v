From Coq Require Import Arith List Extraction ExtrOcamlBasic.
From OSU.Model Require Import SpecHeap.
Extraction "../build/ex/C15/model.ml" nprod ravel unravel flatten getitem concat_new_dim
  step run trace changed value shared_with_old empty_heap.
