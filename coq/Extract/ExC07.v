From Coq Require Import Reals List Extraction ExtrOcamlBasic.
From OSU.Extract Require Import RFloat.
From OSU.Model Require Import Dispersion.
Extraction "../build/ex/C07/model.ml" omega guess guesses zipstep kinv_batch n_ratio n_exact phase cg
  spec_points spec_wavenumber spec_wavelength spec_wave_speed spec_group_velocity.
