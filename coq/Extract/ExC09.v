From Coq Require Import Reals List Extraction ExtrOcamlBasic.
From OSU.Extract Require Import RFloat.
From OSU.Lib Require Import SrcAuxDefs.
From OSU.Model Require Import SourceTerms Stress.
Extraction "../build/ex/C09/model.ml" st4_input bulk st4_dissipation st6_dissipation romero_dissipation
  total_stress_vec total_stress_point tail_stress_wam tail_stress_mag_dir diss_direction diss_k_vector
  wavenumbers rot_field mir_field
  mkgrid mkwind mkgp mksb mks6 mkrom GRAV.
