From Coq Require Import ZArith List Extraction ExtrOcamlBasic.
From OSU.Model Require Import FileCache.
Extraction "../build/ex/C18/model.ml" init step run_trace cache_size dfind is_cache_name.
