From Coq Require Import ZArith List Extraction ExtrOcamlBasic.
From OSU.Model Require Import TimeConv.
Extraction "../build/ex/C17/model.ml" days_from_civil civil_from_days valid_dateb valid_fieldsb
  instant_of_fields fields_of_instant instant_of_dt to_datetime_utc to_datetime64
  datetime_to_iso_time_string parse_iso format_iso fmt_iso_gen
  time_from_timeint date_from_dateint datetime_from_time_and_date_integers pack_time.
