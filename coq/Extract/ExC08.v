From Coq Require Import Reals List Extraction ExtrOcamlBasic.
From OSU.Extract Require Import RFloat.
From OSU.Lib Require Import SrcAuxDefs.
From OSU.Model Require Import SourceTerms.
Extraction "../build/ex/C08/model.ml" st4_input bulk st4_dissipation st6_dissipation romero_dissipation
  imbalance bulk_imbalance wavenumbers group_velocity input_wavenumbers dir_integrate band_saturation
  mkgrid mkwind mkgp mksb mks6 mkrom GRAV.
