From Coq Require Import Reals List Extraction ExtrOcamlBasic.
From OSU.Extract Require Import RFloat.
From OSU.Lib Require Import Fmod.
From OSU.Model Require Import Directional DirStats.
Extraction "../build/ex/C02/model.ml" dstep e_row a1_row b1_row a2_row b2_row isd_direction isd_frequency isd_both numba_isd bulk_of dir_per_frequency spread_per_frequency moment wrapdiff.
