From Coq Require Import Reals List Extraction ExtrOcamlBasic.
From OSU.Extract Require Import RFloat.
From OSU.Model Require Import Moments.
Extraction "../build/ex/C01/model.ml" moment hm0 tm01 tm02 e2d dstep.
