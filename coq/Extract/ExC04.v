From Coq Require Import Reals List Extraction ExtrOcamlBasic.
From OSU.Extract Require Import RFloat.
From OSU.Model Require Import Moments Peak.
Extraction "../build/ex/C04/model.ml" peak_index freq_at period_at direction_at spread_at
  e2d a1_2d b1_2d peak_wavenumber kinv omega depth_of status_values masked first_argmax.
