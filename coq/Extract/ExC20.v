From Coq Require Import Reals QArith List Extraction ExtrOcamlBasic.
From OSU.Extract Require Import RFloat.
From OSU.Model Require Import TimeIntegration.
Extraction "../build/ex/C20/model.ml" stencil integrate choices mkctl.
