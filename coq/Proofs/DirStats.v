(* Proofs about Model/DirStats.v (C03) and the 2D->1D bulk clause of C02. *)
From Coq Require Import Reals Lra Lia List Arith Sorting.Sorted.
From OSU.Lib Require Import Cyclic Fmod Atan2.
From OSU.Model Require Import Directional DirStats.
From OSU.Proofs Require Import Directional.
Import ListNotations.
Open Scope R_scope.

(* ================================================================== *)
(* 2D -> 1D: every bulk parameter is computed from the same variables   *)
(* ================================================================== *)
Lemma to_1d_bulk : forall M (s : spec2d M) fmin fmax, bulk_1d (to_1d s) fmin fmax = bulk_2d s fmin fmax.
Proof. reflexivity. Qed.

(* ================================================================== *)
(* definitions, ranges                                                  *)
(* ================================================================== *)
Lemma mean_direction_def : forall fmin fmax f e a b A B,
  weighted fmin fmax f e a = Some A -> weighted fmin fmax f e b = Some B ->
  mean_direction fmin fmax f e a b = Some (atan2 B A * 180 / PI) /\
  mean_spread fmin fmax f e a b =
    (if Rlt_dec (2 - 2 * sqrt (A * A + B * B)) 0 then None
     else Some (sqrt (2 - 2 * sqrt (A * A + B * B)) * 180 / PI)).
Proof.
  intros. unfold mean_direction, mean_spread. rewrite H, H0. split; reflexivity.
Qed.

(* the band average: trapezoid of fill0(property)*e over the band, divided by m0 of the band *)
Lemma weighted_def : forall fmin fmax f e p,
  let m := band_mask fmin fmax f in
  has_nan (select m e) = false -> moment 0 fmin fmax f e <> 0 ->
  weighted fmin fmax f e p
  = Some (trapz (select m f) (map2 (fun pi ei => fill0 pi * fill0 ei) (select m p) (select m e))
          / moment 0 fmin fmax f e).
Proof.
  intros fmin fmax f e p m Hn Hm. unfold weighted, wnum. fold m. rewrite Hn.
  unfold odiv. destruct (Req_EM_T (moment 0 fmin fmax f e) 0); [contradiction | reflexivity].
Qed.

Lemma per_frequency_def : forall a b i x y,
  length a = length b -> (i < length a)%nat -> nth i a None = Some x -> nth i b None = Some y ->
  nth i (dir_per_frequency a b) None = Some (atan2 y x * 180 / PI) /\
  nth i (spread_per_frequency a b) None = spread_deg x y.
Proof.
  intros a b i x y L Hi Ha Hb. unfold dir_per_frequency, spread_per_frequency.
  rewrite (nth_map2 odir a b i None None None L Hi), (nth_map2 ospread a b i None None None L Hi).
  rewrite Ha, Hb. split; reflexivity.
Qed.

Lemma peak_direction_def : forall fmin fmax f e a b i,
  peak_index fmin fmax f e = Some i ->
  peak_direction fmin fmax f e a b = odir (nth i a None) (nth i b None) /\
  peak_spread fmin fmax f e a b = ospread (nth i a None) (nth i b None) /\
  peak_frequency fmin fmax f e = Some (nth i f 0).
Proof.
  intros. unfold peak_direction, peak_spread, peak_frequency. rewrite H. repeat split; reflexivity.
Qed.

Lemma dir_range : forall a b, a <> 0 \/ b <> 0 -> -180 < dir_deg a b <= 180.
Proof.
  intros a b H. unfold dir_deg. assert (P := PI_RGT_0).
  destruct (atan2_range a b H) as [L U].
  set (t := atan2 b a) in *.
  assert (E : t * 180 / PI * PI = t * 180) by (field; lra).
  split.
  - apply (Rmult_lt_reg_r PI); [exact P|]. rewrite E. lra.
  - apply (Rmult_le_reg_r PI); [exact P|]. rewrite E. lra.
Qed.

Lemma dir_zero_vector : dir_deg 0 0 = 0.
Proof.
  unfold dir_deg, atan2.
  destruct (Rlt_dec 0 0); [lra|]. destruct (Rlt_dec 0 0); [lra|]. unfold Rdiv; ring.
Qed.

Lemma spread_range : forall a b, a * a + b * b <= 1 ->
  exists v, spread_deg a b = Some v /\ 0 <= v <= sqrt 2 * 180 / PI.
Proof.
  intros a b H. assert (P := PI_RGT_0).
  assert (N : 0 <= a * a + b * b).
  { assert (0 <= a * a) by apply Rle_0_sqr. assert (0 <= b * b) by apply Rle_0_sqr. lra. }
  assert (R0 : 0 <= sqrt (a * a + b * b)) by apply sqrt_pos.
  assert (R1 : sqrt (a * a + b * b) <= 1).
  { rewrite <- sqrt_1. apply sqrt_le_1_alt. exact H. }
  unfold spread_deg, spread_arg.
  destruct (Rlt_dec (2 - 2 * sqrt (a * a + b * b)) 0) as [C|C]; [lra|].
  eexists. split; [reflexivity|].
  set (q := 2 - 2 * sqrt (a * a + b * b)) in *.
  assert (Q0 : 0 <= sqrt q) by apply sqrt_pos.
  assert (Q1 : sqrt q <= sqrt 2) by (apply sqrt_le_1_alt; unfold q; lra).
  assert (K : 0 < 180 / PI) by (apply Rdiv_lt_0_compat; lra).
  replace (sqrt q * 180 / PI) with (sqrt q * (180 / PI)) by (field; lra).
  replace (sqrt 2 * 180 / PI) with (sqrt 2 * (180 / PI)) by (field; lra).
  split.
  - apply Rmult_le_pos; lra.
  - apply Rmult_le_compat_r; lra.
Qed.

(* sqrt 2 * 180 / PI = 81.0285...: PI from Machin's formula and the alternating series of atan *)
Lemma atan_series_bounds : forall x N, 0 < x < 1 ->
  sum_f_R0 (tg_alt (Ratan_seq x)) (S (2 * N)) <= atan x <= sum_f_R0 (tg_alt (Ratan_seq x)) (2 * N).
Proof.
  intros x N Hx. rewrite atan_eq_ps_atan by exact Hx. unfold ps_atan.
  destruct (Ratan.in_int x) as [h|h]; [| exfalso; apply h; lra].
  destruct (ps_atan_exists_1 x h) as [v Hv].
  apply alternated_series_ineq; [apply Ratan_seq_decreasing; lra | apply Ratan_seq_converging; lra | exact Hv].
Qed.

Lemma PI_lower : 3.14159 < PI.
Proof.
  assert (H5 : 0 < / 5 < 1) by lra.
  assert (H239 : 0 < / 239 < 1) by lra.
  destruct (atan_series_bounds (/ 5) 1 H5) as [L5 _].
  destruct (atan_series_bounds (/ 239) 0 H239) as [_ U239].
  assert (M := Machin_4_5_239).
  unfold sum_f_R0, tg_alt, Ratan_seq in L5, U239. simpl in L5, U239.
  lra.
Qed.

Lemma sqrt2_upper : sqrt 2 < 1.4142136.
Proof.
  rewrite <- (sqrt_square 1.4142136) by lra.
  apply sqrt_lt_1; lra.
Qed.

Lemma spread_bound_value : sqrt 2 * 180 / PI < 81.03.
Proof.
  assert (P := PI_lower). assert (S := sqrt2_upper).
  apply (Rmult_lt_reg_r PI); [lra|].
  replace (sqrt 2 * 180 / PI * PI) with (sqrt 2 * 180) by (field; lra).
  lra.
Qed.

(* ================================================================== *)
(* trigonometry in degrees                                              *)
(* ================================================================== *)
Lemma rad_plus : forall x y, rad (x + y) = rad x + rad y.
Proof. intros; unfold rad; field; apply PI_neq0. Qed.

Lemma rad_cong : forall x y, cong360 x y -> exists m : Z, rad x = rad y + 2 * IZR m * PI.
Proof. intros x y [m H]. exists m. unfold rad. rewrite H. field. Qed.

Lemma cos1_cong : forall x y, cong360 x y -> cos1 x = cos1 y.
Proof. intros x y H. destruct (rad_cong x y H) as [m E]. unfold cos1. rewrite E. apply cos_sin_period_Z. Qed.
Lemma sin1_cong : forall x y, cong360 x y -> sin1 x = sin1 y.
Proof. intros x y H. destruct (rad_cong x y H) as [m E]. unfold sin1. rewrite E. apply cos_sin_period_Z. Qed.
Lemma cos2_cong : forall x y, cong360 x y -> cos2 x = cos2 y.
Proof.
  intros x y H. destruct (rad_cong x y H) as [m E]. unfold cos2. rewrite E.
  replace (2 * (rad y + 2 * IZR m * PI)) with (2 * rad y + 2 * IZR (2 * m) * PI) by (rewrite mult_IZR; simpl; ring).
  apply cos_sin_period_Z.
Qed.
Lemma sin2_cong : forall x y, cong360 x y -> sin2 x = sin2 y.
Proof.
  intros x y H. destruct (rad_cong x y H) as [m E]. unfold sin2. rewrite E.
  replace (2 * (rad y + 2 * IZR m * PI)) with (2 * rad y + 2 * IZR (2 * m) * PI) by (rewrite mult_IZR; simpl; ring).
  apply cos_sin_period_Z.
Qed.

Lemma cos1_plus : forall t al, cos1 (t + al) = cos1 t * cos1 al - sin1 t * sin1 al.
Proof. intros; unfold cos1, sin1; rewrite rad_plus; apply cos_plus. Qed.
Lemma sin1_plus : forall t al, sin1 (t + al) = sin1 t * cos1 al + cos1 t * sin1 al.
Proof. intros; unfold cos1, sin1; rewrite rad_plus; apply sin_plus. Qed.
Lemma cos2_plus : forall t al, cos2 (t + al) = cos2 t * cos2 al - sin2 t * sin2 al.
Proof.
  intros; unfold cos2, sin2; rewrite rad_plus.
  replace (2 * (rad t + rad al)) with (2 * rad t + 2 * rad al) by ring. apply cos_plus.
Qed.
Lemma sin2_plus : forall t al, sin2 (t + al) = sin2 t * cos2 al + cos2 t * sin2 al.
Proof.
  intros; unfold cos2, sin2; rewrite rad_plus.
  replace (2 * (rad t + rad al)) with (2 * rad t + 2 * rad al) by ring. apply sin_plus.
Qed.
Lemma cos2_double : forall al, cos2 al = cos1 (2 * al).
Proof. intros; unfold cos2, cos1, rad; f_equal; field; apply PI_neq0. Qed.
Lemma sin2_double : forall al, sin2 al = sin1 (2 * al).
Proof. intros; unfold sin2, sin1, rad; f_equal; field; apply PI_neq0. Qed.

Lemma cos1_opp : forall t, cos1 (- t) = cos1 t.
Proof. intros; unfold cos1, rad. replace (- t * PI / 180) with (- (t * PI / 180)) by (field). apply cos_neg. Qed.
Lemma sin1_opp : forall t, sin1 (- t) = - sin1 t.
Proof. intros; unfold sin1, rad. replace (- t * PI / 180) with (- (t * PI / 180)) by (field). apply sin_neg. Qed.
Lemma cos2_opp : forall t, cos2 (- t) = cos2 t.
Proof. intros; unfold cos2, rad. replace (2 * (- t * PI / 180)) with (- (2 * (t * PI / 180))) by (field). apply cos_neg. Qed.
Lemma sin2_opp : forall t, sin2 (- t) = - sin2 t.
Proof. intros; unfold sin2, rad. replace (2 * (- t * PI / 180)) with (- (2 * (t * PI / 180))) by (field). apply sin_neg. Qed.

Lemma cos1_dir : forall a b, cos1 (dir_deg a b) = cos (atan2 b a) /\ sin1 (dir_deg a b) = sin (atan2 b a).
Proof.
  intros. unfold cos1, sin1, rad, dir_deg.
  replace (atan2 b a * 180 / PI * PI / 180) with (atan2 b a) by (field; apply PI_neq0). split; reflexivity.
Qed.

(* ================================================================== *)
(* quadrature on a uniform grid                                         *)
(* ================================================================== *)
Lemma dint_uniform : forall E dl n, length E = n -> dint E (repeat dl n) = dl * sumR (map fill0 E).
Proof.
  unfold dint. induction E as [|g E IH]; intros dl n L; [simpl; ring|].
  destruct n as [|n]; [discriminate|].
  cbn [repeat map map2 sumR fold_right].
  fold (sumR (map2 wterm E (repeat dl n))). fold (sumR (map fill0 E)).
  rewrite IH by (simpl in L; lia). rewrite wterm_fill0. ring.
Qed.

Lemma mnum_uniform : forall (c : R -> R) E th dl,
  length E = length th ->
  dint (map2 omul E (map c th)) (repeat dl (length th))
  = dl * sumR (map2 Rmult (map fill0 E) (map c th)).
Proof.
  intros c. unfold dint. induction E as [|g E IH]; intros th dl L; destruct th as [|t th]; try discriminate.
  - simpl. ring.
  - cbn [length repeat map map2 sumR fold_right].
    fold (sumR (map2 wterm (map2 omul E (map c th)) (repeat dl (length th)))).
    fold (sumR (map2 Rmult (map fill0 E) (map c th))).
    rewrite IH by (simpl in L; lia). destruct g; simpl; ring.
Qed.

Lemma map2_map_same : forall {A B C D} (f : B -> C -> D) (g : A -> B) (h : A -> C) l,
  map2 f (map g l) (map h l) = map (fun t => f (g t) (h t)) l.
Proof. induction l; simpl; [reflexivity | f_equal; assumption]. Qed.

(* the rotated grid is the grid advanced by k steps, modulo 360 *)
Lemma grid_rot : forall (c : R -> R) t0 dl th k,
  (forall x y, cong360 x y -> c x = c y) ->
  ugrid t0 dl th -> (k <= length th)%nat ->
  map c (rotl k th) = map (fun t => c (t + INR k * dl)) th.
Proof.
  intros c t0 dl th k Hc [HN Hg] Hk.
  apply (nth_ext _ _ (c 0) (c 0)).
  - rewrite !map_length. apply rotl_length.
  - intros j Hj. rewrite map_length, rotl_length in Hj.
    rewrite map_nth.
    rewrite (nth_map' (fun t => c (t + INR k * dl)) th j (c 0) 0 Hj).
    apply Hc.
    rewrite nth_rotl by assumption.
    destruct (Nat.ltb_spec j (length th - k)) as [L|L].
    + eapply cong360_trans; [apply Hg; lia|].
      eapply cong360_trans; [|apply cong360_plus; [apply cong360_sym; apply (Hg j Hj) | apply cong360_refl]].
      rewrite plus_INR. exists 0%Z. simpl. ring.
    + eapply cong360_trans; [apply Hg; lia|].
      eapply cong360_trans; [|apply cong360_plus; [apply cong360_sym; apply (Hg j Hj) | apply cong360_refl]].
      rewrite minus_INR by lia. rewrite minus_INR by lia.
      exists (-1)%Z. simpl. lra.
Qed.

(* a pair of functions that rotates like (cos, sin) of an angle *)
Section RotPair.
  Variables c s : R -> R.
  Hypothesis c_cong : forall x y, cong360 x y -> c x = c y.
  Hypothesis s_cong : forall x y, cong360 x y -> s x = s y.
  Hypothesis c_plus : forall t al, c (t + al) = c t * c al - s t * s al.
  Hypothesis s_plus : forall t al, s (t + al) = s t * c al + c t * s al.

  Lemma rot_numerators : forall t0 dl th E k,
    ugrid t0 dl th -> -180 <= dl < 180 -> (k <= length th)%nat -> length E = length th ->
    let al := INR k * dl in
    e_row (rotr k E) th = e_row E th /\
    mnum c (rotr k E) th = c al * mnum c E th - s al * mnum s E th /\
    mnum s (rotr k E) th = s al * mnum c E th + c al * mnum s E th.
  Proof.
    intros t0 dl th E k U Hd Hk L al.
    assert (D := dstep_uniform t0 dl th U Hd).
    assert (L' : length (rotr k E) = length th) by (rewrite rotr_length; exact L).
    unfold e_row, mnum. rewrite D.
    rewrite !dint_uniform by assumption.
    rewrite !mnum_uniform by assumption.
    split.
    { rewrite <- rotr_map. rewrite sumR_rotr. reflexivity. }
    set (F := map fill0 E).
    assert (LF : length F = length th) by (unfold F; rewrite map_length; exact L).
    assert (RF : map fill0 (rotr k E) = rotr k F) by (unfold F; rewrite rotr_map; reflexivity).
    rewrite RF.
    (* re-index: rotate both operands left by k *)
    assert (Re : forall g : R -> R, (forall x y, cong360 x y -> g x = g y) ->
                 sumR (map2 Rmult (rotr k F) (map g th))
                 = sumR (map2 Rmult F (map (fun t => g (t + al)) th))).
    { intros g Hg.
      rewrite <- (sum_map2_rotl Rmult k (rotr k F) (map g th))
        by (rewrite rotr_length, map_length; exact LF).
      rewrite rotl_rotr by (rewrite LF; exact Hk).
      rewrite rotl_map. rewrite (grid_rot g t0 dl th k Hg U Hk). reflexivity. }
    rewrite (Re c c_cong), (Re s s_cong).
    assert (Ec : map (fun t => c (t + al)) th
                 = map2 (fun x y => c al * x + (- s al) * y) (map c th) (map s th)).
    { rewrite map2_map_same. apply map_ext. intros t. rewrite c_plus. ring. }
    assert (Es : map (fun t => s (t + al)) th
                 = map2 (fun x y => s al * x + c al * y) (map c th) (map s th)).
    { rewrite map2_map_same. apply map_ext. intros t. rewrite s_plus. ring. }
    rewrite Ec, Es.
    rewrite !sum_map2_lin by (rewrite !map_length; reflexivity).
    split; ring.
  Qed.
End RotPair.



(* one frequency bin *)
Lemma rot_moments : forall t0 dl th E k,
  ugrid t0 dl th -> -180 <= dl < 180 -> (k <= length th)%nat -> length E = length th ->
  let al := INR k * dl in
  e_row (rotr k E) th = e_row E th /\
  rot_rel al (a1_row E th) (b1_row E th) (a1_row (rotr k E) th) (b1_row (rotr k E) th) /\
  rot_rel (2 * al) (a2_row E th) (b2_row E th) (a2_row (rotr k E) th) (b2_row (rotr k E) th).
Proof.
  intros t0 dl th E k U Hd Hk L al.
  destruct (rot_numerators cos1 sin1 cos1_cong sin1_cong cos1_plus sin1_plus t0 dl th E k U Hd Hk L)
    as [He [Hc1 Hs1]].
  destruct (rot_numerators cos2 sin2 cos2_cong sin2_cong cos2_plus sin2_plus t0 dl th E k U Hd Hk L)
    as [_ [Hc2 Hs2]].
  fold al in Hc1, Hs1, Hc2, Hs2.
  split; [exact He|].
  unfold a1_row, b1_row, a2_row, b2_row, rot_rel, odiv. rewrite He.
  destruct (Req_EM_T (e_row E th) 0) as [Z|NZ].
  - repeat split; reflexivity.
  - rewrite Hc1, Hs1, Hc2, Hs2. unfold rotc, rots. rewrite <- !cos2_double, <- !sin2_double.
    repeat split; f_equal; field; exact NZ.
Qed.

(* ---------------- directions and spreads under rot_rel ---------------- *)
Lemma rot_norm : forall al x y,
  rotc al x y * rotc al x y + rots al x y * rots al x y = x * x + y * y.
Proof.
  intros. unfold rotc, rots. assert (T := cos1_sin1_unit al).
  replace ((x * cos1 al - y * sin1 al) * (x * cos1 al - y * sin1 al) +
           (x * sin1 al + y * cos1 al) * (x * sin1 al + y * cos1 al))
    with ((x * x + y * y) * (cos1 al * cos1 al + sin1 al * sin1 al)) by ring.
  rewrite T. ring.
Qed.

Lemma rot_spread : forall al a b a' b', rot_rel al a b a' b' -> ospread a' b' = ospread a b.
Proof.
  intros al [x|] [y|] a' b' H; simpl in H; try contradiction; destruct H; subst; [|reflexivity].
  simpl. unfold spread_deg, spread_arg. rewrite rot_norm. reflexivity.
Qed.


Lemma same_dir_cong : forall d d', same_dir d d' -> exists m : Z, d' = d + 360 * IZR m.
Proof.
  intros d d' [Hc Hs]. unfold cos1, sin1 in *.
  destruct (cos_sin_eq_turns _ _ Hc Hs) as [m Hm]. exists m.
  unfold rad in Hm. assert (P := PI_RGT_0).
  apply (Rmult_eq_reg_r (PI / 180)); [|lra]. lra.
Qed.

Lemma rot_direction : forall al x y, x <> 0 \/ y <> 0 ->
  same_dir (dir_deg x y + al) (dir_deg (rotc al x y) (rots al x y)).
Proof.
  intros al x y H. unfold same_dir.
  destruct (atan2_rot x y (rad al) H) as [_ [Hc Hs]]. cbn zeta in Hc, Hs.
  destruct (cos1_dir (rotc al x y) (rots al x y)) as [C S]. rewrite C, S.
  change (rotc al x y) with (x * cos (rad al) - y * sin (rad al)).
  change (rots al x y) with (x * sin (rad al) + y * cos (rad al)).
  rewrite Hc, Hs.
  unfold cos1, sin1. rewrite rad_plus.
  assert (E : rad (dir_deg x y) = atan2 y x) by (unfold rad, dir_deg; field; apply PI_neq0).
  rewrite E. split; reflexivity.
Qed.


Lemma rot_rel_direction : forall al a b a' b', rot_rel al a b a' b' -> dir_shift al a b a' b'.
Proof.
  intros al a b a' b' H x y Ha Hb Hnz. subst a b. simpl in H. destruct H; subst.
  exists (dir_deg x y), (dir_deg (rotc al x y) (rots al x y)).
  split; [reflexivity | split; [reflexivity | apply rot_direction; exact Hnz]].
Qed.

Lemma mirror_direction_vec : forall x y, x <> 0 \/ y <> 0 ->
  same_dir (- dir_deg x y) (dir_deg x (- y)).
Proof.
  intros x y H. unfold same_dir.
  destruct (atan2_mirror x y H) as [Hc Hs].
  destruct (cos1_dir x (- y)) as [C S]. rewrite C, S, Hc, Hs.
  unfold cos1, sin1.
  assert (E : rad (- dir_deg x y) = - atan2 y x) by (unfold rad, dir_deg; field; apply PI_neq0).
  rewrite E. split; reflexivity.
Qed.


Lemma mirror_rel_direction : forall a b a' b', mirror_rel a b a' b' -> dir_negated a b a' b'.
Proof.
  intros a b a' b' H x y Ha Hb Hnz. subst a b. simpl in H. destruct H; subst.
  exists (dir_deg x y), (dir_deg x (- y)).
  split; [reflexivity | split; [reflexivity | apply mirror_direction_vec; exact Hnz]].
Qed.

Lemma mirror_spread : forall a b a' b', mirror_rel a b a' b' -> ospread a' b' = ospread a b.
Proof.
  intros [x|] [y|] a' b' H; simpl in H; try contradiction; destruct H; subst; [|reflexivity].
  simpl. unfold spread_deg, spread_arg. replace (x * x + - y * - y) with (x * x + y * y) by ring. reflexivity.
Qed.

(* ================================================================== *)
(* lists of moment pairs (one entry per frequency)                      *)
(* ================================================================== *)
Inductive all4 (P : option R -> option R -> option R -> option R -> Prop) :
  list (option R) -> list (option R) -> list (option R) -> list (option R) -> Prop :=
| all4_nil : all4 P [] [] [] []
| all4_cons : forall a b a' b' la lb la' lb',
    P a b a' b' -> all4 P la lb la' lb' -> all4 P (a :: la) (b :: lb) (a' :: la') (b' :: lb').

Lemma all4_select : forall (P : option R -> option R -> option R -> option R -> Prop) m la lb la' lb',
  all4 P la lb la' lb' -> all4 P (select m la) (select m lb) (select m la') (select m lb').
Proof.
  intros P m la lb la' lb' H. revert m. induction H; intros m.
  - destruct m; constructor.
  - destruct m as [|[|] m]; simpl; [constructor | constructor; [assumption | apply IHall4] | apply IHall4].
Qed.

Lemma all4_nth : forall (P : option R -> option R -> option R -> option R -> Prop) la lb la' lb' i,
  P None None None None -> all4 P la lb la' lb' ->
  P (nth i la None) (nth i lb None) (nth i la' None) (nth i lb' None).
Proof.
  intros P la lb la' lb' i P0 H. revert i. induction H; intros i.
  - destruct i; exact P0.
  - destruct i; [assumption | apply IHall4].
Qed.

Lemma all4_map2 : forall (P : option R -> option R -> option R -> option R -> Prop) (Q : option R -> option R -> Prop) (f : option R -> option R -> option R) la lb la' lb',
  (forall a b a' b', P a b a' b' -> Q (f a b) (f a' b')) ->
  all4 P la lb la' lb' -> Forall2 Q (map2 f la lb) (map2 f la' lb').
Proof.
  intros P Q f la lb la' lb' HPQ H. induction H; simpl; constructor; [apply HPQ; assumption | assumption].
Qed.

(* linearity of the trapezoid in the integrand *)
Lemma trapz_lin : forall xs ys zs u v, length ys = length zs ->
  trapz xs (map2 (fun y z => u * y + v * z) ys zs) = u * trapz xs ys + v * trapz xs zs.
Proof.
  induction xs as [|x0 xt IH]; intros ys zs u v L; [simpl; ring|].
  destruct xt as [|x1 xt']; [simpl; ring|].
  destruct ys as [|y0 yt]; destruct zs as [|z0 zt]; try discriminate; [simpl; ring|].
  destruct yt as [|y1 yt']; destruct zt as [|z1 zt']; try discriminate; [simpl; ring|].
  change (map2 (fun y z => u * y + v * z) (y0 :: y1 :: yt') (z0 :: z1 :: zt'))
    with ((u * y0 + v * z0) :: (u * y1 + v * z1) :: map2 (fun y z => u * y + v * z) yt' zt').
  change (trapz (x0 :: x1 :: xt') ((u * y0 + v * z0) :: (u * y1 + v * z1) :: map2 (fun y z => u * y + v * z) yt' zt'))
    with ((x1 - x0) * ((u * y0 + v * z0) + (u * y1 + v * z1)) / 2
          + trapz (x1 :: xt') (map2 (fun y z => u * y + v * z) (y1 :: yt') (z1 :: zt'))).
  rewrite IH by (simpl in L; simpl; lia).
  change (trapz (x0 :: x1 :: xt') (y0 :: y1 :: yt')) with ((x1 - x0) * (y0 + y1) / 2 + trapz (x1 :: xt') (y1 :: yt')).
  change (trapz (x0 :: x1 :: xt') (z0 :: z1 :: zt')) with ((x1 - x0) * (z0 + z1) / 2 + trapz (x1 :: xt') (z1 :: zt')).
  lra.
Qed.

(* the weighted integrands of the rotated pair are the rotated weighted integrands *)
Lemma wprod_rot : forall al la lb la' lb' le,
  all4 (rot_rel al) la lb la' lb' -> length le = length la ->
  map2 wprod la' le = map2 (fun y z => cos1 al * y + (- sin1 al) * z) (map2 wprod la le) (map2 wprod lb le) /\
  map2 wprod lb' le = map2 (fun y z => sin1 al * y + cos1 al * z) (map2 wprod la le) (map2 wprod lb le) /\
  length (map2 wprod la le) = length (map2 wprod lb le).
Proof.
  intros al la lb la' lb' le H. revert le. induction H; intros le L.
  - simpl. repeat split; reflexivity.
  - destruct le as [|e le]; [discriminate|].
    destruct (IHall4 le) as [I1 [I2 I3]]; [simpl in L; lia|].
    cbn [map2 length]. rewrite I1, I2, I3.
    repeat split; try reflexivity; f_equal;
      destruct a as [x|]; destruct b as [y|]; simpl in H; try contradiction; destruct H; subst;
      unfold wprod, rotc, rots; simpl; ring.
Qed.

Lemma wprod_mirror : forall la lb la' lb' le,
  all4 mirror_rel la lb la' lb' -> length le = length la ->
  map2 wprod la' le = map2 wprod la le /\
  map2 wprod lb' le = map2 (fun y z => 0 * y + (- 1) * z) (map2 wprod la le) (map2 wprod lb le) /\
  length (map2 wprod la le) = length (map2 wprod lb le).
Proof.
  intros la lb la' lb' le H. revert le. induction H; intros le L.
  - simpl. repeat split; reflexivity.
  - destruct le as [|e le]; [discriminate|].
    destruct (IHall4 le) as [I1 [I2 I3]]; [simpl in L; lia|].
    cbn [map2 length]. rewrite I1, I2, I3.
    repeat split; try reflexivity; f_equal;
      destruct a as [x|]; destruct b as [y|]; simpl in H; try contradiction; destruct H; subst;
      unfold wprod; simpl; ring.
Qed.

Lemma all4_length : forall (P : option R -> option R -> option R -> option R -> Prop) la lb la' lb', all4 P la lb la' lb' ->
  length lb = length la /\ length la' = length la /\ length lb' = length la.
Proof. intros. induction H; simpl; [auto | destruct IHall4 as [? [? ?]]; repeat split; congruence]. Qed.

Lemma select_length_eq : forall {A B} m (l : list A) (l' : list B),
  length l = length l' -> length (select m l) = length (select m l').
Proof.
  induction m as [|b m IH]; intros l l' L; [reflexivity|].
  destruct l; destruct l'; try discriminate; [reflexivity|].
  simpl. destruct b; simpl; [f_equal|]; apply IH; simpl in L; lia.
Qed.

(* band averages rotate with the sea *)
Lemma weighted_rot : forall al fmin fmax f e la lb la' lb',
  all4 (rot_rel al) la lb la' lb' -> length e = length la ->
  rot_rel al (weighted fmin fmax f e la) (weighted fmin fmax f e lb)
             (weighted fmin fmax f e la') (weighted fmin fmax f e lb').
Proof.
  intros al fmin fmax f e la lb la' lb' H L.
  unfold weighted, wnum.
  set (m := band_mask fmin fmax f).
  destruct (has_nan (select m e)); [simpl; split; reflexivity|].
  assert (Hs := all4_select _ m _ _ _ _ H).
  assert (Ls : length (select m e) = length (select m la)) by (apply select_length_eq; exact L).
  destruct (wprod_rot al _ _ _ _ (select m e) Hs Ls) as [E1 [E2 E3]].
  rewrite E1, E2. rewrite !trapz_lin by exact E3.
  unfold odiv. destruct (Req_EM_T (moment 0 fmin fmax f e) 0) as [Z|NZ]; simpl; [split; reflexivity|].
  unfold rotc, rots. split; f_equal; field; exact NZ.
Qed.

Lemma weighted_mirror : forall fmin fmax f e la lb la' lb',
  all4 mirror_rel la lb la' lb' -> length e = length la ->
  mirror_rel (weighted fmin fmax f e la) (weighted fmin fmax f e lb)
             (weighted fmin fmax f e la') (weighted fmin fmax f e lb').
Proof.
  intros fmin fmax f e la lb la' lb' H L.
  unfold weighted, wnum.
  set (m := band_mask fmin fmax f).
  destruct (has_nan (select m e)); [simpl; split; reflexivity|].
  assert (Hs := all4_select _ m _ _ _ _ H).
  assert (Ls : length (select m e) = length (select m la)) by (apply select_length_eq; exact L).
  destruct (wprod_mirror _ _ _ _ (select m e) Hs Ls) as [E1 [E2 E3]].
  rewrite E1, E2. rewrite !trapz_lin by exact E3.
  unfold odiv. destruct (Req_EM_T (moment 0 fmin fmax f e) 0) as [Z|NZ]; simpl; [split; reflexivity|].
  split; f_equal; field; exact NZ.
Qed.

(* ================================================================== *)
(* whole spectra: rotation by k bins                                    *)
(* ================================================================== *)
Section Rot2d.
  Variable M : Type.
  Variables (t0 dl : R) (k : nat) (s : spec2d M).
  Hypothesis U : ugrid t0 dl (th2 s).
  Hypothesis Hd : -180 <= dl < 180.
  Hypothesis Hk : (k <= length (th2 s))%nat.
  Hypothesis Hrows : Forall (fun row => length row = length (th2 s)) (E2 s).
  Let al := INR k * dl.
  Let s' := rot2d k s.

  Lemma rot_e_2d : e_2d s' = e_2d s.
  Proof.
    unfold s', e_2d, rot2d. cbn [E2 th2]. rewrite map_map.
    apply map_ext_in. intros row Hin. rewrite Forall_forall in Hrows.
    apply (rot_moments t0 dl (th2 s) row k U Hd Hk (Hrows row Hin)).
  Qed.

  Lemma rot_ab1_2d : all4 (rot_rel al) (a1_2d s) (b1_2d s) (a1_2d s') (b1_2d s').
  Proof.
    unfold s', a1_2d, b1_2d, rot2d. cbn [E2 th2].
    induction (E2 s) as [|row E IH]; [constructor|].
    inversion Hrows; subst. simpl. constructor; [|apply IH; assumption].
    apply (rot_moments t0 dl (th2 s) row k U Hd Hk); assumption.
  Qed.

  Lemma rot_ab2_2d : all4 (rot_rel (2 * al)) (a2_2d s) (b2_2d s) (a2_2d s') (b2_2d s').
  Proof.
    unfold s', a2_2d, b2_2d, rot2d. cbn [E2 th2].
    induction (E2 s) as [|row E IH]; [constructor|].
    inversion Hrows; subst. simpl. constructor; [|apply IH; assumption].
    apply (rot_moments t0 dl (th2 s) row k U Hd Hk); assumption.
  Qed.

  Lemma rot_bulk : forall fmin fmax,
    let B := bulk_2d s fmin fmax in
    let B' := bulk_2d s' fmin fmax in
    b_m0 B' = b_m0 B /\ b_hm0 B' = b_hm0 B /\ b_tm01 B' = b_tm01 B /\ b_tm02 B' = b_tm02 B /\
    b_peak_index B' = b_peak_index B /\ b_peak_frequency B' = b_peak_frequency B /\
    b_peak_spread B' = b_peak_spread B /\ b_mean_spread B' = b_mean_spread B /\
    rot_rel al (b_mean_a1 B) (b_mean_b1 B) (b_mean_a1 B') (b_mean_b1 B') /\
    rot_rel (2 * al) (b_mean_a2 B) (b_mean_b2 B) (b_mean_a2 B') (b_mean_b2 B') /\
    dir_shift al (b_mean_a1 B) (b_mean_b1 B) (b_mean_a1 B') (b_mean_b1 B') /\
    b_mean_direction B = odir (b_mean_a1 B) (b_mean_b1 B) /\
    b_mean_direction B' = odir (b_mean_a1 B') (b_mean_b1 B') /\
    (forall i, b_peak_index B = Some i ->
       rot_rel al (nth i (a1_2d s) None) (nth i (b1_2d s) None) (nth i (a1_2d s') None) (nth i (b1_2d s') None) /\
       dir_shift al (nth i (a1_2d s) None) (nth i (b1_2d s) None) (nth i (a1_2d s') None) (nth i (b1_2d s') None) /\
       b_peak_direction B = odir (nth i (a1_2d s) None) (nth i (b1_2d s) None) /\
       b_peak_direction B' = odir (nth i (a1_2d s') None) (nth i (b1_2d s') None)).
  Proof.
    intros fmin fmax B B'.
    assert (F : f2 s' = f2 s) by reflexivity.
    assert (E := rot_e_2d).
    assert (R1 := rot_ab1_2d). assert (R2 := rot_ab2_2d).
    assert (Le : length (map Some (e_2d s)) = length (a1_2d s)).
    { unfold e_2d, a1_2d. rewrite !map_length. reflexivity. }
    assert (Le2 : length (map Some (e_2d s)) = length (a2_2d s)).
    { unfold e_2d, a2_2d. rewrite !map_length. reflexivity. }
    assert (W1 := weighted_rot al fmin fmax (f2 s) (map Some (e_2d s)) _ _ _ _ R1 Le).
    assert (W2 := weighted_rot (2 * al) fmin fmax (f2 s) (map Some (e_2d s)) _ _ _ _ R2 Le2).
    assert (N0 : rot_rel al None None None None) by (simpl; split; reflexivity).
    unfold B, B', bulk_2d, bulk_of. cbn [b_m0 b_hm0 b_tm01 b_tm02 b_peak_index b_peak_frequency
      b_peak_spread b_mean_spread b_mean_a1 b_mean_b1 b_mean_a2 b_mean_b2 b_mean_direction b_peak_direction].
    rewrite F, E.
    repeat split; try reflexivity; try assumption.
    - (* peak spread *)
      unfold peak_spread. destruct (peak_index fmin fmax (f2 s) (map Some (e_2d s))) as [i|]; [|reflexivity].
      apply (rot_spread al). apply (all4_nth _ _ _ _ _ i N0 R1).
    - (* mean spread *)
      unfold mean_spread. apply (rot_spread al). exact W1.
    - apply rot_rel_direction. exact W1.
    - apply (all4_nth _ _ _ _ _ i N0 R1).
    - apply rot_rel_direction. apply (all4_nth _ _ _ _ _ i N0 R1).
    - unfold peak_direction. rewrite H. reflexivity.
    - unfold peak_direction. rewrite H. reflexivity.
  Qed.

  (* per-frequency direction and spread *)
  Lemma rot_per_frequency : forall i,
    dir_shift al (nth i (a1_2d s) None) (nth i (b1_2d s) None) (nth i (a1_2d s') None) (nth i (b1_2d s') None) /\
    ospread (nth i (a1_2d s') None) (nth i (b1_2d s') None) = ospread (nth i (a1_2d s) None) (nth i (b1_2d s) None).
  Proof.
    intros i.
    assert (N0 : rot_rel al None None None None) by (simpl; split; reflexivity).
    assert (R := all4_nth _ _ _ _ _ i N0 rot_ab1_2d).
    split; [apply rot_rel_direction; exact R | apply (rot_spread al); exact R].
  Qed.
End Rot2d.

(* ================================================================== *)
(* whole spectra: mirror image                                          *)
(* ================================================================== *)
Lemma mirror_grid_ugrid : forall t0 dl th, ugrid t0 dl th ->
  ugrid (- t0 - (INR (length th) - 1) * dl) dl (mirror_grid th).
Proof.
  intros t0 dl th [HN Hg]. unfold mirror_grid.
  assert (L : length (rev (map Ropp th)) = length th) by (rewrite rev_length, map_length; reflexivity).
  split; [rewrite L; exact HN|].
  intros j Hj. rewrite L in Hj.
  rewrite rev_nth by (rewrite map_length; exact Hj). rewrite map_length.
  rewrite (nth_map' Ropp th _ 0 0) by lia.
  eapply cong360_trans; [apply cong360_opp; apply Hg; lia|].
  replace (length th - S j)%nat with (length th - 1 - j)%nat by lia.
  rewrite minus_INR by lia. rewrite minus_INR by lia. exists 0%Z. simpl. ring.
Qed.

Section MirrorPair.
  Variables c s : R -> R.
  Hypothesis c_even : forall t, c (- t) = c t.
  Hypothesis s_odd : forall t, s (- t) = - s t.

  Lemma mirror_numerators : forall t0 dl th E,
    ugrid t0 dl th -> -180 <= dl < 180 -> length E = length th ->
    e_row (rev E) (mirror_grid th) = e_row E th /\
    mnum c (rev E) (mirror_grid th) = mnum c E th /\
    mnum s (rev E) (mirror_grid th) = - mnum s E th.
  Proof.
    intros t0 dl th E U Hd L.
    assert (U' := mirror_grid_ugrid t0 dl th U).
    assert (D := dstep_uniform t0 dl th U Hd).
    assert (D' := dstep_uniform _ dl _ U' Hd).
    assert (LM : length (mirror_grid th) = length th) by (unfold mirror_grid; rewrite rev_length, map_length; reflexivity).
    assert (L' : length (rev E) = length (mirror_grid th)) by (rewrite rev_length, LM; exact L).
    unfold e_row, mnum. rewrite D, D'.
    rewrite (dint_uniform (rev E)) by exact L'.
    rewrite (dint_uniform E) by exact L.
    rewrite !(mnum_uniform _ (rev E) (mirror_grid th)) by exact L'.
    rewrite !(mnum_uniform _ E th) by exact L.
    split.
    { rewrite map_rev, sumR_rev. reflexivity. }
    unfold mirror_grid. rewrite !map_rev.
    rewrite !sum_map2_rev by (rewrite !map_length; exact L).
    rewrite !map_map.
    split.
    - f_equal. f_equal. f_equal. apply map_ext. intros; apply c_even.
    - replace (map (fun x => s (- x)) th) with (map2 (fun x y => 0 * x + (- 1) * y) (map c th) (map s th)).
      + rewrite sum_map2_lin by (rewrite !map_length; reflexivity). ring.
      + rewrite map2_map_same. apply map_ext. intros t. rewrite s_odd. ring.
  Qed.
End MirrorPair.

Lemma mirror_moments : forall t0 dl th E,
  ugrid t0 dl th -> -180 <= dl < 180 -> length E = length th ->
  e_row (rev E) (mirror_grid th) = e_row E th /\
  mirror_rel (a1_row E th) (b1_row E th) (a1_row (rev E) (mirror_grid th)) (b1_row (rev E) (mirror_grid th)) /\
  mirror_rel (a2_row E th) (b2_row E th) (a2_row (rev E) (mirror_grid th)) (b2_row (rev E) (mirror_grid th)).
Proof.
  intros t0 dl th E U Hd L.
  destruct (mirror_numerators cos1 sin1 cos1_opp sin1_opp t0 dl th E U Hd L) as [He [Hc1 Hs1]].
  destruct (mirror_numerators cos2 sin2 cos2_opp sin2_opp t0 dl th E U Hd L) as [_ [Hc2 Hs2]].
  split; [exact He|].
  unfold a1_row, b1_row, a2_row, b2_row, mirror_rel, odiv. rewrite He.
  destruct (Req_EM_T (e_row E th) 0) as [Z|NZ].
  - repeat split; reflexivity.
  - rewrite Hc1, Hs1, Hc2, Hs2. repeat split; f_equal; field; exact NZ.
Qed.

Section Mirror2d.
  Variable M : Type.
  Variables (t0 dl : R) (s : spec2d M).
  Hypothesis U : ugrid t0 dl (th2 s).
  Hypothesis Hd : -180 <= dl < 180.
  Hypothesis Hrows : Forall (fun row => length row = length (th2 s)) (E2 s).
  Let s' := mirror2d s.

  Lemma mirror_e_2d : e_2d s' = e_2d s.
  Proof.
    unfold s', e_2d, mirror2d. cbn [E2 th2]. rewrite map_map.
    apply map_ext_in. intros row Hin. rewrite Forall_forall in Hrows.
    apply (mirror_moments t0 dl (th2 s) row U Hd (Hrows row Hin)).
  Qed.

  Lemma mirror_ab1_2d : all4 mirror_rel (a1_2d s) (b1_2d s) (a1_2d s') (b1_2d s').
  Proof.
    unfold s', a1_2d, b1_2d, mirror2d. cbn [E2 th2].
    induction (E2 s) as [|row E IH]; [constructor|].
    inversion Hrows; subst. simpl. constructor; [|apply IH; assumption].
    apply (mirror_moments t0 dl (th2 s) row U Hd); assumption.
  Qed.

  Lemma mirror_ab2_2d : all4 mirror_rel (a2_2d s) (b2_2d s) (a2_2d s') (b2_2d s').
  Proof.
    unfold s', a2_2d, b2_2d, mirror2d. cbn [E2 th2].
    induction (E2 s) as [|row E IH]; [constructor|].
    inversion Hrows; subst. simpl. constructor; [|apply IH; assumption].
    apply (mirror_moments t0 dl (th2 s) row U Hd); assumption.
  Qed.

  Lemma mirror_bulk : forall fmin fmax,
    let B := bulk_2d s fmin fmax in
    let B' := bulk_2d s' fmin fmax in
    b_m0 B' = b_m0 B /\ b_hm0 B' = b_hm0 B /\ b_tm01 B' = b_tm01 B /\ b_tm02 B' = b_tm02 B /\
    b_peak_index B' = b_peak_index B /\ b_peak_frequency B' = b_peak_frequency B /\
    b_peak_spread B' = b_peak_spread B /\ b_mean_spread B' = b_mean_spread B /\
    mirror_rel (b_mean_a1 B) (b_mean_b1 B) (b_mean_a1 B') (b_mean_b1 B') /\
    mirror_rel (b_mean_a2 B) (b_mean_b2 B) (b_mean_a2 B') (b_mean_b2 B') /\
    dir_negated (b_mean_a1 B) (b_mean_b1 B) (b_mean_a1 B') (b_mean_b1 B') /\
    b_mean_direction B = odir (b_mean_a1 B) (b_mean_b1 B) /\
    b_mean_direction B' = odir (b_mean_a1 B') (b_mean_b1 B') /\
    (forall i, b_peak_index B = Some i ->
       dir_negated (nth i (a1_2d s) None) (nth i (b1_2d s) None) (nth i (a1_2d s') None) (nth i (b1_2d s') None) /\
       b_peak_direction B = odir (nth i (a1_2d s) None) (nth i (b1_2d s) None) /\
       b_peak_direction B' = odir (nth i (a1_2d s') None) (nth i (b1_2d s') None)).
  Proof.
    intros fmin fmax B B'.
    assert (F : f2 s' = f2 s) by reflexivity.
    assert (E := mirror_e_2d).
    assert (R1 := mirror_ab1_2d). assert (R2 := mirror_ab2_2d).
    assert (Le : length (map Some (e_2d s)) = length (a1_2d s)).
    { unfold e_2d, a1_2d. rewrite !map_length. reflexivity. }
    assert (Le2 : length (map Some (e_2d s)) = length (a2_2d s)).
    { unfold e_2d, a2_2d. rewrite !map_length. reflexivity. }
    assert (W1 := weighted_mirror fmin fmax (f2 s) (map Some (e_2d s)) _ _ _ _ R1 Le).
    assert (W2 := weighted_mirror fmin fmax (f2 s) (map Some (e_2d s)) _ _ _ _ R2 Le2).
    assert (N0 : mirror_rel None None None None) by (simpl; split; reflexivity).
    unfold B, B', bulk_2d, bulk_of. cbn [b_m0 b_hm0 b_tm01 b_tm02 b_peak_index b_peak_frequency
      b_peak_spread b_mean_spread b_mean_a1 b_mean_b1 b_mean_a2 b_mean_b2 b_mean_direction b_peak_direction].
    rewrite F, E.
    repeat split; try reflexivity; try assumption.
    - unfold peak_spread. destruct (peak_index fmin fmax (f2 s) (map Some (e_2d s))) as [i|]; [|reflexivity].
      apply mirror_spread. apply (all4_nth _ _ _ _ _ i N0 R1).
    - unfold mean_spread. apply mirror_spread. exact W1.
    - apply mirror_rel_direction. exact W1.
    - apply mirror_rel_direction. apply (all4_nth _ _ _ _ _ i N0 R1).
    - unfold peak_direction. rewrite H. reflexivity.
    - unfold peak_direction. rewrite H. reflexivity.
  Qed.
End Mirror2d.

(* batches: the parameters of one point do not depend on the other points *)
Lemma bulk_batch_independent : forall M (b : list (spec2d M)) fmin fmax i d,
  nth i (map (fun s => bulk_2d s fmin fmax) b) (bulk_2d d fmin fmax) = bulk_2d (nth i b d) fmin fmax.
Proof. intros. apply (map_nth (fun s => bulk_2d s fmin fmax)). Qed.

(* ================================================================== *)
(* band averages of valid moments are valid moments                     *)
(* ================================================================== *)
Lemma disc_add : forall A B P a b p, 0 <= P -> 0 <= p ->
  A * A + B * B <= P * P -> a * a + b * b <= p * p ->
  (A + a) * (A + a) + (B + b) * (B + b) <= (P + p) * (P + p).
Proof.
  intros A B P a b p HP Hp H1 H2.
  assert (K : A * a + B * b <= P * p).
  { apply le_of_sqr_le; [apply Rmult_le_pos; assumption|].
    assert (Q : 0 <= (A * b - B * a) * (A * b - B * a)) by apply Rle_0_sqr.
    assert (N1 : 0 <= A * A + B * B).
    { assert (0 <= A * A) by apply Rle_0_sqr. assert (0 <= B * B) by apply Rle_0_sqr. lra. }
    assert (N2 : 0 <= a * a + b * b).
    { assert (0 <= a * a) by apply Rle_0_sqr. assert (0 <= b * b) by apply Rle_0_sqr. lra. }
    assert (M : (A * A + B * B) * (a * a + b * b) <= (P * P) * (p * p)) by (apply Rmult_le_compat; assumption).
    replace ((A * a + B * b) * (A * a + B * b))
      with ((A * A + B * B) * (a * a + b * b) - (A * b - B * a) * (A * b - B * a)) by ring.
    replace (P * p * (P * p)) with (P * P * (p * p)) by ring. lra. }
  replace ((A + a) * (A + a) + (B + b) * (B + b)) with ((A * A + B * B) + (a * a + b * b) + 2 * (A * a + B * b)) by ring.
  replace ((P + p) * (P + p)) with (P * P + p * p + 2 * (P * p)) by ring. lra.
Qed.

Lemma disc_scale : forall w a b, 0 <= w -> a * a + b * b <= 1 ->
  (w * a) * (w * a) + (w * b) * (w * b) <= w * w.
Proof.
  intros w a b Hw H.
  replace ((w * a) * (w * a) + (w * b) * (w * b)) with ((w * w) * (a * a + b * b)) by ring.
  assert (0 <= w * w) by apply Rle_0_sqr.
  replace (w * w) with (w * w * 1) at 2 by ring. apply Rmult_le_compat_l; assumption.
Qed.

Lemma trapz_disc : forall xs ev av bv,
  StronglySorted Rle xs ->
  length ev = length xs -> length av = length xs -> length bv = length xs ->
  Forall (fun v => 0 <= v) ev ->
  Forall2 (fun a b => a * a + b * b <= 1) av bv ->
  let Na := trapz xs (map2 Rmult av ev) in
  let Nb := trapz xs (map2 Rmult bv ev) in
  let P := trapz xs ev in
  0 <= P /\ Na * Na + Nb * Nb <= P * P.
Proof.
  induction xs as [|x0 xt IH]; intros ev av bv HS Le La Lb He Hab; cbn zeta.
  - simpl. lra.
  - destruct xt as [|x1 xt'].
    + simpl. lra.
    + destruct ev as [|e0 [|e1 et]]; try discriminate.
      destruct av as [|a0 [|a1 at_]]; try discriminate.
      destruct bv as [|b0 [|b1 bt]]; try discriminate.
      inversion HS as [|? ? HS' Hx0]; subst.
      inversion He as [|? ? He0 He']; subst.
      inversion Hab as [|? ? ? ? Hab0 Hab']; subst.
      destruct (IH (e1 :: et) (a1 :: at_) (b1 :: bt)) as [HP HI]; try assumption.
      { simpl in *; lia. } { simpl in *; lia. } { simpl in *; lia. }
      cbn zeta in HP, HI.
      change (map2 Rmult (a0 :: a1 :: at_) (e0 :: e1 :: et)) with (a0 * e0 :: map2 Rmult (a1 :: at_) (e1 :: et)).
      change (map2 Rmult (b0 :: b1 :: bt) (e0 :: e1 :: et)) with (b0 * e0 :: map2 Rmult (b1 :: bt) (e1 :: et)).
      change (map2 Rmult (a1 :: at_) (e1 :: et)) with (a1 * e1 :: map2 Rmult at_ et) in *.
      change (map2 Rmult (b1 :: bt) (e1 :: et)) with (b1 * e1 :: map2 Rmult bt et) in *.
      change (trapz (x0 :: x1 :: xt') (a0 * e0 :: a1 * e1 :: map2 Rmult at_ et))
        with ((x1 - x0) * (a0 * e0 + a1 * e1) / 2 + trapz (x1 :: xt') (a1 * e1 :: map2 Rmult at_ et)).
      change (trapz (x0 :: x1 :: xt') (b0 * e0 :: b1 * e1 :: map2 Rmult bt et))
        with ((x1 - x0) * (b0 * e0 + b1 * e1) / 2 + trapz (x1 :: xt') (b1 * e1 :: map2 Rmult bt et)).
      change (trapz (x0 :: x1 :: xt') (e0 :: e1 :: et))
        with ((x1 - x0) * (e0 + e1) / 2 + trapz (x1 :: xt') (e1 :: et)).
      set (Ta := trapz (x1 :: xt') (a1 * e1 :: map2 Rmult at_ et)) in *.
      set (Tb := trapz (x1 :: xt') (b1 * e1 :: map2 Rmult bt et)) in *.
      set (T := trapz (x1 :: xt') (e1 :: et)) in *.
      assert (Hh : 0 <= x1 - x0).
      { inversion Hx0; subst. lra. }
      inversion He' as [|? ? He1 _]; subst.
      inversion Hab' as [|? ? ? ? Hab1 _]; subst.
      set (w0 := (x1 - x0) * e0 / 2). set (w1 := (x1 - x0) * e1 / 2).
      assert (W0 : 0 <= w0) by (unfold w0; assert (0 <= (x1 - x0) * e0) by (apply Rmult_le_pos; assumption); lra).
      assert (W1 : 0 <= w1) by (unfold w1; assert (0 <= (x1 - x0) * e1) by (apply Rmult_le_pos; assumption); lra).
      assert (S0 := disc_scale w0 a0 b0 W0 Hab0).
      assert (S1 := disc_scale w1 a1 b1 W1 Hab1).
      assert (S01 := disc_add (w0 * a0) (w0 * b0) w0 (w1 * a1) (w1 * b1) w1 W0 W1 S0 S1).
      assert (W01 : 0 <= w0 + w1) by lra.
      assert (F := disc_add (w0 * a0 + w1 * a1) (w0 * b0 + w1 * b1) (w0 + w1) Ta Tb T W01 HP S01 HI).
      replace ((x1 - x0) * (a0 * e0 + a1 * e1) / 2) with (w0 * a0 + w1 * a1) by (unfold w0, w1; field).
      replace ((x1 - x0) * (b0 * e0 + b1 * e1) / 2) with (w0 * b0 + w1 * b1) by (unfold w0, w1; field).
      replace ((x1 - x0) * (e0 + e1) / 2) with (w0 + w1) by (unfold w0, w1; field).
      split; [lra | exact F].
Qed.

Lemma Forall_select : forall {A} (P : A -> Prop) m l, Forall P l -> Forall P (select m l).
Proof.
  intros A P m l H. revert m. induction H; intros m; [destruct m; constructor|].
  destruct m as [|[|] m]; simpl; [constructor | constructor; [assumption | apply IHForall] | apply IHForall].
Qed.

Lemma Forall2_select : forall {A B} (P : A -> B -> Prop) m l l', Forall2 P l l' -> Forall2 P (select m l) (select m l').
Proof.
  intros A B P m l l' H. revert m. induction H; intros m; [destruct m; constructor|].
  destruct m as [|[|] m]; simpl; [constructor | constructor; [assumption | apply IHForall2] | apply IHForall2].
Qed.

Lemma SSorted_select : forall m l, StronglySorted Rle l -> StronglySorted Rle (select m l).
Proof.
  intros m l H. revert m. induction H; intros m; [destruct m; constructor|].
  destruct m as [|[|] m]; simpl; [constructor | | apply IHStronglySorted].
  constructor; [apply IHStronglySorted | apply Forall_select; assumption].
Qed.

Lemma select_map : forall {A B} (g : A -> B) m l, select m (map g l) = map g (select m l).
Proof.
  induction m as [|b m IH]; intros l; [reflexivity|]. destruct l; [reflexivity|].
  simpl. destruct b; simpl; [f_equal|]; apply IH.
Qed.

Lemma map2_wprod : forall p e, map2 wprod p e = map2 Rmult (map fill0 p) (map fill0 e).
Proof. induction p; intros e; destruct e; simpl; try reflexivity. f_equal; apply IHp. Qed.

Lemma map2_mterm0 : forall e f, length e = length f -> map2 (mterm 0) e f = map fill0 e.
Proof.
  induction e as [|v e IH]; intros f L; destruct f; try discriminate; [reflexivity|].
  simpl. f_equal; [destruct v; simpl; ring | apply IH; simpl in L; lia].
Qed.


Lemma mean_moments_in_disc : forall fmin fmax f e a b A B,
  StronglySorted Rle f ->
  length e = length f -> length a = length f -> length b = length f ->
  Forall nonneg_or_nan e -> Forall2 in_disc a b ->
  weighted fmin fmax f e a = Some A -> weighted fmin fmax f e b = Some B ->
  A * A + B * B <= 1.
Proof.
  intros fmin fmax f e a b A B HS Le La Lb He Hab HA HB.
  unfold weighted, wnum in HA, HB. unfold moment in HA, HB.
  set (m := band_mask fmin fmax f) in *.
  destruct (has_nan (select m e)); [discriminate|].
  unfold odiv in HA, HB.
  set (sf := select m f) in *. set (se := select m e) in *.
  set (sa := select m a) in *. set (sb := select m b) in *.
  assert (L1 : length se = length sf) by (apply select_length_eq; exact Le).
  assert (L2 : length sa = length sf) by (apply select_length_eq; exact La).
  assert (L3 : length sb = length sf) by (apply select_length_eq; exact Lb).
  rewrite (map2_mterm0 se sf L1) in HA, HB.
  rewrite !map2_wprod in HA, HB.
  destruct (Req_EM_T (trapz sf (map fill0 se)) 0) as [Z|NZ]; [discriminate|].
  inversion HA; inversion HB; subst A B. clear HA HB.
  destruct (trapz_disc sf (map fill0 se) (map fill0 sa) (map fill0 sb)) as [HP HI].
  - apply SSorted_select; exact HS.
  - rewrite map_length; exact L1.
  - rewrite map_length; exact L2.
  - rewrite map_length; exact L3.
  - apply Forall_forall. intros v Hv. apply in_map_iff in Hv. destruct Hv as [x [Hx Hin]]. subst v.
    assert (Hs : Forall nonneg_or_nan se) by (apply Forall_select; exact He).
    rewrite Forall_forall in Hs. specialize (Hs x Hin). destruct x; simpl in *; [exact Hs | lra].
  - assert (Hs : Forall2 in_disc sa sb) by (apply Forall2_select; exact Hab).
    clear - Hs. induction Hs; simpl; constructor; assumption.
  - cbn zeta in HP, HI.
    set (Na := trapz sf (map2 Rmult (map fill0 sa) (map fill0 se))) in *.
    set (Nb := trapz sf (map2 Rmult (map fill0 sb) (map fill0 se))) in *.
    set (P := trapz sf (map fill0 se)) in *.
    assert (PP : 0 < P * P).
    { assert (0 < P) by lra. apply Rmult_lt_0_compat; assumption. }
    replace (Na / P * (Na / P) + Nb / P * (Nb / P)) with ((Na * Na + Nb * Nb) / (P * P)) by (field; exact NZ).
    apply (Rmult_le_reg_r (P * P)); [exact PP|].
    replace ((Na * Na + Nb * Nb) / (P * P) * (P * P)) with (Na * Na + Nb * Nb) by (field; exact NZ). lra.
Qed.

(* hence: the band-mean spread exists and lies in [0, sqrt2*180/pi], the band-mean direction in (-180,180] *)
Lemma mean_spread_range : forall fmin fmax f e a b A B,
  StronglySorted Rle f ->
  length e = length f -> length a = length f -> length b = length f ->
  Forall nonneg_or_nan e -> Forall2 in_disc a b ->
  weighted fmin fmax f e a = Some A -> weighted fmin fmax f e b = Some B ->
  exists v, mean_spread fmin fmax f e a b = Some v /\ 0 <= v <= sqrt 2 * 180 / PI.
Proof.
  intros fmin fmax f e a b A B HS Le La Lb He Hab HA HB.
  assert (D := mean_moments_in_disc fmin fmax f e a b A B HS Le La Lb He Hab HA HB).
  unfold mean_spread. rewrite HA, HB. simpl. apply spread_range. exact D.
Qed.

(* 2D spectra: non-negative density on non-negative steps gives valid moments at every frequency *)
Lemma moments_2d_in_disc : forall M (s : spec2d M),
  Forall (fun row => length row = length (th2 s)) (E2 s) ->
  Forall (fun row => forall v, In (Some v) row -> 0 <= v) (E2 s) ->
  (forall x, In x (dstep (th2 s)) -> 0 <= x) ->
  Forall nonneg_or_nan (map Some (e_2d s)) /\ Forall2 in_disc (a1_2d s) (b1_2d s) /\ Forall2 in_disc (a2_2d s) (b2_2d s).
Proof.
  intros M s HL HE Hs. unfold e_2d, a1_2d, b1_2d, a2_2d, b2_2d.
  induction (E2 s) as [|row E IH]; [simpl; repeat split; constructor|].
  inversion HL as [|? ? L1 HL']; subst. inversion HE as [|? ? E1 HE']; subst.
  destruct (IH HL' HE') as [I1 [I2 I3]].
  assert (N := e_nonneg row (th2 s) E1 Hs).
  assert (D : in_disc (a1_row row (th2 s)) (b1_row row (th2 s)) /\ in_disc (a2_row row (th2 s)) (b2_row row (th2 s))).
  { destruct (Req_dec (e_row row (th2 s)) 0) as [Z|NZ].
    - destruct (moments_nan_when_no_energy row (th2 s) Z) as [A1 [B1 [A2 B2]]].
      rewrite A1, B1, A2, B2. unfold in_disc. simpl. lra.
    - assert (P : 0 < e_row row (th2 s)) by lra.
      destruct (moments_bounded row (th2 s) L1 E1 Hs P) as [a [b [a' [b' [A1 [B1 [A2 [B2 [_ [_ [_ [_ [D1 D2]]]]]]]]]]]]].
      rewrite A1, B1, A2, B2. unfold in_disc. simpl. split; assumption. }
  simpl. split; [constructor; [exact N | exact I1]|].
  split; constructor; try assumption; apply D.
Qed.

Lemma ranges_2d : forall M (s : spec2d M) fmin fmax A B,
  StronglySorted Rle (f2 s) -> length (E2 s) = length (f2 s) ->
  Forall (fun row => length row = length (th2 s)) (E2 s) ->
  Forall (fun row => forall v, In (Some v) row -> 0 <= v) (E2 s) ->
  (forall x, In x (dstep (th2 s)) -> 0 <= x) ->
  b_mean_a1 (bulk_2d s fmin fmax) = Some A -> b_mean_b1 (bulk_2d s fmin fmax) = Some B ->
  A * A + B * B <= 1 /\
  exists v, b_mean_spread (bulk_2d s fmin fmax) = Some v /\ 0 <= v <= sqrt 2 * 180 / PI.
Proof.
  intros M s fmin fmax A B HS L HL HE Hs HA HB.
  destruct (moments_2d_in_disc M s HL HE Hs) as [N [D1 _]].
  unfold bulk_2d, bulk_of in *. cbn [b_mean_a1 b_mean_b1 b_mean_spread] in *.
  assert (L0 : length (map Some (e_2d s)) = length (f2 s)) by (unfold e_2d; rewrite !map_length; exact L).
  assert (L1 : length (a1_2d s) = length (f2 s)) by (unfold a1_2d; rewrite map_length; exact L).
  assert (L2 : length (b1_2d s) = length (f2 s)) by (unfold b1_2d; rewrite map_length; exact L).
  split.
  - apply (mean_moments_in_disc fmin fmax (f2 s) (map Some (e_2d s)) (a1_2d s) (b1_2d s)); assumption.
  - apply (mean_spread_range fmin fmax (f2 s) (map Some (e_2d s)) (a1_2d s) (b1_2d s) A B); assumption.
Qed.

(* combined form used by Properties/C03.v *)
Lemma atan2_polar : forall x y, x <> 0 \/ y <> 0 ->
  x = sqrt (x * x + y * y) * cos (atan2 y x) /\ y = sqrt (x * x + y * y) * sin (atan2 y x) /\
  - PI < atan2 y x <= PI.
Proof. intros x y H. destruct (atan2_cos_sin x y H) as [A B]. exact (conj A (conj B (atan2_range x y H))). Qed.
