(* Proofs about Model/DirStats.v (C03) and the 2D->1D bulk clause of C02. *)
From Coq Require Import Reals Lra Lia List Arith.
From Interval Require Import Tactic.
From OSU.Lib Require Import Cyclic Fmod Atan2.
From OSU.Model Require Import Directional DirStats.
From OSU.Proofs Require Import Directional.
Import ListNotations.
Open Scope R_scope.

(* ================================================================== *)
(* 2D -> 1D: every bulk parameter is computed from the same variables   *)
(* ================================================================== *)
Lemma to_1d_bulk : forall M (s : spec2d M) fmin fmax, bulk_1d (to_1d s) fmin fmax = bulk_2d s fmin fmax.
Proof. reflexivity. Qed.

(* ================================================================== *)
(* definitions, ranges                                                  *)
(* ================================================================== *)
Lemma mean_direction_def : forall fmin fmax f e a b A B,
  weighted fmin fmax f e a = Some A -> weighted fmin fmax f e b = Some B ->
  mean_direction fmin fmax f e a b = Some (atan2 B A * 180 / PI) /\
  mean_spread fmin fmax f e a b =
    (if Rlt_dec (2 - 2 * sqrt (A * A + B * B)) 0 then None
     else Some (sqrt (2 - 2 * sqrt (A * A + B * B)) * 180 / PI)).
Proof.
  intros. unfold mean_direction, mean_spread. rewrite H, H0. split; reflexivity.
Qed.

(* the band average: trapezoid of fill0(property)*e over the band, divided by m0 of the band *)
Lemma weighted_def : forall fmin fmax f e p,
  let m := band_mask fmin fmax f in
  has_nan (select m e) = false -> moment 0 fmin fmax f e <> 0 ->
  weighted fmin fmax f e p
  = Some (trapz (select m f) (map2 (fun pi ei => fill0 pi * fill0 ei) (select m p) (select m e))
          / moment 0 fmin fmax f e).
Proof.
  intros fmin fmax f e p m Hn Hm. unfold weighted, wnum. fold m. rewrite Hn.
  unfold odiv. destruct (Req_EM_T (moment 0 fmin fmax f e) 0); [contradiction | reflexivity].
Qed.

Lemma per_frequency_def : forall a b i x y,
  length a = length b -> (i < length a)%nat -> nth i a None = Some x -> nth i b None = Some y ->
  nth i (dir_per_frequency a b) None = Some (atan2 y x * 180 / PI) /\
  nth i (spread_per_frequency a b) None = spread_deg x y.
Proof.
  intros a b i x y L Hi Ha Hb. unfold dir_per_frequency, spread_per_frequency.
  rewrite (nth_map2 odir a b i None None None L Hi), (nth_map2 ospread a b i None None None L Hi).
  rewrite Ha, Hb. split; reflexivity.
Qed.

Lemma peak_direction_def : forall fmin fmax f e a b i,
  peak_index fmin fmax f e = Some i ->
  peak_direction fmin fmax f e a b = odir (nth i a None) (nth i b None) /\
  peak_spread fmin fmax f e a b = ospread (nth i a None) (nth i b None) /\
  peak_frequency fmin fmax f e = Some (nth i f 0).
Proof.
  intros. unfold peak_direction, peak_spread, peak_frequency. rewrite H. repeat split; reflexivity.
Qed.

Lemma dir_range : forall a b, a <> 0 \/ b <> 0 -> -180 < dir_deg a b <= 180.
Proof.
  intros a b H. unfold dir_deg. assert (P := PI_RGT_0).
  destruct (atan2_range a b H) as [L U].
  set (t := atan2 b a) in *.
  assert (E : t * 180 / PI * PI = t * 180) by (field; lra).
  split.
  - apply (Rmult_lt_reg_r PI); [exact P|]. rewrite E. lra.
  - apply (Rmult_le_reg_r PI); [exact P|]. rewrite E. lra.
Qed.

Lemma dir_zero_vector : dir_deg 0 0 = 0.
Proof.
  unfold dir_deg, atan2.
  destruct (Rlt_dec 0 0); [lra|]. destruct (Rlt_dec 0 0); [lra|]. unfold Rdiv; ring.
Qed.

Lemma spread_range : forall a b, a * a + b * b <= 1 ->
  exists v, spread_deg a b = Some v /\ 0 <= v <= sqrt 2 * 180 / PI.
Proof.
  intros a b H. assert (P := PI_RGT_0).
  assert (N : 0 <= a * a + b * b).
  { assert (0 <= a * a) by apply Rle_0_sqr. assert (0 <= b * b) by apply Rle_0_sqr. lra. }
  assert (R0 : 0 <= sqrt (a * a + b * b)) by apply sqrt_pos.
  assert (R1 : sqrt (a * a + b * b) <= 1).
  { rewrite <- sqrt_1. apply sqrt_le_1_alt. exact H. }
  unfold spread_deg, spread_arg.
  destruct (Rlt_dec (2 - 2 * sqrt (a * a + b * b)) 0) as [C|C]; [lra|].
  eexists. split; [reflexivity|].
  set (q := 2 - 2 * sqrt (a * a + b * b)) in *.
  assert (Q0 : 0 <= sqrt q) by apply sqrt_pos.
  assert (Q1 : sqrt q <= sqrt 2) by (apply sqrt_le_1_alt; unfold q; lra).
  assert (K : 0 < 180 / PI) by (apply Rdiv_lt_0_compat; lra).
  replace (sqrt q * 180 / PI) with (sqrt q * (180 / PI)) by (field; lra).
  replace (sqrt 2 * 180 / PI) with (sqrt 2 * (180 / PI)) by (field; lra).
  split.
  - apply Rmult_le_pos; lra.
  - apply Rmult_le_compat_r; lra.
Qed.

Lemma spread_bound_value : sqrt 2 * 180 / PI < 81.03.
Proof. interval. Qed.

(* ================================================================== *)
(* trigonometry in degrees                                              *)
(* ================================================================== *)
Lemma rad_plus : forall x y, rad (x + y) = rad x + rad y.
Proof. intros; unfold rad; field; apply PI_neq0. Qed.

Lemma rad_cong : forall x y, cong360 x y -> exists m : Z, rad x = rad y + 2 * IZR m * PI.
Proof. intros x y [m H]. exists m. unfold rad. rewrite H. field. Qed.

Lemma cos1_cong : forall x y, cong360 x y -> cos1 x = cos1 y.
Proof. intros x y H. destruct (rad_cong x y H) as [m E]. unfold cos1. rewrite E. apply cos_sin_period_Z. Qed.
Lemma sin1_cong : forall x y, cong360 x y -> sin1 x = sin1 y.
Proof. intros x y H. destruct (rad_cong x y H) as [m E]. unfold sin1. rewrite E. apply cos_sin_period_Z. Qed.
Lemma cos2_cong : forall x y, cong360 x y -> cos2 x = cos2 y.
Proof.
  intros x y H. destruct (rad_cong x y H) as [m E]. unfold cos2. rewrite E.
  replace (2 * (rad y + 2 * IZR m * PI)) with (2 * rad y + 2 * IZR (2 * m) * PI) by (rewrite mult_IZR; simpl; ring).
  apply cos_sin_period_Z.
Qed.
Lemma sin2_cong : forall x y, cong360 x y -> sin2 x = sin2 y.
Proof.
  intros x y H. destruct (rad_cong x y H) as [m E]. unfold sin2. rewrite E.
  replace (2 * (rad y + 2 * IZR m * PI)) with (2 * rad y + 2 * IZR (2 * m) * PI) by (rewrite mult_IZR; simpl; ring).
  apply cos_sin_period_Z.
Qed.

Lemma cos1_plus : forall t al, cos1 (t + al) = cos1 t * cos1 al - sin1 t * sin1 al.
Proof. intros; unfold cos1, sin1; rewrite rad_plus; apply cos_plus. Qed.
Lemma sin1_plus : forall t al, sin1 (t + al) = sin1 t * cos1 al + cos1 t * sin1 al.
Proof. intros; unfold cos1, sin1; rewrite rad_plus; apply sin_plus. Qed.
Lemma cos2_plus : forall t al, cos2 (t + al) = cos2 t * cos2 al - sin2 t * sin2 al.
Proof.
  intros; unfold cos2, sin2; rewrite rad_plus.
  replace (2 * (rad t + rad al)) with (2 * rad t + 2 * rad al) by ring. apply cos_plus.
Qed.
Lemma sin2_plus : forall t al, sin2 (t + al) = sin2 t * cos2 al + cos2 t * sin2 al.
Proof.
  intros; unfold cos2, sin2; rewrite rad_plus.
  replace (2 * (rad t + rad al)) with (2 * rad t + 2 * rad al) by ring. apply sin_plus.
Qed.
Lemma cos2_double : forall al, cos2 al = cos1 (2 * al).
Proof. intros; unfold cos2, cos1, rad; f_equal; field; apply PI_neq0. Qed.
Lemma sin2_double : forall al, sin2 al = sin1 (2 * al).
Proof. intros; unfold sin2, sin1, rad; f_equal; field; apply PI_neq0. Qed.

Lemma cos1_opp : forall t, cos1 (- t) = cos1 t.
Proof. intros; unfold cos1, rad. replace (- t * PI / 180) with (- (t * PI / 180)) by (field). apply cos_neg. Qed.
Lemma sin1_opp : forall t, sin1 (- t) = - sin1 t.
Proof. intros; unfold sin1, rad. replace (- t * PI / 180) with (- (t * PI / 180)) by (field). apply sin_neg. Qed.
Lemma cos2_opp : forall t, cos2 (- t) = cos2 t.
Proof. intros; unfold cos2, rad. replace (2 * (- t * PI / 180)) with (- (2 * (t * PI / 180))) by (field). apply cos_neg. Qed.
Lemma sin2_opp : forall t, sin2 (- t) = - sin2 t.
Proof. intros; unfold sin2, rad. replace (2 * (- t * PI / 180)) with (- (2 * (t * PI / 180))) by (field). apply sin_neg. Qed.

Lemma cos1_dir : forall a b, cos1 (dir_deg a b) = cos (atan2 b a) /\ sin1 (dir_deg a b) = sin (atan2 b a).
Proof.
  intros. unfold cos1, sin1, rad, dir_deg.
  replace (atan2 b a * 180 / PI * PI / 180) with (atan2 b a) by (field; apply PI_neq0). split; reflexivity.
Qed.

(* ================================================================== *)
(* quadrature on a uniform grid                                         *)
(* ================================================================== *)
Lemma dint_uniform : forall E dl n, length E = n -> dint E (repeat dl n) = dl * sumR (map fill0 E).
Proof.
  unfold dint. induction E as [|g E IH]; intros dl n L; [simpl; ring|].
  destruct n as [|n]; [discriminate|].
  cbn [repeat map map2 sumR fold_right].
  fold (sumR (map2 wterm E (repeat dl n))). fold (sumR (map fill0 E)).
  rewrite IH by (simpl in L; lia). rewrite wterm_fill0. ring.
Qed.

Lemma mnum_uniform : forall (c : R -> R) E th dl,
  length E = length th ->
  dint (map2 omul E (map c th)) (repeat dl (length th))
  = dl * sumR (map2 Rmult (map fill0 E) (map c th)).
Proof.
  intros c. unfold dint. induction E as [|g E IH]; intros th dl L; destruct th as [|t th]; try discriminate.
  - simpl. ring.
  - cbn [length repeat map map2 sumR fold_right].
    fold (sumR (map2 wterm (map2 omul E (map c th)) (repeat dl (length th)))).
    fold (sumR (map2 Rmult (map fill0 E) (map c th))).
    rewrite IH by (simpl in L; lia). destruct g; simpl; ring.
Qed.

Lemma map2_map_same : forall {A B C D} (f : B -> C -> D) (g : A -> B) (h : A -> C) l,
  map2 f (map g l) (map h l) = map (fun t => f (g t) (h t)) l.
Proof. induction l; simpl; [reflexivity | f_equal; assumption]. Qed.

(* the rotated grid is the grid advanced by k steps, modulo 360 *)
Lemma grid_rot : forall (c : R -> R) t0 dl th k,
  (forall x y, cong360 x y -> c x = c y) ->
  ugrid t0 dl th -> (k <= length th)%nat ->
  map c (rotl k th) = map (fun t => c (t + INR k * dl)) th.
Proof.
  intros c t0 dl th k Hc [HN Hg] Hk.
  apply (nth_ext _ _ (c 0) (c 0)).
  - rewrite !map_length. apply rotl_length.
  - intros j Hj. rewrite map_length, rotl_length in Hj.
    rewrite map_nth.
    rewrite (nth_map' (fun t => c (t + INR k * dl)) th j (c 0) 0 Hj).
    apply Hc.
    rewrite nth_rotl by assumption.
    destruct (Nat.ltb_spec j (length th - k)) as [L|L].
    + eapply cong360_trans; [apply Hg; lia|].
      eapply cong360_trans; [|apply cong360_plus; [apply cong360_sym; apply (Hg j Hj) | apply cong360_refl]].
      rewrite plus_INR. exists 0%Z. simpl. ring.
    + eapply cong360_trans; [apply Hg; lia|].
      eapply cong360_trans; [|apply cong360_plus; [apply cong360_sym; apply (Hg j Hj) | apply cong360_refl]].
      rewrite minus_INR by lia. rewrite minus_INR by lia.
      exists (-1)%Z. simpl. lra.
Qed.

(* a pair of functions that rotates like (cos, sin) of an angle *)
Section RotPair.
  Variables c s : R -> R.
  Hypothesis c_cong : forall x y, cong360 x y -> c x = c y.
  Hypothesis s_cong : forall x y, cong360 x y -> s x = s y.
  Hypothesis c_plus : forall t al, c (t + al) = c t * c al - s t * s al.
  Hypothesis s_plus : forall t al, s (t + al) = s t * c al + c t * s al.

  Lemma rot_numerators : forall t0 dl th E k,
    ugrid t0 dl th -> -180 <= dl < 180 -> (k <= length th)%nat -> length E = length th ->
    let al := INR k * dl in
    e_row (rotr k E) th = e_row E th /\
    mnum c (rotr k E) th = c al * mnum c E th - s al * mnum s E th /\
    mnum s (rotr k E) th = s al * mnum c E th + c al * mnum s E th.
  Proof.
    intros t0 dl th E k U Hd Hk L al.
    assert (D := dstep_uniform t0 dl th U Hd).
    assert (L' : length (rotr k E) = length th) by (rewrite rotr_length; exact L).
    unfold e_row, mnum. rewrite D.
    rewrite !dint_uniform by assumption.
    rewrite !mnum_uniform by assumption.
    split.
    { rewrite <- rotr_map. rewrite sumR_rotr. reflexivity. }
    set (F := map fill0 E).
    assert (LF : length F = length th) by (unfold F; rewrite map_length; exact L).
    assert (RF : map fill0 (rotr k E) = rotr k F) by (unfold F; rewrite rotr_map; reflexivity).
    rewrite RF.
    (* re-index: rotate both operands left by k *)
    assert (Re : forall g : R -> R, (forall x y, cong360 x y -> g x = g y) ->
                 sumR (map2 Rmult (rotr k F) (map g th))
                 = sumR (map2 Rmult F (map (fun t => g (t + al)) th))).
    { intros g Hg.
      rewrite <- (sum_map2_rotl Rmult k (rotr k F) (map g th))
        by (rewrite rotr_length, map_length; exact LF).
      rewrite rotl_rotr by (rewrite LF; exact Hk).
      rewrite rotl_map. rewrite (grid_rot g t0 dl th k Hg U Hk). reflexivity. }
    rewrite (Re c c_cong), (Re s s_cong).
    assert (Ec : map (fun t => c (t + al)) th
                 = map2 (fun x y => c al * x + (- s al) * y) (map c th) (map s th)).
    { rewrite map2_map_same. apply map_ext. intros t. rewrite c_plus. ring. }
    assert (Es : map (fun t => s (t + al)) th
                 = map2 (fun x y => s al * x + c al * y) (map c th) (map s th)).
    { rewrite map2_map_same. apply map_ext. intros t. rewrite s_plus. ring. }
    rewrite Ec, Es.
    rewrite !sum_map2_lin by (rewrite !map_length; reflexivity).
    split; ring.
  Qed.
End RotPair.



(* one frequency bin *)
Lemma rot_moments : forall t0 dl th E k,
  ugrid t0 dl th -> -180 <= dl < 180 -> (k <= length th)%nat -> length E = length th ->
  let al := INR k * dl in
  e_row (rotr k E) th = e_row E th /\
  rot_rel al (a1_row E th) (b1_row E th) (a1_row (rotr k E) th) (b1_row (rotr k E) th) /\
  rot_rel (2 * al) (a2_row E th) (b2_row E th) (a2_row (rotr k E) th) (b2_row (rotr k E) th).
Proof.
  intros t0 dl th E k U Hd Hk L al.
  destruct (rot_numerators cos1 sin1 cos1_cong sin1_cong cos1_plus sin1_plus t0 dl th E k U Hd Hk L)
    as [He [Hc1 Hs1]].
  destruct (rot_numerators cos2 sin2 cos2_cong sin2_cong cos2_plus sin2_plus t0 dl th E k U Hd Hk L)
    as [_ [Hc2 Hs2]].
  fold al in Hc1, Hs1, Hc2, Hs2.
  split; [exact He|].
  unfold a1_row, b1_row, a2_row, b2_row, rot_rel, odiv. rewrite He.
  destruct (Req_EM_T (e_row E th) 0) as [Z|NZ].
  - repeat split; reflexivity.
  - rewrite Hc1, Hs1, Hc2, Hs2. unfold rotc, rots. rewrite <- !cos2_double, <- !sin2_double.
    repeat split; f_equal; field; exact NZ.
Qed.

(* ---------------- directions and spreads under rot_rel ---------------- *)
Lemma rot_norm : forall al x y,
  rotc al x y * rotc al x y + rots al x y * rots al x y = x * x + y * y.
Proof.
  intros. unfold rotc, rots. assert (T := cos1_sin1_unit al).
  replace ((x * cos1 al - y * sin1 al) * (x * cos1 al - y * sin1 al) +
           (x * sin1 al + y * cos1 al) * (x * sin1 al + y * cos1 al))
    with ((x * x + y * y) * (cos1 al * cos1 al + sin1 al * sin1 al)) by ring.
  rewrite T. ring.
Qed.

Lemma rot_spread : forall al a b a' b', rot_rel al a b a' b' -> ospread a' b' = ospread a b.
Proof.
  intros al [x|] [y|] a' b' H; simpl in H; try contradiction; destruct H; subst; [|reflexivity].
  simpl. unfold spread_deg, spread_arg. rewrite rot_norm. reflexivity.
Qed.


Lemma same_dir_cong : forall d d', same_dir d d' -> exists m : Z, d' = d + 360 * IZR m.
Proof.
  intros d d' [Hc Hs]. unfold cos1, sin1 in *.
  destruct (cos_sin_eq_turns _ _ Hc Hs) as [m Hm]. exists m.
  unfold rad in Hm. assert (P := PI_RGT_0).
  apply (Rmult_eq_reg_r (PI / 180)); [|lra]. lra.
Qed.

Lemma rot_direction : forall al x y, x <> 0 \/ y <> 0 ->
  same_dir (dir_deg x y + al) (dir_deg (rotc al x y) (rots al x y)).
Proof.
  intros al x y H. unfold same_dir.
  destruct (atan2_rot x y (rad al) H) as [_ [Hc Hs]]. cbn zeta in Hc, Hs.
  destruct (cos1_dir (rotc al x y) (rots al x y)) as [C S]. rewrite C, S.
  change (rotc al x y) with (x * cos (rad al) - y * sin (rad al)).
  change (rots al x y) with (x * sin (rad al) + y * cos (rad al)).
  rewrite Hc, Hs.
  unfold cos1, sin1. rewrite rad_plus.
  assert (E : rad (dir_deg x y) = atan2 y x) by (unfold rad, dir_deg; field; apply PI_neq0).
  rewrite E. split; reflexivity.
Qed.


Lemma rot_rel_direction : forall al a b a' b', rot_rel al a b a' b' -> dir_shift al a b a' b'.
Proof.
  intros al a b a' b' H x y Ha Hb Hnz. subst a b. simpl in H. destruct H; subst.
  exists (dir_deg x y), (dir_deg (rotc al x y) (rots al x y)).
  split; [reflexivity | split; [reflexivity | apply rot_direction; exact Hnz]].
Qed.

Lemma mirror_direction_vec : forall x y, x <> 0 \/ y <> 0 ->
  same_dir (- dir_deg x y) (dir_deg x (- y)).
Proof.
  intros x y H. unfold same_dir.
  destruct (atan2_mirror x y H) as [Hc Hs].
  destruct (cos1_dir x (- y)) as [C S]. rewrite C, S, Hc, Hs.
  unfold cos1, sin1.
  assert (E : rad (- dir_deg x y) = - atan2 y x) by (unfold rad, dir_deg; field; apply PI_neq0).
  rewrite E. split; reflexivity.
Qed.


Lemma mirror_rel_direction : forall a b a' b', mirror_rel a b a' b' -> dir_negated a b a' b'.
Proof.
  intros a b a' b' H x y Ha Hb Hnz. subst a b. simpl in H. destruct H; subst.
  exists (dir_deg x y), (dir_deg x (- y)).
  split; [reflexivity | split; [reflexivity | apply mirror_direction_vec; exact Hnz]].
Qed.

Lemma mirror_spread : forall a b a' b', mirror_rel a b a' b' -> ospread a' b' = ospread a b.
Proof.
  intros [x|] [y|] a' b' H; simpl in H; try contradiction; destruct H; subst; [|reflexivity].
  simpl. unfold spread_deg, spread_arg. replace (x * x + - y * - y) with (x * x + y * y) by ring. reflexivity.
Qed.

(* ================================================================== *)
(* lists of moment pairs (one entry per frequency)                      *)
(* ================================================================== *)
Inductive all4 (P : option R -> option R -> option R -> option R -> Prop) :
  list (option R) -> list (option R) -> list (option R) -> list (option R) -> Prop :=
| all4_nil : all4 P [] [] [] []
| all4_cons : forall a b a' b' la lb la' lb',
    P a b a' b' -> all4 P la lb la' lb' -> all4 P (a :: la) (b :: lb) (a' :: la') (b' :: lb').

Lemma all4_select : forall (P : option R -> option R -> option R -> option R -> Prop) m la lb la' lb',
  all4 P la lb la' lb' -> all4 P (select m la) (select m lb) (select m la') (select m lb').
Proof.
  intros P m la lb la' lb' H. revert m. induction H; intros m.
  - destruct m; constructor.
  - destruct m as [|[|] m]; simpl; [constructor | constructor; [assumption | apply IHall4] | apply IHall4].
Qed.

Lemma all4_nth : forall (P : option R -> option R -> option R -> option R -> Prop) la lb la' lb' i,
  P None None None None -> all4 P la lb la' lb' ->
  P (nth i la None) (nth i lb None) (nth i la' None) (nth i lb' None).
Proof.
  intros P la lb la' lb' i P0 H. revert i. induction H; intros i.
  - destruct i; exact P0.
  - destruct i; [assumption | apply IHall4].
Qed.

Lemma all4_map2 : forall (P : option R -> option R -> option R -> option R -> Prop) (Q : option R -> option R -> Prop) (f : option R -> option R -> option R) la lb la' lb',
  (forall a b a' b', P a b a' b' -> Q (f a b) (f a' b')) ->
  all4 P la lb la' lb' -> Forall2 Q (map2 f la lb) (map2 f la' lb').
Proof.
  intros P Q f la lb la' lb' HPQ H. induction H; simpl; constructor; [apply HPQ; assumption | assumption].
Qed.

(* linearity of the trapezoid in the integrand *)
Lemma trapz_lin : forall xs ys zs u v, length ys = length zs ->
  trapz xs (map2 (fun y z => u * y + v * z) ys zs) = u * trapz xs ys + v * trapz xs zs.
Proof.
  induction xs as [|x0 xt IH]; intros ys zs u v L; [simpl; ring|].
  destruct xt as [|x1 xt']; [simpl; ring|].
  destruct ys as [|y0 yt]; destruct zs as [|z0 zt]; try discriminate; [simpl; ring|].
  destruct yt as [|y1 yt']; destruct zt as [|z1 zt']; try discriminate; [simpl; ring|].
  change (map2 (fun y z => u * y + v * z) (y0 :: y1 :: yt') (z0 :: z1 :: zt'))
    with ((u * y0 + v * z0) :: (u * y1 + v * z1) :: map2 (fun y z => u * y + v * z) yt' zt').
  change (trapz (x0 :: x1 :: xt') ((u * y0 + v * z0) :: (u * y1 + v * z1) :: map2 (fun y z => u * y + v * z) yt' zt'))
    with ((x1 - x0) * ((u * y0 + v * z0) + (u * y1 + v * z1)) / 2
          + trapz (x1 :: xt') (map2 (fun y z => u * y + v * z) (y1 :: yt') (z1 :: zt'))).
  rewrite IH by (simpl in L; simpl; lia).
  change (trapz (x0 :: x1 :: xt') (y0 :: y1 :: yt')) with ((x1 - x0) * (y0 + y1) / 2 + trapz (x1 :: xt') (y1 :: yt')).
  change (trapz (x0 :: x1 :: xt') (z0 :: z1 :: zt')) with ((x1 - x0) * (z0 + z1) / 2 + trapz (x1 :: xt') (z1 :: zt')).
  lra.
Qed.

(* the weighted integrands of the rotated pair are the rotated weighted integrands *)
Lemma wprod_rot : forall al la lb la' lb' le,
  all4 (rot_rel al) la lb la' lb' -> length le = length la ->
  map2 wprod la' le = map2 (fun y z => cos1 al * y + (- sin1 al) * z) (map2 wprod la le) (map2 wprod lb le) /\
  map2 wprod lb' le = map2 (fun y z => sin1 al * y + cos1 al * z) (map2 wprod la le) (map2 wprod lb le) /\
  length (map2 wprod la le) = length (map2 wprod lb le).
Proof.
  intros al la lb la' lb' le H. revert le. induction H; intros le L.
  - simpl. repeat split; reflexivity.
  - destruct le as [|e le]; [discriminate|].
    destruct (IHall4 le) as [I1 [I2 I3]]; [simpl in L; lia|].
    cbn [map2 length]. rewrite I1, I2, I3.
    repeat split; try reflexivity; f_equal;
      destruct a as [x|]; destruct b as [y|]; simpl in H; try contradiction; destruct H; subst;
      unfold wprod, rotc, rots; simpl; ring.
Qed.

Lemma wprod_mirror : forall la lb la' lb' le,
  all4 mirror_rel la lb la' lb' -> length le = length la ->
  map2 wprod la' le = map2 wprod la le /\
  map2 wprod lb' le = map2 (fun y z => 0 * y + (- 1) * z) (map2 wprod la le) (map2 wprod lb le) /\
  length (map2 wprod la le) = length (map2 wprod lb le).
Proof.
  intros la lb la' lb' le H. revert le. induction H; intros le L.
  - simpl. repeat split; reflexivity.
  - destruct le as [|e le]; [discriminate|].
    destruct (IHall4 le) as [I1 [I2 I3]]; [simpl in L; lia|].
    cbn [map2 length]. rewrite I1, I2, I3.
    repeat split; try reflexivity; f_equal;
      destruct a as [x|]; destruct b as [y|]; simpl in H; try contradiction; destruct H; subst;
      unfold wprod; simpl; ring.
Qed.

Lemma all4_length : forall (P : option R -> option R -> option R -> option R -> Prop) la lb la' lb', all4 P la lb la' lb' ->
  length lb = length la /\ length la' = length la /\ length lb' = length la.
Proof. intros. induction H; simpl; [auto | destruct IHall4 as [? [? ?]]; repeat split; congruence]. Qed.

Lemma select_length_eq : forall {A B} m (l : list A) (l' : list B),
  length l = length l' -> length (select m l) = length (select m l').
Proof.
  induction m as [|b m IH]; intros l l' L; [reflexivity|].
  destruct l; destruct l'; try discriminate; [reflexivity|].
  simpl. destruct b; simpl; [f_equal|]; apply IH; simpl in L; lia.
Qed.

(* band averages rotate with the sea *)
Lemma weighted_rot : forall al fmin fmax f e la lb la' lb',
  all4 (rot_rel al) la lb la' lb' -> length e = length la ->
  rot_rel al (weighted fmin fmax f e la) (weighted fmin fmax f e lb)
             (weighted fmin fmax f e la') (weighted fmin fmax f e lb').
Proof.
  intros al fmin fmax f e la lb la' lb' H L.
  unfold weighted, wnum.
  set (m := band_mask fmin fmax f).
  destruct (has_nan (select m e)); [simpl; split; reflexivity|].
  assert (Hs := all4_select _ m _ _ _ _ H).
  assert (Ls : length (select m e) = length (select m la)) by (apply select_length_eq; exact L).
  destruct (wprod_rot al _ _ _ _ (select m e) Hs Ls) as [E1 [E2 E3]].
  rewrite E1, E2. rewrite !trapz_lin by exact E3.
  unfold odiv. destruct (Req_EM_T (moment 0 fmin fmax f e) 0) as [Z|NZ]; simpl; [split; reflexivity|].
  unfold rotc, rots. split; f_equal; field; exact NZ.
Qed.

Lemma weighted_mirror : forall fmin fmax f e la lb la' lb',
  all4 mirror_rel la lb la' lb' -> length e = length la ->
  mirror_rel (weighted fmin fmax f e la) (weighted fmin fmax f e lb)
             (weighted fmin fmax f e la') (weighted fmin fmax f e lb').
Proof.
  intros fmin fmax f e la lb la' lb' H L.
  unfold weighted, wnum.
  set (m := band_mask fmin fmax f).
  destruct (has_nan (select m e)); [simpl; split; reflexivity|].
  assert (Hs := all4_select _ m _ _ _ _ H).
  assert (Ls : length (select m e) = length (select m la)) by (apply select_length_eq; exact L).
  destruct (wprod_mirror _ _ _ _ (select m e) Hs Ls) as [E1 [E2 E3]].
  rewrite E1, E2. rewrite !trapz_lin by exact E3.
  unfold odiv. destruct (Req_EM_T (moment 0 fmin fmax f e) 0) as [Z|NZ]; simpl; [split; reflexivity|].
  split; f_equal; field; exact NZ.
Qed.

(* ================================================================== *)
(* whole spectra: rotation by k bins                                    *)
(* ================================================================== *)
Section Rot2d.
  Variable M : Type.
  Variables (t0 dl : R) (k : nat) (s : spec2d M).
  Hypothesis U : ugrid t0 dl (th2 s).
  Hypothesis Hd : -180 <= dl < 180.
  Hypothesis Hk : (k <= length (th2 s))%nat.
  Hypothesis Hrows : Forall (fun row => length row = length (th2 s)) (E2 s).
  Let al := INR k * dl.
  Let s' := rot2d k s.

  Lemma rot_e_2d : e_2d s' = e_2d s.
  Proof.
    unfold s', e_2d, rot2d. cbn [E2 th2]. rewrite map_map.
    apply map_ext_in. intros row Hin. rewrite Forall_forall in Hrows.
    apply (rot_moments t0 dl (th2 s) row k U Hd Hk (Hrows row Hin)).
  Qed.

  Lemma rot_ab1_2d : all4 (rot_rel al) (a1_2d s) (b1_2d s) (a1_2d s') (b1_2d s').
  Proof.
    unfold s', a1_2d, b1_2d, rot2d. cbn [E2 th2].
    induction (E2 s) as [|row E IH]; [constructor|].
    inversion Hrows; subst. simpl. constructor; [|apply IH; assumption].
    apply (rot_moments t0 dl (th2 s) row k U Hd Hk); assumption.
  Qed.

  Lemma rot_ab2_2d : all4 (rot_rel (2 * al)) (a2_2d s) (b2_2d s) (a2_2d s') (b2_2d s').
  Proof.
    unfold s', a2_2d, b2_2d, rot2d. cbn [E2 th2].
    induction (E2 s) as [|row E IH]; [constructor|].
    inversion Hrows; subst. simpl. constructor; [|apply IH; assumption].
    apply (rot_moments t0 dl (th2 s) row k U Hd Hk); assumption.
  Qed.

  Lemma rot_bulk : forall fmin fmax,
    let B := bulk_2d s fmin fmax in
    let B' := bulk_2d s' fmin fmax in
    b_m0 B' = b_m0 B /\ b_hm0 B' = b_hm0 B /\ b_tm01 B' = b_tm01 B /\ b_tm02 B' = b_tm02 B /\
    b_peak_index B' = b_peak_index B /\ b_peak_frequency B' = b_peak_frequency B /\
    b_peak_spread B' = b_peak_spread B /\ b_mean_spread B' = b_mean_spread B /\
    rot_rel al (b_mean_a1 B) (b_mean_b1 B) (b_mean_a1 B') (b_mean_b1 B') /\
    rot_rel (2 * al) (b_mean_a2 B) (b_mean_b2 B) (b_mean_a2 B') (b_mean_b2 B') /\
    dir_shift al (b_mean_a1 B) (b_mean_b1 B) (b_mean_a1 B') (b_mean_b1 B') /\
    b_mean_direction B = odir (b_mean_a1 B) (b_mean_b1 B) /\
    b_mean_direction B' = odir (b_mean_a1 B') (b_mean_b1 B') /\
    (forall i, b_peak_index B = Some i ->
       rot_rel al (nth i (a1_2d s) None) (nth i (b1_2d s) None) (nth i (a1_2d s') None) (nth i (b1_2d s') None) /\
       dir_shift al (nth i (a1_2d s) None) (nth i (b1_2d s) None) (nth i (a1_2d s') None) (nth i (b1_2d s') None) /\
       b_peak_direction B = odir (nth i (a1_2d s) None) (nth i (b1_2d s) None) /\
       b_peak_direction B' = odir (nth i (a1_2d s') None) (nth i (b1_2d s') None)).
  Proof.
    intros fmin fmax B B'.
    assert (F : f2 s' = f2 s) by reflexivity.
    assert (E := rot_e_2d).
    assert (R1 := rot_ab1_2d). assert (R2 := rot_ab2_2d).
    assert (Le : length (map Some (e_2d s)) = length (a1_2d s)).
    { unfold e_2d, a1_2d. rewrite !map_length. reflexivity. }
    assert (Le2 : length (map Some (e_2d s)) = length (a2_2d s)).
    { unfold e_2d, a2_2d. rewrite !map_length. reflexivity. }
    assert (W1 := weighted_rot al fmin fmax (f2 s) (map Some (e_2d s)) _ _ _ _ R1 Le).
    assert (W2 := weighted_rot (2 * al) fmin fmax (f2 s) (map Some (e_2d s)) _ _ _ _ R2 Le2).
    assert (N0 : rot_rel al None None None None) by (simpl; split; reflexivity).
    unfold B, B', bulk_2d, bulk_of. cbn [b_m0 b_hm0 b_tm01 b_tm02 b_peak_index b_peak_frequency
      b_peak_spread b_mean_spread b_mean_a1 b_mean_b1 b_mean_a2 b_mean_b2 b_mean_direction b_peak_direction].
    rewrite F, E.
    repeat split; try reflexivity; try assumption.
    - (* peak spread *)
      unfold peak_spread. destruct (peak_index fmin fmax (f2 s) (map Some (e_2d s))) as [i|]; [|reflexivity].
      apply (rot_spread al). apply (all4_nth _ _ _ _ _ i N0 R1).
    - (* mean spread *)
      unfold mean_spread. apply (rot_spread al). exact W1.
    - apply rot_rel_direction. exact W1.
    - apply (all4_nth _ _ _ _ _ i N0 R1).
    - apply rot_rel_direction. apply (all4_nth _ _ _ _ _ i N0 R1).
    - unfold peak_direction. rewrite H. reflexivity.
    - unfold peak_direction. rewrite H. reflexivity.
  Qed.

  (* per-frequency direction and spread *)
  Lemma rot_per_frequency : forall i,
    dir_shift al (nth i (a1_2d s) None) (nth i (b1_2d s) None) (nth i (a1_2d s') None) (nth i (b1_2d s') None) /\
    ospread (nth i (a1_2d s') None) (nth i (b1_2d s') None) = ospread (nth i (a1_2d s) None) (nth i (b1_2d s) None).
  Proof.
    intros i.
    assert (N0 : rot_rel al None None None None) by (simpl; split; reflexivity).
    assert (R := all4_nth _ _ _ _ _ i N0 rot_ab1_2d).
    split; [apply rot_rel_direction; exact R | apply (rot_spread al); exact R].
  Qed.
End Rot2d.

(* ================================================================== *)
(* whole spectra: mirror image                                          *)
(* ================================================================== *)
Lemma mirror_grid_ugrid : forall t0 dl th, ugrid t0 dl th ->
  ugrid (- t0 - (INR (length th) - 1) * dl) dl (mirror_grid th).
Proof.
  intros t0 dl th [HN Hg]. unfold mirror_grid.
  assert (L : length (rev (map Ropp th)) = length th) by (rewrite rev_length, map_length; reflexivity).
  split; [rewrite L; exact HN|].
  intros j Hj. rewrite L in Hj.
  rewrite rev_nth by (rewrite map_length; exact Hj). rewrite map_length.
  rewrite (nth_map' Ropp th _ 0 0) by lia.
  eapply cong360_trans; [apply cong360_opp; apply Hg; lia|].
  replace (length th - S j)%nat with (length th - 1 - j)%nat by lia.
  rewrite minus_INR by lia. rewrite minus_INR by lia. exists 0%Z. simpl. ring.
Qed.

Section MirrorPair.
  Variables c s : R -> R.
  Hypothesis c_even : forall t, c (- t) = c t.
  Hypothesis s_odd : forall t, s (- t) = - s t.

  Lemma mirror_numerators : forall t0 dl th E,
    ugrid t0 dl th -> -180 <= dl < 180 -> length E = length th ->
    e_row (rev E) (mirror_grid th) = e_row E th /\
    mnum c (rev E) (mirror_grid th) = mnum c E th /\
    mnum s (rev E) (mirror_grid th) = - mnum s E th.
  Proof.
    intros t0 dl th E U Hd L.
    assert (U' := mirror_grid_ugrid t0 dl th U).
    assert (D := dstep_uniform t0 dl th U Hd).
    assert (D' := dstep_uniform _ dl _ U' Hd).
    assert (LM : length (mirror_grid th) = length th) by (unfold mirror_grid; rewrite rev_length, map_length; reflexivity).
    assert (L' : length (rev E) = length (mirror_grid th)) by (rewrite rev_length, LM; exact L).
    unfold e_row, mnum. rewrite D, D'.
    rewrite (dint_uniform (rev E)) by exact L'.
    rewrite (dint_uniform E) by exact L.
    rewrite !(mnum_uniform _ (rev E) (mirror_grid th)) by exact L'.
    rewrite !(mnum_uniform _ E th) by exact L.
    split.
    { rewrite map_rev, sumR_rev. reflexivity. }
    unfold mirror_grid. rewrite !map_rev.
    rewrite !sum_map2_rev by (rewrite !map_length; exact L).
    rewrite !map_map.
    split.
    - f_equal. f_equal. f_equal. apply map_ext. intros; apply c_even.
    - replace (map (fun x => s (- x)) th) with (map2 (fun x y => 0 * x + (- 1) * y) (map c th) (map s th)).
      + rewrite sum_map2_lin by (rewrite !map_length; reflexivity). ring.
      + rewrite map2_map_same. apply map_ext. intros t. rewrite s_odd. ring.
  Qed.
End MirrorPair.

Lemma mirror_moments : forall t0 dl th E,
  ugrid t0 dl th -> -180 <= dl < 180 -> length E = length th ->
  e_row (rev E) (mirror_grid th) = e_row E th /\
  mirror_rel (a1_row E th) (b1_row E th) (a1_row (rev E) (mirror_grid th)) (b1_row (rev E) (mirror_grid th)) /\
  mirror_rel (a2_row E th) (b2_row E th) (a2_row (rev E) (mirror_grid th)) (b2_row (rev E) (mirror_grid th)).
Proof.
  intros t0 dl th E U Hd L.
  destruct (mirror_numerators cos1 sin1 cos1_opp sin1_opp t0 dl th E U Hd L) as [He [Hc1 Hs1]].
  destruct (mirror_numerators cos2 sin2 cos2_opp sin2_opp t0 dl th E U Hd L) as [_ [Hc2 Hs2]].
  split; [exact He|].
  unfold a1_row, b1_row, a2_row, b2_row, mirror_rel, odiv. rewrite He.
  destruct (Req_EM_T (e_row E th) 0) as [Z|NZ].
  - repeat split; reflexivity.
  - rewrite Hc1, Hs1, Hc2, Hs2. repeat split; f_equal; field; exact NZ.
Qed.

Section Mirror2d.
  Variable M : Type.
  Variables (t0 dl : R) (s : spec2d M).
  Hypothesis U : ugrid t0 dl (th2 s).
  Hypothesis Hd : -180 <= dl < 180.
  Hypothesis Hrows : Forall (fun row => length row = length (th2 s)) (E2 s).
  Let s' := mirror2d s.

  Lemma mirror_e_2d : e_2d s' = e_2d s.
  Proof.
    unfold s', e_2d, mirror2d. cbn [E2 th2]. rewrite map_map.
    apply map_ext_in. intros row Hin. rewrite Forall_forall in Hrows.
    apply (mirror_moments t0 dl (th2 s) row U Hd (Hrows row Hin)).
  Qed.

  Lemma mirror_ab1_2d : all4 mirror_rel (a1_2d s) (b1_2d s) (a1_2d s') (b1_2d s').
  Proof.
    unfold s', a1_2d, b1_2d, mirror2d. cbn [E2 th2].
    induction (E2 s) as [|row E IH]; [constructor|].
    inversion Hrows; subst. simpl. constructor; [|apply IH; assumption].
    apply (mirror_moments t0 dl (th2 s) row U Hd); assumption.
  Qed.

  Lemma mirror_ab2_2d : all4 mirror_rel (a2_2d s) (b2_2d s) (a2_2d s') (b2_2d s').
  Proof.
    unfold s', a2_2d, b2_2d, mirror2d. cbn [E2 th2].
    induction (E2 s) as [|row E IH]; [constructor|].
    inversion Hrows; subst. simpl. constructor; [|apply IH; assumption].
    apply (mirror_moments t0 dl (th2 s) row U Hd); assumption.
  Qed.

  Lemma mirror_bulk : forall fmin fmax,
    let B := bulk_2d s fmin fmax in
    let B' := bulk_2d s' fmin fmax in
    b_m0 B' = b_m0 B /\ b_hm0 B' = b_hm0 B /\ b_tm01 B' = b_tm01 B /\ b_tm02 B' = b_tm02 B /\
    b_peak_index B' = b_peak_index B /\ b_peak_frequency B' = b_peak_frequency B /\
    b_peak_spread B' = b_peak_spread B /\ b_mean_spread B' = b_mean_spread B /\
    mirror_rel (b_mean_a1 B) (b_mean_b1 B) (b_mean_a1 B') (b_mean_b1 B') /\
    mirror_rel (b_mean_a2 B) (b_mean_b2 B) (b_mean_a2 B') (b_mean_b2 B') /\
    dir_negated (b_mean_a1 B) (b_mean_b1 B) (b_mean_a1 B') (b_mean_b1 B') /\
    b_mean_direction B = odir (b_mean_a1 B) (b_mean_b1 B) /\
    b_mean_direction B' = odir (b_mean_a1 B') (b_mean_b1 B') /\
    (forall i, b_peak_index B = Some i ->
       dir_negated (nth i (a1_2d s) None) (nth i (b1_2d s) None) (nth i (a1_2d s') None) (nth i (b1_2d s') None) /\
       b_peak_direction B = odir (nth i (a1_2d s) None) (nth i (b1_2d s) None) /\
       b_peak_direction B' = odir (nth i (a1_2d s') None) (nth i (b1_2d s') None)).
  Proof.
    intros fmin fmax B B'.
    assert (F : f2 s' = f2 s) by reflexivity.
    assert (E := mirror_e_2d).
    assert (R1 := mirror_ab1_2d). assert (R2 := mirror_ab2_2d).
    assert (Le : length (map Some (e_2d s)) = length (a1_2d s)).
    { unfold e_2d, a1_2d. rewrite !map_length. reflexivity. }
    assert (Le2 : length (map Some (e_2d s)) = length (a2_2d s)).
    { unfold e_2d, a2_2d. rewrite !map_length. reflexivity. }
    assert (W1 := weighted_mirror fmin fmax (f2 s) (map Some (e_2d s)) _ _ _ _ R1 Le).
    assert (W2 := weighted_mirror fmin fmax (f2 s) (map Some (e_2d s)) _ _ _ _ R2 Le2).
    assert (N0 : mirror_rel None None None None) by (simpl; split; reflexivity).
    unfold B, B', bulk_2d, bulk_of. cbn [b_m0 b_hm0 b_tm01 b_tm02 b_peak_index b_peak_frequency
      b_peak_spread b_mean_spread b_mean_a1 b_mean_b1 b_mean_a2 b_mean_b2 b_mean_direction b_peak_direction].
    rewrite F, E.
    repeat split; try reflexivity; try assumption.
    - unfold peak_spread. destruct (peak_index fmin fmax (f2 s) (map Some (e_2d s))) as [i|]; [|reflexivity].
      apply mirror_spread. apply (all4_nth _ _ _ _ _ i N0 R1).
    - unfold mean_spread. apply mirror_spread. exact W1.
    - apply mirror_rel_direction. exact W1.
    - apply mirror_rel_direction. apply (all4_nth _ _ _ _ _ i N0 R1).
    - unfold peak_direction. rewrite H. reflexivity.
    - unfold peak_direction. rewrite H. reflexivity.
  Qed.
End Mirror2d.

(* batches: the parameters of one point do not depend on the other points *)
Lemma bulk_batch_independent : forall M (b : list (spec2d M)) fmin fmax i d,
  nth i (map (fun s => bulk_2d s fmin fmax) b) (bulk_2d d fmin fmax) = bulk_2d (nth i b d) fmin fmax.
Proof. intros. apply (map_nth (fun s => bulk_2d s fmin fmax)). Qed.
