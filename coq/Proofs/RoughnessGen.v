(* The closed-form functions of wavephysics/roughness.py AS REGENERATED FROM THE SOURCE on every run
   (coq/Generated/RoughnessSrc.v, harness/translate_pointwise.py, kwargs grammar) are the definitions of
   OSU.Model.Roughness that the C10 theorems are about: the Charnock relation, Wu's first guess and the drag
   coefficient of a roughness.  The fixed-point and Newton loops themselves (tools/solvers.py,
   balance/solvers.py) are not translated; they stay tied by the correspondence runs. *)
From Coq Require Import Reals Lra.
From OSU.Model Require Import Roughness.
From OSU.Generated Require Import RoughnessSrc.
Open Scope R_scope.

Lemma src_charnock : forall P us,
  charnock_roughness_length us (c_alpha P) (c_g P) (c_nu P) (c_visc P) = charnock P us.
Proof.
  intros P us. unfold charnock_roughness_length, charnock.
  replace (us ^ 2) with (us * us) by ring.
  destruct (Rgt_dec us 0); reflexivity.
Qed.

Lemma src_charnock_defaults :
  charnock_roughness_length_default_charnock_constant = 12 / 1000 /\
  charnock_roughness_length_default_viscous_constant = 0.
Proof. split; [unfold charnock_roughness_length_default_charnock_constant; lra | reflexivity]. Qed.

Lemma src_guess_wu : forall P U, roughness_wu U (c_elev P) (c_kappa P) = guess_wu P U.
Proof.
  intros P U. unfold roughness_wu, drag_coefficient_wu, guess_wu.
  replace (4 / 5) with (8 / 10) by lra. replace (13 / 200) with (65 / 1000) by lra. reflexivity.
Qed.

(* drag_coefficient(u10, z0) = (u*/u10)^2 with u* from the log law; for u10 <> 0 it is the model's
   (kappa / ln(elev/z0))^2 *)
Lemma src_drag : forall P U z, U <> 0 -> 0 < z -> ln (c_elev P / z) <> 0 ->
  drag_of_roughness P z = Some (drag_coefficient U z (c_elev P) (c_kappa P)).
Proof.
  intros P U z HU Hz Hl. unfold drag_of_roughness, drag_coefficient.
  destruct (Rle_dec z 0) as [H|H]; [lra|].
  destruct (Req_EM_T (ln (c_elev P / z)) 0) as [H0|H0]; [contradiction|].
  f_equal. field. split; assumption.
Qed.
