(* Proofs about Model/Estimators.v, part 1: validity of the distributions (C05). *)
From Coq Require Import Reals List Arith Lra Lia Bool.
From OSU.Model Require Import Estimators.
From OSU.Lib Require Import EstAuxSums.
Import ListNotations.
Open Scope R_scope.

(* ------------------------------------------------------------------ *)
(* MEM                                                                  *)
(* ------------------------------------------------------------------ *)
Lemma mem_den_nonneg : forall p q t, 0 <= mem_den p q t.
Proof.
  intros. unfold mem_den. cbv zeta.
  match goal with |- 0 <= ?a * ?a + ?b * ?b =>
    pose proof (Rle_0_sqr a); pose proof (Rle_0_sqr b); unfold Rsqr in *; lra end.
Qed.

(* what the guard of mem_point establishes *)
Lemma mem_point_some : forall th a1 b1 a2 b2 D,
  mem_point th a1 b1 a2 b2 = Some D ->
  mem_one_minus_c1sq a1 b1 <> 0 /\
  (forall t, In t th -> 0 < mem_den (mem_phi1 a1 b1 a2 b2) (mem_phi2 a1 b1 a2 b2) t) /\
  mem_norm (mem_raw th a1 b1 a2 b2) <> 0 /\
  D = map (fun x => x / mem_norm (mem_raw th a1 b1 a2 b2)) (mem_raw th a1 b1 a2 b2).
Proof.
  intros th a1 b1 a2 b2 D H. unfold mem_point in H.
  destruct (mem_guard th a1 b1 a2 b2) eqn:G; [|discriminate].
  inversion H; subst; clear H. unfold mem_guard in G.
  destruct (Req_EM_T (mem_one_minus_c1sq a1 b1) 0) as [|N1]; [discriminate|].
  destruct (existsb _ th) eqn:E; [discriminate|].
  destruct (Req_EM_T (mem_norm (mem_raw th a1 b1 a2 b2)) 0) as [|N3]; [discriminate|].
  repeat split; auto.
  intros t Ht.
  assert (Hne : mem_den (mem_phi1 a1 b1 a2 b2) (mem_phi2 a1 b1 a2 b2) t <> 0).
  { intro Z. assert (existsb (fun t0 => if Req_EM_T (mem_den (mem_phi1 a1 b1 a2 b2) (mem_phi2 a1 b1 a2 b2) t0) 0
                                       then true else false) th = true).
    { apply existsb_exists. exists t. split; auto. destruct (Req_EM_T _ 0); auto. }
    congruence. }
  pose proof (mem_den_nonneg (mem_phi1 a1 b1 a2 b2) (mem_phi2 a1 b1 a2 b2) t). lra.
Qed.

Definition mem_g (a1 b1 a2 b2 t : R) : R :=
  / mem_den (mem_phi1 a1 b1 a2 b2) (mem_phi2 a1 b1 a2 b2) t / PI / 2.

Lemma mem_raw_factor : forall th a1 b1 a2 b2,
  mem_raw th a1 b1 a2 b2 = map (fun t => mem_num a1 b1 a2 b2 * mem_g a1 b1 a2 b2 t) th.
Proof.
  intros. unfold mem_raw. cbv zeta. apply map_ext. intro t. unfold mem_g, Rdiv. ring.
Qed.

Lemma mem_g_pos : forall a1 b1 a2 b2 t,
  0 < mem_den (mem_phi1 a1 b1 a2 b2) (mem_phi2 a1 b1 a2 b2) t -> 0 < mem_g a1 b1 a2 b2 t.
Proof.
  intros. unfold mem_g, Rdiv. pose proof PI_RGT_0.
  apply Rmult_lt_0_compat; [apply Rmult_lt_0_compat|]; try (apply Rinv_0_lt_compat; lra).
Qed.

(* The MEM rows are non-negative and integrate to one in the discrete sense, whatever the sign of the
   numerator (also for unrealisable moments): it cancels in the normalisation. *)
Lemma mem_valid : forall th a1 b1 a2 b2 D,
  mem_point th a1 b1 a2 b2 = Some D ->
  Forall (fun x => 0 <= x) D /\ sumR D * (2 * PI / INR (length th)) = 1 /\ length D = length th.
Proof.
  intros th a1 b1 a2 b2 D H.
  destruct (mem_point_some _ _ _ _ _ _ H) as (N1 & Hden & N3 & HD).
  set (nu := mem_num a1 b1 a2 b2) in *.
  set (g := mem_g a1 b1 a2 b2).
  assert (Hraw : mem_raw th a1 b1 a2 b2 = map (fun t => nu * g t) th) by apply mem_raw_factor.
  assert (Hsum : sumR (mem_raw th a1 b1 a2 b2) = nu * sumR (map g th)).
  { rewrite Hraw. apply sumR_map_scal. }
  assert (Hlen : length (mem_raw th a1 b1 a2 b2) = length th).
  { rewrite Hraw. apply map_length. }
  assert (Hth : th <> []).
  { intro E. subst th. apply N3. unfold mem_norm. simpl. unfold Rdiv. ring. }
  assert (HN : 0 < INR (length th)).
  { apply lt_0_INR. destruct th; [congruence | simpl; lia]. }
  assert (HG : 0 < sumR (map g th)).
  { apply sumR_pos. { destruct th; [congruence | simpl; congruence]. }
    apply Forall_forall. intros x Hx. apply in_map_iff in Hx. destruct Hx as (t & <- & Ht).
    apply mem_g_pos. auto. }
  pose proof PI_RGT_0 as Hpi.
  assert (Hnorm : mem_norm (mem_raw th a1 b1 a2 b2) = nu * sumR (map g th) * PI * 2 / INR (length th)).
  { unfold mem_norm. rewrite Hsum, Hlen. reflexivity. }
  assert (Hnu : nu <> 0).
  { intro Z. apply N3. rewrite Hnorm, Z. unfold Rdiv. ring. }
  split; [|split].
  - subst D. apply Forall_forall. intros x Hx. apply in_map_iff in Hx. destruct Hx as (w & <- & Hw).
    rewrite Hraw in Hw. apply in_map_iff in Hw. destruct Hw as (t & <- & Ht).
    rewrite Hnorm.
    replace (nu * g t / (nu * sumR (map g th) * PI * 2 / INR (length th)))
      with (g t * INR (length th) / (sumR (map g th) * PI * 2)) by (field; repeat split; lra).
    apply Rlt_le. apply Rdiv_lt_0_compat.
    + apply Rmult_lt_0_compat; auto. apply mem_g_pos; auto.
    + apply Rmult_lt_0_compat; [apply Rmult_lt_0_compat|]; lra.
  - subst D. unfold Rdiv at 1.
    rewrite (sumR_map_scal_r (fun x => x) (/ mem_norm (mem_raw th a1 b1 a2 b2))). rewrite map_id.
    rewrite Hnorm at 1. rewrite Hsum. field. repeat split; lra.
  - subst D. rewrite map_length. exact Hlen.
Qed.

(* the guards pass on the premises of the property *)
Lemma mem_point_defined : forall th a1 b1 a2 b2,
  th <> [] -> a1 * a1 + b1 * b1 < 1 -> mem_num a1 b1 a2 b2 <> 0 ->
  (forall t, In t th -> mem_den (mem_phi1 a1 b1 a2 b2) (mem_phi2 a1 b1 a2 b2) t <> 0) ->
  exists D, mem_point th a1 b1 a2 b2 = Some D.
Proof.
  intros th a1 b1 a2 b2 Hth Hc Hnu Hden.
  unfold mem_point.
  assert (G : mem_guard th a1 b1 a2 b2 = true).
  { unfold mem_guard.
    destruct (Req_EM_T (mem_one_minus_c1sq a1 b1) 0) as [Z|_].
    { unfold mem_one_minus_c1sq in Z. lra. }
    destruct (existsb _ th) eqn:E.
    { apply existsb_exists in E. destruct E as (t & Ht & Hb).
      destruct (Req_EM_T _ 0) as [Z|]; [|discriminate]. exfalso. eapply Hden; eauto. }
    destruct (Req_EM_T (mem_norm (mem_raw th a1 b1 a2 b2)) 0) as [Z|_]; auto.
    exfalso. unfold mem_norm in Z. rewrite mem_raw_factor in Z.
    rewrite sumR_map_scal, map_length in Z.
    assert (HG : 0 < sumR (map (mem_g a1 b1 a2 b2) th)).
    { apply sumR_pos. { destruct th; [congruence | simpl; congruence]. }
      apply Forall_forall. intros x Hx. apply in_map_iff in Hx. destruct Hx as (t & <- & Ht).
      apply mem_g_pos. pose proof (mem_den_nonneg (mem_phi1 a1 b1 a2 b2) (mem_phi2 a1 b1 a2 b2) t).
      specialize (Hden t Ht). lra. }
    assert (HN : 0 < INR (length th)).
    { apply lt_0_INR. destruct th; [congruence | simpl; lia]. }
    pose proof PI_RGT_0.
    assert (P : 0 < sumR (map (mem_g a1 b1 a2 b2) th) * PI * 2 / INR (length th)).
    { apply Rdiv_lt_0_compat; auto. apply Rmult_lt_0_compat; [apply Rmult_lt_0_compat|]; lra. }
    replace (mem_num a1 b1 a2 b2 * sumR (map (mem_g a1 b1 a2 b2) th) * PI * 2 / INR (length th))
      with (mem_num a1 b1 a2 b2 * (sumR (map (mem_g a1 b1 a2 b2) th) * PI * 2 / INR (length th))) in Z
      by (unfold Rdiv; ring).
    apply Rmult_integral in Z. destruct Z; [contradiction | lra]. }
  rewrite G. eexists; reflexivity.
Qed.

(* in the units returned by estimate_directional_distribution (per degree), on N directions *)
Lemma mem_estimate_valid : forall dirs a1 b1 a2 b2 D,
  estimate_entry VMem dirs (Some a1) (Some b1) (Some a2) (Some b2) = EDist D ->
  dirs <> [] ->
  mem_guard (to_rad dirs) a1 b1 a2 b2 = true ->
  exists xs, D = map Some xs /\ Forall (fun x => 0 <= x) xs /\
             sumR xs * (360 / INR (length dirs)) = 1 /\ length xs = length dirs.
Proof.
  intros dirs a1 b1 a2 b2 D H Hne G.
  assert (HN : 0 < INR (length dirs)).
  { apply lt_0_INR. destruct dirs; [congruence | simpl; lia]. }
  unfold estimate_entry in H. simpl in H.
  destruct (mem_point (to_rad dirs) a1 b1 a2 b2) as [D0|] eqn:E.
  2:{ unfold mem_point in E. rewrite G in E. discriminate. }
  inversion H; subst; clear H.
  destruct (mem_valid _ _ _ _ _ _ E) as (Hpos & Hsum & Hlen).
  unfold to_rad in Hlen, Hsum. rewrite map_length in Hlen, Hsum.
  exists (map (fun x => x * jac_deg) D0). split; [|split; [|split]].
  - rewrite map_map. reflexivity.
  - apply Forall_forall. intros x Hx. apply in_map_iff in Hx. destruct Hx as (y & <- & Hy).
    rewrite Forall_forall in Hpos. specialize (Hpos y Hy). unfold jac_deg.
    pose proof PI_RGT_0. apply Rmult_le_pos; auto. apply Rlt_le. apply Rdiv_lt_0_compat; lra.
  - rewrite sumR_map_scal_r, map_id. unfold jac_deg.
    replace (sumR D0 * (PI / 180) * (360 / INR (length dirs)))
      with (sumR D0 * (2 * PI / INR (length dirs))) by (field; lra).
    exact Hsum.
  - rewrite map_length. auto.
Qed.

(* ------------------------------------------------------------------ *)
(* MEM2: exp(-(lambda.T - min)) / normalisation is a distribution for EVERY lambda *)
(* ------------------------------------------------------------------ *)
Lemma shape_length : forall l th, length (shape l th) = length th.
Proof. intros. unfold shape, shifted. rewrite !map_length. reflexivity. Qed.

Lemma shape_pos : forall l th, Forall (fun x => 0 < x) (shape l th).
Proof.
  intros. unfold shape. apply Forall_forall. intros x Hx.
  apply in_map_iff in Hx. destruct Hx as (y & <- & _). apply exp_pos.
Qed.

Lemma wsum_scal_r : forall f c d, wsum (map (fun e => e * c) f) d = wsum f d * c.
Proof.
  induction f; intros; simpl; [unfold wsum; simpl; lra|].
  destruct d; [unfold wsum; simpl; lra|]. rewrite !wsum_cons, IHf. lra.
Qed.

Lemma shape_wsum_pos : forall l d th,
  th <> [] -> length d = length th -> Forall (fun x => 0 < x) d -> 0 < wsum (shape l th) d.
Proof.
  intros. apply wsum_pos; auto.
  - intro E. apply (f_equal (@length R)) in E. rewrite shape_length in E. destruct th; simpl in *; congruence.
  - rewrite shape_length; auto.
  - apply shape_pos.
Qed.

Lemma mem2_dist_valid : forall l d th,
  th <> [] -> length d = length th -> Forall (fun x => 0 < x) d ->
  Forall (fun x => 0 < x) (dist l d th) /\ wsum (dist l d th) d = 1 /\ length (dist l d th) = length th.
Proof.
  intros l d th Hth Hl Hd.
  pose proof (shape_wsum_pos l d th Hth Hl Hd) as HZ.
  unfold dist, normalization. cbv zeta. split; [|split].
  - apply Forall_forall. intros x Hx. apply in_map_iff in Hx. destruct Hx as (e & <- & He).
    pose proof (shape_pos l th) as Hp. rewrite Forall_forall in Hp. specialize (Hp e He).
    apply Rmult_lt_0_compat; auto. apply Rdiv_lt_0_compat; lra.
  - rewrite wsum_scal_r. field. lra.
  - rewrite map_length. apply shape_length.
Qed.

(* the one documented exception: a NaN in the first guess gives the all-zero row *)
Lemma nan_guess_zero : forall approx mo d th,
  newton_solver approx mo None d th = Dist (map (fun _ => 0) d) None.
Proof. reflexivity. Qed.

(* every distribution the modelled solver returns for a finite guess is dist(lambda) for some lambda,
   whatever the status of the iteration (converged, max_iter, failed line search) *)
Lemma newton_solver_is_dist : forall approx mo g d th D st,
  newton_solver approx mo (Some g) d th = Dist D st -> exists l, D = dist l d th.
Proof.
  intros approx mo g d th D st H. unfold newton_solver in H.
  destruct approx.
  - inversion H. eexists; reflexivity.
  - destruct (newton_status _); inversion H; eexists; reflexivity.
Qed.

Lemma newton_solver_valid : forall approx mo g d th D st,
  th <> [] -> length d = length th -> Forall (fun x => 0 < x) d ->
  newton_solver approx mo (Some g) d th = Dist D st ->
  Forall (fun x => 0 < x) D /\ wsum D d = 1 /\ length D = length th.
Proof.
  intros. destruct (newton_solver_is_dist _ _ _ _ _ _ _ H2) as (l & ->).
  apply mem2_dist_valid; auto.
Qed.

Lemma incr_ok_pos : forall d, incr_ok d = true -> Forall (fun x => 0 < x) d.
Proof.
  intros d H. unfold incr_ok in H. rewrite forallb_forall in H.
  apply Forall_forall. intros x Hx. specialize (H x Hx). destruct (Rlt_dec 0 x); [auto | discriminate].
Qed.

Lemma incr_newton_length : forall th, length (incr_newton th) = length th.
Proof. intros. unfold incr_newton. rewrite map_length, seq_length. reflexivity. Qed.

(* estimate_directional_distribution with method mem2 (newton / approximate), finite moments:
   the returned row (per degree) is positive and integrates to one against the increments in degrees *)
Opaque newton_solver.
Lemma mem2_estimate_valid : forall v dirs a1 b1 a2 b2 D,
  v <> VMem -> dirs <> [] ->
  estimate_entry v dirs (Some a1) (Some b1) (Some a2) (Some b2) = EDist D ->
  exists xs, D = map Some xs /\ Forall (fun x => 0 < x) xs /\
             wsum xs (map (fun w => w / jac_deg) (incr_newton (to_rad dirs))) = 1 /\
             length xs = length dirs.
Proof.
  intros v dirs a1 b1 a2 b2 D Hv Hd H.
  assert (Hj : 0 < jac_deg). { unfold jac_deg. pose proof PI_RGT_0. apply Rdiv_lt_0_compat; lra. }
  unfold estimate_entry in H.
  destruct v; [congruence| |];
  (destruct (incr_ok (incr_newton (to_rad dirs))) eqn:OK; [|discriminate];
   simpl in H;
   match type of H with match ?s with _ => _ end = _ => destruct s as [D0 st| |] eqn:E end; try discriminate;
   inversion H; subst; clear H;
   assert (Hth : to_rad dirs <> []) by (unfold to_rad; destruct dirs; [congruence | simpl; congruence]);
   destruct (newton_solver_valid _ _ _ _ _ _ _ Hth (incr_newton_length _) (incr_ok_pos _ OK) E) as (Hp & Hs & Hl);
   exists (map (fun x => x * jac_deg) D0); split; [rewrite map_map; reflexivity|]; split;
   [ apply Forall_forall; intros x Hx; apply in_map_iff in Hx; destruct Hx as (y & <- & Hy);
     rewrite Forall_forall in Hp; specialize (Hp y Hy); apply Rmult_lt_0_compat; auto
   | split;
     [ rewrite <- Hs; unfold wsum; clear - Hj; generalize (incr_newton (to_rad dirs)) as d;
       induction D0; intros d; destruct d; simpl; auto; rewrite IHD0; field; lra
     | rewrite map_length, Hl; unfold to_rad; apply map_length ] ]).
Qed.

Transparent newton_solver.

(* NaN moments: MEM2 gives zeros, MEM gives NaN *)
Lemma map_const_eq : forall {A B C} (c : C) (l1 : list A) (l2 : list B),
  length l1 = length l2 -> map (fun _ => c) l1 = map (fun _ => c) l2.
Proof.
  induction l1; destruct l2; simpl; intros; try discriminate; auto. f_equal. apply IHl1. lia.
Qed.

Lemma estimate_nan_moments : forall v dirs a1 b1 a2 b2,
  all_some4 a1 b1 a2 b2 = None ->
  incr_ok (incr_newton (to_rad dirs)) = true ->
  estimate_entry v dirs a1 b1 a2 b2 =
    match v with
    | VMem => EDist (map (fun _ => None) dirs)
    | _ => EDist (map (fun _ => Some 0) dirs)
    end.
Proof.
  intros v dirs a1 b1 a2 b2 H OK. unfold estimate_entry. rewrite H.
  destruct v.
  - unfold to_rad. rewrite map_map. reflexivity.
  - rewrite OK. simpl. rewrite map_map. rewrite Rmult_0_l.
    f_equal. apply map_const_eq. rewrite incr_newton_length. unfold to_rad. apply map_length.
  - rewrite OK. simpl. rewrite map_map. rewrite Rmult_0_l.
    f_equal. apply map_const_eq. rewrite incr_newton_length. unfold to_rad. apply map_length.
Qed.

(* ------------------------------------------------------------------ *)
(* energy round trip, batch independence, metadata                      *)
(* ------------------------------------------------------------------ *)
Lemma energy_roundtrip_row : forall step row e, wsum row step = 1 -> dint step (map (fun x => x * e) row) = e.
Proof. intros. unfold dint. rewrite wsum_scal_r, H. lra. Qed.

Lemma energy_roundtrip : forall step e D,
  length e = length D -> Forall (fun row => wsum row step = 1) D ->
  map (dint step) (to_2d e D) = e.
Proof.
  intros step e. induction e; intros D Hl HD; destruct D; simpl in *; try discriminate; auto.
  inversion HD; subst. f_equal.
  - apply energy_roundtrip_row; auto.
  - apply IHe; auto.
Qed.

Lemma variance_preserved : forall f step e D,
  length e = length D -> Forall (fun row => wsum row step = 1) D ->
  trapz f (map (dint step) (to_2d e D)) = trapz f e.
Proof. intros. rewrite energy_roundtrip; auto. Qed.

Lemma to_2d_nonneg : forall e D,
  Forall (fun x => 0 <= x) e -> Forall (Forall (fun x => 0 <= x)) D ->
  Forall (Forall (fun x => 0 <= x)) (to_2d e D).
Proof.
  intros e. induction e as [|ei e IH]; intros D He HD; destruct D as [|row D]; simpl; try constructor.
  - apply Forall_inv in He. apply Forall_inv in HD.
    apply Forall_forall. intros x Hx.
    apply in_map_iff in Hx. destruct Hx as (y & <- & Hy).
    rewrite Forall_forall in HD. apply Rmult_le_pos; auto.
  - apply Forall_inv_tail in He. apply Forall_inv_tail in HD. apply IH; auto.
Qed.

Lemma to_2d_length : forall e D, length (to_2d e D) = Nat.min (length e) (length D).
Proof. intros. unfold to_2d. apply map2_length. Qed.

Lemma step360_sum : forall n, (0 < n)%nat -> sumR (step360 n) = 360.
Proof.
  intros. unfold step360. rewrite sumR_map_const, seq_length. field.
  apply not_0_INR. lia.
Qed.

Lemma estimate_batch_independent : forall v dirs b i dflt,
  (i < length b)%nat ->
  nth i (estimate_batch v dirs b) dflt =
  (let '(a1, b1, a2, b2) := nth i b (None, None, None, None) in estimate_entry v dirs a1 b1 a2 b2).
Proof.
  intros. unfold estimate_batch.
  set (F := fun q : option R * option R * option R * option R =>
              let '(a1, b1, a2, b2) := q in estimate_entry v dirs a1 b1 a2 b2).
  rewrite (nth_indep (map F b) dflt (F (None, None, None, None))) by (rewrite map_length; auto).
  rewrite (map_nth F). reflexivity.
Qed.

Lemma estimate_batch_length : forall v dirs b, length (estimate_batch v dirs b) = length b.
Proof. intros. apply map_length. Qed.

(* the result for one entry does not depend on the rest of the batch: same entry alone = same entry in any batch *)
Lemma estimate_batch_single : forall v dirs b i q,
  nth_error b i = Some q ->
  nth_error (estimate_batch v dirs b) i = nth_error (estimate_batch v dirs [q]) 0.
Proof.
  intros. unfold estimate_batch. rewrite nth_error_map, H. reflexivity.
Qed.

(* every non-spectral variable (time, latitude, longitude, depth, ...) is carried over unchanged;
   the spectral ones are replaced by the single 2D density *)
Lemma meta_carried : forall {P} (vars : list (vname * P)) e2d k p,
  In (NOther k, p) vars <-> In (NOther k, p) (carry_vars vars e2d).
Proof.
  intros. unfold carry_vars. split; intro H.
  - right. apply filter_In. split; auto.
  - destruct H as [H|H]; [discriminate|]. apply filter_In in H. tauto.
Qed.

Lemma meta_only_density : forall {P} (vars : list (vname * P)) e2d n p,
  In (n, p) (carry_vars vars e2d) -> is_spectral n = true -> n = NE /\ p = e2d.
Proof.
  intros P vars e2d n p H S. destruct H as [H|H].
  - inversion H; auto.
  - apply filter_In in H. destruct H as [_ H]. simpl in H. rewrite S in H. discriminate.
Qed.

(* ------------------------------------------------------------------ *)
(* Newton iteration: status Converged => residual below atol (C06)      *)
(* ------------------------------------------------------------------ *)
Lemma linesearch_ok : forall depth cur upd mo d th fac magF magCur magUpd lg nxt nf lg',
  linesearch depth cur upd mo d th fac magF magCur magUpd lg = (LSok nxt nf, lg') ->
  nf = constraints nxt mo d th /\ norm4 nf < magF.
Proof.
  induction depth; intros; simpl in H; [discriminate|].
  destruct (Rlt_dec _ magF).
  - inversion H; subst. auto.
  - destruct (Req_EM_T magUpd 0); [discriminate|]. eapply IHdepth; eauto.
Qed.

Lemma newton_loop_converged : forall fuel depth atol cur F mo d th lg it st l lg' it',
  F = constraints cur mo d th ->
  newton_loop fuel depth atol cur F mo d th lg it = (st, l, lg', it') ->
  st = Converged -> norm4 (constraints l mo d th) < atol.
Proof.
  induction fuel; intros depth atol cur F mo d th lg it st l lg' it' HF H Hst; simpl in H.
  - inversion H; subst. discriminate.
  - destruct (Rlt_dec (norm4 F) atol).
    + inversion H; subst. auto.
    + destruct (chol_solve (jacobian cur d th) (neg4 F)) as [sol plg].
      destruct sol as [upd|]; [|inversion H; subst; discriminate].
      destruct (linesearch depth cur upd mo d th 1 (norm4 F) (norm4 cur) (norm4 upd) _) as [r lg3] eqn:LS.
      destruct r as [nxt nf| |].
      * apply linesearch_ok in LS. destruct LS as [Hnf _].
        eapply IHfuel; eauto.
      * inversion H; subst; discriminate.
      * inversion H; subst; discriminate.
Qed.

Lemma newton_converged_residual : forall max_iter depth atol mo g d th,
  newton_status (newton max_iter depth atol mo g d th) = Converged ->
  norm4 (constraints (newton_iterate (newton max_iter depth atol mo g d th)) mo d th) < atol.
Proof.
  intros. unfold newton in *.
  destruct (newton_loop max_iter depth atol g (constraints g mo d th) mo d th [] 0) as [[[st l] lg'] it'] eqn:E.
  unfold newton_status, newton_iterate in *. simpl in *.
  eapply newton_loop_converged; eauto.
Qed.

(* the residual is the distance between the wanted moments and the moments of the returned distribution *)
Lemma constraints_are_moment_errors : forall l mo d th m,
  get4 (constraints l mo d th) m = get4 mo m - moment_of (match m with O => 0 | 1 => 1 | 2 => 2 | _ => 3 end)%nat (dist l d th) d th.
Proof. intros. destruct m as [|[|[|m]]]; reflexivity. Qed.

(* each accepted Newton update strictly decreases the residual norm *)
Lemma newton_loop_monotone : forall fuel depth atol cur F mo d th lg it st l lg' it',
  F = constraints cur mo d th ->
  newton_loop fuel depth atol cur F mo d th lg it = (st, l, lg', it') ->
  norm4 (constraints l mo d th) <= norm4 F.
Proof.
  induction fuel; intros depth atol cur F mo d th lg it st l lg' it' HF H; simpl in H.
  - inversion H; subst. lra.
  - destruct (Rlt_dec (norm4 F) atol).
    + inversion H; subst. lra.
    + destruct (chol_solve (jacobian cur d th) (neg4 F)) as [sol plg].
      destruct sol as [upd|]; [|inversion H; subst; lra].
      destruct (linesearch depth cur upd mo d th 1 (norm4 F) (norm4 cur) (norm4 upd) _) as [r lg3] eqn:LS.
      destruct r as [nxt nf| |].
      * apply linesearch_ok in LS. destruct LS as [Hnf Hlt].
        specialize (IHfuel _ _ _ _ _ _ _ _ _ _ _ _ _ Hnf H). lra.
      * inversion H; subst; lra.
      * inversion H; subst; lra.
Qed.

Lemma newton_residual_monotone : forall max_iter depth atol mo g d th,
  norm4 (constraints (newton_iterate (newton max_iter depth atol mo g d th)) mo d th)
  <= norm4 (constraints g mo d th).
Proof.
  intros. unfold newton.
  destruct (newton_loop max_iter depth atol g (constraints g mo d th) mo d th [] 0) as [[[st l] lg'] it'] eqn:E.
  unfold newton_iterate. simpl.
  eapply newton_loop_monotone; eauto.
Qed.
