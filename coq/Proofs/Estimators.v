From Coq Require Import Reals List Arith Lra Lia.
From OSU.Model Require Import Estimators.
Import ListNotations.
Open Scope R_scope.

Lemma to_2d_length : forall e D, length (to_2d e D) = Nat.min (length e) (length D).
Proof.
  unfold to_2d. induction e; destruct D; simpl; auto.
Qed.
