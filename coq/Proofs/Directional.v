(* Proofs about Model/Directional.v (C02). *)
From Coq Require Import Reals Lra Lia List Arith.
From OSU.Lib Require Import Cyclic Fmod.
From OSU.Model Require Import Directional.
Import ListNotations.
Open Scope R_scope.

(* ================================================================== *)
(* direction_step                                                       *)
(* ================================================================== *)

Lemma diff_append_length : forall l first, length (diff_append first l) = length l.
Proof.
  induction l as [|x tl IH]; intros first; [reflexivity|].
  destruct tl as [|y tl']; [reflexivity|].
  change (diff_append first (x :: y :: tl')) with ((y - x) :: diff_append first (y :: tl')).
  cbn [length]. f_equal. apply IH.
Qed.

Lemma rawdiff_length : forall th, length (rawdiff th) = length th.
Proof. intros [|t0 tl]; [reflexivity | apply diff_append_length]. Qed.

Lemma dstep_length : forall th, length (dstep th) = length th.
Proof. intros; unfold dstep; rewrite map_length; apply rawdiff_length. Qed.

(* telescoping *)
Lemma diff_append_sum : forall l first x0, sumR (diff_append first (x0 :: l)) = first - x0.
Proof.
  induction l as [|y tl IH]; intros first x0.
  - simpl. ring.
  - change (diff_append first (x0 :: y :: tl)) with ((y - x0) :: diff_append first (y :: tl)).
    cbn [sumR fold_right]. fold (sumR (diff_append first (y :: tl))). rewrite IH. ring.
Qed.

Lemma cyc_gaps_sum : forall phi, phi <> [] -> sumR (cyc_gaps phi) = 360.
Proof.
  intros [|p0 tl] H; [congruence|]. unfold cyc_gaps. rewrite diff_append_sum. ring.
Qed.

Lemma diff_append_cong : forall l l' a a',
  Forall2 cong360 l l' -> cong360 a a' ->
  Forall2 cong360 (diff_append a l) (diff_append a' l').
Proof.
  intros l l' a a' H. revert a a'. induction H as [|x x' tl tl' Hx Ht IH]; intros a a' Ha.
  - constructor.
  - destruct Ht as [|y y' tl2 tl2' Hy Ht2].
    + simpl. constructor; [apply cong360_minus; assumption | constructor].
    + change (diff_append a (x :: y :: tl2)) with ((y - x) :: diff_append a (y :: tl2)).
      change (diff_append a' (x' :: y' :: tl2')) with ((y' - x') :: diff_append a' (y' :: tl2')).
      constructor; [apply cong360_minus; assumption | apply IH; exact Ha].
Qed.

Lemma rawdiff_cong_gaps : forall th phi,
  Forall2 cong360 th phi -> Forall2 cong360 (rawdiff th) (cyc_gaps phi).
Proof.
  intros th phi H. destruct H as [|x x' tl tl' Hx Ht]; [constructor|].
  unfold rawdiff, cyc_gaps. apply diff_append_cong.
  - constructor; assumption.
  - destruct Hx as [m Hm]. exists (m - 1)%Z. rewrite minus_IZR. simpl. lra.
Qed.

Lemma wrap_all : forall raw g,
  Forall2 cong360 raw g -> Forall (fun v => -180 <= v < 180) g -> map wrap360 raw = g.
Proof.
  intros raw g H. induction H as [|x y l l' Hxy Hl IH]; intros Hg; [reflexivity|].
  inversion Hg; subst. simpl. f_equal; [apply wrap360_unique; assumption | apply IH; assumption].
Qed.

(* "covers the circle": the grid is congruent to a reference grid whose cyclic gaps all lie
   in (0,180).  Then every step is its gap, the steps are positive and sum to 360. *)
Lemma dstep_sum_360 : forall th phi,
  phi <> [] -> Forall2 cong360 th phi ->
  Forall (fun g => 0 < g < 180) (cyc_gaps phi) ->
  dstep th = cyc_gaps phi /\ sumR (dstep th) = 360 /\ Forall (fun s => 0 < s) (dstep th).
Proof.
  intros th phi Hne Hc Hg.
  assert (E : dstep th = cyc_gaps phi).
  { unfold dstep. apply wrap_all; [apply rawdiff_cong_gaps; exact Hc|].
    eapply Forall_impl; [|exact Hg]. simpl; intros; lra. }
  split; [exact E|]. split.
  - rewrite E. apply cyc_gaps_sum; exact Hne.
  - rewrite E. eapply Forall_impl; [|exact Hg]. simpl; intros; lra.
Qed.

(* an increasing grid inside one turn is its own reference *)
Lemma dstep_sum_360_sorted : forall th,
  th <> [] -> Forall (fun g => 0 < g < 180) (cyc_gaps th) ->
  dstep th = cyc_gaps th /\ sumR (dstep th) = 360.
Proof.
  intros th H G.
  assert (R : Forall2 cong360 th th).
  { clear. induction th; constructor; [apply cong360_refl | assumption]. }
  destruct (dstep_sum_360 th th H R G) as [A [B _]]. split; assumption.
Qed.

(* ---------------- uniform grids ---------------- *)
Lemma nth_diff_append : forall l first j, (j < length l)%nat ->
  nth j (diff_append first l) 0
  = (if (S j <? length l)%nat then nth (S j) l 0 else first) - nth j l 0.
Proof.
  induction l as [|x tl IH]; intros first j Hj; [simpl in Hj; lia|].
  destruct tl as [|y tl'].
  - simpl in Hj. assert (j = 0)%nat by lia. subst. reflexivity.
  - change (diff_append first (x :: y :: tl')) with ((y - x) :: diff_append first (y :: tl')).
    destruct j as [|j'].
    + reflexivity.
    + cbn [nth]. rewrite IH by (simpl in *; lia).
      cbn [length]. destruct (Nat.ltb_spec (S j') (S (length tl'))); destruct (Nat.ltb_spec (S (S j')) (S (S (length tl')))); try lia; reflexivity.
Qed.

Lemma dstep_uniform : forall t0 dl th,
  ugrid t0 dl th -> -180 <= dl < 180 -> dstep th = repeat dl (length th).
Proof.
  intros t0 dl th [HN Hg] Hd.
  apply (nth_ext _ _ 0 0).
  - rewrite dstep_length, repeat_length. reflexivity.
  - intros j Hj. rewrite dstep_length in Hj.
    rewrite (nth_indep (repeat dl (length th)) 0 dl) by (rewrite repeat_length; exact Hj).
    rewrite nth_repeat.
    unfold dstep. rewrite (nth_indep _ 0 (wrap360 0)) by (rewrite map_length, rawdiff_length; exact Hj).
    rewrite map_nth.
    apply wrap360_unique; [|exact Hd].
    destruct th as [|x0 tl]; [simpl in Hj; lia|].
    unfold rawdiff. rewrite nth_diff_append by exact Hj.
    destruct (Nat.ltb_spec (S j) (length (x0 :: tl))) as [L|L].
    + eapply cong360_trans; [apply cong360_minus; [apply (Hg (S j) L) | apply (Hg j Hj)]|].
      rewrite S_INR. exists 0%Z. simpl. ring.
    + assert (E : S j = length (x0 :: tl)) by lia.
      assert (H0 : cong360 x0 (t0 + INR 0 * dl)) by (apply (Hg 0%nat); simpl; lia).
      eapply cong360_trans; [apply cong360_minus; [exact H0 | apply (Hg j Hj)]|].
      rewrite <- E, S_INR in HN. exists (-1)%Z. simpl. lra.
Qed.

Lemma dstep_uniform_sum : forall t0 dl th,
  ugrid t0 dl th -> -180 <= dl < 180 -> sumR (dstep th) = 360.
Proof.
  intros t0 dl th U Hd. rewrite (dstep_uniform t0 dl th U Hd), sumR_repeat. apply U.
Qed.

Lemma nth_map' : forall {A B} (g : A -> B) l j d d', (j < length l)%nat ->
  nth j (map g l) d = g (nth j l d').
Proof.
  intros A B g l j d d' H. rewrite (nth_indep _ d (g d')) by (rewrite map_length; exact H). apply map_nth.
Qed.

(* an exactly uniform grid with N >= 3 bins is a ugrid with step 360/N in (0,180) *)
Lemma uniform_is_ugrid : forall t0 N,
  (3 <= N)%nat ->
  let dl := 360 / INR N in
  let th := map (fun j => t0 + INR j * dl) (seq 0 N) in
  ugrid t0 dl th /\ 0 < dl < 180.
Proof.
  intros t0 N HN dl th.
  assert (P : 3 <= INR N) by (replace 3 with (INR 3) by (simpl; ring); apply le_INR; exact HN).
  assert (L : length th = N) by (unfold th; rewrite map_length, seq_length; reflexivity).
  split; [split|].
  - rewrite L. unfold dl. field. lra.
  - intros j Hj. rewrite L in Hj. unfold th.
    rewrite (nth_map' _ _ j 0 0%nat) by (rewrite seq_length; exact Hj).
    rewrite seq_nth by exact Hj. simpl plus. apply cong360_refl.
  - unfold dl. split.
    + apply Rdiv_lt_0_compat; lra.
    + apply (Rmult_lt_reg_r (INR N)); [lra|]. replace (360 / INR N * INR N) with 360 by (field; lra). lra.
Qed.

(* ================================================================== *)
(* e, a1, b1, a2, b2 are the weighted sums of the definition            *)
(* ================================================================== *)

Lemma wterm_fill0 : forall g s, wterm g s = fill0 g * s.
Proof. intros [v|] s; simpl; ring. Qed.

Lemma e_is_weighted_sum : forall E th,
  e_row E th = sumR (map2 (fun g s => fill0 g * s) E (dstep th)).
Proof.
  intros. unfold e_row, dint. f_equal. apply map2_ext. apply wterm_fill0.
Qed.

(* the weights of the quadrature and the moment numerators as sums against them *)
Definition weights (E : list (option R)) (st : list R) : list R := map2 wterm E st.

Lemma dint_omul : forall (c : R -> R) E th st,
  dint (map2 omul E (map c th)) st = sumR (map2 Rmult (weights E st) (map c th)).
Proof.
  intros c E. unfold dint, weights.
  induction E as [|g E IH]; intros th st; [reflexivity|].
  destruct th as [|t th]; [destruct st; reflexivity|].
  destruct st as [|s st]; [reflexivity|].
  cbn [map map2 sumR fold_right].
  fold (sumR (map2 wterm (map2 omul E (map c th)) st)).
  fold (sumR (map2 Rmult (map2 wterm E st) (map c th))).
  rewrite IH. destruct g; simpl; ring.
Qed.

Lemma mnum_is_weighted_sum : forall c E th,
  mnum c E th = sumR (map2 Rmult (map2 (fun g s => fill0 g * s) E (dstep th)) (map c th)).
Proof.
  intros. unfold mnum. rewrite dint_omul. unfold weights. f_equal. f_equal.
  apply map2_ext. apply wterm_fill0.
Qed.

Lemma moments_are_ratios : forall E th, e_row E th <> 0 ->
  a1_row E th = Some (mnum cos1 E th / e_row E th) /\
  b1_row E th = Some (mnum sin1 E th / e_row E th) /\
  a2_row E th = Some (mnum cos2 E th / e_row E th) /\
  b2_row E th = Some (mnum sin2 E th / e_row E th).
Proof.
  intros E th H. unfold a1_row, b1_row, a2_row, b2_row, odiv.
  destruct (Req_EM_T (e_row E th) 0); [contradiction|]. repeat split; reflexivity.
Qed.

Lemma moments_nan_when_no_energy : forall E th, e_row E th = 0 ->
  a1_row E th = None /\ b1_row E th = None /\ a2_row E th = None /\ b2_row E th = None.
Proof.
  intros E th H. unfold a1_row, b1_row, a2_row, b2_row, odiv.
  destruct (Req_EM_T (e_row E th) 0); [|contradiction]. repeat split; reflexivity.
Qed.

(* ================================================================== *)
(* bounds: weighted Cauchy-Schwarz on the unit circle                   *)
(* ================================================================== *)

Lemma le_of_sqr_le : forall x p, 0 <= p -> x * x <= p * p -> x <= p.
Proof.
  intros x p Hp H. destruct (Rle_lt_dec x p) as [L|L]; [exact L|].
  exfalso.
  assert (0 < (x - p) * (x + p)) by (apply Rmult_lt_0_compat; lra).
  replace ((x - p) * (x + p)) with (x * x - p * p) in * by ring. lra.
Qed.

(* sum w c , sum w s against sum w, for unit vectors (c_j, s_j) and weights w_j >= 0 *)
Lemma unit_circle_cs : forall (w c s : list R),
  length w = length c -> length w = length s ->
  (forall x, In x w -> 0 <= x) ->
  (forall j, (j < length w)%nat -> nth j c 0 * nth j c 0 + nth j s 0 * nth j s 0 = 1) ->
  let A := sumR (map2 Rmult w c) in
  let B := sumR (map2 Rmult w s) in
  let P := sumR w in
  0 <= P /\ A * A + B * B <= P * P.
Proof.
  induction w as [|w0 w IH]; intros c s Lc Ls Hw Hu; cbn zeta.
  - simpl. lra.
  - destruct c as [|c0 c]; [discriminate|]. destruct s as [|s0 s]; [discriminate|].
    cbn [map2 sumR fold_right].
    fold (sumR (map2 Rmult w c)). fold (sumR (map2 Rmult w s)). fold (sumR w).
    assert (Hw0 : 0 <= w0) by (apply Hw; left; reflexivity).
    assert (U0 : c0 * c0 + s0 * s0 = 1) by (apply (Hu 0%nat); simpl; lia).
    destruct (IH c s) as [HP HI].
    { simpl in Lc; lia. } { simpl in Ls; lia. }
    { intros; apply Hw; right; assumption. }
    { intros j Hj. apply (Hu (S j)). simpl; lia. }
    set (A := sumR (map2 Rmult w c)) in *. set (B := sumR (map2 Rmult w s)) in *.
    set (P := sumR w) in *.
    split; [lra|].
    (* c0*A + s0*B <= P *)
    assert (K : c0 * A + s0 * B <= P).
    { apply le_of_sqr_le; [exact HP|].
      assert (Q : 0 <= (c0 * B - s0 * A) * (c0 * B - s0 * A)) by apply Rle_0_sqr.
      replace ((c0 * A + s0 * B) * (c0 * A + s0 * B))
        with ((c0 * c0 + s0 * s0) * (A * A + B * B) - (c0 * B - s0 * A) * (c0 * B - s0 * A)) by ring.
      rewrite U0. lra. }
    assert (K2 : w0 * (c0 * A + s0 * B) <= w0 * P) by (apply Rmult_le_compat_l; assumption).
    replace ((w0 * c0 + A) * (w0 * c0 + A) + (w0 * s0 + B) * (w0 * s0 + B))
      with (w0 * w0 * (c0 * c0 + s0 * s0) + 2 * (w0 * (c0 * A + s0 * B)) + (A * A + B * B)) by ring.
    rewrite U0.
    replace ((w0 + P) * (w0 + P)) with (w0 * w0 * 1 + 2 * (w0 * P) + P * P) by ring.
    lra.
Qed.

Lemma weights_nonneg : forall E st,
  (forall v, In (Some v) E -> 0 <= v) -> (forall s, In s st -> 0 <= s) ->
  forall x, In x (weights E st) -> 0 <= x.
Proof.
  unfold weights. induction E as [|g E IH]; intros st HE Hs x Hx; [destruct Hx|].
  destruct st as [|s st]; [destruct Hx|].
  destruct Hx as [Hx|Hx].
  - subst x. destruct g as [v|]; simpl; [|lra].
    apply Rmult_le_pos; [apply HE; left; reflexivity | apply Hs; left; reflexivity].
  - apply (IH st); [intros; apply HE; right; assumption | intros; apply Hs; right; assumption | exact Hx].
Qed.

Lemma ratio_bounds : forall A B P, 0 < P -> A * A + B * B <= P * P ->
  (A / P) * (A / P) + (B / P) * (B / P) <= 1 /\ Rabs (A / P) <= 1 /\ Rabs (B / P) <= 1.
Proof.
  intros A B P HP H.
  assert (S : (A / P) * (A / P) + (B / P) * (B / P) <= 1).
  { replace ((A / P) * (A / P) + (B / P) * (B / P)) with ((A * A + B * B) / (P * P)) by (field; lra).
    apply (Rmult_le_reg_r (P * P)); [apply Rmult_lt_0_compat; lra|].
    replace ((A * A + B * B) / (P * P) * (P * P)) with (A * A + B * B) by (field; lra). lra. }
  assert (Sa : 0 <= (A / P) * (A / P)) by apply Rle_0_sqr.
  assert (Sb : 0 <= (B / P) * (B / P)) by apply Rle_0_sqr.
  split; [exact S|].
  split; apply le_of_sqr_le; try lra.
  - rewrite <- Rabs_mult. rewrite Rabs_right by lra. lra.
  - rewrite <- Rabs_mult. rewrite Rabs_right by lra. lra.
Qed.

Lemma cos1_sin1_unit : forall t, cos1 t * cos1 t + sin1 t * sin1 t = 1.
Proof. intros t. unfold cos1, sin1. assert (H := sin2_cos2 (rad t)). unfold Rsqr in H. lra. Qed.
Lemma cos2_sin2_unit : forall t, cos2 t * cos2 t + sin2 t * sin2 t = 1.
Proof. intros t. unfold cos2, sin2. assert (H := sin2_cos2 (2 * rad t)). unfold Rsqr in H. lra. Qed.

Lemma pair_bound : forall (c s : R -> R) E th,
  (forall t, c t * c t + s t * s t = 1) ->
  length E = length th ->
  (forall v, In (Some v) E -> 0 <= v) -> (forall x, In x (dstep th) -> 0 <= x) ->
  0 < e_row E th ->
  let a := mnum c E th / e_row E th in
  let b := mnum s E th / e_row E th in
  a * a + b * b <= 1 /\ Rabs a <= 1 /\ Rabs b <= 1.
Proof.
  intros c s E th U L HE Hs He a b.
  apply ratio_bounds; [exact He|].
  unfold mnum. rewrite !dint_omul.
  assert (LW : length (weights E (dstep th)) = length th).
  { unfold weights. rewrite map2_length; [exact L | rewrite dstep_length; exact L]. }
  destruct (unit_circle_cs (weights E (dstep th)) (map c th) (map s th)) as [_ H].
  - rewrite map_length; exact LW.
  - rewrite map_length; exact LW.
  - apply weights_nonneg; assumption.
  - intros j Hj. rewrite LW in Hj.
    rewrite (nth_map' c th j 0 0) by exact Hj.
    rewrite (nth_map' s th j 0 0) by exact Hj. apply U.
  - exact H.
Qed.

Lemma moments_bounded : forall E th,
  length E = length th ->
  (forall v, In (Some v) E -> 0 <= v) -> (forall x, In x (dstep th) -> 0 <= x) ->
  0 < e_row E th ->
  exists a b a' b',
    a1_row E th = Some a /\ b1_row E th = Some b /\ a2_row E th = Some a' /\ b2_row E th = Some b' /\
    Rabs a <= 1 /\ Rabs b <= 1 /\ Rabs a' <= 1 /\ Rabs b' <= 1 /\
    a * a + b * b <= 1 /\ a' * a' + b' * b' <= 1.
Proof.
  intros E th L HE Hs He.
  destruct (moments_are_ratios E th) as [H1 [H2 [H3 H4]]]; [lra|].
  destruct (pair_bound cos1 sin1 E th cos1_sin1_unit L HE Hs He) as [P1 [P2 P3]].
  destruct (pair_bound cos2 sin2 E th cos2_sin2_unit L HE Hs He) as [Q1 [Q2 Q3]].
  do 4 eexists. repeat split; try eassumption.
Qed.

(* on a grid that covers the circle the steps are positive, so only E >= 0 is needed *)
Lemma moments_bounded_covering : forall E th phi,
  phi <> [] -> Forall2 cong360 th phi -> Forall (fun g => 0 < g < 180) (cyc_gaps phi) ->
  length E = length th ->
  (forall v, In (Some v) E -> 0 <= v) ->
  0 < e_row E th ->
  exists a b a' b',
    a1_row E th = Some a /\ b1_row E th = Some b /\ a2_row E th = Some a' /\ b2_row E th = Some b' /\
    Rabs a <= 1 /\ Rabs b <= 1 /\ Rabs a' <= 1 /\ Rabs b' <= 1 /\
    a * a + b * b <= 1 /\ a' * a' + b' * b' <= 1.
Proof.
  intros E th phi Hne Hc Hg L HE He.
  destruct (dstep_sum_360 th phi Hne Hc Hg) as [_ [_ Hpos]].
  apply moments_bounded; try assumption.
  intros x Hx. rewrite Forall_forall in Hpos. left. apply Hpos. exact Hx.
Qed.

(* non-negative density, non-negative steps: the energy itself is non-negative *)
Lemma e_nonneg : forall E th,
  (forall v, In (Some v) E -> 0 <= v) -> (forall x, In x (dstep th) -> 0 <= x) -> 0 <= e_row E th.
Proof.
  intros E th HE Hs. unfold e_row, dint. apply sumR_nonneg.
  apply (weights_nonneg E (dstep th)); assumption.
Qed.

(* ================================================================== *)
(* 2D -> 1D                                                             *)
(* ================================================================== *)
Lemma to_1d_energy : forall M (s : spec2d M) fmin fmax, m0_1d (to_1d s) fmin fmax = m0_2d s fmin fmax.
Proof. reflexivity. Qed.

Lemma to_1d_meta : forall M (s : spec2d M), meta1 (to_1d s) = meta2 s /\ f1 (to_1d s) = f2 s.
Proof. split; reflexivity. Qed.

Lemma to_1d_variables : forall M (s : spec2d M),
  e1 (to_1d s) = map Some (e_2d s) /\ a1s (to_1d s) = a1_2d s /\ b1s (to_1d s) = b1_2d s /\
  a2s (to_1d s) = a2_2d s /\ b2s (to_1d s) = b2_2d s.
Proof. repeat split; reflexivity. Qed.

Lemma to_1d_batch_independent : forall M (b : list (spec2d M)) i d,
  nth i (to_1d_batch b) (to_1d d) = to_1d (nth i b d).
Proof. intros. unfold to_1d_batch. apply map_nth. Qed.

(* ================================================================== *)
(* integrate_spectral_data                                              *)
(* ================================================================== *)
Lemma isd_direction_eq : forall M (s : spec2d M), isd_direction (E2 s) (th2 s) = e_2d s.
Proof. reflexivity. Qed.

Definition dot (u v : list R) : R := sumR (map2 Rmult u v).

Lemma dot_repeat0 : forall n st, dot (repeat 0 n) st = 0.
Proof.
  unfold dot. induction n; intros st; [reflexivity|]. destruct st; [reflexivity|].
  cbn [repeat map2 sumR fold_right]. fold (sumR (map2 Rmult (repeat 0 n) st)). rewrite IHn. ring.
Qed.

Lemma dot_vadd : forall u v st, length u = length v ->
  dot (vadd u v) st = dot u st + dot v st.
Proof.
  unfold dot, vadd. induction u as [|a u IH]; intros v st L; destruct v as [|b v]; try discriminate.
  - simpl. ring.
  - destruct st as [|s st]; [simpl; ring|].
    cbn [map2 sumR fold_right].
    fold (sumR (map2 Rmult (map2 Rplus u v) st)). fold (sumR (map2 Rmult u st)). fold (sumR (map2 Rmult v st)).
    rewrite IH by (simpl in L; lia). ring.
Qed.

Lemma dot_vseg : forall dx r0 r1 st, length r0 = length r1 ->
  dot (vseg dx (vfill r0) (vfill r1)) st = dx * (dint r0 st + dint r1 st) / 2.
Proof.
  unfold dot, vseg, vfill, dint.
  induction r0 as [|a r0 IH]; intros r1 st L; destruct r1 as [|b r1]; try discriminate.
  - simpl. lra.
  - destruct st as [|s st]; [simpl; lra|].
    cbn [map map2 sumR fold_right].
    fold (sumR (map2 Rmult (map2 (fun a b => dx * (a + b) / 2) (map fill0 r0) (map fill0 r1)) st)).
    fold (sumR (map2 wterm r0 st)). fold (sumR (map2 wterm r1 st)).
    rewrite IH by (simpl in L; lia). rewrite !wterm_fill0. lra.
Qed.

Lemma isd_frequency_aux_length : forall nd f E,
  Forall (fun row => length row = nd) E -> length (isd_frequency_aux nd f E) = nd.
Proof.
  intros nd f. induction f as [|x0 ft IH]; intros E HE; [apply repeat_length|].
  destruct ft as [|x1 ft']; [apply repeat_length|].
  destruct E as [|r0 Et]; [apply repeat_length|].
  destruct Et as [|r1 Et']; [apply repeat_length|].
  change (isd_frequency_aux nd (x0 :: x1 :: ft') (r0 :: r1 :: Et'))
    with (vadd (vseg (x1 - x0) (vfill r0) (vfill r1)) (isd_frequency_aux nd (x1 :: ft') (r1 :: Et'))).
  inversion HE as [|? ? H0 HE']; subst. inversion HE' as [|? ? H1 HE'']; subst.
  unfold vadd. rewrite map2_length.
  - unfold vseg, vfill. rewrite map2_length; rewrite !map_length; [reflexivity | congruence].
  - rewrite IH by assumption. unfold vseg, vfill. rewrite map2_length; rewrite !map_length; [reflexivity | congruence].
Qed.

(* frequency first, then direction  =  direction first, then the trapezoid over frequency *)
Lemma isd_exchange : forall st nd f E,
  Forall (fun row => length row = nd) E ->
  dot (isd_frequency_aux nd f E) st = trapz f (map (fun row => dint row st) E).
Proof.
  intros st nd f. induction f as [|x0 ft IH]; intros E HE; [apply dot_repeat0|].
  destruct ft as [|x1 ft']; [apply dot_repeat0|].
  destruct E as [|r0 Et]; [apply dot_repeat0|].
  destruct Et as [|r1 Et']; [apply dot_repeat0|].
  change (isd_frequency_aux nd (x0 :: x1 :: ft') (r0 :: r1 :: Et'))
    with (vadd (vseg (x1 - x0) (vfill r0) (vfill r1)) (isd_frequency_aux nd (x1 :: ft') (r1 :: Et'))).
  inversion HE as [|? ? H0 HE']; subst. inversion HE' as [|? ? H1 HE'']; subst.
  rewrite dot_vadd.
  - rewrite dot_vseg by congruence. rewrite IH by assumption.
    change (map (fun row => dint row st) (r0 :: r1 :: Et'))
      with (dint r0 st :: dint r1 st :: map (fun row => dint row st) Et').
    change (map (fun row => dint row st) (r1 :: Et')) with (dint r1 st :: map (fun row => dint row st) Et').
    reflexivity.
  - rewrite isd_frequency_aux_length by assumption.
    unfold vseg, vfill. rewrite map2_length; rewrite !map_length; [reflexivity | congruence].
Qed.

Lemma integrate_spectral_data_eq : forall M (s : spec2d M),
  Forall (fun row => length row = length (th2 s)) (E2 s) ->
  isd_direction (E2 s) (th2 s) = e_2d s /\
  isd_both (f2 s) (th2 s) (E2 s) = trapz (f2 s) (e_2d s).
Proof.
  intros M s H. split; [reflexivity|].
  unfold isd_both, isd_frequency. apply (isd_exchange (dstep (th2 s))). exact H.
Qed.

(* the whole band: m0 of the spectrum is that trapezoid *)
Lemma select_all : forall {A} (l : list A) m, length m = length l -> Forall (fun b => b = true) m -> select m l = l.
Proof.
  intros A l. induction l as [|x l IH]; intros m L H; destruct m as [|b m]; try discriminate; [reflexivity|].
  inversion H; subst. simpl. f_equal. apply IH; [simpl in L; lia | assumption].
Qed.

Lemma m0_full_band : forall fmin f e,
  Forall (fun x => fmin <= x) f -> length e = length f ->
  moment 0 fmin None f (map Some e) = trapz f e.
Proof.
  intros fmin f e Hf L. unfold moment.
  assert (Hm : Forall (fun b => b = true) (band_mask fmin None f)).
  { unfold band_mask. clear L. induction Hf; simpl; constructor; [|assumption].
    unfold in_band. destruct (Rle_dec fmin x); [reflexivity | contradiction]. }
  assert (Lm : length (band_mask fmin None f) = length f) by (unfold band_mask; apply map_length).
  rewrite !select_all; try assumption; [| rewrite map_length; congruence].
  f_equal. clear - L. revert f L. induction e as [|v e IH]; intros f L; destruct f as [|x f]; try discriminate; [reflexivity|].
  simpl. f_equal; [ring | apply IH; simpl in L; lia].
Qed.

Lemma total_variance_preserved : forall M (s : spec2d M) fmin,
  Forall (fun row => length row = length (th2 s)) (E2 s) ->
  Forall (fun x => fmin <= x) (f2 s) -> length (E2 s) = length (f2 s) ->
  m0_1d (to_1d s) fmin None = isd_both (f2 s) (th2 s) (E2 s).
Proof.
  intros M s fmin H Hf L.
  destruct (integrate_spectral_data_eq M s H) as [_ E]. rewrite E.
  unfold m0_1d. cbn [to_1d f1 e1]. apply m0_full_band; [exact Hf|].
  unfold e_2d. rewrite map_length. exact L.
Qed.

(* numba_integrate_spectral_data: the double loop is sum_i fstep_i * (sum_j data_ij dstep_j) *)
Lemma numba_isd_eq : forall data fstep dstp,
  numba_isd data fstep dstp
  = sumR (map2 (fun row fs => fs * sumR (map2 Rmult row dstp)) data fstep).
Proof.
  intros. unfold numba_isd. f_equal. apply map2_ext. intros row fs.
  rewrite <- sumR_scale. f_equal. rewrite map_map2. apply map2_ext. intros; ring.
Qed.

(* combined forms used by Properties/C02.v *)
Lemma wrap360_range_and_congruence : forall d,
  wrap360 d = fmod (d + 180) 360 - 180 /\ -180 <= wrap360 d < 180 /\ cong360 (wrap360 d) d.
Proof. intros d. exact (conj (wrap360_alt d) (conj (wrap360_range d) (wrap360_cong_self d))). Qed.

Lemma dstep_uniform_both : forall t0 dl th,
  ugrid t0 dl th -> -180 <= dl < 180 ->
  dstep th = repeat dl (length th) /\ sumR (dstep th) = 360.
Proof. intros t0 dl th U H. exact (conj (dstep_uniform t0 dl th U H) (dstep_uniform_sum t0 dl th U H)). Qed.
