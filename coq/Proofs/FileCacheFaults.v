(* Hits are not fetched, misses and rejected entries are; failed downloads leave nothing behind;
   files not named by a request are left alone; foreign files are never touched. *)
From Coq Require Import ZArith List Bool Arith Lia Permutation.
From OSU.Model Require Import FileCache.
From OSU.Proofs Require Import FileCacheBase FileCacheInv FileCacheGet FileCacheHist FileCacheReq.
Import ListNotations.
Open Scope Z_scope.

(* ------------------------------------------------------------------ *)
(* what eviction and registration leave unchanged                       *)
(* ------------------------------------------------------------------ *)
Lemma remove_item_fetched s n : fetched (remove_item s n) = fetched s.
Proof. unfold remove_item. destruct (mem n (entries s)); reflexivity. Qed.

Lemma evict_loop_fetched fuel : forall s, fetched (evict_loop fuel s) = fetched s.
Proof.
  induction fuel as [|fuel IH]; intros s; cbn [evict_loop]; [reflexivity|].
  destruct (cache_size s >? maxb s); [|reflexivity]. destruct (oldest s); [|reflexivity].
  now rewrite IH, remove_item_fetched.
Qed.

Lemma evict_loop_dfind_sub fuel : forall s n f,
  dfind (disk (evict_loop fuel s)) n = Some f -> dfind (disk s) n = Some f.
Proof.
  induction fuel as [|fuel IH]; intros s n f H; cbn [evict_loop] in H; [assumption|].
  destruct (cache_size s >? maxb s); [|assumption]. destruct (oldest s) as [n0|]; [|assumption].
  apply IH in H. unfold remove_item in H. destruct (mem n0 (entries s)); [|assumption].
  cbn in H. destruct (name_eqb_spec n n0) as [->|Hne]; [now rewrite dfind_ddel_same in H|].
  now rewrite dfind_ddel_other in H.
Qed.

Lemma evict_loop_dfind_nonentry fuel : forall s n,
  ~ In n (entries s) -> dfind (disk (evict_loop fuel s)) n = dfind (disk s) n.
Proof.
  induction fuel as [|fuel IH]; intros s n Hn; cbn [evict_loop]; [reflexivity|].
  destruct (cache_size s >? maxb s); [|reflexivity]. destruct (oldest s) as [n0|] eqn:Eo; [|reflexivity].
  destruct (oldest_spec s n0 Eo) as [Hin0 _].
  rewrite IH.
  - apply remove_item_dfind_other. intros ->. contradiction.
  - unfold remove_item. destruct (mem n0 (entries s)); [|assumption]. cbn. intros H. apply in_remove_name in H. tauto.
Qed.

Lemma register_fetched ms : forall s paths bs, fetched (fst (register s paths ms bs)) = fetched s.
Proof.
  induction ms as [|q ms IH]; intros s paths bs; cbn [register]; [reflexivity|].
  destruct bs as [|b bs]; [reflexivity|]. destruct b; rewrite IH; reflexivity.
Qed.

Lemma register_existing_fetched ms : forall s, fetched (register_existing s ms) = fetched s.
Proof.
  induction ms as [|q ms IH]; intros s; cbn [register_existing]; [reflexivity|].
  destruct (dexists (disk s) (q_name q)); rewrite IH; reflexivity.
Qed.

(* ------------------------------------------------------------------ *)
(* a request made of hits contacts no resource                          *)
(* ------------------------------------------------------------------ *)
Definition is_plain_hit (s : state) (q : req) : Prop :=
  In (q_name q) (entries s) /\ (q_validate q = None \/ q_validate q = Some VOk).

Lemma classify_all_hits l : forall s s1 ms,
  (forall q, In q l -> is_plain_hit s q) -> classify s l = Some (s1, ms) -> ms = [].
Proof.
  induction l as [|q l IH]; intros s s1 ms Hall H; cbn [classify] in H; [now injection H as _ <-|].
  destruct (Hall q (or_introl eq_refl)) as [Hin Hv]. apply mem_true in Hin. rewrite Hin in H.
  assert (Hhit : match dfind (disk s) (q_name q) with
        | None => None
        | Some f => match classify (tick (set_disk s (dupd (disk s) (q_name q) (mkfile (fcontent f) (clock s))))) l with
                    | Some (s2, ms0) => Some (s2, ms0) | None => None end
        end = Some (s1, ms) -> ms = []).
  { intros Hc. destruct (dfind (disk s) (q_name q)) as [f|]; [|discriminate].
    destruct (classify _ l) as [[s2 ms0]|] eqn:E; [|discriminate]. injection Hc as <- <-.
    refine (IH _ _ _ _ E). intros q' Hq'. destruct (Hall q' (or_intror Hq')) as [A B]. split; [exact A | exact B]. }
  destruct Hv as [Hv|Hv]; rewrite Hv in H; exact (Hhit H).
Qed.

Theorem hit_not_fetched s l :
  (forall q, In q l -> is_plain_hit s q) -> fetched (fst (get s l)) = fetched s.
Proof.
  intros Hall. unfold get. destruct (classify s l) as [[s1 ms]|] eqn:Ec; [|reflexivity].
  pose proof (classify_all_hits _ _ _ _ Hall Ec) as ->.
  destruct (classify_frame _ _ _ _ Ec) as [_ [_ [Hf _]]].
  rewrite download_all_nil. cbn [register fst]. destruct (_ >? _); cbn; assumption.
Qed.

(* ------------------------------------------------------------------ *)
(* single-URI requests: misses and rejected entries are fetched;        *)
(* failures leave no entry and no file                                  *)
(* ------------------------------------------------------------------ *)
Lemma classify_single_miss s q : ~ In (q_name q) (entries s) -> classify s [q] = Some (s, [q]).
Proof. intros H. cbn [classify]. apply mem_false in H. now rewrite H. Qed.

Lemma worker_fetched s q : fetched (fst (fst (worker s q))) = q_res q :: fetched s.
Proof.
  unfold worker. destruct (q_out q) as [v| | |v|v]; try (destruct (allow (log_fetch s (q_res q)))); try reflexivity.
  all: destruct (q_post q) as [[|]|]; reflexivity.
Qed.

Lemma get_single_fetched_from s0 s q :
  classify s0 [q] = Some (s, [q]) -> fetched s = fetched s0 ->
  fetched (fst (get s0 [q])) = q_res q :: fetched s0.
Proof.
  intros Hc Hf. unfold get. rewrite Hc. rewrite download_all_single. cbn [download].
  pose proof (worker_fetched s q) as Hw. destruct (worker s q) as [[s1 r] c]. cbn [fst] in Hw.
  destruct r as [b|].
  - cbn [download]. cbn [fst].
    destruct (register s1 (map q_name [q]) [q] [b]) as [s3 p3] eqn:Er.
    pose proof (register_fetched [q] s1 (map q_name [q]) [b]) as Hr. rewrite Er in Hr. cbn [fst] in Hr.
    assert (forall sx, fetched sx = fetched s1 -> fetched (evict sx) = q_res q :: fetched s0).
    { intros sx Hx. unfold evict. rewrite evict_loop_fetched. congruence. }
    apply H. destruct (_ >? _); cbn; assumption.
  - destruct c; cbn [fst].
    + cbn. congruence.
    + unfold evict. rewrite evict_loop_fetched, register_existing_fetched. congruence.
Qed.

Theorem miss_is_fetched s q :
  ~ In (q_name q) (entries s) -> fetched (fst (get s [q])) = q_res q :: fetched s.
Proof. intros H. apply (get_single_fetched_from s s q); [now apply classify_single_miss | reflexivity]. Qed.

Theorem rejected_validation_refetched s q :
  In (q_name q) (entries s) -> (q_validate q = Some VReject \/ q_validate q = Some VIOError) ->
  fetched (fst (get s [q])) = q_res q :: fetched s /\
  (* and the rejected file itself is gone before the re-fetch *)
  exists s1, classify s [q] = Some (s1, [q]) /\ dfind (disk s1) (q_name q) = None /\ ~ In (q_name q) (entries s1).
Proof.
  intros Hin Hv. apply mem_true in Hin as Hm.
  assert (Hc : classify s [q] = Some (remove_item s (q_name q), [q])).
  { cbn [classify]. rewrite Hm. destruct Hv as [-> | ->]; reflexivity. }
  split.
  - apply (get_single_fetched_from s _ q Hc). apply remove_item_fetched.
  - exists (remove_item s (q_name q)). split; [assumption|]. unfold remove_item. rewrite Hm. cbn. split.
    + apply dfind_ddel_same.
    + intros H. apply in_remove_name in H. tauto.
Qed.

Definition download_fails (q : req) : Prop :=
  q_out q = DNotFound \/ q_out q = DFailBefore \/ (exists v, q_out q = DFailPartial v) \/
  (exists v, q_out q = DOk v /\ q_post q = Some false).

Lemma worker_fail_result s q : download_fails q ->
  snd (fst (worker s q)) <> Some true /\ snd (worker s q) = false.
Proof.
  unfold download_fails, worker. intros [H|[H|[[v H]|[v [H1 H2]]]]].
  - rewrite H. destruct (allow _); cbn; split; congruence.
  - rewrite H. cbn; split; congruence.
  - rewrite H. cbn; split; congruence.
  - rewrite H1, H2. cbn; split; congruence.
Qed.

Theorem failed_uri_not_registered s q :
  Inv s -> alive s = true -> ~ In (q_name q) (entries s) -> download_fails q ->
  ~ In (q_name q) (entries (fst (get s [q]))) /\ dfind (disk (fst (get s [q]))) (q_name q) = None.
Proof.
  intros HI Hal Hnin Hfail. pose proof HI as [HW HS]. destruct (HS Hal) as [Hcov _].
  assert (Hnofile : dfind (disk s) (q_name q) = None).
  { destruct (dfind (disk s) (q_name q)) as [f|] eqn:E; [|reflexivity]. exfalso. apply Hnin.
    apply Hcov; [reflexivity|]. apply dexists_true. eauto. }
  assert (Hgoal : dfind (disk (fst (get s [q]))) (q_name q) = None).
  { unfold get. rewrite (classify_single_miss s q Hnin). rewrite download_all_single. cbn [download].
    destruct (worker s q) as [[s1 r] c] eqn:Ew.
    destruct (worker_props _ _ _ _ _ HW Ew) as [W1 [E1 [_ [_ [_ [F1 _]]]]]].
    destruct (worker_fail_result s q Hfail) as [Hr Hc]. rewrite Ew in Hr, Hc. cbn in Hr, Hc. subst c.
    assert (Hno1 : dfind (disk s1) (q_name q) = None).
    { destruct (dfind (disk s1) (q_name q)) as [f|] eqn:E; [|reflexivity]. exfalso.
      destruct (F1 (q_name q) eq_refl) as [Hx|[_ Hx]]; [apply dexists_true; eauto | | contradiction].
      apply dexists_true in Hx. destruct Hx as [g Hg]. congruence. }
    destruct r as [[|]|]; [contradiction | |].
    - cbn [download fst register].
      set (s4 := if _ >? _ then _ else _).
      assert (Hd4 : disk s4 = disk s1) by (unfold s4; destruct (_ >? _); reflexivity).
      destruct (dfind (disk (evict s4)) (q_name q)) as [f|] eqn:E; [|reflexivity].
      apply evict_loop_dfind_sub in E. congruence.
    - cbn [fst]. destruct (dfind (disk (evict (register_existing s1 [q]))) (q_name q)) as [f|] eqn:E; [|reflexivity].
      apply evict_loop_dfind_sub in E.
      destruct (register_existing_props [q] s1 W1) as [_ [D _]]. rewrite D in E. congruence. }
  split; [|assumption].
  intros Hin. pose proof (get_Inv s [q] HI Hal) as [HW' _].
  destruct (w_entries_on_disk _ HW' _ Hin) as [_ He]. apply dexists_true in He. destruct He as [f Hf]. congruence.
Qed.

Theorem tolerant_omits s q :
  ~ In (q_name q) (entries s) -> q_out q = DNotFound -> allow s = true ->
  snd (get s [q]) = Paths [].
Proof.
  intros Hn Ho Ha. unfold get. rewrite (classify_single_miss s q Hn). rewrite download_all_single. cbn [download]. unfold worker.
  rewrite Ho. cbn [allow log_fetch]. rewrite Ha. cbn [download register map remove_first].
  rewrite name_eqb_refl. reflexivity.
Qed.

Theorem strict_raises s q :
  ~ In (q_name q) (entries s) -> q_out q = DNotFound -> allow s = false ->
  snd (get s [q]) = Raised.
Proof.
  intros Hn Ho Ha. unfold get. rewrite (classify_single_miss s q Hn). rewrite download_all_single. cbn [download]. unfold worker.
  rewrite Ho. cbn [allow log_fetch]. rewrite Ha. reflexivity.
Qed.

(* ------------------------------------------------------------------ *)
(* frame of a request: files it does not name are unchanged or evicted  *)
(* ------------------------------------------------------------------ *)
Theorem get_frame s l n :
  W s -> ~ In n (map q_name l) -> ~ In n (map q_tmp l) ->
  dfind (disk (fst (get s l))) n = dfind (disk s) n \/ dfind (disk (fst (get s l))) n = None.
Proof.
  intros HW Hn Ht. unfold get. destruct (classify s l) as [[s1 ms]|] eqn:Ec; [|now left].
  destruct (classify_props _ _ _ _ HW Ec) as [W1 [_ [_ [_ [_ [_ [Inc1 _]]]]]]].
  destruct (classify_frame _ _ _ _ Ec) as [Fr1 _].
  destruct (download_all s1 ms) as [[s2 bs] st] eqn:Ed.
  destruct (download_all_spec _ _ _ _ _ W1 Ed) as [W2 [_ [_ [_ [_ [_ [_ [R2 [D2 _]]]]]]]]].
  assert (H2 : dfind (disk s2) n = dfind (disk s) n).
  { rewrite D2; [now apply Fr1|]. intros q Hq. apply Inc1 in Hq. split; intros ->; [apply Hn | apply Ht]; now apply in_map. }
  assert (Hev : forall sx, disk sx = disk s2 ->
            dfind (disk (evict sx)) n = dfind (disk s) n \/ dfind (disk (evict sx)) n = None).
  { intros sx Hx. destruct (dfind (disk (evict sx)) n) as [f|] eqn:E; [|now right]. left.
    apply evict_loop_dfind_sub in E. congruence. }
  destruct st; cbn [fst].
  - destruct (register s2 (map q_name l) ms bs) as [s3 p3] eqn:Er.
    destruct (register_props _ _ _ _ _ _ W2 Er (R2 eq_refl)) as [_ [D3 _]].
    set (s4 := if _ >? _ then _ else _).
    assert (Hd4 : disk s4 = disk s2) by (unfold s4; destruct (_ >? _); cbn; assumption).
    cbn [fst]. destruct ms; [left; congruence | now apply Hev].
  - apply Hev. destruct (register_existing_props ms s2 W2) as [_ [D _]]. exact D.
  - left. cbn. assumption.
Qed.

(* ------------------------------------------------------------------ *)
(* parallel = sequential when no download raises                        *)
(* ------------------------------------------------------------------ *)
Lemma download_app l1 : forall s l2 s1 bs1,
  download s l1 = (s1, bs1, DlOk) ->
  download s (l1 ++ l2) = (let '(s2, bs2, st2) := download s1 l2 in (s2, bs1 ++ bs2, st2)).
Proof.
  induction l1 as [|q l1 IH]; intros s l2 s1 bs1 H; cbn [download app] in *.
  - injection H as <- <-. destruct (download s l2) as [[a b] c]. reflexivity.
  - destruct (worker s q) as [[sa r] c] eqn:Ew. destruct r as [b|]; [|destruct c; discriminate].
    destruct (download sa l1) as [[sb bsb] stb] eqn:Ed. injection H as <- <- ->.
    rewrite (IH sa l2 sb bsb Ed). destruct (download sb l2) as [[x y] z]. reflexivity.
Qed.

Lemma download_chunks_seq cs : forall s s' bs,
  download_chunks s cs = (s', bs, DlOk) -> download s (concat cs) = (s', bs, DlOk).
Proof.
  induction cs as [|c cs IH]; intros s s' bs H; cbn [download_chunks concat] in *.
  - injection H as <- <-. reflexivity.
  - destruct (download s c) as [[s1 bs1] st1] eqn:E1.
    destruct (download_chunks s1 cs) as [[s2 bs2] st2] eqn:E2. injection H as <- <- Hm.
    apply merge_ok in Hm. destruct Hm as [-> ->].
    rewrite (download_app c s (concat cs) s1 bs1 E1). rewrite (IH _ _ _ E2). reflexivity.
Qed.

(* If the chunked parallel download completes without a raise it computes exactly what the
   sequential loop computes - state, success flags and status. *)
Theorem parallel_equals_sequential s ms s' bs :
  download_all s ms = (s', bs, DlOk) -> download s ms = (s', bs, DlOk).
Proof.
  unfold download_all. destruct (par s && Nat.ltb 1 (length ms)); [|tauto].
  intros H. apply download_chunks_seq in H. now rewrite concat_chunks_of in H by lia.
Qed.

Lemma download_app_inv l1 : forall s l2 s' bs,
  download s (l1 ++ l2) = (s', bs, DlOk) ->
  exists s1 bs1 bs2, download s l1 = (s1, bs1, DlOk) /\ download s1 l2 = (s', bs2, DlOk) /\ bs = bs1 ++ bs2.
Proof.
  induction l1 as [|q l1 IH]; intros s l2 s' bs H; cbn [download app] in *.
  - exists s, [], bs. repeat split; assumption.
  - destruct (worker s q) as [[sa r] c] eqn:Ew. destruct r as [b|]; [|destruct c; discriminate].
    destruct (download sa (l1 ++ l2)) as [[sb bsb] stb] eqn:Ed. injection H as <- <- ->.
    destruct (IH _ _ _ _ Ed) as [s1 [bs1 [bs2 [A [B Cc]]]]]. rewrite A.
    exists s1, (b :: bs1), bs2. repeat split; [assumption | now rewrite Cc].
Qed.

Lemma download_seq_chunks cs : forall s s' bs,
  download s (concat cs) = (s', bs, DlOk) -> download_chunks s cs = (s', bs, DlOk).
Proof.
  induction cs as [|c cs IH]; intros s s' bs H; cbn [download_chunks concat] in *.
  - cbn in H. injection H as <- <-. reflexivity.
  - destruct (download_app_inv c s (concat cs) s' bs H) as [s1 [bs1 [bs2 [A [B ->]]]]].
    rewrite A. rewrite (IH _ _ _ B). reflexivity.
Qed.

Theorem sequential_equals_parallel s ms s' bs :
  download s ms = (s', bs, DlOk) -> download_all s ms = (s', bs, DlOk).
Proof.
  unfold download_all. destruct (par s && Nat.ltb 1 (length ms)); [|tauto].
  intros H. apply download_seq_chunks. now rewrite concat_chunks_of by lia.
Qed.

(* ------------------------------------------------------------------ *)
(* foreign files                                                        *)
(* ------------------------------------------------------------------ *)
Definition op_names_foreign (j : nat) (o : op) : bool :=
  match o with
  | Foreign j' _ => Nat.eqb j j'
  | Touch (FName j') | Age (FName j') => Nat.eqb j j'
  | _ => false
  end.

Lemma foreign_not_entry s j : W s -> ~ In (FName j) (entries s).
Proof. intros H Hin. apply (entries_are_cache s _ H) in Hin. discriminate. Qed.

Lemma get_foreign s l j : W s -> dfind (disk (fst (get s l))) (FName j) = dfind (disk s) (FName j).
Proof.
  intros HW. unfold get. destruct (classify s l) as [[s1 ms]|] eqn:Ec; [|reflexivity].
  destruct (classify_props _ _ _ _ HW Ec) as [W1 _].
  destruct (classify_frame _ _ _ _ Ec) as [Fr1 _].
  destruct (download_all s1 ms) as [[s2 bs] st] eqn:Ed.
  destruct (download_all_spec _ _ _ _ _ W1 Ed) as [W2 [_ [_ [_ [_ [_ [_ [R2 [D2 _]]]]]]]]].
  assert (H2 : dfind (disk s2) (FName j) = dfind (disk s) (FName j)).
  { rewrite D2; [apply Fr1|].
    - intros Hin. apply in_map_iff in Hin. destruct Hin as [q [E _]]. discriminate.
    - intros q _. split; discriminate. }
  destruct st; cbn [fst].
  - destruct (register s2 (map q_name l) ms bs) as [s3 p3] eqn:Er.
    destruct (register_props _ _ _ _ _ _ W2 Er (R2 eq_refl)) as [W3 [D3 _]].
    set (s4 := if _ >? _ then _ else _).
    assert (Hd4 : disk s4 = disk s2 /\ W s4).
    { unfold s4. destruct (_ >? _); cbn; split; try assumption. apply W_set_maxb; [assumption|].
      pose proof (total_size_nonneg (disk s3) p3). unfold MEGABYTE. lia. }
    destruct Hd4 as [Hd4 W4]. cbn [fst]. destruct ms.
    + congruence.
    + unfold evict. rewrite evict_loop_dfind_nonentry by now apply foreign_not_entry. congruence.
  - destruct (register_existing_props ms s2 W2) as [W3 [D3 _]].
    unfold evict. rewrite evict_loop_dfind_nonentry by now apply foreign_not_entry. congruence.
  - cbn. assumption.
Qed.

Lemma step_foreign s o j : W s -> op_names_foreign j o = false ->
  dfind (disk (fst (step s o))) (FName j) = dfind (disk s) (FName j).
Proof.
  intros HW Hop. destruct o as [l|r k| |ev|n|n|j' c|p a]; cbn [step].
  - destruct (alive s); [|reflexivity]. cbn [step_alive]. now apply get_foreign.
  - destruct (alive s); [|reflexivity]. cbn [step_alive fst]. apply remove_item_dfind_other. discriminate.
  - destruct (alive s); [|reflexivity]. cbn [step_alive fst disk set_disk set_entries].
    rewrite dfind_fold_ddel. pose proof (foreign_not_entry s j HW) as Hn. apply mem_false in Hn. now rewrite Hn.
  - set (s1 := set_alive (set_entries s (cache_names_on_disk (disk s))) true).
    assert (W1 : W s1) by (apply W_set_alive; now apply W_set_entries_disk).
    destruct ev; cbn [fst].
    + unfold evict. rewrite evict_loop_dfind_nonentry by now apply foreign_not_entry. reflexivity.
    + destruct (_ >? _); reflexivity.
  - cbn [fst]. unfold set_time. destruct (dfind (disk s) n) as [f|]; [|reflexivity].
    cbn [disk tick set_disk]. apply dfind_dupd_other. intros <-. cbn in Hop. now rewrite Nat.eqb_refl in Hop.
  - cbn [fst]. unfold set_time. destruct (dfind (disk s) n) as [f|]; [|reflexivity].
    cbn [disk tick set_disk]. apply dfind_dupd_other. intros <-. cbn in Hop. now rewrite Nat.eqb_refl in Hop.
  - cbn [fst disk tick set_disk]. apply dfind_dupd_other. intros E. injection E as ->. cbn in Hop. now rewrite Nat.eqb_refl in Hop.
  - destruct (alive s); reflexivity.
Qed.

Theorem foreign_untouched ops : forall s j,
  Inv s -> forallb (fun o => negb (op_names_foreign j o)) ops = true ->
  dfind (disk (run s ops)) (FName j) = dfind (disk s) (FName j).
Proof.
  unfold run. induction ops as [|o ops IH]; intros s j HI Hall; cbn [fold_left]; [reflexivity|].
  cbn [forallb] in Hall. apply andb_true_iff in Hall. destruct Hall as [Ho Hall].
  rewrite IH; [|now apply step_Inv | assumption].
  apply step_foreign; [exact (proj1 HI)|]. now destruct (op_names_foreign j o).
Qed.
