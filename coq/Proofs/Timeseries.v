(* Proofs about Model/Timeseries.v (C16). *)
From Coq Require Import Reals Lra Lia ZArith List Arith.
From OSU.Model Require Import WindEstimate Timeseries.
From OSU.Lib Require Import WindAux TsAux.
Import ListNotations.
Open Scope R_scope.

(* ================================================================== *)
(* lengths, time axis, frequency grid                                   *)
(* ================================================================== *)
Lemma nfft_spec : forall n, Nat.even (nfft n) = true /\ (nfft n <= n)%nat /\ (n - nfft n <= 1)%nat.
Proof.
  intros n. unfold nfft. split.
  - rewrite Nat.even_mul. reflexivity.
  - pose proof (Nat.div_mod n 2). pose proof (Nat.mod_upper_bound n 2). lia.
Qed.

Lemma nfft_half : forall n, (nfft n / 2 = n / 2)%nat.
Proof. intros. unfold nfft. rewrite Nat.mul_comm. apply Nat.div_mul. lia. Qed.

Lemma nfft_twice_half : forall n, (nfft n = 2 * (nfft n / 2))%nat.
Proof. intros. rewrite nfft_half. reflexivity. Qed.

Lemma iotaR_length : forall n s, length (iotaR n s) = n.
Proof. induction n; intros; cbn; [reflexivity|]. f_equal. apply IHn. Qed.

Lemma iotaR_nth : forall n s i d, (i < n)%nat -> nth i (iotaR n s) d = s + INR i.
Proof.
  induction n as [|n IH]; intros s i d H; [lia|].
  destruct i as [|i].
  - cbn. ring.
  - change (nth (S i) (iotaR (S n) s) d) with (nth i (iotaR n (s + 1)) d).
    rewrite IH by lia. rewrite S_INR. ring.
Qed.

Lemma series_length : forall N X, length (series_of N X) = N.
Proof. intros. unfold series_of. rewrite map_length. apply iotaR_length. Qed.

Lemma time_length : forall fs n, length (time_axis fs n) = nfft n.
Proof. intros. unfold time_axis. rewrite map_length. apply iotaR_length. Qed.

Lemma freqs_length : forall fs n, length (fft_freqs fs n) = (nfft n / 2)%nat.
Proof. intros. unfold fft_freqs. rewrite map_length. apply iotaR_length. Qed.

(* as many samples as the time axis, both nfft *)
Lemma length_series_eq_time : forall c fs n xp cols phases t s,
  surface_timeseries c fs n xp cols phases = Some (t, s) ->
  length t = nfft n /\ length s = nfft n.
Proof.
  intros c fs n xp cols phases t s H. unfold surface_timeseries in H.
  destruct (Nat.ltb (nfft n / 2) 2); [discriminate|]. inversion H; subst.
  split; [apply time_length|apply series_length].
Qed.

Lemma raises_iff_short : forall c fs n xp cols phases,
  surface_timeseries c fs n xp cols phases = None <-> (n < 4)%nat.
Proof.
  intros. unfold surface_timeseries. rewrite nfft_half.
  destruct (Nat.ltb_spec (n / 2) 2) as [H|H]; split; intros H'; try discriminate; try reflexivity.
  - destruct (le_lt_dec 4 n) as [H4|H4]; [|exact H4].
    assert (2 <= n / 2)%nat by (apply Nat.div_le_lower_bound; lia). lia.
  - assert (n / 2 <= 3 / 2)%nat by (apply Nat.div_le_mono; lia).
    change (3 / 2)%nat with 1%nat in H0. lia.
Qed.

Lemma time_nth : forall fs n i, fs <> 0 -> (i < nfft n)%nat ->
  nth i (time_axis fs n) 0 = INR i / fs.
Proof.
  intros fs n i Hfs Hi. unfold time_axis.
  set (N := nfft n) in *.
  assert (HN : INR N <> 0) by (apply not_0_INR; lia).
  rewrite nth_indep with (d' := (fun x => x * (INR N / fs / INR N)) 0) by (rewrite map_length, iotaR_length; exact Hi).
  rewrite (map_nth (fun x => x * (INR N / fs / INR N))).
  rewrite iotaR_nth by exact Hi. field. split; assumption.
Qed.

Lemma time_spacing : forall fs n i, fs <> 0 -> (S i < nfft n)%nat ->
  nth (S i) (time_axis fs n) 0 - nth i (time_axis fs n) 0 = 1 / fs.
Proof.
  intros. rewrite !time_nth by (try assumption; lia). rewrite S_INR. field. assumption.
Qed.

Lemma freq_nth : forall fs n k, (k < nfft n / 2)%nat ->
  nth k (fft_freqs fs n) 0 = INR k * fs / INR (nfft n).
Proof.
  intros fs n k Hk. unfold fft_freqs.
  set (M := (nfft n / 2)%nat) in *.
  assert (HM : INR M <> 0) by (apply not_0_INR; lia).
  rewrite nth_indep with (d' := (fun x => x * (1 / 2 * fs / INR M)) 0) by (rewrite map_length, iotaR_length; exact Hk).
  rewrite (map_nth (fun x => x * (1 / 2 * fs / INR M))).
  rewrite iotaR_nth by exact Hk.
  rewrite (nfft_twice_half n). fold M. rewrite mult_INR. cbn [INR]. field. exact HM.
Qed.

(* ================================================================== *)
(* transfer factors and amplitudes                                      *)
(* ================================================================== *)
Lemma component_factors : forall w th,
  factor_abs2 CZ w th = 1 /\
  factor_abs2 CW w th = w ^ 2 /\
  factor_abs2 CX w th = (cos th) ^ 2 /\
  factor_abs2 CY w th = (sin th) ^ 2 /\
  factor_abs2 CU w th = w ^ 2 * (cos th) ^ 2 /\
  factor_abs2 CV w th = w ^ 2 * (sin th) ^ 2.
Proof. intros. unfold factor_abs2, factor. repeat split; ring. Qed.

(* horizontal components split the elevation / vertical-velocity factor as cos^2 + sin^2 *)
Lemma horizontal_split : forall w th,
  factor_abs2 CX w th + factor_abs2 CY w th = factor_abs2 CZ w th /\
  factor_abs2 CU w th + factor_abs2 CV w th = factor_abs2 CW w th.
Proof.
  intros. unfold factor_abs2, factor. pose proof (sin2_cos2 th) as H. unfold Rsqr in H.
  split.
  - replace (0 * 0 + - cos th * - cos th + (0 * 0 + - sin th * - sin th))
      with (sin th * sin th + cos th * cos th) by ring. rewrite H. ring.
  - replace (w * cos th * (w * cos th) + 0 * 0 + (w * sin th * (w * sin th) + 0 * 0))
      with (w * w * (sin th * sin th + cos th * cos th)) by ring. rewrite H. ring.
Qed.

Lemma amp_abs2 : forall c area e ph w th, 0 <= area * e ->
  let '(re, im) := amp c area e ph w th in
  re * re + im * im = area * e / 2 * factor_abs2 c w th.
Proof.
  intros c area e ph w th H. unfold amp, factor_abs2.
  destruct (factor c w th) as [fr fi].
  set (a := sqrt (area * e / 2)).
  assert (Ha : a * a = area * e / 2) by (apply sqrt_sqrt; lra).
  pose proof (sin2_cos2 ph) as Hp. unfold Rsqr in Hp.
  replace ((a * cos ph * fr - a * sin ph * fi) * (a * cos ph * fr - a * sin ph * fi) +
           (a * sin ph * fr + a * cos ph * fi) * (a * sin ph * fr + a * cos ph * fi))
    with (a * a * (sin ph * sin ph + cos ph * cos ph) * (fr * fr + fi * fi)) by ring.
  rewrite Ha, Hp. ring.
Qed.

(* ================================================================== *)
(* scaling the spectrum by c >= 0 scales the series by sqrt c            *)
(* ================================================================== *)
Definition cscale (c : R) (p : R * R) : R * R := (c * fst p, c * snd p).

Lemma last_map : forall (A B : Type) (f : A -> B) l d, last (map f l) (f d) = f (last l d).
Proof.
  intros A B f l d. induction l as [|a t IH]; [reflexivity|].
  destruct t as [|b t']; [reflexivity|].
  change (last (map f (a :: b :: t')) (f d)) with (last (map f (b :: t')) (f d)).
  change (last (a :: b :: t') d) with (last (b :: t') d). exact IH.
Qed.

Lemma nth_map_mult : forall c l i, nth i (map (Rmult c) l) 0 = c * nth i l 0.
Proof.
  intros. transitivity (nth i (map (Rmult c) l) (Rmult c 0)).
  - f_equal. ring.
  - apply (map_nth (Rmult c)).
Qed.

Lemma interp0_scale : forall c xp fp x, interp0 xp (map (Rmult c) fp) x = c * interp0 xp fp x.
Proof.
  intros c xp fp x. unfold interp0.
  destruct (Rlt_dec x (hd 0 xp)); [ring|].
  destruct (Rlt_dec (last xp 0) x); [ring|].
  destruct (Req_EM_T x (last xp 0)).
  - transitivity (last (map (Rmult c) fp) (Rmult c 0)); [f_equal; ring|apply (last_map R R (Rmult c))].
  - rewrite !nth_map_mult. ring.
Qed.

Lemma amp_scale : forall cmp area e ph w th c, 0 <= c ->
  amp cmp area (c * e) ph w th = cscale (sqrt c) (amp cmp area e ph w th).
Proof.
  intros cmp area e ph w th c Hc. unfold amp, cscale.
  destruct (factor cmp w th) as [fr fi]. cbn [fst snd].
  replace (area * (c * e) / 2) with (c * (area * e / 2)) by field.
  rewrite sqrt_mult_alt by exact Hc.
  f_equal; ring.
Qed.

Definition scale_col (c : R) (col : column) : column :=
  let '(th, dth, e) := col in (th, dth, map (Rmult c) e).

Lemma bin_amp_scale : forall cmp xp f df cols phases c, 0 <= c ->
  bin_amp cmp xp f df (map (scale_col c) cols) phases
  = cscale (sqrt c) (bin_amp cmp xp f df cols phases).
Proof.
  intros cmp xp f df cols. induction cols as [|[[th dth] e] cols IH]; intros phases c Hc.
  - cbn. unfold cscale. cbn. f_equal; ring.
  - destruct phases as [|ph phases].
    + cbn. unfold cscale. cbn. f_equal; ring.
    + cbn [map scale_col bin_amp]. rewrite IH by exact Hc.
      rewrite interp0_scale, amp_scale by exact Hc.
      unfold cadd, cscale. cbn [fst snd]. f_equal; ring.
Qed.

Lemma amplitudes_scale : forall cmp xp fg dfs cols phases c, 0 <= c ->
  amplitudes cmp xp fg dfs (map (scale_col c) cols) phases
  = map (cscale (sqrt c)) (amplitudes cmp xp fg dfs cols phases).
Proof.
  intros cmp xp fg. induction fg as [|f fg IH]; intros dfs cols phases c Hc; [reflexivity|].
  destruct dfs as [|df dfs]; [reflexivity|]. destruct phases as [|ph phases]; [reflexivity|].
  cbn [amplitudes map]. rewrite bin_amp_scale, IH by exact Hc. reflexivity.
Qed.

Lemma harm_scale : forall q X k w, harm (map (cscale q) X) k w = q * harm X k w.
Proof.
  intros q X. induction X as [|[re im] t IH]; intros k w; cbn [map harm cscale fst snd]; [ring|].
  rewrite IH. ring.
Qed.

Lemma sample_scale : forall q N X tn, sample N (map (cscale q) X) tn = q * sample N X tn.
Proof.
  intros q N X tn. destruct X as [|[re0 im0] rest]; cbn [map sample cscale fst snd]; [ring|].
  rewrite harm_scale. ring.
Qed.

Lemma series_scale : forall cmp fs n xp cols phases c, 0 <= c ->
  surface_timeseries cmp fs n xp (map (scale_col c) cols) phases =
  option_map (fun ts : list R * list R => (fst ts, map (Rmult (sqrt c)) (snd ts)))
             (surface_timeseries cmp fs n xp cols phases).
Proof.
  intros cmp fs n xp cols phases c Hc. unfold surface_timeseries.
  destruct (Nat.ltb (nfft n / 2) 2); [reflexivity|]. cbn [option_map fst snd].
  f_equal. f_equal. unfold spectrum_amplitudes, series_of.
  rewrite amplitudes_scale by exact Hc. rewrite map_map.
  apply map_ext. intro tn. apply sample_scale.
Qed.

(* the 1D and the 2D column lists are scaled by scaling the spectrum *)
Lemma cols1d_scale : forall c e, cols1d (map (Rmult c) e) = map (scale_col c) (cols1d e).
Proof. reflexivity. Qed.

Lemma cols2d_scale : forall c dirs ecols,
  cols2d dirs (map (map (Rmult c)) ecols) = map (scale_col c) (cols2d dirs ecols).
Proof.
  intros c dirs ecols. unfold cols2d. generalize (combine dirs (dsteps dirs)) as l.
  intros l. revert ecols. induction l as [|[th dth] l IH]; intros [|e ecols]; cbn; try reflexivity.
  f_equal. apply IH.
Qed.

(* ================================================================== *)
(* Parseval: variance of the series = sum over the non-zero bins of 2|X_k|^2 *)
(* ================================================================== *)
Lemma sumR_map_iota : forall (f : R -> R) n s,
  sumR (map f (iotaR n s)) = sumN (fun i => f (s + INR i)) n.
Proof.
  intros f n. induction n as [|n IH]; intros s; [reflexivity|].
  rewrite sumN_shift. cbn [iotaR map sumR]. rewrite IH. f_equal.
  - f_equal. change (INR 0) with 0. ring.
  - apply sumN_ext. intros i _. rewrite S_INR. f_equal. ring.
Qed.

(* harmonics k0, k0+1, ... of the coefficient list, at sample i *)
Definition F (N : nat) (cs : list (R * R)) (k0 i : nat) : R := harm cs (INR k0) (wN N i).

Lemma F_cons : forall N re im t k0 i,
  F N ((re, im) :: t) k0 i = uterm N k0 re (- im) i + F N t (S k0) i.
Proof. intros. unfold F, uterm. cbn [harm]. rewrite S_INR. ring. Qed.

Lemma F_sum_zero : forall N cs k0, (1 <= k0)%nat -> (k0 + length cs <= N)%nat ->
  sumN (F N cs k0) N = 0.
Proof.
  intros N cs. induction cs as [|[re im] t IH]; intros k0 H1 H2.
  - unfold F. cbn [harm]. rewrite sumN_const. ring.
  - rewrite (sumN_ext _ _ N (fun i _ => F_cons N re im t k0 i)).
    rewrite sumN_plus. cbn [length] in H2.
    rewrite uterm_sum_zero by lia. rewrite IH by lia. ring.
Qed.

(* cross terms vanish: harmonic k against the harmonics k0.. of a list, k < k0 *)
Lemma F_cross_zero : forall N M cs k k0 a b, N = (2 * M)%nat ->
  (1 <= k)%nat -> (k < k0)%nat -> (k0 + length cs <= M)%nat ->
  sumN (fun i => uterm N k a b i * F N cs k0 i) N = 0.
Proof.
  intros N M cs. induction cs as [|[re im] t IH]; intros k k0 a b HN Hk Hkk Hlen.
  - unfold F. cbn [harm]. rewrite (sumN_ext _ (fun _ => 0)) by (intros; ring). rewrite sumN_const. ring.
  - cbn [length] in Hlen.
    rewrite (sumN_ext _ (fun i => uterm N k a b i * uterm N k0 re (- im) i + uterm N k a b i * F N t (S k0) i))
      by (intros; rewrite F_cons; ring).
    rewrite sumN_plus. rewrite uterm_inner by lia.
    destruct (Nat.eqb_spec k k0); [lia|].
    rewrite (IH k (S k0)) by lia. ring.
Qed.

Lemma F_square_sum : forall N M cs k0, N = (2 * M)%nat ->
  (1 <= k0)%nat -> (k0 + length cs <= M)%nat ->
  sumN (fun i => F N cs k0 i * F N cs k0 i) N
  = INR N / 2 * sumR (map (fun c : R * R => fst c * fst c + snd c * snd c) cs).
Proof.
  intros N M cs. induction cs as [|[re im] t IH]; intros k0 HN H1 H2.
  - unfold F. cbn [harm map sumR]. rewrite (sumN_ext _ (fun _ => 0)) by (intros; ring). rewrite sumN_const. ring.
  - cbn [length] in H2.
    rewrite (sumN_ext _ (fun i => uterm N k0 re (- im) i * uterm N k0 re (- im) i
                                  + (2 * (uterm N k0 re (- im) i * F N t (S k0) i)
                                     + F N t (S k0) i * F N t (S k0) i)))
      by (intros; rewrite F_cons; ring).
    rewrite !sumN_plus, sumN_scal.
    rewrite uterm_inner by lia. rewrite Nat.eqb_refl.
    rewrite (F_cross_zero N M t k0 (S k0)) by lia.
    rewrite (IH (S k0)) by lia.
    cbn [map sumR fst snd]. ring.
Qed.

Lemma sample_as_F : forall N re0 im0 rest i, INR N <> 0 ->
  sample N ((re0, im0) :: rest) (0 + INR i) = re0 + 2 * F N rest 1 i.
Proof.
  intros. unfold sample, F. cbn [INR]. f_equal. f_equal. f_equal. unfold wN. field. assumption.
Qed.

Lemma variance_parseval : forall M X, (1 <= M)%nat -> length X = M ->
  variance (series_of (2 * M) X) =
  sumR (map (fun c : R * R => 2 * (fst c * fst c + snd c * snd c)) (tl X)).
Proof.
  intros M X HM HX.
  destruct X as [|[re0 im0] rest]; [cbn in HX; lia|].
  cbn [length] in HX. cbn [tl].
  set (N := (2 * M)%nat).
  assert (HN : INR N <> 0) by (apply not_0_INR; unfold N; lia).
  assert (Hmean : meanR (series_of N ((re0, im0) :: rest)) = re0).
  { unfold meanR. rewrite series_length. unfold series_of.
    rewrite (sumR_map_iota (sample N ((re0, im0) :: rest))).
    rewrite (sumN_ext _ (fun i => re0 + 2 * F N rest 1 i)) by (intros; apply sample_as_F; exact HN).
    rewrite sumN_plus, sumN_scal, sumN_const.
    rewrite F_sum_zero by (unfold N; lia). field. exact HN. }
  unfold variance. rewrite Hmean.
  unfold meanR. rewrite map_length, series_length. unfold series_of. rewrite map_map.
  rewrite (sumR_map_iota (fun x => (sample N ((re0, im0) :: rest) x - re0) * (sample N ((re0, im0) :: rest) x - re0))).
  rewrite (sumN_ext _ (fun i => 4 * (F N rest 1 i * F N rest 1 i)))
    by (intros; rewrite sample_as_F by exact HN; ring).
  rewrite sumN_scal.
  rewrite (F_square_sum N M rest 1) by (unfold N; lia).
  assert (Hs : forall l : list (R * R),
             sumR (map (fun c : R * R => 2 * (fst c * fst c + snd c * snd c)) l)
             = 2 * sumR (map (fun c : R * R => fst c * fst c + snd c * snd c) l)).
  { induction l as [|a l IHl]; cbn [map sumR]; [ring|]. rewrite IHl. ring. }
  rewrite Hs. field. exact HN.
Qed.

(* the same statement for the single-harmonic case is the special case rest = [c] *)

(* ---- energy of a single-direction (or 1D) spectrum, bin by bin ---- *)
Fixpoint energy_terms (c : component) (xp : list R) (fg dfs : list R) (th dth : R) (e : list R) : list R :=
  match fg, dfs with
  | f :: fg', df :: dfs' =>
      (df * dth) * interp0 xp e f * factor_abs2 c (2 * PI * f) (rad th) :: energy_terms c xp fg' dfs' th dth e
  | _, _ => []
  end.

Lemma amplitudes_single_energy : forall c xp fg dfs th dth e phases,
  (length fg <= length phases)%nat ->
  (forall row, In row phases -> row <> []) ->
  (forall f df, In (f, df) (combine fg dfs) -> 0 <= (df * dth) * interp0 xp e f) ->
  map (fun x : R * R => 2 * (fst x * fst x + snd x * snd x)) (amplitudes c xp fg dfs [(th, dth, e)] phases)
  = energy_terms c xp fg dfs th dth e.
Proof.
  intros c xp fg. induction fg as [|f fg IH]; intros dfs th dth e phases Hlen Hrows Hpos; [reflexivity|].
  destruct dfs as [|df dfs]; [reflexivity|].
  destruct phases as [|ph phases]; [cbn in Hlen; lia|].
  cbn [amplitudes map energy_terms]. f_equal.
  - destruct ph as [|p0 ph']; [exfalso; apply (Hrows []); [left; reflexivity|reflexivity]|].
    cbn [bin_amp].
    assert (H0 : 0 <= (df * dth) * interp0 xp e f) by (apply Hpos; left; reflexivity).
    pose proof (amp_abs2 c (df * dth) (interp0 xp e f) p0 (2 * PI * f) (rad th) H0) as Ha.
    destruct (amp c (df * dth) (interp0 xp e f) p0 (2 * PI * f) (rad th)) as [re im].
    unfold cadd. cbn [fst snd].
    replace ((re + 0) * (re + 0) + (im + 0) * (im + 0)) with (re * re + im * im) by ring.
    rewrite Ha. field.
  - apply IH.
    + cbn in Hlen. lia.
    + intros row Hr. apply Hrows. right. exact Hr.
    + intros f' df' Hin. apply Hpos. right. exact Hin.
Qed.

Lemma amplitudes_length : forall c xp fg dfs cols phases,
  length fg = length dfs -> (length fg <= length phases)%nat ->
  length (amplitudes c xp fg dfs cols phases) = length fg.
Proof.
  intros c xp fg. induction fg as [|f fg IH]; intros dfs cols phases H1 H2; [reflexivity|].
  destruct dfs as [|df dfs]; [discriminate|]. destruct phases as [|ph phases]; [cbn in H2; lia|].
  cbn [amplitudes length]. f_equal. apply IH; cbn in *; lia.
Qed.

Lemma tl_map : forall (A B : Type) (f : A -> B) l, tl (map f l) = map f (tl l).
Proof. intros. destruct l; reflexivity. Qed.

(* variance of the series of a 1D / single-direction spectrum = sum over the non-zero FFT bins of
   area_k * E_k * |factor_k|^2  (E_k the spectrum resampled to the FFT bins) *)
Lemma variance_single_direction : forall c M xp fg dfs th dth e phases,
  (1 <= M)%nat -> length fg = M -> length dfs = M -> (M <= length phases)%nat ->
  (forall row, In row phases -> row <> []) ->
  (forall f df, In (f, df) (combine fg dfs) -> 0 <= (df * dth) * interp0 xp e f) ->
  variance (series_of (2 * M) (amplitudes c xp fg dfs [(th, dth, e)] phases))
  = sumR (tl (energy_terms c xp fg dfs th dth e)).
Proof.
  intros c M xp fg dfs th dth e phases HM Hfg Hdfs Hph Hrows Hpos.
  rewrite variance_parseval; [|exact HM|rewrite amplitudes_length; lia].
  rewrite <- tl_map. rewrite amplitudes_single_energy; [reflexivity|lia|exact Hrows|exact Hpos].
Qed.

(* ================================================================== *)
(* frequency_step of the (uniform) FFT grid is fs/nfft in every bin      *)
(* ================================================================== *)
Definition ap (n : nat) (s d : R) : list R := map (fun k => k * d) (iotaR n s).

Lemma ap_length : forall n s d, length (ap n s d) = n.
Proof. intros. unfold ap. rewrite map_length. apply iotaR_length. Qed.

Lemma ap_nth : forall n s d i, (i < n)%nat -> nth i (ap n s d) 0 = (s + INR i) * d.
Proof.
  intros n s d i H. unfold ap.
  rewrite nth_indep with (d' := (fun k => k * d) 0) by (rewrite map_length, iotaR_length; exact H).
  rewrite (map_nth (fun k => k * d)). rewrite iotaR_nth by exact H. reflexivity.
Qed.

Lemma ap_snoc : forall n s d, ap n s d ++ [(s + INR n) * d] = ap (S n) s d.
Proof.
  induction n as [|n IH]; intros s d.
  - cbn. f_equal. ring.
  - change (ap (S n) s d) with (s * d :: ap n (s + 1) d).
    change (ap (S (S n)) s d) with (s * d :: ap (S n) (s + 1) d).
    cbn [app]. f_equal. rewrite <- IH. f_equal. f_equal. rewrite S_INR. ring.
Qed.

Lemma last_nth_eq : forall (l : list R) d, last l d = nth (length l - 1) l d.
Proof.
  induction l as [|a t IH]; intros d; [reflexivity|].
  destruct t as [|b t']; [reflexivity|].
  change (last (a :: b :: t') d) with (last (b :: t') d). rewrite IH.
  cbn [length]. replace (S (S (length t')) - 1)%nat with (S (S (length t') - 1)) by lia.
  reflexivity.
Qed.

Lemma diffs_ap : forall n s d, Forall (fun x => x = d) (diffs (ap n s d)) /\ length (diffs (ap n s d)) = (n - 1)%nat.
Proof.
  induction n as [|n IH]; intros s d; [split; [constructor|reflexivity]|].
  destruct n as [|n]; [split; [constructor|reflexivity]|].
  change (ap (S (S n)) s d) with (s * d :: (s + 1) * d :: ap n (s + 1 + 1) d).
  change (diffs (s * d :: (s + 1) * d :: ap n (s + 1 + 1) d))
    with (((s + 1) * d - s * d) :: diffs ((s + 1) * d :: ap n (s + 1 + 1) d)).
  change ((s + 1) * d :: ap n (s + 1 + 1) d) with (ap (S n) (s + 1) d).
  destruct (IH (s + 1) d) as [H1 H2]. split.
  - constructor; [ring|exact H1].
  - cbn [length]. rewrite H2. lia.
Qed.

Lemma pairavg_const : forall l d, Forall (fun x => x = d) l ->
  Forall (fun x => x = d) (pairavg l) /\ length (pairavg l) = (length l - 1)%nat.
Proof.
  induction l as [|a t IH]; intros d H; [split; [constructor|reflexivity]|].
  destruct t as [|b t']; [split; [constructor|reflexivity]|].
  inversion H as [|? ? Ha Ht]; subst. inversion Ht as [|? ? Hb Ht']; subst.
  change (pairavg (d :: d :: t')) with ((d * (1 / 2) + d * (1 / 2)) :: pairavg (d :: t')).
  destruct (IH d Ht) as [H1 H2]. split.
  - constructor; [field|exact H1].
  - cbn [length] in *. rewrite H2. lia.
Qed.

Lemma frequency_step_ap : forall n s d, (2 <= n)%nat ->
  Forall (fun x => x = d) (frequency_step (ap n s d)) /\ length (frequency_step (ap n s d)) = n.
Proof.
  intros n s d Hn.
  destruct n as [|[|n]]; try lia.
  assert (Hext : frequency_step (ap (S (S n)) s d) = pairavg (diffs (ap (S (S (S (S n)))) (s - 1) d))).
  { unfold frequency_step.
    change (ap (S (S n)) s d) with (s * d :: (s + 1) * d :: ap n (s + 1 + 1) d) at 1.
    cbv iota beta.
    change (s * d :: (s + 1) * d :: ap n (s + 1 + 1) d) with (ap (S (S n)) s d).
    rewrite last_nth_eq, ap_length.
    rewrite !ap_nth by lia.
    apply (f_equal pairavg). apply (f_equal diffs).
    change (ap (S (S (S (S n)))) (s - 1) d) with ((s - 1) * d :: ap (S (S (S n))) (s - 1 + 1) d).
    replace (s - 1 + 1) with s by ring.
    rewrite <- (ap_snoc (S (S n)) s d).
    replace (2 * (s * d) - (s + 1) * d) with ((s - 1) * d) by ring.
    apply (f_equal (cons ((s - 1) * d))). apply (f_equal (app (ap (S (S n)) s d))).
    apply (f_equal (fun x => [x])).
    replace (S (S n) - 1)%nat with (S n) by lia. replace (S (S n) - 2)%nat with n by lia.
    rewrite !S_INR. ring. }
  rewrite Hext.
  destruct (diffs_ap (S (S (S (S n)))) (s - 1) d) as [H1 H2].
  destruct (pairavg_const _ d H1) as [H3 H4]. split; [exact H3|].
  rewrite H4, H2. lia.
Qed.

Lemma fft_freqs_is_ap : forall fs n,
  fft_freqs fs n = ap (nfft n / 2) 0 (1 / 2 * fs / INR (nfft n / 2)).
Proof. reflexivity. Qed.

Lemma Forall_nth_eq : forall (l : list R) d k, Forall (fun x => x = d) l -> (k < length l)%nat -> nth k l 0 = d.
Proof.
  intros l d k H Hk. rewrite Forall_forall in H. apply H. apply nth_In. exact Hk.
Qed.

(* the resampled grid has bin width fs/nfft in every bin (including the first and the last) *)
Lemma fft_frequency_step : forall fs n k, (4 <= n)%nat -> (k < nfft n / 2)%nat ->
  length (frequency_step (fft_freqs fs n)) = (nfft n / 2)%nat /\
  nth k (frequency_step (fft_freqs fs n)) 0 = fs / INR (nfft n).
Proof.
  intros fs n k Hn Hk. rewrite fft_freqs_is_ap.
  assert (HM : (2 <= nfft n / 2)%nat).
  { rewrite nfft_half. apply Nat.div_le_lower_bound; lia. }
  destruct (frequency_step_ap (nfft n / 2) 0 (1 / 2 * fs / INR (nfft n / 2)) HM) as [H1 H2].
  split; [exact H2|].
  rewrite (Forall_nth_eq _ _ k H1) by (rewrite H2; exact Hk).
  rewrite (nfft_twice_half n) at 2. rewrite mult_INR. cbn [INR].
  field. apply not_0_INR. lia.
Qed.

(* ================================================================== *)
(* spectra with energy in a single direction column                      *)
(* ================================================================== *)
Lemma amp_zero : forall c area ph w th, amp c area 0 ph w th = (0, 0).
Proof.
  intros. unfold amp. replace (area * 0 / 2) with 0 by field. rewrite sqrt_0.
  destruct (factor c w th). f_equal; ring.
Qed.

Lemma nth_all_zero : forall (l : list R) i, (forall v, In v l -> v = 0) -> nth i l 0 = 0.
Proof.
  intros l i H. destruct (lt_dec i (length l)) as [Hi|Hi].
  - apply H. apply nth_In. exact Hi.
  - apply nth_overflow. lia.
Qed.

Lemma interp0_zeros : forall xp e x, (forall v, In v e -> v = 0) -> interp0 xp e x = 0.
Proof.
  intros xp e x H. unfold interp0.
  destruct (Rlt_dec x (hd 0 xp)); [reflexivity|].
  destruct (Rlt_dec (last xp 0) x); [reflexivity|].
  destruct (Req_EM_T x (last xp 0)).
  - rewrite last_nth_eq. apply nth_all_zero. exact H.
  - rewrite (nth_all_zero e _ H), (nth_all_zero e _ H). ring.
Qed.

Definition col_e (col : column) : list R := snd col.

(* all columns except number j carry no energy: the bin amplitude is that of column j with ITS phase *)
Lemma bin_amp_single : forall c xp f df cols phases j,
  (j < length cols)%nat -> (length cols <= length phases)%nat ->
  (forall i, i <> j -> (i < length cols)%nat -> interp0 xp (col_e (nth i cols (0, 0, []))) f = 0) ->
  bin_amp c xp f df cols phases = bin_amp c xp f df [nth j cols (0, 0, [])] [nth j phases 0].
Proof.
  intros c xp f df cols. induction cols as [|[[th dth] e] cols IH]; intros phases j Hj Hlen Hz; [cbn in Hj; lia|].
  destruct phases as [|ph phases]; [cbn in Hlen; lia|].
  assert (Hrest0 : forall phs, (forall i, (i < length cols)%nat -> interp0 xp (col_e (nth i cols (0, 0, []))) f = 0) ->
                   bin_amp c xp f df cols phs = (0, 0)).
  { clear. induction cols as [|[[th dth] e] cols IH]; intros phs H; [reflexivity|].
    destruct phs as [|p phs]; [reflexivity|]. cbn [bin_amp].
    assert (E0 : interp0 xp e f = 0) by (apply (H O); cbn; lia).
    rewrite E0, amp_zero. rewrite IH.
    - unfold cadd. cbn. f_equal; ring.
    - intros i Hi. apply (H (S i)). cbn. lia. }
  destruct j as [|j].
  - cbn [nth bin_amp]. rewrite Hrest0; [reflexivity|].
    intros i Hi. apply (Hz (S i)); [lia|cbn; lia].
  - change (nth (S j) ((th, dth, e) :: cols) (0, 0, [])) with (nth j cols (0, 0, [])).
    change (nth (S j) (ph :: phases) 0) with (nth j phases 0).
    set (B := bin_amp c xp f df [nth j cols (0, 0, [])] [nth j phases 0]).
    cbn [bin_amp].
    assert (E0 : interp0 xp e f = 0) by (apply (Hz O); [lia|cbn; lia]).
    rewrite E0, amp_zero.
    rewrite (IH phases j).
    + fold B. destruct B as [a b]. unfold cadd. cbn [fst snd]. f_equal; ring.
    + cbn in Hj. lia.
    + cbn in Hlen. lia.
    + intros i Hij Hi. apply (Hz (S i)); [lia|cbn; lia].
Qed.

Lemma amplitudes_single : forall c xp fg dfs cols phases j,
  (j < length cols)%nat ->
  (forall row, In row phases -> (length cols <= length row)%nat) ->
  (forall i x, i <> j -> (i < length cols)%nat -> interp0 xp (col_e (nth i cols (0, 0, []))) x = 0) ->
  amplitudes c xp fg dfs cols phases
  = amplitudes c xp fg dfs [nth j cols (0, 0, [])] (map (fun row => [nth j row 0]) phases).
Proof.
  intros c xp fg. induction fg as [|f fg IH]; intros dfs cols phases j Hj Hrows Hz; [reflexivity|].
  destruct dfs as [|df dfs]; [reflexivity|]. destruct phases as [|ph phases]; [reflexivity|].
  cbn [amplitudes map]. f_equal.
  - apply bin_amp_single; [exact Hj|apply Hrows; left; reflexivity|].
    intros i Hi Hl. apply Hz; assumption.
  - apply IH; [exact Hj| |exact Hz]. intros row Hr. apply Hrows. right. exact Hr.
Qed.

(* ================================================================== *)
(* the variance statement on surface_timeseries itself                   *)
(* ================================================================== *)
Lemma combine_dfs_value : forall fs n f df, (4 <= n)%nat ->
  In (f, df) (combine (fft_freqs fs n) (frequency_step (fft_freqs fs n))) -> df = fs / INR (nfft n).
Proof.
  intros fs n f df Hn Hin. apply in_combine_r in Hin.
  apply In_nth with (d := 0) in Hin. destruct Hin as (k & Hk & <-).
  assert (HM : (2 <= nfft n / 2)%nat) by (rewrite nfft_half; apply Nat.div_le_lower_bound; lia).
  destruct (fft_frequency_step fs n O Hn ltac:(lia)) as [Hl _]. rewrite Hl in Hk.
  apply (fft_frequency_step fs n k Hn Hk).
Qed.

Lemma variance_of_timeseries : forall c fs n xp cols phases j t s,
  (4 <= n)%nat -> 0 < fs ->
  (j < length cols)%nat ->
  length phases = (nfft n / 2)%nat ->
  (forall row, In row phases -> (length cols <= length row)%nat) ->
  (forall i x, i <> j -> (i < length cols)%nat -> interp0 xp (col_e (nth i cols (0, 0, []))) x = 0) ->
  let '(th, dth, e) := nth j cols (0, 0, []) in
  0 <= dth -> (forall x, 0 <= interp0 xp e x) ->
  surface_timeseries c fs n xp cols phases = Some (t, s) ->
  variance s = sumR (tl (energy_terms c xp (fft_freqs fs n) (frequency_step (fft_freqs fs n)) th dth e)).
Proof.
  intros c fs n xp cols phases j t s Hn Hfs Hj Hph Hrows Hz.
  destruct (nth j cols (0, 0, [])) as [[th dth] e] eqn:Ecol.
  intros Hdth He H.
  unfold surface_timeseries in H. destruct (Nat.ltb (nfft n / 2) 2); [discriminate|].
  inversion H; subst t s. clear H.
  unfold spectrum_amplitudes.
  rewrite (amplitudes_single c xp _ _ cols phases j Hj Hrows Hz). rewrite Ecol.
  assert (HM : (2 <= nfft n / 2)%nat) by (rewrite nfft_half; apply Nat.div_le_lower_bound; lia).
  rewrite (nfft_twice_half n) at 1.
  apply variance_single_direction.
  - lia.
  - apply freqs_length.
  - apply (fft_frequency_step fs n O Hn). lia.
  - rewrite map_length, Hph. lia.
  - intros row Hr. apply in_map_iff in Hr. destruct Hr as (r & <- & _). discriminate.
  - intros f df Hin. rewrite (combine_dfs_value fs n f df Hn Hin).
    apply Rmult_le_pos; [|apply He]. apply Rmult_le_pos; [|exact Hdth].
    left. apply Rdiv_lt_0_compat; [exact Hfs|]. apply lt_0_INR. rewrite (nfft_twice_half n). lia.
Qed.

(* the k-th energy term written out: (fs/nfft) * dtheta * E_k * |factor_k|^2 at f_k = k fs/nfft *)
Lemma energy_terms_nth : forall c xp fg dfs th dth e k, (k < length fg)%nat -> (k < length dfs)%nat ->
  nth k (energy_terms c xp fg dfs th dth e) 0 =
  (nth k dfs 0 * dth) * interp0 xp e (nth k fg 0) * factor_abs2 c (2 * PI * nth k fg 0) (rad th).
Proof.
  intros c xp fg. induction fg as [|f fg IH]; intros dfs th dth e k H1 H2; [cbn in H1; lia|].
  destruct dfs as [|df dfs]; [cbn in H2; lia|].
  destruct k as [|k]; [reflexivity|]. cbn [energy_terms nth]. apply IH; cbn in *; lia.
Qed.

(* ================================================================== *)
(* the resampled spectrum of a non-negative spectrum is non-negative    *)
(* ================================================================== *)
Lemma count_le_spec : forall xp x,
  (forall j, (j < count_le xp x)%nat -> nth j xp 0 <= x) /\
  ((count_le xp x < length xp)%nat -> x < nth (count_le xp x) xp 0) /\
  (count_le xp x <= length xp)%nat.
Proof.
  induction xp as [|a t IH]; intros x.
  - cbn. repeat split; intros; lia.
  - cbn [count_le]. destruct (Rle_dec a x) as [Ha|Ha].
    + destruct (IH x) as (H1 & H2 & H3). repeat split.
      * intros j Hj. destruct j as [|j]; [exact Ha|]. cbn [nth]. apply H1. lia.
      * intros Hl. cbn [nth]. apply H2. cbn [length] in Hl. lia.
      * cbn [length]. lia.
    + repeat split; [intros; lia| |cbn [length]; lia]. intros _. cbn [nth]. lra.
Qed.

Lemma nth_nonneg : forall (l : list R) i, (forall v, In v l -> 0 <= v) -> 0 <= nth i l 0.
Proof.
  intros l i H. destruct (lt_dec i (length l)) as [Hi|Hi].
  - apply H. apply nth_In. exact Hi.
  - rewrite nth_overflow by lia. lra.
Qed.

Lemma interp0_nonneg : forall xp e x, (forall v, In v e -> 0 <= v) -> 0 <= interp0 xp e x.
Proof.
  intros xp e x He. unfold interp0.
  destruct (Rlt_dec x (hd 0 xp)) as [H0|H0]; [lra|].
  destruct (Rlt_dec (last xp 0) x) as [H1|H1]; [lra|].
  destruct (Req_EM_T x (last xp 0)) as [H2|H2].
  - rewrite last_nth_eq. apply nth_nonneg. exact He.
  - destruct (count_le_spec xp x) as (Hb & Ha & Hl).
    set (i1 := count_le xp x) in *.
    assert (Hxl : x < last xp 0) by lra.
    assert (Hlt : (i1 < length xp)%nat).
    { destruct (lt_dec i1 (length xp)) as [H|H]; [exact H|]. exfalso.
      assert (i1 = length xp) by lia.
      destruct xp as [|a t]; [cbn in *; lra|].
      assert (last (a :: t) 0 <= x).
      { rewrite last_nth_eq. apply Hb. cbn [length] in *. lia. }
      lra. }
    assert (Hpos : (1 <= i1)%nat).
    { destruct xp as [|a t]; [cbn in Hlt; lia|]. unfold i1. cbn [count_le hd] in *.
      destruct (Rle_dec a x); [lia|lra]. }
    specialize (Ha Hlt). assert (Hb' : nth (i1 - 1) xp 0 <= x) by (apply Hb; lia).
    set (x0 := nth (i1 - 1) xp 0) in *. set (x1 := nth i1 xp 0) in *.
    assert (Hd : 0 < x1 - x0) by lra.
    assert (Hf0 : 0 <= (x - x0) / (x1 - x0)).
    { unfold Rdiv. apply Rmult_le_pos; [lra|]. left. apply Rinv_0_lt_compat. exact Hd. }
    assert (Hf1 : (x - x0) / (x1 - x0) <= 1).
    { apply Rmult_le_reg_r with (x1 - x0); [exact Hd|].
      unfold Rdiv. rewrite Rmult_assoc, Rinv_l, Rmult_1_r by lra. lra. }
    pose proof (nth_nonneg e (i1 - 1) He). pose proof (nth_nonneg e i1 He).
    apply Rplus_le_le_0_compat; apply Rmult_le_pos; lra.
Qed.

(* the variance statement for a 1D spectrum (non-negative, any frequency grid) *)
Lemma variance_1d : forall c fs n xp e phases t s,
  (4 <= n)%nat -> 0 < fs ->
  length phases = (nfft n / 2)%nat ->
  (forall row, In row phases -> (1 <= length row)%nat) ->
  (forall v, In v e -> 0 <= v) ->
  surface_timeseries c fs n xp (cols1d e) phases = Some (t, s) ->
  variance s = sumR (tl (energy_terms c xp (fft_freqs fs n) (frequency_step (fft_freqs fs n)) 0 1 e)).
Proof.
  intros c fs n xp e phases t s Hn Hfs Hph Hrows He H.
  pose proof (variance_of_timeseries c fs n xp (cols1d e) phases 0 t s Hn Hfs) as V.
  cbn [cols1d nth length] in V. apply V.
  - lia.
  - exact Hph.
  - exact Hrows.
  - intros i x Hi Hl. lia.
  - lra.
  - intros x. apply interp0_nonneg. exact He.
  - exact H.
Qed.

Lemma variance_1d_example : exists t s,
  surface_timeseries CZ 2 4 [1 / 4; 1] (cols1d [1; 1]) [[0]; [0]] = Some (t, s) /\
  variance s = sumR (tl (energy_terms CZ [1 / 4; 1] (fft_freqs 2 4) (frequency_step (fft_freqs 2 4)) 0 1 [1; 1])).
Proof.
  destruct (surface_timeseries CZ 2 4 [1 / 4; 1] (cols1d [1; 1]) [[0]; [0]]) as [[t s]|] eqn:E.
  - exists t, s. split; [reflexivity|].
    apply (variance_1d CZ 2 4 [1 / 4; 1] [1; 1] [[0]; [0]] t s).
    + apply le_n.
    + apply Rlt_0_2.
    + reflexivity.
    + intros row [<-|[<-|[]]]; apply le_n.
    + intros v [<-|[<-|[]]]; apply Rle_0_1.
    + exact E.
  - exfalso. apply raises_iff_short in E. lia.
Qed.
