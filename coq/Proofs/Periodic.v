(* Proofs about the periodic branches of Model/Interp.v and about Model/Periodic.v (C14). *)
From Coq Require Import Reals ZArith List Arith Lia Lra.
From OSU.Lib Require Import InterpAuxDefs InterpAux.
From OSU.Model Require Import Interp Periodic.
From OSU.Proofs Require Import Interp.
Import ListNotations.
Open Scope R_scope.

(* ------------------------------------------------------------------ *)
(* x and x + k*P : equal indices, equal weights, equal results          *)
(* ------------------------------------------------------------------ *)

Lemma flipx_shift : forall xp x k P, exists k', flipx xp (x + IZR k * P) = flipx xp x + IZR k' * P.
Proof.
  intros xp x k P. unfold flipx. destruct (descending xp).
  - exists (- k)%Z. rewrite opp_IZR. ring.
  - exists k. reflexivity.
Qed.

Lemma enclosing_shift : forall xp x k P, 0 < P ->
  enclosing xp (x + IZR k * P) (Some P) = enclosing xp x (Some P).
Proof.
  intros xp x k P HP. unfold enclosing.
  destruct (flipx_shift xp x k P) as [k' E]. rewrite E.
  replace (flipx xp x + IZR k' * P - hd0 (flipxp xp)) with (flipx xp x - hd0 (flipxp xp) + IZR k' * P) by ring.
  rewrite fmod_shift by exact HP. reflexivity.
Qed.

Lemma frac_shift : forall xp x k P ii el er, 0 < P ->
  frac xp (x + IZR k * P) ii (Some P) el er = frac xp x ii (Some P) el er.
Proof.
  intros xp x k P ii el er HP. unfold frac.
  destruct (flipx_shift xp x k P) as [k' E]. rewrite E. cbn [wd].
  replace (flipx xp x + IZR k' * P - rnth (flipxp xp) (fst ii))
    with (flipx xp x - rnth (flipxp xp) (fst ii) + IZR k' * P) by ring.
  rewrite wrapdiff_shift by exact HP. reflexivity.
Qed.

Lemma axis_corners_shift : forall xp rows x k P nearest, 0 < P ->
  axis_corners xp rows (x + IZR k * P) (Some P) nearest = axis_corners xp rows x (Some P) nearest.
Proof.
  intros xp rows x k P nearest HP. unfold axis_corners, frac_n.
  rewrite enclosing_shift by exact HP. rewrite frac_shift by exact HP. reflexivity.
Qed.

(* any number of periods away: same result, plain data and angular data alike *)
Lemma periodic_shift : forall xp rows x k P nearest np, 0 < P ->
  interp_axis1 xp rows (x + IZR k * P) (Some P) nearest np = interp_axis1 xp rows x (Some P) nearest np.
Proof. intros. unfold interp_axis1. rewrite axis_corners_shift by assumption. reflexivity. Qed.

Lemma periodic_shift_pd : forall xp rows x k P nearest np Pd, 0 < P ->
  interp_axis1_pd xp rows (x + IZR k * P) (Some P) nearest np Pd
  = interp_axis1_pd xp rows x (Some P) nearest np Pd.
Proof. intros. unfold interp_axis1_pd. rewrite axis_corners_shift by assumption. reflexivity. Qed.

(* N axes: every periodic coordinate of the point may be moved by its own number of periods *)
Definition shift_coord (p : option R) (k : Z) (x : R) : R :=
  match p with Some P => x + IZR k * P | None => x end.

Fixpoint shift_pt (periods : list (option R)) (ks : list Z) (pt : list R) : list R :=
  match periods, ks, pt with
  | p :: ps, k :: kt, x :: xt => shift_coord p k x :: shift_pt ps kt xt
  | _, _, _ => pt
  end.

Definition pos_period (p : option R) : Prop := match p with Some P => 0 < P | None => True end.

Lemma nd_axes_shift : forall grids periods ks pt nearest, Forall pos_period periods ->
  nd_axes grids periods (shift_pt periods ks pt) nearest = nd_axes grids periods pt nearest.
Proof.
  unfold nd_axes. induction grids as [|g gs IH]; intros periods ks pt nearest HF.
  - reflexivity.
  - destruct periods as [|p ps]; [reflexivity|]. destruct ks as [|k kt]; [reflexivity|].
    destruct pt as [|x xt]; [reflexivity|].
    inversion HF as [|p' ps' Hp Hps]; subst.
    cbn [combine shift_pt map2]. f_equal.
    + destruct p as [P|]; cbn [shift_coord]; [|reflexivity]. cbn in Hp.
      rewrite enclosing_shift by exact Hp. unfold frac_n. rewrite frac_shift by exact Hp. reflexivity.
    + apply IH. exact Hps.
Qed.

Lemma interp_nd_shift : forall grids periods data ks pt nearest, Forall pos_period periods ->
  interp_nd grids periods data (shift_pt periods ks pt) nearest = interp_nd grids periods data pt nearest.
Proof. intros. unfold interp_nd, nd_corner_list. rewrite nd_axes_shift by assumption. reflexivity. Qed.

Lemma interp_nd_pd_shift : forall grids periods data ks pt nearest Pd, Forall pos_period periods ->
  interp_nd_pd grids periods data (shift_pt periods ks pt) nearest Pd
  = interp_nd_pd grids periods data pt nearest Pd.
Proof. intros. unfold interp_nd_pd, nd_corner_list. rewrite nd_axes_shift by assumption. reflexivity. Qed.

(* ------------------------------------------------------------------ *)
(* periodic grids: every target has cyclic neighbours, weights in [0,1) *)
(* ------------------------------------------------------------------ *)

(* strictly ascending, less than one period long, every cyclic gap below half a period *)
Definition pgrid (xp : list R) (P : R) : Prop :=
  sasc xp /\ (1 <= length xp)%nat /\ 0 < P /\
  last0 xp - hd0 xp < P /\
  (forall i, (i + 1 < length xp)%nat -> rnth xp (i + 1) - rnth xp i < P / 2) /\
  hd0 xp + P - last0 xp < P / 2.

Lemma periodic_bracket : forall xp P x, pgrid xp P ->
  let n := length xp in
  let x2 := fmod (x - hd0 xp) P + hd0 xp in
  let ii := enclosing xp x (Some P) in
  exists t, frac xp x ii (Some P) false false = Some t /\ 0 <= t < 1 /\
    (fst ii < n)%nat /\ snd ii = ((fst ii + 1) mod n)%nat /\
    (exists m : Z, x = x2 + IZR m * P) /\
    ((fst ii + 1 < n)%nat ->
       rnth xp (fst ii) <= x2 < rnth xp (fst ii + 1) /\
       t = (x2 - rnth xp (fst ii)) / (rnth xp (fst ii + 1) - rnth xp (fst ii))) /\
    ((fst ii + 1 = n)%nat ->
       last0 xp <= x2 < hd0 xp + P /\
       t = (x2 - last0 xp) / (hd0 xp + P - last0 xp)).
Proof.
  intros xp P x [Hs [Hn [HP [Hspan [Hgap Hseam]]]]] n x2 ii.
  pose proof (sasc_asc _ Hs) as Ha.
  pose proof (fmod_range (x - hd0 xp) P HP) as Hf.
  assert (Hx2 : hd0 xp <= x2 < hd0 xp + P) by (unfold x2; lra).
  assert (Hm : exists m : Z, x = x2 + IZR m * P).
  { exists (Int_part ((x - hd0 xp) / P)). unfold x2.
    pose proof (fmod_decomp (x - hd0 xp) P). lra. }
  destruct (ssr_spec xp x2 Ha) as [S1 S2].
  pose proof (ssr_le_length xp x2) as Sle. fold n in Sle, S2.
  assert (Hk1 : (1 <= ssr xp x2)%nat).
  { destruct (ssr xp x2) eqn:E; [|lia]. exfalso.
    assert (x2 < rnth xp 0) by (apply S2; lia). rewrite <- hd0_rnth in H. lra. }
  assert (Eii : ii = ((ssr xp x2 - 1)%nat, (ssr xp x2 mod n)%nat)).
  { unfold ii, enclosing. rewrite asc_flipx, asc_flipxp by exact Ha. fold x2. fold n.
    replace (Nat.eqb (ssr xp x2) 0) with false by (symmetry; apply Nat.eqb_neq; lia).
    f_equal. apply Nat.mod_small. lia. }
  destruct Hm as [m Hm].
  destruct (Nat.eq_dec (ssr xp x2) n) as [Hkn|Hkn].
  - (* the bin that spans the wrap *)
    assert (Ei : ii = ((n - 1)%nat, 0%nat)).
    { rewrite Eii, Hkn. f_equal. apply Nat.mod_same. lia. }
    assert (Hlast : rnth xp (n - 1) <= x2) by (apply S1; lia).
    rewrite <- last0_rnth in Hlast.
    remember (hd0 xp + P - last0 xp) as w eqn:Ew.
    assert (Hw : 0 < w) by lra.
    exists ((x2 - last0 xp) / w).
    rewrite Ei. cbn [fst snd]. split; [|split; [|split; [|split; [|split; [|split]]]]].
    + unfold frac. rewrite asc_flipx, asc_flipxp by exact Ha. cbn [wd fst snd].
      rewrite <- last0_rnth. rewrite <- hd0_rnth.
      rewrite (wrapdiff_unique (hd0 xp - last0 xp) P (P / 2) w (-1)%Z HP) by (first [lra | rewrite Ew; simpl IZR; ring]).
      rewrite (wrapdiff_unique (x - last0 xp) P (P / 2) (x2 - last0 xp) m HP) by (first [lra | rewrite Hm; ring]).
      destruct (Req_EM_T w 0); [lra|]. reflexivity.
    + apply div_bounds. lra.
    + fold n. lia.
    + replace (n - 1 + 1)%nat with n by lia. symmetry. apply Nat.mod_same. lia.
    + exists m. exact Hm.
    + intros Hc. exfalso. fold n in Hc. lia.
    + intros _. split; [lra|reflexivity].
  - (* an ordinary bin *)
    set (i := (ssr xp x2 - 1)%nat) in *.
    assert (Hi : (i + 1 < n)%nat) by (unfold i; lia).
    assert (Ei : ii = (i, (i + 1)%nat)).
    { rewrite Eii. f_equal. replace (ssr xp x2) with (i + 1)%nat by (unfold i; lia).
      apply Nat.mod_small. exact Hi. }
    assert (Hlo : rnth xp i <= x2) by (apply S1; unfold i; lia).
    assert (Hhi : x2 < rnth xp (i + 1)) by (apply S2; unfold i; lia).
    pose proof (Hgap i Hi) as Hg.
    assert (Hpos : rnth xp i < rnth xp (i + 1)) by (apply Hs; fold n; lia).
    exists ((x2 - rnth xp i) / (rnth xp (i + 1) - rnth xp i)).
    rewrite Ei. cbn [fst snd]. split; [|split; [|split; [|split; [|split; [|split]]]]].
    + unfold frac. rewrite asc_flipx, asc_flipxp by exact Ha. cbn [wd fst snd].
      rewrite (wrapdiff_id (rnth xp (i + 1) - rnth xp i) P (P / 2) HP) by lra.
      rewrite (wrapdiff_unique (x - rnth xp i) P (P / 2) (x2 - rnth xp i) m HP) by (first [lra | rewrite Hm; ring]).
      destruct (Req_EM_T (rnth xp (i + 1) - rnth xp i) 0); [lra|]. reflexivity.
    + apply div_bounds. lra.
    + fold n. lia.
    + symmetry. apply Nat.mod_small. exact Hi.
    + exists m. exact Hm.
    + intros _. split; [lra|reflexivity].
    + intros Hc. exfalso. lia.
Qed.

(* weights in [0,1] for every target, also for the bin that spans the wrap *)
Lemma wrap_bin_weights : forall xp P x, pgrid xp P ->
  exists t, frac xp x (enclosing xp x (Some P)) (Some P) false false = Some t /\ 0 <= t < 1 /\
            w_lo (Some t) = Some (1 - t) /\ 0 < 1 - t <= 1.
Proof.
  intros xp P x Hg. destruct (periodic_bracket xp P x Hg) as [t [E [Ht _]]].
  exists t. split; [exact E|]. split; [exact Ht|]. split; [reflexivity|lra].
Qed.

(* a periodic target is never out of range: finite neighbours give a finite value between them *)
Lemma periodic_in_range : forall xp rows P x np j, pgrid xp P -> (j < np)%nat ->
  (forall i, (i < length xp)%nat -> all_some (nth i rows []) = true) ->
  let ii := enclosing xp x (Some P) in
  let f0 := oget (nth (fst ii) rows []) j in
  let f1 := oget (nth (snd ii) rows []) j in
  exists t, 0 <= t < 1 /\
    nth j (interp_axis1 xp rows x (Some P) false np) None = Some ((1 - t) * f0 + t * f1) /\
    Rmin f0 f1 <= (1 - t) * f0 + t * f1 <= Rmax f0 f1.
Proof.
  intros xp rows P x np j Hg Hj Hv ii f0 f1.
  destruct (periodic_bracket xp P x Hg) as [t [E [Ht [Hi0 [Hi1 _]]]]]. fold ii in E, Hi0, Hi1.
  exists t. split; [exact Ht|]. split.
  - unfold interp_axis1, axis_corners, frac_n. fold ii. rewrite E. cbn [w_lo w_hi osub].
    apply two_corners_valid; try assumption.
    + apply Hv. exact Hi0.
    + apply Hv. rewrite Hi1. apply Nat.mod_upper_bound. destruct Hg as [_ [Hn _]]. lia.
  - apply convex_between. lra.
Qed.

(* ------------------------------------------------------------------ *)
(* angular data: the unit-vector mean                                   *)
(* ------------------------------------------------------------------ *)

Lemma sin_Zperiod : forall x k, sin (x + 2 * IZR k * PI) = sin x.
Proof.
  intros x k. destruct (Z_le_gt_dec 0 k) as [Hk|Hk].
  - rewrite <- (Z2Nat.id k Hk). rewrite <- INR_IZR_INZ. apply sin_period.
  - rewrite <- (sin_period (x + 2 * IZR k * PI) (Z.to_nat (- k))).
    rewrite INR_IZR_INZ, Z2Nat.id by lia. rewrite opp_IZR. f_equal. ring.
Qed.

Lemma cos_Zperiod : forall x k, cos (x + 2 * IZR k * PI) = cos x.
Proof.
  intros x k. destruct (Z_le_gt_dec 0 k) as [Hk|Hk].
  - rewrite <- (Z2Nat.id k Hk). rewrite <- INR_IZR_INZ. apply cos_period.
  - rewrite <- (cos_period (x + 2 * IZR k * PI) (Z.to_nat (- k))).
    rewrite INR_IZR_INZ, Z2Nat.id by lia. rewrite opp_IZR. f_equal. ring.
Qed.

Lemma to_rad_period : forall P x k, 0 < P -> (x + IZR k * P) * to_rad P = x * to_rad P + 2 * IZR k * PI.
Proof. intros P x k HP. unfold to_rad. field. lra. Qed.

(* the mean of two unit vectors with weights (1-w, w) written with the angle between them *)
Lemma mean_cross_left : forall al be w,
  cos al * ((1 - w) * sin al + w * sin be) - sin al * ((1 - w) * cos al + w * cos be) = w * sin (be - al).
Proof. intros. rewrite sin_minus. ring. Qed.

Lemma mean_cross_right : forall al be w,
  ((1 - w) * cos al + w * cos be) * sin be - ((1 - w) * sin al + w * sin be) * cos be = (1 - w) * sin (be - al).
Proof. intros. rewrite sin_minus. ring. Qed.

Lemma mean_dot_bisector : forall al be w,
  ((1 - w) * cos al + w * cos be) * (cos al + cos be) + ((1 - w) * sin al + w * sin be) * (sin al + sin be)
  = 1 + cos (be - al).
Proof.
  intros. rewrite cos_minus.
  pose proof (sin2_cos2 al) as Ha. pose proof (sin2_cos2 be) as Hb. unfold Rsqr in Ha, Hb.
  replace (((1 - w) * cos al + w * cos be) * (cos al + cos be) + ((1 - w) * sin al + w * sin be) * (sin al + sin be))
    with ((1 - w) * (sin al * sin al + cos al * cos al) + w * (sin be * sin be + cos be * cos be)
          + (cos al * cos be + sin al * sin be)) by ring.
  rewrite Ha, Hb. ring.
Qed.

Lemma mean_norm_sq : forall al be w,
  ((1 - w) * cos al + w * cos be) * ((1 - w) * cos al + w * cos be)
  + ((1 - w) * sin al + w * sin be) * ((1 - w) * sin al + w * sin be)
  = (1 - 2 * w) * (1 - 2 * w) + 2 * w * (1 - w) * (1 + cos (be - al)).
Proof.
  intros. rewrite cos_minus.
  pose proof (sin2_cos2 al) as Ha. pose proof (sin2_cos2 be) as Hb. unfold Rsqr in Ha, Hb.
  replace (((1 - w) * cos al + w * cos be) * ((1 - w) * cos al + w * cos be)
           + ((1 - w) * sin al + w * sin be) * ((1 - w) * sin al + w * sin be))
    with ((1 - w) * (1 - w) * (sin al * sin al + cos al * cos al) + w * w * (sin be * sin be + cos be * cos be)
          + 2 * w * (1 - w) * (cos al * cos be + sin al * sin be)) by ring.
  rewrite Ha, Hb. ring.
Qed.

(* The unit-vector mean of two non antipodal angles a, b (any representatives, period P) with
   weights (1-w, w) lies on the SHORTER arc from a to b: with d = wrapped difference of b - a
   (|d| < P/2), the cross products (a x v) and (v x b) have the sign of d, v has a positive
   component along the bisector, and v is not the zero vector. *)
Lemma unit_mean_short_arc : forall P a b w, 0 < P -> 0 <= w <= 1 ->
  let d := wrapdiff (b - a) P (P / 2) in
  d <> - (P / 2) ->
  let al := a * to_rad P in
  let be := b * to_rad P in
  let re := (1 - w) * cos al + w * cos be in
  let im := (1 - w) * sin al + w * sin be in
  - (P / 2) < d < P / 2 /\
  (0 <= d -> 0 <= cos al * im - sin al * re /\ 0 <= re * sin be - im * cos be) /\
  (d <= 0 -> cos al * im - sin al * re <= 0 /\ re * sin be - im * cos be <= 0) /\
  0 < re * (cos al + cos be) + im * (sin al + sin be) /\
  0 < re * re + im * im.
Proof.
  intros P a b w HP Hw d Hd al be re im.
  pose proof (wrapdiff_range (b - a) P (P / 2) HP) as Hr. fold d in Hr.
  assert (Hdr : - (P / 2) < d < P / 2) by lra.
  destruct (wrapdiff_congr (b - a) P (P / 2)) as [k Hk]. fold d in Hk.
  assert (Hang : be - al = d * to_rad P + 2 * IZR (- k) * PI).
  { unfold be, al. replace (b * to_rad P - a * to_rad P) with ((b - a) * to_rad P) by ring.
    replace (b - a) with (d + IZR (- k) * P) by (rewrite opp_IZR; lra).
    apply to_rad_period. exact HP. }
  assert (Hsin : sin (be - al) = sin (d * to_rad P)) by (rewrite Hang; apply sin_Zperiod).
  assert (Hcos : cos (be - al) = cos (d * to_rad P)) by (rewrite Hang; apply cos_Zperiod).
  pose proof PI_RGT_0 as HPI.
  assert (Htr : 0 < to_rad P) by (unfold to_rad; apply div_pos_lt; lra).
  assert (Hphi : - PI < d * to_rad P < PI).
  { assert (E : (P / 2) * to_rad P = PI) by (unfold to_rad; field; lra).
    split.
    - assert ((- (P / 2)) * to_rad P < d * to_rad P) by (apply Rmult_lt_compat_r; lra). lra.
    - assert (d * to_rad P < (P / 2) * to_rad P) by (apply Rmult_lt_compat_r; lra). lra. }
  assert (Hc1 : 0 < 1 + cos (be - al)).
  { rewrite Hcos. destruct (Req_dec (cos (d * to_rad P)) (-1)) as [Em|Em]; [|pose proof (COS_bound (d * to_rad P)); lra].
    exfalso.
    (* cos = -1 forces sin = 0, and on (-PI, PI) sin = 0 only at 0 where cos = 1 *)
    pose proof (sin2_cos2 (d * to_rad P)) as H2. unfold Rsqr in H2. rewrite Em in H2.
    assert (Hs0 : sin (d * to_rad P) = 0).
    { assert (sin (d * to_rad P) * sin (d * to_rad P) = 0) by lra.
      destruct (Rmult_integral _ _ H); assumption. }
    destruct (Rtotal_order (d * to_rad P) 0) as [Hn|[Hz|Hp]].
    - assert (0 < sin (- (d * to_rad P))) by (apply sin_gt_0; lra). rewrite sin_neg in H. lra.
    - rewrite Hz, cos_0 in Em. lra.
    - assert (0 < sin (d * to_rad P)) by (apply sin_gt_0; lra). lra. }
  split; [exact Hdr|].
  unfold re, im. rewrite mean_cross_left, mean_cross_right, mean_dot_bisector, mean_norm_sq, Hsin.
  split; [|split; [|split]].
  - intros Hd0.
    assert (0 <= sin (d * to_rad P)).
    { destruct (Req_dec d 0) as [->|]; [rewrite Rmult_0_l, sin_0; lra|].
      left. apply sin_gt_0; [apply Rmult_lt_0_compat; lra|lra]. }
    split; apply Rmult_le_pos; lra.
  - intros Hd0.
    assert (sin (d * to_rad P) <= 0).
    { destruct (Req_dec d 0) as [->|]; [rewrite Rmult_0_l, sin_0; lra|].
      assert (0 < sin (- (d * to_rad P))).
      { apply sin_gt_0; [|lra]. replace (- (d * to_rad P)) with ((- d) * to_rad P) by ring.
        apply Rmult_lt_0_compat; lra. }
      rewrite sin_neg in H0. lra. }
    split.
    + assert (0 <= w * (- sin (d * to_rad P))) by (apply Rmult_le_pos; lra). lra.
    + assert (0 <= (1 - w) * (- sin (d * to_rad P))) by (apply Rmult_le_pos; lra). lra.
  - exact Hc1.
  - pose proof (Rle_0_sqr (1 - 2 * w)) as Hsq. unfold Rsqr in Hsq.
    assert (0 <= 2 * w * (1 - w) * (1 + cos (be - al))).
    { apply Rmult_le_pos; [|lra]. apply Rmult_le_pos; lra. }
    destruct (Req_dec w 0) as [->|Hw0]; [lra|].
    destruct (Req_dec w 1) as [->|Hw1]; [lra|].
    assert (0 < 2 * w * (1 - w) * (1 + cos (be - al))).
    { apply Rmult_lt_0_compat; [|lra]. apply Rmult_lt_0_compat; lra. }
    lra.
Qed.

(* the angle that is returned represents the mean vector, and lies in [0, P) *)
Lemma angle_of_spec : forall P re im, 0 < P -> (re <> 0 \/ im <> 0) ->
  let th := angle_of (re, im) P in
  0 <= th < P /\
  re = sqrt (re * re + im * im) * cos (th * to_rad P) /\
  im = sqrt (re * re + im * im) * sin (th * to_rad P).
Proof.
  intros P re im HP Hne th. unfold th, angle_of. cbn [fst snd].
  pose proof PI_RGT_0 as HPI.
  destruct (atan2_spec re im Hne) as [Hc [Hs _]].
  set (phi := atan2 im re) in *.
  pose proof (wrapdiff_range (phi * P / PI / 2) P P HP) as Hr.
  destruct (wrapdiff_congr (phi * P / PI / 2) P P) as [k Hk].
  set (t := wrapdiff (phi * P / PI / 2) P P) in *.
  assert (Ht : t * to_rad P = phi + 2 * IZR k * PI).
  { rewrite Hk. unfold to_rad. field. lra. }
  split; [lra|]. rewrite Ht, cos_Zperiod, sin_Zperiod. split; assumption.
Qed.

Lemma direction_range : forall cs np P j v, 0 < P ->
  nth j (interp_corners_periodic cs np P) None = Some v -> 0 <= v < P.
Proof.
  intros cs np P j v HP H. unfold interp_corners_periodic in H.
  destruct (Nat.lt_ge_cases j np) as [Hj|Hj].
  - rewrite nth_map_seq in H by exact Hj. cbn [Nat.add] in H.
    destruct (periodic_vec cs j P) as [vec|]; [|discriminate].
    cbn [option_map] in H. injection H as <-. unfold angle_of.
    pose proof (wrapdiff_range (atan2 (snd vec) (fst vec) * P / PI / 2) P P HP). lra.
  - rewrite nth_overflow in H by (rewrite map_length, seq_length; exact Hj). discriminate.
Qed.

(* two present nodes with weights (1-t, t): the normalised mean vector *)
Lemma periodic_vec_two : forall t r0 r1 j P, all_some r0 = true -> all_some r1 = true ->
  periodic_vec [mkc (Some (1 - t)) r0; mkc (Some t) r1] j P
  = Some ((1 - t) * cos (oget r0 j * to_rad P) + t * cos (oget r1 j * to_rad P),
          (1 - t) * sin (oget r0 j * to_rad P) + t * sin (oget r1 j * to_rad P)).
Proof.
  intros t r0 r1 j P H0 H1. unfold periodic_vec, pwsum, pre, pim, pmask. cbn [fold_left cvals cw].
  rewrite H0, H1. cbn [oadd omul].
  replace (0 + (1 - t) + t) with 1 by ring.
  destruct (Rgt_dec 1 (1 / 2)); [|lra]. f_equal. f_equal; field.
Qed.

(* angular data between two present neighbours (plain or periodic coordinate):
   the result is the angle of the weighted unit-vector mean, in [0, Pd) *)
Lemma pd_between : forall xp rows x i np j Pd,
  asc xp -> (i + 1 < length xp)%nat -> rnth xp i <= x < rnth xp (i + 1) ->
  all_some (nth i rows []) = true -> all_some (nth (i + 1) rows []) = true -> (j < np)%nat ->
  let t := (x - rnth xp i) / (rnth xp (i + 1) - rnth xp i) in
  let a := oget (nth i rows []) j in
  let b := oget (nth (i + 1) rows []) j in
  nth j (interp_axis1_pd xp rows x None false np Pd) None
  = Some (angle_of ((1 - t) * cos (a * to_rad Pd) + t * cos (b * to_rad Pd),
                    (1 - t) * sin (a * to_rad Pd) + t * sin (b * to_rad Pd)) Pd).
Proof.
  intros xp rows x i np j Pd Ha Hi Hx H0 H1 Hj t a b.
  unfold interp_axis1_pd. rewrite (axis_corners_between xp rows x i Ha Hi Hx).
  unfold interp_corners_periodic. rewrite nth_map_seq by exact Hj. cbn [Nat.add].
  unfold tfrac. fold t. rewrite periodic_vec_two by assumption. reflexivity.
Qed.

(* ------------------------------------------------------------------ *)
(* interpolate_periodic                                                 *)
(* ------------------------------------------------------------------ *)

Lemma interp_periodic_short_arc : forall xp fp x P fdisc left right i f0 f1,
  asc xp -> 0 < P -> (i + 1 < length xp)%nat -> rnth xp i <= x < rnth xp (i + 1) ->
  onth fp i = Some f0 -> onth fp (i + 1) = Some f1 ->
  let t := (x - rnth xp i) / (rnth xp (i + 1) - rnth xp i) in
  let d := wrapdiff (f1 - f0) P (P / 2) in
  let disc := match fdisc with Some c => c | None => P / 2 end in
  0 <= t < 1 /\ - (P / 2) <= d < P / 2 /\ (exists m : Z, d = f1 - f0 + IZR m * P) /\
  exists r, interp_periodic xp fp x None (Some P) fdisc left right = Some r /\
            disc - P <= r < disc /\ exists k : Z, r = f0 + t * d + IZR k * P.
Proof.
  intros xp fp x P fdisc left right i f0 f1 Ha HP Hi Hx E0 E1 t d disc.
  pose proof (tfrac_bounds xp x i Hx) as Ht. unfold tfrac in Ht. fold t in Ht.
  pose proof (wrapdiff_range (f1 - f0) P (P / 2) HP) as Hd. fold d in Hd.
  split; [exact Ht|]. split; [lra|]. split; [exact (wrapdiff_congr (f1 - f0) P (P / 2))|].
  unfold interp_periodic. rewrite (enclosing_between xp x i Ha Hi Hx). cbn [fst snd wd].
  rewrite E0, E1. cbn [osub owd]. fold d. cbn [omul].
  assert (Hpos : rnth xp (i + 1) - rnth xp i > 0) by lra.
  rewrite odiv_some by lra. cbn [oadd].
  destruct (Rgt_dec (rnth xp (i + 1) - rnth xp i) 0); [|lra].
  pose proof (asc_hd_le xp i Ha ltac:(lia)). pose proof (asc_le_last xp (i + 1) Ha ltac:(lia)).
  destruct (Rlt_dec x (hd0 xp)); [lra|]. destruct (Rgt_dec x (last0 xp)); [lra|].
  cbn [owd]. fold disc.
  eexists. split; [reflexivity|]. split.
  - apply wrapdiff_range. exact HP.
  - destruct (wrapdiff_congr (f0 + d * (x - rnth xp i) / (rnth xp (i + 1) - rnth xp i)) P disc) as [k Hk].
    exists k. rewrite Hk. unfold t. field. lra.
Qed.

(* outside the series: the caller's left / right value (wrapped), never an extrapolation *)
Lemma interp_periodic_outside : forall xp fp x fper fdisc left right,
  asc xp -> (1 <= length xp)%nat ->
  (x < hd0 xp -> interp_periodic xp fp x None fper fdisc left right = owd left fper fdisc) /\
  (last0 xp < x -> interp_periodic xp fp x None fper fdisc left right = owd right fper fdisc).
Proof.
  intros xp fp x fper fdisc left right Ha Hn.
  assert (hd0 xp <= last0 xp) by (rewrite hd0_rnth; apply asc_le_last; [assumption|lia]).
  split; intros Hx; unfold interp_periodic.
  - destruct (Rlt_dec x (hd0 xp)); [|lra]. destruct (Rgt_dec x (last0 xp)); [lra|]. reflexivity.
  - destruct (Rgt_dec x (last0 xp)); [|lra]. reflexivity.
Qed.

(* angular data along a PERIODIC coordinate (e.g. a direction variable on a longitude axis):
   never missing for finite data, and again the angle of the weighted unit-vector mean of the two
   cyclic neighbours *)
Lemma pd_periodic_axis : forall xp rows P x np j Pd, pgrid xp P -> (j < np)%nat ->
  (forall i, (i < length xp)%nat -> all_some (nth i rows []) = true) ->
  let ii := enclosing xp x (Some P) in
  let a := oget (nth (fst ii) rows []) j in
  let b := oget (nth (snd ii) rows []) j in
  exists t, 0 <= t < 1 /\
    nth j (interp_axis1_pd xp rows x (Some P) false np Pd) None
    = Some (angle_of ((1 - t) * cos (a * to_rad Pd) + t * cos (b * to_rad Pd),
                      (1 - t) * sin (a * to_rad Pd) + t * sin (b * to_rad Pd)) Pd).
Proof.
  intros xp rows P x np j Pd Hg Hj Hv ii a b.
  destruct (periodic_bracket xp P x Hg) as [t [E [Ht [Hi0 [Hi1 _]]]]]. fold ii in E, Hi0, Hi1.
  exists t. split; [exact Ht|].
  unfold interp_axis1_pd, axis_corners, frac_n. fold ii. rewrite E. cbn [w_lo w_hi osub].
  unfold interp_corners_periodic. rewrite nth_map_seq by exact Hj. cbn [Nat.add].
  rewrite periodic_vec_two; [reflexivity| |].
  - apply Hv. exact Hi0.
  - apply Hv. rewrite Hi1. apply Nat.mod_upper_bound. destruct Hg as [_ [Hn _]]. lia.
Qed.

(* ------------------------------------------------------------------ *)
(* track points: periodic longitude axis inside an N-d interpolation    *)
(* ------------------------------------------------------------------ *)

(* a periodic axis always contributes unit weights (1-t, t): no target is out of range *)
Lemma axis_entry_unit_periodic : forall g P x, pgrid g P ->
  unit_weights (enclosing g x (Some P),
                (w_lo (frac_n g x (enclosing g x (Some P)) (Some P) false),
                 w_hi (frac_n g x (enclosing g x (Some P)) (Some P) false))).
Proof.
  intros g P x Hg. destruct (periodic_bracket g P x Hg) as [t [E [Ht _]]].
  unfold frac_n. rewrite E. exists t. split; [lra|reflexivity].
Qed.

(* gridded (latitude, longitude) data at a track point: latitude inside its grid, ANY longitude
   (any number of periods away, also in the bin across the antimeridian): finite data give a
   value between the smallest and the largest data value *)
Lemma track_point_lat_lon : forall glat glon P data lat lon i lo hi,
  asc glat -> (i + 1 < length glat)%nat -> rnth glat i <= lat < rnth glat (i + 1) ->
  pgrid glon P ->
  (forall idx, exists v, nd_get [length glat; length glon] data idx = Some v /\ lo <= v <= hi) ->
  exists v, interp_nd [glat; glon] [None; Some P] data [lat; lon] false = Some v /\ lo <= v <= hi.
Proof.
  intros glat glon P data lat lon i lo hi Ha Hi Hlat Hg Hget.
  unfold interp_nd, nd_corner_list, nd_axes. cbn [combine map2 map].
  apply (interp_nd_convex _ (nd_get [length glat; length glon] data) lo hi); [|exact Hget].
  constructor; [apply (axis_entry_unit glat lat i Ha Hi Hlat)|].
  constructor; [apply axis_entry_unit_periodic; exact Hg|constructor].
Qed.
