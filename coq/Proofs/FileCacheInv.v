(* Invariants of the file-cache state machine, preserved by every operation over any history. *)
From Coq Require Import ZArith List Bool Arith Lia Permutation.
From OSU.Model Require Import FileCache.
From OSU.Proofs Require Import FileCacheBase.
Import ListNotations.
Open Scope Z_scope.

Definition content_res (c : content) : option nat :=
  match c with Full r _ | Post r _ | Half r _ => Some r | Blob _ => None end.

(* W: what holds of directory + entry table at every moment, also inside a request and after
   the process died *)
Record W (s : state) : Prop := mkW {
  w_keys : NoDup (keys (disk s));
  w_entries : NoDup (entries s);
  w_entries_on_disk : forall n, In n (entries s) -> is_cache_name n = true /\ dexists (disk s) n = true;
  w_times : forall n f, dfind (disk s) n = Some f -> - clock s <= ftime f < clock s;
  w_complete : forall n f, is_cache_name n = true -> dfind (disk s) n = Some f ->
                           is_complete (fcontent f) = true;
  w_owner : forall r k f, dfind (disk s) (CName r k) = Some f -> content_res (fcontent f) = Some r;
  w_maxb : 0 <= maxb s;
  w_clock : 0 <= clock s
}.

(* every cache-named file on disk is registered *)
Definition covered (s : state) : Prop :=
  forall n, is_cache_name n = true -> dexists (disk s) n = true -> In n (entries s).

(* S: what additionally holds between operations while a cache object is alive *)
Definition S (s : state) : Prop :=
  alive s = true -> covered s /\ cache_size s <= maxb s.

Definition Inv (s : state) : Prop := W s /\ S s.

Lemma W_init m p a : 0 <= m -> W (init m p a).
Proof.
  intros H. constructor; cbn; try constructor; try lia; try tauto; try discriminate.
Qed.

Lemma Inv_init m p a : 0 <= m -> Inv (init m p a).
Proof.
  intros H. split; [now apply W_init|]. intros _. split.
  - intros n _ E. cbn in E. discriminate.
  - cbn. assumption.
Qed.

(* ------------------------------------------------------------------ *)
(* primitive transitions preserve W                                     *)
(* ------------------------------------------------------------------ *)

Lemma W_write s n f :
  W s -> (ftime f = clock s \/ ftime f = - clock s) ->
  (is_cache_name n = true -> is_complete (fcontent f) = true) ->
  (forall r k, n = CName r k -> content_res (fcontent f) = Some r) ->
  W (tick (set_disk s (dupd (disk s) n f))).
Proof.
  intros H Ht Hc Ho. destruct H. constructor; cbn [disk entries clock maxb tick set_disk]; try assumption; try lia.
  - now apply nodup_keys_dupd.
  - intros m Hm. destruct (w_entries_on_disk0 m Hm) as [A B]. split; [assumption|].
    apply dexists_true. destruct (name_eqb_spec m n) as [->|Hne].
    + exists f. apply dfind_dupd_same.
    + rewrite dfind_dupd_other by assumption. now apply dexists_true.
  - intros m g Hg. destruct (name_eqb_spec m n) as [->|Hne].
    + rewrite dfind_dupd_same in Hg. injection Hg as <-. lia.
    + rewrite dfind_dupd_other in Hg by assumption. specialize (w_times0 m g Hg). lia.
  - intros m g Hm Hg. destruct (name_eqb_spec m n) as [->|Hne].
    + rewrite dfind_dupd_same in Hg. injection Hg as <-. now apply Hc.
    + rewrite dfind_dupd_other in Hg by assumption. now apply (w_complete0 m).
  - intros r k g Hg. destruct (name_eqb_spec (CName r k) n) as [E|Hne].
    + rewrite <- E in Hg. rewrite dfind_dupd_same in Hg. injection Hg as <-. now apply (Ho r k).
    + rewrite dfind_dupd_other in Hg by assumption. now apply (w_owner0 r k).
Qed.

Lemma W_delete s n : W s -> ~ In n (entries s) -> W (set_disk s (ddel (disk s) n)).
Proof.
  intros H Hn. destruct H. constructor; cbn [disk entries clock maxb set_disk]; try assumption.
  - now apply nodup_keys_ddel.
  - intros m Hm. destruct (w_entries_on_disk0 m Hm) as [A B]. split; [assumption|].
    apply dexists_true. rewrite dfind_ddel_other by (intros ->; contradiction). now apply dexists_true.
  - intros m g Hg. destruct (name_eqb_spec m n) as [->|Hne].
    + now rewrite dfind_ddel_same in Hg.
    + rewrite dfind_ddel_other in Hg by assumption. now apply (w_times0 m).
  - intros m g Hm Hg. destruct (name_eqb_spec m n) as [->|Hne].
    + now rewrite dfind_ddel_same in Hg.
    + rewrite dfind_ddel_other in Hg by assumption. now apply (w_complete0 m).
  - intros r k g Hg. destruct (name_eqb_spec (CName r k) n) as [E|Hne].
    + rewrite <- E in Hg. now rewrite dfind_ddel_same in Hg.
    + rewrite dfind_ddel_other in Hg by assumption. now apply (w_owner0 r k).
Qed.

Lemma W_remove_item s n : W s -> W (remove_item s n).
Proof.
  intros H. unfold remove_item. destruct (mem n (entries s)) eqn:E; [|assumption].
  destruct H. constructor; cbn [disk entries clock maxb set_disk set_entries]; try assumption.
  - now apply nodup_keys_ddel.
  - now apply nodup_remove_name.
  - intros m Hm. apply in_remove_name in Hm. destruct Hm as [Hm Hne].
    destruct (w_entries_on_disk0 m Hm) as [A B]. split; [assumption|].
    apply dexists_true. rewrite dfind_ddel_other by assumption. now apply dexists_true.
  - intros m g Hg. destruct (name_eqb_spec m n) as [->|Hne].
    + now rewrite dfind_ddel_same in Hg.
    + rewrite dfind_ddel_other in Hg by assumption. now apply (w_times0 m).
  - intros m g Hm Hg. destruct (name_eqb_spec m n) as [->|Hne].
    + now rewrite dfind_ddel_same in Hg.
    + rewrite dfind_ddel_other in Hg by assumption. now apply (w_complete0 m).
  - intros r k g Hg. destruct (name_eqb_spec (CName r k) n) as [E0|Hne].
    + rewrite <- E0 in Hg. now rewrite dfind_ddel_same in Hg.
    + rewrite dfind_ddel_other in Hg by assumption. now apply (w_owner0 r k).
Qed.

Lemma W_add_entry s n :
  W s -> is_cache_name n = true -> dexists (disk s) n = true ->
  W (set_entries s (add_name n (entries s))).
Proof.
  intros H Hc He. destruct H. constructor; cbn [disk entries clock maxb set_entries]; try assumption.
  - now apply nodup_add_name.
  - intros m Hm. apply in_add_name in Hm. destruct Hm as [Hm| ->]; [now apply w_entries_on_disk0 | split; assumption].
Qed.

Lemma W_set_maxb s m : W s -> 0 <= m -> W (set_maxb s m).
Proof. intros H Hm. destruct H. constructor; cbn; assumption. Qed.

Lemma W_log_fetch s r : W s -> W (log_fetch s r).
Proof. intros H. destruct H. constructor; cbn; assumption. Qed.

Lemma W_set_alive s b : W s -> W (set_alive s b).
Proof. intros H. destruct H. constructor; cbn; assumption. Qed.

Lemma W_set_entries_disk s :
  W s -> W (set_entries s (cache_names_on_disk (disk s))).
Proof.
  intros H. destruct H. constructor; cbn [disk entries clock maxb set_entries]; try assumption.
  - unfold cache_names_on_disk. apply NoDup_filter. exact w_keys0.
  - intros n Hn. unfold cache_names_on_disk in Hn. apply filter_In in Hn. destruct Hn as [Hk Hc].
    split; [assumption|]. apply dexists_true. now apply in_keys_dfind.
Qed.

(* ------------------------------------------------------------------ *)
(* eviction                                                             *)
(* ------------------------------------------------------------------ *)

Lemma oldest_aux_spec d l : forall best n t,
  oldest_aux d l best = Some (n, t) ->
  (best = Some (n, t) \/ (In n l /\ exists f, dfind d n = Some f /\ ftime f = t)) /\
  (forall m f, In m l -> dfind d m = Some f -> t <= ftime f) /\
  (forall nb tb, best = Some (nb, tb) -> t <= tb).
Proof.
  induction l as [|x l IH]; intros best n t H; cbn [oldest_aux] in H.
  - subst best. split; [left; reflexivity|]. split; [intros m f []|].
    intros nb tb E. injection E as _ <-. lia.
  - destruct (dfind d x) as [fx|] eqn:Ex.
    + (* x has a file: it may become the new candidate *)
      assert (Hnew : oldest_aux d l (Some (x, ftime fx)) = Some (n, t) ->
                     (In n (x :: l) /\ exists f, dfind d n = Some f /\ ftime f = t) /\
                     (forall m f, In m (x :: l) -> dfind d m = Some f -> t <= ftime f) /\
                     t <= ftime fx).
      { intros H'. destruct (IH _ _ _ H') as [A [B Cc]].
        pose proof (Cc x (ftime fx) eq_refl) as Hx. split; [|split; [|assumption]].
        - destruct A as [A|[A1 A2]].
          + injection A as <- <-. split; [left; reflexivity | eauto].
          + split; [right; assumption | assumption].
        - intros m f [<-|Hm] Hf; [rewrite Ex in Hf; injection Hf as <-; assumption | now apply (B m)]. }
      assert (Hold : forall nb tb, tb < ftime fx -> oldest_aux d l (Some (nb, tb)) = Some (n, t) ->
                     (Some (nb, tb) = Some (n, t) \/ (In n (x :: l) /\ exists f, dfind d n = Some f /\ ftime f = t)) /\
                     (forall m f, In m (x :: l) -> dfind d m = Some f -> t <= ftime f) /\
                     (forall nb' tb', Some (nb, tb) = Some (nb', tb') -> t <= tb')).
      { intros nb tb Hb H'. destruct (IH _ _ _ H') as [A [B Cc]]. split; [|split; [|assumption]].
        - destruct A as [A|[A1 A2]]; [left; assumption | right; split; [right; assumption | assumption]].
        - intros m f [<-|Hm] Hf; [|now apply (B m)]. rewrite Ex in Hf; injection Hf as <-.
          specialize (Cc nb tb eq_refl). lia. }
      destruct best as [[nb tb]|].
      * destruct (Z.leb_spec (ftime fx) tb) as [Hle|Hgt].
        -- destruct (Hnew H) as [A [B Hx]]. split; [right; assumption|]. split; [assumption|].
           intros nb' tb' E. injection E as _ <-. lia.
        -- apply (Hold nb tb); [lia | assumption].
      * destruct (Hnew H) as [A [B Hx]]. split; [right; assumption|]. split; [assumption|].
        intros nb tb E. discriminate.
    + destruct (IH _ _ _ H) as [A [B Cc]]. split; [|split; [|assumption]].
      * destruct A as [A|[A1 A2]]; [left; assumption | right; split; [right; assumption | assumption]].
      * intros m f [<-|Hm] Hf; [rewrite Ex in Hf; discriminate | now apply (B m)].
Qed.

Lemma oldest_spec s n :
  oldest s = Some n ->
  In n (entries s) /\ exists f, dfind (disk s) n = Some f /\
  forall m g, In m (entries s) -> dfind (disk s) m = Some g -> ftime f <= ftime g.
Proof.
  unfold oldest. destruct (oldest_aux (disk s) (entries s) None) as [[n' t]|] eqn:E; [|discriminate].
  intros H. injection H as ->. destruct (oldest_aux_spec _ _ _ _ _ E) as [A [B _]].
  destruct A as [A|[A1 [f [A2 A3]]]]; [discriminate|]. split; [assumption|].
  exists f. split; [assumption|]. intros m g Hm Hg. rewrite A3. now apply (B m).
Qed.

Lemma oldest_aux_none d l : forall best, oldest_aux d l best = None ->
  best = None /\ forall m, In m l -> dfind d m = None.
Proof.
  induction l as [|x l IH]; intros best H; cbn [oldest_aux] in H.
  - split; [assumption | intros m []].
  - destruct (dfind d x) as [fx|] eqn:Ex.
    + destruct best as [[nb tb]|]; [destruct (ftime fx <=? tb)|]; apply IH in H; destruct H as [H _]; discriminate.
    + destruct (IH _ H) as [A B]. split; [assumption|]. intros m [->|Hm]; [assumption | now apply B].
Qed.

Lemma oldest_none_size s : oldest s = None -> cache_size s = 0.
Proof.
  unfold oldest. destruct (oldest_aux (disk s) (entries s) None) as [[n t]|] eqn:E; [discriminate|].
  intros _. destruct (oldest_aux_none _ _ _ E) as [_ B]. unfold cache_size.
  clear E. revert B. generalize (entries s) as l. induction l as [|x l IH]; intros B; [reflexivity|].
  rewrite total_size_cons. rewrite IH by (intros m Hm; apply B; now right).
  unfold fsize. rewrite (B x) by now left. reflexivity.
Qed.

Lemma remove_item_entries_length s n :
  In n (entries s) -> NoDup (entries s) ->
  (length (entries (remove_item s n)) < length (entries s))%nat.
Proof.
  intros Hi Hd. unfold remove_item. apply mem_true in Hi as Hm. rewrite Hm. cbn [entries set_disk set_entries].
  clear Hm. induction (entries s) as [|x l IH]; [contradiction|].
  inversion Hd as [|? ? Hn Hd']; subst. destruct Hi as [->|Hi].
  - rewrite remove_name_cons_same, remove_name_notin by assumption. cbn. lia.
  - assert (x <> n) by (intros ->; contradiction). rewrite remove_name_cons_other by assumption.
    cbn [length]. specialize (IH Hi Hd'). lia.
Qed.

Lemma remove_item_maxb s n : maxb (remove_item s n) = maxb s.
Proof. unfold remove_item. destruct (mem n (entries s)); reflexivity. Qed.

Lemma remove_item_clock s n : clock (remove_item s n) = clock s.
Proof. unfold remove_item. destruct (mem n (entries s)); reflexivity. Qed.

Lemma remove_item_alive s n : alive (remove_item s n) = alive s.
Proof. unfold remove_item. destruct (mem n (entries s)); reflexivity. Qed.

Lemma evict_loop_W fuel : forall s, W s -> W (evict_loop fuel s).
Proof.
  induction fuel as [|fuel IH]; intros s H; cbn [evict_loop]; [assumption|].
  destruct (cache_size s >? maxb s); [|assumption].
  destruct (oldest s); [|assumption]. apply IH. now apply W_remove_item.
Qed.

Lemma evict_loop_maxb fuel : forall s, maxb (evict_loop fuel s) = maxb s.
Proof.
  induction fuel as [|fuel IH]; intros s; cbn [evict_loop]; [reflexivity|].
  destruct (cache_size s >? maxb s); [|reflexivity].
  destruct (oldest s); [|reflexivity]. now rewrite IH, remove_item_maxb.
Qed.

Lemma evict_loop_size fuel : forall s,
  W s -> (length (entries s) <= fuel)%nat ->
  cache_size (evict_loop fuel s) <= maxb s.
Proof.
  induction fuel as [|fuel IH]; intros s H Hl; cbn [evict_loop].
  - destruct (entries s) eqn:E; [|cbn in Hl; lia]. unfold cache_size. rewrite E, total_size_nil. apply (w_maxb s H).
  - destruct (Z.gtb_spec (cache_size s) (maxb s)) as [Hgt|Hle]; [|assumption].
    destruct (oldest s) as [n|] eqn:Eo.
    + destruct (oldest_spec s n Eo) as [Hin _].
      rewrite <- (remove_item_maxb s n). apply IH; [now apply W_remove_item|].
      pose proof (remove_item_entries_length s n Hin (w_entries s H)). lia.
    + rewrite (oldest_none_size s Eo). apply (w_maxb s H).
Qed.

Lemma evict_W s : W s -> W (evict s).
Proof. apply evict_loop_W. Qed.

Lemma evict_size s : W s -> cache_size (evict s) <= maxb (evict s).
Proof.
  intros H. unfold evict. rewrite evict_loop_maxb. apply evict_loop_size; [assumption | lia].
Qed.

(* removing an item keeps "every cache file is registered" *)
Lemma covered_remove_item s n : covered s -> covered (remove_item s n).
Proof.
  intros H. unfold remove_item. destruct (mem n (entries s)) eqn:E; [|assumption].
  intros m Hc He. cbn [disk entries set_disk set_entries] in *.
  apply dexists_true in He. destruct He as [f Hf].
  destruct (name_eqb_spec m n) as [->|Hne]; [now rewrite dfind_ddel_same in Hf|].
  rewrite dfind_ddel_other in Hf by assumption.
  apply in_remove_name. split; [|assumption]. apply H; [assumption|]. apply dexists_true. eauto.
Qed.

Lemma covered_evict_loop fuel : forall s, covered s -> covered (evict_loop fuel s).
Proof.
  induction fuel as [|fuel IH]; intros s H; cbn [evict_loop]; [assumption|].
  destruct (cache_size s >? maxb s); [|assumption].
  destruct (oldest s); [|assumption]. apply IH. now apply covered_remove_item.
Qed.

Lemma evict_loop_alive fuel : forall s, alive (evict_loop fuel s) = alive s.
Proof.
  induction fuel as [|fuel IH]; intros s; cbn [evict_loop]; [reflexivity|].
  destruct (cache_size s >? maxb s); [|reflexivity].
  destruct (oldest s); [|reflexivity]. now rewrite IH, remove_item_alive.
Qed.

Lemma evict_Inv s : W s -> covered s -> Inv (evict s).
Proof.
  intros H Hc. split; [now apply evict_W|]. intros _. split.
  - now apply covered_evict_loop.
  - now apply evict_size.
Qed.
