(* C15  Proofs about Model/SpecHeap.v: C-order index arithmetic, flatten, concatenate/select, and the
   object / variable / buffer heap (operands preserved over every operation sequence, deep copy disjoint). *)
From Coq Require Import Arith List Bool PeanoNat Lia.
From OSU.Model Require Import SpecHeap.
Import ListNotations.

(* ------------------------------------------------------------------------------------------- *)
(* index arithmetic                                                                             *)
(* ------------------------------------------------------------------------------------------- *)

Lemma ravel_lt : forall sh idx, valid_index sh idx -> ravel sh idx < nprod sh.
Proof.
  intros sh idx H. induction H as [| i n idx sh Hi _ IH]; cbn [ravel nprod]; [lia|].
  assert (i * nprod sh + ravel sh idx < i * nprod sh + nprod sh) by lia. nia.
Qed.

Theorem unravel_ravel : forall sh idx, valid_index sh idx -> unravel sh (ravel sh idx) = idx.
Proof.
  intros sh idx H. induction H as [| i n idx sh Hi Hv IH]; cbn [ravel unravel]; [reflexivity|].
  pose proof (ravel_lt sh idx Hv) as L.
  assert (P : nprod sh <> 0) by lia.
  f_equal.
  - rewrite Nat.div_add_l by exact P. rewrite Nat.div_small by exact L. lia.
  - rewrite Nat.add_comm, Nat.mod_add by exact P. rewrite Nat.mod_small by exact L. exact IH.
Qed.

Theorem ravel_unravel : forall sh k, k < nprod sh ->
  ravel sh (unravel sh k) = k /\ valid_index sh (unravel sh k).
Proof.
  induction sh as [| n sh IH]; intros k H; cbn [nprod ravel unravel] in *.
  - split; [lia | constructor].
  - assert (P : nprod sh <> 0) by (intros E; rewrite E in H; lia).
    assert (M : k mod nprod sh < nprod sh) by (apply Nat.mod_upper_bound; exact P).
    destruct (IH _ M) as [R V]. split.
    + rewrite R. pose proof (Nat.div_mod k (nprod sh) P). lia.
    + constructor; [|exact V]. apply Nat.div_lt_upper_bound; [exact P | lia].
Qed.

Lemma unravel_length : forall sh k, length (unravel sh k) = length sh.
Proof. induction sh; intros; cbn; [reflexivity | f_equal; apply IHsh]. Qed.

Theorem flatten_length : forall A C (g : grid A C) dA dC, length (flatten g dA dC) = nprod (gshape g).
Proof. intros. unfold flatten. rewrite map_length, seq_length. reflexivity. Qed.

Lemma nth_map_seq : forall (B : Type) (f : nat -> B) n k d, k < n -> nth k (map f (seq 0 n)) d = f k.
Proof.
  intros B f n k d H. rewrite (nth_indep _ d (f 0)) by (rewrite map_length, seq_length; exact H).
  rewrite map_nth. rewrite seq_nth by exact H. reflexivity.
Qed.

(* element k of the flattened collection is the element at unravel(k), paired with ITS coordinates *)
Theorem flatten_nth : forall A C (g : grid A C) dA dC k d, k < nprod (gshape g) ->
  nth k (flatten g dA dC) d = (get g (unravel (gshape g) k) dA, coords_at (gcoords g) (unravel (gshape g) k) dC).
Proof.
  intros A C g dA dC k d H. unfold flatten. rewrite nth_map_seq by exact H.
  unfold get. destruct (ravel_unravel (gshape g) k H) as [R _]. rewrite R. reflexivity.
Qed.

Theorem flatten_pairs : forall A C (g : grid A C) dA dC idx d, valid_index (gshape g) idx ->
  nth (ravel (gshape g) idx) (flatten g dA dC) d = (get g idx dA, coords_at (gcoords g) idx dC).
Proof.
  intros A C g dA dC idx d H. rewrite flatten_nth by (apply ravel_lt; exact H).
  rewrite unravel_ravel by exact H. reflexivity.
Qed.

Theorem concat_select : forall A (xs : list (list A)) m i,
  Forall (fun x => length x = m) xs -> i < length xs ->
  getitem m i (concat_new_dim xs) = nth i xs [].
Proof.
  intros A xs m. unfold getitem, concat_new_dim.
  induction xs as [| x xs IH]; intros i F Hi; [cbn in Hi; lia|].
  inversion F as [| ? ? Hx F']; subst. cbn [concat].
  destruct i as [| i].
  - cbn [Nat.mul skipn nth]. rewrite firstn_app. rewrite Nat.sub_diag. cbn [firstn].
    rewrite firstn_all, app_nil_r. reflexivity.
  - cbn [nth]. replace (S i * length x) with (length x + i * length x) by lia.
    rewrite <- (IH i F' ltac:(cbn in Hi; lia)).
    f_equal. rewrite skipn_app. rewrite (skipn_all2 x) by lia. cbn [app].
    f_equal. lia.
Qed.

Theorem concat_length : forall A (xs : list (list A)) m,
  Forall (fun x => length x = m) xs -> length (concat_new_dim xs) = length xs * m.
Proof.
  intros A xs m F. unfold concat_new_dim. induction F as [| x xs Hx _ IH]; [reflexivity|].
  cbn [concat length]. rewrite app_length, IH, Hx. lia.
Qed.

(* ------------------------------------------------------------------------------------------- *)
(* the heap                                                                                     *)
(* ------------------------------------------------------------------------------------------- *)

Definition dB := mkBuf BData 0.
Definition in_range (n : nat) (ob : object) : Prop := Forall (fun vb => snd vb < n) ob.

Lemma in_range_mono : forall n m ob, n <= m -> in_range n ob -> in_range m ob.
Proof. intros n m ob L H. eapply Forall_impl; [|exact H]. cbn. intros; lia. Qed.

(* --- the three object builders only append buffers, and bind inside the new buffer list --- *)
Lemma build_ext : forall k src bs nc ob bs' nc', in_range (length bs) src ->
  build k src bs nc = (ob, bs', nc') ->
  (exists ext, bs' = bs ++ ext) /\ in_range (length bs') ob.
Proof.
  intros k src. induction src as [| [v b] rest IH]; intros bs nc ob bs' nc' R E; cbn [build] in E.
  - injection E as <- <- <-. split; [exists []; rewrite app_nil_r; reflexivity | constructor].
  - inversion R as [| ? ? Hb R']; subst. cbn [snd] in Hb.
    destruct (policy k _ v).
    + destruct (build k rest bs nc) as [[o b1] n1] eqn:E1. injection E as <- <- <-.
      destruct (IH _ _ _ _ _ R' E1) as [[ext ->] Ro]. split; [exists ext; reflexivity|].
      constructor; [cbn; rewrite app_length; lia | exact Ro].
    + destruct (build k rest (bs ++ _) nc) as [[o b1] n1] eqn:E1. injection E as <- <- <-.
      assert (R2 : in_range (length (bs ++ [mkBuf (bk (nth b bs (mkBuf BData 0))) (bcls (nth b bs (mkBuf BData 0)))])) rest)
        by (eapply in_range_mono; [|exact R']; rewrite app_length; lia).
      destruct (IH _ _ _ _ _ R2 E1) as [[ext ->] Ro]. split; [eexists; rewrite <- app_assoc; reflexivity|].
      constructor; [cbn; rewrite !app_length; cbn; lia | exact Ro].
    + destruct (build k rest (bs ++ _) (S nc)) as [[o b1] n1] eqn:E1. injection E as <- <- <-.
      assert (R2 : in_range (length (bs ++ [mkBuf (bk (nth b bs (mkBuf BData 0))) nc])) rest)
        by (eapply in_range_mono; [|exact R']; rewrite app_length; lia).
      destruct (IH _ _ _ _ _ R2 E1) as [[ext ->] Ro]. split; [eexists; rewrite <- app_assoc; reflexivity|].
      constructor; [cbn; rewrite !app_length; cbn; lia | exact Ro].
Qed.

Lemma rebind_ext : forall sel src bs nc ob bs' nc', in_range (length bs) src ->
  rebind sel src bs nc = (ob, bs', nc') ->
  (exists ext, bs' = bs ++ ext) /\ in_range (length bs') ob.
Proof.
  intros sel src. induction src as [| [v b] rest IH]; intros bs nc ob bs' nc' R E; cbn [rebind] in E.
  - injection E as <- <- <-. split; [exists []; rewrite app_nil_r; reflexivity | constructor].
  - inversion R as [| ? ? Hb R']; subst. cbn [snd] in Hb. destruct (sel v).
    + destruct (rebind sel rest (bs ++ _) (S nc)) as [[o b1] n1] eqn:E1. injection E as <- <- <-.
      assert (R2 : in_range (length (bs ++ [mkBuf BData nc])) rest)
        by (eapply in_range_mono; [|exact R']; rewrite app_length; lia).
      destruct (IH _ _ _ _ _ R2 E1) as [[ext ->] Ro]. split; [eexists; rewrite <- app_assoc; reflexivity|].
      constructor; [cbn; rewrite !app_length; cbn; lia | exact Ro].
    + destruct (rebind sel rest bs nc) as [[o b1] n1] eqn:E1. injection E as <- <- <-.
      destruct (IH _ _ _ _ _ R' E1) as [[ext ->] Ro]. split; [exists ext; reflexivity|].
      constructor; [cbn; rewrite app_length; lia | exact Ro].
Qed.

Lemma create_ext : forall vars bs nc ob bs' nc',
  create vars bs nc = (ob, bs', nc') ->
  (exists ext, bs' = bs ++ ext) /\ in_range (length bs') ob.
Proof.
  induction vars as [| v rest IH]; intros bs nc ob bs' nc' E; cbn [create] in E.
  - injection E as <- <- <-. split; [exists []; rewrite app_nil_r; reflexivity | constructor].
  - destruct (create rest (bs ++ _) (S nc)) as [[o b1] n1] eqn:E1. injection E as <- <- <-.
    destruct (IH _ _ _ _ _ E1) as [[ext ->] Ro]. split; [eexists; rewrite <- app_assoc; reflexivity|].
    constructor; [cbn; rewrite !app_length; cbn; lia | exact Ro].
Qed.

Lemma wf_nth : forall h t, wf h -> in_range (length (bufs h)) (nth t (objs h) []).
Proof.
  intros h t W. unfold wf in W. destruct (Nat.lt_ge_cases t (length (objs h))) as [L | L].
  - rewrite Forall_forall in W. apply W. apply nth_In. exact L.
  - rewrite nth_overflow by exact L. constructor.
Qed.

Lemma nth_set_nth_other : forall A (l : list A) n m x d, n <> m -> nth m (set_nth n x l) d = nth m l d.
Proof.
  induction l as [| y l IH]; intros n m x d H; [destruct n; reflexivity|].
  destruct n, m; cbn; try reflexivity; [lia | apply IH; lia].
Qed.

Lemma set_nth_length : forall A (l : list A) n x, length (set_nth n x l) = length l.
Proof. induction l; intros [|n] x; cbn; auto. Qed.

Lemma Forall_set_nth : forall A (P : A -> Prop) l n x, Forall P l -> P x -> Forall P (set_nth n x l).
Proof.
  induction l as [| y l IH]; intros n x F Hx; [destruct n; constructor|].
  inversion F; subst. destruct n; cbn; constructor; auto.
Qed.

(* --- one step --- *)
Lemma step_spec : forall h o, wf h ->
  let h' := fst (step h o) in
  (exists ext, bufs h' = bufs h ++ ext) /\ wf h' /\ length (objs h) <= length (objs h') /\
  (forall t, t < length (objs h) -> ~ inplace_on o t -> nth t (objs h') [] = nth t (objs h) []).
Proof.
  intros h o W. destruct o as [k self others | t | t | t | vars]; cbn [step].
  - destruct (build k (nth self (objs h) []) (bufs h) (ncls h)) as [[ob bs] nc] eqn:E. cbn [fst bufs objs].
    destruct (build_ext _ _ _ _ _ _ _ (wf_nth h self W) E) as [[ext ->] Ro].
    split; [exists ext; reflexivity|]. split; [|split].
    + unfold wf. cbn [bufs objs]. apply Forall_app. split.
      * eapply Forall_impl; [|exact W]. intros a Ha. eapply in_range_mono; [|exact Ha]. rewrite app_length; lia.
      * constructor; [exact Ro | constructor].
    + rewrite app_length. lia.
    + intros t Ht _. apply app_nth1. exact Ht.
  - destruct (t <? length (objs h)) eqn:Lt; [|cbn; repeat split; auto; exists []; rewrite app_nil_r; reflexivity].
    destruct (rebind is_spectral (nth t (objs h) []) (bufs h) (ncls h)) as [[ob bs] nc] eqn:E. cbn [fst bufs objs].
    destruct (rebind_ext _ _ _ _ _ _ _ (wf_nth h t W) E) as [[ext ->] Ro].
    split; [exists ext; reflexivity|]. split; [|split].
    + unfold wf. cbn [bufs objs]. apply Forall_set_nth; [|exact Ro].
      eapply Forall_impl; [|exact W]. intros a Ha. eapply in_range_mono; [|exact Ha]. rewrite app_length; lia.
    + rewrite set_nth_length. lia.
    + intros u Hu Hn. cbn [inplace_on] in Hn. apply nth_set_nth_other. congruence.
  - destruct (t <? length (objs h)) eqn:Lt; [|cbn; repeat split; auto; exists []; rewrite app_nil_r; reflexivity].
    destruct (rebind (fun v => v =? vE) (nth t (objs h) []) (bufs h) (ncls h)) as [[ob bs] nc] eqn:E. cbn [fst bufs objs].
    destruct (rebind_ext _ _ _ _ _ _ _ (wf_nth h t W) E) as [[ext ->] Ro].
    split; [exists ext; reflexivity|]. split; [|split].
    + unfold wf. cbn [bufs objs]. apply Forall_set_nth; [|exact Ro].
      eapply Forall_impl; [|exact W]. intros a Ha. eapply in_range_mono; [|exact Ha]. rewrite app_length; lia.
    + rewrite set_nth_length. lia.
    + intros u Hu Hn. cbn [inplace_on] in Hn. apply nth_set_nth_other. congruence.
  - cbn. repeat split; auto. exists []. rewrite app_nil_r. reflexivity.
  - destruct (create vars (bufs h) (ncls h)) as [[ob bs] nc] eqn:E. cbn [fst bufs objs].
    destruct (create_ext _ _ _ _ _ _ E) as [[ext ->] Ro].
    split; [exists ext; reflexivity|]. split; [|split].
    + unfold wf. cbn [bufs objs]. apply Forall_app. split.
      * eapply Forall_impl; [|exact W]. intros a Ha. eapply in_range_mono; [|exact Ha]. rewrite app_length; lia.
      * constructor; [exact Ro | constructor].
    + rewrite app_length. lia.
    + intros t Ht _. apply app_nth1. exact Ht.
Qed.

(* --- any sequence of operations --- *)
Theorem run_spec : forall ops h, wf h ->
  (exists ext, bufs (run ops h) = bufs h ++ ext) /\ wf (run ops h) /\ length (objs h) <= length (objs (run ops h)) /\
  (forall t, t < length (objs h) -> (forall o, In o ops -> ~ inplace_on o t) ->
     nth t (objs (run ops h)) [] = nth t (objs h) []).
Proof.
  induction ops as [| o ops IH]; intros h W; cbn [run].
  - repeat split; auto. exists []. rewrite app_nil_r. reflexivity.
  - destruct (step_spec h o W) as ([e1 E1] & W1 & L1 & P1).
    destruct (IH _ W1) as ([e2 E2] & W2 & L2 & P2).
    split; [exists (e1 ++ e2); rewrite E2, E1, app_assoc; reflexivity|]. split; [exact W2|]. split; [lia|].
    intros t Ht Hn. rewrite P2; [apply P1; [exact Ht | apply Hn; left; reflexivity] | lia |].
    intros o' Ho'. apply Hn. right. exact Ho'.
Qed.

(* no operation ever writes into a buffer that already exists *)
Theorem buffers_immutable : forall ops h b, wf h -> b < length (bufs h) ->
  nth b (bufs (run ops h)) dB = nth b (bufs h) dB.
Proof.
  intros ops h b W Hb. destruct (run_spec ops h W) as ([ext E] & _). rewrite E. apply app_nth1. exact Hb.
Qed.

(* every object live before keeps its variables AND the contents behind them, over every sequence of
   operations, unless one of them is a documented in-place operation on that very object -- however many
   views of its buffers were handed out in between *)
Theorem ops_preserve_operands : forall ops h t, wf h -> t < length (objs h) ->
  (forall o, In o ops -> ~ inplace_on o t) ->
  value (run ops h) t = value h t.
Proof.
  intros ops h t W Ht Hn. destruct (run_spec ops h W) as ([ext E] & _ & _ & P).
  unfold value. rewrite (P t Ht Hn). apply map_ext_in. intros [v b] Hin. cbn [fst snd]. f_equal.
  rewrite E. apply app_nth1.
  pose proof (wf_nth h t W) as R. unfold in_range in R. rewrite Forall_forall in R. exact (R _ Hin).
Qed.

Lemma buffer_eta : forall x, mkBuf (bk x) (bcls x) = x.
Proof. intros []. reflexivity. Qed.

Lemma build_deepcopy : forall src bs0 ext nc ob bs' nc',
  in_range (length bs0) src ->
  build KDeepCopy src (bs0 ++ ext) nc = (ob, bs', nc') ->
  map (fun vb => (fst vb, nth (snd vb) bs' dB)) ob = map (fun vb => (fst vb, nth (snd vb) bs0 dB)) src
  /\ Forall (fun vb => snd vb < length bs0 -> bk (nth (snd vb) bs0 dB) = BIndex) ob.
Proof.
  induction src as [| [v b] rest IH]; intros bs0 ext nc ob bs' nc' R E; cbn [build] in E.
  - injection E as <- <- <-. split; [reflexivity | constructor].
  - inversion R as [| ? ? Hb R']; subst. cbn [snd] in Hb.
    assert (Hold : nth b (bs0 ++ ext) (mkBuf BData 0) = nth b bs0 dB) by (apply app_nth1; exact Hb).
    rewrite Hold in E. unfold policy in E.
    destruct (bk (nth b bs0 dB)) eqn:K.
    + (* data: copied into a new buffer *)
      destruct (build KDeepCopy rest ((bs0 ++ ext) ++ _) nc) as [[o b1] n1] eqn:E1. injection E as <- <- <-.
      rewrite <- app_assoc in E1.
      destruct (IH _ _ _ _ _ _ R' E1) as [V S].
      assert (R2 : in_range (length (bs0 ++ ext ++ [mkBuf BData (bcls (nth b bs0 dB))])) rest)
        by (eapply in_range_mono; [|exact R']; rewrite app_length; lia).
      destruct (build_ext _ _ _ _ _ _ _ R2 E1) as [[e2 ->] _].
      split.
      * cbn [map fst snd]. f_equal; [|exact V]. f_equal.
        match goal with |- nth _ ((bs0 ++ ext ++ [?x]) ++ e2) _ = _ =>
          replace ((bs0 ++ ext ++ [x]) ++ e2) with ((bs0 ++ ext) ++ x :: e2) by (rewrite <- !app_assoc; reflexivity) end.
        rewrite app_nth2 by lia. rewrite Nat.sub_diag. cbn [nth].
        rewrite <- K. apply buffer_eta.
      * constructor; [cbn [snd]; rewrite app_length; intros; lia | exact S].
    + (* index: shared *)
      destruct (build KDeepCopy rest (bs0 ++ ext) nc) as [[o b1] n1] eqn:E1. injection E as <- <- <-.
      destruct (IH _ _ _ _ _ _ R' E1) as [V S].
      assert (R2 : in_range (length (bs0 ++ ext)) rest)
        by (eapply in_range_mono; [|exact R']; rewrite app_length; lia).
      destruct (build_ext _ _ _ _ _ _ _ R2 E1) as [[e2 ->] _].
      split.
      * cbn [map fst snd]. f_equal; [|exact V]. f_equal. rewrite <- app_assoc. apply app_nth1. exact Hb.
      * constructor; [cbn [snd]; intros _; exact K | exact S].
Qed.

(* a deep copy: a new object, equal to its source variable by variable, every data variable in a buffer
   that did not exist before; only immutable dimension coordinates may be shared *)
Theorem deepcopy_disjoint : forall h self others, wf h -> self < length (objs h) ->
  let h' := fst (step h (Pure KDeepCopy self others)) in
  let r := length (objs h) in
  snd (step h (Pure KDeepCopy self others)) = Some r /\
  value h' r = value h self /\
  Forall (fun vb => snd vb < length (bufs h) -> kind_of h (snd vb) = BIndex) (nth r (objs h') []) /\
  (forall t, t < length (objs h) -> value h' t = value h t).
Proof.
  intros h self others W Hs. cbn [step].
  destruct (build KDeepCopy (nth self (objs h) []) (bufs h) (ncls h)) as [[ob bs] nc] eqn:E. cbn [fst snd].
  split; [reflexivity|].
  pose proof E as E0. rewrite <- (app_nil_r (bufs h)) in E0.
  destruct (build_deepcopy _ _ _ _ _ _ _ (wf_nth h self W) E0) as [V S].
  split; [|split].
  - unfold value. cbn [objs bufs]. rewrite app_nth2 by lia. rewrite Nat.sub_diag. cbn [nth]. exact V.
  - cbn [objs]. rewrite app_nth2 by lia. rewrite Nat.sub_diag. cbn [nth]. exact S.
  - intros t Ht.
    pose proof (ops_preserve_operands [Pure KDeepCopy self others] h t W Ht) as P.
    cbn [run step] in P. rewrite E in P. cbn [fst] in P. apply P.
    intros o [<- | []]. cbn. auto.
Qed.

(* what each kind of operation returns *)
Theorem returns_new_object : forall h o, 
  match o with
  | Pure _ _ _ | Create _ => snd (step h o) = Some (length (objs h))      (* an object that was not live *)
  | MulInplace t => t < length (objs h) -> snd (step h o) = Some t        (* self *)
  | Fillna _ | Save _ => snd (step h o) = None
  end.
Proof.
  intros h [k s ot | t | t | t | vars]; cbn [step].
  - destruct (build _ _ _ _) as [[? ?] ?]. reflexivity.
  - destruct (_ <? _); [destruct (rebind _ _ _ _) as [[? ?] ?]|]; reflexivity.
  - intros Ht. apply Nat.ltb_lt in Ht. rewrite Ht. destruct (rebind _ _ _ _) as [[? ?] ?]. reflexivity.
  - reflexivity.
  - destruct (create _ _ _) as [[? ?] ?]. reflexivity.
Qed.

(* saving to a file changes nothing at all *)
Theorem save_is_pure : forall h t, fst (step h (Save t)) = h.
Proof. reflexivity. Qed.

(* --- the executable comparison used by the monitor is sound --- *)
Lemma buffer_eqb_spec : forall a b, buffer_eqb a b = true <-> a = b.
Proof.
  intros [ka ca] [kb cb]. unfold buffer_eqb. cbn [bk bcls]. split.
  - intros H. apply andb_true_iff in H. destruct H as [K Cc]. apply Nat.eqb_eq in Cc. subst.
    destruct ka, kb; try discriminate; reflexivity.
  - intros E. injection E as -> ->. rewrite Nat.eqb_refl. destruct kb; reflexivity.
Qed.

Lemma value_eqb_spec : forall a b, value_eqb a b = true <-> a = b.
Proof.
  induction a as [| [v x] a IH]; intros [| [w y] b]; cbn [value_eqb]; split; intros H; try discriminate; try reflexivity.
  - apply andb_true_iff in H. destruct H as [H Hr]. apply andb_true_iff in H. destruct H as [Hv Hb].
    apply Nat.eqb_eq in Hv. apply buffer_eqb_spec in Hb. apply IH in Hr. subst. reflexivity.
  - injection H as -> -> ->. rewrite Nat.eqb_refl. cbn [andb].
    rewrite (proj2 (buffer_eqb_spec y y) eq_refl). cbn [andb]. apply IH. reflexivity.
Qed.

Lemma inplace_on_dec : forall o t, {inplace_on o t} + {~ inplace_on o t}.
Proof.
  intros [k s ot | u | u | u | vars] t; cbn [inplace_on]; try (right; tauto); apply Nat.eq_dec.
Qed.

(* the "may have changed" set the model reports for one operation contains at most the target of a
   documented in-place operation; everything else is reported (and proved) unchanged *)
Theorem changed_only_inplace : forall h o t, wf h ->
  In t (changed h (fst (step h o))) -> inplace_on o t.
Proof.
  intros h o t W H. unfold changed in H. apply filter_In in H. destruct H as [Hin Hne].
  apply in_seq in Hin. destruct (inplace_on_dec o t) as [Y | N]; [exact Y|]. exfalso.
  pose proof (ops_preserve_operands [o] h t W ltac:(lia)) as P. cbn [run] in P.
  rewrite P in Hne.
  - rewrite (proj2 (value_eqb_spec _ _) eq_refl) in Hne. discriminate.
  - intros o' [<- | []]. exact N.
Qed.
