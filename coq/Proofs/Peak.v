(* Proofs about Model/Peak.v (C04). *)
From Coq Require Import Reals List Lra Lia Arith.
From OSU.Lib Require Import Sums.
From OSU.Model Require Import Moments Peak.
From OSU.Proofs Require Import Moments.
Import ListNotations.
Open Scope R_scope.

(* ------------------------------------------------------------------ *)
(* first_argmax                                                         *)
(* ------------------------------------------------------------------ *)
(* invariant of the scan after the prefix [pre] *)
Definition inv (pre : list (option R)) (best : option (nat * R)) : Prop :=
  match best with
  | None => forall k, nth k pre None = None
  | Some (j, v) =>
      nth j pre None = Some v /\
      forall k v', nth k pre None = Some v' -> v' <= v /\ ((k < j)%nat -> v' < v)
  end.

Lemma nth_snoc : forall (pre : list (option R)) x k,
  nth k (pre ++ [x]) None =
  if (k <? length pre)%nat then nth k pre None else if (k =? length pre)%nat then x else None.
Proof.
  intros pre x k. destruct (Nat.ltb_spec k (length pre)) as [H|H].
  - apply app_nth1; assumption.
  - rewrite app_nth2 by lia. destruct (Nat.eqb_spec k (length pre)) as [E|E].
    + subst. rewrite Nat.sub_diag. reflexivity.
    + destruct (k - length pre)%nat as [|m] eqn:D; [lia|]. cbn. destruct m; reflexivity.
Qed.

Lemma nth_some_lt : forall (l : list (option R)) k v, nth k l None = Some v -> (k < length l)%nat.
Proof.
  intros l k v H. destruct (Nat.ltb_spec k (length l)) as [Hk|Hk]; [assumption|].
  rewrite nth_overflow in H by lia. discriminate.
Qed.

Lemma argmax_from_inv : forall l pre best,
  inv pre best -> inv (pre ++ l) (argmax_from l (length pre) best).
Proof.
  induction l as [|x t IH]; intros pre best Hinv.
  - rewrite app_nil_r. exact Hinv.
  - replace (pre ++ x :: t) with ((pre ++ [x]) ++ t) by (rewrite <- app_assoc; reflexivity).
    assert (Hlen : S (length pre) = length (pre ++ [x])) by (rewrite app_length; cbn; lia).
    destruct x as [v|]; cbn [argmax_from].
    + destruct best as [[j bv]|].
      * destruct Hinv as [Hj Hall].
        pose proof (nth_some_lt _ _ _ Hj) as Hjl.
        destruct (Rgt_dec v bv) as [Hgt|Hle]; rewrite Hlen; apply IH; unfold inv.
        -- split.
           ++ rewrite nth_snoc, Nat.ltb_irrefl, Nat.eqb_refl. reflexivity.
           ++ intros k v' Hk. rewrite nth_snoc in Hk.
              destruct (Nat.ltb_spec k (length pre)) as [L|L].
              ** destruct (Hall k v' Hk) as [H1 _]. split; [lra | intros _; lra].
              ** destruct (Nat.eqb_spec k (length pre)) as [E|E]; [|discriminate].
                 inversion Hk; subst. split; [lra | lia].
        -- split.
           ++ rewrite nth_snoc. destruct (Nat.ltb_spec j (length pre)); [assumption | lia].
           ++ intros k v' Hk. rewrite nth_snoc in Hk.
              destruct (Nat.ltb_spec k (length pre)) as [L|L].
              ** apply Hall; assumption.
              ** destruct (Nat.eqb_spec k (length pre)) as [E|E]; [|discriminate].
                 inversion Hk; subst. split; [lra | lia].
      * rewrite Hlen. apply IH. unfold inv in *. split.
        -- rewrite nth_snoc, Nat.ltb_irrefl, Nat.eqb_refl. reflexivity.
        -- intros k v' Hk. rewrite nth_snoc in Hk.
           destruct (Nat.ltb_spec k (length pre)) as [L|L].
           ++ rewrite Hinv in Hk. discriminate.
           ++ destruct (Nat.eqb_spec k (length pre)) as [E|E]; [|discriminate].
              inversion Hk; subst. split; [lra | lia].
    + rewrite Hlen. apply IH. destruct best as [[j bv]|]; unfold inv in *.
      * destruct Hinv as [Hj Hall]. pose proof (nth_some_lt _ _ _ Hj) as Hjl. split.
        -- rewrite nth_snoc. destruct (Nat.ltb_spec j (length pre)); [assumption | lia].
        -- intros k v' Hk. rewrite nth_snoc in Hk.
           destruct (Nat.ltb_spec k (length pre)) as [L|L]; [apply Hall; assumption|].
           destruct (k =? length pre)%nat; discriminate.
      * intros k. rewrite nth_snoc.
        destruct (Nat.ltb_spec k (length pre)); [apply Hinv|]. destruct (k =? length pre)%nat; reflexivity.
Qed.

(* the returned index holds a maximal value that is strictly larger than everything before it *)
Lemma first_argmax_spec : forall l j,
  first_argmax l = Some j ->
  exists v, nth j l None = Some v /\
            forall k v', nth k l None = Some v' -> v' <= v /\ ((k < j)%nat -> v' < v).
Proof.
  intros l j H. unfold first_argmax in H.
  pose proof (argmax_from_inv l [] None) as Hinv. cbn [app length] in Hinv.
  assert (H0 : inv [] None) by (intros k; destruct k; reflexivity).
  specialize (Hinv H0).
  destruct (argmax_from l 0 None) as [[j' v]|]; [|discriminate].
  cbn in H. inversion H; subst j'. exists v. exact Hinv.
Qed.

Lemma first_argmax_none : forall l, first_argmax l = None <-> forall k, nth k l None = None.
Proof.
  intros l. unfold first_argmax.
  pose proof (argmax_from_inv l [] None) as Hinv. cbn [app length] in Hinv.
  assert (H0 : inv [] None) by (intros k; destruct k; reflexivity).
  specialize (Hinv H0).
  destruct (argmax_from l 0 None) as [[j v]|]; cbn.
  - split; [discriminate|]. intros Hall. destruct Hinv as [Hj _]. rewrite Hall in Hj. discriminate.
  - split; [intros _; exact Hinv | reflexivity].
Qed.

(* ------------------------------------------------------------------ *)
(* peak index                                                           *)
(* ------------------------------------------------------------------ *)
Lemma masked_length : forall fmin fmax f e, length f = length e ->
  length (masked fmin fmax f e) = length f.
Proof. intros. unfold masked. rewrite map_length, combine_length. lia. Qed.

Lemma masked_nth : forall fmin fmax f e k, length f = length e -> (k < length f)%nat ->
  nth k (masked fmin fmax f e) None
  = if in_band fmin fmax (nth k f 0) then nth k e None else Some 0.
Proof.
  intros fmin fmax f e k Hl Hk. unfold masked.
  set (g := fun p : R * option R => if in_band fmin fmax (fst p) then snd p else Some 0).
  rewrite (nth_indep _ None (g (0, None))) by (rewrite map_length, combine_length; lia).
  rewrite map_nth, combine_nth by assumption. reflexivity.
Qed.

Lemma peak_in_band : forall fmin fmax f e,
  length f = length e ->
  (exists i v, (i < length f)%nat /\ in_band fmin fmax (nth i f 0) = true /\
               nth i e None = Some v /\ 0 < v) ->
  exists k vk,
    peak_index fmin fmax f e = Some k /\ (k < length f)%nat /\
    in_band fmin fmax (nth k f 0) = true /\ nth k e None = Some vk /\
    forall j v', (j < length f)%nat -> in_band fmin fmax (nth j f 0) = true ->
                 nth j e None = Some v' -> v' <= vk /\ ((j < k)%nat -> v' < vk).
Proof.
  intros fmin fmax f e Hl [i [v [Hi [Hb [He Hv]]]]].
  unfold peak_index.
  destruct (first_argmax (masked fmin fmax f e)) as [k|] eqn:Hk.
  - destruct (first_argmax_spec _ _ Hk) as [vk [Hnk Hmax]].
    assert (Hklt : (k < length f)%nat).
    { rewrite <- (masked_length fmin fmax f e Hl). apply (nth_some_lt _ _ _ Hnk). }
    assert (Hiv : nth i (masked fmin fmax f e) None = Some v).
    { rewrite masked_nth by assumption. rewrite Hb. exact He. }
    destruct (Hmax i v Hiv) as [Hle _].
    rewrite masked_nth in Hnk by assumption.
    destruct (in_band fmin fmax (nth k f 0)) eqn:Hbk.
    + exists k, vk. split; [reflexivity|]. split; [assumption|]. split; [exact Hbk|].
      split; [assumption|].
      intros j v' Hj Hbj Hej.
      assert (Hjv : nth j (masked fmin fmax f e) None = Some v').
      { rewrite masked_nth by assumption. rewrite Hbj. exact Hej. }
      apply (Hmax j v' Hjv).
    + inversion Hnk; subst vk. lra.
  - exfalso. rewrite first_argmax_none in Hk. specialize (Hk i).
    rewrite masked_nth in Hk by assumption. rewrite Hb, He in Hk. discriminate.
Qed.

(* the index never points outside the grid *)
Lemma peak_index_lt : forall fmin fmax f e k,
  length f = length e -> peak_index fmin fmax f e = Some k -> (k < length f)%nat.
Proof.
  intros fmin fmax f e k Hl H. unfold peak_index in H.
  destruct (first_argmax_spec _ _ H) as [vk [Hnk _]].
  rewrite <- (masked_length fmin fmax f e Hl). apply (nth_some_lt _ _ _ Hnk).
Qed.

(* an index is returned unless every bin of the masked spectrum is NaN *)
Lemma peak_index_none : forall fmin fmax f e,
  peak_index fmin fmax f e = None <-> forall k, nth k (masked fmin fmax f e) None = None.
Proof. intros. unfold peak_index. apply first_argmax_none. Qed.

Lemma peak_derived : forall fmin fmax f e a1 b1 k,
  peak_index fmin fmax f e = Some k ->
  peak_frequency fmin fmax f e = Some (nth k f 0) /\
  peak_period fmin fmax f e
    = Some (if Req_EM_T (nth k f 0) 0 then None else Some (1 / nth k f 0)) /\
  peak_direction fmin fmax f e a1 b1
    = Some (match nth k a1 None, nth k b1 None with
            | Some a, Some b => Some (atan2 b a * 180 / PI)
            | _, _ => None end) /\
  peak_spread fmin fmax f e a1 b1
    = Some (match nth k a1 None, nth k b1 None with
            | Some a, Some b =>
                if Rlt_dec (2 - 2 * sqrt (a * a + b * b)) 0 then None
                else Some (sqrt (2 - 2 * sqrt (a * a + b * b)) * 180 / PI)
            | _, _ => None end).
Proof.
  intros fmin fmax f e a1 b1 k H.
  unfold peak_frequency, peak_period, peak_direction, peak_spread. rewrite H. cbn [option_map].
  repeat split.
Qed.

Lemma peak_batch_nth : forall fmin fmax f es d i,
  nth i (peak_index_batch fmin fmax f es) (peak_index fmin fmax f d)
  = peak_index fmin fmax f (nth i es d).
Proof. intros. unfold peak_index_batch. apply map_nth. Qed.

(* ------------------------------------------------------------------ *)
(* the dispersion solver                                                *)
(* ------------------------------------------------------------------ *)
Fixpoint iter {A : Type} (m : nat) (g : A -> A) (x : A) : A :=
  match m with O => x | S m' => iter m' g (g x) end.

Lemma newton_converged : forall fuel tol ps ks0 ks,
  newton fuel tol ps ks0 = Converged ks ->
  ok_all tol ps ks = true /\ exists m, (1 <= m <= fuel)%nat /\ ks = iter m (step_all ps) ks0.
Proof.
  induction fuel as [|fu IH]; intros tol ps ks0 ks H; [discriminate|].
  cbn [newton] in H.
  destruct (ok_all tol ps (step_all ps ks0)) eqn:Hok.
  - inversion H; subst ks. split; [assumption|]. exists 1%nat. split; [lia | reflexivity].
  - destruct (IH _ _ _ _ H) as [H1 [m [Hm Hks]]]. split; [assumption|].
    exists (S m). split; [lia | exact Hks].
Qed.

Lemma ok1_tolerance : forall tol w dep ok, ok1 tol (w, dep) ok = true -> 0 < w ->
  exists k om, ok = Some k /\ omega k dep = Some om /\ Rabs (om - w) < tol * w.
Proof.
  intros tol w dep ok H Hw. unfold ok1 in H.
  destruct ok as [k|]; [|discriminate].
  destruct (omega k dep) as [om|] eqn:Hom; [|discriminate].
  destruct (Req_EM_T w 0); [discriminate|].
  destruct (Rlt_dec (Rabs (om - w) / w) tol) as [Hlt|]; [|discriminate].
  exists k, om. split; [reflexivity|]. split; [exact Hom|].
  apply (Rmult_lt_compat_r w) in Hlt; [|assumption].
  unfold Rdiv in Hlt. rewrite Rmult_assoc, Rinv_l, Rmult_1_r in Hlt by lra. exact Hlt.
Qed.

Lemma ok_all_tolerance : forall tol ps ks w dep ok,
  ok_all tol ps ks = true -> In ((w, dep), ok) (combine ps ks) -> 0 < w ->
  exists k om, ok = Some k /\ omega k dep = Some om /\ Rabs (om - w) < tol * w.
Proof.
  intros tol ps ks w dep ok H Hin Hw. unfold ok_all in H. rewrite forallb_forall in H.
  specialize (H _ Hin). cbn [fst snd] in H. apply ok1_tolerance; assumption.
Qed.

Lemma step_all_map : forall ps (g : R * depth -> option R),
  step_all ps (map g ps) = map (fun p => newton1 p (g p)) ps.
Proof.
  intros. unfold step_all.
  assert (H : combine ps (map g ps) = map (fun p => (p, g p)) ps).
  { induction ps; cbn; [reflexivity | rewrite IHps; reflexivity]. }
  rewrite H, map_map. reflexivity.
Qed.

Lemma iter_step_all_map : forall m ps (g : R * depth -> option R),
  iter m (step_all ps) (map g ps) = map (fun p => iter m (newton1 p) (g p)) ps.
Proof.
  induction m as [|m IH]; intros ps g; cbn [iter]; [reflexivity|].
  rewrite step_all_map. apply (IH ps (fun p => newton1 p (g p))).
Qed.

(* exit through the tolerance test: every point has had the same number m >= 1 of Newton steps
   from its own first guess, is a number (not NaN), and meets the relative tolerance *)
Lemma kinv_converged : forall ps ks,
  kinv ps = Converged ks ->
  (exists m, (1 <= m <= 10)%nat /\ ks = map (fun p => iter m (newton1 p) (first_guess p)) ps) /\
  length ks = length ps /\
  forall i w dep, (i < length ps)%nat -> nth i ps (0, Deep) = (w, dep) -> 0 < w ->
    exists k om, nth i ks None = Some k /\ omega k dep = Some om /\ Rabs (om - w) < 1 / 1000 * w.
Proof.
  intros ps ks H. unfold kinv in H.
  destruct (newton_converged _ _ _ _ _ H) as [Hok [m [Hm Hks]]].
  rewrite iter_step_all_map in Hks.
  assert (Hlen : length ks = length ps) by (rewrite Hks, map_length; reflexivity).
  split; [exists m; split; assumption|]. split; [assumption|].
  intros i w dep Hi Hp Hw. fold tolerance.
  apply (ok_all_tolerance tolerance ps ks); [assumption | | assumption].
  rewrite <- Hp. rewrite <- (combine_nth ps ks i (0, Deep) None) by (symmetry; assumption).
  apply nth_In. rewrite combine_length. lia.
Qed.

Lemma kinv_exit_tolerance : forall ps ks i w dep,
  kinv ps = Converged ks -> (i < length ps)%nat -> nth i ps (0, Deep) = (w, dep) -> 0 < w ->
  exists k om, nth i ks None = Some k /\ omega k dep = Some om /\ Rabs (om - w) < 1 / 1000 * w.
Proof. intros ps ks i w dep H. destruct (kinv_converged ps ks H) as [_ [_ H3]]. apply H3. Qed.

(* ---- all_some ---- *)
Lemma all_some_spec : forall (A : Type) (l : list (option A)) r,
  all_some l = Some r -> length r = length l /\
  forall i d, (i < length l)%nat -> nth i l None = Some (nth i r d).
Proof.
  induction l as [|o t IH]; intros r H; cbn in H.
  - inversion H; subst. split; [reflexivity | intros; cbn in *; lia].
  - destruct o as [a|]; [|discriminate].
    destruct (all_some t) as [r'|] eqn:Ht; [|discriminate]. inversion H; subst r.
    destruct (IH r' eq_refl) as [Hl Hn]. split; [cbn; lia|].
    intros i d Hi. destruct i as [|i]; [reflexivity|]. cbn. apply Hn. cbn in Hi. lia.
Qed.

(* peak wavenumber: the dispersion relation holds, within the solver tolerance, at the radian
   peak frequency of the default band for that point's depth; NaN depth = deep water *)
Lemma peak_wavenumber_dispersion : forall f b ks,
  peak_wavenumber f b = Some (Converged ks) ->
  length ks = length b /\
  forall i e rd, (i < length b)%nat -> nth i b ([], RawNaN) = (e, rd) ->
    exists kp, peak_index 0 None f e = Some kp /\
      let w := nth kp f 0 * 2 * PI in
      0 < w ->
      exists k om, nth i ks None = Some k /\ omega k (depth_of rd) = Some om /\
                   Rabs (om - w) < 1 / 1000 * w.
Proof.
  intros f b ks H. unfold peak_wavenumber in H.
  destruct (all_some (map (fun p => peak_w f (fst p)) b)) as [ws|] eqn:Hws; [|discriminate].
  inversion H as [Hk]. clear H.
  destruct (all_some_spec _ _ _ Hws) as [Hl Hn]. rewrite map_length in Hl.
  set (ps := combine ws (map (fun p => depth_of (snd p)) b)) in *.
  assert (Hps : length ps = length b).
  { unfold ps. rewrite combine_length, map_length. lia. }
  destruct (kinv_converged ps ks Hk) as [_ [Hlen Htol]].
  split; [lia|].
  intros i e rd Hi Hb.
  specialize (Hn i 0). rewrite map_length in Hn. specialize (Hn Hi).
  rewrite (nth_indep _ None (peak_w f (fst (@nil (option R), RawNaN)))) in Hn by (rewrite map_length; assumption).
  rewrite (map_nth (fun p => peak_w f (fst p))) in Hn. rewrite Hb in Hn. cbn [fst] in Hn.
  unfold peak_w in Hn.
  destruct (peak_index 0 None f e) as [kp|]; [|discriminate].
  exists kp. split; [reflexivity|]. cbn [option_map] in Hn. inversion Hn as [Hw].
  intros w Hwpos. unfold freq_at in Hw. fold w in Hw.
  apply Htol; [lia | | assumption].
  unfold ps. rewrite combine_nth by (rewrite map_length; lia).
  rewrite Hw. f_equal.
  rewrite (nth_indep _ Deep (depth_of (snd (@nil (option R), RawNaN)))) by (rewrite map_length; assumption).
  rewrite (map_nth (fun p => depth_of (snd p))). rewrite Hb. reflexivity.
Qed.

(* missing depth means deep water; in deep water the first guess w^2/g is the exact root *)
Lemma nan_depth_is_deep : forall k, omega k (depth_of RawNaN) = osqrt (grav * k).
Proof. reflexivity. Qed.

Lemma deep_first_guess_exact : forall w, 0 < w ->
  first_guess (w, Deep) = Some (w * w / grav) /\ omega (w * w / grav) Deep = Some w.
Proof.
  intros w Hw. unfold first_guess, omega, osqrt. destruct (Rgt_dec w 0); [|lra].
  split; [reflexivity|].
  replace (grav * (w * w / grav)) with (w * w) by (unfold grav; field).
  assert (0 < w * w) by (apply Rmult_lt_0_compat; assumption).
  destruct (Rlt_dec (w * w) 0); [lra|]. f_equal. apply sqrt_square. lra.
Qed.

(* ------------------------------------------------------------------ *)
(* range of the direction; deep water converges                         *)
(* ------------------------------------------------------------------ *)
(* the direction lies in (-180, 180] *)
Lemma atan2_range : forall y x, - PI < atan2 y x <= PI.
Proof.
  intros y x. unfold atan2. pose proof PI_RGT_0 as Hpi.
  destruct (Rlt_dec 0 x) as [Hx|Hx].
  - pose proof (atan_bound (y / x)). lra.
  - destruct (Rlt_dec x 0) as [Hx'|Hx'].
    + destruct (Rle_dec 0 y) as [Hy|Hy].
      * assert (y / x <= 0).
        { unfold Rdiv. assert (/ x < 0) by (apply Rinv_lt_0_compat; assumption).
          assert (0 <= y * - / x) by (apply Rmult_le_pos; lra). lra. }
        assert (atan (y / x) <= 0).
        { destruct (Req_dec (y / x) 0) as [E|E]; [rewrite E, atan_0; lra|].
          rewrite <- atan_0. apply Rlt_le, atan_increasing. lra. }
        pose proof (atan_bound (y / x)). lra.
      * assert (0 < y / x).
        { unfold Rdiv. assert (/ x < 0) by (apply Rinv_lt_0_compat; assumption).
          assert (0 < (- y) * - / x) by (apply Rmult_lt_0_compat; lra). lra. }
        assert (0 < atan (y / x)) by (rewrite <- atan_0; apply atan_increasing; assumption).
        pose proof (atan_bound (y / x)). lra.
    + destruct (Rlt_dec 0 y); [lra|]. destruct (Rlt_dec y 0); lra.
Qed.

Lemma dir_deg_range : forall a b, -180 < dir_deg a b <= 180.
Proof.
  intros a b. unfold dir_deg. pose proof PI_RGT_0 as Hpi. pose proof (atan2_range b a) as [H1 H2].
  split.
  - apply (Rmult_lt_reg_r PI); [assumption|].
    unfold Rdiv. rewrite Rmult_assoc, Rinv_l, Rmult_1_r by lra. lra.
  - apply (Rmult_le_reg_r PI); [assumption|].
    unfold Rdiv. rewrite Rmult_assoc, Rinv_l, Rmult_1_r by lra. lra.
Qed.

(* deep water: the first guess is the exact root, one Newton step leaves it unchanged and the loop
   exits through the tolerance test *)
Lemma deep_root_pos : forall w, 0 < w -> 0 < w * w / grav.
Proof.
  intros w Hw. apply Rdiv_lt_0_compat; [apply Rmult_lt_0_compat; assumption | unfold grav; lra].
Qed.

Lemma deep_newton_fixed : forall w, 0 < w ->
  newton1 (w, Deep) (Some (w * w / grav)) = Some (w * w / grav).
Proof.
  intros w Hw. unfold newton1.
  destruct (deep_first_guess_exact w Hw) as [_ Hom]. rewrite Hom.
  pose proof (deep_root_pos w Hw) as Hk.
  unfold dwdk. destruct (Req_EM_T (w * w / grav) 0); [lra|].
  assert (0 < 1 / 2 * w / (w * w / grav)) by (apply Rdiv_lt_0_compat; lra).
  destruct (Req_EM_T (1 / 2 * w / (w * w / grav)) 0); [lra|].
  f_equal. unfold Rminus at 2. rewrite Rplus_opp_r. unfold Rdiv at 2. rewrite Rmult_0_l. lra.
Qed.

Definition all_deep (ps : list (R * depth)) : Prop := forall p, In p ps -> snd p = Deep /\ 0 < fst p.

Lemma deep_converges : forall ps, all_deep ps ->
  kinv ps = Converged (map (fun p => Some (fst p * fst p / grav)) ps).
Proof.
  intros ps H. unfold kinv. cbn [newton].
  assert (Hfg : map first_guess ps = map (fun p => Some (fst p * fst p / grav)) ps).
  { apply map_ext_in. intros [w d] Hin. destruct (H _ Hin) as [Hd Hw]. cbn in Hd, Hw. subst d.
    apply (deep_first_guess_exact w Hw). }
  rewrite Hfg.
  assert (Hstep : step_all ps (map (fun p => Some (fst p * fst p / grav)) ps)
                  = map (fun p => Some (fst p * fst p / grav)) ps).
  { rewrite step_all_map. apply map_ext_in. intros [w d] Hin.
    destruct (H _ Hin) as [Hd Hw]. cbn in Hd, Hw. subst d. cbn [fst]. apply deep_newton_fixed; assumption. }
  rewrite Hstep.
  assert (Hok : ok_all tolerance ps (map (fun p => Some (fst p * fst p / grav)) ps) = true).
  { unfold ok_all. apply forallb_forall. intros [[w d] k] Hin.
    assert (Hk : k = Some (w * w / grav)).
    { clear -Hin. induction ps as [|q ps IH]; [contradiction|]. cbn in Hin.
      destruct Hin as [E|Hin]; [inversion E; reflexivity | apply IH; assumption]. }
    destruct (H _ (in_combine_l _ _ _ _ Hin)) as [Hd Hw]. cbn in Hd, Hw. subst d k.
    cbn [fst snd]. unfold ok1. destruct (deep_first_guess_exact w Hw) as [_ Hom]. rewrite Hom.
    destruct (Req_EM_T w 0); [lra|].
    unfold Rminus. rewrite Rplus_opp_r, Rabs_R0. unfold Rdiv. rewrite Rmult_0_l.
    unfold tolerance. fold (Rdiv 1 1000). destruct (Rlt_dec 0 (1 / 1000)); [reflexivity | lra]. }
  rewrite Hok. reflexivity.
Qed.

(* ------------------------------------------------------------------ *)
(* instance: plateau (tie) and a larger value outside the band           *)
(* ------------------------------------------------------------------ *)
Definition exp_f : list R := [1 / 8; 1 / 4; 1 / 2; 1; 2].
Definition exp_e : list (option R) := [Some 9; Some 3; None; Some 3; Some 1].

Lemma exp_peak : peak_index (1 / 4) (Some 2) exp_f exp_e = Some 1%nat.
Proof.
  unfold peak_index, masked, exp_f, exp_e. cbn [combine map fst snd].
  rewrite (in_band_false (1 / 4) (Some 2) (1 / 8)) by (left; lra).
  rewrite !(proj2 (in_band_true (1 / 4) (Some 2) _)) by (split; lra).
  rewrite (in_band_false (1 / 4) (Some 2) 2) by (right; lra).
  unfold first_argmax. cbn [argmax_from].
  destruct (Rgt_dec 3 0); [|lra]. destruct (Rgt_dec 3 3); [lra|]. destruct (Rgt_dec 0 3); [lra|].
  reflexivity.
Qed.

Lemma exp_premise :
  length exp_f = length exp_e /\
  exists i v, (i < length exp_f)%nat /\ in_band (1 / 4) (Some 2) (nth i exp_f 0) = true /\
              nth i exp_e None = Some v /\ 0 < v.
Proof.
  split; [reflexivity|]. exists 3%nat, 3. cbn. repeat split; try lra; try lia.
  apply in_band_true. split; lra.
Qed.
