(* Proofs about OSU.Model.WindInversion: the hybrid Newton solver (partial correctness, bracket
   invariant, enclosure in the bounds), the inversion driver (zero-dissipation rule, direction rule,
   balance function, NaN rule, batch independence). *)
From Coq Require Import Reals Ranalysis5 List Arith Bool ZArith Lra Lia.
From OSU.Model Require Import WindInversion.
Import ListNotations.
Open Scope R_scope.

(* ------------------------------------------------------------------ *)
(* bounds given as options                                             *)
(* ------------------------------------------------------------------ *)
Definition in_lo (b : option R) (x : R) : Prop := match b with Some l => l <= x | None => True end.
Definition in_hi (b : option R) (x : R) : Prop := match b with Some h => x <= h | None => True end.

Lemma clip_in : forall blo bhi cur nxt,
  in_lo blo cur -> in_hi bhi cur ->
  in_lo blo (clip blo bhi cur nxt) /\ in_hi bhi (clip blo bhi cur nxt).
Proof.
  intros blo bhi cur nxt Hl Hh. unfold clip.
  destruct blo as [l|]; destruct bhi as [h|]; cbn [in_lo in_hi] in *.
  - destruct (Rlt_dec nxt l).
    + destruct (Rgt_dec ((l - cur) * (1 / 2) + cur) h); split; lra.
    + destruct (Rgt_dec nxt h); split; lra.
  - destruct (Rlt_dec nxt l); split; auto; lra.
  - destruct (Rgt_dec nxt h); split; auto; lra.
  - split; auto.
Qed.

(* the closeness test of the loop *)
Definition close_step (c : cfg) (x xp : R) : Prop :=
  Rabs (x - xp) < c_atol c /\ Rabs (x - xp) / Rmax (Rabs xp) (c_atol c) < c_rtol c.

Lemma finish_cases : forall c ait s fx r0 r1 g0 g1 (b : bool) nxt,
  let n := clip (if b then Some r0 else c_lo c) (if b then Some r1 else c_hi c) (x2 s) nxt in
  finish c ait s fx r0 r1 g0 g1 b nxt = SFail DivZero \/
  (finish c ait s fx r0 r1 g0 g1 b nxt = SDone n /\ close_step c n (x2 s) /\ ait = false) \/
  finish c ait s fx r0 r1 g0 g1 b nxt = SCont (mkst (x1 s) (x2 s) n fx r0 r1 g0 g1 b).
Proof.
  intros. unfold finish. fold n.
  destruct (Req_EM_T (Rmax (Rabs (x2 s)) (c_atol c)) 0); [left; reflexivity|].
  destruct (Rlt_dec (Rabs (n - x2 s)) (c_atol c)); [|right; right; reflexivity].
  destruct (Rlt_dec (Rabs (n - x2 s) / Rmax (Rabs (x2 s)) (c_atol c)) (c_rtol c)).
  - destruct ait.
    + right; right; reflexivity.
    + right; left. split; [reflexivity|]. split; [split; assumption|reflexivity].
  - right; right; reflexivity.
Qed.

Section SolverProofs.
  Variable f : R -> option R.
  Variable c : cfg.

  (* invariant of the loop state *)
  Record Inv (s : st) : Prop := mkInv {
    inv_order : rb0 s <= rb1 s;
    inv_f0 : f (rb0 s) = Some (fb0 s);
    inv_f1 : f (rb1 s) = Some (fb1 s);
    inv_bnd : bnd s = true -> fb0 s * fb1 s < 0 /\ rb0 s <= x2 s <= rb1 s;
    inv_lo : in_lo (c_lo c) (x2 s) /\ in_lo (c_lo c) (rb0 s);
    inv_hi : in_hi (c_hi c) (x2 s) /\ in_hi (c_hi c) (rb1 s) }.

  Lemma in_lo_trans : forall b x y, in_lo b x -> x <= y -> in_lo b y.
  Proof. intros [l|] x y; cbn; intros; auto; lra. Qed.
  Lemma in_hi_trans : forall b x y, in_hi b x -> y <= x -> in_hi b y.
  Proof. intros [l|] x y; cbn; intros; auto; lra. Qed.

  (* what [finish] guarantees when it is entered with a consistent bracket *)
  Lemma finish_post : forall ait s fx r0 r1 g0 g1 b nxt,
    r0 <= r1 -> f r0 = Some g0 -> f r1 = Some g1 ->
    (b = true -> g0 * g1 < 0 /\ r0 <= x2 s <= r1) ->
    in_lo (c_lo c) (x2 s) -> in_lo (c_lo c) r0 -> in_hi (c_hi c) (x2 s) -> in_hi (c_hi c) r1 ->
    match finish c ait s fx r0 r1 g0 g1 b nxt with
    | SFail _ => True
    | SDone x => close_step c x (x2 s) /\ in_lo (c_lo c) x /\ in_hi (c_hi c) x /\ (b = true -> r0 <= x <= r1)
    | SCont s' => Inv s' /\ x1 s' = x2 s /\ rb0 s' = r0 /\ rb1 s' = r1 /\ bnd s' = b
    end.
  Proof.
    intros ait s fx r0 r1 g0 g1 b nxt Ho H0 H1 Hb Hlx Hl0 Hhx Hh1.
    set (n := clip (if b then Some r0 else c_lo c) (if b then Some r1 else c_hi c) (x2 s) nxt).
    assert (Hn : in_lo (c_lo c) n /\ in_hi (c_hi c) n /\ (b = true -> r0 <= n <= r1)).
    { unfold n. destruct b.
      - destruct (Hb eq_refl) as [_ [Ha Hc]].
        destruct (clip_in (Some r0) (Some r1) (x2 s) nxt) as [A B]; cbn; auto.
        cbn in A, B. repeat split; auto.
        + eapply in_lo_trans; eauto.
        + eapply in_hi_trans; eauto.
      - destruct (clip_in (c_lo c) (c_hi c) (x2 s) nxt) as [A B]; auto.
        repeat split; auto; intros; discriminate. }
    destruct Hn as [Hnl [Hnh Hnb]].
    destruct (finish_cases c ait s fx r0 r1 g0 g1 b nxt) as [E|[[E [Hc _]]|E]]; fold n in E; rewrite E.
    - exact I.
    - fold n in Hc. split; [exact Hc|]. split; [exact Hnl|]. split; [exact Hnh|exact Hnb].
    - split; [|cbn; auto].
      constructor; cbn; auto.
      intros Hbt. split; [apply Hb; auto | apply Hnb; auto].
  Qed.

  (* the bracket update keeps the bracket consistent and, once the root is bracketed, keeps it so *)
  Lemma upd_bracket_spec : forall s fx,
    Inv s -> f (x2 s) = Some fx ->
    let '(r0, g0, r1, g1) := upd_bracket s fx in
    r0 <= x2 s <= r1 /\ f r0 = Some g0 /\ f r1 = Some g1 /\
    in_lo (c_lo c) r0 /\ in_hi (c_hi c) r1 /\
    (bnd s = true -> g0 * g1 < 0 /\ rb0 s <= r0 /\ r1 <= rb1 s).
  Proof.
    intros s fx HI Hfx. destruct HI as [Ho H0 H1 Hb [Hlx Hl0] [Hhx Hh1]].
    unfold upd_bracket.
    destruct (Rlt_dec (x2 s) (rb0 s)) as [A|A].
    { split; [lra|]. do 4 (split; [assumption|]).
      intros Hbt. exfalso. destruct (Hb Hbt) as [_ [? ?]]. lra. }
    destruct (Rgt_dec (x2 s) (rb1 s)) as [B|B].
    { split; [lra|]. do 4 (split; [assumption|]).
      intros Hbt. exfalso. destruct (Hb Hbt) as [_ [? ?]]. lra. }
    destruct (Rlt_dec (fb0 s * fx) 0) as [P|P].
    { split; [lra|]. do 4 (split; [assumption|]).
      intros _. split; [assumption|lra]. }
    destruct (Rlt_dec (fb1 s * fx) 0) as [Q|Q].
    { split; [lra|]. do 4 (split; [assumption|]).
      intros _. split; [rewrite Rmult_comm; exact Q|lra]. }
    split; [lra|]. do 4 (split; [assumption|]).
    intros Hbt. destruct (Hb Hbt) as [? _]. split; [assumption|lra].
  Qed.

  Definition post (s : st) (r : sres) : Prop :=
    match r with
    | SFail _ => True
    | SDone x => close_step c x (x2 s) /\ in_lo (c_lo c) x /\ in_hi (c_hi c) x /\
                 (bnd s = true -> rb0 s <= x <= rb1 s)
    | SCont s' => Inv s' /\ x1 s' = x2 s /\
                  (bnd s = true -> bnd s' = true /\ rb0 s <= rb0 s' /\ rb1 s' <= rb1 s)
    end.

  Lemma step_post : forall it s, Inv s -> post s (step f c it s).
  Proof.
    intros it s HI. unfold step.
    destruct (f (x2 s)) as [fx|] eqn:Hfx; [|exact I].
    destruct (andb (c_aitken c) (Nat.eqb (it mod 3) 0)).
    - (* Aitken *)
      destruct (aitken_next s) as [nxt|]; [|exact I].
      destruct HI as [Ho H0 H1 Hb [Hlx Hl0] [Hhx Hh1]].
      pose proof (finish_post true s fx (rb0 s) (rb1 s) (fb0 s) (fb1 s) (bnd s) nxt Ho H0 H1 Hb Hlx Hl0 Hhx Hh1) as HF.
      destruct (finish c true s fx (rb0 s) (rb1 s) (fb0 s) (fb1 s) (bnd s) nxt) as [s'|x|r]; cbn [post].
      + destruct HF as [Hi [Hx [Hr0 [Hr1 Hbn]]]].
        split; [exact Hi|]. split; [exact Hx|].
        intros Hbt. rewrite Hbn, Hr0, Hr1. split; [exact Hbt|]. split; lra.
      + destruct HF as [Hc [Hl [Hh Hbb]]].
        split; [exact Hc|]. split; [exact Hl|]. split; [exact Hh|exact Hbb].
      + exact I.
    - (* regular step *)
      pose proof (upd_bracket_spec s fx HI Hfx) as HU.
      destruct (upd_bracket s fx) as [[[r0 g0] r1] g1].
      destruct HU as [[Ha Hc] [Hf0 [Hf1 [Hl0 [Hh1 Hm]]]]].
      destruct HI as [Ho H0 H1 Hb [Hlx _] [Hhx _]].
      assert (Hbnew : sgn_lt0 g0 g1 = true -> g0 * g1 < 0 /\ r0 <= x2 s <= r1).
      { unfold sgn_lt0. destruct (Rlt_dec (g0 * g1) 0); [intros _; split; [assumption|lra]|discriminate]. }
      assert (Hmono : bnd s = true -> sgn_lt0 g0 g1 = true).
      { intros Hbt. destruct (Hm Hbt) as [Hp _]. unfold sgn_lt0. destruct (Rlt_dec (g0 * g1) 0); [reflexivity|contradiction]. }
      assert (Hord : r0 <= r1) by lra.
      destruct (derivative f c it s fx (sgn_lt0 g0 g1)) as [[d|]|]; try exact I.
      assert (HF : forall nxt, post s (finish c false s fx r0 r1 g0 g1 (sgn_lt0 g0 g1) nxt)).
      { intros nxt.
        pose proof (finish_post false s fx r0 r1 g0 g1 (sgn_lt0 g0 g1) nxt Hord Hf0 Hf1 Hbnew Hlx Hl0 Hhx Hh1) as HF.
        destruct (finish c false s fx r0 r1 g0 g1 (sgn_lt0 g0 g1) nxt) as [s'|x|r]; cbn [post].
        - destruct HF as [Hi [Hx [Hr0 [Hr1 Hbn]]]].
          split; [exact Hi|]. split; [exact Hx|].
          intros Hbt. rewrite Hbn, Hr0, Hr1. destruct (Hm Hbt) as [_ [? ?]].
          split; [apply Hmono; exact Hbt|]. split; assumption.
        - destruct HF as [Hcl [Hl [Hh Hbb]]].
          split; [exact Hcl|]. split; [exact Hl|]. split; [exact Hh|].
          intros Hbt. destruct (Hm Hbt) as [_ [? ?]]. destruct (Hbb (Hmono Hbt)). lra.
        - exact I. }
      destruct (Req_EM_T d 0).
      + destruct (sgn_lt0 g0 g1) eqn:Eb; [|exact I]. apply HF.
      + apply HF.
  Qed.

  (* ---------------------------------------------------------------- *)
  (* runs of the loop                                                  *)
  (* ---------------------------------------------------------------- *)

  (* [reach it s it' s'] : the loop gets from pass [it] in state [s] to pass [it'] in state [s'] *)
  Inductive reach : nat -> st -> nat -> st -> Prop :=
  | reach_refl : forall it s, reach it s it s
  | reach_step : forall it s s1 it' s', step f c it s = SCont s1 -> reach (S it) s1 it' s' -> reach it s it' s'.

  Lemma reach_inv : forall it s it' s', reach it s it' s' -> Inv s ->
    Inv s' /\ (bnd s = true -> bnd s' = true /\ rb0 s <= rb0 s' /\ rb1 s' <= rb1 s).
  Proof.
    induction 1; intros HI.
    - split; auto. intros; repeat split; auto; lra.
    - pose proof (step_post it s HI) as HP. rewrite H in HP. destruct HP as [HI1 [_ Hm]].
      destruct (IHreach HI1) as [HI' Hm']. split; auto.
      intros Hb. destruct (Hm Hb) as [Hb1 [Ha Hc]]. destruct (Hm' Hb1) as [Hb' [Ha' Hc']].
      repeat split; auto; lra.
  Qed.

  Lemma loop_converged : forall fuel it s x,
    loop f c fuel it s = Converged x ->
    exists it' s', reach it s it' s' /\ step f c it' s' = SDone x.
  Proof.
    induction fuel; intros it s x H; cbn in H; [discriminate|].
    destruct (step f c it s) as [s1|y|r] eqn:E; try discriminate.
    - destruct (IHfuel _ _ _ H) as [it' [s' [Hr Hs]]].
      exists it', s'. split; auto. eapply reach_step; eauto.
    - inversion H; subst. exists it, s. split; [constructor|assumption].
  Qed.

  Lemma loop_maxiter : forall fuel it s x,
    loop f c fuel it s = MaxIter x ->
    exists it' s', reach it s it' s' /\ x = x2 s' /\ it' = (it + fuel)%nat.
  Proof.
    induction fuel; intros it s x H; cbn in H.
    - inversion H; subst. exists it, s. repeat split; [constructor|lia].
    - destruct (step f c it s) as [s1|y|r] eqn:E; try discriminate.
      destruct (IHfuel _ _ _ H) as [it' [s' [Hr [Hx Hi]]]].
      exists it', s'. repeat split; auto; [eapply reach_step; eauto|lia].
  Qed.

  Lemma init_inv : forall guess a b,
    f (guess - 1 / 2 * Rabs guess) = Some a -> f (guess + 1 / 2 * Rabs guess) = Some b ->
    in_lo (c_lo c) (guess - 1 / 2 * Rabs guess) -> in_hi (c_hi c) (guess + 1 / 2 * Rabs guess) ->
    Inv (init_state guess a b).
  Proof.
    intros guess a b Ha Hb Hl Hh. pose proof (Rabs_pos guess) as Hp.
    constructor; cbn; auto; try lra.
    - unfold sgn_lt0. destruct (Rlt_dec (a * b) 0); [intros _; split; [assumption|lra]|discriminate].
    - split; auto. eapply in_lo_trans; eauto. lra.
    - split; auto. eapply in_hi_trans; eauto. lra.
  Qed.

  (* ---- partial correctness of the solver ---- *)
  Theorem newton_converged : forall guess x,
    newton f c guess = Converged x ->
    in_lo (c_lo c) (guess - 1 / 2 * Rabs guess) -> in_hi (c_hi c) (guess + 1 / 2 * Rabs guess) ->
    exists it s, (exists a b, reach 1 (init_state guess a b) it s) /\ Inv s /\
      close_step c x (x2 s) /\ in_lo (c_lo c) x /\ in_hi (c_hi c) x /\
      (bnd s = true -> rb0 s <= x <= rb1 s).
  Proof.
    intros guess x H Hl Hh. unfold newton in H.
    destruct (f (guess - 1 / 2 * Rabs guess)) as [a|] eqn:Ea; [|discriminate].
    destruct (f (guess + 1 / 2 * Rabs guess)) as [b|] eqn:Eb; [|discriminate].
    destruct (loop_converged _ _ _ _ H) as [it [s [Hr Hs]]].
    pose proof (init_inv guess a b Ea Eb Hl Hh) as HI0.
    destruct (reach_inv _ _ _ _ Hr HI0) as [HI _].
    pose proof (step_post it s HI) as HP. rewrite Hs in HP. destruct HP as [Hc [Hlo [Hhi Hb]]].
    exists it, s. split; [exists a, b; exact Hr|]. split; [exact HI|]. split; [exact Hc|].
    split; [exact Hlo|]. split; [exact Hhi|exact Hb].
  Qed.

  (* last step below the tolerances (no premise on the bounds is needed for this part) *)
  Theorem newton_converged_step : forall guess x,
    newton f c guess = Converged x ->
    exists xp, Rabs (x - xp) < c_atol c /\ Rabs (x - xp) / Rmax (Rabs xp) (c_atol c) < c_rtol c.
  Proof.
    intros guess x H. unfold newton in H.
    destruct (f (guess - 1 / 2 * Rabs guess)) as [a|]; [|discriminate].
    destruct (f (guess + 1 / 2 * Rabs guess)) as [b|]; [|discriminate].
    destruct (loop_converged _ _ _ _ H) as [it [s [_ Hs]]].
    exists (x2 s). unfold step in Hs.
    destruct (f (x2 s)) as [fx|]; [|discriminate].
    assert (HF : forall ait r0 r1 g0 g1 bb nxt, finish c ait s fx r0 r1 g0 g1 bb nxt = SDone x -> close_step c x (x2 s)).
    { intros ait r0 r1 g0 g1 bb nxt E.
      destruct (finish_cases c ait s fx r0 r1 g0 g1 bb nxt) as [E'|[[E' [Hc _]]|E']]; rewrite E' in E; try discriminate.
      inversion E; subst. exact Hc. }
    destruct (andb (c_aitken c) (Nat.eqb (it mod 3) 0)).
    - destruct (aitken_next s); [|discriminate]. eapply HF; eauto.
    - destruct (upd_bracket s fx) as [[[r0 g0] r1] g1].
      destruct (derivative f c it s fx (sgn_lt0 g0 g1)) as [[d|]|]; try discriminate.
      destruct (Req_EM_T d 0).
      + destruct (sgn_lt0 g0 g1); [|discriminate]. eapply HF; eauto.
      + eapply HF; eauto.
  Qed.

  (* ---- bracket invariant along any run ---- *)
  Theorem bracket_invariant : forall guess a b it s it' s',
    f (guess - 1 / 2 * Rabs guess) = Some a -> f (guess + 1 / 2 * Rabs guess) = Some b ->
    in_lo (c_lo c) (guess - 1 / 2 * Rabs guess) -> in_hi (c_hi c) (guess + 1 / 2 * Rabs guess) ->
    reach 1 (init_state guess a b) it s -> reach it s it' s' ->
    bnd s = true ->
    bnd s' = true /\
    f (rb0 s') = Some (fb0 s') /\ f (rb1 s') = Some (fb1 s') /\ fb0 s' * fb1 s' < 0 /\
    rb0 s <= rb0 s' /\ rb0 s' <= x2 s' <= rb1 s' /\ rb1 s' <= rb1 s.
  Proof.
    intros guess a b it s it' s' Ha Hb Hl Hh R1 R2 Hbt.
    pose proof (init_inv guess a b Ha Hb Hl Hh) as HI0.
    destruct (reach_inv _ _ _ _ R1 HI0) as [HI _].
    destruct (reach_inv _ _ _ _ R2 HI) as [HI' Hm].
    destruct (Hm Hbt) as [Hb' [Hx Hy]].
    destruct HI' as [Ho H0 H1 Hbb _ _]. destruct (Hbb Hb') as [Hp Hq].
    repeat split; auto; lra.
  Qed.
End SolverProofs.

(* a bracket with a sign change contains a root of a continuous function (IVT) *)
Lemma bracket_has_root : forall (g : R -> R) lo hi,
  (forall x, lo <= x <= hi -> continuity_pt g x) -> lo <= hi -> g lo * g hi < 0 ->
  exists z, lo <= z <= hi /\ g z = 0.
Proof.
  intros g lo hi Hc Hle Hs.
  assert (Hlt : lo < hi).
  { destruct Hle as [|E]; auto. subst. exfalso.
    pose proof (Rle_0_sqr (g hi)) as Hq. unfold Rsqr in Hq. lra. }
  destruct (Rlt_dec (g lo) 0) as [Hn|Hn].
  - assert (0 < g hi).
    { destruct (Rlt_dec 0 (g hi)); auto. exfalso.
      assert (0 <= g lo * g hi).
      { replace (g lo * g hi) with ((- g lo) * (- g hi)) by ring. apply Rmult_le_pos; lra. }
      lra. }
    destruct (IVT_interv g lo hi Hc Hlt Hn H) as [z [Hz Hg]]. exists z. split; auto.
  - assert (Hp : 0 < g lo).
    { destruct (Req_dec (g lo) 0) as [E|E]; [rewrite E in Hs; lra|lra]. }
    assert (Hq : g hi < 0).
    { destruct (Rlt_dec (g hi) 0); auto. exfalso.
      assert (0 <= g lo * g hi) by (apply Rmult_le_pos; lra). lra. }
    destruct (IVT_interv (fun x => - g x) lo hi) as [z [Hz Hg]]; auto; try lra.
    + intros x Hx. apply continuity_pt_opp. apply Hc; auto.
    + exists z. split; auto. lra.
Qed.

(* Converged with a bracketed root: the result lies in a bracket that contains a root of the
   (continuous) function, hence within the bracket width of a root *)
Theorem newton_converged_near_root : forall (g : R -> R) c guess x,
  (forall t, continuity_pt g t) ->
  newton (fun t => Some (g t)) c guess = Converged x ->
  in_lo (c_lo c) (guess - 1 / 2 * Rabs guess) -> in_hi (c_hi c) (guess + 1 / 2 * Rabs guess) ->
  exists it s, (exists a b, reach (fun t => Some (g t)) c 1 (init_state guess a b) it s) /\
    (bnd s = true -> exists z, g z = 0 /\ rb0 s <= z <= rb1 s /\ rb0 s <= x <= rb1 s /\
                               Rabs (x - z) <= rb1 s - rb0 s).
Proof.
  intros g c guess x Hc H Hl Hh.
  destruct (newton_converged _ c guess x H Hl Hh) as [it [s [Hr [HI [_ [_ [_ Hb]]]]]]].
  exists it, s. split; auto. intros Hbt.
  destruct HI as [Ho H0 H1 Hbb _ _]. destruct (Hbb Hbt) as [Hp _].
  inversion H0 as [E0]. inversion H1 as [E1]. rewrite <- E0, <- E1 in Hp.
  destruct (bracket_has_root g (rb0 s) (rb1 s)) as [z [Hz Hg]]; auto.
  exists z. destruct (Hb Hbt). repeat split; auto; try lra.
  apply Rabs_le. lra.
Qed.

(* ------------------------------------------------------------------ *)
(* the inversion driver                                                *)
(* ------------------------------------------------------------------ *)

Lemma bulk_rate_zero_point : forall F newdir diriter guess gdir,
  u10_from_bulk_rate_point F newdir diriter 0 guess gdir = (Some 0, Some gdir).
Proof.
  intros. unfold u10_from_bulk_rate_point. destruct (Req_EM_T 0 0) as [_|n]; [reflexivity|lra].
Qed.

Lemma no_diriter_point : forall F newdir target guess gdir,
  target <> 0 ->
  u10_from_bulk_rate_point F newdir false target guess gdir
  = (value_of true (newton (F gdir) driver_cfg guess), Some gdir).
Proof.
  intros. unfold u10_from_bulk_rate_point.
  destruct (Req_EM_T target 0); [contradiction|]. cbn [dir_loop].
  destruct (value_of true (newton (F gdir) driver_cfg guess)); reflexivity.
Qed.

Lemma no_diriter_direction : forall F newdir target guess gdir,
  snd (u10_from_bulk_rate_point F newdir false target guess gdir) = Some gdir.
Proof.
  intros. destruct (Req_dec target 0) as [E|E].
  - subst. rewrite bulk_rate_zero_point. reflexivity.
  - rewrite no_diriter_point; auto.
Qed.

Lemma value_of_true_some : forall r u, value_of true r = Some u -> r = Converged u.
Proof. intros [x|x|e] u H; cbn in H; try discriminate. inversion H; reflexivity. Qed.

Lemma value_of_true_none : forall r, value_of true r = None <-> (forall u, r <> Converged u).
Proof.
  intros [x|x|e]; cbn; split; intros H.
  - discriminate.
  - exfalso. apply (H x). reflexivity.
  - intros u E; discriminate.
  - reflexivity.
  - intros u E; discriminate.
  - reflexivity.
Qed.

(* zero integrated dissipation => U10 = 0, direction = dissipation direction *)
Lemma zero_dissipation_zero_wind : forall g diriter p,
  diss_bulk (p_diss p) g = 0 ->
  u10_from_spectra_point g diriter p = (Some 0, Some (diss_direction (p_diss p) (p_k p) g)).
Proof.
  intros g diriter p H. unfold u10_from_spectra_point. rewrite H.
  replace (- 0) with 0 by ring. apply bulk_rate_zero_point.
Qed.

Lemma sum_row_zero : forall row dth dfi acc, Forall (fun v => v = 0) row -> sum_row acc row dth dfi = acc.
Proof.
  induction row as [|a r IH]; intros dth dfi acc H; cbn; auto.
  destruct dth as [|t ts]; auto. inversion H; subst. rewrite IH; auto. ring.
Qed.

Lemma sum_grid_zero : forall A df dth acc,
  Forall (Forall (fun v => v = 0)) A -> sum_grid acc A df dth = acc.
Proof.
  induction A as [|row rs IH]; intros df dth acc H; cbn; auto.
  destruct df as [|d ds]; auto. inversion H; subst. rewrite IH; auto. apply sum_row_zero; auto.
Qed.

Lemma zero_field_zero_wind : forall g diriter p,
  Forall (Forall (fun v => v = 0)) (p_diss p) ->
  fst (u10_from_spectra_point g diriter p) = Some 0.
Proof.
  intros. rewrite zero_dissipation_zero_wind; auto.
  unfold diss_bulk, integrate2. apply sum_grid_zero; auto.
Qed.

(* without direction iteration the reported direction is the dissipation-weighted direction *)
Lemma direction_is_diss_weighted : forall g p,
  snd (u10_from_spectra_point g false p) = Some (diss_direction (p_diss p) (p_k p) g).
Proof. intros. unfold u10_from_spectra_point. apply no_diriter_direction. Qed.

(* ---- the balance function ---- *)
Fixpoint mask_row (grow trow : list R) : list R :=
  match grow, trow with
  | g :: gr, t :: tr => (if Rgt_dec g 0 then t else 0) :: mask_row gr tr
  | _, _ => []
  end.
Fixpoint mask_grid (G T : list (list R)) : list (list R) :=
  match G, T with
  | gr :: gs, tr :: ts => mask_row gr tr :: mask_grid gs ts
  | _, _ => []
  end.

Lemma act_row_mask : forall grow trow dth dfi acc,
  act_row acc grow trow dth dfi = sum_row acc (mask_row grow trow) dth dfi.
Proof.
  induction grow as [|g gr IH]; intros trow dth dfi acc; cbn; auto.
  destruct trow as [|t tr]; cbn; auto.
  destruct dth as [|d ds]; cbn; auto.
  rewrite IH. destruct (Rgt_dec g 0); f_equal; ring.
Qed.

Lemma act_grid_mask : forall G T df dth acc,
  act_grid acc G T df dth = sum_grid acc (mask_grid G T) df dth.
Proof.
  induction G as [|gr gs IH]; intros T df dth acc; cbn; auto.
  destruct T as [|tr ts]; cbn; auto.
  destruct df as [|d ds]; cbn; auto.
  rewrite IH. rewrite act_row_mask. reflexivity.
Qed.

Lemma active_dedt_masked : forall G T df dth,
  active_dedt G T df dth = integrate2 (mask_grid G T) df dth.
Proof. intros. apply act_grid_mask. Qed.

Lemma balance_function_def : forall gen dedt g target u G,
  u <> 0 -> gen u = Some G ->
  balance_fn gen dedt g target u
  = Some (integrate2 G (g_df g) (g_dth g) - target - integrate2 (mask_grid G dedt) (g_df g) (g_dth g)).
Proof.
  intros. unfold balance_fn. destruct (Req_EM_T u 0); [contradiction|].
  rewrite H0. rewrite active_dedt_masked. reflexivity.
Qed.

Lemma balance_function_at_zero : forall gen dedt g target,
  balance_fn gen dedt g target 0 = Some (- target).
Proof. intros. unfold balance_fn. destruct (Req_EM_T 0 0); [reflexivity|lra]. Qed.

Lemma balance_function_raises : forall gen dedt g target u,
  u <> 0 -> gen u = None -> balance_fn gen dedt g target u = None.
Proof. intros. unfold balance_fn. destruct (Req_EM_T u 0); [contradiction|]. rewrite H0. reflexivity. Qed.

Lemma mask_row_zero : forall grow trow, Forall (fun v => v = 0) trow -> Forall (fun v => v = 0) (mask_row grow trow).
Proof.
  induction grow as [|g gr IH]; intros trow H; cbn; auto.
  destruct trow as [|t tr]; auto. inversion H; subst. constructor; auto.
  destruct (Rgt_dec g 0); reflexivity.
Qed.

Lemma mask_grid_zero : forall G T, Forall (Forall (fun v => v = 0)) T ->
  Forall (Forall (fun v => v = 0)) (mask_grid G T).
Proof.
  induction G as [|gr gs IH]; intros T H; cbn; auto.
  destruct T as [|tr ts]; auto. inversion H; subst. constructor; auto. apply mask_row_zero; auto.
Qed.

(* no rate-of-change spectrum (all zeros): balance = bulk input - target *)
Lemma balance_function_no_dedt : forall gen dedt g target u G,
  u <> 0 -> gen u = Some G -> Forall (Forall (fun v => v = 0)) dedt ->
  balance_fn gen dedt g target u = Some (integrate2 G (g_df g) (g_dth g) - target).
Proof.
  intros. rewrite (balance_function_def gen dedt g target u G); auto.
  unfold integrate2 at 2. rewrite sum_grid_zero; [f_equal; ring|apply mask_grid_zero; auto].
Qed.

(* ---- a finite result comes from a converged solver run with last step < 0.01 m/s ---- *)
Lemma inversion_converged_step : forall g p u d,
  diss_bulk (p_diss p) g <> 0 ->
  u10_from_spectra_point g false p = (Some u, d) ->
  let F := balance_fn (p_gen p (diss_direction (p_diss p) (p_k p) g)) (p_dedt p) g (- diss_bulk (p_diss p) g) in
  newton F driver_cfg (p_guess p) = Converged u /\
  (exists xp, Rabs (u - xp) < 1 / 100 /\ Rabs (u - xp) / Rmax (Rabs xp) (1 / 100) < 1) /\
  (0 <= p_guess p -> 0 <= u).
Proof.
  intros g p u d Hb H F. unfold u10_from_spectra_point in H.
  rewrite no_diriter_point in H by lra. inversion H as [[Hv Hd]].
  apply value_of_true_some in Hv. fold F in Hv.
  split; [exact Hv|]. split.
  - apply (newton_converged_step F driver_cfg (p_guess p) u Hv).
  - intros Hg.
    destruct (newton_converged F driver_cfg (p_guess p) u Hv) as [it [s [_ [_ [_ [Hlo _]]]]]].
    + cbn. rewrite Rabs_right by lra. lra.
    + cbn. exact I.
    + cbn in Hlo. exact Hlo.
Qed.

(* NaN rule: the wind is missing exactly when the solver run did not converge (exception, stationary
   point without a bracket, division by zero, iteration limit) *)
Lemma inversion_nan_iff : forall g p,
  diss_bulk (p_diss p) g <> 0 ->
  let F := balance_fn (p_gen p (diss_direction (p_diss p) (p_k p) g)) (p_dedt p) g (- diss_bulk (p_diss p) g) in
  fst (u10_from_spectra_point g false p) = None <-> (forall u, newton F driver_cfg (p_guess p) <> Converged u).
Proof.
  intros g p Hb F. unfold u10_from_spectra_point. rewrite no_diriter_point by lra. cbn [fst].
  apply value_of_true_none.
Qed.

(* ---- batches ---- *)
Lemma inversion_batch_independent : forall g diriter ps i p0,
  (i < length ps)%nat ->
  nth i (u10_from_spectra g diriter ps) (u10_from_spectra_point g diriter p0)
  = u10_from_spectra_point g diriter (nth i ps p0).
Proof. intros. unfold u10_from_spectra. apply map_nth. Qed.

Lemma inversion_batch_length : forall g diriter ps, length (u10_from_spectra g diriter ps) = length ps.
Proof. intros. apply map_length. Qed.

Lemma inversion_batch_app : forall g diriter ps qs,
  u10_from_spectra g diriter (ps ++ qs) = u10_from_spectra g diriter ps ++ u10_from_spectra g diriter qs.
Proof. intros. apply map_app. Qed.

(* ------------------------------------------------------------------ *)
(* further facts about the solver                                      *)
(* ------------------------------------------------------------------ *)
Lemma newton_converged_bounds : forall f c guess x,
  newton f c guess = Converged x ->
  in_lo (c_lo c) (guess - 1 / 2 * Rabs guess) -> in_hi (c_hi c) (guess + 1 / 2 * Rabs guess) ->
  in_lo (c_lo c) x /\ in_hi (c_hi c) x.
Proof.
  intros f c guess x H Hl Hh.
  destruct (newton_converged f c guess x H Hl Hh) as [it [s [_ [_ [_ [A [B _]]]]]]]. split; assumption.
Qed.

(* the call made by the inversion: bounds (0, inf); a non-negative first guess gives a non-negative wind *)
Lemma newton_driver_nonneg : forall f guess x,
  0 <= guess -> newton f driver_cfg guess = Converged x -> 0 <= x.
Proof.
  intros f guess x Hg H.
  destruct (newton_converged_bounds f driver_cfg guess x H) as [A _].
  - cbn. rewrite Rabs_right by lra. lra.
  - cbn. exact I.
  - exact A.
Qed.

(* the run depends on the function only through its values *)
Lemma step_ext : forall f g c it s, (forall x, f x = g x) -> step f c it s = step g c it s.
Proof.
  intros f g c it s E. unfold step, derivative. rewrite E.
  destruct (g (x2 s)); auto.
  destruct (andb (c_aitken c) (Nat.eqb (it mod 3) 0)); auto.
  destruct (upd_bracket s r) as [[[r0 g0] r1] g1].
  rewrite E. reflexivity.
Qed.

Lemma loop_ext : forall f g c fuel it s, (forall x, f x = g x) -> loop f c fuel it s = loop g c fuel it s.
Proof.
  intros f g c fuel. induction fuel; intros it s E; cbn; auto.
  rewrite (step_ext f g c it s E). destruct (step g c it s); auto.
Qed.

Lemma newton_ext : forall f g c guess, (forall x, f x = g x) -> newton f c guess = newton g c guess.
Proof.
  intros f g c guess E. unfold newton. rewrite !E.
  destruct (g (guess - 1 / 2 * Rabs guess)); auto.
  destruct (g (guess + 1 / 2 * Rabs guess)); auto.
  apply loop_ext; auto.
Qed.

(* an exception of the function at the first bracket or at any visited iterate ends the run *)
Lemma newton_raises_at_bracket : forall f c guess,
  f (guess - 1 / 2 * Rabs guess) = None -> newton f c guess = Failed FunRaise.
Proof. intros f c guess H. unfold newton. rewrite H. reflexivity. Qed.

Lemma step_raises : forall f c it s, f (x2 s) = None -> step f c it s = SFail FunRaise.
Proof. intros f c it s H. unfold step. rewrite H. reflexivity. Qed.

(* ------------------------------------------------------------------ *)
(* direction                                                           *)
(* ------------------------------------------------------------------ *)
Lemma fmod_range : forall x p, 0 < p -> 0 <= fmod x p < p.
Proof.
  intros x p Hp. unfold fmod.
  destruct (base_Int_part (x / p)) as [A B].
  assert (E : x = x / p * p) by (field; lra).
  split.
  - assert (IZR (Int_part (x / p)) * p <= x / p * p) by (apply Rmult_le_compat_r; lra). lra.
  - assert (x / p * p - IZR (Int_part (x / p)) * p < 1 * p).
    { rewrite <- Rmult_minus_distr_r. apply Rmult_lt_compat_r; lra. }
    lra.
Qed.

Lemma diss_direction_range : forall D k g, 0 <= diss_direction D k g < 360.
Proof. intros. unfold diss_direction. apply fmod_range. lra. Qed.

Lemma wrap180_range : forall d, -180 <= wrap180 d < 180.
Proof. intros d. unfold wrap180. pose proof (fmod_range (d + 180) 360). lra. Qed.

(* ------------------------------------------------------------------ *)
(* non-vacuity: a concrete converged run                               *)
(* ------------------------------------------------------------------ *)
Ltac decide_R :=
  repeat match goal with
  | |- context [Rlt_dec ?a ?b] => destruct (Rlt_dec a b); try (exfalso; lra)
  | |- context [Rgt_dec ?a ?b] => destruct (Rgt_dec a b); try (exfalso; lra)
  | |- context [Req_EM_T ?a ?b] => destruct (Req_EM_T a b); try (exfalso; lra)
  end.

Lemma loop_done_first : forall f c k it s x, step f c it s = SDone x -> loop f c (S k) it s = Converged x.
Proof. intros. cbn [loop]. rewrite H. reflexivity. Qed.

Lemma linear_step : 
  step (fun t => Some (t - 3)) driver_cfg 1 (init_state 3 (3 - 1/2*Rabs 3 - 3) (3 + 1/2*Rabs 3 - 3)) = SDone 3.
Proof.
  unfold step, init_state, driver_cfg. rewrite (Rabs_right 3) by lra.
  cbn [x0 x1 x2 fprev rb0 rb1 fb0 fb1 bnd c_aitken c_lo c_hi c_atol c_rtol c_step c_relstep c_relax].
  replace (Nat.eqb (1 mod 3) 0) with false by reflexivity. cbn [andb].
  unfold upd_bracket, sgn_lt0.
  cbn [x0 x1 x2 fprev rb0 rb1 fb0 fb1 bnd].
  decide_R.
  unfold derivative. cbn [x0 x1 x2 fprev rb0 rb1 fb0 fb1 bnd c_step c_relstep andb Nat.ltb Nat.leb].
  decide_R.
  unfold finish, clip.
  cbn [x0 x1 x2 fprev rb0 rb1 fb0 fb1 bnd c_aitken c_lo c_hi c_atol c_rtol c_step c_relstep c_relax].
  set (d := (3 + 1 / 1000 - 3 - (3 - 3)) / (1 / 1000)).
  replace (3 + - (3 - 3) / d * (9 / 10)) with 3 by (unfold Rdiv; ring).
  rewrite (Rabs_right 3) by lra.
  rewrite Rmax_left by lra.
  destruct (Rlt_dec 3 (3 - 1 / 2 * 3)); [exfalso; lra|].
  destruct (Rgt_dec 3 (3 + 1 / 2 * 3)); [exfalso; lra|].
  replace (3 - 3) with 0 by ring. rewrite Rabs_R0.
  destruct (Req_EM_T 3 0); [exfalso; lra|].
  destruct (Rlt_dec 0 (1 / 100)); [|exfalso; lra].
  destruct (Rlt_dec (0 / 3) 1); [reflexivity|exfalso; lra].
Qed.

Lemma linear_run_converges :
  exists x, newton (fun t => Some (t - 3)) driver_cfg 3 = Converged x /\ Rabs (x - 3) < 1 / 100.
Proof.
  exists 3. split.
  - unfold newton. change (c_maxit driver_cfg - 1)%nat with 99%nat.
    apply loop_done_first. apply linear_step.
  - replace (3 - 3) with 0 by ring. rewrite Rabs_R0. lra.
Qed.

Lemma driver_first_bracket_ok : forall guess, 0 <= guess ->
  in_lo (c_lo driver_cfg) (guess - 1 / 2 * Rabs guess) /\ in_hi (c_hi driver_cfg) (guess + 1 / 2 * Rabs guess).
Proof. intros guess H. cbn. rewrite Rabs_right by lra. split; [lra|exact I]. Qed.

(* ------------------------------------------------------------------ *)
(* atan2, whole turns, the dissipation-weighted wavenumber vector       *)
(* ------------------------------------------------------------------ *)
(* ---- atan2 ---- *)
Lemma sqrt_ratio : forall x y, x <> 0 -> sqrt (1 + (y / x)²) = sqrt (x² + y²) / Rabs x.
Proof.
  intros x y Hx.
  assert (Hax : 0 < Rabs x) by (apply Rabs_pos_lt; auto).
  assert (E : x² + y² = x² * (1 + (y / x)²)).
  { unfold Rsqr. field. auto. }
  rewrite E. rewrite sqrt_mult.
  - rewrite sqrt_Rsqr_abs. field. lra.
  - apply Rle_0_sqr.
  - pose proof (Rle_0_sqr (y / x)). lra.
Qed.

Lemma hyp_pos : forall x y, x <> 0 \/ y <> 0 -> 0 < sqrt (x² + y²).
Proof.
  intros x y H. apply sqrt_lt_R0.
  pose proof (Rle_0_sqr x). pose proof (Rle_0_sqr y).
  destruct H as [H|H]; [pose proof (Rsqr_pos_lt x H)|pose proof (Rsqr_pos_lt y H)]; lra.
Qed.

Lemma atan2_spec : forall y x, x <> 0 \/ y <> 0 ->
  x = sqrt (x² + y²) * cos (atan2 y x) /\ y = sqrt (x² + y²) * sin (atan2 y x).
Proof.
  intros y x H. pose proof (hyp_pos x y H) as Hr. unfold atan2.
  destruct (Rlt_dec 0 x) as [Hx|Hx].
  - rewrite cos_atan, sin_atan, sqrt_ratio by lra. rewrite Rabs_right by lra.
    split; field; lra.
  - destruct (Rlt_dec x 0) as [Hx'|Hx'].
    + assert (Ex : Rabs x = - x) by (apply Rabs_left; lra).
      destruct (Rle_dec 0 y).
      * rewrite neg_cos, neg_sin, cos_atan, sin_atan, sqrt_ratio by lra. rewrite Ex.
        split; field; lra.
      * replace (atan (y / x) - PI) with (- (PI - atan (y / x))) by ring.
        rewrite cos_neg, sin_neg, Rtrigo_facts.cos_pi_minus, Rtrigo_facts.sin_pi_minus.
        rewrite cos_atan, sin_atan, sqrt_ratio by lra. rewrite Ex.
        split; field; lra.
    + assert (x = 0) by lra. subst x.
      assert (Hy : y <> 0) by (destruct H; [lra|auto]).
      replace (0² + y²) with (y²) in * by (unfold Rsqr; ring).
      rewrite sqrt_Rsqr_abs in *.
      destruct (Rlt_dec 0 y).
      * rewrite cos_PI2, sin_PI2. rewrite Rabs_right by lra. split; ring.
      * destruct (Rlt_dec y 0); [|lra].
        rewrite cos_neg, sin_neg, cos_PI2, sin_PI2. rewrite Rabs_left by lra. split; ring.
Qed.

(* ---- periodicity with an integer number of turns ---- *)
Lemma cos_sin_period_Z : forall x (k : Z),
  cos (x + 2 * IZR k * PI) = cos x /\ sin (x + 2 * IZR k * PI) = sin x.
Proof.
  intros x k. destruct (Z_le_gt_dec 0 k) as [Hk|Hk].
  - rewrite <- (Z2Nat.id k Hk). rewrite <- INR_IZR_INZ. split; [apply cos_period|apply sin_period].
  - assert (Hn : (0 <= - k)%Z) by lia.
    set (n := Z.to_nat (- k)).
    assert (E : IZR k = - INR n).
    { unfold n. rewrite INR_IZR_INZ, Z2Nat.id by lia. rewrite opp_IZR. ring. }
    rewrite E.
    split.
    + rewrite <- (cos_period (x + 2 * - INR n * PI) n). f_equal. ring.
    + rewrite <- (sin_period (x + 2 * - INR n * PI) n). f_equal. ring.
Qed.

(* radians of (fmod (deg of theta) 360) differ from theta by whole turns *)
Lemma fmod_deg_rad : forall t,
  cos (fmod (t * 180 / PI) 360 * PI / 180) = cos t /\ sin (fmod (t * 180 / PI) 360 * PI / 180) = sin t.
Proof.
  intros t. unfold fmod. pose proof PI_RGT_0 as Hpi.
  set (m := Int_part (t * 180 / PI / 360)).
  replace ((t * 180 / PI - IZR m * 360) * PI / 180) with (t + 2 * IZR (- m) * PI).
  - apply cos_sin_period_Z.
  - rewrite opp_IZR. field. lra.
Qed.

Lemma diss_direction_vector : forall D k g,
  let kx := diss_kx D k g in let ky := diss_ky D k g in
  kx <> 0 \/ ky <> 0 ->
  kx = sqrt (kx² + ky²) * cos (diss_direction D k g * PI / 180) /\
  ky = sqrt (kx² + ky²) * sin (diss_direction D k g * PI / 180) /\
  0 < sqrt (kx² + ky²).
Proof.
  intros D k g kx ky H. unfold diss_direction. fold kx ky.
  destruct (fmod_deg_rad (atan2 ky kx)) as [Ec Es]. rewrite Ec, Es.
  destruct (atan2_spec ky kx H) as [A B]. split; [exact A|]. split; [exact B|]. apply hyp_pos; auto.
Qed.

(* ---- the weighted wavenumber vector as a plain weighted sum ---- *)
Lemma sum_row_acc : forall row dth dfi acc, sum_row acc row dth dfi = acc + sum_row 0 row dth dfi.
Proof.
  induction row as [|a r IH]; intros dth dfi acc; cbn; [ring|].
  destruct dth as [|t ts]; [ring|]. rewrite IH. rewrite (IH ts dfi (0 + a * dfi * t)). ring.
Qed.

Lemma sum_grid_acc : forall A df dth acc, sum_grid acc A df dth = acc + sum_grid 0 A df dth.
Proof.
  induction A as [|row rs IH]; intros df dth acc; cbn; [ring|].
  destruct df as [|d ds]; [ring|]. rewrite IH. rewrite (IH ds dth (sum_row 0 row dth d)).
  rewrite (sum_row_acc row dth d acc). ring.
Qed.

Fixpoint wrow (ki : R) (drow cs : list R) : list R :=
  match drow, cs with
  | d :: dr, c :: cr => (- (ki * c * d)) :: wrow ki dr cr
  | _, _ => []
  end.
Fixpoint wgrid (D : list (list R)) (k cs : list R) : list (list R) :=
  match D, k with
  | drow :: ds, ki :: ks => wrow ki drow cs :: wgrid ds ks cs
  | _, _ => []
  end.

Lemma kvec_row_sum : forall drow cs dth ki dfi acc,
  kvec_row acc drow cs dth ki dfi = sum_row acc (wrow ki drow cs) dth dfi.
Proof.
  induction drow as [|d dr IH]; intros cs dth ki dfi acc; cbn; auto.
  destruct cs as [|c cr]; cbn; auto.
  destruct dth as [|t ts]; cbn; auto.
  rewrite IH. f_equal. ring.
Qed.

Lemma kvec_grid_sum : forall D k df cs dth acc,
  kvec_grid acc D k df cs dth = sum_grid acc (wgrid D k cs) df dth.
Proof.
  induction D as [|drow ds IH]; intros k df cs dth acc; cbn; auto.
  destruct k as [|ki ks]; cbn; auto.
  destruct df as [|dfi dfs]; cbn; auto.
  rewrite IH. rewrite kvec_row_sum. reflexivity.
Qed.

(* kx = sum_ij  k_i cos(theta_j) (-D_ij) df_i dtheta_j   (the dissipation is non-positive) *)
Lemma diss_kx_weighted_sum : forall D k g,
  diss_kx D k g = integrate2 (wgrid D k (map cos (g_theta g))) (g_df g) (g_dth g).
Proof. intros. apply kvec_grid_sum. Qed.
Lemma diss_ky_weighted_sum : forall D k g,
  diss_ky D k g = integrate2 (wgrid D k (map sin (g_theta g))) (g_df g) (g_dth g).
Proof. intros. apply kvec_grid_sum. Qed.

Lemma atan2_scale : forall c y x, 0 < c -> atan2 (c * y) (c * x) = atan2 y x.
Proof.
  intros c y x Hc. unfold atan2.
  assert (Hq : x <> 0 -> c * y / (c * x) = y / x) by (intros; field; lra).
  assert (P1 : 0 < x -> 0 < c * x) by (intros; apply Rmult_lt_0_compat; lra).
  assert (P2 : x < 0 -> c * x < 0).
  { intros. replace (c * x) with (- (c * - x)) by ring. pose proof (Rmult_lt_0_compat c (- x)). lra. }
  assert (P3 : 0 < y -> 0 < c * y) by (intros; apply Rmult_lt_0_compat; lra).
  assert (P4 : y < 0 -> c * y < 0).
  { intros. replace (c * y) with (- (c * - y)) by ring. pose proof (Rmult_lt_0_compat c (- y)). lra. }
  destruct (Rlt_dec 0 x) as [A|A].
  - destruct (Rlt_dec 0 (c * x)); [|exfalso; auto]. rewrite Hq by lra. reflexivity.
  - destruct (Rlt_dec 0 (c * x)) as [B|B].
    { exfalso. destruct (Rlt_dec x 0) as [C|C]; [pose proof (P2 C); lra|].
      assert (x = 0) by lra. subst. lra. }
    destruct (Rlt_dec x 0) as [C|C].
    + destruct (Rlt_dec (c * x) 0); [|exfalso; auto]. rewrite Hq by lra.
      destruct (Rle_dec 0 y) as [E|E]; destruct (Rle_dec 0 (c * y)) as [E'|E']; auto.
      * exfalso. apply E'. apply Rmult_le_pos; lra.
      * exfalso. assert (y < 0) by lra. pose proof (P4 H). lra.
    + assert (x = 0) by lra. subst x. replace (c * 0) with 0 by ring.
      destruct (Rlt_dec 0 0); [lra|].
      destruct (Rlt_dec 0 y) as [E|E]; destruct (Rlt_dec 0 (c * y)) as [E'|E']; auto.
      * exfalso; auto.
      * exfalso. destruct (Rlt_dec y 0) as [F|F]; [pose proof (P4 F); lra|]. assert (y = 0) by lra. subst. lra.
      * destruct (Rlt_dec y 0) as [F|F]; destruct (Rlt_dec (c * y) 0) as [F'|F']; auto.
        -- exfalso; auto.
        -- exfalso. assert (y = 0) by lra. subst. lra.
Qed.

Definition scale_field (c : R) (D : list (list R)) := map (map (fun v => c * v)) D.

Lemma kvec_row_scale : forall c drow cs dth ki dfi acc,
  kvec_row (c * acc) (map (fun v => c * v) drow) cs dth ki dfi = c * kvec_row acc drow cs dth ki dfi.
Proof.
  induction drow as [|d dr IH]; intros cs dth ki dfi acc; cbn; auto.
  destruct cs as [|cc cr]; cbn; auto.
  destruct dth as [|t ts]; cbn; auto.
  rewrite <- IH. f_equal. ring.
Qed.

Lemma kvec_grid_scale : forall c D k df cs dth acc,
  kvec_grid (c * acc) (scale_field c D) k df cs dth = c * kvec_grid acc D k df cs dth.
Proof.
  induction D as [|drow ds IH]; intros k df cs dth acc; cbn; auto.
  destruct k as [|ki ks]; cbn; auto.
  destruct df as [|dfi dfs]; cbn; auto.
  rewrite kvec_row_scale. apply IH.
Qed.

(* the direction depends on the shape of the dissipation field only *)
Lemma diss_direction_scale : forall c D k g, 0 < c ->
  diss_direction (scale_field c D) k g = diss_direction D k g.
Proof.
  intros c D k g Hc. unfold diss_direction, diss_kx, diss_ky.
  replace 0 with (c * 0) at 1 by ring. rewrite kvec_grid_scale.
  replace 0 with (c * 0) at 2 by ring. rewrite kvec_grid_scale.
  rewrite atan2_scale; auto.
Qed.

(* PARTIAL.  The property says the balance "vanishes to within the solver's 0.01 m/s step tolerance".
   What the code guarantees is a bound on the last STEP, not on the residual.  For a final step that is a
   plain (under-relaxed) Newton/secant step which the bounds check left untouched, the step bound is a
   residual bound:  |f(x_prev)| < atol |d| / relax,  d the derivative estimate used.
   Missing for the full statement (and false in general, see notes/C11.md): final steps that are Aitken
   extrapolations, bisection steps at a stationary point, or were moved by the bounds check, carry no
   bound on |f|. *)
Lemma newton_step_residual_partial : forall c s fx r0 r1 g0 g1 b d x,
  d <> 0 -> c_relax c <> 0 ->
  finish c false s fx r0 r1 g0 g1 b (x2 s + - fx / d * c_relax c) = SDone x ->
  x = x2 s + - fx / d * c_relax c ->
  Rabs fx < c_atol c * Rabs d / Rabs (c_relax c).
Proof.
  intros c s fx r0 r1 g0 g1 b d x Hd Hr HF Hx.
  destruct (finish_cases c false s fx r0 r1 g0 g1 b (x2 s + - fx / d * c_relax c)) as [E|[[E [[Hc _] _]]|E]];
    rewrite E in HF; try discriminate.
  inversion HF as [En]. rewrite En in Hc. rewrite Hx in Hc.
  replace (x2 s + - fx / d * c_relax c - x2 s) with (- (fx * c_relax c / d)) in Hc by (field; auto).
  rewrite Rabs_Ropp in Hc. unfold Rdiv in Hc. rewrite !Rabs_mult, Rabs_inv in Hc.
  assert (Hd' : 0 < Rabs d) by (apply Rabs_pos_lt; auto).
  assert (Hr' : 0 < Rabs (c_relax c)) by (apply Rabs_pos_lt; auto).
  assert (E1 : Rabs fx = (Rabs fx * Rabs (c_relax c) * / Rabs d) * (Rabs d / Rabs (c_relax c))) by (field; lra).
  rewrite E1. unfold Rdiv. rewrite <- Rmult_assoc.
  apply Rmult_lt_compat_r; [apply Rinv_0_lt_compat; lra|].
  apply Rmult_lt_compat_r; [lra|]. exact Hc.
Qed.

(* an Aitken extrapolation pass never ends the run *)
Lemma done_not_on_aitken_pass : forall f c it s x,
  step f c it s = SDone x -> andb (c_aitken c) (Nat.eqb (it mod 3) 0) = false.
Proof.
  intros f c it s x H. unfold step in H.
  destruct (f (x2 s)) as [fx|]; [|discriminate].
  destruct (andb (c_aitken c) (Nat.eqb (it mod 3) 0)); [|reflexivity].
  destruct (aitken_next s) as [nxt|]; [|discriminate].
  destruct (finish_cases c true s fx (rb0 s) (rb1 s) (fb0 s) (fb1 s) (bnd s) nxt) as [E|[[E [_ E2]]|E]];
    rewrite E in H; discriminate.
Qed.
