(* Proofs about Model/Estimators.v, part 4: uniform grids.  A shift of the grid by k bins is a cyclic
   rotation modulo 2 pi, so rotating the moments by k bins rotates the output by k bins (C06). *)
From Coq Require Import Reals List Arith Lra Lia Bool.
From OSU.Model Require Import Estimators.
From OSU.Lib Require Import EstAuxSums.
From OSU.Proofs Require Import Estimators Estimators2 Estimators3.
Import ListNotations.
Open Scope R_scope.

Definition ugrid (t0 dl : R) (n : nat) : list R := map (fun j => t0 + INR j * dl) (seq 0 n).
(* entry j of the rotated list is entry j-k (cyclically) of the original *)
Definition rotl_list (k : nat) (l : list R) : list R :=
  map (fun j => nth ((j + length l - k) mod length l) l 0) (seq 0 (length l)).
Definition cs_inv (g : R -> R) : Prop := forall t t', cos t = cos t' -> sin t = sin t' -> g t = g t'.

Lemma ugrid_length : forall t0 dl n, length (ugrid t0 dl n) = n.
Proof. intros. unfold ugrid. rewrite map_length, seq_length. reflexivity. Qed.

Lemma nth_map_seq : forall (f : nat -> R) n i, (i < n)%nat -> nth i (map f (seq 0 n)) 0 = f i.
Proof.
  intros. rewrite (nth_indep _ 0 (f 0%nat)) by (rewrite map_length, seq_length; auto).
  rewrite map_nth. rewrite seq_nth by auto. reflexivity.
Qed.

Lemma map_nth_seq : forall (l : list R), map (fun j => nth j l 0) (seq 0 (length l)) = l.
Proof.
  induction l; simpl; auto. f_equal. rewrite <- seq_shift, map_map. exact IHl.
Qed.

Lemma rotl_list_length : forall k l, length (rotl_list k l) = length l.
Proof. intros. unfold rotl_list. rewrite map_length, seq_length. reflexivity. Qed.

Lemma sumR_rotl_list : forall k l, (k <= length l)%nat -> sumR (rotl_list k l) = sumR l.
Proof.
  intros k l Hk. unfold rotl_list. destruct (Nat.eq_dec (length l) 0) as [E|E].
  - destruct l; simpl in *; [reflexivity | lia].
  - rewrite (sumR_cyclic (fun j => nth j l 0) (length l) k) by lia.
    rewrite map_nth_seq. reflexivity.
Qed.

Lemma rotl_list_map : forall k (h : R -> R) l,
  rotl_list k (map h l) = map h (rotl_list k l).
Proof.
  intros. unfold rotl_list. rewrite map_length, map_map.
  apply map_ext_in. intros j Hj. apply in_seq in Hj.
  destruct (Nat.eq_dec (length l) 0) as [E|E]; [lia|].
  rewrite (nth_indep _ 0 (h 0)).
  - apply map_nth.
  - rewrite map_length. apply Nat.mod_upper_bound. lia.
Qed.

Lemma rotl_list_In : forall k l x, (k <= length l)%nat -> In x (rotl_list k l) <-> In x l.
Proof.
  intros k l x Hk. unfold rotl_list. split.
  - intro H. apply in_map_iff in H. destruct H as (j & <- & Hj). apply in_seq in Hj.
    apply nth_In. apply Nat.mod_upper_bound. lia.
  - intro H. destruct (In_nth l x 0 H) as (i & Hi & <-).
    set (n := length l) in *.
    apply in_map_iff.
    destruct (lt_dec (i + k) n) as [L|L].
    + exists (i + k)%nat. split; [|apply in_seq; lia]. f_equal.
      replace (i + k + n - k)%nat with (i + 1 * n)%nat by lia.
      rewrite Nat.mod_add by lia. apply Nat.mod_small. lia.
    + exists (i + k - n)%nat. split; [|apply in_seq; lia]. f_equal.
      replace (i + k - n + n - k)%nat with i by lia. apply Nat.mod_small. lia.
Qed.

Lemma existsb_In_equiv : forall (f : R -> bool) l1 l2,
  (forall x, In x l1 <-> In x l2) -> existsb f l1 = existsb f l2.
Proof.
  intros f l1 l2 H. apply eq_true_iff_eq. rewrite !existsb_exists.
  split; intros (x & Hx & Hf); exists x; split; auto; apply H; auto.
Qed.

Lemma cos_2PI_shift : forall x, cos (x + 2 * PI) = cos x.
Proof. intro. rewrite cos_plus, cos_2PI, sin_2PI. ring. Qed.
Lemma sin_2PI_shift : forall x, sin (x + 2 * PI) = sin x.
Proof. intro. rewrite sin_plus, cos_2PI, sin_2PI. ring. Qed.

(* a cos/sin-invariant function sampled on the grid shifted by k bins = the samples rotated by k *)
Lemma map_shift_ugrid : forall (g : R -> R) t0 dl n k,
  cs_inv g -> INR n * dl = 2 * PI -> (k <= n)%nat ->
  map g (shiftg (INR k * dl) (ugrid t0 dl n)) = rotl_list k (map g (ugrid t0 dl n)).
Proof.
  intros g t0 dl n k Hg Hn Hk.
  unfold rotl_list. rewrite map_length, ugrid_length.
  unfold shiftg, ugrid at 1. rewrite !map_map.
  apply map_ext_in. intros j Hj. apply in_seq in Hj.
  assert (Hn0 : (0 < n)%nat) by lia.
  assert (Hi : ((j + n - k) mod n < n)%nat) by (apply Nat.mod_upper_bound; lia).
  rewrite (nth_indep _ 0 (g 0)) by (rewrite map_length, ugrid_length; auto).
  rewrite map_nth. unfold ugrid. rewrite nth_map_seq by auto.
  destruct (le_dec k j) as [L|L].
  - replace ((j + n - k) mod n)%nat with (j - k)%nat.
    2:{ replace (j + n - k)%nat with ((j - k) + 1 * n)%nat by lia.
        rewrite Nat.mod_add by lia. symmetry. apply Nat.mod_small. lia. }
    rewrite minus_INR by auto. f_equal. ring.
  - replace ((j + n - k) mod n)%nat with (j + n - k)%nat by (symmetry; apply Nat.mod_small; lia).
    rewrite minus_INR by lia. rewrite plus_INR.
    replace (t0 + (INR j + INR n - INR k) * dl) with (t0 + INR j * dl - INR k * dl + 2 * PI)
      by (rewrite <- Hn; ring).
    apply Hg; [rewrite cos_2PI_shift | rewrite sin_2PI_shift]; reflexivity.
Qed.

(* ---------------- invariance of the kernels ---------------- *)
Lemma cos2_cs : forall t t', cos t = cos t' -> sin t = sin t' -> cos (2 * t) = cos (2 * t').
Proof. intros. rewrite !cos_2a. rewrite H, H0. reflexivity. Qed.
Lemma sin2_cs : forall t t', cos t = cos t' -> sin t = sin t' -> sin (2 * t) = sin (2 * t').
Proof. intros. rewrite !sin_2a. rewrite H, H0. reflexivity. Qed.

Lemma mem_den_cs : forall p q, cs_inv (mem_den p q).
Proof.
  intros p q t t' Hc Hs. unfold mem_den. cbv zeta.
  rewrite (cos2_cs t t'), (sin2_cs t t'), Hc, Hs by auto. reflexivity.
Qed.

Lemma tw_cs : forall m, cs_inv (tw m).
Proof.
  intros m t t' Hc Hs. destruct m as [|[|[|m]]]; simpl; auto using cos2_cs, sin2_cs.
Qed.

Lemma inner_cs : forall l, cs_inv (inner l).
Proof.
  intros l t t' Hc Hs. unfold inner.
  rewrite (tw_cs 0 t t'), (tw_cs 1 t t'), (tw_cs 2 t t'), (tw_cs 3 t t') by auto. reflexivity.
Qed.

(* ---------------- MEM on a uniform grid ---------------- *)
Theorem mem_rotation_uniform : forall t0 dl n k m,
  (0 < n)%nat -> INR n * dl = 2 * PI -> (k <= n)%nat ->
  mem4 (ugrid t0 dl n) (rotm (INR k * dl) m) = option_map (rotl_list k) (mem4 (ugrid t0 dl n) m).
Proof.
  intros t0 dl n k m Hn0 Hn Hk.
  rewrite mem_rotation_shift.
  destruct m as [a1 b1 a2 b2]. unfold mem4, mem_point. cbn [q1 q2 q3 q4].
  set (th := ugrid t0 dl n). set (th' := shiftg (INR k * dl) th).
  set (p := mem_phi1 a1 b1 a2 b2). set (q := mem_phi2 a1 b1 a2 b2). set (nu := mem_num a1 b1 a2 b2).
  assert (Hraw : mem_raw th' a1 b1 a2 b2 = rotl_list k (mem_raw th a1 b1 a2 b2)).
  { unfold mem_raw. cbv zeta. fold p q nu.
    apply (map_shift_ugrid (fun t => nu / mem_den p q t / PI / 2)); auto.
    intros t t' Hc Hs. rewrite (mem_den_cs p q t t') by auto. reflexivity. }
  assert (Hlen : length (mem_raw th a1 b1 a2 b2) = n).
  { unfold mem_raw. cbv zeta. rewrite map_length. apply ugrid_length. }
  assert (Hnorm : mem_norm (mem_raw th' a1 b1 a2 b2) = mem_norm (mem_raw th a1 b1 a2 b2)).
  { rewrite Hraw. unfold mem_norm. rewrite rotl_list_length, sumR_rotl_list by lia. reflexivity. }
  assert (G : mem_guard th' a1 b1 a2 b2 = mem_guard th a1 b1 a2 b2).
  { rewrite !mem_guard_unfold. f_equal; [|rewrite Hnorm; reflexivity]. fold p q.
    assert (Ex : forall l, existsb (fun t => if Req_EM_T (mem_den p q t) 0 then true else false) l
                           = existsb (fun v => if Req_EM_T v 0 then true else false) (map (mem_den p q) l)).
    { intro l. rewrite existsb_map. reflexivity. }
    rewrite !Ex. unfold th', th. rewrite (map_shift_ugrid (mem_den p q)) by (auto using mem_den_cs).
    apply existsb_In_equiv. intro x. apply rotl_list_In. rewrite map_length, ugrid_length. auto. }
  rewrite G. destruct (mem_guard th a1 b1 a2 b2); [|reflexivity].
  simpl. f_equal. rewrite Hnorm, Hraw. symmetry. apply rotl_list_map.
Qed.

Lemma V4_ext : forall a b : V4, q1 a = q1 b -> q2 a = q2 b -> q3 a = q3 b -> q4 a = q4 b -> a = b.
Proof. intros [a1 a2 a3 a4] [b1 b2 b3 b4]; simpl; intros; congruence. Qed.

(* ---------------- MEM2 on a uniform grid (constant increments) ---------------- *)
Section Mem2Uniform.
  Variables (t0 dl c : R) (n k : nat).
  Hypothesis Hn0 : (0 < n)%nat.
  Hypothesis Hn : INR n * dl = 2 * PI.
  Hypothesis Hk : (k <= n)%nat.
  Hypothesis Hc : 0 < c.
  Let th := ugrid t0 dl n.
  Let th' := shiftg (INR k * dl) th.
  Let d := map (fun _ : R => c) th.

  Lemma th'_length : length th' = n.
  Proof. unfold th', shiftg, th. rewrite map_length. apply ugrid_length. Qed.

  Lemma d_pos : Forall (fun x => 0 < x) d.
  Proof. unfold d. apply Forall_forall. intros x Hx. apply in_map_iff in Hx. destruct Hx as (_ & <- & _). auto. Qed.
  Lemma d_len : length d = length th.
  Proof. unfold d. apply map_length. Qed.
  Lemma d_len' : length d = length th'.
  Proof. rewrite d_len, th'_length. unfold th. apply ugrid_length. Qed.
  Lemma th_ne : th <> [].
  Proof. unfold th, ugrid. destruct n; [lia|]. simpl. congruence. Qed.
  Lemma th'_ne : th' <> [].
  Proof. intro E. apply (f_equal (@length R)) in E. rewrite th'_length in E. simpl in E. lia. Qed.

  (* a weighted sum of cos/sin-invariant samples does not see the shift *)
  Lemma wsum_shift : forall g, cs_inv g -> wsum (map g th') d = wsum (map g th) d.
  Proof.
    intros g Hg.
    assert (E : d = map (fun _ : R => c) th').
    { unfold d. apply map_const_eq. unfold th. rewrite ugrid_length. symmetry. apply th'_length. }
    rewrite E at 1. unfold d. rewrite !wsum_map_const_weights. f_equal.
    unfold th', th. rewrite (map_shift_ugrid g) by auto.
    apply sumR_rotl_list. rewrite map_length, ugrid_length. auto.
  Qed.

  Lemma Ef_cs : forall l, cs_inv (Ef l).
  Proof. intros l t t' H1 H2. unfold Ef. rewrite (inner_cs l t t') by auto. reflexivity. Qed.

  Lemma Zf_shift : forall l, Zf l d th' = Zf l d th.
  Proof. intro l. unfold Zf. apply wsum_shift. apply Ef_cs. Qed.

  Lemma Pf_shift : forall m l, Pf m l d th' = Pf m l d th.
  Proof.
    intros m l. unfold Pf. apply (wsum_shift (fun t => tw m t * Ef l t)).
    intros t t' H1 H2. rewrite (tw_cs m t t'), (Ef_cs l t t') by auto. reflexivity.
  Qed.

  (* the distribution of the rotated multipliers is the rotated distribution *)
  Theorem dist_rotation_uniform : forall l,
    dist (rotm (INR k * dl) l) d th = rotl_list k (dist l d th).
  Proof.
    intro l. rewrite dist_rotation_shift. fold th'.
    rewrite (dist_closed l d th') by (auto using th'_ne, d_len', d_pos).
    rewrite (dist_closed l d th) by (auto using th_ne, d_len, d_pos).
    rewrite Zf_shift.
    unfold th', th. apply (map_shift_ugrid (fun t => Ef l t / Zf l d (ugrid t0 dl n))); auto.
    intros t t' H1 H2. rewrite (Ef_cs l t t') by auto. reflexivity.
  Qed.

  Lemma constraints_shift : forall l mo, constraints l mo d th' = constraints l mo d th.
  Proof.
    intros l mo.
    assert (E : forall m, get4 (constraints l mo d th') m = get4 (constraints l mo d th) m).
    { intro m. rewrite !constraints_closed by (auto using th'_ne, th_ne, d_len', d_len, d_pos).
      rewrite Pf_shift, Zf_shift. reflexivity. }
    pose proof (E 0%nat) as E0. pose proof (E 1%nat) as E1. pose proof (E 2%nat) as E2. pose proof (E 3%nat) as E3.
    simpl in E0, E1, E2, E3.
    apply V4_ext; assumption.
  Qed.

  (* equivariance of the constraint function: the exact solution set is equivariant *)
  Theorem constraints_rotation_uniform : forall l mo,
    constraints (rotm (INR k * dl) l) (rotm (INR k * dl) mo) d th = rotm (INR k * dl) (constraints l mo d th).
  Proof.
    intros. rewrite constraints_rotation_shift. fold th'. rewrite constraints_shift. reflexivity.
  Qed.

  (* lambda solves the problem for m  <->  R lambda solves it for R m (same residual norm) *)
  Corollary residual_rotation_uniform : forall l mo,
    norm4 (constraints (rotm (INR k * dl) l) (rotm (INR k * dl) mo) d th) = norm4 (constraints l mo d th).
  Proof. intros. rewrite constraints_rotation_uniform. apply norm4_rot. Qed.
End Mem2Uniform.

(* the grid of as_frequency_direction_spectrum, in radians, is a uniform grid *)
Lemma to_rad_linspace : forall n, (0 < n)%nat -> to_rad (linspace360 n) = ugrid 0 (2 * PI / INR n) n.
Proof.
  intros n Hn. unfold to_rad, linspace360, ugrid. rewrite map_map. apply map_ext. intro j.
  unfold jac_deg. field. apply not_0_INR. lia.
Qed.

Lemma linspace_step : forall n, (0 < n)%nat -> INR n * (2 * PI / INR n) = 2 * PI.
Proof. intros. field. apply not_0_INR. lia. Qed.
