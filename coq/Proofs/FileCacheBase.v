(* Basic lemmas about the directory (association list), names and sizes of Model/FileCache.v *)
From Coq Require Import ZArith List Bool Arith Lia Permutation.
From OSU.Model Require Import FileCache.
Import ListNotations.
Open Scope Z_scope.

Lemma name_eqb_spec a b : reflect (a = b) (name_eqb a b).
Proof.
  destruct a as [r k|r k|j], b as [r' k'|r' k'|j']; cbn; try (constructor; congruence).
  - destruct (Nat.eqb_spec r r'), (Nat.eqb_spec k k'); cbn; constructor; congruence.
  - destruct (Nat.eqb_spec r r'), (Nat.eqb_spec k k'); cbn; constructor; congruence.
  - destruct (Nat.eqb_spec j j'); constructor; congruence.
Qed.

Lemma name_eqb_refl a : name_eqb a a = true.
Proof. destruct (name_eqb_spec a a); congruence. Qed.

Lemma name_eqb_neq a b : a <> b -> name_eqb a b = false.
Proof. destruct (name_eqb_spec a b); congruence. Qed.

Definition keys (d : dir) : list name := map fst d.

Lemma dfind_some_in d n f : dfind d n = Some f -> In n (keys d).
Proof.
  induction d as [|[m g] d IH]; cbn; [discriminate|].
  destruct (name_eqb_spec m n); [intros _; left; assumption | intros H; right; now apply IH].
Qed.

Lemma dfind_none_notin d n : dfind d n = None -> ~ In n (keys d).
Proof.
  induction d as [|[m g] d IH]; cbn; [tauto|].
  destruct (name_eqb_spec m n); [discriminate|]. intros H [E|I]; [contradiction | now apply IH].
Qed.

Lemma in_keys_dfind d n : In n (keys d) -> exists f, dfind d n = Some f.
Proof.
  destruct (dfind d n) eqn:E; [eauto|]. intros I. now apply dfind_none_notin in E.
Qed.

Lemma dfind_ddel_same d n : dfind (ddel d n) n = None.
Proof.
  induction d as [|[m g] d IH]; cbn; [reflexivity|].
  destruct (name_eqb_spec m n); cbn; [assumption|].
  destruct (name_eqb_spec m n); [contradiction | assumption].
Qed.

Lemma dfind_ddel_other d n m : m <> n -> dfind (ddel d n) m = dfind d m.
Proof.
  intros H. induction d as [|[x g] d IH]; cbn; [reflexivity|].
  destruct (name_eqb_spec x n); cbn.
  - subst x. destruct (name_eqb_spec n m); [congruence | assumption].
  - destruct (name_eqb_spec x m); [reflexivity | assumption].
Qed.

Lemma dfind_dupd_same d n f : dfind (dupd d n f) n = Some f.
Proof. unfold dupd; cbn. now rewrite name_eqb_refl. Qed.

Lemma dfind_dupd_other d n m f : m <> n -> dfind (dupd d n f) m = dfind d m.
Proof.
  intros H. unfold dupd; cbn. rewrite name_eqb_neq by congruence. now apply dfind_ddel_other.
Qed.

Lemma keys_ddel_incl d n m : In m (keys (ddel d n)) -> In m (keys d) /\ m <> n.
Proof.
  unfold keys, ddel. rewrite in_map_iff. intros [[x g] [E I]]. cbn in E; subst x.
  apply filter_In in I. destruct I as [I Hn]. cbn in Hn.
  split; [apply in_map_iff; exists (m, g); auto|].
  destruct (name_eqb_spec m n); [discriminate | assumption].
Qed.

Lemma nodup_keys_ddel d n : NoDup (keys d) -> NoDup (keys (ddel d n)).
Proof.
  induction d as [|[m g] d IH]; cbn; [constructor|].
  intros H. inversion H as [|? ? Hn Hd]; subst.
  destruct (name_eqb m n); cbn; [now apply IH|].
  constructor; [|now apply IH]. intros I. apply keys_ddel_incl in I. tauto.
Qed.

Lemma nodup_keys_dupd d n f : NoDup (keys d) -> NoDup (keys (dupd d n f)).
Proof.
  intros H. unfold dupd; cbn. constructor; [|now apply nodup_keys_ddel].
  intros I. apply keys_ddel_incl in I. tauto.
Qed.

Lemma dexists_true d n : dexists d n = true <-> exists f, dfind d n = Some f.
Proof.
  unfold dexists. destruct (dfind d n) as [f|]; split.
  - intros _. now exists f.
  - reflexivity.
  - discriminate.
  - intros [f H]. discriminate.
Qed.

Lemma dexists_false d n : dexists d n = false <-> dfind d n = None.
Proof. unfold dexists. destruct (dfind d n); split; congruence. Qed.

(* ---- membership helpers on name lists ---- *)
Lemma mem_true n l : mem n l = true <-> In n l.
Proof.
  unfold mem. rewrite existsb_exists. split.
  - intros [x [I E]]. destruct (name_eqb_spec n x); [subst; assumption | discriminate].
  - intros I. exists n. split; [assumption | apply name_eqb_refl].
Qed.

Lemma mem_false n l : mem n l = false <-> ~ In n l.
Proof. rewrite <- mem_true. destruct (mem n l); split; congruence. Qed.

Lemma in_remove_name m n l : In m (remove_name n l) <-> In m l /\ m <> n.
Proof.
  unfold remove_name. rewrite filter_In. split; intros [I H]; split; try assumption.
  - destruct (name_eqb_spec m n); [discriminate | assumption].
  - destruct (name_eqb_spec m n); [contradiction | reflexivity].
Qed.

Lemma nodup_remove_name n l : NoDup l -> NoDup (remove_name n l).
Proof. intros H. unfold remove_name. now apply NoDup_filter. Qed.

Lemma in_add_name m n l : In m (add_name n l) <-> In m l \/ m = n.
Proof.
  unfold add_name. destruct (mem n l) eqn:E.
  - apply mem_true in E. split; [auto | intros [I | ->]; assumption].
  - rewrite in_app_iff. cbn. intuition congruence.
Qed.

Lemma nodup_add_name n l : NoDup l -> NoDup (add_name n l).
Proof.
  intros H. unfold add_name. destruct (mem n l) eqn:E; [assumption|].
  apply mem_false in E. clear -H E. induction l as [|a l IH]; cbn.
  - constructor; [tauto | constructor].
  - inversion H as [|? ? Hn Hd]; subst. constructor.
    + rewrite in_app_iff. cbn. intros [I|[I|[]]]; [contradiction|]. subst. apply E. now left.
    + apply IH; [assumption|]. intros I. apply E. now right.
Qed.

(* ---- sizes ---- *)
Lemma csize_nonneg c : 0 <= csize c.
Proof. destruct c; unfold csize; try lia. apply Z.div_pos; lia. Qed.

Lemma fsize_nonneg d n : 0 <= fsize d n.
Proof. unfold fsize. destruct (dfind d n); [apply csize_nonneg | lia]. Qed.

Lemma total_size_cons d n l : total_size d (n :: l) = fsize d n + total_size d l.
Proof. reflexivity. Qed.

Lemma total_size_nil d : total_size d [] = 0.
Proof. reflexivity. Qed.

Lemma total_size_nonneg d l : 0 <= total_size d l.
Proof. induction l as [|n l IH]; [rewrite total_size_nil; lia|]. rewrite total_size_cons. pose proof (fsize_nonneg d n). lia. Qed.

Lemma total_size_app d l1 l2 : total_size d (l1 ++ l2) = total_size d l1 + total_size d l2.
Proof. induction l1 as [|n l IH]; [cbn [app]; rewrite total_size_nil; lia|]. cbn [app]. rewrite !total_size_cons, IH. lia. Qed.

Lemma total_size_perm d l1 l2 : Permutation l1 l2 -> total_size d l1 = total_size d l2.
Proof. induction 1; rewrite ?total_size_cons; lia. Qed.

Lemma total_size_ext d d' l : (forall n, In n l -> fsize d n = fsize d' n) -> total_size d l = total_size d' l.
Proof.
  induction l as [|n l IH]; intros H; [reflexivity|]. rewrite !total_size_cons.
  rewrite (H n) by (left; reflexivity). rewrite IH; [reflexivity|]. intros; apply H; right; assumption.
Qed.

Lemma remove_name_notin n l : ~ In n l -> remove_name n l = l.
Proof.
  intros H. unfold remove_name. induction l as [|x l IH]; cbn [filter]; [reflexivity|].
  destruct (name_eqb_spec x n) as [->|Hx]; cbn [negb].
  - exfalso. apply H. now left.
  - f_equal. apply IH. intros I. apply H. now right.
Qed.

Lemma remove_name_cons_same n l : remove_name n (n :: l) = remove_name n l.
Proof. unfold remove_name. cbn [filter]. now rewrite name_eqb_refl. Qed.

Lemma remove_name_cons_other n m l : m <> n -> remove_name n (m :: l) = m :: remove_name n l.
Proof. intros H. unfold remove_name. cbn [filter]. now rewrite name_eqb_neq. Qed.

Lemma total_size_remove d n l : NoDup l -> In n l ->
  total_size d l = fsize d n + total_size d (remove_name n l).
Proof.
  induction l as [|m l IH]; intros Hd Hi; [contradiction|].
  inversion Hd as [|? ? Hn Hd']; subst.
  destruct Hi as [->|Hi].
  - rewrite remove_name_cons_same, remove_name_notin by assumption. apply total_size_cons.
  - assert (m <> n) by (intros ->; contradiction).
    rewrite remove_name_cons_other by assumption. rewrite !total_size_cons, (IH Hd' Hi). lia.
Qed.

(* a duplicate-free list included in another one sums to at most the other's sum *)
Lemma total_size_incl d l : forall l', NoDup l -> incl l l' -> total_size d l <= total_size d l'.
Proof.
  induction l as [|n l IH]; intros l' Hd Hi.
  - rewrite total_size_nil. apply total_size_nonneg.
  - inversion Hd as [|? ? Hn Hd']; subst.
    assert (In n l') as Hin by (apply Hi; left; reflexivity).
    apply in_split in Hin. destruct Hin as [a [b ->]].
    rewrite total_size_app, !total_size_cons.
    assert (incl l (a ++ b)).
    { intros x Hx. assert (In x (a ++ n :: b)) as H by (apply Hi; right; assumption).
      rewrite in_app_iff in *. cbn in H. destruct H as [H|[H|H]]; auto. subst; contradiction. }
    specialize (IH (a ++ b) Hd' H). rewrite total_size_app in IH. lia.
Qed.
