(* Proofs about Model/Estimators.v, part 7: the (real, imaginary) arithmetic of the MEM model is the
   complex-number formula of Lygre & Krogstad as written in mem.py (Coquelicot's C). *)
From Coq Require Import Reals List Lra.
From Coquelicot Require Import Coquelicot.
From OSU.Model Require Import Estimators.
Open Scope R_scope.

Definition cexp_mi (t : R) : C := (cos t, - sin t).          (* exp(-i t) *)

Section MemComplex.
  Variables a1 b1 a2 b2 : R.
  Let c1 : C := (a1, b1).
  Let c2 : C := (a2, b2).
  Hypothesis Hc : 1 - (a1 * a1 + b1 * b1) <> 0.

  (* Phi1 = (c1 - c2 conj c1) / (1 - c1 conj c1) *)
  Definition CPhi1 : C := ((c1 - c2 * Cconj c1) / (1 - c1 * Cconj c1))%C.
  Definition CPhi2 : C := (c2 - CPhi1 * c1)%C.
  Definition CNum : C := (1 - CPhi1 * Cconj c1 - CPhi2 * Cconj c2)%C.
  Definition CDenArg (t : R) : C := (1 - CPhi1 * cexp_mi t - CPhi2 * cexp_mi (2 * t))%C.

  Lemma mem_phi1_complex : mem_phi1 a1 b1 a2 b2 = CPhi1.
  Proof.
    unfold mem_phi1, CPhi1, mem_one_minus_c1sq, c1, c2. cbv zeta.
    unfold Cdiv, Cinv, Cmult, Cminus, Cplus, Copp, Cconj, RtoC; simpl.
    apply injective_projections; simpl; field; split; try lra.
    - intro Z. apply Hc. nra.
    - intro Z. apply Hc. nra.
  Qed.

  Lemma mem_phi2_complex : mem_phi2 a1 b1 a2 b2 = CPhi2.
  Proof.
    unfold mem_phi2, CPhi2. cbv zeta. rewrite mem_phi1_complex.
    destruct CPhi1 as [pr pi]. unfold c1, c2, Cmult, Cminus, Cplus, Copp; simpl.
    apply injective_projections; simpl; ring.
  Qed.

  Lemma mem_num_complex : mem_num a1 b1 a2 b2 = fst CNum.
  Proof.
    unfold mem_num, CNum. cbv zeta. rewrite mem_phi1_complex, mem_phi2_complex.
    destruct CPhi1 as [pr pi]. destruct CPhi2 as [qr qi].
    unfold c1, c2, Cmult, Cminus, Cplus, Copp, Cconj, RtoC; simpl. ring.
  Qed.

  (* denominator = |1 - Phi1 e^{-it} - Phi2 e^{-2it}|^2 *)
  Lemma mem_den_complex : forall t,
    mem_den (mem_phi1 a1 b1 a2 b2) (mem_phi2 a1 b1 a2 b2) t = Cmod (CDenArg t) * Cmod (CDenArg t).
  Proof.
    intro t. rewrite mem_phi1_complex, mem_phi2_complex. unfold CDenArg.
    destruct CPhi1 as [pr pi]. destruct CPhi2 as [qr qi].
    unfold Cmod. rewrite sqrt_sqrt.
    2:{ apply Rplus_le_le_0_compat; apply pow2_ge_0. }
    unfold mem_den, cexp_mi, Cmult, Cminus, Cplus, Copp, RtoC; simpl. ring.
  Qed.
End MemComplex.
