(* Proofs about Model/Roughness.v (C10): Charnock laws and exact-root monotonicity, the result
   structure of fixed_point_iteration, the bracket invariant of the Newton hybrid. *)
From Coq Require Import Reals List Bool Arith Lra Lia.
From OSU.Model Require Import Roughness.
Import ListNotations.
Open Scope R_scope.

(* ---------------- definitional laws ---------------- *)
Lemma charnock_def P us : 0 < us ->
  charnock P us = c_alpha P * (us * us) / c_g P + c_visc P * c_nu P / us.
Proof. intros H. unfold charnock. destruct (Rgt_dec us 0); [reflexivity | lra]. Qed.

Lemma charnock_def_nonpos P us : us <= 0 -> charnock P us = c_alpha P * (us * us) / c_g P.
Proof. intros H. unfold charnock. destruct (Rgt_dec us 0); [lra | ring]. Qed.

Lemma charnock_G_def P U z : 0 < z -> ln (c_elev P / z) <> 0 ->
  charnock_G P U z = Some (charnock P (c_kappa P * U / ln (c_elev P / z))).
Proof.
  intros Hz Hl. unfold charnock_G, ustar.
  destruct (Rlt_dec z 0); [lra|]. destruct (Req_EM_T z 0); [lra|].
  destruct (Req_EM_T (ln (c_elev P / z)) 0); [contradiction | reflexivity].
Qed.

Lemma drag_def P z : 0 < z -> ln (c_elev P / z) <> 0 ->
  drag_of_roughness P z = Some ((c_kappa P / ln (c_elev P / z)) * (c_kappa P / ln (c_elev P / z))).
Proof.
  intros Hz Hl. unfold drag_of_roughness. destruct (Rle_dec z 0); [lra|].
  destruct (Req_EM_T (ln (c_elev P / z)) 0); [contradiction | reflexivity].
Qed.

(* ---------------- monotonicity of exact roots (no viscous term) ---------------- *)
Lemma ln_elev_gt_2 elev z : 0 < z -> z < elev * exp (-2) -> 2 < ln (elev / z).
Proof.
  intros Hz Hlt. pose proof (exp_pos (-2)) as He.
  assert (Helev : 0 < elev).
  { destruct (Rlt_le_dec 0 elev); auto. assert (elev * exp (-2) <= 0). { replace 0 with (0 * exp (-2)) by ring. apply Rmult_le_compat_r; lra. } lra. }
  rewrite <- (ln_exp 2). apply ln_increasing. apply exp_pos.
  apply Rmult_lt_reg_r with z; auto. unfold Rdiv. rewrite Rmult_assoc, Rinv_l, Rmult_1_r by lra.
  apply Rmult_lt_reg_r with (exp (-2)); auto.
  replace (exp 2 * z * exp (-2)) with (z * (exp 2 * exp (-2))) by ring.
  rewrite <- exp_plus. replace (2 + -2) with 0 by ring. rewrite exp_0. lra.
Qed.

Lemma phi_increasing elev z1 z2 : 0 < z2 -> z2 < z1 -> z1 < elev * exp (-2) ->
  z2 * (ln (elev / z2) * ln (elev / z2)) < z1 * (ln (elev / z1) * ln (elev / z1)).
Proof.
  intros H2 H21 H1.
  assert (Hz1 : 0 < z1) by lra.
  pose proof (ln_elev_gt_2 elev z1 Hz1 H1) as Ht.
  assert (Helev : 0 < elev).
  { pose proof (exp_pos (-2)). destruct (Rlt_le_dec 0 elev); auto.
    assert (elev * exp (-2) <= 0). { replace 0 with (0 * exp (-2)) by ring. apply Rmult_le_compat_r; lra. } lra. }
  set (t := ln (elev / z1)) in *.
  set (s := ln (z1 / z2)).
  assert (Hr : 1 < z1 / z2).
  { apply Rmult_lt_reg_r with z2; auto. unfold Rdiv. rewrite Rmult_assoc, Rinv_l, Rmult_1_r by lra. lra. }
  assert (Hs : 0 < s). { unfold s. rewrite <- ln_1. apply ln_increasing; lra. }
  assert (E2 : ln (elev / z2) = t + s).
  { unfold t, s. rewrite <- ln_mult. f_equal. field. split; lra.
    apply Rdiv_lt_0_compat; auto. lra. }
  assert (Ez : z2 = z1 * exp (- s)).
  { unfold s. rewrite exp_Ropp, exp_ln by lra. field. split; lra. }
  rewrite E2.
  assert (A1 : t + s < t * (1 + s / 2)).
  { assert (0 < s * (t - 2)) by (apply Rmult_lt_0_compat; lra). lra. }
  assert (A2 : 1 + s / 2 < exp (s / 2)) by (apply exp_ineq1; lra).
  assert (A3 : t + s < t * exp (s / 2)).
  { apply Rlt_trans with (t * (1 + s / 2)); auto. apply Rmult_lt_compat_l; lra. }
  assert (A4 : (t + s) * (t + s) < (t * exp (s / 2)) * (t * exp (s / 2))).
  { apply Rmult_le_0_lt_compat; lra. }
  assert (E3 : exp (s / 2) * exp (s / 2) = exp s).
  { rewrite <- exp_plus. f_equal. field. }
  assert (G : z2 * ((t + s) * (t + s)) = z1 * exp (- s) * ((t + s) * (t + s))) by (rewrite <- Ez; reflexivity).
  rewrite G.
  replace (z1 * (t * t)) with (z1 * exp (- s) * (exp s * (t * t))).
  2:{ replace (z1 * exp (- s) * (exp s * (t * t))) with (z1 * (t * t) * (exp (- s) * exp s)) by ring.
      rewrite <- exp_plus. replace (- s + s) with 0 by ring. rewrite exp_0. ring. }
  apply Rmult_lt_compat_l. apply Rmult_lt_0_compat; auto. apply exp_pos.
  rewrite <- E3. lra.
Qed.

Lemma root_equation P U z : 0 < c_g P -> c_visc P = 0 -> 0 < z -> z < c_elev P * exp (-2) ->
  charnock_G P U z = Some z ->
  z * (ln (c_elev P / z) * ln (c_elev P / z)) = c_alpha P * c_kappa P * c_kappa P / c_g P * (U * U).
Proof.
  intros Hg Hv Hz Hlt H. pose proof (ln_elev_gt_2 _ _ Hz Hlt) as Hl.
  rewrite charnock_G_def in H by lra. injection H as E.
  unfold charnock in E. rewrite Hv in E.
  set (l := ln (c_elev P / z)) in *.
  assert (E' : z = c_alpha P * (c_kappa P * U / l * (c_kappa P * U / l)) / c_g P).
  { destruct (Rgt_dec (c_kappa P * U / l) 0); rewrite <- E at 1; unfold Rdiv; ring. }
  apply (f_equal (fun v => v * (l * l))) in E'. cbv beta in E'. rewrite E'. field. split; lra.
Qed.

Lemma charnock_root_increasing P U1 U2 z1 z2 :
  0 < c_alpha P -> 0 < c_g P -> 0 < c_kappa P -> c_visc P = 0 ->
  0 < U1 -> U1 < U2 ->
  0 < z1 -> z1 < c_elev P * exp (-2) -> 0 < z2 -> z2 < c_elev P * exp (-2) ->
  charnock_G P U1 z1 = Some z1 -> charnock_G P U2 z2 = Some z2 ->
  z1 < z2 /\
  exists d1 d2, drag_of_roughness P z1 = Some d1 /\ drag_of_roughness P z2 = Some d2 /\ d1 < d2.
Proof.
  intros Ha Hg Hk Hv HU1 HU Hz1 Hl1 Hz2 Hl2 R1 R2.
  pose proof (root_equation P U1 z1 Hg Hv Hz1 Hl1 R1) as Q1.
  pose proof (root_equation P U2 z2 Hg Hv Hz2 Hl2 R2) as Q2.
  set (A := c_alpha P * c_kappa P * c_kappa P / c_g P) in *.
  assert (HA : 0 < A).
  { unfold A. apply Rdiv_lt_0_compat; auto. apply Rmult_lt_0_compat; auto. apply Rmult_lt_0_compat; auto. }
  assert (HUU : U1 * U1 < U2 * U2) by (apply Rmult_le_0_lt_compat; lra).
  assert (Hphi : z1 * (ln (c_elev P / z1) * ln (c_elev P / z1)) < z2 * (ln (c_elev P / z2) * ln (c_elev P / z2))).
  { rewrite Q1, Q2. apply Rmult_lt_compat_l; auto. }
  assert (Hz : z1 < z2).
  { destruct (Rtotal_order z1 z2) as [L|[L|L]]; auto.
    - subst. lra.
    - pose proof (phi_increasing (c_elev P) z1 z2 Hz2 L Hl1). lra. }
  split; auto.
  pose proof (ln_elev_gt_2 _ _ Hz1 Hl1) as L1. pose proof (ln_elev_gt_2 _ _ Hz2 Hl2) as L2.
  rewrite !drag_def by lra.
  eexists; eexists; split; [reflexivity|split; [reflexivity|]].
  assert (Helev : 0 < c_elev P).
  { pose proof (exp_pos (-2)). destruct (Rlt_le_dec 0 (c_elev P)); auto.
    assert (c_elev P * exp (-2) <= 0). { replace 0 with (0 * exp (-2)) by ring. apply Rmult_le_compat_r; lra. } lra. }
  assert (LL : ln (c_elev P / z2) < ln (c_elev P / z1)).
  { apply ln_increasing. apply Rdiv_lt_0_compat; auto.
    unfold Rdiv. apply Rmult_lt_compat_l; auto. apply Rinv_lt_contravar; auto. apply Rmult_lt_0_compat; auto. }
  assert (D : c_kappa P / ln (c_elev P / z1) < c_kappa P / ln (c_elev P / z2)).
  { unfold Rdiv. apply Rmult_lt_compat_l; auto. apply Rinv_lt_contravar; auto. apply Rmult_lt_0_compat; lra. }
  assert (0 < c_kappa P / ln (c_elev P / z1)) by (apply Rdiv_lt_0_compat; lra).
  apply Rmult_le_0_lt_compat; lra.
Qed.

(* uniqueness of the root of the Charnock equation on (0, elev e^-2) *)
Lemma charnock_root_unique P U z1 z2 :
  0 < c_g P -> c_visc P = 0 ->
  0 < z1 -> z1 < c_elev P * exp (-2) -> 0 < z2 -> z2 < c_elev P * exp (-2) ->
  charnock_G P U z1 = Some z1 -> charnock_G P U z2 = Some z2 -> z1 = z2.
Proof.
  intros Hg Hv Hz1 Hl1 Hz2 Hl2 R1 R2.
  pose proof (root_equation P U z1 Hg Hv Hz1 Hl1 R1) as Q1.
  pose proof (root_equation P U z2 Hg Hv Hz2 Hl2 R2) as Q2.
  destruct (Rtotal_order z1 z2) as [L|[L|L]]; auto.
  - pose proof (phi_increasing (c_elev P) z2 z1 Hz1 L Hl2). lra.
  - pose proof (phi_increasing (c_elev P) z1 z2 Hz2 L Hl1). lra.
Qed.

Arguments e_par {Par}.
Arguments e0 {Par}.
Arguments e1 {Par}.
Arguments e2 {Par}.
Arguments e_conv {Par}.

Section FPProofs.
Variable Par : Type.
Variable F : Par -> R -> option R.
Variable cfg : fpcfg.
Let estT := est Par.

Lemma conv_test_spec atol rtol a b :
  conv_test atol rtol (Some a) (Some b) = true <->
  Rabs (b - a) < atol /\ Rabs (b - a) / Rmax (Rabs a) atol < rtol.
Proof.
  unfold conv_test. destruct (Rlt_dec (Rabs (b - a)) atol); destruct (Rlt_dec (Rabs (b - a) / Rmax (Rabs a) atol) rtol);
    simpl; split; intros H; try discriminate; try tauto.
Qed.

Lemma conv_test_some atol rtol p n : conv_test atol rtol p n = true -> exists a b, p = Some a /\ n = Some b.
Proof. destruct p, n; simpl; try discriminate. eauto. Qed.

(* what every element looks like right after a plain (non-Aitken) update *)
Definition plain_stepped (e : estT) : Prop :=
  e2 e = bound_hi (fp_hi cfg) (e1 e) (bound_lo (fp_lo cfg) (e1 e) (plain_next Par F (e_par e) (e1 e))) /\
  e_conv e = conv_test (fp_atol cfg) (fp_rtol cfg) (e1 e) (e2 e).

Lemma step_one_plain e : plain_stepped (step_one Par F cfg false e).
Proof. split; reflexivity. Qed.

(* position-wise invariant linking the start list and the running state *)
Definition linked (pg : Par * option R) (e : estT) : Prop :=
  e_par e = fst pg /\ (snd pg = None -> e1 e = None /\ e2 e = None /\ e_conv e = false).

Lemma linked_step ait pg e : linked pg e -> linked pg (step_one Par F cfg ait e).
Proof.
  intros [Hp Hd]. split; [exact Hp|]. intros N. destruct (Hd N) as (A & B & C).
  unfold step_one. cbn [e1 e2 e_conv]. rewrite A, B.
  assert (R : (if ait then aitken_opt (e0 e) None None else plain_next Par F (e_par e) None) = None).
  { destruct ait; simpl; auto. }
  rewrite R. simpl. auto.
Qed.

Lemma linked_map ait start es : Forall2 linked start es -> Forall2 linked start (map (step_one Par F cfg ait) es).
Proof. induction 1; simpl; constructor; auto. apply linked_step; auto. Qed.

Lemma linked_init start :
  Forall2 linked start (map (fun pg => mkest Par (fst pg) (snd pg) (snd pg) (snd pg) false) start).
Proof.
  induction start as [|pg l IH]; simpl; constructor; auto.
  split; simpl; auto.
Qed.

Definition nactive (start : list (Par * option R)) : nat := length (filter (fun pg => is_some (snd pg)) start).

Lemma count_le start es : Forall2 linked start es -> (count_conv Par es <= nactive start)%nat.
Proof.
  unfold count_conv, nactive. induction 1 as [|pg e l l' [Hp Hd] _ IH]; simpl; auto.
  destruct (snd pg) as [g|] eqn:G; simpl.
  - destruct (e_conv e); simpl; lia.
  - destruct (Hd eq_refl) as (_ & _ & C). rewrite C. simpl. lia.
Qed.

Lemma all_active_converged start es : Forall2 linked start es ->
  (nactive start <= count_conv Par es)%nat ->
  Forall2 (fun pg e => snd pg <> None -> e_conv e = true) start es.
Proof.
  induction 1 as [|pg e l l' HL HF IH]; intros Hc; constructor.
  - intros N. destruct (e_conv e) eqn:C; auto. exfalso.
    pose proof (count_le _ _ HF) as Hle. unfold count_conv, nactive in *. simpl in Hc. rewrite C in Hc.
    destruct (snd pg); [simpl in Hc; lia | congruence].
  - apply IH. pose proof (count_le _ _ HF) as Hle. unfold count_conv, nactive in *. simpl in Hc.
    destruct HL as [_ Hd]. destruct (snd pg) eqn:G; simpl in Hc.
    + destruct (e_conv e); simpl in Hc; lia.
    + destruct (Hd eq_refl) as (_ & _ & C). rewrite C in Hc. simpl in Hc. lia.
Qed.

Definition aitk (it : nat) : bool := fp_aitken cfg && Nat.eqb (it mod 3) 0.

(* the loop: invariants are kept; the state returned is the image of one last update *)
Lemma fp_loop_linked nact fuel it start es :
  Forall2 linked start es -> Forall2 linked start (snd (fp_loop Par F cfg nact fuel it es)).
Proof.
  revert it es. induction fuel as [|n IH]; intros it es H; simpl; auto.
  match goal with |- context [if ?c then _ else _] => destruct c end; simpl.
  - apply linked_map; auto.
  - apply IH. apply linked_map; auto.
Qed.

Lemma fp_loop_last nact fuel it es broke es' : (0 < fuel)%nat ->
  fp_loop Par F cfg nact fuel it es = (broke, es') ->
  exists esp itl, es' = map (step_one Par F cfg (aitk itl)) esp /\
    (broke = true -> aitk itl = false /\ (nact <= count_conv Par es')%nat) /\
    (broke = false -> itl = (it + fuel - 1)%nat).
Proof.
  revert it es. induction fuel as [|n IH]; intros it es Hf H. lia.
  cbn [fp_loop] in H. fold (aitk it) in H.
  destruct (negb (aitk it) && (nact <=? count_conv Par (map (step_one Par F cfg (aitk it)) es))%nat) eqn:C.
  - inversion H; subst. exists es, it. split; auto. split.
    + intros _. apply andb_true_iff in C. destruct C as [C1 C2]. split.
      * destruct (aitk it); simpl in C1; congruence.
      * apply Nat.leb_le; auto.
    + discriminate.
  - destruct n as [|m].
    + cbn [fp_loop] in H. inversion H; subst. exists es, it. split; auto. split. discriminate. intros _. lia.
    + destruct (IH (S it) _ ltac:(lia) H) as (esp & itl & E & B1 & B2).
      exists esp, itl. split; auto. split; auto. intros Bf. rewrite (B2 Bf). lia.
Qed.

Definition result_ok (pg : Par * option R) (o : option R) : Prop :=
  match o with
  | None => True
  | Some z => exists prev,
      conv_test (fp_atol cfg) (fp_rtol cfg) (Some prev) (Some z) = true /\
      Some z = bound_hi (fp_hi cfg) (Some prev) (bound_lo (fp_lo cfg) (Some prev) (F (fst pg) prev))
  end.

Lemma fixed_point_result start :
  fp_aitken cfg = false \/ (fp_maxit cfg mod 3 <> 0)%nat ->
  Forall2 result_ok start (fixed_point Par F cfg start).
Proof.
  intros Hplain. unfold fixed_point.
  set (es0 := map (fun pg => mkest Par (fst pg) (snd pg) (snd pg) (snd pg) false) start).
  fold (nactive start).
  destruct (fp_loop Par F cfg (nactive start) (fp_maxit cfg) 1 es0) as [broke es'] eqn:EL.
  pose proof (fp_loop_linked (nactive start) (fp_maxit cfg) 1 start es0 (linked_init start)) as HL.
  rewrite EL in HL. simpl in HL.
  destruct (fp_maxit cfg) as [|m] eqn:EM.
  { (* no iteration at all: nothing is flagged converged *)
    simpl in EL. inversion EL; subst. unfold es0. clear.
    induction start as [|pg l IH]; simpl; constructor; auto. simpl. exact I. }
  assert (Hpos : (0 < S m)%nat) by lia.
  destruct (fp_loop_last _ _ _ _ _ _ Hpos EL) as (esp & itl & E & B1 & B2).
  assert (Hlast : aitk itl = false).
  { destruct broke. apply B1; auto. rewrite (B2 eq_refl). replace (1 + S m - 1)%nat with (S m) by lia.
    unfold aitk. destruct Hplain as [A|A]. rewrite A; auto.
    destruct (Nat.eqb_spec (S m mod 3) 0); [congruence|]. apply andb_false_r. }
  assert (HP : Forall plain_stepped es').
  { rewrite E, Hlast. apply Forall_forall. intros e He. apply in_map_iff in He. destruct He as (e' & <- & _).
    apply step_one_plain. }
  assert (HC : broke = true -> Forall2 (fun pg e => snd pg <> None -> e_conv e = true) start es').
  { intros Bt. apply all_active_converged; auto. apply B1; auto. }
  clear E EL B1 B2 Hlast esp.
  revert HP HC. induction HL as [|pg e l l' [Hpar Hdead] _ IH]; intros HP HC; simpl; constructor.
  - inversion HP as [|? ? [S1 S2] _]; subst.
    unfold result_ok, fp_output.
    assert (Key : e_conv e = true -> match e2 e with None => True | Some z => exists prev,
        conv_test (fp_atol cfg) (fp_rtol cfg) (Some prev) (Some z) = true /\
        Some z = bound_hi (fp_hi cfg) (Some prev) (bound_lo (fp_lo cfg) (Some prev) (F (fst pg) prev)) end).
    { intros Cv. rewrite S2 in Cv. destruct (conv_test_some _ _ _ _ Cv) as (a & b & Ea & Eb).
      rewrite Eb. exists a. rewrite Ea, Eb in Cv. split; auto.
      rewrite <- Eb, S1, Ea. simpl. rewrite Hpar. reflexivity. }
    destruct broke.
    + destruct (e2 e) as [z|] eqn:Ez; auto.
      assert (Cv : e_conv e = true).
      { specialize (HC eq_refl). inversion HC; subst. apply H2. intros N. destruct (Hdead N) as (_ & Q & _). congruence. }
      specialize (Key Cv). exact Key.
    + destruct (e_conv e) eqn:Cv; auto. apply Key; auto.
  - apply IH. inversion HP; auto. intros Bt. specialize (HC Bt). inversion HC; auto.
Qed.

(* NaN in, NaN out *)
Lemma fixed_point_nan start :
  Forall2 (fun pg o => snd pg = None -> o = None) start (fixed_point Par F cfg start).
Proof.
  unfold fixed_point.
  set (es0 := map (fun pg => mkest Par (fst pg) (snd pg) (snd pg) (snd pg) false) start).
  destruct (fp_loop Par F cfg _ (fp_maxit cfg) 1 es0) as [broke es'] eqn:EL.
  pose proof (fp_loop_linked (length (filter (fun pg => is_some (snd pg)) start)) (fp_maxit cfg) 1 start es0 (linked_init start)) as HL.
  rewrite EL in HL. simpl in HL. clear EL.
  induction HL as [|pg e l l' [Hpar Hdead] _ IH]; simpl; constructor; auto.
  intros N. destruct (Hdead N) as (_ & Q & Cv). unfold fp_output. rewrite Q, Cv. destruct broke; auto.
Qed.

Lemma fixed_point_length start : length (fixed_point Par F cfg start) = length start.
Proof.
  pose proof (fixed_point_nan start) as H. induction H; simpl; auto.
Qed.
End FPProofs.


(* ---------------- Charnock roughness from U10: what a returned value is ---------------- *)
Lemma Forall2_map_l {A B C} (R : B -> C -> Prop) (g : A -> B) l l' :
  Forall2 R (map g l) l' -> Forall2 (fun a c => R (g a) c) l l'.
Proof.
  revert l'. induction l as [|a l IH]; intros l' H; inversion H; subst; constructor; auto.
Qed.

Lemma Forall2_impl' {A B} (R1 R2 : A -> B -> Prop) l l' :
  (forall a b, R1 a b -> R2 a b) -> Forall2 R1 l l' -> Forall2 R2 l l'.
Proof. intros H F. induction F; constructor; auto. Qed.

Definition charnock_result_ok (P : cpar) (oU : option R) (o : option R) : Prop :=
  match o with
  | None => True
  | Some z => exists U prev, oU = Some U /\
      Rabs (z - prev) < 1 / 10000 /\ Rabs (z - prev) / Rmax (Rabs prev) (1 / 10000) < 1 / 10000 /\
      Some z = bound_lo (Some 0) (Some prev) (charnock_G P U prev)
  end.

Lemma charnock_from_u10_result P maxit Us : (maxit mod 3 <> 0)%nat ->
  Forall2 (charnock_result_ok P) Us (charnock_from_u10 P maxit Us).
Proof.
  intros Hm. unfold charnock_from_u10.
  pose proof (fixed_point_result (option R) (charnock_F P) (fp_default maxit) (charnock_start P Us) (or_intror Hm)) as H.
  unfold charnock_start in H. apply Forall2_map_l in H.
  eapply Forall2_impl'; [|exact H]. clear H. intros oU o Hr. unfold result_ok in Hr. unfold charnock_result_ok.
  destruct o as [z|]; auto. destruct Hr as (prev & Cv & St). cbn [fst fp_default fp_atol fp_rtol fp_hi fp_lo] in *.
  destruct oU as [U|].
  - exists U, prev. apply conv_test_spec in Cv. destruct Cv as [C1 C2]. repeat split; auto.
    simpl in St. unfold bound_hi in St. destruct (bound_lo (Some 0) (Some prev) (charnock_G P U prev)); auto.
  - simpl in St. discriminate.
Qed.

Lemma charnock_from_u10_nan P maxit Us :
  Forall2 (fun oU o => oU = None -> o = None) Us (charnock_from_u10 P maxit Us).
Proof.
  unfold charnock_from_u10.
  pose proof (fixed_point_nan (option R) (charnock_F P) (fp_default maxit) (charnock_start P Us)) as H.
  unfold charnock_start in H. apply Forall2_map_l in H.
  eapply Forall2_impl'; [|exact H]. intros oU o Hr E. apply Hr. subst. reflexivity.
Qed.

Lemma charnock_from_u10_length P maxit Us : length (charnock_from_u10 P maxit Us) = length Us.
Proof.
  unfold charnock_from_u10. rewrite fixed_point_length. unfold charnock_start. apply map_length.
Qed.

(* a plain Charnock step from a positive iterate with positive wind is positive, so the lower
   bound 0 is never active and the returned value IS G(prev) *)
Lemma charnock_G_pos P U prev z : 0 < c_alpha P -> 0 < c_g P -> 0 <= c_visc P -> 0 <= c_nu P ->
  0 < c_kappa P -> 0 < U -> 0 < prev -> charnock_G P U prev = Some z -> 0 < z.
Proof.
  intros Ha Hg Hv Hn Hk HU Hp H. unfold charnock_G, ustar in H.
  destruct (Rlt_dec prev 0); [lra|]. destruct (Req_EM_T prev 0); [lra|].
  destruct (Req_EM_T (ln (c_elev P / prev)) 0) as [|Hl]; [discriminate|]. injection H as E. subst z.
  set (us := c_kappa P * U / ln (c_elev P / prev)).
  assert (Hus : us <> 0).
  { unfold us. intros Z. apply Rmult_integral in Z. destruct Z as [Z|Z].
    - apply Rmult_integral in Z. lra.
    - pose proof (Rinv_neq_0_compat _ Hl). contradiction. }
  assert (Hsq : 0 < us * us).
  { destruct (Rtotal_order us 0) as [L|[L|L]]; [|contradiction|].
    - replace (us * us) with ((- us) * (- us)) by ring. apply Rmult_lt_0_compat; lra.
    - apply Rmult_lt_0_compat; lra. }
  unfold charnock. assert (0 < c_alpha P * (us * us) / c_g P).
  { apply Rdiv_lt_0_compat; auto. apply Rmult_lt_0_compat; auto. }
  destruct (Rgt_dec us 0); [|lra].
  assert (0 <= c_visc P * c_nu P / us).
  { apply Rmult_le_pos. apply Rmult_le_pos; auto. left. apply Rinv_0_lt_compat; auto. }
  lra.
Qed.

Section NewtonProofs.
Variable f : R -> R.
Variable cfg : ncfg.

Definition binv (s : nst) : Prop :=
  s_flo s = f (s_lo s) /\ s_fhi s = f (s_hi s) /\ s_lo s <= s_hi s /\
  (s_bounded s = true -> s_flo s * s_fhi s < 0 /\ s_lo s <= s_x2 s <= s_hi s).

Lemma clip_in lo hi x2 next : lo <= x2 <= hi -> lo <= clip (Some lo) (Some hi) x2 next <= hi.
Proof.
  intros H. unfold clip.
  destruct (Rlt_dec next lo) as [A|A].
  - destruct (Rgt_dec ((lo - x2) * (1 / 2) + x2) hi); lra.
  - destruct (Rgt_dec next hi); lra.
Qed.

Lemma binv_init g : binv (ninit f g).
Proof.
  unfold binv, ninit. cbn [s_flo s_fhi s_lo s_hi s_bounded s_x2].
  pose proof (Rabs_pos g) as Hp.
  assert (Hg : - Rabs g <= g <= Rabs g).
  { unfold Rabs. destruct (Rcase_abs g); lra. }
  split; [reflexivity|]. split; [reflexivity|]. split; [lra|].
  intros B. split.
  - destruct (Rlt_dec (f (g - 1 / 2 * Rabs g) * f (g + 1 / 2 * Rabs g)) 0); auto. discriminate.
  - lra.
Qed.

Lemma bracket_update_spec s fe2 lo hi flo fhi :
  binv s -> fe2 = f (s_x2 s) -> bracket_update s fe2 = (lo, hi, flo, fhi) ->
  flo = f lo /\ fhi = f hi /\ lo <= s_x2 s <= hi /\
  (s_bounded s = true -> flo * fhi < 0 /\ s_lo s <= lo /\ hi <= s_hi s).
Proof.
  intros (E1 & E2 & Hle & Hb) Hfe. unfold bracket_update.
  destruct (Rlt_dec (s_x2 s) (s_lo s)) as [A|A];
  [|destruct (Rgt_dec (s_x2 s) (s_hi s)) as [A2|A2];
    [|destruct (Rlt_dec (s_flo s * fe2) 0) as [A3|A3];
      [|destruct (Rlt_dec (s_fhi s * fe2) 0) as [A4|A4]]]];
  intros H; inversion H; subst lo hi flo fhi; clear H;
  (split; [congruence|]); (split; [congruence|]); (split; [lra|]);
  intros B; destruct (Hb B) as [P X]; repeat split; lra.
Qed.

Lemma nproposal_spec it s next lo hi flo fhi b :
  binv s -> nproposal f cfg it s (s_f2 s) (f (s_x2 s)) = inl (next, (lo, hi, flo, fhi), b) ->
  flo = f lo /\ fhi = f hi /\ lo <= hi /\
  (b = true -> flo * fhi < 0 /\ lo <= s_x2 s <= hi) /\
  (s_bounded s = true -> b = true /\ s_lo s <= lo /\ hi <= s_hi s).
Proof.
  intros Hinv. unfold nproposal.
  destruct (n_aitken cfg && Nat.eqb (it mod 3) 0).
  - destruct (Req_EM_T (s_x1 s - s_x0 s) 0); [discriminate|].
    destruct (Req_EM_T (1 - (s_x2 s - s_x1 s) / (s_x1 s - s_x0 s)) 0); [discriminate|].
    intros H; inversion H; subst. destruct Hinv as (E1 & E2 & Hle & Hb).
    split; [auto|]. split; [auto|]. split; [lra|]. split.
    + intros B; destruct (Hb B); split; lra.
    + intros B; destruct (Hb B); repeat split; auto; lra.
  - destruct (bracket_update s (f (s_x2 s))) as [[[lo' hi'] flo'] fhi'] eqn:EB.
    pose proof (bracket_update_spec s _ _ _ _ _ Hinv eq_refl EB) as (F1 & F2 & Hx & Hbb).
    set (b' := if Rlt_dec (flo' * fhi') 0 then true else false).
    assert (Hb' : b' = true -> flo' * fhi' < 0).
    { unfold b'. destruct (Rlt_dec (flo' * fhi') 0); auto. discriminate. }
    assert (Hb'' : s_bounded s = true -> b' = true).
    { intros B. destruct (Hbb B) as [P _]. unfold b'. destruct (Rlt_dec (flo' * fhi') 0); [reflexivity | exfalso; lra]. }
    intros H.
    assert (G : lo = lo' /\ hi = hi' /\ flo = flo' /\ fhi = fhi' /\ b = b').
    { destruct (b' && (1 <? it)%nat).
      - destruct (Req_EM_T (s_x2 s - s_x1 s) 0); [discriminate|].
        destruct (Req_EM_T ((f (s_x2 s) - s_f2 s) / (s_x2 s - s_x1 s)) 0).
        + destruct b'; [|discriminate]. inversion H; subst; auto.
        + inversion H; subst; auto.
      - destruct (Req_EM_T (if n_relstep cfg then s_x2 s * n_h cfg else n_h cfg) 0); [discriminate|].
        match type of H with (if ?c then _ else _) = _ => destruct c end.
        + destruct b'; [|discriminate]. inversion H; subst; auto.
        + inversion H; subst; auto. }
    destruct G as (-> & -> & -> & -> & ->).
    split; [exact F1|]. split; [exact F2|]. split; [lra|]. split.
    + intros B. split; [apply Hb'; exact B | exact Hx].
    + intros B. split; [apply Hb''; exact B|]. destruct (Hbb B) as (_ & L1 & L2). split; assumption.
Qed.

Lemma niter_inv it s s' : binv s -> (niter f cfg it s = NCont s' \/ niter f cfg it s = NDone s') ->
  binv s' /\ (s_bounded s = true -> s_bounded s' = true /\ s_lo s <= s_lo s' /\ s_hi s' <= s_hi s).
Proof.
  intros Hinv H. unfold niter in H.
  destruct (nproposal f cfg it s (s_f2 s) (f (s_x2 s))) as [[[next [[[lo hi] flo] fhi]] b]|code] eqn:EP.
  2:{ destruct H; discriminate. }
  pose proof (nproposal_spec _ _ _ _ _ _ _ _ Hinv EP) as (F1 & F2 & Hle & Hb & Hp).
  set (nx := if b then clip (Some lo) (Some hi) (s_x2 s) next else clip (n_hard_lo cfg) (n_hard_hi cfg) (s_x2 s) next) in *.
  assert (E : s' = mknst (s_x1 s) (s_x2 s) nx (f (s_x2 s)) lo hi flo fhi b).
  { match type of H with (if ?c then _ else _) = _ \/ _ => destruct c end; destruct H as [H|H]; inversion H; auto. }
  subst s'. split.
  - unfold binv. cbn [s_flo s_fhi s_lo s_hi s_bounded s_x2].
    split; [exact F1|]. split; [exact F2|]. split; [exact Hle|].
    intros B. subst b. destruct (Hb eq_refl) as [P Hx]. split; [exact P|].
    unfold nx. apply clip_in; auto.
  - cbn [s_lo s_hi s_bounded]. intros B. destruct (Hp B) as (-> & L1 & L2). auto.
Qed.

Lemma nloop_inv fuel it s r s' : binv s -> nloop f cfg fuel it s = (r, s') ->
  binv s' /\ (s_bounded s = true -> s_bounded s' = true /\ s_lo s <= s_lo s' /\ s_hi s' <= s_hi s).
Proof.
  revert it s. induction fuel as [|n IH]; intros it s Hinv H; simpl in H.
  - inversion H; subst. split; auto. intros; repeat split; auto; lra.
  - destruct (niter f cfg it s) as [s1|s1|code] eqn:EI.
    + destruct (niter_inv it s s1 Hinv (or_introl EI)) as [I1 P1].
      destruct (IH _ _ I1 H) as [I2 P2]. split; auto.
      intros B. destruct (P1 B) as (B1 & L1 & L2). destruct (P2 B1) as (B2 & L3 & L4). repeat split; auto; lra.
    + inversion H; subst. apply (niter_inv it s s'); auto.
    + inversion H; subst. split; auto. intros; repeat split; auto; lra.
Qed.

(* convergence is declared on the size of the last step *)
Definition small_step (s : nst) : Prop :=
  Rabs (s_x2 s - s_x1 s) < n_atol cfg /\
  Rabs (s_x2 s - s_x1 s) / Rmax (Rabs (s_x1 s)) (n_atol cfg) < n_rtol cfg.

Lemma niter_done it s s' : niter f cfg it s = NDone s' -> small_step s'.
Proof.
  unfold niter. destruct (nproposal f cfg it s (s_f2 s) (f (s_x2 s))) as [[[next [[[lo hi] flo] fhi]] b]|code]; [|discriminate].
  match goal with |- (if ?c then _ else _) = _ -> _ => destruct c eqn:EC end; [|discriminate].
  intros H; inversion H; subst. unfold small_step. cbn [s_x2 s_x1].
  apply andb_true_iff in EC. destruct EC as [EC _]. apply andb_true_iff in EC. destruct EC as [C1 C2].
  split.
  - match type of C1 with (if ?c then _ else _) = _ => destruct c end; [auto|discriminate].
  - match type of C2 with (if ?c then _ else _) = _ => destruct c end; [auto|discriminate].
Qed.

Lemma niter_done_regular it s s' : niter f cfg it s = NDone s' ->
  (n_aitken cfg && Nat.eqb (it mod 3) 0) = false.
Proof.
  unfold niter. destruct (nproposal f cfg it s (s_f2 s) (f (s_x2 s))) as [[[next [[[lo hi] flo] fhi]] b]|code]; [|discriminate].
  match goal with |- (if ?c then _ else _) = _ -> _ => destruct c eqn:EC end; [|discriminate].
  intros _. apply andb_true_iff in EC. destruct EC as [_ EC]. apply negb_true_iff in EC. exact EC.
Qed.

Lemma nloop_converged fuel it s x s' : nloop f cfg fuel it s = (NConverged x, s') ->
  x = s_x2 s' /\ small_step s'.
Proof.
  revert it s. induction fuel as [|n IH]; intros it s H; simpl in H.
  - destruct (n_err_on_max cfg); inversion H.
  - destruct (niter f cfg it s) as [s1|s1|code] eqn:EI.
    + eapply IH; eauto.
    + inversion H; subst. split; auto. eapply niter_done; eauto.
    + inversion H.
Qed.
End NewtonProofs.

(* the hybrid solver: bracket invariant, persistence, and what "converged" means *)
Theorem newton_bracket_invariant f cfg guess r s :
  newton_run_state f cfg guess = (r, s) ->
  s_flo s = f (s_lo s) /\ s_fhi s = f (s_hi s) /\ s_lo s <= s_hi s /\
  (s_bounded s = true -> s_flo s * s_fhi s < 0 /\ s_lo s <= s_x2 s <= s_hi s).
Proof.
  intros H. unfold newton_run_state in H.
  destruct (nloop_inv f cfg _ _ _ _ _ (binv_init f guess) H) as [I _]. exact I.
Qed.

Theorem newton_root_in_bracket f cfg guess r s : continuity f ->
  newton_run_state f cfg guess = (r, s) -> s_bounded s = true ->
  exists z, s_lo s <= z <= s_hi s /\ f z = 0 /\ s_lo s <= s_x2 s <= s_hi s.
Proof.
  intros Hc H B. destruct (newton_bracket_invariant f cfg guess r s H) as (E1 & E2 & Hle & Hb).
  destruct (Hb B) as [P X]. rewrite E1, E2 in P.
  destruct (IVT_cor f (s_lo s) (s_hi s) Hc Hle (Rlt_le _ _ P)) as [z [Hz Hf]].
  exists z. auto.
Qed.

Theorem newton_converged_step f cfg guess x s :
  newton_run_state f cfg guess = (NConverged x, s) ->
  x = s_x2 s /\ Rabs (x - s_x1 s) < n_atol cfg /\
  Rabs (x - s_x1 s) / Rmax (Rabs (s_x1 s)) (n_atol cfg) < n_rtol cfg.
Proof.
  intros H. destruct (nloop_converged f cfg _ _ _ _ _ H) as [E [A B]]. subst x. auto.
Qed.

Theorem janssen_positive_or_none f guess z : janssen_point f guess = Some z -> 0 < z.
Proof.
  unfold janssen_point. destruct (newton_run f janssen_cfg (ln guess)); try discriminate.
  intros H; inversion H. apply exp_pos.
Qed.
