(* C17  Proofs about Model/TimeConv.v and about Generated/TimeInt.v (translated from the Python source). *)
From Coq Require Import ZArith List Bool Lia ZifyBool.
From OSU.Lib Require Import TimeAuxRange TimeAuxCalendar.
From OSU.Model Require Import TimeConv.
From OSU.Generated Require Import TimeInt.
Import ListNotations.
Open Scope Z_scope.
Ltac Zify.zify_post_hook ::= Z.div_mod_to_equations.

(* ------------------------------------------------------------------------------------------- *)
(* fields <-> instant                                                                           *)
(* ------------------------------------------------------------------------------------------- *)

Lemma valid_fieldsb_spec : forall f, valid_fieldsb f = true ->
  valid_dateb (fY f) (fM f) (fD f) = true /\ 0 <= fh f < 24 /\ 0 <= fmi f < 60 /\ 0 <= fs f < 60
  /\ 0 <= fus f < 1000000.
Proof.
  intros f H. unfold valid_fieldsb in H. rewrite !andb_true_iff in H.
  repeat match goal with H : _ /\ _ |- _ => destruct H end.
  repeat split; try assumption; lia.
Qed.

Lemma valid_fieldsb_intro : forall f,
  valid_dateb (fY f) (fM f) (fD f) = true -> 0 <= fh f < 24 -> 0 <= fmi f < 60 -> 0 <= fs f < 60 ->
  0 <= fus f < 1000000 -> valid_fieldsb f = true.
Proof.
  intros f V H1 H2 H3 H4. unfold valid_fieldsb. rewrite V.
  repeat (apply andb_true_iff; split); try reflexivity; lia.
Qed.

Theorem fields_instant_fields : forall f, valid_fieldsb f = true ->
  fields_of_instant (instant_of_fields f) = f.
Proof.
  intros [Y M D h mi s us] V. destruct (valid_fieldsb_spec _ V) as (Vd & Hh & Hmi & Hs & Hus).
  cbn [fY fM fD fh fmi fs fus] in *.
  unfold fields_of_instant, instant_of_fields. cbn [fY fM fD fh fmi fs fus].
  set (dd := days_from_civil Y M D).
  set (sod := h * 3600 + mi * 60 + s).
  assert (Hsod : 0 <= sod < 86400) by (unfold sod; lia).
  replace ((dd * 86400 + h * 3600 + mi * 60 + s) * 1000000 + us)
    with ((dd * 86400 + sod) * 1000000 + us) by (unfold sod; lia).
  replace (((dd * 86400 + sod) * 1000000 + us) / 1000000) with (dd * 86400 + sod) by lia.
  replace (((dd * 86400 + sod) * 1000000 + us) mod 1000000) with us by lia.
  replace ((dd * 86400 + sod) / 86400) with dd by lia.
  replace ((dd * 86400 + sod) mod 86400) with sod by lia.
  unfold dd. rewrite (civil_days_civil Y M D Vd).
  replace (sod / 3600) with h by (unfold sod; lia).
  replace (sod mod 3600 / 60) with mi by (unfold sod; lia).
  replace (sod mod 60) with s by (unfold sod; lia).
  reflexivity.
Qed.

Theorem instant_fields_instant : forall i, instant_of_fields (fields_of_instant i) = i.
Proof.
  intros i. unfold fields_of_instant.
  set (secs := i / 1000000). set (days := secs / 86400). set (sod := secs mod 86400).
  pose proof (days_civil_days days) as R.
  destruct (civil_from_days days) as [[y m] d].
  unfold instant_of_fields. cbn [fY fM fD fh fmi fs fus]. rewrite R.
  assert (Hsod : 0 <= sod < 86400) by (unfold sod; lia).
  replace (days * 86400 + sod / 3600 * 3600 + sod mod 3600 / 60 * 60 + sod mod 60)
    with (days * 86400 + sod) by lia.
  unfold days, sod, secs. lia.
Qed.

Theorem fields_of_instant_valid : forall i, valid_fieldsb (fields_of_instant i) = true.
Proof.
  intros i. unfold fields_of_instant.
  set (secs := i / 1000000). set (days := secs / 86400). set (sod := secs mod 86400).
  pose proof (civil_from_days_valid days) as V.
  destruct (civil_from_days days) as [[y m] d].
  assert (Hsod : 0 <= sod < 86400) by (unfold sod; lia).
  apply valid_fieldsb_intro; cbn [fY fM fD fh fmi fs fus]; try assumption; lia.
Qed.

(* two valid field sets that denote the same instant are the same fields *)
Corollary instant_of_fields_inj : forall f g, valid_fieldsb f = true -> valid_fieldsb g = true ->
  instant_of_fields f = instant_of_fields g -> f = g.
Proof.
  intros f g Vf Vg H. rewrite <- (fields_instant_fields f Vf), <- (fields_instant_fields g Vg), H.
  reflexivity.
Qed.

(* ------------------------------------------------------------------------------------------- *)
(* every scalar representation: same instant, aware, UTC                                         *)
(* ------------------------------------------------------------------------------------------- *)

Lemma utc_dt_instants : forall i,
  result_instants (ResDT (mkDT (fields_of_instant i) (Some 0))) = Some (IInst i).
Proof.
  intros i. cbn [result_instants dttz dtf]. rewrite fields_of_instant_valid, instant_fields_instant.
  reflexivity.
Qed.

Theorem same_instant_aware : forall loc f off,
  same_instant loc (RAware f off) (IInst (instant_of_fields f - off * 1000000)).
Proof. intros. unfold same_instant. cbn [to_datetime_utc]. unfold astimezone_utc. cbn [dttz dtf]. apply utc_dt_instants. Qed.

Theorem same_instant_naive : forall loc f,
  same_instant loc (RNaive f) (IInst (instant_of_fields f)).
Proof.
  intros. unfold same_instant. cbn [to_datetime_utc]. unfold astimezone_utc, replace_tz_utc. cbn [dttz dtf].
  replace (instant_of_fields f - 0 * 1000000) with (instant_of_fields f) by lia. apply utc_dt_instants.
Qed.

(* a naive input keeps its calendar fields (it is READ AS UTC), whatever the local zone *)
Theorem naive_keeps_fields : forall loc f, valid_fieldsb f = true ->
  to_datetime_utc loc (RNaive f) = ResDT (mkDT f (Some 0)).
Proof.
  intros. cbn [to_datetime_utc]. unfold astimezone_utc, replace_tz_utc. cbn [dttz dtf].
  replace (instant_of_fields f - 0 * 1000000) with (instant_of_fields f) by lia.
  rewrite fields_instant_fields by assumption. reflexivity.
Qed.

Theorem same_instant_int : forall loc n, same_instant loc (RInt n) (IInst (n * 1000000)).
Proof. intros. unfold same_instant. cbn [to_datetime_utc]. unfold fromtimestamp_int. apply utc_dt_instants. Qed.

Lemma round_half_even_nearest : forall p q i, 0 < q -> 2 * Z.abs (p - i * q) < q -> round_half_even p q = i.
Proof.
  intros p q i Hq H. unfold round_half_even.
  pose proof (Z.div_mod p q ltac:(lia)) as E. pose proof (Z.mod_pos_bound p q Hq) as B.
  set (fl := p / q) in *. set (r := p mod q) in *. clearbody fl r.
  assert (Hc : p - i * q = q * (fl - i) + r) by lia.
  destruct (Z.ltb_spec (2 * r) q).
  - (* fl = i *)
    destruct (Z.lt_trichotomy fl i) as [L | [L | L]]; [| exact L |].
    + assert (q * (fl - i) <= - q) by nia. lia.
    + assert (q <= q * (fl - i)) by nia. lia.
  - destruct (Z.gtb_spec (2 * r) q).
    + destruct (Z.lt_trichotomy (fl + 1) i) as [L | [L | L]]; [| exact L |].
      * assert (q * (fl - i) <= - (2 * q)) by nia. lia.
      * assert (0 <= q * (fl - i)) by nia. lia.
    + (* exact tie: impossible under the strict premise *)
      assert (2 * r = q) by lia.
      destruct (Z.lt_trichotomy fl i) as [L | [L | L]].
      * assert (q * (fl - i) <= - q) by nia. lia.
      * subst. lia.
      * assert (q <= q * (fl - i)) by nia. lia.
Qed.

(* a float within (strictly) half a microsecond of the instant i converts to i *)
Theorem same_instant_float : forall loc num k i, 0 <= k ->
  2 * Z.abs (num * 1000000 - i * 2 ^ k) < 2 ^ k ->
  same_instant loc (RFloat num k) (IInst i).
Proof.
  intros loc num k i Hk H. unfold same_instant. cbn [to_datetime_utc]. unfold fromtimestamp_float.
  rewrite (round_half_even_nearest _ _ i); [apply utc_dt_instants | apply Z.pow_pos_nonneg; lia | exact H].
Qed.

(* datetime64: whole seconds (floor) *)
Theorem same_instant_dt64 : forall loc c u,
  same_instant loc (RDT64 c u) (IInst ((c * u) / 1000000000 * 1000000)).
Proof.
  intros. unfold same_instant. cbn [to_datetime_utc]. unfold replace_tz_utc, fromtimestamp_int, dt64_seconds.
  cbn [dtf]. apply utc_dt_instants.
Qed.

Corollary same_instant_dt64_whole : forall loc c u s, c * u = s * 1000000000 ->
  same_instant loc (RDT64 c u) (IInst (s * 1000000)).
Proof.
  intros loc c u s H. pose proof (same_instant_dt64 loc c u) as T. rewrite H in T.
  replace (s * 1000000000 / 1000000000) with s in T by lia. exact T.
Qed.

Theorem none_none : forall loc, to_datetime_utc loc RNone = ResNone /\ same_instant loc RNone INone.
Proof. intros. split; reflexivity. Qed.

(* sequences, any nesting, any mixture: element-wise *)
Lemma all_some_map_forall2 : forall loc l ts, Forall2 (same_instant loc) l ts ->
  all_some (map result_instants (map (to_datetime_utc loc) l)) = Some ts.
Proof.
  intros loc l ts H. induction H as [| r t l ts Hr _ IH]; [reflexivity|].
  cbn [map all_some]. unfold same_instant in Hr. rewrite Hr, IH. reflexivity.
Qed.

Theorem same_instant_seq : forall loc l ts, Forall2 (same_instant loc) l ts ->
  same_instant loc (RSeq l) (ISeq ts).
Proof.
  intros loc l ts H. unfold same_instant. cbn [to_datetime_utc result_instants].
  rewrite (all_some_map_forall2 loc l ts H). reflexivity.
Qed.

Theorem seq_length : forall loc l,
  exists rs, to_datetime_utc loc (RSeq l) = ResSeq rs /\ length rs = length l
             /\ forall k, (k < length l)%nat -> nth k rs ResErr = to_datetime_utc loc (nth k l RNone).
Proof.
  intros loc l. exists (map (to_datetime_utc loc) l). split; [reflexivity|]. split; [apply map_length|].
  intros k Hk. rewrite (nth_indep _ ResErr (to_datetime_utc loc RNone)) by (rewrite map_length; exact Hk).
  apply map_nth.
Qed.

(* ------------------------------------------------------------------------------------------- *)
(* ISO strings, character level                                                                 *)
(* ------------------------------------------------------------------------------------------- *)

Lemma dig_chr : forall d, 0 <= d <= 9 -> dig (chr d) = Some d.
Proof.
  intros d H. unfold dig, chr.
  replace ((48 <=? 48 + d) && (48 + d <=? 57)) with true by lia.
  f_equal. lia.
Qed.

Lemma chr_not_Z : forall d, 0 <= d <= 9 -> (chr d =? cZ) = false.
Proof. intros d H. unfold chr, cZ. lia. Qed.

Lemma dig_Z : dig cZ = None.  Proof. reflexivity. Qed.
Lemma dig_PLUS : dig cPLUS = None.  Proof. reflexivity. Qed.
Lemma dig_DASH : dig cDASH = None.  Proof. reflexivity. Qed.

Lemma num2_fmt : forall v, 0 <= v < 100 -> num2 (chr (v / 10 mod 10)) (chr (v mod 10)) = Some v.
Proof.
  intros v H. unfold num2. rewrite !dig_chr by lia. f_equal. lia.
Qed.

Lemma num4_fmt : forall v, 0 <= v < 10000 ->
  num4 (chr (v / 1000 mod 10)) (chr (v / 100 mod 10)) (chr (v / 10 mod 10)) (chr (v mod 10)) = Some v.
Proof.
  intros v H. unfold num4. rewrite !dig_chr by lia. f_equal. lia.
Qed.

Definition no_digit_head (s : list Z) : Prop := match s with [] => True | c :: _ => dig c = None end.

Lemma take_frac_fmt6 : forall v rest, 0 <= v < 1000000 -> no_digit_head rest ->
  take_frac 6 0 0 (fmt6 v ++ rest) = (v, 6, rest).
Proof.
  intros v rest H N. unfold fmt6. cbn [app take_frac].
  rewrite !dig_chr by lia.
  assert (E : (((((0 * 10 + v / 100000 mod 10) * 10 + v / 10000 mod 10) * 10 + v / 1000 mod 10) * 10
               + v / 100 mod 10) * 10 + v / 10 mod 10) * 10 + v mod 10 = v) by lia.
  destruct rest as [|c r]; cbn [take_frac].
  - rewrite E. cbn. f_equal. f_equal. lia.
  - cbn [no_digit_head] in N. rewrite N. rewrite E. cbn. f_equal. f_equal. lia.
Qed.

Lemma parse_date_fmt : forall Y M D rest, 1 <= Y <= 9999 -> valid_dateb Y M D = true ->
  parse_date (fmt4 Y ++ [cDASH] ++ fmt2 M ++ [cDASH] ++ fmt2 D ++ rest) = Some (Y, M, D, rest).
Proof.
  intros Y M D rest HY V. destruct (valid_dateb_bounds _ _ _ V) as [HM HD].
  unfold fmt4, fmt2. cbn [app]. unfold parse_date.
  change (negb ((cDASH =? cDASH) && (cDASH =? cDASH))) with false. cbv beta iota.
  rewrite num4_fmt, !num2_fmt by lia. rewrite V.
  replace (1 <=? Y) with true by lia. reflexivity.
Qed.

Lemma parse_hms_fmt : forall h mi s rest, 0 <= h < 24 -> 0 <= mi < 60 -> 0 <= s < 60 ->
  parse_hms (fmt2 h ++ cCOLON :: fmt2 mi ++ cCOLON :: fmt2 s ++ rest) = Some (h, mi, s, rest).
Proof.
  intros h mi s rest Hh Hmi Hs. unfold fmt2. cbn [app]. unfold parse_hms.
  change (negb ((cCOLON =? cCOLON) && (cCOLON =? cCOLON))) with false. cbv beta iota.
  rewrite !num2_fmt by lia.
  replace ((h <? 24) && (mi <? 60) && (s <? 60)) with true by lia. reflexivity.
Qed.

Lemma zone_no_digit : forall z, no_digit_head (fmt_zone z).
Proof. intros [| |[] hh mm]; cbn; auto. Qed.

Lemma parse_zone_fmt : forall z, zone_ok z -> parse_zone (fmt_zone z) = Some (zone_offset z).
Proof.
  intros [| |neg hh mm] H; [reflexivity | reflexivity |].
  cbn [zone_ok] in H. destruct H as [Hh Hm].
  cbn [fmt_zone]. unfold fmt2. cbn [app]. unfold parse_zone. cbv beta iota.
  change (cCOLON =? cCOLON) with true. cbn [negb].
  rewrite !num2_fmt by lia.
  replace (86400 <=? hh * 3600 + mm * 60 + 0) with false by lia.
  destruct neg; cbn [zone_offset].
  - change ((cDASH =? cPLUS) || (cDASH =? cDASH)) with true. cbn [negb].
    change (cDASH =? cDASH) with true. cbv iota. do 3 f_equal. lia.
  - change ((cPLUS =? cPLUS) || (cPLUS =? cDASH)) with true. cbn [negb].
    change (cPLUS =? cDASH) with false. cbv iota. do 2 f_equal. lia.
Qed.

Lemma parse_frac_fmt6 : forall us z, 0 <= us < 1000000 ->
  parse_frac (cDOT :: fmt6 us ++ fmt_zone z) = Some (us, fmt_zone z).
Proof.
  intros us z H. unfold parse_frac.
  change ((cDOT =? cDOT) || (cDOT =? cCOMMA)) with true. cbv iota.
  rewrite take_frac_fmt6 by (auto using zone_no_digit). reflexivity.
Qed.

Lemma parse_frac_none : forall z, parse_frac (fmt_zone z) = Some (0, fmt_zone z).
Proof. intros [| |[] hh mm]; reflexivity. Qed.

(* the string the formatter writes parses back to the same fields and zone *)
Theorem parse_iso_fmt : forall sep frac f z,
  sep = cT \/ sep = cSPACE -> valid_fieldsb f = true -> 1 <= fY f <= 9999 ->
  (frac = false -> fus f = 0) -> zone_ok z ->
  parse_iso (fmt_iso_gen sep frac f z) = Some (mkDT f (zone_offset z)).
Proof.
  intros sep frac [Y M D h mi s us] z Hsep V HY Hfrac Hz.
  destruct (valid_fieldsb_spec _ V) as (Vd & Hh & Hmi & Hs & Hus).
  cbn [fY fM fD fh fmi fs fus] in *.
  unfold fmt_iso_gen, parse_iso. cbn [fY fM fD fh fmi fs fus].
  rewrite parse_date_fmt by assumption.
  cbn [app].
  assert (Es : negb ((sep =? cT) || (sep =? cSPACE)) = false) by (destruct Hsep; subst; reflexivity).
  rewrite Es. cbv iota.
  destruct frac; cbn [app]; rewrite parse_hms_fmt by assumption.
  - rewrite parse_frac_fmt6 by assumption. rewrite parse_zone_fmt by assumption. reflexivity.
  - rewrite parse_frac_none. rewrite parse_zone_fmt by assumption.
    rewrite (Hfrac eq_refl). reflexivity.
Qed.

Lemma zone_eq_Z : forall z, {z = ZoneZ} + {z <> ZoneZ}.
Proof. intros [| |]; [right; congruence | left; reflexivity | right; congruence]. Qed.

Lemma str_last_digit : forall sep frac f z, z <> ZoneZ ->
  exists d, 0 <= d <= 9 /\ last_opt (fmt_iso_gen sep frac f z) = Some (chr d).
Proof.
  intros sep frac f z Hz. unfold fmt_iso_gen, fmt4, fmt2, fmt6.
  destruct z as [| |neg hh mm]; [| congruence |]; destruct frac; cbn [app fmt_zone fmt2 last_opt];
    eexists; (split; [|reflexivity]); lia.
Qed.

Lemma str_last_Z : forall sep frac f,
  last_opt (fmt_iso_gen sep frac f ZoneZ) = Some cZ /\
  z_to_offset (fmt_iso_gen sep frac f ZoneZ) = fmt_iso_gen sep frac f (ZoneOff false 0 0).
Proof.
  intros sep frac f. unfold z_to_offset, fmt_iso_gen, fmt4, fmt2, fmt6.
  destruct frac; cbn [app fmt_zone fmt2 last_opt removelast]; split; reflexivity.
Qed.

Theorem same_instant_str : forall loc sep frac f z,
  sep = cT \/ sep = cSPACE -> valid_fieldsb f = true -> 1 <= fY f <= 9999 ->
  (frac = false -> fus f = 0) -> zone_ok z ->
  same_instant loc (RStr (fmt_iso_gen sep frac f z)) (IInst (instant_of_fields f - zoff z * 1000000)).
Proof.
  intros loc sep frac f z Hsep V HY Hfrac Hz. unfold same_instant. cbn [to_datetime_utc]. unfold str_to_utc.
  destruct (zone_eq_Z z) as [->|Hne].
  - destruct (str_last_Z sep frac f) as [L R]. rewrite L. change (cZ =? cZ) with true. cbv iota. rewrite R.
    rewrite parse_iso_fmt; try assumption; [| cbn; lia].
    cbn [dttz zone_offset]. unfold astimezone_utc. cbn [dttz dtf]. apply utc_dt_instants.
  - destruct (str_last_digit sep frac f z Hne) as (d & Hd & L). rewrite L, chr_not_Z by assumption.
    rewrite parse_iso_fmt by assumption.
    unfold astimezone_utc, zoff. destruct (zone_offset z) as [o|]; cbn [dttz dtf replace_tz_utc].
    + apply utc_dt_instants.
    + apply utc_dt_instants.
Qed.

(* ------------------------------------------------------------------------------------------- *)
(* round trips                                                                                  *)
(* ------------------------------------------------------------------------------------------- *)

Lemma same_instant_inv : forall loc r i, same_instant loc r (IInst i) ->
  exists f, to_datetime_utc loc r = ResDT (mkDT f (Some 0)) /\ valid_fieldsb f = true
            /\ instant_of_fields f = i /\ f = fields_of_instant i /\ r <> RNone.
Proof.
  intros loc r i H. unfold same_instant in H.
  assert (Hr : r <> RNone) by (intros ->; cbn in H; congruence).
  destruct (to_datetime_utc loc r) as [|[f tz]|l|] eqn:E; cbn [result_instants dttz dtf] in H;
    try congruence.
  - destruct tz as [[| |]|]; try congruence.
    destruct (valid_fieldsb f) eqn:V; [|congruence].
    injection H as H. exists f. repeat split; try assumption.
    rewrite <- H. symmetry. apply fields_instant_fields. exact V.
  - destruct (all_some (map result_instants l)); cbn in H; congruence.
Qed.

Lemma to_datetime64_unfold : forall loc r, r <> RNone ->
  to_datetime64 loc r =
  match to_datetime_utc loc r with
  | ResDT d => dt_to_64 (ResDT d)
  | ResSeq l => if forallb (fun x => match x with ResDT _ => true | _ => false end) l
                then R64Seq (map dt_to_64 l) else R64Err
  | ResNone => R64None
  | ResErr => R64Err
  end.
Proof. intros loc r H. destruct r; reflexivity. Qed.

Lemma dt_to_64_utc : forall f, 0 <= instant_of_fields f ->
  dt_to_64 (ResDT (mkDT f (Some 0))) = R64 (instant_of_fields f / 1000000 * 1000000000).
Proof.
  intros f H. unfold dt_to_64, timestamp_int, instant_of_dt. cbn [dttz dtf].
  replace (instant_of_fields f - 0 * 1000000) with (instant_of_fields f) by lia.
  rewrite Z.quot_div_nonneg by lia. reflexivity.
Qed.

(* to_datetime64 keeps the whole second of the instant, and converting that datetime64 back gives the
   instant floored to the second (instants from 1970 on) *)
Theorem dt64_roundtrip : forall loc r i, 0 <= i -> same_instant loc r (IInst i) ->
  to_datetime64 loc r = R64 (i / 1000000 * 1000000000) /\
  same_instant loc (RDT64 (i / 1000000 * 1000000000) 1) (IInst (i / 1000000 * 1000000)).
Proof.
  intros loc r i Hi H. destruct (same_instant_inv _ _ _ H) as (f & E & V & Hf & _ & Hr).
  split.
  - rewrite to_datetime64_unfold by exact Hr. rewrite E, dt_to_64_utc by lia. rewrite Hf. reflexivity.
  - apply same_instant_dt64_whole. lia.
Qed.

Theorem dt64_roundtrip_seq : forall loc l ins,
  Forall2 (fun r i => 0 <= i /\ same_instant loc r (IInst i)) l ins ->
  to_datetime64 loc (RSeq l) = R64Seq (map (fun i => R64 (i / 1000000 * 1000000000)) ins).
Proof.
  intros loc l ins H. cbn [to_datetime64 to_datetime_utc].
  assert (A : forallb (fun x => match x with ResDT _ => true | _ => false end) (map (to_datetime_utc loc) l) = true
              /\ map dt_to_64 (map (to_datetime_utc loc) l) = map (fun i => R64 (i / 1000000 * 1000000000)) ins).
  { induction H as [| r i l ins [Hi Hr] _ [IH1 IH2]]; [split; reflexivity|].
    destruct (same_instant_inv _ _ _ Hr) as (f & E & V & Hf & _ & _).
    cbn [map forallb]. rewrite E, IH1, IH2. split; [reflexivity|].
    rewrite dt_to_64_utc by lia. rewrite Hf. reflexivity. }
  destruct A as [A1 A2]. rewrite A1, A2. reflexivity.
Qed.

(* formatting as an ISO string and parsing again returns the original instant, microseconds included *)
Theorem iso_roundtrip : forall loc r i, same_instant loc r (IInst i) ->
  1 <= fY (fields_of_instant i) <= 9999 ->
  datetime_to_iso_time_string loc r = Some (Some (format_iso (fields_of_instant i))) /\
  same_instant loc (RStr (format_iso (fields_of_instant i))) (IInst i).
Proof.
  intros loc r i H HY. destruct (same_instant_inv _ _ _ H) as (f & E & V & Hf & Hff & Hr).
  split.
  - unfold datetime_to_iso_time_string. rewrite E. cbn [dtf]. rewrite Hff.
    destruct r; try reflexivity. congruence.
  - unfold format_iso. rewrite <- Hff.
    replace i with (instant_of_fields f - zoff ZoneZ * 1000000) by (cbn; lia).
    apply same_instant_str; try assumption; [left; reflexivity | rewrite Hff; exact HY | congruence | exact I].
Qed.

(* the years of the property: every instant of 1970-01-01 .. 2100-12-31 has a four digit year *)
Lemma year_of_instant_1970_2100 : forall i, 0 <= i < 47847 * 86400 * 1000000 ->
  1970 <= fY (fields_of_instant i) <= 2100.
Proof.
  intros i H. unfold fields_of_instant.
  set (days := i / 1000000 / 86400).
  assert (Hd : 0 <= days < 47847) by (unfold days; lia).
  pose proof (year_range_1970_2100 days Hd) as T.
  destruct (civil_from_days days) as [[y m] d]. cbn [fY]. exact T.
Qed.

Corollary iso_roundtrip_1970_2100 : forall loc r i, same_instant loc r (IInst i) ->
  0 <= i < 47847 * 86400 * 1000000 ->
  datetime_to_iso_time_string loc r = Some (Some (format_iso (fields_of_instant i))) /\
  same_instant loc (RStr (format_iso (fields_of_instant i))) (IInst i).
Proof.
  intros loc r i H Hi. apply iso_roundtrip; [exact H|]. pose proof (year_of_instant_1970_2100 i Hi). lia.
Qed.

(* ------------------------------------------------------------------------------------------- *)
(* the local zone of the process never matters                                                  *)
(* ------------------------------------------------------------------------------------------- *)

Section ReprInd.
  Variable P : repr -> Prop.
  Hypothesis HNone : P RNone.
  Hypothesis HAware : forall f off, P (RAware f off).
  Hypothesis HNaive : forall f, P (RNaive f).
  Hypothesis HStr : forall s, P (RStr s).
  Hypothesis HInt : forall n, P (RInt n).
  Hypothesis HFloat : forall n k, P (RFloat n k).
  Hypothesis HDT64 : forall c u, P (RDT64 c u).
  Hypothesis HSeq : forall l, Forall P l -> P (RSeq l).
  Fixpoint repr_ind' (r : repr) : P r :=
    match r with
    | RNone => HNone
    | RAware f off => HAware f off
    | RNaive f => HNaive f
    | RStr s => HStr s
    | RInt n => HInt n
    | RFloat n k => HFloat n k
    | RDT64 c u => HDT64 c u
    | RSeq l => HSeq l ((fix go (l : list repr) : Forall P l :=
                           match l with
                           | [] => Forall_nil P
                           | x :: l' => Forall_cons x (repr_ind' x) (go l')
                           end) l)
    end.
End ReprInd.

Theorem tz_independent : forall loc1 loc2 r, to_datetime_utc loc1 r = to_datetime_utc loc2 r.
Proof.
  intros loc1 loc2 r. induction r using repr_ind'; try reflexivity.
  - (* str *) cbn [to_datetime_utc]. unfold str_to_utc.
    destruct (last_opt s); [|reflexivity].
    destruct (parse_iso _) as [[f [o|]]|]; reflexivity.
  - cbn [to_datetime_utc]. f_equal. induction H as [|x l Hx _ IH]; [reflexivity|].
    cbn [map]. rewrite Hx, IH. reflexivity.
Qed.

(* ...whereas astimezone() on a naive datetime does depend on it: the reason for replace(tzinfo=utc) *)
Lemma naive_astimezone_is_local : forall loc f,
  instant_of_dt (astimezone_utc loc (mkDT f None)) = Some (instant_of_fields f - loc * 1000000).
Proof.
  intros. unfold astimezone_utc, instant_of_dt. cbn [dttz dtf]. rewrite instant_fields_instant. f_equal. lia.
Qed.

(* ------------------------------------------------------------------------------------------- *)
(* packed integers: the definitions translated from the Python source                          *)
(* ------------------------------------------------------------------------------------------- *)

Ltac split_ifs :=
  repeat match goal with
         | |- context [if ?c then _ else _] => let E := fresh "E" in destruct c eqn:E
         end.

(* NOTE: no statement about the translated functions OUTSIDE the valid packed integers is made here on
   purpose: the property is silent there, so a change of behaviour on e.g. 240000 must not break a proof. *)
Theorem timeint_decodes : forall fm h m s, valid_packed_time fm h m s ->
  py_time_from_timeint (pack_time fm h m s) = h * 3600 + m * 60 + s.
Proof.
  intros fm h m s V. unfold py_time_from_timeint. cbv zeta.
  destruct fm; cbn [valid_packed_time pack_time] in *; split_ifs; lia.
Qed.

Theorem dateint_decodes_yyyymmdd : forall y m d, 100 <= y <= 9999 -> 1 <= m <= 12 -> 1 <= d <= 31 ->
  py_date_from_dateint (pack_date4 y m d) = (y, m, d).
Proof.
  intros y m d Hy Hm Hd. unfold py_date_from_dateint, pack_date4. cbv zeta.
  split_ifs; try lia; repeat (f_equal; try lia).
Qed.

Theorem dateint_decodes_yymmdd : forall yy m d, 0 <= yy <= 99 -> 1 <= m <= 12 -> 1 <= d <= 31 ->
  py_date_from_dateint (pack_date2 yy m d) = (2000 + yy, m, d).
Proof.
  intros y m d Hy Hm Hd. unfold py_date_from_dateint, pack_date2. cbv zeta.
  split_ifs; try lia; repeat (f_equal; try lia).
Qed.

Lemma date_plus_seconds_fields : forall y m d h mi s,
  1 <= y <= 9999 -> valid_dateb y m d = true -> 0 <= h < 24 -> 0 <= mi < 60 -> 0 <= s < 60 ->
  date_plus_seconds (y, m, d) (h * 3600 + mi * 60 + s) = Some (mkDT (mkF y m d h mi s 0) (Some 0)).
Proof.
  intros y m d h mi s Hy V Hh Hmi Hs. unfold date_plus_seconds.
  replace ((1 <=? y) && (y <=? 9999)) with true by lia. rewrite V. cbn [andb].
  replace (instant_of_fields (mkF y m d 0 0 0 0) + (h * 3600 + mi * 60 + s) * 1000000)
    with (instant_of_fields (mkF y m d h mi s 0)) by (unfold instant_of_fields; cbn [fY fM fD fh fmi fs fus]; lia).
  rewrite fields_instant_fields; [reflexivity|].
  apply valid_fieldsb_intro; cbn [fY fM fD fh fmi fs fus]; try assumption; lia.
Qed.

Lemma valid_packed_time_ranges : forall fm h m s, valid_packed_time fm h m s ->
  0 <= h < 24 /\ 0 <= m < 60 /\ 0 <= s < 60.
Proof. intros [] h m s V; cbn in V; lia. Qed.

Theorem packed_datetime_yyyymmdd : forall y m d fm h mi s,
  100 <= y <= 9999 -> valid_dateb y m d = true -> valid_packed_time fm h mi s ->
  date_plus_seconds (fst (py_datetime_from_ints (pack_date4 y m d) (pack_time fm h mi s)))
                    (snd (py_datetime_from_ints (pack_date4 y m d) (pack_time fm h mi s)))
  = Some (mkDT (mkF y m d h mi s 0) (Some 0)).
Proof.
  intros y m d fm h mi s Hy V Vt. destruct (valid_dateb_bounds _ _ _ V) as [Hm Hd].
  destruct (valid_packed_time_ranges _ _ _ _ Vt) as (Hh & Hmi & Hs).
  unfold py_datetime_from_ints. cbn [fst snd].
  rewrite dateint_decodes_yyyymmdd, timeint_decodes by assumption.
  apply date_plus_seconds_fields; try assumption; lia.
Qed.

Theorem packed_datetime_yymmdd : forall yy m d fm h mi s,
  0 <= yy <= 99 -> valid_dateb (2000 + yy) m d = true -> valid_packed_time fm h mi s ->
  date_plus_seconds (fst (py_datetime_from_ints (pack_date2 yy m d) (pack_time fm h mi s)))
                    (snd (py_datetime_from_ints (pack_date2 yy m d) (pack_time fm h mi s)))
  = Some (mkDT (mkF (2000 + yy) m d h mi s 0) (Some 0)).
Proof.
  intros y m d fm h mi s Hy V Vt. destruct (valid_dateb_bounds _ _ _ V) as [Hm Hd].
  destruct (valid_packed_time_ranges _ _ _ _ Vt) as (Hh & Hmi & Hs).
  unfold py_datetime_from_ints. cbn [fst snd].
  rewrite dateint_decodes_yymmdd, timeint_decodes by assumption.
  apply date_plus_seconds_fields; try assumption; lia.
Qed.

(* why the leading field must be non-zero: the three packings overlap, so NO function of the integer
   alone decodes every (form, time of day) *)
Theorem packed_time_forms_overlap :
  ~ exists dec : Z -> Z, forall fm h m s,
      0 <= h <= 23 -> 0 <= m <= 59 -> 0 <= s <= 59 -> (fm = HH -> m = 0 /\ s = 0) -> (fm = HHMM -> s = 0) ->
      dec (pack_time fm h m s) = h * 3600 + m * 60 + s.
Proof.
  intros [dec H].
  pose proof (H HH 1 0 0 ltac:(lia) ltac:(lia) ltac:(lia) ltac:(intros; lia) ltac:(intros; lia)) as A.
  pose proof (H HHMMSS 0 0 1 ltac:(lia) ltac:(lia) ltac:(lia) ltac:(discriminate) ltac:(discriminate)) as B.
  cbn [pack_time] in A, B. replace (0 * 10000 + 0 * 100 + 1) with 1 in B by lia. lia.
Qed.

(* ------------------------------------------------------------------------------------------- *)
(* combined statements exported by Properties/C17.v                                             *)
(* ------------------------------------------------------------------------------------------- *)

Lemma civil_roundtrip_days_stmt : forall z,
  let '(y, m, d) := civil_from_days z in days_from_civil y m d = z /\ valid_dateb y m d = true.
Proof.
  intros z. pose proof (days_civil_days z) as A. pose proof (civil_from_days_valid z) as B.
  destruct (civil_from_days z) as [[y m] d]. exact (conj A B).
Qed.

Lemma civil_roundtrip_1970_2100_stmt :
  days_from_civil 1970 1 1 = 0 /\ days_from_civil 2100 12 31 = 47846 /\
  forall z, 0 <= z < 47847 ->
    let '(y, m, d) := civil_from_days z in
    1970 <= y <= 2100 /\ valid_dateb y m d = true /\ days_from_civil y m d = z.
Proof.
  destruct days_1970_2100 as [A B]. split; [exact A|]. split; [exact B|].
  intros z H. pose proof (year_range_1970_2100 z H) as Y. pose proof (days_civil_days z) as D.
  pose proof (civil_from_days_valid z) as V. destruct (civil_from_days z) as [[y m] d]. exact (conj Y (conj V D)).
Qed.

Lemma fields_instant_roundtrip_stmt :
  (forall f, valid_fieldsb f = true -> fields_of_instant (instant_of_fields f) = f) /\
  (forall i, instant_of_fields (fields_of_instant i) = i /\ valid_fieldsb (fields_of_instant i) = true).
Proof.
  split; [exact fields_instant_fields|]. intros i. exact (conj (instant_fields_instant i) (fields_of_instant_valid i)).
Qed.

Lemma utc_same_instant_naive_stmt : forall loc f,
  same_instant loc (RNaive f) (IInst (instant_of_fields f)) /\
  (valid_fieldsb f = true -> to_datetime_utc loc (RNaive f) = ResDT (mkDT f (Some 0))).
Proof. intros loc f. exact (conj (same_instant_naive loc f) (naive_keeps_fields loc f)). Qed.

Lemma utc_same_instant_datetime64_stmt : forall loc c u,
  same_instant loc (RDT64 c u) (IInst ((c * u) / 1000000000 * 1000000)) /\
  (forall s, c * u = s * 1000000000 -> same_instant loc (RDT64 c u) (IInst (s * 1000000))).
Proof. intros loc c u. exact (conj (same_instant_dt64 loc c u) (same_instant_dt64_whole loc c u)). Qed.


Lemma dateint_decodes_stmt : forall m d, 1 <= m <= 12 -> 1 <= d <= 31 ->
  (forall y, 100 <= y <= 9999 -> py_date_from_dateint (pack_date4 y m d) = (y, m, d)) /\
  (forall yy, 0 <= yy <= 99 -> py_date_from_dateint (pack_date2 yy m d) = (2000 + yy, m, d)).
Proof.
  intros m d Hm Hd. split; intros y Hy;
    [exact (dateint_decodes_yyyymmdd y m d Hy Hm Hd) | exact (dateint_decodes_yymmdd y m d Hy Hm Hd)].
Qed.

Lemma packed_datetime_stmt : forall m d fm h mi s, valid_packed_time fm h mi s ->
  (forall y, 100 <= y <= 9999 -> valid_dateb y m d = true ->
     date_plus_seconds (fst (py_datetime_from_ints (pack_date4 y m d) (pack_time fm h mi s)))
                       (snd (py_datetime_from_ints (pack_date4 y m d) (pack_time fm h mi s)))
     = Some (mkDT (mkF y m d h mi s 0) (Some 0))) /\
  (forall yy, 0 <= yy <= 99 -> valid_dateb (2000 + yy) m d = true ->
     date_plus_seconds (fst (py_datetime_from_ints (pack_date2 yy m d) (pack_time fm h mi s)))
                       (snd (py_datetime_from_ints (pack_date2 yy m d) (pack_time fm h mi s)))
     = Some (mkDT (mkF (2000 + yy) m d h mi s 0) (Some 0))).
Proof.
  intros m d fm h mi s Vt. split; intros y Hy V;
    [exact (packed_datetime_yyyymmdd y m d fm h mi s Hy V Vt) | exact (packed_datetime_yymmdd y m d fm h mi s Hy V Vt)].
Qed.
