(* Proofs about Model/Estimators.v, part 2: closed forms of the MEM2 kernels and
   "the Jacobian used by the Newton step is the derivative of the constraint function" (C06). *)
From Coq Require Import Reals List Arith Lra Lia.
From Coquelicot Require Import Coquelicot.
From OSU.Model Require Import Estimators.
From OSU.Lib Require Import EstAuxSums.
From OSU.Proofs Require Import Estimators.
Import ListNotations.
Open Scope R_scope.

(* unshifted quantities: E = exp(-lambda.T), Z = sum E d, P_m = sum T_m E d, S_mn = sum T_m T_n E d *)
Definition Ef (l : V4) (t : R) : R := exp (- inner l t).
Definition Zf (l : V4) (d th : list R) : R := wsum (map (Ef l) th) d.
Definition Pf (m : nat) (l : V4) (d th : list R) : R := wsum (map (fun t => tw m t * Ef l t) th) d.
Definition S2f (m n : nat) (l : V4) (d th : list R) : R :=
  wsum (map (fun t => tw m t * tw n t * Ef l t) th) d.

Definition emn (l : V4) (th : list R) : R := exp (minl (map (inner l) th)).

Lemma emn_pos : forall l th, 0 < emn l th.
Proof. intros. apply exp_pos. Qed.

Lemma shape_factor : forall l th, shape l th = map (fun t => Ef l t * emn l th) th.
Proof.
  intros. unfold shape, shifted, emn, Ef. rewrite !map_map. apply map_ext. intro t.
  rewrite <- exp_plus. f_equal. ring.
Qed.

Lemma Zf_pos : forall l d th,
  th <> [] -> length d = length th -> List.Forall (fun x => 0 < x) d -> 0 < Zf l d th.
Proof.
  intros. unfold Zf. apply wsum_pos; auto.
  - destruct th; [congruence | simpl; congruence].
  - rewrite map_length; auto.
  - apply Forall_forall. intros x Hx. apply in_map_iff in Hx. destruct Hx as (t & <- & _). apply exp_pos.
Qed.

Lemma wsum_shape : forall l d th, wsum (shape l th) d = Zf l d th * emn l th.
Proof. intros. rewrite shape_factor. unfold Zf. apply wsum_map_scal_r. Qed.

Lemma normalization_closed : forall l d th, normalization l d th = / (Zf l d th * emn l th).
Proof. intros. unfold normalization. rewrite wsum_shape. unfold Rdiv. ring. Qed.

(* the min-shift cancels: dist = exp(-lambda.T_j) / sum_k exp(-lambda.T_k) d_k *)
Lemma dist_closed : forall l d th,
  th <> [] -> length d = length th -> List.Forall (fun x => 0 < x) d ->
  dist l d th = map (fun t => Ef l t / Zf l d th) th.
Proof.
  intros l d th H1 H2 H3. pose proof (Zf_pos l d th H1 H2 H3). pose proof (emn_pos l th).
  unfold dist. cbv zeta. rewrite normalization_closed, shape_factor, map_map.
  apply map_ext. intro t. field. split; lra.
Qed.

Lemma moment_closed : forall m l d th,
  th <> [] -> length d = length th -> List.Forall (fun x => 0 < x) d ->
  moment_of m (dist l d th) d th = Pf m l d th / Zf l d th.
Proof.
  intros m l d th H1 H2 H3. unfold moment_of. rewrite dist_closed by auto.
  rewrite map2_map_map. fold (wsum (map (fun t => tw m t * (Ef l t / Zf l d th)) th) d).
  rewrite (wsum_map_ext _ (fun t => tw m t * Ef l t * / Zf l d th)).
  2:{ intros. unfold Rdiv. ring. }
  rewrite wsum_map_scal_r. reflexivity.
Qed.

Lemma constraints_closed : forall l mo d th m,
  th <> [] -> length d = length th -> List.Forall (fun x => 0 < x) d ->
  get4 (constraints l mo d th) m = get4 mo m - Pf m l d th / Zf l d th.
Proof.
  intros l mo d th m H1 H2 H3. unfold constraints. cbv zeta.
  destruct m as [|[|[|m]]]; simpl; rewrite moment_closed by auto; reflexivity.
Qed.

Lemma sumR_map2_swap : forall A d B,
  sumR (map2 Rmult (map2 Rmult A d) B) = sumR (map2 Rmult (map2 Rmult A B) d).
Proof.
  induction A as [|a A IHA]; intros d B; [reflexivity|].
  destruct d as [|w d]; destruct B as [|b B]; simpl; try reflexivity.
  rewrite IHA. ring.
Qed.

(* closed form of the code's Jacobian entry: the covariance of T_m and T_n under the distribution *)
Lemma jac_lower_closed : forall l d th mm nn,
  th <> [] -> length d = length th -> List.Forall (fun x => 0 < x) d ->
  jac_lower l d th mm nn =
  S2f mm nn l d th / Zf l d th - Pf mm l d th * Pf nn l d th / (Zf l d th * Zf l d th).
Proof.
  intros l d th mm nn H1 H2 H3.
  pose proof (Zf_pos l d th H1 H2 H3) as HZ. pose proof (emn_pos l th) as He.
  unfold jac_lower, normalization_derivative. cbv zeta.
  rewrite sumR_map2_swap.
  rewrite normalization_closed.
  set (nrm := / (Zf l d th * emn l th)).
  rewrite shape_factor.
  rewrite (map2_map_map Rmult (tw nn) (fun t => Ef l t * emn l th)).
  fold (wsum (map (fun t => tw nn t * (Ef l t * emn l th)) th) d).
  rewrite (wsum_map_ext _ (fun t => tw nn t * Ef l t * emn l th)) by (intros; ring).
  rewrite wsum_map_scal_r. fold (Pf nn l d th).
  set (ndn := nrm * (Pf nn l d th * emn l th) * nrm).
  rewrite map2_id_map.
  rewrite (map2_map_map Rmult (tw mm)).
  fold (wsum (map (fun t => tw mm t * (nrm * (- tw nn t * (Ef l t * emn l th)) + Ef l t * emn l th * ndn)) th) d).
  rewrite (wsum_map_ext _ (fun t => tw mm t * tw nn t * Ef l t * (- (nrm * emn l th))
                                    + tw mm t * Ef l t * (emn l th * ndn))) by (intros; ring).
  rewrite wsum_map_plus, !wsum_map_scal_r.
  fold (S2f mm nn l d th). fold (Pf mm l d th).
  unfold ndn, nrm. field. split; lra.
Qed.

Lemma S2f_sym : forall m n l d th, S2f m n l d th = S2f n m l d th.
Proof. intros. unfold S2f. apply wsum_map_ext. intros. ring. Qed.

(* the formula is genuinely symmetric, so filling the upper triangle by mirroring is right *)
Lemma jac_lower_symmetric : forall l d th m n,
  th <> [] -> length d = length th -> List.Forall (fun x => 0 < x) d ->
  jac_lower l d th m n = jac_lower l d th n m.
Proof.
  intros. rewrite !jac_lower_closed by auto. rewrite (S2f_sym m n). f_equal. f_equal. apply Rmult_comm.
Qed.

Lemma jacobian_symmetric : forall l d th m n, jacobian l d th m n = jacobian l d th n m.
Proof.
  intros. unfold jacobian.
  destruct (Nat.leb_spec n m); destruct (Nat.leb_spec m n); auto.
  - assert (m = n) by lia. subst. reflexivity.
  - lia.
Qed.

Lemma jacobian_closed : forall l d th m n,
  th <> [] -> length d = length th -> List.Forall (fun x => 0 < x) d ->
  jacobian l d th m n =
  S2f m n l d th / Zf l d th - Pf m l d th * Pf n l d th / (Zf l d th * Zf l d th).
Proof.
  intros. unfold jacobian. destruct (n <=? m)%nat.
  - apply jac_lower_closed; auto.
  - rewrite jac_lower_closed by auto. rewrite (S2f_sym n m). unfold Rdiv. ring.
Qed.

(* ------------------------------------------------------------------ *)
(* derivatives                                                          *)
(* ------------------------------------------------------------------ *)
Lemma is_derive_wsum : forall (g : R -> R -> R) (g' : R -> R) th d x0,
  (forall t, is_derive (fun x => g x t) x0 (g' t)) ->
  is_derive (fun x => wsum (map (g x) th) d) x0 (wsum (map g' th) d).
Proof.
  intros g g' th. induction th as [|t th IH]; intros d x0 H.
  - unfold wsum. simpl. apply (is_derive_const (K := R_AbsRing) (V := R_NormedModule) 0 x0).
  - destruct d as [|w d].
    + unfold wsum. simpl. apply (is_derive_const (K := R_AbsRing) (V := R_NormedModule) 0 x0).
    + simpl map. apply (is_derive_ext (fun x => g x t * w + wsum (map (g x) th) d)).
      { intro x. rewrite wsum_cons. reflexivity. }
      rewrite wsum_cons.
      apply (is_derive_plus (K := R_AbsRing) (V := R_NormedModule)
               (fun x => g x t * w) (fun x => wsum (map (g x) th) d) x0 (g' t * w) (wsum (map g' th) d)).
      * apply (is_derive_ext (fun x => scal w (g x t))).
        { intro x. unfold scal; simpl; unfold mult; simpl. ring. }
        replace (g' t * w) with (scal w (g' t)) by (unfold scal; simpl; unfold mult; simpl; ring).
        apply (is_derive_scal (fun x => g x t) x0 w (g' t)). apply H.
      * apply IH. auto.
Qed.

Lemma set4_get4 : forall l n, set4 l n (get4 l n) = l.
Proof. intros [a b c e] n. destruct n as [|[|[|n]]]; reflexivity. Qed.

Lemma Ef_derive : forall l n t x0,
  is_derive (fun x => Ef (set4 l n x) t) x0 (- tw n t * Ef (set4 l n x0) t).
Proof.
  intros [a b c e] n t x0. unfold Ef, inner.
  destruct n as [|[|[|n]]]; simpl; auto_derive; auto; ring.
Qed.

(* THE JACOBIAN IS THE DERIVATIVE: entry (m, n) of mem2_jacobian is the partial derivative of
   constraint m with respect to multiplier n, for every lambda (the min-shift does not matter). *)
Lemma jacobian_is_derivative : forall l mo d th m n,
  th <> [] -> length d = length th -> List.Forall (fun x => 0 < x) d ->
  is_derive (fun x => get4 (constraints (set4 l n x) mo d th) m) (get4 l n) (jacobian l d th m n).
Proof.
  intros l mo d th m n H1 H2 H3.
  apply (is_derive_ext (fun x => get4 mo m - Pf m (set4 l n x) d th / Zf (set4 l n x) d th)).
  { intro x. symmetry. apply constraints_closed; auto. }
  rewrite jacobian_closed by auto.
  set (x0 := get4 l n).
  assert (HP : is_derive (fun x => Pf m (set4 l n x) d th) x0 (- S2f m n l d th)).
  { unfold Pf, S2f.
    replace (- wsum (map (fun t => tw m t * tw n t * Ef l t) th) d)
      with (wsum (map (fun t => tw m t * (- tw n t * Ef l t)) th) d).
    2:{ rewrite <- wsum_map_opp. apply wsum_map_ext. intros. ring. }
    apply (is_derive_wsum (fun x t => tw m t * Ef (set4 l n x) t)).
    intro t.
    apply (is_derive_ext (fun x => scal (tw m t) (Ef (set4 l n x) t))).
    { intro x. reflexivity. }
    replace (tw m t * (- tw n t * Ef l t)) with (scal (tw m t) (- tw n t * Ef l t)) by reflexivity.
    apply is_derive_scal.
    replace (Ef l t) with (Ef (set4 l n x0) t) by (unfold x0; rewrite set4_get4; reflexivity).
    apply Ef_derive. }
  assert (HZ : is_derive (fun x => Zf (set4 l n x) d th) x0 (- Pf n l d th)).
  { unfold Zf, Pf.
    replace (- wsum (map (fun t => tw n t * Ef l t) th) d)
      with (wsum (map (fun t => - tw n t * Ef l t) th) d).
    2:{ rewrite <- wsum_map_opp. apply wsum_map_ext. intros. ring. }
    apply (is_derive_wsum (fun x t => Ef (set4 l n x) t)).
    intro t.
    replace (Ef l t) with (Ef (set4 l n x0) t) by (unfold x0; rewrite set4_get4; reflexivity).
    apply Ef_derive. }
  assert (Hl : set4 l n x0 = l) by (unfold x0; apply set4_get4).
  pose proof (Zf_pos l d th H1 H2 H3) as HZp.
  evar_last.
  - apply (is_derive_minus (K := R_AbsRing) (V := R_NormedModule) (fun _ => get4 mo m)
             (fun x => Pf m (set4 l n x) d th / Zf (set4 l n x) d th) x0).
    + apply (is_derive_const (K := R_AbsRing) (V := R_NormedModule)).
    + apply is_derive_div; [exact HP | exact HZ | rewrite Hl; lra].
  - cbv beta. rewrite Hl. unfold minus, plus, opp, zero; simpl. field. lra.
Qed.

(* derivative of the whole distribution entry, for completeness: d D_j / d lambda_n = -D_j (T_n(j) - <T_n>) *)
Lemma dist_entry_derivative : forall l d th n t,
  th <> [] -> length d = length th -> List.Forall (fun x => 0 < x) d ->
  is_derive (fun x => Ef (set4 l n x) t / Zf (set4 l n x) d th) (get4 l n)
            (- (Ef l t / Zf l d th) * (tw n t - Pf n l d th / Zf l d th)).
Proof.
  intros l d th n t H1 H2 H3.
  set (x0 := get4 l n).
  assert (Hl : set4 l n x0 = l) by (unfold x0; apply set4_get4).
  pose proof (Zf_pos l d th H1 H2 H3) as HZp.
  assert (HZ : is_derive (fun x => Zf (set4 l n x) d th) x0 (- Pf n l d th)).
  { unfold Zf, Pf.
    replace (- wsum (map (fun t => tw n t * Ef l t) th) d)
      with (wsum (map (fun t => - tw n t * Ef l t) th) d).
    2:{ rewrite <- wsum_map_opp. apply wsum_map_ext. intros. ring. }
    apply (is_derive_wsum (fun x t => Ef (set4 l n x) t)).
    intro t0.
    replace (Ef l t0) with (Ef (set4 l n x0) t0) by (rewrite Hl; reflexivity).
    apply Ef_derive. }
  evar_last.
  - apply is_derive_div; [apply Ef_derive | exact HZ | rewrite Hl; lra].
  - cbv beta. rewrite Hl. field. lra.
Qed.
