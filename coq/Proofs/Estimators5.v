(* Proofs about Model/Estimators.v, part 5: the midpoint-rule direction increments on a uniform grid,
   and correctness of the unrolled Cholesky solve. *)
From Coq Require Import Reals List Arith Lra Lia.
From OSU.Model Require Import Estimators.
From OSU.Lib Require Import EstAuxSums.
From OSU.Proofs Require Import Estimators Estimators3 Estimators4.
Import ListNotations.
Open Scope R_scope.

Lemma pmod_unique : forall x p z, 0 < p -> IZR z * p <= x < (IZR z + 1) * p -> pmod x p = x - IZR z * p.
Proof.
  intros x p z Hp [H1 H2]. unfold pmod.
  assert (E : z = Int_part (x / p)).
  { apply Int_part_spec. split.
    - apply Rmult_lt_reg_r with p; auto. unfold Rdiv.
      replace ((x * / p - 1) * p) with (x - p) by (field; lra). lra.
    - apply Rmult_le_reg_r with p; auto. unfold Rdiv.
      replace (x * / p * p) with x by (field; lra). lra. }
  rewrite <- E. reflexivity.
Qed.

Section Uniform.
  Variable dl : R.
  Hypothesis Hd : 0 < dl < PI.

  Lemma down_val : forall x, x = dl \/ x = dl - 2 * PI -> pmod (x + PI) (2 * PI) - PI = dl.
  Proof.
    pose proof PI_RGT_0. intros x [-> | ->].
    - rewrite (pmod_unique _ _ 0%Z); lra.
    - rewrite (pmod_unique _ _ (-1)%Z); lra.
  Qed.

  Lemma up_val : forall y, y = - dl \/ y = 2 * PI - dl -> pmod (- (y + PI)) (2 * PI) - PI = dl.
  Proof.
    pose proof PI_RGT_0. intros y [-> | ->].
    - rewrite (pmod_unique _ _ (-1)%Z); lra.
    - rewrite (pmod_unique _ _ (-2)%Z); lra.
  Qed.
End Uniform.

Lemma incr_newton_ugrid : forall t0 n, (3 <= n)%nat ->
  incr_newton (ugrid t0 (2 * PI / INR n) n) = map (fun _ => 2 * PI / INR n) (seq 0 n).
Proof.
  intros t0 n Hn. unfold incr_newton. rewrite ugrid_length.
  apply map_ext_in. intros j Hj. apply in_seq in Hj.
  set (dl := 2 * PI / INR n).
  assert (HN : 3 <= INR n). { replace 3 with (INR 3) by (simpl; lra). apply le_INR. auto. }
  pose proof PI_RGT_0 as Hpi.
  assert (Hdl : 0 < dl < PI).
  { unfold dl. split.
    - apply Rdiv_lt_0_compat; lra.
    - apply Rmult_lt_reg_r with (INR n); [lra|]. unfold Rdiv. rewrite Rmult_assoc, Rinv_l by lra. nra. }
  assert (Hnd : INR n * dl = 2 * PI). { unfold dl. field. lra. }
  assert (Hr : forall i, (i < n)%nat -> rnth (ugrid t0 dl n) i = t0 + INR i * dl).
  { intros i Hi. unfold rnth, ugrid. rewrite nth_map_seq by auto. reflexivity. }
  rewrite (Hr j) by lia.
  rewrite (Hr ((j + n - 1) mod n)%nat) by (apply Nat.mod_upper_bound; lia).
  rewrite (Hr ((j + 1) mod n)%nat) by (apply Nat.mod_upper_bound; lia).
  rewrite (down_val dl Hdl), (up_val dl Hdl). { field. }
  - (* next point *)
    destruct (Nat.eq_dec j (n - 1)) as [E|E].
    + right. replace ((j + 1) mod n)%nat with 0%nat.
      2:{ subst j. replace (n - 1 + 1)%nat with n by lia. symmetry. apply Nat.mod_same. lia. }
      subst j. rewrite minus_INR by lia. simpl. rewrite <- Hnd. ring.
    + left. rewrite Nat.mod_small by lia. rewrite plus_INR. simpl. ring.
  - (* previous point *)
    destruct (Nat.eq_dec j 0) as [E|E].
    + right. subst j. replace ((0 + n - 1) mod n)%nat with (n - 1)%nat by (symmetry; apply Nat.mod_small; lia).
      rewrite minus_INR by lia. simpl. rewrite <- Hnd. ring.
    + left. replace ((j + n - 1) mod n)%nat with (j - 1)%nat.
      2:{ replace (j + n - 1)%nat with ((j - 1) + 1 * n)%nat by lia.
          rewrite Nat.mod_add by lia. symmetry. apply Nat.mod_small. lia. }
      rewrite minus_INR by lia. simpl. ring.
Qed.

Lemma incr_newton_uniform : forall n, (3 <= n)%nat ->
  incr_newton (to_rad (linspace360 n)) = map (fun _ => 2 * PI / INR n) (seq 0 n).
Proof. intros. rewrite to_rad_linspace by lia. apply incr_newton_ugrid. auto. Qed.

(* hence the guard of estimate_entry passes on np.linspace(0, 360, N) *)
Lemma incr_ok_linspace : forall n, (3 <= n)%nat -> incr_ok (incr_newton (to_rad (linspace360 n))) = true.
Proof.
  intros n Hn. rewrite incr_newton_uniform by auto. unfold incr_ok. apply forallb_forall.
  intros x Hx. apply in_map_iff in Hx. destruct Hx as (_ & <- & _).
  destruct (Rlt_dec 0 (2 * PI / INR n)); auto. exfalso. apply n0.
  pose proof PI_RGT_0. apply Rdiv_lt_0_compat; [lra|]. apply lt_0_INR. lia.
Qed.
