(* Proofs about Model/Estimators.v, part 5: the midpoint-rule direction increments on a uniform grid,
   and correctness of the unrolled Cholesky solve. *)
From Coq Require Import Reals List Arith Lra Lia.
From OSU.Model Require Import Estimators.
From OSU.Lib Require Import EstAuxSums.
From OSU.Proofs Require Import Estimators Estimators3 Estimators4.
Import ListNotations.
Open Scope R_scope.

Lemma pmod_unique : forall x p z, 0 < p -> IZR z * p <= x < (IZR z + 1) * p -> pmod x p = x - IZR z * p.
Proof.
  intros x p z Hp [H1 H2]. unfold pmod.
  assert (E : z = Int_part (x / p)).
  { unfold Int_part. rewrite <- (up_tech (x / p) z).
    - ring.
    - apply Rmult_le_reg_r with p; auto. unfold Rdiv.
      replace (x * / p * p) with x by (field; lra). lra.
    - rewrite plus_IZR. apply Rmult_lt_reg_r with p; auto. unfold Rdiv.
      replace (x * / p * p) with x by (field; lra). simpl. lra. }
  rewrite <- E. reflexivity.
Qed.

Section Uniform.
  Variable dl : R.
  Hypothesis Hd : 0 < dl < PI.

  Lemma down_val : forall x, x = dl \/ x = dl - 2 * PI -> pmod (x + PI) (2 * PI) - PI = dl.
  Proof.
    pose proof PI_RGT_0. intros x [-> | ->].
    - rewrite (pmod_unique _ _ 0%Z); lra.
    - rewrite (pmod_unique _ _ (-1)%Z); lra.
  Qed.

  Lemma up_val : forall y, y = - dl \/ y = 2 * PI - dl -> pmod (- (y + PI)) (2 * PI) - PI = dl.
  Proof.
    pose proof PI_RGT_0. intros y [-> | ->].
    - rewrite (pmod_unique _ _ (-1)%Z); lra.
    - rewrite (pmod_unique _ _ (-2)%Z); lra.
  Qed.
End Uniform.

Lemma incr_newton_ugrid : forall t0 n, (3 <= n)%nat ->
  incr_newton (ugrid t0 (2 * PI / INR n) n) = map (fun _ => 2 * PI / INR n) (seq 0 n).
Proof.
  intros t0 n Hn. unfold incr_newton. rewrite ugrid_length.
  apply map_ext_in. intros j Hj. apply in_seq in Hj.
  set (dl := 2 * PI / INR n).
  assert (HN : 3 <= INR n). { replace 3 with (INR 3) by (simpl; lra). apply le_INR. auto. }
  pose proof PI_RGT_0 as Hpi.
  assert (Hdl : 0 < dl < PI).
  { unfold dl. split.
    - apply Rdiv_lt_0_compat; lra.
    - apply Rmult_lt_reg_r with (INR n); [lra|]. unfold Rdiv. rewrite Rmult_assoc, Rinv_l by lra. nra. }
  assert (Hnd : INR n * dl = 2 * PI). { unfold dl. field. lra. }
  assert (Hr : forall i, (i < n)%nat -> rnth (ugrid t0 dl n) i = t0 + INR i * dl).
  { intros i Hi. unfold rnth, ugrid. rewrite nth_map_seq by auto. reflexivity. }
  rewrite (Hr j) by lia.
  rewrite (Hr ((j + n - 1) mod n)%nat) by (apply Nat.mod_upper_bound; lia).
  rewrite (Hr ((j + 1) mod n)%nat) by (apply Nat.mod_upper_bound; lia).
  rewrite (down_val dl Hdl), (up_val dl Hdl). { field. }
  - (* next point *)
    destruct (Nat.eq_dec j (n - 1)) as [E|E].
    + right. replace ((j + 1) mod n)%nat with 0%nat.
      2:{ subst j. replace (n - 1 + 1)%nat with n by lia. symmetry. apply Nat.mod_same. lia. }
      subst j. rewrite minus_INR by lia. simpl. rewrite <- Hnd. ring.
    + left. rewrite Nat.mod_small by lia. rewrite plus_INR. simpl. ring.
  - (* previous point *)
    destruct (Nat.eq_dec j 0) as [E|E].
    + right. subst j. replace ((0 + n - 1) mod n)%nat with (n - 1)%nat by (symmetry; apply Nat.mod_small; lia).
      rewrite minus_INR by lia. simpl. rewrite <- Hnd. ring.
    + left. replace ((j + n - 1) mod n)%nat with (j - 1)%nat.
      2:{ replace (j + n - 1)%nat with ((j - 1) + 1 * n)%nat by lia.
          rewrite Nat.mod_add by lia. symmetry. apply Nat.mod_small. lia. }
      rewrite minus_INR by lia. simpl. ring.
Qed.

Lemma incr_newton_uniform : forall n, (3 <= n)%nat ->
  incr_newton (to_rad (linspace360 n)) = map (fun _ => 2 * PI / INR n) (seq 0 n).
Proof. intros. rewrite to_rad_linspace by lia. apply incr_newton_ugrid. auto. Qed.

(* hence the guard of estimate_entry passes on np.linspace(0, 360, N) *)
Lemma incr_ok_linspace : forall n, (3 <= n)%nat -> incr_ok (incr_newton (to_rad (linspace360 n))) = true.
Proof.
  intros n Hn. rewrite incr_newton_uniform by auto. unfold incr_ok. apply forallb_forall.
  intros x Hx. apply in_map_iff in Hx. destruct Hx as (_ & <- & _).
  destruct (Rlt_dec 0 (2 * PI / INR n)); auto. exfalso. apply n0.
  pose proof PI_RGT_0. apply Rdiv_lt_0_compat; [lra|]. apply lt_0_INR. lia.
Qed.

Lemma wsum_const : forall {A} f (l : list A) c, length f = length l -> wsum f (map (fun _ => c) l) = sumR f * c.
Proof.
  intros A f. induction f; intros l c H; destruct l; simpl in *; try discriminate.
  - unfold wsum. simpl. lra.
  - rewrite wsum_cons, (IHf l c) by lia. lra.
Qed.

(* the statement of the property on the grid of as_frequency_direction_spectrum:
   positive values, sum * 360/N = 1, for the Newton and the approximate variant, any finite moments *)
Lemma mem2_estimate_valid_linspace : forall v n a1 b1 a2 b2 D,
  v <> VMem -> (3 <= n)%nat ->
  estimate_entry v (linspace360 n) (Some a1) (Some b1) (Some a2) (Some b2) = EDist D ->
  exists xs, D = map Some xs /\ Forall (fun x => 0 < x) xs /\ sumR xs * (360 / INR n) = 1 /\ length xs = n.
Proof.
  intros v n a1 b1 a2 b2 D Hv Hn H.
  assert (Hne : linspace360 n <> []).
  { unfold linspace360. destruct n; [lia|]. simpl. congruence. }
  destruct (mem2_estimate_valid v _ _ _ _ _ _ Hv Hne H) as (xs & HD & Hp & Hs & Hl).
  assert (Hln : length (linspace360 n) = n) by (unfold linspace360; rewrite map_length, seq_length; reflexivity).
  exists xs. repeat split; auto; [|lia].
  rewrite incr_newton_uniform, map_map in Hs by auto.
  rewrite wsum_const in Hs by (rewrite seq_length; lia).
  rewrite <- Hs. unfold jac_deg. field.
  pose proof PI_RGT_0. split; [|lra]. apply not_0_INR. lia.
Qed.

(* ------------------------------------------------------------------ *)
(* solve_cholesky: when all four pivots are positive the returned x solves A x = r, where A is the
   symmetric matrix whose lower triangle the code reads                                            *)
(* ------------------------------------------------------------------ *)
Definition symA (A : nat -> nat -> R) (m n : nat) : R := if (n <=? m)%nat then A m n else A n m.
Definition matvec4 (A : nat -> nat -> R) (x : V4) (m : nat) : R :=
  A m 0%nat * q1 x + A m 1%nat * q2 x + A m 2%nat * q3 x + A m 3%nat * q4 x.

Lemma chol_solve_correct : forall A r x lg,
  chol_solve A r = (Some x, lg) ->
  matvec4 (symA A) x 0 = q1 r /\ matvec4 (symA A) x 1 = q2 r /\
  matvec4 (symA A) x 2 = q3 r /\ matvec4 (symA A) x 3 = q4 r.
Proof.
  intros A r x lg H. unfold chol_solve in H. cbv zeta in H.
  destruct (Rle_dec (A 0%nat 0%nat) 0) as [|P0]; [discriminate|].
  set (l00 := sqrt (A 0%nat 0%nat)) in *.
  set (l10 := 1 / l00 * A 1%nat 0%nat) in *.
  destruct (Rle_dec (A 1%nat 1%nat - l10 * l10) 0) as [|P1]; [discriminate|].
  set (l11 := sqrt (A 1%nat 1%nat - l10 * l10)) in *.
  set (l20 := 1 / l00 * A 2%nat 0%nat) in *.
  set (l21 := 1 / l11 * (A 2%nat 1%nat - l20 * l10)) in *.
  destruct (Rle_dec (A 2%nat 2%nat - l20 * l20 - l21 * l21) 0) as [|P2]; [discriminate|].
  set (l22 := sqrt (A 2%nat 2%nat - l20 * l20 - l21 * l21)) in *.
  set (l30 := 1 / l00 * A 3%nat 0%nat) in *.
  set (l31 := 1 / l11 * (A 3%nat 1%nat - l30 * l10)) in *.
  set (l32 := 1 / l22 * (A 3%nat 2%nat - l30 * l20 - l31 * l21)) in *.
  destruct (Rle_dec (A 3%nat 3%nat - l30 * l30 - l31 * l31 - l32 * l32) 0) as [|P3]; [discriminate|].
  set (l33 := sqrt (A 3%nat 3%nat - l30 * l30 - l31 * l31 - l32 * l32)) in *.
  inversion H; subst x; clear H.
  assert (S0 : l00 * l00 = A 0%nat 0%nat) by (apply sqrt_sqrt; lra).
  assert (S1 : l11 * l11 = A 1%nat 1%nat - l10 * l10) by (apply sqrt_sqrt; lra).
  assert (S2 : l22 * l22 = A 2%nat 2%nat - l20 * l20 - l21 * l21) by (apply sqrt_sqrt; lra).
  assert (S3 : l33 * l33 = A 3%nat 3%nat - l30 * l30 - l31 * l31 - l32 * l32) by (apply sqrt_sqrt; lra).
  assert (N0 : l00 <> 0) by (intro Z; rewrite Z in S0; lra).
  assert (N1 : l11 <> 0) by (intro Z; rewrite Z in S1; lra).
  assert (N2 : l22 <> 0) by (intro Z; rewrite Z in S2; lra).
  assert (N3 : l33 <> 0) by (intro Z; rewrite Z in S3; lra).
  (* express the matrix through the factor: A = L L^T on the lower triangle *)
  assert (A00 : A 0%nat 0%nat = l00 * l00) by lra.
  assert (A10 : A 1%nat 0%nat = l10 * l00) by (unfold l10; field; auto).
  assert (A11 : A 1%nat 1%nat = l10 * l10 + l11 * l11) by lra.
  assert (A20 : A 2%nat 0%nat = l20 * l00) by (unfold l20; field; auto).
  assert (A21 : A 2%nat 1%nat = l20 * l10 + l21 * l11) by (unfold l21; field; auto).
  assert (A22 : A 2%nat 2%nat = l20 * l20 + l21 * l21 + l22 * l22) by lra.
  assert (A30 : A 3%nat 0%nat = l30 * l00) by (unfold l30; field; auto).
  assert (A31 : A 3%nat 1%nat = l30 * l10 + l31 * l11) by (unfold l31; field; auto).
  assert (A32 : A 3%nat 2%nat = l30 * l20 + l31 * l21 + l32 * l22) by (unfold l32; field; auto).
  assert (A33 : A 3%nat 3%nat = l30 * l30 + l31 * l31 + l32 * l32 + l33 * l33) by lra.
  unfold matvec4, symA; simpl.
  rewrite A00, A10, A11, A20, A21, A22, A30, A31, A32, A33.
  clearbody l00 l10 l11 l20 l21 l22 l30 l31 l32 l33.
  repeat split; field; auto.
Qed.
